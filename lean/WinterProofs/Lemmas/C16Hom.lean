-- C16: naturality of the `Ops`-generic model.  If raw-word operations `O : Ops ℕ` refine the field
-- `ZMod p` through an abstraction `val` on the words satisfying an invariant `ok` (this is what
-- property C07 proves for the three base fields), then every model function run on raw words
-- commutes with `val`: it returns invariant-satisfying words whose abstraction is what the same
-- function returns when run with the field operations `absOps` on the abstractions.
import Mathlib.Algebra.Field.ZMod
import WinterProofs.Lemmas.C16Field
import WinterProofs.Lemmas.C16Model

set_option linter.unusedSectionVars false

namespace WinterProofs.C16L
open Model.Divisor

/-- the raw-word operations `O` compute in `ZMod p` (exponents and integers are machine words) -/
structure Refines (O : Ops ℕ) (p : ℕ) [Fact p.Prime] (ok : ℕ → Prop) (val : ℕ → ZMod p) (T : ℕ) : Prop where
  zero : ok O.zero ∧ val O.zero = 0
  one : ok O.one ∧ val O.one = 1
  add : ∀ a b, ok a → ok b → ok (O.add a b) ∧ val (O.add a b) = val a + val b
  sub : ∀ a b, ok a → ok b → ok (O.sub a b) ∧ val (O.sub a b) = val a - val b
  mul : ∀ a b, ok a → ok b → ok (O.mul a b) ∧ val (O.mul a b) = val a * val b
  pow : ∀ a e, ok a → e < 2 ^ 64 → ok (O.pow a e) ∧ val (O.pow a e) = val a ^ e
  div : ∀ a b, ok a → ok b → ∃ r, O.div a b = some r ∧ ok r ∧ val r = val a / val b
  ofNat : ∀ n, n < 2 ^ 64 → ok (O.ofNat n) ∧ val (O.ofNat n) = (n : ZMod p)
  /-- `get_root_of_unity(k)` panics outside `1..T` -/
  root_none : ∀ k, k = 0 ∨ k > T → O.root k = none
  /-- … and otherwise returns an element of exact order `2^k` -/
  root_some : ∀ k, 1 ≤ k → k ≤ T → ∃ r, O.root k = some r ∧ ok r ∧ orderOf (val r) = 2 ^ k
  /-- the roots of unity are coherent: all are powers of the same two-adic root -/
  root_coh : ∀ k m r s, O.root k = some r → O.root m = some s → m ≤ k → val s = val r ^ 2 ^ (k - m)

variable {O : Ops ℕ} {p : ℕ} [Fact p.Prime] {ok : ℕ → Prop} {val : ℕ → ZMod p} {T : ℕ}

/-- the field-side operations the raw operations refine -/
noncomputable def absOps (O : Ops ℕ) (val : ℕ → ZMod p) : Ops (ZMod p) :=
  fieldOps (ZMod p) (fun k => (O.root k).map val)

-- ------------------------------------------------------------------ folds
theorem foldl_rel {β γ : Type} (f : ℕ → β → ℕ) (f' : ZMod p → γ → ZMod p) (m : β → γ) (P : β → Prop)
    (hstep : ∀ acc b, ok acc → P b → ok (f acc b) ∧ val (f acc b) = f' (val acc) (m b))
    (l : List β) (hl : ∀ b ∈ l, P b) (acc : ℕ) (hacc : ok acc) :
    ok (l.foldl f acc) ∧ val (l.foldl f acc) = (l.map m).foldl f' (val acc) := by
  induction l generalizing acc with
  | nil => exact ⟨hacc, rfl⟩
  | cons b l ih =>
    obtain ⟨h1, h2⟩ := hstep acc b hacc (hl b List.mem_cons_self)
    have := ih (fun b hb => hl b (List.mem_cons_of_mem _ hb)) (f acc b) h1
    simp only [List.foldl_cons, List.map_cons]
    rw [← h2]; exact this

theorem foldr_rel (f : ℕ → ℕ → ℕ) (f' : ZMod p → ZMod p → ZMod p)
    (hstep : ∀ b acc, ok b → ok acc → ok (f b acc) ∧ val (f b acc) = f' (val b) (val acc))
    (l : List ℕ) (hl : ∀ b ∈ l, ok b) (init : ℕ) (hinit : ok init) :
    ok (l.foldr f init) ∧ val (l.foldr f init) = (l.map val).foldr f' (val init) := by
  induction l with
  | nil => exact ⟨hinit, rfl⟩
  | cons b l ih =>
    obtain ⟨h1, h2⟩ := ih (fun b hb => hl b (List.mem_cons_of_mem _ hb))
    obtain ⟨h3, h4⟩ := hstep b _ (hl b List.mem_cons_self) h1
    simp only [List.foldr_cons, List.map_cons]
    rw [← h2]; exact ⟨h3, h4⟩

-- ------------------------------------------------------------------ divisors
/-- all stored constants satisfy the invariant and all degrees are machine words -/
def okDiv (ok : ℕ → Prop) (d : Divisor ℕ) : Prop :=
  (∀ t ∈ d.numerator, ok t.2 ∧ t.1 < 2 ^ 64) ∧ ∀ e ∈ d.exemptions, ok e

def mapDiv (val : ℕ → ZMod p) (d : Divisor ℕ) : Divisor (ZMod p) :=
  ⟨d.numerator.map (fun t => (t.1, val t.2)), d.exemptions.map val⟩

theorem degree_nat (d : Divisor ℕ) : (mapDiv val d).degree = d.degree := by
  have : ∀ (l : List (ℕ × ℕ)) (a : ℕ),
      (l.map (fun t => (t.1, val t.2))).foldl (fun acc t => acc + t.1) a = l.foldl (fun acc t => acc + t.1) a := by
    intro l; induction l with
    | nil => intro a; rfl
    | cons t l ih => intro a; simp only [List.map_cons, List.foldl_cons]; exact ih _
  simp only [Divisor.degree, mapDiv, List.length_map, this]

theorem evalNumerator_nat (H : Refines O p ok val T) (d : Divisor ℕ) (hd : okDiv ok d) (x : ℕ) (hx : ok x) :
    ok (d.evalNumerator O x) ∧
      val (d.evalNumerator O x) = (mapDiv val d).evalNumerator (absOps O val) (val x) := by
  have := foldl_rel (ok := ok) (val := val)
    (fun acc (t : ℕ × ℕ) => O.mul acc (O.sub (O.pow x t.1) t.2))
    (fun acc (t : ℕ × ZMod p) => acc * (val x ^ t.1 - t.2)) (fun t => (t.1, val t.2))
    (fun t => ok t.2 ∧ t.1 < 2 ^ 64)
    (fun acc t hacc ht => by
      obtain ⟨h1, h2⟩ := H.pow x t.1 hx ht.2
      obtain ⟨h3, h4⟩ := H.sub _ _ h1 ht.1
      obtain ⟨h5, h6⟩ := H.mul _ _ hacc h3
      exact ⟨h5, by rw [h6, h4, h2]⟩)
    d.numerator hd.1 O.one H.one.1
  rw [H.one.2] at this
  exact this

theorem evalExemptions_nat (H : Refines O p ok val T) (d : Divisor ℕ) (hd : okDiv ok d) (x : ℕ) (hx : ok x) :
    ok (d.evalExemptions O x) ∧
      val (d.evalExemptions O x) = (mapDiv val d).evalExemptions (absOps O val) (val x) := by
  have := foldl_rel (ok := ok) (val := val)
    (fun r e => O.mul r (O.sub x e)) (fun r (e : ZMod p) => r * (val x - e)) val ok
    (fun acc e hacc he => by
      obtain ⟨h3, h4⟩ := H.sub _ _ hx he
      obtain ⟨h5, h6⟩ := H.mul _ _ hacc h3
      exact ⟨h5, by rw [h6, h4]⟩)
    d.exemptions hd.2 O.one H.one.1
  rw [H.one.2] at this
  exact this

/-- `evaluate_at` on raw words returns (no hang) an invariant-satisfying word whose abstraction is
    the field-side `evaluate_at` of the abstractions -/
theorem evalAt_nat (H : Refines O p ok val T) (d : Divisor ℕ) (hd : okDiv ok d) (x : ℕ) (hx : ok x) :
    ∃ r, d.evalAt O x = some r ∧ ok r ∧ (mapDiv val d).evalAt (absOps O val) (val x) = some (val r) := by
  obtain ⟨h1, h2⟩ := evalNumerator_nat H d hd x hx
  obtain ⟨h3, h4⟩ := evalExemptions_nat H d hd x hx
  obtain ⟨r, hr, hok, hv⟩ := H.div _ _ h1 h3
  refine ⟨r, hr, hok, ?_⟩
  unfold Divisor.evalAt
  rw [← h2, ← h4, hv]
  rfl

theorem fromTransition_nat (H : Refines O p ok val T) {n e : ℕ} (hn : n < 2 ^ 64) (he : e ≤ n)
    {g : ℕ} (hg : O.root (Nat.log2 n) = some g) (hgok : ok g) :
    ∃ d, fromTransition O n e = .ok d ∧ okDiv ok d ∧
      fromTransition (absOps O val) n e = .ok (mapDiv val d) := by
  unfold fromTransition
  simp only [if_neg (show ¬ e > n by omega)]
  by_cases h0 : e = 0
  · subst h0
    simp only [if_true]
    refine ⟨_, rfl, ?_, ?_⟩
    · exact ⟨fun t ht => by simp only [List.mem_singleton] at ht; subst ht; exact ⟨H.one.1, hn⟩, by simp⟩
    · show Res.ok _ = Res.ok _
      simp only [mapDiv, List.map_cons, List.map_nil, H.one.2]
      rfl
  · simp only [if_neg h0]
    rw [hg]
    have hr : (absOps O val).root (Nat.log2 n) = some (val g) := by
      show (O.root (Nat.log2 n)).map val = _
      rw [hg]; rfl
    rw [hr]
    refine ⟨_, rfl, ?_, ?_⟩
    · refine ⟨fun t ht => by simp only [List.mem_singleton] at ht; subst ht; exact ⟨H.one.1, hn⟩, ?_⟩
      intro x hx
      simp only [List.mem_map, List.mem_range'_1] at hx
      obtain ⟨s, hs, rfl⟩ := hx
      exact (H.pow g s hgok (by omega)).1
    · show Res.ok _ = Res.ok _
      simp only [mapDiv, List.map_cons, List.map_nil, H.one.2, List.map_map]
      congr 2
      apply List.map_congr_left
      intro s hs
      simp only [List.mem_range'_1] at hs
      exact ((H.pow g s hgok (by omega)).2).symm

-- ------------------------------------------------------------------ assertions
def mapA (val : ℕ → ZMod p) (a : Assertion ℕ) : Assertion (ZMod p) :=
  ⟨a.column, a.first, a.stride, a.values.map val⟩

theorem mapA_wf (a : Assertion ℕ) : WF (mapA val a) ↔ WF a := by
  simp [WF, mapA]

theorem mapA_validate (a : Assertion ℕ) (n : ℕ) :
    (mapA val a).validateTraceLength n = a.validateTraceLength n := by
  simp [Assertion.validateTraceLength, Assertion.isSingle, Assertion.isPeriodic, mapA]

theorem mapA_stepList (a : Assertion ℕ) (n : ℕ) : (mapA val a).stepList n = a.stepList n := by
  simp [Assertion.stepList, Assertion.isSingle, Assertion.isPeriodic, mapA]

theorem mapA_getNumSteps (a : Assertion ℕ) (n : ℕ) : (mapA val a).getNumSteps n = a.getNumSteps n := by
  unfold Assertion.getNumSteps
  rw [mapA_validate]
  simp [Assertion.isSingle, Assertion.isPeriodic, mapA]

theorem fromAssertion_nat (H : Refines O p ok val T) {n : ℕ} (hn : n < 2 ^ 64) (a : Assertion ℕ)
    {g : ℕ} (hg : O.root (Nat.log2 n) = some g) (hgok : ok g)
    {d' : Divisor (ZMod p)} (h' : fromAssertion (absOps O val) (mapA val a) n = .ok d') :
    ∃ d, fromAssertion O a n = .ok d ∧ okDiv ok d ∧ d' = mapDiv val d := by
  unfold fromAssertion at h' ⊢
  rw [mapA_getNumSteps] at h'
  cases hk : a.getNumSteps n with
  | panic s => rw [hk] at h'; cases h'
  | ok k =>
    rw [hk] at h'
    simp only at h' ⊢
    have hkn : k ≤ n := by
      cases hv : a.validateTraceLength n with
      | error e => unfold Assertion.getNumSteps at hk; rw [hv] at hk; cases hk
      | ok u =>
        cases u
        rw [getNumSteps_ok hv] at hk
        cases hk
        obtain ⟨_, hf⟩ := (validateTraceLength_ok_iff a n).mp hv
        rw [stepList_length]
        unfold FitsLen at hf
        by_cases h0 : a.stride = 0
        · rw [if_pos h0] at hf ⊢; omega
        · rw [if_neg h0] at hf ⊢
          by_cases h1 : a.values.length = 1
          · rw [if_pos h1]; exact Nat.div_le_self _ _
          · rw [if_neg h1] at hf ⊢
            rw [← hf]; exact Nat.le_mul_of_pos_right _ (Nat.pos_of_ne_zero h0)
    have hfirst : (mapA val a).first = a.first := rfl
    rw [hfirst] at h'
    by_cases hf : a.first = 0
    · rw [if_pos hf] at h' ⊢
      cases h'
      refine ⟨_, rfl, ⟨fun t ht => by simp only [List.mem_singleton] at ht; subst ht; exact ⟨H.one.1, by omega⟩, by simp⟩, ?_⟩
      simp only [mapDiv, List.map_cons, List.map_nil, H.one.2]
      rfl
    · rw [if_neg hf] at h' ⊢
      unfold traceDomainValueAt at h' ⊢
      by_cases hstep : k * a.first ≥ n
      · rw [if_pos hstep] at h'; cases h'
      · rw [if_neg hstep] at h' ⊢
        have hr : (absOps O val).root (Nat.log2 n) = some (val g) := by
          show (O.root (Nat.log2 n)).map val = _
          rw [hg]; rfl
        rw [hr] at h'
        rw [hg]
        simp only at h' ⊢
        cases h'
        obtain ⟨h1, h2⟩ := H.pow g (k * a.first) hgok (by omega)
        refine ⟨_, rfl, ⟨fun t ht => by simp only [List.mem_singleton] at ht; subst ht; exact ⟨h1, by omega⟩, by simp⟩, ?_⟩
        simp only [mapDiv, List.map_cons, List.map_nil, h2]
        rfl

-- ------------------------------------------------------------------ boundary constraints
theorem polyEval_nat (H : Refines O p ok val T) (poly : List ℕ) (hp : ∀ v ∈ poly, ok v) (x : ℕ) (hx : ok x) :
    ok (polyEval O poly x) ∧ val (polyEval O poly x) = polyEval (absOps O val) (poly.map val) (val x) := by
  have := foldr_rel (ok := ok) (val := val) (fun c acc => O.add (O.mul acc x) c)
    (fun c acc => acc * val x + c)
    (fun b acc hb hacc => by
      obtain ⟨h1, h2⟩ := H.mul _ _ hacc hx
      obtain ⟨h3, h4⟩ := H.add _ _ h1 hb
      exact ⟨h3, by rw [h4, h2]⟩)
    poly hp O.zero H.zero.1
  rw [H.zero.2] at this
  exact this

theorem interpolate_nat (H : Refines O p ok val T) (vs : List ℕ) (hvs : ∀ v ∈ vs, ok v)
    (hm : vs.length < 2 ^ 64) {w : ℕ} (hw : O.root (Nat.log2 vs.length) = some w) (hwok : ok w) :
    ∃ poly, interpolate O vs = some poly ∧ (∀ v ∈ poly, ok v) ∧
      interpolate (absOps O val) (vs.map val) = some (poly.map val) := by
  obtain ⟨hn1, hn2⟩ := H.ofNat vs.length hm
  obtain ⟨minv, hminv, hminvok, hminvval⟩ := H.div _ _ H.one.1 hn1
  have hr : (absOps O val).root (Nat.log2 vs.length) = some (val w) := by
    show (O.root (Nat.log2 vs.length)).map val = _
    rw [hw]; rfl
  have hd : (absOps O val).div (absOps O val).one ((absOps O val).ofNat vs.length) = some (val minv) := by
    show some ((1 : ZMod p) / (vs.length : ZMod p)) = _
    rw [hminvval, H.one.2, hn2]
  -- one coefficient
  have hcoef : ∀ k, ok (O.mul (vs.zipIdx.foldl (fun acc (t : ℕ × ℕ) =>
        O.add acc (O.mul t.1 (O.pow w ((vs.length - (t.2 * k) % vs.length) % vs.length)))) O.zero) minv) ∧
      val (O.mul (vs.zipIdx.foldl (fun acc (t : ℕ × ℕ) =>
        O.add acc (O.mul t.1 (O.pow w ((vs.length - (t.2 * k) % vs.length) % vs.length)))) O.zero) minv)
      = ((vs.map val).zipIdx.foldl (fun acc (t : ZMod p × ℕ) =>
        acc + t.1 * (val w) ^ ((vs.length - (t.2 * k) % vs.length) % vs.length)) 0) * val minv := by
    intro k
    have := foldl_rel (ok := ok) (val := val)
      (fun acc (t : ℕ × ℕ) => O.add acc (O.mul t.1 (O.pow w ((vs.length - (t.2 * k) % vs.length) % vs.length))))
      (fun acc (t : ZMod p × ℕ) => acc + t.1 * (val w) ^ ((vs.length - (t.2 * k) % vs.length) % vs.length))
      (Prod.map val id) (fun t => ok t.1)
      (fun acc t hacc ht => by
        have he : (vs.length - (t.2 * k) % vs.length) % vs.length < 2 ^ 64 :=
          Nat.lt_of_le_of_lt (Nat.le_trans (Nat.mod_le _ _) (Nat.sub_le _ _)) hm
        obtain ⟨h1, h2⟩ := H.pow w _ hwok he
        obtain ⟨h3, h4⟩ := H.mul _ _ ht h1
        obtain ⟨h5, h6⟩ := H.add _ _ hacc h3
        exact ⟨h5, by rw [h6, h4, h2]; rfl⟩)
      vs.zipIdx (fun t ht => hvs _ (List.fst_mem_of_mem_zipIdx ht)) O.zero H.zero.1
    rw [H.zero.2, List.map_zipIdx] at this
    obtain ⟨h1, h2⟩ := H.mul _ _ this.1 hminvok
    exact ⟨h1, by rw [h2, this.2]⟩
  refine ⟨(List.range vs.length).map (fun k => O.mul (vs.zipIdx.foldl (fun acc (t : ℕ × ℕ) =>
        O.add acc (O.mul t.1 (O.pow w ((vs.length - (t.2 * k) % vs.length) % vs.length)))) O.zero) minv),
    ?_, ?_, ?_⟩
  · unfold interpolate
    simp only [hw, hminv]
  · intro v hv
    simp only [List.mem_map, List.mem_range] at hv
    obtain ⟨k, _, rfl⟩ := hv
    exact (hcoef k).1
  · unfold interpolate
    simp only [List.length_map, hr, hd, List.map_map]
    congr 1
    apply List.map_congr_left
    intro k _
    exact ((hcoef k).2).symm

def okC (ok : ℕ → Prop) (c : BConstraint ℕ) : Prop := (∀ v ∈ c.poly, ok v) ∧ ok c.offsetElem

def mapC (val : ℕ → ZMod p) (c : BConstraint ℕ) : BConstraint (ZMod p) :=
  ⟨c.column, c.poly.map val, c.offsetSteps, val c.offsetElem⟩

theorem bcNew_nat (H : Refines O p ok val T) (a : Assertion ℕ) (hvs : ∀ v ∈ a.values, ok v)
    (hm : a.values.length < 2 ^ 64) (hf : a.first < 2 ^ 64)
    (hw : 1 < a.values.length → ∃ w, O.root (Nat.log2 a.values.length) = some w ∧ ok w)
    (invG : ℕ) (hinv : ok invG) :
    ∃ c, BConstraint.new O a invG = some c ∧ okC ok c ∧
      BConstraint.new (absOps O val) (mapA val a) (val invG) = some (mapC val c) := by
  unfold BConstraint.new
  have hlen : (mapA val a).values.length = a.values.length := by simp [mapA]
  rw [hlen]
  by_cases h1 : a.values.length > 1
  · obtain ⟨w, hw, hwok⟩ := hw h1
    obtain ⟨poly, hp, hpok, hp'⟩ := interpolate_nat H a.values hvs hm hw hwok
    have hp'' : interpolate (absOps O val) (mapA val a).values = some (poly.map val) := hp'
    simp only [if_pos h1, hp, hp'']
    have hfirst : (mapA val a).first = a.first := rfl
    rw [hfirst]
    by_cases h0 : a.first ≠ 0
    · simp only [if_pos h0]
      obtain ⟨h2, h3⟩ := H.pow invG a.first hinv hf
      refine ⟨_, rfl, ⟨hpok, h2⟩, ?_⟩
      simp only [mapC, h3]
      rfl
    · simp only [if_neg h0]
      refine ⟨_, rfl, ⟨hpok, H.one.1⟩, ?_⟩
      simp only [mapC, H.one.2]
      rfl
  · simp only [if_neg h1]
    refine ⟨_, rfl, ⟨hvs, H.one.1⟩, ?_⟩
    simp only [mapC, H.one.2]
    rfl

theorem bcValue_nat (H : Refines O p ok val T) (c : BConstraint ℕ) (hc : okC ok c) (x : ℕ) (hx : ok x) :
    ok (c.value O x) ∧ val (c.value O x) = (mapC val c).value (absOps O val) (val x) := by
  obtain ⟨hm1, hm2⟩ := H.mul x c.offsetElem hx hc.2
  have hpoly := polyEval_nat H c.poly hc.1 (O.mul x c.offsetElem) hm1
  rw [hm2] at hpoly
  unfold BConstraint.value
  match hp : c.poly with
  | [] =>
    rw [hp] at hpoly
    simp only [mapC, hp, List.map_nil]
    exact hpoly
  | [v] =>
    simp only [mapC, hp, List.map_cons, List.map_nil]
    exact ⟨hc.1 v (by rw [hp]; simp), trivial⟩
  | v1 :: v2 :: rest =>
    rw [hp] at hpoly
    simp only [mapC, hp, List.map_cons]
    exact hpoly

theorem bcEvalAt_nat (H : Refines O p ok val T) (c : BConstraint ℕ) (hc : okC ok c) (x t : ℕ) (hx : ok x)
    (ht : ok t) :
    ok (c.evalAt O x t) ∧ val (c.evalAt O x t) = (mapC val c).evalAt (absOps O val) (val x) (val t) := by
  obtain ⟨h1, h2⟩ := bcValue_nat H c hc x hx
  obtain ⟨h3, h4⟩ := H.sub t _ ht h1
  exact ⟨h3, by unfold BConstraint.evalAt; rw [h4, h2]; rfl⟩

end WinterProofs.C16L
