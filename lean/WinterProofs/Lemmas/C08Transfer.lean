-- Helper lemmas for C08: the generated extension formulas and the hand model commute with every homomorphism of
-- operation records.  Used to transport the theorems about `ZMod p` to the raw-word operations of a base field,
-- under the explicit hypothesis (`Implements`, the content of property C07) that those operations implement `ZMod p`.
import WinterProofs.Lemmas.C08Field

set_option linter.unusedSectionVars false
set_option linter.unusedSimpArgs false
namespace WinterProofs.C08L
open Model

/-- `h` commutes with the base operations -/
structure FHom {F G : Type} (O : Gen.FOps F) (O' : Gen.FOps G) (h : F → G) : Prop where
  add : ∀ a b, h (O.add a b) = O'.add (h a) (h b)
  sub : ∀ a b, h (O.sub a b) = O'.sub (h a) (h b)
  mul : ∀ a b, h (O.mul a b) = O'.mul (h a) (h b)
  neg : ∀ a, h (O.neg a) = O'.neg (h a)
  double : ∀ a, h (O.double a) = O'.double (h a)
  square : ∀ a, h (O.square a) = O'.square (h a)
  /-- literals of the formulas (all are 64-bit words; `BaseElement::new` is only defined on machine words) -/
  ofNat : ∀ n, n < 2 ^ 64 → h (O.ofNat n) = O'.ofNat n

structure Ext2Hom {F G : Type} (X : Ext2 F) (X' : Ext2 G) (h : F → G) : Prop where
  mul : ∀ a0 a1 b0 b1, Prod.map h h (X.mul a0 a1 b0 b1) = X'.mul (h a0) (h a1) (h b0) (h b1)
  square : ∀ a0 a1, Prod.map h h (X.square a0 a1) = X'.square (h a0) (h a1)
  mulBase : ∀ a0 a1 b, Prod.map h h (X.mulBase a0 a1 b) = X'.mulBase (h a0) (h a1) (h b)
  frobenius : ∀ a0 a1, Prod.map h h (X.frobenius a0 a1) = X'.frobenius (h a0) (h a1)

structure Ext3Hom {F G : Type} (X : Ext3 F) (X' : Ext3 G) (h : F → G) : Prop where
  mul : ∀ a0 a1 a2 b0 b1 b2, Prod.map h (Prod.map h h) (X.mul a0 a1 a2 b0 b1 b2) =
    X'.mul (h a0) (h a1) (h a2) (h b0) (h b1) (h b2)
  square : ∀ a0 a1 a2, Prod.map h (Prod.map h h) (X.square a0 a1 a2) = X'.square (h a0) (h a1) (h a2)
  mulBase : ∀ a0 a1 a2 b, Prod.map h (Prod.map h h) (X.mulBase a0 a1 a2 b) = X'.mulBase (h a0) (h a1) (h a2) (h b)
  frobenius : ∀ a0 a1 a2, Prod.map h (Prod.map h h) (X.frobenius a0 a1 a2) = X'.frobenius (h a0) (h a1) (h a2)

section Formulas
variable {F G : Type} {O : Gen.FOps F} {O' : Gen.FOps G} {h : F → G}

theorem f64_ext2_hom (H : FHom O O' h) : Ext2Hom (Ext2.f64 O) (Ext2.f64 O') h where
  mul a0 a1 b0 b1 := by
    simp only [Ext2.f64, Gen.F64.ext2_mul, Gen.F64.ext2_mul.s_a0b0, Prod.map, H.add, H.sub, H.mul, H.double]
  square a0 a1 := by
    simp only [Ext2.f64, Gen.F64.ext2_square, Gen.F64.ext2_square.s_a0, Gen.F64.ext2_square.s_a1,
      Gen.F64.ext2_square.s_a1_sq, Gen.F64.ext2_square.s_out0, Gen.F64.ext2_square.s_out1, Prod.map, H.add, H.sub,
      H.mul, H.double, H.square]
  mulBase a0 a1 b := by simp only [Ext2.f64, Gen.F64.ext2_mul_base, Prod.map, H.mul]
  frobenius a0 a1 := by simp only [Ext2.f64, Gen.F64.ext2_frobenius, Prod.map, H.add, H.neg]

theorem f62_ext2_hom (H : FHom O O' h) : Ext2Hom (Ext2.f62 O) (Ext2.f62 O') h where
  mul a0 a1 b0 b1 := by
    simp only [Ext2.f62, Gen.F62.ext2_mul, Gen.F62.ext2_mul.s_z, Prod.map, H.add, H.sub, H.mul]
  square a0 a1 := by
    simp only [Ext2.f62, Gen.F62.ext2_mul, Gen.F62.ext2_mul.s_z, Prod.map, H.add, H.sub, H.mul]
  mulBase a0 a1 b := by simp only [Ext2.f62, Gen.F62.ext2_mul_base, Prod.map, H.mul]
  frobenius a0 a1 := by simp only [Ext2.f62, Gen.F62.ext2_frobenius, Prod.map, H.add, H.neg]

theorem f128_ext2_hom (H : FHom O O' h) : Ext2Hom (Ext2.f128 O) (Ext2.f128 O') h where
  mul a0 a1 b0 b1 := by
    simp only [Ext2.f128, Gen.F128.ext2_mul, Gen.F128.ext2_mul.s_z, Prod.map, H.add, H.sub, H.mul]
  square a0 a1 := by
    simp only [Ext2.f128, Gen.F128.ext2_mul, Gen.F128.ext2_mul.s_z, Prod.map, H.add, H.sub, H.mul]
  mulBase a0 a1 b := by simp only [Ext2.f128, Gen.F128.ext2_mul_base, Prod.map, H.mul]
  frobenius a0 a1 := by simp only [Ext2.f128, Gen.F128.ext2_frobenius, Prod.map, H.add, H.sub, H.ofNat 0 (by decide)]

theorem f64_ext3_hom (H : FHom O O' h) : Ext3Hom (Ext3.f64 O) (Ext3.f64 O') h where
  mul a0 a1 a2 b0 b1 b2 := by
    simp only [Ext3.f64, Gen.F64.ext3_mul, Gen.F64.ext3_mul.s_a0b0, Gen.F64.ext3_mul.s_a1b1,
      Gen.F64.ext3_mul.s_a2b2, Gen.F64.ext3_mul.s_a0b0_a0b1_a1b0_a1b1, Gen.F64.ext3_mul.s_a0b0_a0b2_a2b0_a2b2,
      Gen.F64.ext3_mul.s_a1b1_a1b2_a2b1_a2b2, Gen.F64.ext3_mul.s_a0b0_minus_a1b1,
      Gen.F64.ext3_mul.s_a0b0_a1b2_a2b1, Gen.F64.ext3_mul.s_a0b1_a1b0_a1b2_a2b1_a2b2,
      Gen.F64.ext3_mul.s_a0b2_a1b1_a2b0_a2b2, Prod.map, H.add, H.sub, H.mul, H.double]
  square a0 a1 a2 := by
    simp only [Ext3.f64, Gen.F64.ext3_square, Gen.F64.ext3_square.s_a0,
      Gen.F64.ext3_square.s_a1, Gen.F64.ext3_square.s_a2, Gen.F64.ext3_square.s_a2_sq,
      Gen.F64.ext3_square.s_a1_a2, Gen.F64.ext3_square.s_out0, Gen.F64.ext3_square.s_out1,
      Gen.F64.ext3_square.s_out2, Prod.map, H.add, H.sub, H.mul, H.double, H.square]
  mulBase a0 a1 a2 b := by simp only [Ext3.f64, Gen.F64.ext3_mul_base, Prod.map, H.mul]
  frobenius a0 a1 a2 := by simp only [Ext3.f64, Gen.F64.ext3_frobenius, Prod.map, H.add, H.mul,
    H.ofNat 10615703402128488253 (by decide), H.ofNat 6700183068485440220 (by decide),
    H.ofNat 10050274602728160328 (by decide), H.ofNat 14531223735771536287 (by decide),
    H.ofNat 11746561000929144102 (by decide), H.ofNat 8396469466686423992 (by decide)]

theorem f62_ext3_hom (H : FHom O O' h) : Ext3Hom (Ext3.f62 O) (Ext3.f62 O') h where
  mul a0 a1 a2 b0 b1 b2 := by
    simp only [Ext3.f62, Gen.F62.ext3_mul, Gen.F62.ext3_mul.s_a0b0, Gen.F62.ext3_mul.s_a1b1,
      Gen.F62.ext3_mul.s_a2b2, Gen.F62.ext3_mul.s_a0b0_a0b1_a1b0_a1b1,
      Gen.F62.ext3_mul.s_minus_a0b0_a0b2_a2b0_minus_a2b2, Gen.F62.ext3_mul.s_a1b1_minus_a1b2_minus_a2b1_a2b2,
      Gen.F62.ext3_mul.s_a0b0_a1b1, Gen.F62.ext3_mul.s_minus_2a1b2_minus_2a2b1,
      Gen.F62.ext3_mul.s_a0b0_minus_2a1b2_minus_2a2b1,
      Gen.F62.ext3_mul.s_a0b1_a1b0_minus_2a1b2_minus_2a2b1_minus_2a2b2,
      Gen.F62.ext3_mul.s_a0b2_a1b1_a2b0_minus_2a2b2, Prod.map, H.add, H.sub, H.mul, H.double]
  square a0 a1 a2 := by
    simp only [Ext3.f62, Gen.F62.ext3_mul, Gen.F62.ext3_mul.s_a0b0, Gen.F62.ext3_mul.s_a1b1,
      Gen.F62.ext3_mul.s_a2b2, Gen.F62.ext3_mul.s_a0b0_a0b1_a1b0_a1b1,
      Gen.F62.ext3_mul.s_minus_a0b0_a0b2_a2b0_minus_a2b2, Gen.F62.ext3_mul.s_a1b1_minus_a1b2_minus_a2b1_a2b2,
      Gen.F62.ext3_mul.s_a0b0_a1b1, Gen.F62.ext3_mul.s_minus_2a1b2_minus_2a2b1,
      Gen.F62.ext3_mul.s_a0b0_minus_2a1b2_minus_2a2b1,
      Gen.F62.ext3_mul.s_a0b1_a1b0_minus_2a1b2_minus_2a2b1_minus_2a2b2,
      Gen.F62.ext3_mul.s_a0b2_a1b1_a2b0_minus_2a2b2, Prod.map, H.add, H.sub, H.mul, H.double]
  mulBase a0 a1 a2 b := by simp only [Ext3.f62, Gen.F62.ext3_mul_base, Prod.map, H.mul]
  frobenius a0 a1 a2 := by simp only [Ext3.f62, Gen.F62.ext3_frobenius, Prod.map, H.add, H.mul,
    H.ofNat 2061766055618274781 (by decide), H.ofNat 786836585661389001 (by decide),
    H.ofNat 2868591307402993000 (by decide), H.ofNat 3336695525575160559 (by decide),
    H.ofNat 2699230790596717670 (by decide), H.ofNat 1743033688129053336 (by decide)]

end Formulas

-- ------------------------------------------------------------------------------------------------ model level
def fuelMap {α β : Type} (f : α → β) : Fuel α → Fuel β
  | .done a => .done (f a)
  | .out => .out

/-- `h` commutes with all operations the extension code uses -/
structure BHom {F G : Type} (B : BOps F) (B' : BOps G) (h : F → G) : Prop where
  ops : FHom B.toFOps B'.toFOps h
  zero : h B.zero = B'.zero
  one : h B.one = B'.one
  eq : ∀ a b, B.eq a b = B'.eq (h a) (h b)
  inv : ∀ a, fuelMap h (B.inv a) = B'.inv (h a)

def Quad.map {F G : Type} (h : F → G) (a : Quad F) : Quad G := ⟨h a.c0, h a.c1⟩
def Cube.map {F G : Type} (h : F → G) (a : Cube F) : Cube G := ⟨h a.c0, h a.c1, h a.c2⟩

section ModelQuad
variable {F G : Type} {B : BOps F} {B' : BOps G} {X : Ext2 F} {X' : Ext2 G} {h : F → G}

theorem Quad.map_ofPair (pr : F × F) : Quad.map h (Quad.ofPair pr) = Quad.ofPair (Prod.map h h pr) := rfl

theorem Quad.map_mul (HX : Ext2Hom X X' h) (a b : Quad F) :
    Quad.map h (Quad.mul X a b) = Quad.mul X' (Quad.map h a) (Quad.map h b) := by
  simp only [Quad.mul, Quad.map_ofPair, HX.mul]; rfl
theorem Quad.map_square (HX : Ext2Hom X X' h) (a : Quad F) :
    Quad.map h (Quad.square X a) = Quad.square X' (Quad.map h a) := by
  simp only [Quad.square, Quad.map_ofPair, HX.square]; rfl
theorem Quad.map_mulBase (HX : Ext2Hom X X' h) (a : Quad F) (b : F) :
    Quad.map h (Quad.mulBase X a b) = Quad.mulBase X' (Quad.map h a) (h b) := by
  simp only [Quad.mulBase, Quad.map_ofPair, HX.mulBase]; rfl
theorem Quad.map_conjugate (HX : Ext2Hom X X' h) (a : Quad F) :
    Quad.map h (Quad.conjugate X a) = Quad.conjugate X' (Quad.map h a) := by
  simp only [Quad.conjugate, Quad.map_ofPair, HX.frobenius]; rfl
theorem Quad.map_add (HB : FHom B.toFOps B'.toFOps h) (a b : Quad F) :
    Quad.map h (Quad.add B a b) = Quad.add B' (Quad.map h a) (Quad.map h b) := by
  simp only [Quad.add, Quad.map, HB.add]
theorem Quad.map_sub (HB : FHom B.toFOps B'.toFOps h) (a b : Quad F) :
    Quad.map h (Quad.sub B a b) = Quad.sub B' (Quad.map h a) (Quad.map h b) := by
  simp only [Quad.sub, Quad.map, HB.sub]
theorem Quad.map_neg (HB : FHom B.toFOps B'.toFOps h) (a : Quad F) :
    Quad.map h (Quad.neg B a) = Quad.neg B' (Quad.map h a) := by
  simp only [Quad.neg, Quad.map, HB.neg]
theorem Quad.map_double (HB : FHom B.toFOps B'.toFOps h) (a : Quad F) :
    Quad.map h (Quad.double B a) = Quad.double B' (Quad.map h a) := by
  simp only [Quad.double, Quad.map, HB.double]

theorem Quad.map_inv (HB : BHom B B' h) (HX : Ext2Hom X X' h) (a : Quad F) :
    Res.map (Quad.map h) (Quad.inv B X a) = Quad.inv B' X' (Quad.map h a) := by
  have hfro := HX.frobenius a.c0 a.c1
  have hmul := HX.mul a.c0 a.c1 (X.frobenius a.c0 a.c1).1 (X.frobenius a.c0 a.c1).2
  simp only [Prod.map, Prod.ext_iff] at hfro hmul
  have hbeq : Quad.beq B a (Quad.zero B) = Quad.beq B' (Quad.map h a) (Quad.zero B') := by
    simp only [Quad.beq, Quad.zero, Quad.map, HB.eq, HB.zero]
  unfold Quad.inv
  rw [← hbeq]
  by_cases hz : Quad.beq B a (Quad.zero B) = true
  · simp only [hz, if_true, Res.map]
  · simp only [hz]
    simp only [Quad.map, ← hfro.1, ← hfro.2, ← hmul.1, ← hmul.2, ← HB.zero, ← HB.eq, ← HB.inv]
    by_cases hn : B.eq (X.mul a.c0 a.c1 (X.frobenius a.c0 a.c1).1 (X.frobenius a.c0 a.c1).2).2 B.zero = true
    · simp only [hn, Bool.not_true]
      cases hinv : B.inv (X.mul a.c0 a.c1 (X.frobenius a.c0 a.c1).1 (X.frobenius a.c0 a.c1).2).1 with
      | out => simp [fuelMap, Res.map]
      | done d => simp [fuelMap, Res.map, Quad.map, HB.ops.mul]
    · simp [hn, Res.map]

end ModelQuad

section ModelCube
variable {F G : Type} {B : BOps F} {B' : BOps G} {X : Ext3 F} {X' : Ext3 G} {h : F → G}

theorem Cube.map_ofTriple (pr : F × F × F) :
    Cube.map h (Cube.ofTriple pr) = Cube.ofTriple (Prod.map h (Prod.map h h) pr) := rfl

theorem Cube.map_mul (HX : Ext3Hom X X' h) (a b : Cube F) :
    Cube.map h (Cube.mul X a b) = Cube.mul X' (Cube.map h a) (Cube.map h b) := by
  simp only [Cube.mul, Cube.map_ofTriple, HX.mul]; rfl
theorem Cube.map_square (HX : Ext3Hom X X' h) (a : Cube F) :
    Cube.map h (Cube.square X a) = Cube.square X' (Cube.map h a) := by
  simp only [Cube.square, Cube.map_ofTriple, HX.square]; rfl
theorem Cube.map_mulBase (HX : Ext3Hom X X' h) (a : Cube F) (b : F) :
    Cube.map h (Cube.mulBase X a b) = Cube.mulBase X' (Cube.map h a) (h b) := by
  simp only [Cube.mulBase, Cube.map_ofTriple, HX.mulBase]; rfl
theorem Cube.map_conjugate (HX : Ext3Hom X X' h) (a : Cube F) :
    Cube.map h (Cube.conjugate X a) = Cube.conjugate X' (Cube.map h a) := by
  simp only [Cube.conjugate, Cube.map_ofTriple, HX.frobenius]; rfl
theorem Cube.map_add (HB : FHom B.toFOps B'.toFOps h) (a b : Cube F) :
    Cube.map h (Cube.add B a b) = Cube.add B' (Cube.map h a) (Cube.map h b) := by
  simp only [Cube.add, Cube.map, HB.add]
theorem Cube.map_sub (HB : FHom B.toFOps B'.toFOps h) (a b : Cube F) :
    Cube.map h (Cube.sub B a b) = Cube.sub B' (Cube.map h a) (Cube.map h b) := by
  simp only [Cube.sub, Cube.map, HB.sub]
theorem Cube.map_neg (HB : FHom B.toFOps B'.toFOps h) (a : Cube F) :
    Cube.map h (Cube.neg B a) = Cube.neg B' (Cube.map h a) := by
  simp only [Cube.neg, Cube.map, HB.neg]
theorem Cube.map_double (HB : FHom B.toFOps B'.toFOps h) (a : Cube F) :
    Cube.map h (Cube.double B a) = Cube.double B' (Cube.map h a) := by
  simp only [Cube.double, Cube.map, HB.double]

theorem Cube.map_inv (HB : BHom B B' h) (HX : Ext3Hom X X' h) (a : Cube F) :
    Res.map (Cube.map h) (Cube.inv B X a) = Cube.inv B' X' (Cube.map h a) := by
  rw [Cube.inv_eq, Cube.inv_eq]
  have hbeq : Cube.beq B a (Cube.zero B) = Cube.beq B' (Cube.map h a) (Cube.zero B') := by
    simp only [Cube.beq, Cube.zero, Cube.map, HB.eq, HB.zero]
  dsimp only
  rw [← hbeq, ← Cube.map_conjugate HX, ← Cube.map_conjugate HX, ← Cube.map_mul HX, ← Cube.map_mul HX]
  by_cases hz : Cube.beq B a (Cube.zero B) = true
  · simp only [hz, if_true, Res.map]
  · simp only [hz]
    generalize Cube.mul X (Cube.conjugate X a) (Cube.conjugate X (Cube.conjugate X a)) = num
    generalize Cube.mul X a num = nrm
    simp only [Cube.map, ← HB.zero, ← HB.eq, ← HB.inv]
    by_cases hn1 : B.eq nrm.c1 B.zero = true
    · by_cases hn2 : B.eq nrm.c2 B.zero = true
      · simp only [hn1, hn2, Bool.not_true]
        cases hinv : B.inv nrm.c0 with
        | out => simp [fuelMap, Res.map]
        | done d => simp [fuelMap, Res.map, Cube.map, HB.ops.mul]
      · simp [hn1, hn2, Res.map]
    · simp [hn1, Res.map]

end ModelCube

-- ------------------------------------------------------------------------------------------------ raw words
/-- The content of property C07 used here: on raw words satisfying the representation invariant `ok`, the operations
    of the base-field implementation `I` compute in `ZMod p` through the abstraction `val`. -/
structure ImplementsArith (I : FieldImpl) (p : ℕ) [Fact p.Prime] (ok : ℕ → Prop) (val : ℕ → ZMod p) : Prop where
  add : ∀ a b, ok a → ok b → ok (I.add a b) ∧ val (I.add a b) = val a + val b
  sub : ∀ a b, ok a → ok b → ok (I.sub a b) ∧ val (I.sub a b) = val a - val b
  mul : ∀ a b, ok a → ok b → ok (I.mul a b) ∧ val (I.mul a b) = val a * val b
  neg : ∀ a, ok a → ok (I.neg a) ∧ val (I.neg a) = -val a
  double : ∀ a, ok a → ok (I.double a) ∧ val (I.double a) = 2 * val a
  /-- machine words have at least 64 bits (the formulas contain 64-bit literals) -/
  bits : 64 ≤ I.wordBits
  /-- `BaseElement::new` on a machine word (it is not defined beyond) -/
  new : ∀ n, n < 2 ^ I.wordBits → ok (I.new n) ∧ val (I.new n) = (n : ZMod p)
  eq : ∀ a b, ok a → ok b → (I.eq a b = true ↔ val a = val b)

/-- … and inversion returns (no hang) the inverse, zero for zero -/
structure Implements (I : FieldImpl) (p : ℕ) [Fact p.Prime] (ok : ℕ → Prop) (val : ℕ → ZMod p) : Prop
    extends ImplementsArith I p ok val where
  inv : ∀ a, ok a → ∃ d, I.inv a = .done d ∧ ok d ∧ val d = (val a)⁻¹

section Raw
variable {I : FieldImpl} {p : ℕ} [Fact p.Prime] {ok : ℕ → Prop} {val : ℕ → ZMod p}

open Classical in
/-- the implementation's operations restricted to the raw words satisfying the invariant -/
noncomputable def subOps (H : ImplementsArith I p ok val) : BOps {x : ℕ // ok x} where
  add a b := ⟨I.add a.1 b.1, (H.add a.1 b.1 a.2 b.2).1⟩
  sub a b := ⟨I.sub a.1 b.1, (H.sub a.1 b.1 a.2 b.2).1⟩
  mul a b := ⟨I.mul a.1 b.1, (H.mul a.1 b.1 a.2 b.2).1⟩
  neg a := ⟨I.neg a.1, (H.neg a.1 a.2).1⟩
  double a := ⟨I.double a.1, (H.double a.1 a.2).1⟩
  square a := ⟨I.mul a.1 a.1, (H.mul a.1 a.1 a.2 a.2).1⟩
  ofNat n := ⟨I.new (n % 2 ^ I.wordBits), (H.new _ (Nat.mod_lt _ (Nat.two_pow_pos _))).1⟩
  zero := ⟨I.new 0, (H.new 0 (Nat.two_pow_pos _)).1⟩
  one := ⟨I.new 1, (H.new 1 (Nat.one_lt_two_pow (by have := H.bits; omega))).1⟩
  eq a b := I.eq a.1 b.1
  inv a := match I.inv a.1 with
    | .done d => if hd : ok d then .done ⟨d, hd⟩ else .out
    | .out => .out

theorem subOps_raw_ops (H : ImplementsArith I p ok val) :
    FHom (subOps H).toFOps (BOps.ofImpl I).toFOps Subtype.val :=
  ⟨fun _ _ => rfl, fun _ _ => rfl, fun _ _ => rfl, fun _ => rfl, fun _ => rfl, fun _ => rfl,
    fun n hn => by
      show I.new (n % 2 ^ I.wordBits) = I.new n
      rw [Nat.mod_eq_of_lt (Nat.lt_of_lt_of_le hn (Nat.pow_le_pow_right (by decide) H.bits))]⟩

theorem subOps_raw (H : Implements I p ok val) :
    BHom (subOps H.toImplementsArith) (BOps.ofImpl I) Subtype.val where
  ops := subOps_raw_ops H.toImplementsArith
  zero := rfl
  one := rfl
  eq _ _ := rfl
  inv a := by
    obtain ⟨d, hd, hok, _⟩ := H.inv a.1 a.2
    simp only [subOps, BOps.ofImpl, hd, hok, dite_true, fuelMap]

theorem subOps_field_ops (H : ImplementsArith I p ok val) :
    FHom (subOps H).toFOps (ringOps (ZMod p)) (fun a => val a.1) :=
  ⟨fun a b => (H.add a.1 b.1 a.2 b.2).2, fun a b => (H.sub a.1 b.1 a.2 b.2).2,
   fun a b => (H.mul a.1 b.1 a.2 b.2).2, fun a => (H.neg a.1 a.2).2, fun a => (H.double a.1 a.2).2,
   fun a => by
     show val (I.mul a.1 a.1) = (val a.1) ^ 2
     rw [(H.mul a.1 a.1 a.2 a.2).2, pow_two],
   fun n hn => by
     show val (I.new (n % 2 ^ I.wordBits)) = (n : ZMod p)
     rw [Nat.mod_eq_of_lt (Nat.lt_of_lt_of_le hn (Nat.pow_le_pow_right (by decide) H.bits))]
     exact (H.new n (Nat.lt_of_lt_of_le hn (Nat.pow_le_pow_right (by decide) H.bits))).2⟩

theorem subOps_field (H : Implements I p ok val) :
    BHom (subOps H.toImplementsArith) (fieldBOps p) (fun a => val a.1) where
  ops := subOps_field_ops H.toImplementsArith
  zero := by
    show val (I.new 0) = 0
    rw [(H.new 0 (Nat.two_pow_pos _)).2, Nat.cast_zero]
  one := by
    show val (I.new 1) = 1
    rw [(H.new 1 (Nat.one_lt_two_pow (by have := H.bits; omega))).2, Nat.cast_one]
  eq a b := by
    show I.eq a.1 b.1 = decide (val a.1 = val b.1)
    have := H.eq a.1 b.1 a.2 b.2
    by_cases hv : val a.1 = val b.1
    · simp [hv, this.mpr hv]
    · have : I.eq a.1 b.1 = false := by
        rw [Bool.eq_false_iff]; intro hh; exact hv (this.mp hh)
      simp [hv, this]
  inv a := by
    obtain ⟨d, hd, hok, hv⟩ := H.inv a.1 a.2
    simp only [subOps, hd, hok, dite_true, fuelMap, ringBOps, hv]

/-- all coordinates satisfy the representation invariant -/
def okQ (ok : ℕ → Prop) (a : Quad ℕ) : Prop := ok a.c0 ∧ ok a.c1
def okC (ok : ℕ → Prop) (a : Cube ℕ) : Prop := ok a.c0 ∧ ok a.c1 ∧ ok a.c2

def liftQ (a : Quad ℕ) (ha : okQ ok a) : Quad {x : ℕ // ok x} := ⟨⟨a.c0, ha.1⟩, ⟨a.c1, ha.2⟩⟩
def liftC (a : Cube ℕ) (ha : okC ok a) : Cube {x : ℕ // ok x} := ⟨⟨a.c0, ha.1⟩, ⟨a.c1, ha.2.1⟩, ⟨a.c2, ha.2.2⟩⟩

theorem okQ_map (y : Quad {x : ℕ // ok x}) : okQ ok (Quad.map Subtype.val y) := ⟨y.c0.2, y.c1.2⟩
theorem okC_map (y : Cube {x : ℕ // ok x}) : okC ok (Cube.map Subtype.val y) := ⟨y.c0.2, y.c1.2, y.c2.2⟩

/-- transport of a unary operation given at the three levels (invariant-respecting raw words, all raw words, field) -/
theorem quad_lift1 {opS : Quad {x : ℕ // ok x} → Quad {x : ℕ // ok x}} {opR : Quad ℕ → Quad ℕ}
    {opF : Quad (ZMod p) → Quad (ZMod p)}
    (hR : ∀ x, Quad.map Subtype.val (opS x) = opR (Quad.map Subtype.val x))
    (hF : ∀ x, Quad.map (fun a : {x : ℕ // ok x} => val a.1) (opS x) =
      opF (Quad.map (fun a : {x : ℕ // ok x} => val a.1) x))
    (a : Quad ℕ) (ha : okQ ok a) :
    okQ ok (opR a) ∧ Quad.map val (opR a) = opF (Quad.map val a) := by
  have e : opR a = Quad.map Subtype.val (opS (liftQ a ha)) := (hR (liftQ a ha)).symm
  rw [e]
  exact ⟨okQ_map _, hF (liftQ a ha)⟩

theorem cube_lift1 {opS : Cube {x : ℕ // ok x} → Cube {x : ℕ // ok x}} {opR : Cube ℕ → Cube ℕ}
    {opF : Cube (ZMod p) → Cube (ZMod p)}
    (hR : ∀ x, Cube.map Subtype.val (opS x) = opR (Cube.map Subtype.val x))
    (hF : ∀ x, Cube.map (fun a : {x : ℕ // ok x} => val a.1) (opS x) =
      opF (Cube.map (fun a : {x : ℕ // ok x} => val a.1) x))
    (a : Cube ℕ) (ha : okC ok a) :
    okC ok (opR a) ∧ Cube.map val (opR a) = opF (Cube.map val a) := by
  have e : opR a = Cube.map Subtype.val (opS (liftC a ha)) := (hR (liftC a ha)).symm
  rw [e]
  exact ⟨okC_map _, hF (liftC a ha)⟩

theorem Res.map_map {α β γ : Type} (f : α → β) (g : β → γ) (r : Res α) :
    Res.map g (Res.map f r) = Res.map (g ∘ f) r := by
  cases r <;> rfl

/-- transport of `inv` -/
theorem quad_lift_inv (H : Implements I p ok val) {XS : Ext2 {x : ℕ // ok x}} {XR : Ext2 ℕ} {XF : Ext2 (ZMod p)}
    (hR : Ext2Hom XS XR Subtype.val) (hF : Ext2Hom XS XF (fun a : {x : ℕ // ok x} => val a.1))
    (a : Quad ℕ) (ha : okQ ok a) :
    (∀ y, Quad.inv (BOps.ofImpl I) XR a = .ok y → okQ ok y) ∧
    Res.map (Quad.map val) (Quad.inv (BOps.ofImpl I) XR a) = Quad.inv (fieldBOps p) XF (Quad.map val a) := by
  have e1 := Quad.map_inv (subOps_raw H) hR (liftQ a ha)
  have e2 := Quad.map_inv (subOps_field H) hF (liftQ a ha)
  change Res.map (Quad.map Subtype.val) _ = Quad.inv (BOps.ofImpl I) XR a at e1
  change _ = Quad.inv (fieldBOps p) XF (Quad.map val a) at e2
  rw [← e1, ← e2]
  constructor
  · intro y hy
    cases hr : Quad.inv (subOps H.toImplementsArith) XS (liftQ a ha) with
    | ok z => rw [hr] at hy; simp only [Res.map, Res.ok.injEq] at hy; subst hy; exact okQ_map z
    | panic => rw [hr] at hy; simp [Res.map] at hy
    | hang => rw [hr] at hy; simp [Res.map] at hy
  · rw [Res.map_map]
    rfl

theorem cube_lift_inv (H : Implements I p ok val) {XS : Ext3 {x : ℕ // ok x}} {XR : Ext3 ℕ} {XF : Ext3 (ZMod p)}
    (hR : Ext3Hom XS XR Subtype.val) (hF : Ext3Hom XS XF (fun a : {x : ℕ // ok x} => val a.1))
    (a : Cube ℕ) (ha : okC ok a) :
    (∀ y, Cube.inv (BOps.ofImpl I) XR a = .ok y → okC ok y) ∧
    Res.map (Cube.map val) (Cube.inv (BOps.ofImpl I) XR a) = Cube.inv (fieldBOps p) XF (Cube.map val a) := by
  have e1 := Cube.map_inv (subOps_raw H) hR (liftC a ha)
  have e2 := Cube.map_inv (subOps_field H) hF (liftC a ha)
  change Res.map (Cube.map Subtype.val) _ = Cube.inv (BOps.ofImpl I) XR a at e1
  change _ = Cube.inv (fieldBOps p) XF (Cube.map val a) at e2
  rw [← e1, ← e2]
  constructor
  · intro y hy
    cases hr : Cube.inv (subOps H.toImplementsArith) XS (liftC a ha) with
    | ok z => rw [hr] at hy; simp only [Res.map, Res.ok.injEq] at hy; subst hy; exact okC_map z
    | panic => rw [hr] at hy; simp [Res.map] at hy
    | hang => rw [hr] at hy; simp [Res.map] at hy
  · rw [Res.map_map]
    rfl

end Raw

end WinterProofs.C08L
