-- helper lemmas for WinterProofs/C19.lean
import Winter.Model.Coin

namespace C19L
open Model.Coin

variable {D : Type} (H : HashOps D)

-- ------------------------------------------------------------------ trailing zeros
theorem tzAux_zero (k : Nat) : tzAux k 0 = k := by
  induction k with
  | zero => rfl
  | succ k ih => simp [tzAux, ih]; omega

theorem tzAux_le (k x : Nat) : tzAux k x ≤ k := by
  induction k generalizing x with
  | zero => simp [tzAux]
  | succ k ih =>
    unfold tzAux
    split
    · omega
    · have := ih (x / 2); omega

theorem tzAux_spec (k x : Nat) (hx : x < 2 ^ k) (h0 : x ≠ 0) :
    2 ^ tzAux k x ∣ x ∧ ¬ 2 ^ (tzAux k x + 1) ∣ x := by
  induction k generalizing x with
  | zero => simp at hx; omega
  | succ k ih =>
    unfold tzAux
    by_cases h1 : x % 2 = 1
    · simp only [h1, if_true]
      refine ⟨by simp, ?_⟩
      intro h
      have : 2 ∣ x := by simpa using h
      omega
    · simp only [h1, if_false]
      obtain ⟨y, rfl⟩ : ∃ y, x = 2 * y := ⟨x / 2, by omega⟩
      have hy : 2 * y / 2 = y := by omega
      rw [hy]
      have hx2 : y < 2 ^ k := by rw [Nat.pow_succ] at hx; omega
      have h02 : y ≠ 0 := by omega
      obtain ⟨a, b⟩ := ih y hx2 h02
      constructor
      · rw [Nat.add_comm, Nat.pow_succ, Nat.mul_comm]
        exact Nat.mul_dvd_mul_left 2 a
      · intro h
        apply b
        rw [Nat.add_comm 1, Nat.pow_succ, Nat.mul_comm] at h
        exact Nat.dvd_of_mul_dvd_mul_left (by omega) h

-- ------------------------------------------------------------------ rejection sampling
theorem readCoords_valid (fd : FieldDesc) (k : Nat) (bs e : List Nat) (h : readCoords fd k bs = some e) :
    e.length = k ∧ ∀ x ∈ e, x < fd.M := by
  induction k generalizing bs e with
  | zero => simp [readCoords] at h; subst h; simp
  | succ k ih =>
    unfold readCoords at h
    simp only [] at h
    split at h
    · rename_i hlt
      split at h
      · rename_i rest hr
        injection h with h; subst h
        obtain ⟨a, b⟩ := ih _ _ hr
        refine ⟨by simp [a], ?_⟩
        intro x hx
        rcases List.mem_cons.mp hx with rfl | hx
        · exact hlt
        · exact b x hx
      · cases h
    · cases h

theorem fromRandomBytes_valid (fd : FieldDesc) (deg : Nat) (bs e : List Nat)
    (h : fromRandomBytes fd deg bs = some e) : e.length = deg ∧ ∀ x ∈ e, x < fd.M := by
  unfold fromRandomBytes at h
  split at h
  · exact readCoords_valid fd deg bs e h
  · cases h

/-- what the retry loop guarantees -/
theorem drawLoop_spec (fd : FieldDesc) (deg : Nat) (k : Nat) (c : Coin D) (o : Out) (c' : Coin D)
    (h : drawLoop H fd deg k c = (o, c')) :
    c'.seed = c.seed ∧ c.counter ≤ c'.counter ∧ c'.counter ≤ c.counter + k ∧
    (∀ e, o = .elem e → (e.length = deg ∧ ∀ x ∈ e, x < fd.M) ∧ c.counter < c'.counter) ∧
    (o = .err → c'.counter = c.counter + k) ∧
    (∀ s, o = .panic s → ¬ c'.counter + 1 < U64) ∧
    (∀ vs, o ≠ .ints vs) ∧ (∀ n, o ≠ .num n) ∧ o ≠ .unit := by
  induction k generalizing c with
  | zero =>
    simp only [drawLoop, Prod.mk.injEq] at h
    obtain ⟨rfl, rfl⟩ := h
    exact ⟨rfl, Nat.le_refl _, by omega, (fun e h => by cases h), (fun _ => by omega), (fun s h => by cases h),
      (fun vs h => by cases h), (fun n h => by cases h), (fun h => by cases h)⟩
  | succ k ih =>
    unfold drawLoop at h
    cases hn : next H c with
    | none =>
      rw [hn] at h
      simp only [Prod.mk.injEq] at h
      obtain ⟨rfl, rfl⟩ := h
      unfold next at hn
      split at hn
      · cases hn
      · rename_i hov
        exact ⟨rfl, Nat.le_refl _, by omega, (fun e h => by cases h), (fun h => by cases h), fun s _ => hov,
          (fun vs h => by cases h), (fun n h => by cases h), (fun h => by cases h)⟩
    | some p =>
      obtain ⟨v, c1⟩ := p
      rw [hn] at h
      simp only [] at h
      unfold next at hn
      split at hn
      · injection hn with hn
        injection hn with hv hc
        subst hc
        cases hf : fromRandomBytes fd deg ((H.asBytes v).take (fd.bytes * deg)) with
        | some e =>
          rw [hf] at h
          simp only [Prod.mk.injEq] at h
          obtain ⟨rfl, rfl⟩ := h
          refine ⟨rfl, by simp, by simp, ?_, (fun h => by cases h), (fun s h => by cases h),
            (fun vs h => by cases h), (fun n h => by cases h), (fun h => by cases h)⟩
          intro e' he'
          injection he' with he'
          subst he'
          exact ⟨fromRandomBytes_valid fd deg _ _ hf, by simp⟩
        | none =>
          rw [hf] at h
          simp only [] at h
          obtain ⟨h1, h2, h3, h4, h5, h6, h7, h8, h9⟩ := ih ⟨c.seed, c.counter + 1⟩ h
          simp only [] at h1 h2 h3 h4 h5
          refine ⟨h1, by omega, by omega, ?_, ?_, h6, h7, h8, h9⟩
          · intro e he
            obtain ⟨a, b⟩ := h4 e he
            exact ⟨a, by omega⟩
          · intro he
            have := h5 he
            omega
      · cases hn

-- ------------------------------------------------------------------ draw_integers
theorem intLoop_spec (mask n : Nat) (k : Nat) (c : Coin D) (acc : List Nat)
    (hacc : ∀ v ∈ acc, v ≤ mask) (hc : c.counter + k < U64) :
    ∃ acc' c', intLoop H mask n k c acc = some (acc', c') ∧ (∀ v ∈ acc', v ≤ mask) ∧
      c'.seed = c.seed ∧ c'.counter = c.counter + (acc'.length - acc.length) ∧
      acc.length ≤ acc'.length ∧
      (acc.length < n → n ≤ acc.length + k → acc'.length = n) ∧
      (acc.length + k < n → acc'.length = acc.length + k) ∧
      (n ≤ acc.length → acc'.length = acc.length + k) := by
  induction k generalizing c acc with
  | zero => exact ⟨acc, c, rfl, hacc, rfl, by simp, Nat.le_refl _, by omega, by omega, by omega⟩
  | succ k ih =>
    unfold intLoop
    have hn : next H c = some (H.mergeWithInt c.seed (c.counter + 1), ⟨c.seed, c.counter + 1⟩) := by
      unfold next
      have : c.counter + 1 < U64 := by omega
      simp [this]
    rw [hn]
    simp only []
    have hacc' : ∀ v ∈ ((Model.Coin.leVal ((H.asBytes (H.mergeWithInt c.seed (c.counter + 1))).take 8) &&& mask) :: acc),
        v ≤ mask := by
      intro v hv
      rcases List.mem_cons.mp hv with rfl | hv
      · exact Nat.and_le_right
      · exact hacc v hv
    by_cases hl : ((Model.Coin.leVal ((H.asBytes (H.mergeWithInt c.seed (c.counter + 1))).take 8) &&& mask) :: acc).length = n
    · simp only [hl, if_true]
      refine ⟨_, _, rfl, hacc', rfl, ?_, ?_, ?_, ?_, ?_⟩
      · simp only [List.length_cons]; omega
      · simp
      · intro _ _; exact hl
      · intro h; simp only [List.length_cons] at hl; omega
      · intro h; simp only [List.length_cons] at hl; omega
    · simp only [hl, if_false]
      obtain ⟨acc', c', e, h1, h2, h3, h4, h5, h6, h7⟩ :=
        ih ⟨c.seed, c.counter + 1⟩ _ hacc' (by simp only []; omega)
      simp only [List.length_cons] at h3 h4 h5 h6 h7 hl
      refine ⟨acc', c', e, h1, h2, ?_, by omega, ?_, ?_, ?_⟩
      · omega
      · intro a b
        exact h5 (by omega) (by omega)
      · intro a; have := h6 (by omega); omega
      · intro a; have := h7 (by omega); omega

theorem isPow2_pos {x : Nat} (h : isPow2 x = true) : 0 < x := by
  unfold isPow2 at h
  simp only [Bool.and_eq_true, bne_iff_ne, ne_eq] at h
  omega

-- ------------------------------------------------------------------ grinding
theorem grind_spec (c : Coin D) (gf : Nat) (fuel start n : Nat) (h : grind H c gf fuel start = some n) :
    gf ≤ checkLeadingZeros H c n ∧ start ≤ n ∧ n < start + fuel ∧
    ∀ k, start ≤ k → k < n → checkLeadingZeros H c k < gf := by
  induction fuel generalizing start with
  | zero => simp [grind] at h
  | succ fuel ih =>
    unfold grind at h
    by_cases hg : gf ≤ checkLeadingZeros H c start
    · simp only [hg, if_true] at h
      injection h with h; subst h
      exact ⟨hg, Nat.le_refl _, by omega, fun k a b => by omega⟩
    · simp only [hg, if_false] at h
      obtain ⟨a, b, c', d⟩ := ih (start + 1) h
      refine ⟨a, by omega, by omega, ?_⟩
      intro k hk1 hk2
      by_cases hk : k = start
      · subst hk; omega
      · exact d k (by omega) hk2

end C19L
