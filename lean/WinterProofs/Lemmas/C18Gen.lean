-- tie T for C18: the definition regenerated from air/src/proof/mod.rs `get_conjectured_security` on this
-- run (Winter/Gen/Security.lean) coincides with the hand-written model `Model.Security.conjectured`
-- that the property theorems of WinterProofs/C18.lean are about — value and panic behaviour, for all
-- arguments.  An edit of the Rust function either leaves these theorems true or breaks them.
-- The proofs start with `unfold_gen` (all generated definitions unfolded, `let`s removed) and close the
-- side conditions with `omega`, so that renaming locals / reordering independent `let`s of the Rust
-- function does not break them.
import Winter.Model.Security
import Winter.Gen.Security
import Winter.Gen.ProofOpts
import Winter.Gen.ProofContext
import WinterProofs.Lemmas.GenTactic

namespace C18G
open Model.Security Gen.Limits

/-- the generated function on the model's option record (the accessor values the Rust code reads:
    `blowup_factor()`, `field_extension().degree()`, `grinding_factor()`, `num_queries()`) -/
def genConj (o : Options) (bits n cr : Nat) : Nat :=
  Gen.Security.get_conjectured_security o.blowup o.ext.degree o.grinding o.numQueries bits n cr

/-- its generated side condition: no overflow / underflow / `ilog2(0)` in the checked build -/
def genConjOk (o : Options) (bits n cr : Nat) : Bool :=
  Gen.Security.get_conjectured_security_ok o.blowup o.ext.degree o.grinding o.numQueries bits n cr

/-- the model's query-security term -/
def qsOf (spq q g : Nat) : Nat := if 80 ≤ spq * q then spq * q + g else spq * q

/-- flat form of the model (no hypothesis on the options): `ok` exactly under the conjunction of the
    side conditions of its eight checked operations, with the value computed on naturals -/
theorem conjectured_flat (o : Options) (bits n cr l : Nat) :
    conjectured o bits n cr = .ok l ↔
      (bits * o.ext.degree < 4294967296 ∧ n * o.blowup < 18446744073709551616 ∧ n * o.blowup ≠ 0 ∧
        (n * o.blowup).log2 ≤ bits * o.ext.degree ∧ o.blowup ≠ 0 ∧
        o.blowup.log2 * o.numQueries < 4294967296 ∧
        (80 ≤ o.blowup.log2 * o.numQueries → o.blowup.log2 * o.numQueries + o.grinding < 4294967296) ∧
        1 ≤ min (bits * o.ext.degree - (n * o.blowup).log2) (qsOf o.blowup.log2 o.numQueries o.grinding)) ∧
      l = min (min (bits * o.ext.degree - (n * o.blowup).log2) (qsOf o.blowup.log2 o.numQueries o.grinding) - 1) cr := by
  unfold conjectured qsOf
  simp only [bind, Res.bind, mulU32, mulUsize, ilog2, subU32, addU32, pure, U32, USIZE,
    GRINDING_CONTRIBUTION_FLOOR]
  generalize bits * o.ext.degree = fs
  by_cases h1 : fs < 4294967296
  case neg => simp [h1]
  by_cases h2 : n * o.blowup < 18446744073709551616
  case neg => simp [h1, h2]
  by_cases h3 : n * o.blowup = 0
  case pos => simp [h1, h3]
  simp only [h1, h2, h3, if_true, if_false, true_and, ne_eq, not_false_eq_true]
  generalize (n * o.blowup).log2 = L
  by_cases h4 : L ≤ fs
  case neg => simp [h4]
  by_cases h5 : o.blowup = 0
  case pos => simp [h4, h5]
  simp only [h4, h5, if_true, if_false, true_and, not_false_eq_true]
  generalize o.blowup.log2 * o.numQueries = qs
  by_cases h6 : qs < 4294967296
  case neg => simp [h6]
  simp only [h6, if_true, true_and]
  by_cases h7 : 80 ≤ qs
  · simp only [h7, if_true, forall_const]
    by_cases h8 : qs + o.grinding < 4294967296
    case neg => simp [h8]
    simp only [h8, if_true, true_and]
    by_cases h9 : 1 ≤ min (fs - L) (qs + o.grinding)
    case neg => simp [h9]
    simp only [h9, if_true, true_and, Res.ok.injEq]
    exact eq_comm
  · simp only [h7, if_false, false_imp_iff, true_and]
    by_cases h9 : 1 ≤ min (fs - L) qs
    case neg => simp [h9]
    simp only [h9, if_true, true_and, Res.ok.injEq]
    exact eq_comm

/-- ★ for ALL options and arguments (the number of queries within the `u32` that
    `num_queries() as u32` casts to — the accessor yields a `u8`): the model returns `ok l` exactly
    when the generated side condition holds and the generated function returns `l`. -/
theorem gen_conjectured_ok_iff (o : Options) (bits n cr l : Nat) (hq : o.numQueries < 4294967296) :
    conjectured o bits n cr = .ok l ↔ genConjOk o bits n cr = true ∧ genConj o bits n cr = l := by
  rw [conjectured_flat]
  unfold genConjOk genConj qsOf
  unfold_gen Gen.Security
  simp only [Bool.and_eq_true, decide_eq_true_eq, Nat.mod_eq_of_lt hq, ge_iff_le, ne_eq]
  generalize bits * o.ext.degree = fs
  generalize n * o.blowup = lde
  generalize lde.log2 = L
  generalize o.blowup.log2 * o.numQueries = qs
  constructor
  · rintro ⟨h, rfl⟩
    refine ⟨?_, rfl⟩
    grind
  · rintro ⟨h, rfl⟩
    refine ⟨?_, rfl⟩
    grind

/-- the panic side: the model panics exactly when the generated side condition fails -/
theorem gen_conjectured_panics_iff (o : Options) (bits n cr : Nat) (hq : o.numQueries < 4294967296) :
    (∃ s, conjectured o bits n cr = .panic s) ↔ genConjOk o bits n cr = false := by
  cases h : conjectured o bits n cr with
  | ok l =>
    have := (gen_conjectured_ok_iff o bits n cr l hq).mp h
    simp [this.1]
  | panic s =>
    constructor
    · intro _
      cases hk : genConjOk o bits n cr with
      | false => rfl
      | true =>
        have := (gen_conjectured_ok_iff o bits n cr _ hq).mpr ⟨hk, rfl⟩
        rw [h] at this; cases this
    · intro _; exact ⟨s, rfl⟩

/-- ★ `ProofOptions::new` as regenerated from air/src/options.rs on this run (Winter/Gen/ProofOpts.lean):
    the conjunction of its assertions — together with the no-overflow condition of
    `fri_remainder_max_degree + 1` — is the model's `Options.accepted`, for ALL arguments (`en` = the
    `FieldExtension` argument, which no assertion reads) -/
theorem gen_new_ok_eq_accepted (q b g : Nat) (e : Ext) (ff fr en : Nat) :
    Gen.ProofOpts.new_ok q b g en ff fr = Options.accepted ⟨q, b, g, e, ff, fr⟩ := by
  unfold Options.accepted MAX_NUM_QUERIES MIN_BLOWUP_FACTOR MAX_BLOWUP_FACTOR MAX_GRINDING_FACTOR
    FRI_MIN_FOLDING_FACTOR FRI_MAX_FOLDING_FACTOR FRI_MAX_REMAINDER_DEGREE
  unfold_gen Gen.ProofOpts
  have hp : ∀ x, Gen.isPow2 x = isPow2 x := fun _ => rfl
  simp only [hp, gt_iff_lt, ge_iff_le]
  rw [Bool.eq_iff_iff]
  simp only [Bool.and_eq_true, decide_eq_true_eq]
  constructor <;> intro h <;> grind

/-- the constructor stores its arguments: under the assertions no `as u8` cast truncates -/
theorem gen_new_fields (q b g en ff fr : Nat) (h : Gen.ProofOpts.new_ok q b g en ff fr = true) :
    Gen.ProofOpts.new q b g en ff fr = (q, b, g, en, ff, fr) := by
  revert h
  unfold_gen Gen.ProofOpts
  simp only [Bool.and_eq_true, decide_eq_true_eq, gt_iff_lt, ge_iff_le]
  intro h
  have e1 : q % 256 = q := Nat.mod_eq_of_lt (by omega)
  have e2 : b % 256 = b := Nat.mod_eq_of_lt (by omega)
  have e3 : g % 256 = g := Nat.mod_eq_of_lt (by omega)
  have e4 : ff % 256 = ff := Nat.mod_eq_of_lt (by omega)
  have e5 : fr % 256 = fr := Nat.mod_eq_of_lt (by omega)
  rw [e1, e2, e3, e4, e5]

/-- the accessors the estimate reads return the stored fields (`as usize` / `as u32` of a `u8` widen) -/
theorem gen_accessors (x : Nat) :
    Gen.ProofOpts.num_queries x = x ∧ Gen.ProofOpts.blowup_factor x = x ∧ Gen.ProofOpts.grinding_factor x = x ∧
    Gen.ProofOpts.field_extension x = x := by
  unfold_gen Gen.ProofOpts
  simp

/-- ★ `FieldExtension::degree` (regenerated: a `match` over the enum, which is its discriminant 1 / 2 / 3) is the
    model's `Ext.degree` on every value the enum has -/
theorem gen_degree_eq (k : Nat) (e : Ext) (h : Ext.ofNat? k = some e) :
    Gen.ProofOpts.degree k = e.degree ∧ Gen.ProofOpts.degree_ok k = true := by
  unfold_gen Gen.ProofOpts
  match k, h with
  | 1, h => cases h; exact ⟨rfl, rfl⟩
  | 2, h => cases h; exact ⟨rfl, rfl⟩
  | 3, h => cases h; exact ⟨rfl, rfl⟩

/-- hence the estimate with the regenerated accessors composed in: for an options record stored as the bytes
    `(q, b, g, k, …)` the regenerated `get_conjectured_security` applied to the regenerated accessor values is
    `genConj` -/
theorem genConj_via_accessors (o : Options) (k bits n cr : Nat) (h : Ext.ofNat? k = some o.ext) :
    Gen.Security.get_conjectured_security (Gen.ProofOpts.blowup_factor o.blowup)
      (Gen.ProofOpts.degree (Gen.ProofOpts.field_extension k)) (Gen.ProofOpts.grinding_factor o.grinding)
      (Gen.ProofOpts.num_queries o.numQueries) bits n cr = genConj o bits n cr := by
  obtain ⟨a1, a2, a3, a4⟩ := gen_accessors k
  rw [(gen_accessors o.blowup).2.1, (gen_accessors o.grinding).2.2.1, (gen_accessors o.numQueries).1, a4,
    (gen_degree_eq k o.ext h).1]
  rfl

/-! ## air/src/proof/context.rs: `Context::new` size guards, `num_modulus_bits` (Winter/Gen/ProofContext.lean) -/

/-- ★ `Context::new` (regenerated: `trace_length <= u32::MAX`, `lde_domain_size <= u32::MAX`, the checked
    product) accepts exactly what the model's `contextAccepted` accepts, for ALL arguments -/
theorem gen_context_new_ok (o : Options) (n : Nat) :
    Gen.ProofContext.new_ok n o.blowup = contextAccepted o n := by
  unfold contextAccepted
  unfold_gen Gen.ProofContext
  rw [Bool.eq_iff_iff]
  simp only [Bool.and_eq_true, decide_eq_true_eq]
  constructor <;> intro h <;> omega

/-- `Context::lde_domain_size` (regenerated) -/
theorem gen_context_lde (b n : Nat) : Gen.ProofContext.lde_domain_size b n = n * b := by
  unfold_gen Gen.ProofContext; rfl

theorem clz_eq_clz8 (b : Nat) (hb : b ≠ 0) : Gen.clz 8 b = clz8 b := by
  unfold Gen.clz Gen.bitLen clz8; simp only [hb, if_false]; omega

/-- once the translated loop has returned (`ret_done`), the remaining bytes change nothing and cannot panic -/
theorem modBits_done : ∀ (bs : List Nat) (nb rv : Nat),
    Gen.ProofContext.num_modulus_bits.for1 bs nb true rv = (nb, true, rv) ∧
    Gen.ProofContext.num_modulus_bits.for1_ok bs nb true rv = true := by
  intro bs
  induction bs with
  | nil => intro nb rv; simp [Gen.ProofContext.num_modulus_bits.for1, Gen.ProofContext.num_modulus_bits.for1_ok]
  | cons b t ih =>
    intro nb rv
    rw [Gen.ProofContext.num_modulus_bits.for1, Gen.ProofContext.num_modulus_bits.for1_ok]
    unfold_gen Gen.ProofContext
    simpa using ih nb rv

/-- the translated loop (with its early `return` as the flag `ret_done` and the value `ret_val`) against the
    model's loop -/
theorem modBits_loop : ∀ (bs : List Nat) (nb rv l : Nat),
    modBitsLoop bs nb = .ok l ↔
      (Gen.ProofContext.num_modulus_bits.for1_ok bs nb false rv = true ∧
        (if (Gen.ProofContext.num_modulus_bits.for1 bs nb false rv).2.1 = true
          then (Gen.ProofContext.num_modulus_bits.for1 bs nb false rv).2.2 else 0) = l) := by
  intro bs
  induction bs with
  | nil =>
    intro nb rv l
    simp [modBitsLoop, Gen.ProofContext.num_modulus_bits.for1, Gen.ProofContext.num_modulus_bits.for1_ok]
  | cons b t ih =>
    intro nb rv l
    rw [Gen.ProofContext.num_modulus_bits.for1, Gen.ProofContext.num_modulus_bits.for1_ok, modBitsLoop]
    unfold_gen Gen.ProofContext
    by_cases hb : b = 0
    · subst hb
      simp only [ne_eq, not_true_eq_false, if_false, bind, Res.bind, subU32]
      by_cases h8 : 8 ≤ nb
      · simp [h8, ih (nb - 8) rv l]
      · simp [h8]
    · have hc := clz_eq_clz8 b hb
      simp only [ne_eq, hb, not_false_eq_true, if_true, subU32]
      rw [hc]
      obtain ⟨d1, d2⟩ := modBits_done t (nb - clz8 b) (nb - clz8 b)
      by_cases hk : clz8 b ≤ nb
      · simp [hk, d1, d2]
      · simp [hk]

/-- ★ `Context::num_modulus_bits` (regenerated from air/src/proof/context.rs: the `for` over the reversed bytes
    with its early `return`, `leading_zeros`, the checked `u32` subtractions) IS the model function, for every
    byte string a context can carry (length below 2^29, so that `len() as u32 * 8` is exact): the model returns
    `ok l` exactly when the regenerated no-panic condition holds and the regenerated function returns `l` -/
theorem gen_num_modulus_bits_ok_iff (bs : List Nat) (l : Nat) (hl : bs.length < 536870912) :
    numModulusBits bs = .ok l ↔
      (Gen.ProofContext.num_modulus_bits_ok bs = true ∧ Gen.ProofContext.num_modulus_bits bs = l) := by
  have hm : bs.length % 4294967296 = bs.length := Nat.mod_eq_of_lt (by omega)
  unfold numModulusBits
  unfold_gen Gen.ProofContext
  simp only [bind, Res.bind, mulU32, U32, hm, Bool.and_eq_true, decide_eq_true_eq, Bool.decide_eq_true,
    show bs.length * 8 < 4294967296 from by omega, if_true, true_and]
  exact modBits_loop bs.reverse (bs.length * 8) 0 l

end C18G
