-- C17, prover side: the three boundary-constraint representations, the periodic value table, the
-- index arithmetic of `acc_column` and the frames read from the trace LDE, over a Mathlib field.
import WinterProofs.Lemmas.C17Model

namespace WinterProofs.C17L
open Model.Divisor Model.Composition WinterProofs.C16L

variable {F : Type} [Field F]

section
variable (root : ℕ → Option F)
local notation "O" => fieldOps F root

theorem pow_mod_of_pow_eq_one {a : F} {m : ℕ} (h : a ^ m = 1) (s : ℕ) : a ^ (s % m) = a ^ s := by
  conv_rhs => rw [← Nat.div_add_mod s m, pow_add, pow_mul, h, one_pow, one_mul]

theorem ceX_eq (D : Domain F) (step : ℕ) : D.ceX (O) step = D.wce ^ step * D.offset := rfl

theorem evalPolyWithOffset_eq {p : List F} {offset w : F} {blowup : ℕ}
    (hr : root (Nat.log2 (p.length * blowup)) = some w) :
    evalPolyWithOffset (O) p offset blowup
      = some ((List.range (p.length * blowup)).map (fun i => polyEval (O) p (offset * w ^ i))) := by
  unfold evalPolyWithOffset
  show (root (Nat.log2 (p.length * blowup)) >>= _) = _
  rw [hr]; rfl

theorem mapM_some_of_forall {β γ : Type} (f : β → Option γ) (g : β → γ) (l : List β)
    (h : ∀ b ∈ l, f b = some (g b)) : l.mapM f = some (l.map g) := by
  induction l with
  | nil => rfl
  | cons a l ih =>
    rw [List.mapM_cons, h a List.mem_cons_self, ih (fun b hb => h b (List.mem_cons_of_mem _ hb))]
    rfl

/-- what the three representations need from the domain -/
structure ReprOK (D : Domain F) (c : BConstraint F) : Prop where
  hlen : c.poly.length ≠ 0
  hdiv : c.poly.length ∣ D.ceSize
  hroot : root (Nat.log2 D.ceSize) = some D.wce
  hw : D.wce ^ D.ceSize = 1
  hoff : c.offsetElem * D.wce ^ (c.offsetSteps * D.ceBlowup) = 1
  hlt : c.offsetSteps * D.ceBlowup < D.ceSize

theorem value_cases (c : BConstraint F) (x : F) :
    (∃ v, c.poly = [v] ∧ c.value (O) x = v) ∨
    ((∀ v, c.poly ≠ [v]) ∧ c.value (O) x = polyEval (O) c.poly (x * c.offsetElem)) := by
  by_cases h : ∃ v, c.poly = [v]
  · obtain ⟨v, hv⟩ := h
    left; refine ⟨v, hv, ?_⟩
    unfold BConstraint.value; rw [hv]
  · right
    have h' : ∀ v, c.poly ≠ [v] := fun v hv => h ⟨v, hv⟩
    exact ⟨h', value_of_not_singleton (O) c h' x⟩

theorem boundary_repr_value (D : Domain F) (threshold : ℕ) (c : BConstraint F) (r : BRepr F)
    (hok : ReprOK root D c) (hr : BRepr.ofConstraint (O) D threshold c = some r)
    (state : ℕ → F) (step : ℕ) (hstep : step < D.ceSize) :
    r.evaluate (O) state step (D.ceX (O) step) = some (c.evalAt (O) (D.ceX (O) step) (state c.column)) := by
  unfold BConstraint.evalAt
  rcases value_cases root c (D.ceX (O) step) with ⟨v, hv, hval⟩ | ⟨hns, hval⟩
  · -- single value
    unfold BRepr.ofConstraint at hr
    rw [hv] at hr
    simp only [Option.some.injEq] at hr
    subst hr
    rw [hval]; rfl
  · rw [hval]
    unfold BRepr.ofConstraint at hr
    split at hr
    · rename_i v hv; exact absurd hv (hns v)
    · split at hr
      · -- small polynomial: Horner evaluation at x * x_offset
        simp only [Option.some.injEq] at hr
        subst hr
        rfl
      · -- large polynomial: pre-computed evaluations, shifted index
        have hmul : c.poly.length * (D.ceSize / c.poly.length) = D.ceSize := Nat.mul_div_cancel' hok.hdiv
        have hev := evalPolyWithOffset_eq root (p := c.poly) (offset := D.offset) (w := D.wce)
          (blowup := D.ceSize / c.poly.length) (by rw [hmul]; exact hok.hroot)
        rw [hev, hmul] at hr
        simp only [bind, Option.bind_some, pure, Option.some.injEq] at hr
        subst hr
        simp only [BRepr.evaluate, List.length_map, List.length_range]
        set s := c.offsetSteps * D.ceBlowup with hs
        have hslt := hok.hlt
        have key : ∀ idx, idx < D.ceSize → D.wce ^ idx * D.wce ^ s = D.wce ^ step →
            ((List.range D.ceSize).map (fun i => polyEval (O) c.poly (D.offset * D.wce ^ i)))[idx]? =
              some (polyEval (O) c.poly (D.ceX (O) step * c.offsetElem)) := by
          intro idx hidx hpow
          rw [List.getElem?_map, List.getElem?_range hidx]
          simp only [Option.map_some]
          congr 2
          rw [ceX_eq, ← hpow]
          have := hok.hoff
          calc D.offset * D.wce ^ idx = D.offset * D.wce ^ idx * (c.offsetElem * D.wce ^ s) := by rw [this, mul_one]
            _ = D.wce ^ idx * D.wce ^ s * D.offset * c.offsetElem := by ring
        have hidx : (if s > 0 then if s > step then D.ceSize + step - s else step - s else step) < D.ceSize ∧
            D.wce ^ (if s > 0 then if s > step then D.ceSize + step - s else step - s else step) * D.wce ^ s
              = D.wce ^ step := by
          by_cases h0 : s > 0
          · rw [if_pos h0]
            by_cases h1 : s > step
            · rw [if_pos h1]
              refine ⟨by omega, ?_⟩
              rw [← pow_add, show D.ceSize + step - s + s = D.ceSize + step by omega, pow_add, hok.hw, one_mul]
            · rw [if_neg h1]
              refine ⟨by omega, ?_⟩
              rw [← pow_add, show step - s + s = step by omega]
          · rw [if_neg h0]
            have : s = 0 := by omega
            refine ⟨hstep, ?_⟩
            rw [this, pow_zero, mul_one]
        rw [key _ hidx.1 hidx.2]

theorem invEvaluations_eq (D : Domain F) (a : ℕ) (b : F) (ex : List F) (ha : a ≠ 0) :
    invEvaluations (O) D ⟨[(a, b)], ex⟩
      = some ((List.range (D.ceSize / a)).map (fun i => 1 / (D.ceXPower (O) i a - b))) := by
  unfold invEvaluations
  simp only [ha, if_false]
  exact mapM_some_of_forall _ _ _ (fun i _ => rfl)

theorem ceXPower_eq (D : Domain F) (hw : D.wce ^ D.ceSize = 1) {a : ℕ} (hdvd : a ∣ D.ceSize) (ha : 0 < a) (i : ℕ) :
    D.ceXPower (O) (i % (D.ceSize / a)) a = (D.ceX (O) i) ^ a := by
  show D.wce ^ ((i % (D.ceSize / a)) * a % D.ceSize) * D.offset ^ a = (D.wce ^ i * D.offset) ^ a
  rw [pow_mod_of_pow_eq_one hw, mul_pow, ← pow_mul D.wce i a]
  congr 1
  obtain ⟨m, hm⟩ := hdvd
  have hm' : D.ceSize / a = m := by rw [hm]; exact Nat.mul_div_cancel_left m ha
  rw [hm']
  have e : i * a = D.ceSize * (i / m) + (i % m) * a := by
    conv_lhs => rw [← Nat.div_add_mod i m]
    rw [hm]; ring
  rw [e, pow_add, pow_mul D.wce D.ceSize, hw, one_pow, one_mul]

/-- **index arithmetic of `acc_column`.**  `z[i % z.len()]` is the inverse of the divisor numerator
    `x^a − b` at the `i`-th point of the constraint evaluation domain -/
theorem inv_evaluation_index (D : Domain F) (a : ℕ) (b : F) (ex z : List F)
    (hz : invEvaluations (O) D ⟨[(a, b)], ex⟩ = some z) (hw : D.wce ^ D.ceSize = 1) (hdvd : a ∣ D.ceSize)
    (ha : 0 < a) (hce : 0 < D.ceSize) (i : ℕ) :
    nth (O) z (i % z.length) = 1 / ((D.ceX (O) i) ^ a - b) := by
  rw [invEvaluations_eq root D a b ex (by omega)] at hz
  simp only [Option.some.injEq] at hz
  subst hz
  have hm : 0 < D.ceSize / a := Nat.div_pos (Nat.le_of_dvd hce hdvd) ha
  simp only [List.length_map, List.length_range, nth]
  rw [List.getD_eq_getElem?_getD, List.getElem?_map, List.getElem?_range (Nat.mod_lt _ hm)]
  simp only [Option.map_some, Option.getD_some]
  rw [ceXPower_eq root D hw hdvd ha]

/-- the expanded evaluations of one periodic column polynomial -/
def perColumn (D : Domain F) (p : List F) : List F :=
  (List.range (p.length * D.ceBlowup)).map (fun i =>
    polyEval (O) p (D.offset ^ (D.n / p.length) * (D.wce ^ (D.n / p.length)) ^ i))

theorem ptable_new_eq (D : Domain F) (polys : List (List F)) (hne : polys ≠ [])
    (hroot : ∀ p ∈ polys, root (Nat.log2 (p.length * D.ceBlowup)) = some (D.wce ^ (D.n / p.length))) :
    PTable.new (O) D polys = some
      ⟨(List.range (polys.foldl (fun m p => if p.length > m then p.length else m) 0 * D.ceBlowup)).map
          (fun i => (polys.map (perColumn root D)).map (fun column => nth (O) column (i % column.length))),
        polys.foldl (fun m p => if p.length > m then p.length else m) 0 * D.ceBlowup, polys.length⟩ := by
  unfold PTable.new
  have : polys.isEmpty = false := by cases polys with
    | nil => exact absurd rfl hne
    | cons _ _ => rfl
  rw [this]
  simp only [Bool.false_eq_true, if_false]
  have hm : polys.mapM (fun poly => evalPolyWithOffset (O) poly ((O).pow D.offset (D.n / poly.length)) D.ceBlowup)
      = some (polys.map (perColumn root D)) :=
    mapM_some_of_forall _ _ _ (fun p hp => evalPolyWithOffset_eq root (hroot p hp))
  rw [hm]
  rfl

/-- **periodic value table.**  `get_row(step)[j]` is the `j`-th periodic column polynomial at
    `x_step^(n/len_j)`, for every step of the constraint evaluation domain (the table is indexed modulo
    the longest expanded cycle) -/
theorem periodic_table_row (D : Domain F) (polys : List (List F)) (t : PTable F)
    (ht : PTable.new (O) D polys = some t)
    (hpow : ∀ p ∈ polys, ∃ k, p.length = 2 ^ k) (hdvd : ∀ p ∈ polys, p.length ∣ D.n)
    (hroot : ∀ p ∈ polys, root (Nat.log2 (p.length * D.ceBlowup)) = some (D.wce ^ (D.n / p.length)))
    (hw : D.wce ^ D.ceSize = 1) (hB : 0 < D.ceBlowup)
    (j : ℕ) (p : List F) (hj : polys[j]? = some p) (step : ℕ) :
    nth (O) (t.getRow step) j = polyEval (O) p ((D.ceX (O) step) ^ (D.n / p.length)) := by
  have hne : polys ≠ [] := by rintro rfl; simp at hj
  have hp : p ∈ polys := List.mem_of_getElem? hj
  rw [ptable_new_eq root D polys hne hroot] at ht
  simp only [Option.some.injEq] at ht
  subst ht
  set M := polys.foldl (fun m p => if p.length > m then p.length else m) 0 with hM
  have hle : p.length ≤ M := (foldl_max_ge (fun q : List F => q.length) polys 0).2 p hp
  obtain ⟨k, hk⟩ := hpow p hp
  have hppos : 0 < p.length := by rw [hk]; exact Nat.pow_pos (by omega)
  have hMpow : ∃ k, M = 2 ^ k := by
    rcases foldl_max_mem (fun q : List F => q.length) polys 0 with h0 | ⟨q, hq, hm⟩
    · have : M = 0 := h0
      omega
    · have : M = q.length := hm
      rw [this]; exact hpow q hq
  have hdM : p.length ∣ M := pow2_dvd_of_le ⟨k, hk⟩ hMpow hle
  have hMB : 0 < M * D.ceBlowup := Nat.mul_pos (by omega) hB
  have hwidth : polys.length ≠ 0 := by
    intro h; exact hne (List.eq_nil_of_length_eq_zero h)
  unfold PTable.getRow
  simp only [hwidth, if_false]
  rw [List.getElem?_map, List.getElem?_range (Nat.mod_lt _ hMB)]
  simp only [Option.map_some, Option.getD_some]
  unfold nth
  rw [List.getD_eq_getElem?_getD, List.getElem?_map, List.getElem?_map, hj]
  simp only [Option.map_some, Option.getD_some]
  -- the entry of the expanded column
  have hlen : (perColumn root D p).length = p.length * D.ceBlowup := by simp [perColumn]
  rw [hlen]
  have hlt : step % (M * D.ceBlowup) % (p.length * D.ceBlowup) < p.length * D.ceBlowup :=
    Nat.mod_lt _ (Nat.mul_pos hppos hB)
  unfold perColumn
  rw [List.getD_eq_getElem?_getD, List.getElem?_map, List.getElem?_range hlt]
  simp only [Option.map_some, Option.getD_some]
  congr 1
  -- w_p has order dividing len·B, and len·B divides M·B
  have hn : D.n / p.length * p.length = D.n := Nat.div_mul_cancel (hdvd p hp)
  have hwp : (D.wce ^ (D.n / p.length)) ^ (p.length * D.ceBlowup) = 1 := by
    rw [← pow_mul, ← Nat.mul_assoc, hn]; exact hw
  have hdvd2 : p.length * D.ceBlowup ∣ M * D.ceBlowup := Nat.mul_dvd_mul_right hdM _
  rw [Nat.mod_mod_of_dvd _ hdvd2, pow_mod_of_pow_eq_one hwp, ceX_eq, mul_pow, ← pow_mul, ← pow_mul, mul_comm]
  congr 2
  ring

/-- **frames read from the trace LDE.**  At step `i` of the constraint evaluation domain the prover's
    frame (`step << lde_shift`, next row `+ lde_blowup` modulo the LDE size) is the trace polynomials at
    `x_i` and `x_i·g` -/
theorem prover_frames_eq (D : Domain F) (mainPolys auxPolys : ℕ → List F) (g : F) (step : ℕ)
    (hr : D.wlde ^ (D.ldeBlowup / D.ceBlowup) = D.wce) (hg : D.wlde ^ D.ldeBlowup = g)
    (hwl : D.wlde ^ D.ldeSize = 1) :
    proverFrames (O) D mainPolys auxPolys step = framesOf (O) mainPolys auxPolys g (D.ceX (O) step) := by
  have h1 : D.offset * D.wlde ^ (step * (D.ldeBlowup / D.ceBlowup)) = D.ceX (O) step := by
    rw [ceX_eq, mul_comm step, pow_mul, hr, mul_comm]
  have h2 : D.offset * D.wlde ^ ((step * (D.ldeBlowup / D.ceBlowup) + D.ldeBlowup) % D.ldeSize)
      = D.ceX (O) step * g := by
    rw [pow_mod_of_pow_eq_one hwl, pow_add, hg, ← mul_assoc, h1]
  unfold proverFrames framesOf ldeAt
  show Frames.mk _ _ _ _ = Frames.mk _ _ _ _
  congr 1 <;> funext c
  · exact congrArg (polyEval (O) (mainPolys c)) h1
  · exact congrArg (polyEval (O) (mainPolys c)) h2
  · exact congrArg (polyEval (O) (auxPolys c)) h1
  · exact congrArg (polyEval (O) (auxPolys c)) h2
end

end WinterProofs.C17L
