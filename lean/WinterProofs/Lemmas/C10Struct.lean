-- C10 helper lemmas: the sorted position list enumerated pair by pair; maps built in lock step
import WinterProofs.Lemmas.C10Spec

namespace WinterProofs.C10
open Model.Merkle

variable {D α β : Type}

/-- two strictly ascending lists with the same members are equal -/
theorem Asc.ext : ∀ {l1 l2 : List Nat}, Asc l1 → Asc l2 → (∀ x, x ∈ l1 ↔ x ∈ l2) → l1 = l2
  | [], [], _, _, _ => rfl
  | [], b :: t, _, _, h => by have := (h b).2 (List.mem_cons_self ..); cases this
  | a :: t, [], _, _, h => by have := (h a).1 (List.mem_cons_self ..); cases this
  | a :: t1, b :: t2, h1, h2, h => by
    have hab : a = b := by
      have ha := (h a).1 (List.mem_cons_self ..)
      have hb := (h b).2 (List.mem_cons_self ..)
      rcases List.mem_cons.1 ha with e | ha
      · exact e
      · rcases List.mem_cons.1 hb with e | hb
        · exact e.symm
        · have := Asc.head_lt h2 a ha
          have := Asc.head_lt h1 b hb
          omega
    subst hab
    congr 1
    apply Asc.ext (Asc.tail h1) (Asc.tail h2)
    intro x
    constructor
    · intro hx
      have := (h x).1 (List.mem_cons_of_mem _ hx)
      rcases List.mem_cons.1 this with e | hx2
      · have := Asc.head_lt h1 x hx; omega
      · exact hx2
    · intro hx
      have := (h x).2 (List.mem_cons_of_mem _ hx)
      rcases List.mem_cons.1 this with e | hx2
      · have := Asc.head_lt h2 x hx; omega
      · exact hx2

/-- in a map with ascending keys every entry is what `get` returns -/
theorem SMap.get_of_mem (m : SMap α) (h : Asc (SMap.keys m)) (k : Nat) (a : α) (hm : (k, a) ∈ m) :
    SMap.get m k = some a := by
  induction m with
  | nil => cases hm
  | cons p t ih =>
    obtain ⟨k', a'⟩ := p
    simp only [SMap.get]
    rcases List.mem_cons.1 hm with e | hm
    · injection e with e1 e2; subst e1; subst e2; simp
    · have hk : k ∈ SMap.keys t := List.mem_map.2 ⟨(k, a), hm, rfl⟩
      have := Asc.head_lt h k hk
      rw [if_neg (by simp at this; omega)]
      exact ih (Asc.tail h) hm

/-- `insert` commutes with shifting the keys and mapping the values -/
theorem SMap.insert_map (c : Nat) (g : α → β) : ∀ (m : SMap α) (k : Nat) (a : α),
    (SMap.insert m k a).map (fun p => (c + p.1, g p.2)) =
      SMap.insert (m.map (fun p => (c + p.1, g p.2))) (c + k) (g a)
  | [], k, a => rfl
  | (k', a') :: t, k, a => by
    have e1 : (c + k < c + k') ↔ (k < k') := by omega
    have e2 : (c + k = c + k') ↔ (k = k') := by omega
    simp only [SMap.insert, List.map_cons, e1, e2]
    split
    · rfl
    · split
      · rfl
      · simp only [List.map_cons, SMap.insert_map c g t k a]

/-- the claimed positions enumerated pair by pair along the normalized positions -/
def pairKeys (imap : SMap Nat) : List Nat → List Nat
  | [] => []
  | e :: norm =>
    (if (SMap.get imap e).isSome then [e] else []) ++
      ((if (SMap.get imap (e + 1)).isSome then [e + 1] else []) ++ pairKeys imap norm)

theorem pairKeys_mem (imap : SMap Nat) : ∀ (norm : List Nat) (x : Nat),
    x ∈ pairKeys imap norm ↔ ∃ e ∈ norm, (x = e ∨ x = e + 1) ∧ (SMap.get imap x).isSome
  | [], x => by simp [pairKeys]
  | e :: norm, x => by
    simp only [pairKeys, List.mem_append, pairKeys_mem imap norm x, List.mem_cons, exists_eq_or_imp]
    constructor
    · rintro (h | h | h)
      · split at h
        · simp at h; subst h; exact Or.inl ⟨Or.inl rfl, by assumption⟩
        · cases h
      · split at h
        · simp at h; subst h; exact Or.inl ⟨Or.inr rfl, by assumption⟩
        · cases h
      · exact Or.inr h
    · rintro (⟨h1 | h1, h2⟩ | h)
      · subst h1; left; rw [if_pos h2]; simp
      · subst h1; right; left; rw [if_pos h2]; simp
      · exact Or.inr (Or.inr h)

theorem pairKeys_asc (imap : SMap Nat) : ∀ (norm : List Nat), Asc norm → (∀ e ∈ norm, e % 2 = 0) →
    Asc (pairKeys imap norm)
  | [], _, _ => trivial
  | e :: norm, hasc, hev => by
    have ih := pairKeys_asc imap norm (Asc.tail hasc) (fun x hx => hev x (List.mem_cons_of_mem _ hx))
    have hlt : ∀ x ∈ pairKeys imap norm, e + 1 < x := by
      intro x hx
      obtain ⟨e', he', hx', _⟩ := (pairKeys_mem imap norm x).1 hx
      have := Asc.head_lt hasc e' he'
      have := hev e' (List.mem_cons_of_mem _ he')
      have := hev e (List.mem_cons_self ..)
      omega
    simp only [pairKeys]
    have h2 : Asc ((if (SMap.get imap (e + 1)).isSome then [e + 1] else []) ++ pairKeys imap norm) := by
      split
      · exact Asc.cons ih hlt
      · exact ih
    split
    · apply Asc.cons h2
      intro x hx
      rcases List.mem_append.1 hx with hx | hx
      · split at hx
        · simp at hx; omega
        · cases hx
      · have := hlt x hx; omega
    · exact h2

/-- a successful `map_indexes` returns a map with ascending keys -/
theorem mapIndexes_asc {idxs : List Nat} {d : Nat} {imap : SMap Nat} (h : mapIndexes idxs d = .ok imap) :
    Asc (SMap.keys imap) := by
  unfold mapIndexes pow2 at h
  by_cases hd : d < usizeBits
  · rw [if_pos hd] at h
    simp only [Res.ok_bind] at h
    cases hl : mapIndexesLoop (2 ^ d) idxs 0 [] with
    | ok m =>
      rw [hl] at h
      simp only [Res.ok_bind] at h
      split at h
      · cases h
      · injection h with h; subst h
        have inv0 : MapInv [] ([] : SMap Nat) := ⟨trivial, by intro i j h; simp [SMap.get] at h, by simp, by intro _ j hj; simp at hj⟩
        exact (mapIndexesLoop_spec (2 ^ d) idxs [] [] m inv0 hl).1.asc
    | err e => rw [hl] at h; cases h
    | panic s => rw [hl] at h; cases h
  · rw [if_neg hd] at h; cases h

/-- the sorted positions are the pairs of the normalized positions, in order -/
theorem keys_eq_pairKeys {idxs : List Nat} {d : Nat} {imap : SMap Nat} (h : mapIndexes idxs d = .ok imap) :
    SMap.keys imap = pairKeys imap (normalizeIndexes idxs) := by
  obtain ⟨_, _, _, hget, hsound, _⟩ := mapIndexes_ok h
  obtain ⟨nasc, nmem⟩ := normalize_spec idxs
  have nev : ∀ e ∈ normalizeIndexes idxs, e % 2 = 0 := by
    intro e he; obtain ⟨i, _, rfl⟩ := (nmem e).1 he; omega
  apply Asc.ext (mapIndexes_asc h) (pairKeys_asc imap _ nasc nev)
  intro x
  rw [pairKeys_mem]
  constructor
  · intro hx
    obtain ⟨j, hj⟩ := SMap.get_some_of_mem_keys imap x hx
    have hxi : x ∈ idxs := List.mem_of_getElem? (hsound x j hj)
    refine ⟨x - x % 2, (nmem _).2 ⟨x, hxi, rfl⟩, by omega, by simp [hj]⟩
  · rintro ⟨e, _, _, hs⟩
    cases hg : SMap.get imap x with
    | none => simp [hg] at hs
    | some j => exact SMap.mem_keys_of_get _ _ _ hg

end WinterProofs.C10
