-- tie T for C04: the scripts of public-coin operations EXTRACTED from the Rust sources on this run
-- (Winter/Gen/TranscriptScript.lean, by translate/script.py: every syntactic use of `public_coin` in
-- verifier/src/lib.rs `perform_verification`, of `channel` in prover/src/lib.rs `generate_proof` and its two
-- commit helpers, of `self.public_coin` in the methods of prover/src/channel.rs — in source order, with the
-- `if`s on multi-segment / Lagrange-kernel as branches) are the hand-written scripts `verifierScript` /
-- `proverScript` of Winter/Model/Transcript.lean that the theorems of WinterProofs/C04.lean are about.
-- What is hand-written here is only the MEANING of a leaf (which message a `reseed` argument is, how many
-- elements a callee that is handed the coin draws: `Air::get_*`, the GKR prover / verifier, `FriVerifier::new`,
-- `FriProver::build_layers`, whose loops are modelled in Transcript.lean); the ORDER and the branch structure come
-- from the sources: reordering two calls, moving one into or out of a branch, dropping or duplicating one breaks
-- these theorems.
import Winter.Model.Transcript
import Winter.Gen.TranscriptScript

namespace C04G
open Model.Transcript Gen.TranscriptScript

/-- interpretation of an extracted tree: leaves through `leaf`, branches through `cond`; `none` = a node the
    interpretation does not know (an unexpected call, argument or condition) -/
def interp (leaf : Node → Option (List CoinOp)) (cond : String → Option Bool) : Nat → List Node → Option (List CoinOp)
  | _, [] => some []
  | 0, _ => none
  | fuel + 1, .ite c t e :: rest =>
    match cond c with
    | some b =>
      match interp leaf cond fuel (if b then t else e), interp leaf cond fuel rest with
      | some x, some y => some (x ++ y)
      | _, _ => none
    | none => none
  | fuel + 1, n :: rest =>
    match leaf n, interp leaf cond fuel rest with
    | some x, some y => some (x ++ y)
    | _, _ => none

def condOf (cfg : Cfg) : String → Option Bool
  | "aux" => some cfg.aux
  | "lagrange" => some cfg.lagrange
  | _ => none

/-- a tree without branches, one expected leaf -/
def single (expected : Node → Bool) (ops : List CoinOp) (tree : List Node) : Option (List CoinOp) :=
  match tree with
  | [n] => if expected n then some ops else none
  | _ => none

-- ====================================================================================== verifier
/-- meaning of the verifier's leaves -/
def vLeaf (cfg : Cfg) : Node → Option (List CoinOp)
  | .coin "reseed" "channel.read_trace_commitments() [ MAIN_TRACE_IDX ]" => some [.reseed .mainTraceRoot]
  | .coin "reseed" "channel.read_trace_commitments() [ AUX_TRACE_IDX ]" => some [.reseed .auxTraceRoot]
  | .coin "reseed" "channel.read_constraint_commitment()" => some [.reseed .constraintRoot]
  | .coin "reseed" "channel.read_ood_trace_frame() . hash :: < H > ( )" => some [.reseed .oodTraceFrameHash]
  | .coin "reseed" "H :: hash_elements ( & channel.read_ood_constraint_evaluations() )" =>
    some [.reseed .oodEvaluationsHash]
  | .coin "draw" "" => some [.draw .oodPoint 1]
  | .passCoin "verify" => some [.draw .gkr cfg.gkrDraws]
  | .passCoin "get_aux_rand_elements" => some [.draw .auxRand cfg.auxRands]
  | .passCoin "get_constraint_composition_coefficients" => some [.draw .compCoeffs (compCount cfg)]
  | .passCoin "get_deep_composition_coefficients" => some [.draw .deepCoeffs (deepCount cfg)]
  | .passCoin "FriVerifier::new" => some (friVerifierLoop 0 (friCommitments cfg.friLayers))
  | .coin "check_leading_zeros" "channel.read_pow_nonce()" => some [.checkPow]
  | .coin "draw_integers"
      "air . options ( ) . num_queries ( ) , air . lde_domain_size ( ) , channel.read_pow_nonce()" =>
    some [.reseedWithNonce, .drawInts cfg.queries cfg.ldeSize]
  | _ => none

/-- ★ the verifier's script as extracted from `perform_verification` on this run (after `RandomCoin::new` in
    `verify`) IS the hand-written `verifierScript`, for every configuration -/
theorem verifier_script_eq_extracted (cfg : Cfg) :
    (interp (vLeaf cfg) (condOf cfg) 64 perform_verification).map (fun ops => CoinOp.new [.context, .pubInputs] :: ops)
      = some (verifierScript cfg) := by
  obtain ⟨aux, lagrange, gkrDraws, auxRands, nTrans, nAssert, logLen, width, cols, friLayers, queries, ldeSize,
    ext, grinding⟩ := cfg
  cases aux <;> cases lagrange <;> rfl

-- ====================================================================================== prover
/-- meaning of a call of a `ProverChannel` method: the extracted body of the method (its uses of
    `self.public_coin`) with the meaning of its single coin operation -/
def chanMethod (cfg : Cfg) (method args : String) : Option (List CoinOp) :=
  match method, args with
  | "new", _ =>
    single (fun n => match n with | .coin "RandomCoin::new" "& coin_seed_elements" => true | _ => false)
      [.new [.context, .pubInputs]] channel_new
  | "commit_trace", "main_trace_root" =>
    single (fun n => match n with | .coin "reseed" "trace_root" => true | _ => false)
      [.reseed .mainTraceRoot] channel_commit_trace
  | "commit_trace", "aux_segment_root" =>
    single (fun n => match n with | .coin "reseed" "trace_root" => true | _ => false)
      [.reseed .auxTraceRoot] channel_commit_trace
  | "commit_constraints", "constraint_commitment . root ( )" =>
    single (fun n => match n with | .coin "reseed" "constraint_root" => true | _ => false)
      [.reseed .constraintRoot] channel_commit_constraints
  | "get_constraint_composition_coeffs", "" =>
    single (fun n => match n with | .passCoin "get_constraint_composition_coefficients" => true | _ => false)
      [.draw .compCoeffs (compCount cfg)] channel_get_constraint_composition_coeffs
  | "get_ood_point", "" =>
    single (fun n => match n with | .coin "draw" "" => true | _ => false) [.draw .oodPoint 1] channel_get_ood_point
  | "send_ood_trace_states", "& ood_trace_states" =>
    single (fun n => match n with | .coin "reseed" "trace_states_hash" => true | _ => false)
      [.reseed .oodTraceFrameHash] channel_send_ood_trace_states
  | "send_ood_constraint_evaluations", "& ood_evaluations" =>
    single (fun n => match n with | .coin "reseed" "H :: hash_elements ( evaluations )" => true | _ => false)
      [.reseed .oodEvaluationsHash] channel_send_ood_constraint_evaluations
  | "get_deep_composition_coeffs", "" =>
    single (fun n => match n with | .passCoin "get_deep_composition_coefficients" => true | _ => false)
      [.draw .deepCoeffs (deepCount cfg)] channel_get_deep_composition_coeffs
  | "grind_query_seed", "" =>
    single (fun n => match n with | .coin "check_leading_zeros" "nonce" => true | _ => false)
      [.checkPow] channel_grind_query_seed
  | "get_query_positions", "" =>
    single (fun n => match n with
        | .coin "draw_integers" "num_queries , lde_domain_size , self . pow_nonce" => true | _ => false)
      [.reseedWithNonce, .drawInts cfg.queries cfg.ldeSize] channel_get_query_positions
  | "build_proof", _ => some []
  | _, _ => none

/-- leaves of the two commit helpers of `Prover`: calls of channel methods only -/
def helperLeaf (cfg : Cfg) : Node → Option (List CoinOp)
  | .chan m a => chanMethod cfg m a
  | _ => none

/-- `FriProver::build_layers` / `set_remainder` (modelled in Transcript.lean) commit through `commit_fri_layer`
    and draw through `draw_fri_alpha`: one `reseed`, one `draw` -/
def friChannelOk : Bool :=
  (single (fun n => match n with | .coin "reseed" "layer_root" => true | _ => false) [] channel_commit_fri_layer).isSome
  && (single (fun n => match n with | .coin "draw" "" => true | _ => false) [] channel_draw_fri_alpha).isSome

/-- meaning of the leaves of `generate_proof` -/
def pLeaf (cfg : Cfg) : Node → Option (List CoinOp)
  | .chan m a => chanMethod cfg m a
  | .passChan "commit_to_main_trace_segment" => interp (helperLeaf cfg) (condOf cfg) 8 commit_to_main_trace_segment
  | .passChan "commit_to_constraint_evaluations" =>
    interp (helperLeaf cfg) (condOf cfg) 8 commit_to_constraint_evaluations
  | .passChan "build_layers" => if friChannelOk then some (friProver cfg.friLayers) else none
  | .passCoin "generate_gkr_proof" => some [.draw .gkr cfg.gkrDraws]
  | .passCoin "get_aux_rand_elements" => some [.draw .auxRand cfg.auxRands]
  | _ => none

/-- ★ the prover's script as extracted from `Prover::generate_proof`, its commit helpers and the methods of
    `ProverChannel` on this run IS the hand-written `proverScript`, for every configuration -/
theorem prover_script_eq_extracted (cfg : Cfg) :
    interp (pLeaf cfg) (condOf cfg) 64 generate_proof = some (proverScript cfg) := by
  obtain ⟨aux, lagrange, gkrDraws, auxRands, nTrans, nAssert, logLen, width, cols, friLayers, queries, ldeSize,
    ext, grinding⟩ := cfg
  cases aux <;> cases lagrange <;> rfl

end C04G
