-- C20 helper lemmas, part 8: batched Lagrange interpolation (`interpolate_batch`).
import WinterProofs.Lemmas.C20Interp

namespace WinterProofs.C20
open Model.Poly Polynomial

variable {α β F : Type} [Field F]

section
variable {O : Ops α} {v : α → F}

-- ------------------------------------------------------------------ the inlined synthetic division

/-- recursive specification of the inlined synthetic division on the coefficients `roots[1..]`:
    `equation[N-1] = roots[N]`, `equation[k] = roots[k+1] + equation[k+1] * x` -/
def eqOf (O : Ops α) (x : α) : List α → List α
  | [] => []
  | r :: rest =>
    match eqOf O x rest with
    | [] => [r]
    | q :: e => O.add r (O.mul q x) :: q :: e

theorem length_eqOf (x : α) (hs : List α) : (eqOf O x hs).length = hs.length := by
  induction hs with
  | nil => rfl
  | cons r rest ih =>
    rw [eqOf]
    split
    · rename_i h; rw [h] at ih; simp at ih ⊢; exact List.length_eq_zero_iff.1 ih.symm
    · rename_i q e h; rw [h] at ih; simp at ih ⊢; exact ih

/-- with `hs = roots[1..]`: `E·(X − x) = X·hs − x·E_0` -/
theorem toPoly_eqOf (L : Lawful O v) (x : α) (hs : List α) :
    toPoly v (eqOf O x hs) * (X - C (v x)) =
      X * toPoly v hs - C (v x * (toPoly v (eqOf O x hs)).coeff 0) := by
  induction hs with
  | nil => simp [eqOf]
  | cons r rest ih =>
    unfold eqOf
    cases h : eqOf O x rest with
    | nil =>
      have : rest = [] := by
        have := length_eqOf (O := O) x rest
        rw [h] at this; exact List.length_eq_zero_iff.1 this.symm
      subst this
      simp; ring
    | cons q e =>
      rw [h] at ih
      simp only [toPoly_cons, L.add, L.mul, coeff_add, coeff_C_zero, mul_coeff_zero, coeff_X_zero,
        zero_mul, add_zero] at ih ⊢
      have : X * toPoly v rest = (C (v q) + X * toPoly v e) * (X - C (v x)) + C (v x * v q) := by
        rw [ih]; ring
      rw [this]
      simp only [C_add, C_mul]
      ring

/-- the equation is the quotient of `roots` by `X − x` -/
theorem toPoly_eqOf_eq_divByMonic (L : Lawful O v) (x : α) (r0 : α) (hs : List α) :
    toPoly v (eqOf O x hs) = toPoly v (r0 :: hs) /ₘ (X - C (v x)) := by
  have h := toPoly_eqOf L x hs
  refine ((div_modByMonic_unique (f := toPoly v (r0 :: hs)) (g := X - C (v x)) (toPoly v (eqOf O x hs))
    (C (v r0 + v x * (toPoly v (eqOf O x hs)).coeff 0)) (monic_X_sub_C _) ⟨?_, ?_⟩).1).symm
  · rw [toPoly_cons, mul_comm (X - C (v x)), h]
    simp only [C_add, C_mul]; ring
  · rw [degree_X_sub_C]
    exact lt_of_le_of_lt degree_C_le (by norm_num)

/-- the loop of `batchEquation` from index `j` down to 0, started on the specification at `j` -/
theorem batchEquation_aux (x : α) (roots : List α) (j : Nat) (hj : j + 1 < roots.length)
    (hne : eqOf O x (roots.drop (j + 1)) ≠ []) :
    loopM (List.range j).reverse (eqOf O x (roots.drop (j + 1))) (batchEqStep O roots x)
      = .ok (eqOf O x (roots.drop 1)) := by
  induction j with
  | zero => rfl
  | succ j ih =>
    rw [List.range_succ, List.reverse_append, List.reverse_singleton, List.singleton_append]
    have hj' : j + 1 < roots.length := by omega
    obtain ⟨q, e, hqe⟩ : ∃ q e, eqOf O x (roots.drop (j + 1 + 1)) = q :: e := by
      cases h : eqOf O x (roots.drop (j + 1 + 1)) with
      | nil => exact absurd h hne
      | cons q e => exact ⟨q, e, rfl⟩
    have hstep : eqOf O x (roots.drop (j + 1)) = O.add roots[j + 1] (O.mul q x) :: q :: e := by
      rw [List.drop_eq_getElem_cons hj']
      conv_lhs => unfold eqOf
      rw [hqe]
    have hbody : batchEqStep O roots x (eqOf O x (roots.drop (j + 1 + 1))) j
        = .ok (eqOf O x (roots.drop (j + 1))) := by
      rw [batchEqStep, getAt_ok _ _ hj', bind_ok, hqe, hstep]
    rw [loopM_cons_ok (body := batchEqStep O roots x) hbody]
    exact ih hj' (by rw [hstep]; simp)

/-- `batchEquation` on a slice of `N + 1 ≥ 2` coefficients: no panic, equals the specification -/
theorem batchEquation_eq (N : Nat) (hN : N ≠ 0) (roots : List α) (hl : roots.length = N + 1) (x : α) :
    batchEquation O N roots x = .ok (eqOf O x (roots.drop 1)) := by
  unfold batchEquation
  simp only [hN, if_false]
  have hN' : N < roots.length := by omega
  rw [getAt_ok _ _ hN', bind_ok]
  have hd : roots.drop N = [roots[N]] := by
    rw [List.drop_eq_getElem_cons hN', List.drop_eq_nil_of_le (by omega)]
  have hstart : eqOf O x (roots.drop (N - 1 + 1)) = [roots[N]] := by
    have : N - 1 + 1 = N := by omega
    rw [this, hd]; rfl
  have := batchEquation_aux (O := O) x roots (N - 1) (by omega) (by rw [hstart]; simp)
  rw [hstart] at this
  exact this


-- ------------------------------------------------------------------ the first loop (per batch)

/-- equations of one batch of X coordinates -/
def eqsOf (O : Ops α) (xs : List α) : List (List α) :=
  xs.map fun x => eqOf O x ((fromRootsSpec O xs).drop 1)

/-- the values to invert for one batch -/
def densOf (O : Ops α) (xs : List α) : List α :=
  xs.map fun x => eval O (eqOf O x ((fromRootsSpec O xs).drop 1)) x

theorem batchStep_eq (N : Nat) (hN : N ≠ 0) (st : BatchSt α) (xs : List α)
    (hr : st.roots.length = N + 1) (hx : xs.length = N) :
    batchStep O N st xs = .ok
      { roots := fromRootsSpec O xs,
        equations := st.equations ++ eqsOf O xs,
        inverses := st.inverses ++ densOf O xs } := by
  unfold batchStep
  rw [fillZeroRoots_eq xs st.roots (by omega), bind_ok]
  have hl : (fromRootsSpec O xs).length = N + 1 := by rw [length_fromRootsSpec, hx]
  rw [mapM'_eq_map (g := fun x => eqOf O x ((fromRootsSpec O xs).drop 1))
    (fun x _ => batchEquation_eq N hN _ hl x), bind_ok, zip_map_self, List.map_map]
  rfl

theorem batchLoop_eq (N : Nat) (hN : N ≠ 0) (xss : List (List α)) (hx : ∀ b ∈ xss, b.length = N)
    (st : BatchSt α) (hr : st.roots.length = N + 1) :
    ∃ rt, loopM xss st (batchStep O N) = .ok
      { roots := rt,
        equations := st.equations ++ (xss.map (eqsOf O)).flatten,
        inverses := st.inverses ++ (xss.map (densOf O)).flatten } := by
  induction xss generalizing st with
  | nil => exact ⟨st.roots, by simp⟩
  | cons xs xss ih =>
    rw [loopM_cons_ok (body := batchStep O N) (batchStep_eq N hN st xs hr (hx xs (by simp)))]
    obtain ⟨rt, e⟩ := ih (fun b hb => hx b (by simp [hb]))
      { roots := fromRootsSpec O xs, equations := st.equations ++ eqsOf O xs,
        inverses := st.inverses ++ densOf O xs }
      (by show (fromRootsSpec O xs).length = N + 1; rw [length_fromRootsSpec, hx xs (by simp)])
    exact ⟨rt, by rw [e]; simp [List.append_assoc]⟩

/-- element `i * N + j` of the concatenation of lists of length `N` -/
theorem getElem?_flatten_uniform {γ : Type} (Ls : List (List γ)) (N : Nat)
    (h : ∀ l ∈ Ls, l.length = N) (i j : Nat) (hi : i < Ls.length) (hj : j < N) :
    Ls.flatten[i * N + j]? = Ls[i][j]? := by
  induction Ls generalizing i with
  | nil => simp at hi
  | cons l rest ih =>
    have hl : l.length = N := h l (by simp)
    cases i with
    | zero =>
      simp only [List.flatten_cons, Nat.zero_mul, Nat.zero_add, List.getElem_cons_zero]
      rw [List.getElem?_append_left (by omega)]
    | succ i =>
      have hi' : i < rest.length := by simpa using hi
      simp only [List.flatten_cons, List.getElem_cons_succ]
      rw [List.getElem?_append_right (by rw [hl, Nat.succ_mul]; omega)]
      have : (i + 1) * N + j - l.length = i * N + j := by rw [hl, Nat.succ_mul]; omega
      rw [this]
      exact ih (fun l' hl' => h l' (by simp [hl'])) i hi'

-- ------------------------------------------------------------------ the combination loop

theorem batchCombine_spec (L : Lawful O v) (N : Nat) (equations : List (List α)) (inverses ys : List α)
    (i : Nat) (hys : ys.length = N) (hinv : ∀ j, j < N → i * N + j < inverses.length)
    (heq : ∀ j, j < N → ∃ h : i * N + j < equations.length, equations[i * N + j].length = N)
    (k : Nat) (hk : k ≤ N) :
    ∃ poly, loopM (List.range k) (List.replicate N O.zero) (fun poly j =>
        (getAt ys j).bind fun y =>
        (getAt inverses (i * N + j)).bind fun d =>
        (getAt equations (i * N + j)).bind fun eq =>
        .ok (List.zipWith (fun res c => O.add res (O.mul c (O.mul y d))) poly eq)) = .ok poly ∧
      poly.length = N ∧
      toPoly v poly = ∑ j ∈ Finset.range k,
        C (v (ys.getD j O.zero) * v (inverses.getD (i * N + j) O.zero)) *
          toPoly v (equations.getD (i * N + j) []) := by
  induction k with
  | zero => exact ⟨_, rfl, by simp, by simp [toPoly_replicate_zero L]⟩
  | succ k ih =>
    obtain ⟨poly, e, l, p⟩ := ih (by omega)
    have hky : k < ys.length := by omega
    have hkd := hinv k (by omega)
    obtain ⟨hke, hkl⟩ := heq k (by omega)
    refine ⟨List.zipWith (fun res c => O.add res (O.mul c (O.mul ys[k] inverses[i * N + k]))) poly
      equations[i * N + k], ?_, by simp [l, hkl], ?_⟩
    · rw [List.range_succ, loopM_append, e, bind_ok]
      simp only [loopM, getAt_ok ys k hky, getAt_ok inverses _ hkd, getAt_ok equations _ hke, bind_ok]
    · have ht : equations[i * N + k].take N = equations[i * N + k] :=
        List.take_of_length_le (by omega)
      rw [toPoly_zipWith_acc L _ poly _ (by omega), p, Finset.sum_range_succ, L.mul, l, ht]
      simp [List.getD_eq_getElem?_getD, hky, hkd, hke]


-- ------------------------------------------------------------------ assembling one batch

theorem length_flatten_uniform {γ : Type} (Ls : List (List γ)) (N : Nat) (h : ∀ l ∈ Ls, l.length = N) :
    Ls.flatten.length = Ls.length * N := by
  induction Ls with
  | nil => simp
  | cons l rest ih =>
    rw [List.flatten_cons, List.length_append, ih (fun l' hl' => h l' (by simp [hl'])), h l (by simp),
      List.length_cons, Nat.succ_mul]
    omega

theorem idx_lt (n N i j : Nat) (hi : i < n) (hj : j < N) : i * N + j < n * N := by
  have : (i + 1) * N ≤ n * N := Nat.mul_le_mul_right N hi
  rw [Nat.succ_mul] at this
  omega

/-- the equation of point `x` in a batch denotes `∏(X − x_k) /ₘ (X − x)` -/
theorem toPoly_eqOf_batch (L : Lawful O v) (xs : List α) (x : α) :
    toPoly v (eqOf O x ((fromRootsSpec O xs).drop 1)) = rootsPoly (xs.map v) /ₘ (X - C (v x)) := by
  have hl := length_fromRootsSpec (O := O) xs
  cases hR : fromRootsSpec O xs with
  | nil => rw [hR] at hl; simp at hl
  | cons r0 hs =>
    rw [List.drop_one, List.tail_cons, toPoly_eqOf_eq_divByMonic L x r0 hs, ← hR, toPoly_fromRootsSpec L]

/-- the polynomial computed for batch `i`: the Lagrange formula of that batch -/
theorem batch_poly_formula (L : Lawful O v) (N : Nat) (xss : List (List α))
    (hx : ∀ b ∈ xss, b.length = N) (dinv : List α)
    (hdl : dinv.length = ((xss.map (densOf O)).flatten).length)
    (hdv : dinv.map v = ((xss.map (densOf O)).flatten).map fun x => inv0 (v x))
    (i : Nat) (hi : i < xss.length) (ys : List α) (hys : ys.length = N) :
    ∃ poly, batchCombine O N ((xss.map (eqsOf O)).flatten) dinv i ys = .ok poly ∧ poly.length = N ∧
      toPoly v poly = ∑ j ∈ Finset.range (xss[i].map v).length,
        C (v (ys.getD j O.zero) *
            inv0 ((rootsPoly (xss[i].map v) /ₘ (X - C ((xss[i].map v).getD j 0))).eval
              ((xss[i].map v).getD j 0))) *
          (rootsPoly (xss[i].map v) /ₘ (X - C ((xss[i].map v).getD j 0))) := by
  have hxi : xss[i].length = N := hx _ (List.getElem_mem hi)
  have hE : ∀ l ∈ xss.map (eqsOf O), l.length = N := by
    intro l hl
    obtain ⟨b, hb, rfl⟩ := List.mem_map.1 hl
    simp [eqsOf, hx b hb]
  have hD : ∀ l ∈ xss.map (densOf O), l.length = N := by
    intro l hl
    obtain ⟨b, hb, rfl⟩ := List.mem_map.1 hl
    simp [densOf, hx b hb]
  have hDl : ((xss.map (densOf O)).flatten).length = xss.length * N := by
    rw [length_flatten_uniform _ N hD, List.length_map]
  have hEl : ((xss.map (eqsOf O)).flatten).length = xss.length * N := by
    rw [length_flatten_uniform _ N hE, List.length_map]
  -- the entries at `i * N + j`
  have hEij : ∀ j, j < N → ((xss.map (eqsOf O)).flatten)[i * N + j]? =
      some (eqOf O (xss[i].getD j O.zero) ((fromRootsSpec O xss[i]).drop 1)) := by
    intro j hj
    rw [getElem?_flatten_uniform _ N hE i j (by simpa using hi) hj]
    simp [eqsOf, List.getD_eq_getElem?_getD, hxi, hj]
  have hDij : ∀ j, j < N → ((xss.map (densOf O)).flatten)[i * N + j]? =
      some (eval O (eqOf O (xss[i].getD j O.zero) ((fromRootsSpec O xss[i]).drop 1))
        (xss[i].getD j O.zero)) := by
    intro j hj
    rw [getElem?_flatten_uniform _ N hD i j (by simpa using hi) hj]
    simp [densOf, List.getD_eq_getElem?_getD, hxi, hj]
  obtain ⟨poly, e, l, p⟩ := batchCombine_spec L N ((xss.map (eqsOf O)).flatten) dinv ys i hys
    (fun j hj => by rw [hdl, hDl]; exact idx_lt _ _ _ _ hi hj)
    (fun j hj => by
      have hlt : i * N + j < ((xss.map (eqsOf O)).flatten).length := by
        rw [hEl]; exact idx_lt _ _ _ _ hi hj
      refine ⟨hlt, ?_⟩
      have := hEij j hj
      rw [List.getElem?_eq_getElem hlt, Option.some.injEq] at this
      rw [this, length_eqOf, List.length_drop, length_fromRootsSpec, hxi]
      omega)
    N (le_refl _)
  refine ⟨poly, by simpa [batchCombine] using e, l, ?_⟩
  rw [p, List.length_map, hxi]
  apply Finset.sum_congr rfl
  intro j hj
  have hj' : j < N := Finset.mem_range.1 hj
  have hjx : j < xss[i].length := by omega
  have e0 : (xss[i].map v).getD j 0 = v (xss[i].getD j O.zero) := by
    simp [List.getD_eq_getElem?_getD, hjx]
  have e1 : ((xss.map (eqsOf O)).flatten).getD (i * N + j) [] =
      eqOf O (xss[i].getD j O.zero) ((fromRootsSpec O xss[i]).drop 1) := by
    rw [List.getD_eq_getElem?_getD, hEij j hj']; rfl
  have hlt : i * N + j < dinv.length := by rw [hdl, hDl]; exact idx_lt _ _ _ _ hi hj'
  have e2 : v (dinv.getD (i * N + j) O.zero) =
      inv0 (v (eval O (eqOf O (xss[i].getD j O.zero) ((fromRootsSpec O xss[i]).drop 1))
        (xss[i].getD j O.zero))) := by
    have h1 : dinv.getD (i * N + j) O.zero = dinv[i * N + j] := by
      simp [List.getD_eq_getElem?_getD, hlt]
    have h2 := congrArg (fun l => l[i * N + j]?) hdv
    simp only [List.getElem?_map, List.getElem?_eq_getElem hlt, hDij j hj', Option.map_some,
      Option.some.injEq] at h2
    rw [h1, h2]
  rw [e1, e2, e0, v_eval L, toPoly_eqOf_batch L]


-- ------------------------------------------------------------------ interpolate_batch

/-- `interpolate_batch::<E, N>` on equally many X and Y batches of `N` points each, with returning
    inversions: no panic, one polynomial of `N` coefficients per batch; for every batch whose X
    coordinates are pairwise distinct the polynomial takes the prescribed values (a batch with
    duplicates does not disturb the others) -/
theorem interpolateBatch_spec (L : Lawful O v) (hT : Total O) (N : Nat) (xss yss : List (List α))
    (hlen : xss.length = yss.length)
    (hx : ∀ b ∈ xss, b.length = N) (hy : ∀ b ∈ yss, b.length = N) :
    ∃ polys, interpolateBatch O N xss yss = .ok polys ∧ polys.length = xss.length ∧
      (∀ p ∈ polys, p.length = N) ∧
      ∀ i (hi : i < xss.length) (hp : i < polys.length), (xss[i].map v).Nodup →
        ∀ j (hjx : j < xss[i].length) (hjy : j < (yss[i]'(hlen ▸ hi)).length),
          (toPoly v polys[i]).eval (v xss[i][j]) = v (yss[i]'(hlen ▸ hi))[j] := by
  by_cases hN : N = 0
  · subst hN
    refine ⟨List.replicate xss.length [], by simp [interpolateBatch, hlen], by simp, ?_, ?_⟩
    · intro p hp
      rw [List.eq_of_mem_replicate hp]; rfl
    · intro i hi _ _ j hjx
      have := hx _ (List.getElem_mem hi)
      omega
  · obtain ⟨rt, eloop⟩ := batchLoop_eq (O := O) N hN xss hx
      { roots := List.replicate (N + 1) O.zero, equations := [], inverses := [] } (by simp)
    simp only [List.nil_append] at eloop
    obtain ⟨dinv, hdinv⟩ := serialBatchInversion_total hT ((xss.map (densOf O)).flatten)
    obtain ⟨hdl, hdv⟩ := serialBatchInversion_spec L _ _ hdinv
    -- every batch is combined without panic
    have hcomb : ∀ iy ∈ yss.zipIdx, ∃ poly,
        batchCombine O N ((xss.map (eqsOf O)).flatten) dinv iy.2 iy.1 = .ok poly := by
      intro iy hiy
      obtain ⟨k, hk, hk'⟩ := List.getElem_of_mem hiy
      have hk2 : k < yss.length := by simpa using hk
      have hiy' : iy = (yss[k], k) := by rw [← hk']; simp
      subst hiy'
      obtain ⟨poly, e, _⟩ := batch_poly_formula L N xss hx dinv hdl hdv k (by omega) yss[k]
        (hy _ (List.getElem_mem hk2))
      exact ⟨poly, e⟩
    obtain ⟨polys, hpolys⟩ := mapM'_total hcomb
    have hF := mapM'_ok hpolys
    have hlenp : polys.length = xss.length := by
      have := hF.length_eq
      simp at this; omega
    have hinterp : interpolateBatch O N xss yss = .ok polys := by
      unfold interpolateBatch
      simp only [hlen, ne_eq, not_true_eq_false, if_false, hN]
      rw [eloop, bind_ok, batchInversion, hdinv, bind_ok]
      exact hpolys
    -- per batch
    have hget : ∀ i (hi : i < xss.length) (hp : i < polys.length),
        batchCombine O N ((xss.map (eqsOf O)).flatten) dinv i (yss[i]'(hlen ▸ hi)) = .ok polys[i] := by
      intro i hi hp
      have hi2 : i < yss.zipIdx.length := by simp; omega
      have := (List.forall₂_iff_get.1 hF).2 i hi2 hp
      simpa using this
    refine ⟨polys, hinterp, hlenp, ?_, ?_⟩
    · intro p hp
      obtain ⟨k, hk, rfl⟩ := List.getElem_of_mem hp
      have hk' : k < xss.length := by omega
      obtain ⟨poly, e, l, _⟩ := batch_poly_formula L N xss hx dinv hdl hdv k hk' (yss[k]'(hlen ▸ hk'))
        (hy _ (List.getElem_mem _))
      rw [hget k hk' hk] at e
      cases e; exact l
    · intro i hi hp hnd j hjx hjy
      obtain ⟨poly, e, _, pf⟩ := batch_poly_formula L N xss hx dinv hdl hdv i hi (yss[i]'(hlen ▸ hi))
        (hy _ (List.getElem_mem _))
      rw [hget i hi hp] at e
      cases e
      rw [pf]
      have hj' : j < (xss[i].map v).length := by simpa using hjx
      have := lagrange_eval (xss[i].map v) hnd (fun k => v ((yss[i]'(hlen ▸ hi)).getD k O.zero)) j hj'
      simp only [List.getElem_map] at this
      rw [this]
      simp [List.getD_eq_getElem?_getD, hjy]

end

end WinterProofs.C20
