-- C10 helper lemmas: single paths (prove / verify)
import WinterProofs.Lemmas.C10Heap

namespace WinterProofs.C10
open Model.Merkle

variable {D : Type}

theorem two_pow_succ' (e : Nat) : (2:Nat) ^ (e + 1) = 2 * 2 ^ e := by rw [Nat.pow_succ]; omega

theorem hval_lt {t : Tree D} {j : Nat} (h : j < t.nodes.length) : hval t j = t.nodes[j]? := by
  simp [hval, h]

theorem hval_ge {t : Tree D} {j : Nat} (h : t.nodes.length ≤ j) : hval t j = t.leaves[j - t.nodes.length]? := by
  simp [hval, Nat.not_lt.mpr h]

theorem proveLoop_one (nodes : List D) (fuel : Nat) : proveLoop nodes fuel 1 = .ok [] := by
  cases fuel <;> simp [proveLoop]

/-- the honest loop: from an internal node `j` the collected siblings fold `nodes[j]` into the root -/
theorem proveLoop_climb (H : Hasher D) (t : Tree D) (d : Nat) (wf : TreeWF H t d) :
    ∀ (fuel j : Nat), 1 ≤ j → j ≤ fuel → j < 2 ^ d →
      ∃ rest vj, t.nodes[j]? = some vj ∧ proveLoop t.nodes fuel j = .ok rest ∧
        (∀ r, t.nodes[1]? = some r → climb H j vj rest = r) ∧
        (∀ e, 2 ^ e ≤ j → j < 2 ^ (e + 1) → rest.length = e) := by
  obtain ⟨e0, rfl⟩ : ∃ e0, d = e0 + 1 := ⟨d - 1, by have := wf.hd; omega⟩
  have hp := two_pow_succ' e0
  intro fuel
  induction fuel with
  | zero => intro j h1 h2; omega
  | succ fuel ih =>
    intro j h1 h2 h3
    have hjlen : j < t.nodes.length := by rw [wf.nlen]; exact h3
    by_cases hj : j = 1
    · subst hj
      refine ⟨[], t.nodes[1], List.getElem?_eq_getElem hjlen, proveLoop_one _ _, ?_, ?_⟩
      · intro r hr; rw [List.getElem?_eq_getElem hjlen] at hr; simp [climb]; exact Option.some.inj hr
      · intro e he1 he2
        cases e with
        | zero => rfl
        | succ e => have := two_pow_succ' e; have := Nat.two_pow_pos e; omega
    · have hgt : j > 1 := by omega
      have hx : xor1 j < t.nodes.length := by
        rw [wf.nlen]; unfold xor1; split <;> omega
      obtain ⟨rest, vh, hvh, hloop, hclimb, hlen⟩ := ih (j / 2) (by omega) (by omega) (by omega)
      obtain ⟨a, b, ha, hb, hm⟩ := wf.wf (j / 2) (by omega) (by omega)
      rw [hval_lt (by rw [wf.nlen]; omega)] at ha hb
      refine ⟨t.nodes[xor1 j] :: rest, t.nodes[j], List.getElem?_eq_getElem hjlen, ?_, ?_, ?_⟩
      · simp [proveLoop, hgt, List.getElem?_eq_getElem hx, hloop]
      · intro r hr
        simp only [climb]
        have hpar : (if j % 2 = 0 then H.merge t.nodes[j] t.nodes[xor1 j] else H.merge t.nodes[xor1 j] t.nodes[j]) = vh := by
          rw [hm] at hvh
          have hvh' := Option.some.inj hvh
          rw [← hvh']
          by_cases hev : j % 2 = 0
          · rw [if_pos hev]
            have e1 : 2 * (j / 2) = j := by omega
            have e2 : 2 * (j / 2) + 1 = xor1 j := by rw [xor1_even hev]; omega
            rw [e1, List.getElem?_eq_getElem hjlen] at ha
            rw [e2, List.getElem?_eq_getElem hx] at hb
            rw [Option.some.inj ha, Option.some.inj hb]
          · rw [if_neg hev]
            have e1 : 2 * (j / 2) = xor1 j := by rw [xor1_odd (by omega)]; omega
            have e2 : 2 * (j / 2) + 1 = j := by omega
            rw [e1, List.getElem?_eq_getElem hx] at ha
            rw [e2, List.getElem?_eq_getElem hjlen] at hb
            rw [Option.some.inj ha, Option.some.inj hb]
        rw [hpar]; exact hclimb r hr
      · intro e he1 he2
        cases e with
        | zero => simp at he2; omega
        | succ e =>
          have := two_pow_succ' e; have := two_pow_succ' (e + 1)
          simp only [List.length_cons]
          rw [hlen e (by omega) (by omega)]

/-- the converse under collision freedom: a sibling list that folds `v` at `j` into the root is the
    honest one and `v` is the node at `j` -/
theorem climb_binding (H : Hasher D) (inj : MergeInj H) (t : Tree D) (d : Nat) (wf : TreeWF H t d)
    (root : D) (hroot : t.nodes[1]? = some root) :
    ∀ (rest : List D) (j : Nat) (v : D) (fuel : Nat), 2 ^ rest.length ≤ j → j < 2 ^ (rest.length + 1) →
      rest.length < d → j ≤ fuel → climb H j v rest = root →
      t.nodes[j]? = some v ∧ proveLoop t.nodes fuel j = .ok rest := by
  obtain ⟨e0, rfl⟩ : ∃ e0, d = e0 + 1 := ⟨d - 1, by have := wf.hd; omega⟩
  intro rest
  induction rest with
  | nil =>
    intro j v fuel h1 h2 _ _ hc
    simp at h1 h2
    have : j = 1 := by omega
    subst this
    simp [climb] at hc; subst hc
    exact ⟨hroot, proveLoop_one _ _⟩
  | cons p ps ih =>
    intro j v fuel h1 h2 h3 h4 hc
    simp only [List.length_cons] at h1 h2 h3
    have := two_pow_succ' ps.length; have := two_pow_succ' (ps.length + 1)
    have hpd : 2 ^ (ps.length + 1 + 1) ≤ 2 ^ (e0 + 1) := Nat.pow_le_pow_right (by omega) (by omega)
    have hpos := Nat.two_pow_pos ps.length
    simp only [climb] at hc
    cases fuel with
    | zero => omega
    | succ fuel =>
    obtain ⟨hn, hl⟩ := ih (j / 2) _ fuel (by omega) (by omega) (by omega) (by omega) hc
    obtain ⟨a, b, ha, hb, hm⟩ := wf.wf (j / 2) (by omega) (by omega)
    rw [hval_lt (by rw [wf.nlen]; omega)] at ha hb
    have hjlen : j < t.nodes.length := by rw [wf.nlen]; omega
    have hx : xor1 j < t.nodes.length := by rw [wf.nlen]; unfold xor1; split <;> omega
    rw [hm] at hn
    have hn' := Option.some.inj hn
    have hgt : j > 1 := by omega
    by_cases hev : j % 2 = 0
    · rw [if_pos hev] at hn'
      obtain ⟨e1, e2⟩ := inj _ _ _ _ hn'
      have q1 : 2 * (j / 2) = j := by omega
      have q2 : 2 * (j / 2) + 1 = xor1 j := by rw [xor1_even hev]; omega
      rw [q1] at ha; rw [q2] at hb
      subst e1; subst e2
      refine ⟨ha, ?_⟩
      simp [proveLoop, hgt, hb, hl]
    · rw [if_neg hev] at hn'
      obtain ⟨e1, e2⟩ := inj _ _ _ _ hn'
      have q1 : 2 * (j / 2) = xor1 j := by rw [xor1_odd (by omega)]; omega
      have q2 : 2 * (j / 2) + 1 = j := by omega
      rw [q1] at ha; rw [q2] at hb
      subst e1; subst e2
      refine ⟨hb, ?_⟩
      simp [proveLoop, hgt, ha, hl]

theorem pow2_ok {e : Nat} (h : e < 64) : pow2 e = .ok (2 ^ e) := by
  simp [pow2, usizeBits, h]

theorem two_pow_le_63 {e : Nat} (h : e ≤ 63) : (2:Nat) ^ e ≤ 9223372036854775808 := by
  have : (2:Nat) ^ e ≤ 2 ^ 63 := Nat.pow_le_pow_right (by omega) h
  have h63 : (2:Nat) ^ 63 = 9223372036854775808 := by decide
  omega

theorem addUsize_ok {a b : Nat} (h : a + b < 18446744073709551616) : addUsize a b = .ok (a + b) := by
  simp [addUsize, usizeLim, h]

/-- `verify` on a path of admissible length and an in-range position -/
theorem verify_cons (H : Hasher D) [DecidableEq D] (root : D) (i : Nat) (a b : D) (rest : List D)
    (hlen : rest.length + 2 ≤ 64) (hi : i < 2 ^ (rest.length + 1)) :
    verify H root i (a :: b :: rest) =
      if climb H ((i + 2 ^ (rest.length + 1)) / 2) (if i % 2 = 0 then H.merge a b else H.merge b a) rest = root
      then .ok () else .err .invalid := by
  have hle := two_pow_le_63 (e := rest.length + 1) (by omega)
  unfold verify
  simp only [List.length_cons]
  rw [if_neg (by simp [usizeBits]; omega)]
  rw [show rest.length + 1 + 1 - 1 = rest.length + 1 by omega, pow2_ok (by omega)]
  simp only [Res.ok_bind]
  rw [if_neg (by omega)]
  by_cases hev : i % 2 = 0
  · simp only [hev, List.getElem?_cons_zero, List.getElem?_cons_succ, List.drop, if_true]
    rw [addUsize_ok (by omega)]; rfl
  · have hod : i % 2 = 1 := by omega
    simp only [hod, List.getElem?_cons_zero, List.getElem?_cons_succ, List.drop]
    rw [addUsize_ok (by omega)]
    simp only [Res.ok_bind, show (1:Nat) - 1 = 0 by rfl, List.getElem?_cons_zero]
    rw [if_neg (show ¬ (1:Nat) = 0 by decide)]
    rfl

/-- `verify` never panics: it accepts or returns an error, whatever the position and the path -/
theorem verify_total (H : Hasher D) [DecidableEq D] (root : D) (i : Nat) (path : List D) :
    verify H root i path = .ok () ∨ ∃ e, verify H root i path = .err e := by
  by_cases hlen : path.length < 2 ∨ path.length > usizeBits
  · right; exact ⟨.invalid, by unfold verify; rw [if_pos hlen]⟩
  · simp only [usizeBits] at hlen
    match path, hlen with
    | [], h => simp at h
    | [_], h => simp at h
    | a :: b :: rest, h =>
      simp only [List.length_cons] at h
      by_cases hi : i < 2 ^ (rest.length + 1)
      · rw [verify_cons H root i a b rest (by omega) hi]
        by_cases hc : climb H ((i + 2 ^ (rest.length + 1)) / 2) (if i % 2 = 0 then H.merge a b else H.merge b a) rest = root
        · left; rw [if_pos hc]
        · right; exact ⟨.invalid, by rw [if_neg hc]⟩
      · right
        refine ⟨.oob, ?_⟩
        unfold verify
        simp only [List.length_cons, usizeBits]
        rw [if_neg (by omega), show rest.length + 1 + 1 - 1 = rest.length + 1 by omega, pow2_ok (by omega)]
        simp only [Res.ok_bind]
        rw [if_pos (by omega)]


theorem root_of_wf (H : Hasher D) (t : Tree D) (d : Nat) (wf : TreeWF H t d) :
    ∃ root, t.nodes[1]? = some root ∧ t.root = .ok root := by
  have h1 : 1 < t.nodes.length := by
    rw [wf.nlen]
    obtain ⟨e0, rfl⟩ : ∃ e0, d = e0 + 1 := ⟨d - 1, by have := wf.hd; omega⟩
    have := two_pow_succ' e0; have := Nat.two_pow_pos e0; omega
  exact ⟨t.nodes[1], List.getElem?_eq_getElem h1, by simp [Tree.root, List.getElem?_eq_getElem h1]⟩

theorem prove_eq (t : Tree D) (i : Nat) (a b : D) (rest : List D) (hi : i < t.leaves.length)
    (ha : t.leaves[i]? = some a) (hb : t.leaves[xor1 i]? = some b)
    (hloop : proveLoop t.nodes t.nodes.length ((i + t.nodes.length) / 2) = .ok rest) :
    prove t i = .ok (a :: b :: rest) := by
  simp only [prove]
  rw [if_neg (by omega)]
  show (match t.leaves[i]?, t.leaves[xor1 i]? with
    | some a, some b => (proveLoop t.nodes t.nodes.length ((i + t.nodes.length) / 2) >>= fun rest => Res.ok (a :: b :: rest))
    | _, _ => Res.panic "prove: leaves[index ^ 1]") = _
  rw [ha, hb, hloop]; rfl

/-- completeness of single openings for a well-formed tree -/
theorem single_complete_wf (H : Hasher D) [DecidableEq D] (t : Tree D) (d : Nat) (wf : TreeWF H t d)
    (hd2 : d ≤ 63) (i : Nat) (hi : i < 2 ^ d) (root : D) (hroot : t.nodes[1]? = some root) :
    ∃ path, prove t i = .ok path ∧ path.length = d + 1 ∧ path[0]? = t.leaves[i]? ∧
      verify H root i path = .ok () := by
  obtain ⟨e0, rfl⟩ : ∃ e0, d = e0 + 1 := ⟨d - 1, by have := wf.hd; omega⟩
  have hp := two_pow_succ' e0
  have hpos := Nat.two_pow_pos e0
  have hnl := wf.nlen
  have hl := wf.llen
  have hx : xor1 i < t.leaves.length := by rw [hl]; unfold xor1; split <;> omega
  have hil : i < t.leaves.length := by rw [hl]; exact hi
  obtain ⟨rest, vj, hvj, hloop, hclimb, hlen⟩ :=
    proveLoop_climb H t (e0 + 1) wf t.nodes.length ((i + t.nodes.length) / 2)
      (by rw [hnl]; omega) (by omega) (by rw [hnl]; omega)
  have hrl : rest.length = e0 := hlen e0 (by rw [hnl]; omega) (by rw [hnl]; omega)
  obtain ⟨a, b, ha, hb, hm⟩ := wf.wf ((i + t.nodes.length) / 2) (by rw [hnl]; omega) (by rw [hnl]; omega)
  rw [hval_ge (by rw [hnl]; omega)] at ha hb
  refine ⟨t.leaves[i] :: t.leaves[xor1 i] :: rest,
    prove_eq t i _ _ rest hil (List.getElem?_eq_getElem hil) (List.getElem?_eq_getElem hx) hloop, ?_, ?_, ?_⟩
  · simp [hrl]
  · simp [List.getElem?_eq_getElem hil]
  · rw [verify_cons H _ i _ _ rest (by omega) (by rw [hrl]; exact hi), hrl, ← hnl]
    have hroot' := hclimb root hroot
    rw [hm] at hvj
    have hvj' := Option.some.inj hvj
    have hpar : (if i % 2 = 0 then H.merge t.leaves[i] t.leaves[xor1 i] else H.merge t.leaves[xor1 i] t.leaves[i]) = vj := by
      rw [← hvj']
      by_cases hev : i % 2 = 0
      · have q1 : 2 * ((i + t.nodes.length) / 2) - t.nodes.length = i := by rw [hnl]; omega
        have q2 : 2 * ((i + t.nodes.length) / 2) + 1 - t.nodes.length = xor1 i := by
          rw [xor1_even hev, hnl]; omega
        rw [q1, List.getElem?_eq_getElem hil] at ha
        rw [q2, List.getElem?_eq_getElem hx] at hb
        rw [if_pos hev, Option.some.inj ha, Option.some.inj hb]
      · have hod : i % 2 = 1 := by omega
        have q1 : 2 * ((i + t.nodes.length) / 2) - t.nodes.length = xor1 i := by
          rw [xor1_odd hod, hnl]; omega
        have q2 : 2 * ((i + t.nodes.length) / 2) + 1 - t.nodes.length = i := by rw [hnl]; omega
        rw [q1, List.getElem?_eq_getElem hx] at ha
        rw [q2, List.getElem?_eq_getElem hil] at hb
        rw [if_neg hev, Option.some.inj ha, Option.some.inj hb]
    rw [hpar, hroot', if_pos rfl]

/-- binding of single openings for a well-formed tree -/
theorem single_binding_wf (H : Hasher D) [DecidableEq D] (inj : MergeInj H) (t : Tree D) (d : Nat)
    (wf : TreeWF H t d) (hd2 : d ≤ 63) (root : D) (hr1 : t.nodes[1]? = some root) (i : Nat) (hi : i < 2 ^ d)
    (path : List D) (hlen : path.length = d + 1) (hv : verify H root i path = .ok ()) :
    prove t i = .ok path ∧ path[0]? = t.leaves[i]? := by
  obtain ⟨e0, rfl⟩ : ∃ e0, d = e0 + 1 := ⟨d - 1, by have := wf.hd; omega⟩
  have hp := two_pow_succ' e0
  have hpos := Nat.two_pow_pos e0
  have hnl := wf.nlen
  have hl := wf.llen
  have hx : xor1 i < t.leaves.length := by rw [hl]; unfold xor1; split <;> omega
  have hil : i < t.leaves.length := by rw [hl]; exact hi
  match path, hlen with
  | a :: b :: rest, hlen =>
    simp only [List.length_cons] at hlen
    have hrl : rest.length = e0 := by omega
    rw [verify_cons H root i a b rest (by omega) (by rw [hrl]; exact hi), hrl] at hv
    have hc : climb H ((i + 2 ^ (e0 + 1)) / 2) (if i % 2 = 0 then H.merge a b else H.merge b a) rest = root := by
      by_cases hc : climb H ((i + 2 ^ (e0 + 1)) / 2) (if i % 2 = 0 then H.merge a b else H.merge b a) rest = root
      · exact hc
      · rw [if_neg hc] at hv; cases hv
    obtain ⟨hn, hloop⟩ := climb_binding H inj t (e0 + 1) wf root hr1 rest ((i + 2 ^ (e0 + 1)) / 2) _
      t.nodes.length (by rw [hrl]; omega) (by rw [hrl]; omega) (by omega) (by rw [hnl]; omega) hc
    obtain ⟨a', b', ha, hb, hm⟩ := wf.wf ((i + 2 ^ (e0 + 1)) / 2) (by omega) (by omega)
    rw [hval_ge (by rw [hnl]; omega), hnl] at ha hb
    rw [hm] at hn
    have hn' := Option.some.inj hn
    have hab : a = t.leaves[i] ∧ b = t.leaves[xor1 i] := by
      by_cases hev : i % 2 = 0
      · have q1 : 2 * ((i + 2 ^ (e0 + 1)) / 2) - 2 ^ (e0 + 1) = i := by omega
        have q2 : 2 * ((i + 2 ^ (e0 + 1)) / 2) + 1 - 2 ^ (e0 + 1) = xor1 i := by
          rw [xor1_even hev]; omega
        rw [q1, List.getElem?_eq_getElem hil] at ha
        rw [q2, List.getElem?_eq_getElem hx] at hb
        rw [if_pos hev] at hn'
        obtain ⟨e1, e2⟩ := inj _ _ _ _ hn'
        rw [← e1, ← e2, Option.some.inj ha, Option.some.inj hb]; exact ⟨rfl, rfl⟩
      · have hod : i % 2 = 1 := by omega
        have q1 : 2 * ((i + 2 ^ (e0 + 1)) / 2) - 2 ^ (e0 + 1) = xor1 i := by
          rw [xor1_odd hod]; omega
        have q2 : 2 * ((i + 2 ^ (e0 + 1)) / 2) + 1 - 2 ^ (e0 + 1) = i := by omega
        rw [q1, List.getElem?_eq_getElem hx] at ha
        rw [q2, List.getElem?_eq_getElem hil] at hb
        rw [if_neg hev] at hn'
        obtain ⟨e1, e2⟩ := inj _ _ _ _ hn'
        rw [← e1, ← e2, Option.some.inj ha, Option.some.inj hb]; exact ⟨rfl, rfl⟩
    obtain ⟨rfl, rfl⟩ := hab
    refine ⟨?_, by simp [List.getElem?_eq_getElem hil]⟩
    rw [← hnl] at hloop
    exact prove_eq t i _ _ rest hil (List.getElem?_eq_getElem hil) (List.getElem?_eq_getElem hx) hloop

end WinterProofs.C10
