-- C07 helper lemmas, 128-bit field: the raw-word operations implement arithmetic in `ZMod M`
-- (raw words are canonical integers: `val r = r`), and the exponentiation loop of the model.
import WinterProofs.Lemmas.C07F128Mul
import WinterProofs.Lemmas.Primes
import Winter.Model.Field
import Mathlib.Data.ZMod.Basic
import Mathlib.Tactic.LinearCombination

namespace WinterProofs.F128Z
open Gen.F128 WinterProofs.F128L

/-- the modulus as a literal (definitionally `Gen.F128.M`, which is regenerated from the source) -/
abbrev P : Nat := 340282366920938463463374557953744961537

theorem M_eq : M = P := rfl

instance : Fact (Nat.Prime P) := ⟨WinterProofs.Primes.prime_M128⟩

/-- representation invariant of raw words: canonical -/
def Inv (r : Nat) : Prop := r < M

/-- the residue denoted by a raw word -/
def val (r : Nat) : ZMod P := (r : ZMod P)

theorem cast_P : ((340282366920938463463374557953744961537 : Nat) : ZMod P) = 0 := ZMod.natCast_self P

theorem val_injective {a b : Nat} (ha : Inv a) (hb : Inv b) (h : val a = val b) : a = b := by
  unfold val at h
  have h3 := (ZMod.natCast_eq_natCast_iff' a b P).1 h
  unfold Inv at ha hb
  rw [M_eq] at ha hb
  rwa [Nat.mod_eq_of_lt ha, Nat.mod_eq_of_lt hb] at h3

theorem val_zero : val 0 = 0 := by simp [val]

theorem val_one : val 1 = 1 := by simp [val]

theorem zero_inv : Inv 0 := by unfold Inv; decide

theorem one_inv : Inv 1 := by unfold Inv; decide

/-- the canonical representative -/
theorem val_val (a : Nat) (ha : Inv a) : (val a).val = a := by
  unfold val
  rw [ZMod.val_natCast]
  exact Nat.mod_eq_of_lt ha

/-! ### the operations -/

theorem new_inv (v : Nat) (hv : v < 2 ^ 128) : Inv (new v) := (new_spec v hv).1

theorem val_new (v : Nat) (hv : v < 2 ^ 128) : val (new v) = (v : ZMod P) := by
  rcases (new_spec v hv).2.1 with h | h
  · unfold val; rw [h]
  · have h' := congrArg (Nat.cast : Nat → ZMod P) h
    simp only [Nat.cast_add, cast_P, add_zero] at h'
    exact h'

theorem new_of_lt (v : Nat) (hv : v < M) : new v = v := by
  unfold new
  exact if_pos hv

theorem add_inv (a b : Nat) (ha : Inv a) (hb : Inv b) : Inv (add a b) := (add_spec a b ha hb).1

theorem val_add (a b : Nat) (ha : Inv a) (hb : Inv b) : val (add a b) = val a + val b := by
  unfold val
  rcases (add_spec a b ha hb).2 with h | h
  · rw [h, Nat.cast_add]
  · have h' := congrArg (Nat.cast : Nat → ZMod P) h
    simp only [Nat.cast_add, cast_P, add_zero] at h'
    exact h'

theorem sub_inv (a b : Nat) (ha : Inv a) (hb : Inv b) : Inv (sub a b) := (sub_spec a b ha hb).1

theorem val_sub (a b : Nat) (ha : Inv a) (hb : Inv b) : val (sub a b) = val a - val b := by
  unfold val
  rcases (sub_spec a b ha hb).2 with h | h
  · have h' := congrArg (Nat.cast : Nat → ZMod P) h
    simp only [Nat.cast_add] at h'
    linear_combination h'
  · have h' := congrArg (Nat.cast : Nat → ZMod P) h
    simp only [Nat.cast_add, cast_P, add_zero] at h'
    linear_combination h'

theorem neg_inv (a : Nat) (ha : Inv a) : Inv (neg a) := (neg_spec a ha).1

theorem val_neg (a : Nat) (ha : Inv a) : val (neg a) = - val a := by
  have : neg a = sub 0 a := rfl
  rw [this, val_sub 0 a zero_inv ha, val_zero, zero_sub]

theorem mul_inv (a b : Nat) (ha : Inv a) (hb : Inv b) : Inv (mul a b) := (mul_spec a b ha hb).1

theorem val_mul (a b : Nat) (ha : Inv a) (hb : Inv b) : val (mul a b) = val a * val b := by
  obtain ⟨q, h⟩ := (mul_spec a b ha hb).2.1
  have h' := congrArg (Nat.cast : Nat → ZMod P) h
  simp only [Nat.cast_add, Nat.cast_mul, cast_P, mul_zero, add_zero] at h'
  exact h'

/-! ### exponentiation (`exp_vartime` of the field trait) -/

/-- `a` is a valid raw word denoting `x^e` -/
def Pw (x a e : Nat) : Prop := Inv a ∧ val a = val x ^ e

theorem expLoop_spec (x : Nat) : ∀ (fuel r b p er eb : Nat), Pw x r er → Pw x b eb → p < 2 ^ fuel →
    Pw x (Model.F128.expLoop fuel r b p) (er + eb * p) := by
  intro fuel
  induction fuel with
  | zero =>
    intro r b p er eb hr _ hp
    have : p = 0 := by omega
    subst this
    unfold Model.F128.expLoop
    simpa using hr
  | succ fuel ih =>
    intro r b p er eb hr hb hp
    unfold Model.F128.expLoop
    by_cases h0 : p = 0
    · subst h0
      simpa using hr
    · rw [if_neg h0]
      have hp2 : p / 2 < 2 ^ fuel := by rw [Nat.pow_succ] at hp; omega
      have hbb : Pw x (mul b b) (eb + eb) :=
        ⟨mul_inv b b hb.1 hb.1, by rw [val_mul b b hb.1 hb.1, hb.2, pow_add]⟩
      by_cases hodd : p % 2 = 1
      · simp only [hodd, if_true]
        have hrb : Pw x (mul r b) (er + eb) :=
          ⟨mul_inv r b hr.1 hb.1, by rw [val_mul r b hr.1 hb.1, hr.2, hb.2, pow_add]⟩
        have := ih (mul r b) (mul b b) (p / 2) _ _ hrb hbb hp2
        have e : er + eb + (eb + eb) * (p / 2) = er + eb * p := by
          have : p = 2 * (p / 2) + 1 := by omega
          conv_rhs => rw [this]
          ring
        rwa [e] at this
      · have hne : ¬ (p % 2 = 1) := hodd
        simp only [hne, if_false]
        have := ih r (mul b b) (p / 2) _ _ hr hbb hp2
        have e : er + (eb + eb) * (p / 2) = er + eb * p := by
          have : p = 2 * (p / 2) := by omega
          conv_rhs => rw [this]
          ring
        rwa [e] at this

/-- `exp` computes the power in `ZMod P` for every 128-bit exponent (early exits included) -/
theorem exp_spec (x power : Nat) (hx : Inv x) (hp : power < 2 ^ 128) :
    Pw x (Model.F128.exp x power) power := by
  unfold Model.F128.exp
  by_cases h0 : power = 0
  · subst h0
    simp only [if_true]
    exact ⟨one_inv, by rw [val_one, pow_zero]⟩
  · rw [if_neg h0]
    by_cases hx0 : x = 0
    · subst hx0
      simp only [if_true]
      exact ⟨zero_inv, by rw [val_zero, zero_pow h0]⟩
    · rw [if_neg hx0]
      have h1 : Pw x 1 0 := ⟨one_inv, by rw [val_one, pow_zero]⟩
      have hxx : Pw x x 1 := ⟨hx, (pow_one _).symm⟩
      have := expLoop_spec x 129 1 x power 0 1 h1 hxx
        (lt_trans hp (Nat.pow_lt_pow_right (by norm_num) (by norm_num)))
      simpa using this

end WinterProofs.F128Z
