-- helper lemmas for C12: what the constructors store is what the types' own parse steps give back
-- (Queries::new / Queries::parse with Table::from_bytes and BatchMerkleProof::serialize_nodes / deserialize)
import WinterProofs.Lemmas.C12Univ

namespace WinterProofs.C12L
open Model Model.Serde Gen.Limits

theorem length_encMany {c : Codec α} {L : Nat} (xs : List α) (h : ∀ x ∈ xs, (c.enc x).length = L) :
    (encMany c xs).length = xs.length * L := by
  induction xs with
  | nil => simp [encMany]
  | cons x xs ih =>
    simp only [encMany, List.length_append, List.length_cons, h x (List.mem_cons_self ..),
      ih (fun y hy => h y (List.mem_cons_of_mem _ hy))]
    rw [Nat.succ_mul]; omega

/-- one vector of Merkle nodes: a u8 count, then the digests -/
def nodeVec (d : Codec δ) : Codec (List δ) where
  enc v := v.length :: encMany d v
  dec := do
    let k ← readU8
    readMany d.dec k
  wf v := v.length ≤ 255 && v.all d.wf

theorem nodeVec_RT {d : Codec δ} (hd : d.RT) : (nodeVec d).RT := by
  intro v rest hv
  simp only [nodeVec, Bool.and_eq_true, decide_eq_true_eq] at hv
  refine ⟨rfl, ?_⟩
  simp [nodeVec, readU8_cons, readMany_rt hd hv.2 rest]

theorem flatten_nodes (d : Codec δ) (nodes : List (List δ)) :
    (nodes.map (fun v => v.length :: encMany d v)).flatten = encMany (nodeVec d) nodes := by
  induction nodes with
  | nil => rfl
  | cons v t ih => simp [encMany, nodeVec, ih]

theorem deserialize_serialize {d : Codec δ} (hd : d.RT) (nodes : List (List δ)) (paths : Bytes)
    (hs : serializeNodes d nodes = some paths) (hn : ∀ v ∈ nodes, v.all d.wf = true) :
    deserializeNodes d paths = .ok (nodes, []) := by
  unfold serializeNodes at hs
  split at hs
  · cases hs
  · rename_i hc
    simp only [Bool.or_eq_true, decide_eq_true_eq, List.any_eq_true, not_or, Nat.not_lt, not_exists,
      not_and] at hc
    cases hs
    have hall : nodes.all (nodeVec d).wf = true := by
      apply List.all_eq_true.mpr
      intro v hv
      simp only [nodeVec, Bool.and_eq_true, decide_eq_true_eq]
      exact ⟨hc.2 v hv, hn v hv⟩
    have := readMany_rt (nodeVec_RT hd) hall []
    simp only [List.append_nil] at this
    rw [flatten_nodes]
    show (readU8 >>= fun n => readMany (nodeVec d).dec n) _ = _
    simp [readU8_cons, this]

/-- `Queries::new` followed by `Queries::parse` (with the dimensions the constructor was given, at most
    255 x 255, and a non-trivial tree) returns the query values and the Merkle nodes -/
theorem queriesParse_new {e : Codec ε} {d : Codec δ} (he : e.RT) (hd : d.RT) (eb : Nat)
    (hlen : ∀ x, e.wf x = true → (e.enc x).length = eb)
    (nodes : List (List δ)) (values : List (List ε)) (q : Queries)
    (hq : queriesNew e d nodes values = some q)
    (hv : ∀ row ∈ values, row.all e.wf = true) (hn : ∀ v ∈ nodes, v.all d.wf = true)
    (depth : Nat) (hdepth : depth ≠ 0) (hrows : values.length ≤ 255) (hcols : (values.headD []).length ≤ 255) :
    queriesParse e eb d q depth values.length (values.headD []).length = .ok (values, nodes) := by
  cases values with
  | nil => simp [queriesNew] at hq
  | cons row0 rest =>
    simp only [queriesNew] at hq
    split at hq
    · cases hq
    · rename_i hc
      simp only [Bool.or_eq_true, decide_eq_true_eq, List.any_eq_true, bne_iff_ne, ne_eq, not_or,
        not_exists, not_and, Decidable.not_not] at hc
      obtain ⟨hc0, hcall⟩ := hc
      cases hs : serializeNodes d nodes with
      | none => simp [hs] at hq
      | some paths =>
        simp only [hs, Option.some.injEq] at hq
        subst hq
        simp only [List.headD_cons, List.length_cons] at hcols hrows ⊢
        -- every row is a value of the row type
        have hrow : (row0 :: rest).all (array row0.length e).wf = true := by
          apply List.all_eq_true.mpr
          intro r hr
          simp only [array, Bool.and_eq_true, beq_iff_eq]
          exact ⟨hcall r hr, hv r hr⟩
        have hrowlen : ∀ r ∈ row0 :: rest, ((array row0.length e).enc r).length = row0.length * eb := by
          intro r hr
          have h1 := hcall r hr
          have := length_encMany (c := e) (L := eb) r
            (fun x hx => hlen x (List.all_eq_true.mp (hv r hr) x hx))
          simp only [array]; rw [this, h1]
        have hbytes := length_encMany (c := array row0.length e) (row0 :: rest) hrowlen
        have hread := readMany_rt (array_RT row0.length he) hrow []
        simp only [List.append_nil, List.length_cons] at hread hbytes
        have hdes := deserialize_serialize hd nodes paths hs hn
        unfold queriesParse tableFromBytes
        rw [if_neg (by omega), if_neg (by rw [hbytes, Nat.mul_comm eb]; simp),
          if_neg (by simp only [MAX_ROWS, MAX_COLS]; omega)]
        simp only [hread]
        rw [if_neg (by omega)]
        simp [hdes]

-- Commitments::new / Commitments::parse ---------------------------------------------------------

theorem runAll_ok {d : Dec α} {bs : Bytes} {x : α} (h : d bs = .ok (x, [])) : runAll d bs = .ok x := by
  simp [runAll, h]

theorem commitmentsParse_new {d : Codec δ} (hd : d.RT) (t : List δ) (c : δ) (f : List δ) (hf : f ≠ [])
    (ht : t.all d.wf = true) (hc : d.wf c = true) (hfw : f.all d.wf = true) :
    commitmentsParse d (commitmentsNew d t c f) t.length (f.length - 1) = .ok (t, c, f) := by
  have hlen : f.length - 1 + 1 = f.length := by
    cases f with
    | nil => exact absurd rfl hf
    | cons x xs => simp
  have h3 := readMany_rt hd hfw []
  simp only [List.append_nil] at h3
  unfold commitmentsParse
  apply runAll_ok
  simp only [commitmentsNew, hlen, List.append_assoc, bind_apply, readMany_rt hd ht, rt_dec hd hc]
  have : d.dec (d.enc c ++ encMany d f) = .ok (c, encMany d f) := rt_dec hd hc _
  simp [this, h3]

-- OodFrame setters / OodFrame::parse ------------------------------------------------------------

theorem interleave_length (a b : List α) (h : a.length = b.length) : (interleave a b).length = a.length * 2 := by
  induction a generalizing b with
  | nil => cases b <;> simp [interleave]
  | cons x xs ih =>
    cases b with
    | nil => simp at h
    | cons y ys =>
      simp only [List.length_cons, Nat.add_right_cancel_iff] at h
      simp only [interleave, List.length_cons, ih ys h]; omega

theorem interleave_all (p : α → Bool) (a b : List α) (ha : a.all p = true) (hb : b.all p = true) :
    (interleave a b).all p = true := by
  induction a generalizing b with
  | nil => cases b <;> simp [interleave]
  | cons x xs ih =>
    cases b with
    | nil => simp [interleave]
    | cons y ys =>
      simp only [List.all_cons, Bool.and_eq_true] at ha hb
      simp [interleave, ha.1, hb.1, ih ys ha.2 hb.2]

theorem deinterleave_interleave (a b : List α) (h : a.length = b.length) :
    deinterleave (interleave a b) = (a, b) := by
  induction a generalizing b with
  | nil => cases b <;> simp [interleave, deinterleave] at h ⊢
  | cons x xs ih =>
    cases b with
    | nil => simp at h
    | cons y ys =>
      simp only [List.length_cons, Nat.add_right_cancel_iff] at h
      simp [interleave, deinterleave, ih ys h]

/-- `set_trace_states` + `set_constraint_evaluations`, then `OodFrame::parse` with the widths the frame was
    built for, give back the rows, the Lagrange kernel frame (when it is not empty) and the evaluations -/
theorem oodParse_set {e : Codec ε} (he : e.RT) (cur next : List ε) (lag : Option (List ε)) (evals : List ε)
    (main : Nat) (ts l eb : Bytes)
    (h1 : oodSetTraceStates e cur next lag = some (ts, l)) (h2 : oodSetEvaluations e evals = some eb)
    (hmain : 0 < main) (hw : main ≤ cur.length)
    (hcur : cur.all e.wf = true) (hnext : next.all e.wf = true)
    (hlag : (lag.getD []).all e.wf = true) (hev : evals.all e.wf = true) :
    oodParse e ⟨ts, l, eb⟩ main (cur.length - main + (if (lag.getD []).isEmpty then 0 else 1)) evals.length =
      .ok (cur, next, (if (lag.getD []).isEmpty then none else some (lag.getD [])), evals) := by
  -- what the setters stored
  unfold oodSetTraceStates at h1
  split at h1
  · cases h1
  · rename_i hlen
    simp only [bne_iff_ne, ne_eq, Decidable.not_not] at hlen
    simp only [] at h1
    split at h1
    · cases h1
    · rename_i hc
      simp only [not_or, Nat.not_le, Nat.not_lt] at hc
      simp only [Option.some.injEq, Prod.mk.injEq] at h1
      obtain ⟨rfl, rfl⟩ := h1
      unfold oodSetEvaluations at h2
      simp only [] at h2
      split at h2
      · cases h2
      · rename_i hc2
        simp only [not_or, List.isEmpty_iff, Nat.not_lt] at hc2
        cases h2
        have hne : evals.length ≠ 0 := by
          intro h0; exact hc2.1 (List.eq_nil_of_length_eq_zero h0)
        have hLmod : (lag.getD []).length % 256 = (lag.getD []).length := Nat.mod_eq_of_lt (by omega)
        have hLag := readMany_rt he hlag []
        have hTr := readMany_rt he (interleave_all e.wf cur next hcur hnext) []
        have hEv := readMany_rt he hev []
        simp only [List.append_nil] at hLag hTr hEv
        rw [interleave_length cur next hlen] at hTr
        unfold oodParse
        rw [if_neg (by omega)]
        simp only [hLmod]
        by_cases hL : (lag.getD []).isEmpty = true
        · have hL0 : lag.getD [] = [] := by simpa [List.isEmpty_iff] using hL
          have hlr : runAll (do
                let n ← readU8
                if n > 0 then do
                  let l ← readMany e.dec n
                  pure (some l)
                else pure none) ((lag.getD []).length :: encMany e (lag.getD [])) = .ok (none : Option (List ε)) := by
            simp [runAll, hL0, encMany, readU8_cons]
          simp only [hlr, hL, if_true, Option.isSome_none, Bool.false_eq_true, if_false, Nat.add_zero, Nat.sub_zero]
          rw [if_neg (by omega)]
          have : main + (cur.length - main) = cur.length := by omega
          simp [runAll, readU8_cons, this, hTr, hEv, deinterleave_interleave cur next hlen]
        · have hLpos : (lag.getD []).length > 0 := by
            cases hg : lag.getD [] with
            | nil => simp [hg] at hL
            | cons x xs => simp
          have hLf : (lag.getD []).isEmpty = false := by simpa using hL
          have hlr : runAll (do
                let n ← readU8
                if n > 0 then do
                  let l ← readMany e.dec n
                  pure (some l)
                else pure none) ((lag.getD []).length :: encMany e (lag.getD [])) = .ok (some (lag.getD [])) := by
            simp [runAll, readU8_cons, hLpos, hLag]
          simp only [hlr, hLf, Bool.false_eq_true, if_false, Option.isSome_some, if_true]
          rw [if_neg (by omega)]
          have : main + (cur.length - main + 1 - 1) = cur.length := by omega
          simp only [this]
          simp [runAll, readU8_cons, hTr, hEv, deinterleave_interleave cur next hlen]

end WinterProofs.C12L
