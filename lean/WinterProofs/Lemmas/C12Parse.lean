-- helper lemmas for C12: what the constructors store is what the types' own parse steps give back
-- (Queries::new / Queries::parse with Table::from_bytes and BatchMerkleProof::serialize_nodes / deserialize)
import WinterProofs.Lemmas.C12Univ

namespace WinterProofs.C12L
open Model Model.Serde Gen.Limits

theorem length_encMany {c : Codec α} {L : Nat} (xs : List α) (h : ∀ x ∈ xs, (c.enc x).length = L) :
    (encMany c xs).length = xs.length * L := by
  induction xs with
  | nil => simp [encMany]
  | cons x xs ih =>
    simp only [encMany, List.length_append, List.length_cons, h x (List.mem_cons_self ..),
      ih (fun y hy => h y (List.mem_cons_of_mem _ hy))]
    rw [Nat.succ_mul]; omega

/-- one vector of Merkle nodes: a u8 count, then the digests -/
def nodeVec (d : Codec δ) : Codec (List δ) where
  enc v := v.length :: encMany d v
  dec := do
    let k ← readU8
    readMany d.dec k
  wf v := v.length ≤ 255 && v.all d.wf

theorem nodeVec_RT {d : Codec δ} (hd : d.RT) : (nodeVec d).RT := by
  intro v rest hv
  simp only [nodeVec, Bool.and_eq_true, decide_eq_true_eq] at hv
  refine ⟨rfl, ?_⟩
  simp [nodeVec, readU8_cons, readMany_rt hd hv.2 rest]

theorem flatten_nodes (d : Codec δ) (nodes : List (List δ)) :
    (nodes.map (fun v => v.length :: encMany d v)).flatten = encMany (nodeVec d) nodes := by
  induction nodes with
  | nil => rfl
  | cons v t ih => simp [encMany, nodeVec, ih]

theorem deserialize_serialize {d : Codec δ} (hd : d.RT) (nodes : List (List δ)) (paths : Bytes)
    (hs : serializeNodes d nodes = some paths) (hn : ∀ v ∈ nodes, v.all d.wf = true) :
    deserializeNodes d paths = .ok (nodes, []) := by
  unfold serializeNodes at hs
  split at hs
  · cases hs
  · rename_i hc
    simp only [Bool.or_eq_true, decide_eq_true_eq, List.any_eq_true, not_or, Nat.not_lt, not_exists,
      not_and] at hc
    cases hs
    have hall : nodes.all (nodeVec d).wf = true := by
      apply List.all_eq_true.mpr
      intro v hv
      simp only [nodeVec, Bool.and_eq_true, decide_eq_true_eq]
      exact ⟨hc.2 v hv, hn v hv⟩
    have := readMany_rt (nodeVec_RT hd) hall []
    simp only [List.append_nil] at this
    rw [flatten_nodes]
    show (readU8 >>= fun n => readMany (nodeVec d).dec n) _ = _
    simp [readU8_cons, this]

/-- `Queries::new` followed by `Queries::parse` (with the dimensions the constructor was given, at most
    255 x 255, and a non-trivial tree) returns the query values and the Merkle nodes -/
theorem queriesParse_new {e : Codec ε} {d : Codec δ} (he : e.RT) (hd : d.RT) (eb : Nat)
    (hlen : ∀ x, e.wf x = true → (e.enc x).length = eb)
    (nodes : List (List δ)) (values : List (List ε)) (q : Queries)
    (hq : queriesNew e d nodes values = some q)
    (hv : ∀ row ∈ values, row.all e.wf = true) (hn : ∀ v ∈ nodes, v.all d.wf = true)
    (depth : Nat) (hdepth : depth ≠ 0) (hrows : values.length ≤ 255) (hcols : (values.headD []).length ≤ 255) :
    queriesParse e eb d q depth values.length (values.headD []).length = .ok (values, nodes) := by
  cases values with
  | nil => simp [queriesNew] at hq
  | cons row0 rest =>
    simp only [queriesNew] at hq
    split at hq
    · cases hq
    · rename_i hc
      simp only [Bool.or_eq_true, decide_eq_true_eq, List.any_eq_true, bne_iff_ne, ne_eq, not_or,
        not_exists, not_and, Decidable.not_not] at hc
      obtain ⟨hc0, hcall⟩ := hc
      cases hs : serializeNodes d nodes with
      | none => simp [hs] at hq
      | some paths =>
        simp only [hs, Option.some.injEq] at hq
        subst hq
        simp only [List.headD_cons, List.length_cons] at hcols hrows ⊢
        -- every row is a value of the row type
        have hrow : (row0 :: rest).all (array row0.length e).wf = true := by
          apply List.all_eq_true.mpr
          intro r hr
          simp only [array, Bool.and_eq_true, beq_iff_eq]
          exact ⟨hcall r hr, hv r hr⟩
        have hrowlen : ∀ r ∈ row0 :: rest, ((array row0.length e).enc r).length = row0.length * eb := by
          intro r hr
          have h1 := hcall r hr
          have := length_encMany (c := e) (L := eb) r
            (fun x hx => hlen x (List.all_eq_true.mp (hv r hr) x hx))
          simp only [array]; rw [this, h1]
        have hbytes := length_encMany (c := array row0.length e) (row0 :: rest) hrowlen
        have hread := readMany_rt (array_RT row0.length he) hrow []
        simp only [List.append_nil, List.length_cons] at hread hbytes
        have hdes := deserialize_serialize hd nodes paths hs hn
        unfold queriesParse tableFromBytes
        rw [if_neg (by omega), if_neg (by rw [hbytes, Nat.mul_comm eb]; simp),
          if_neg (by simp only [MAX_ROWS, MAX_COLS]; omega)]
        simp only [hread]
        rw [if_neg (by omega)]
        simp [hdes]

end WinterProofs.C12L
