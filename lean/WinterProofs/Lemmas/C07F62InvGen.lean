-- C07, 62-bit field: the inversion loops AS TRANSLATED from math/src/field/f62/mod.rs `fn inv`
-- (Winter/Gen/F62Inv.lean, regenerated on every run) refine the hand model `Model.F62.inv`:
-- whenever the model returns `.done r`, the generated function returns `r` for every loop fuel
-- `N ≥ 400`, and no executed step overflows or underflows (`inv_ok`).  No Mathlib needed.
--
-- Simulation, one lemma per Rust `while`, by induction on the model's fuel and generalised over
-- the generated fuel.  The `_ok` side needs that the cofactors stay far below 2^128: with `u`, `v`
-- odd every subtraction is followed by at least one halving, so `max(a, d)` grows by at most `M`
-- per subtraction: `a, d ≤ (k+1)·M` after `k` subtractions, and `k ≤ 400·401` by the model's fuel.
import Winter.Gen.F62Inv
import Winter.Model.Field
import WinterProofs.Lemmas.C07F62

namespace WinterProofs.F62InvGen
open Model.F62 (halve reduceU outer reduceA)
open Model (Fuel)

/-! ### names for the generated loops -/

/-- `while u & 1 == 0 { … }` (state `(u, d)`) -/
abbrev L3 := Gen.F62Inv.inv.loop1_body.loop1_body.loop1
abbrev L3ok := Gen.F62Inv.inv.loop1_body.loop1_body.loop1_ok
abbrev c3 := Gen.F62Inv.inv.loop1_body.loop1_body.loop1_cond
abbrev b3 := Gen.F62Inv.inv.loop1_body.loop1_body.loop1_body
abbrev b3ok := Gen.F62Inv.inv.loop1_body.loop1_body.loop1_body_ok
/-- `while v & 1 == 0 { … }` (state `(a, v)`) -/
abbrev L4 := Gen.F62Inv.inv.loop1_body.loop2
abbrev L4ok := Gen.F62Inv.inv.loop1_body.loop2_ok
/-- `while v < u { … }` (state `(u, d)`, constants `a`, `v`) -/
abbrev L2 := Gen.F62Inv.inv.loop1_body.loop1
abbrev L2ok := Gen.F62Inv.inv.loop1_body.loop1_ok
/-- `while v != 1 { … }` (state `(a, u, v, d)`) -/
abbrev L1 := Gen.F62Inv.inv.loop1
abbrev L1ok := Gen.F62Inv.inv.loop1_ok
/-- `while a > M { … }` -/
abbrev L5 := Gen.F62Inv.inv.loop2
abbrev L5ok := Gen.F62Inv.inv.loop2_ok

/-! ### the halving loops -/

theorem c3_iff (u d : Nat) : c3 u d = true ↔ u % 2 = 0 := by
  show decide ((u &&& 1) = 0) = true ↔ _
  rw [Nat.and_one_is_mod, decide_eq_true_iff]

theorem b3_eq (u d : Nat) :
    b3 u d = (u / 2, (if d % 2 = 1 then d + 4611624995532046337 else d) / 2) := by
  show (u / 2, (if decide ((d &&& 1) = 1) = true then d + 4611624995532046337 else d) / 2) = _
  rw [Nat.and_one_is_mod]
  by_cases h : d % 2 = 1 <;> simp [h]

theorem b3ok_iff (u d : Nat) :
    b3ok u d = true ↔ (d % 2 = 1 → d + 4611624995532046337 < 340282366920938463463374607431768211456) := by
  show decide (decide ((d &&& 1) = 1) = true → d + 4611624995532046337 < 340282366920938463463374607431768211456) = true ↔ _
  rw [Nat.and_one_is_mod, decide_eq_true_iff, decide_eq_true_iff]

theorem L3_succ (n u d : Nat) :
    L3 (n + 1) u d = if c3 u d = true then L3 n (b3 u d).1 (b3 u d).2 else (u, d) := rfl

theorem L3ok_succ (n u d : Nat) :
    L3ok (n + 1) u d =
      (true && (if c3 u d = true then b3ok u d && L3ok n (b3 u d).1 (b3 u d).2 else true)) := rfl

theorem L4_succ (n a v : Nat) :
    L4 (n + 1) a v = if c3 v a = true then L4 n (b3 v a).2 (b3 v a).1 else (a, v) := rfl

theorem L4ok_succ (n a v : Nat) :
    L4ok (n + 1) a v =
      (true && (if c3 v a = true then b3ok v a && L4ok n (b3 v a).2 (b3 v a).1 else true)) := rfl

/-- the two halving loops of the source are the same loop with the roles swapped -/
theorem L4_eq : ∀ (n a v : Nat), L4 n a v = ((L3 n v a).2, (L3 n v a).1)
  | 0, _, _ => rfl
  | n + 1, a, v => by
    rw [L4_succ, L3_succ]
    split
    · exact L4_eq n _ _
    · rfl

theorem L4ok_eq : ∀ (n a v : Nat), L4ok n a v = L3ok n v a
  | 0, _, _ => rfl
  | n + 1, a, v => by
    rw [L4ok_succ, L3ok_succ]
    split
    · rw [L4ok_eq n]
    · rfl

theorem halve_zero (u d : Nat) : halve 0 u d = Fuel.out := rfl

theorem halve_succ (f u d : Nat) :
    halve (f + 1) u d =
      if u % 2 = 0 then halve f (u / 2) ((if d % 2 = 1 then d + 4611624995532046337 else d) / 2)
      else Fuel.done (u, d) := rfl

/-- one fix-up halving never exceeds `max(d, M)`, and stays below `(d + M)/2` -/
theorem half_le (d B : Nat) (hd : d + 4611624995532046337 ≤ 2 * B) :
    (if d % 2 = 1 then d + 4611624995532046337 else d) / 2 ≤ B := by
  split <;> omega

/-- simulation of `halve`: same result for every larger fuel, every step within u128,
    the result is odd and the cofactor stays below any bound `B ≥ max(d, M)` -/
theorem halve_sim : ∀ (f u d u' d' N B : Nat), halve f u d = Fuel.done (u', d') → f ≤ N →
    d ≤ B → 4611624995532046337 ≤ B → B + 4611624995532046337 < 340282366920938463463374607431768211456 →
    L3 N u d = (u', d') ∧ L3ok N u d = true ∧ u' % 2 = 1 ∧ d' ≤ B := by
  intro f
  induction f with
  | zero => intro u d u' d' N B h; rw [halve_zero] at h; cases h
  | succ f ih =>
    intro u d u' d' N B h hN hd hB hB2
    obtain ⟨n, rfl⟩ : ∃ n, N = n + 1 := ⟨N - 1, by omega⟩
    rw [halve_succ] at h
    rw [L3_succ, L3ok_succ]
    by_cases hev : u % 2 = 0
    · rw [if_pos hev] at h
      have hc : c3 u d = true := (c3_iff u d).2 hev
      rw [if_pos hc, if_pos hc, b3_eq]
      have hb := half_le d B (by omega)
      obtain ⟨h1, h2, h3, h4⟩ := ih _ _ u' d' n B h (by omega) hb hB hB2
      refine ⟨h1, ?_, h3, h4⟩
      rw [h2, (b3ok_iff u d).2 (fun _ => by omega)]
      rfl
    · rw [if_neg hev] at h
      have hc : ¬ (c3 u d = true) := fun hc => hev ((c3_iff u d).1 hc)
      rw [if_neg hc, if_neg hc]
      injection h with h
      injection h with h1 h2
      subst h1 h2
      exact ⟨rfl, rfl, by omega, hd⟩

/-- `halve` entered on an even word (the only way the code enters it): the result is below
    `B` as soon as `d + M ≤ 2B` -/
theorem halve_sim_even (f u d u' d' N B : Nat) (h : halve f u d = Fuel.done (u', d')) (hN : f ≤ N)
    (hev : u % 2 = 0) (hd : d + 4611624995532046337 ≤ 2 * B) (hB : 4611624995532046337 ≤ B)
    (hB2 : 2 * B < 340282366920938463463374607431768211456) :
    L3 N u d = (u', d') ∧ L3ok N u d = true ∧ u' % 2 = 1 ∧ d' ≤ B := by
  cases f with
  | zero => rw [halve_zero] at h; cases h
  | succ f =>
    obtain ⟨n, rfl⟩ : ∃ n, N = n + 1 := ⟨N - 1, by omega⟩
    rw [halve_succ, if_pos hev] at h
    have hc : c3 u d = true := (c3_iff u d).2 hev
    rw [L3_succ, L3ok_succ, if_pos hc, if_pos hc, b3_eq]
    have hb := half_le d B hd
    obtain ⟨h1, h2, h3, h4⟩ := halve_sim f _ _ u' d' n B h (by omega) hb hB (by omega)
    refine ⟨h1, ?_, h3, h4⟩
    rw [h2, (b3ok_iff u d).2 (fun _ => by omega)]
    rfl

/-! ### the cofactor bound `Bd k = (k+1)·M` after `k` subtractions (kept opaque for `omega`) -/

def Bd (k : Nat) : Nat := k * 4611624995532046337 + 4611624995532046337

theorem Bd_zero : Bd 0 = 4611624995532046337 := rfl

theorem Bd_succ (k : Nat) : Bd (k + 1) = Bd k + 4611624995532046337 := by
  unfold Bd; rw [Nat.add_mul, Nat.one_mul]

theorem Bd_mono {k k' : Nat} (h : k ≤ k') : Bd k ≤ Bd k' := by
  unfold Bd; exact Nat.add_le_add_right (Nat.mul_le_mul_right _ h) _

theorem Bd_ge (k : Nat) : 4611624995532046337 ≤ Bd k := by
  unfold Bd; exact Nat.le_add_left _ _

theorem Bd_lt (k : Nat) (hk : k ≤ 200002) : 2 * Bd k < 340282366920938463463374607431768211456 := by
  have h1 : Bd k ≤ Bd 200002 := Bd_mono hk
  have h2 : Bd 200002 = 922338833981395863539011 := by decide
  omega

/-! ### `while v < u { u -= v; d += a; halve }` -/

theorem L2_succ (N a v n u d : Nat) :
    L2 N a v (n + 1) u d =
      if decide (v < u) = true then
        L2 N a v n (L3 N (u - v) (d + a)).1 (L3 N (u - v) (d + a)).2
      else (u, d) := rfl

theorem L2ok_succ (N a v n u d : Nat) :
    L2ok N a v (n + 1) u d =
      (true && (if decide (v < u) = true then
        (decide (v ≤ u) && decide (d + a < 340282366920938463463374607431768211456) &&
          decide (L3ok N (u - v) (d + a) = true)) &&
        L2ok N a v n (L3 N (u - v) (d + a)).1 (L3 N (u - v) (d + a)).2
      else true)) := rfl

theorem reduceU_zero (u v a d : Nat) : reduceU 0 u v a d = Fuel.out := rfl

theorem reduceU_succ (f u v a d : Nat) :
    reduceU (f + 1) u v a d =
      if v < u then
        (match halve 200 (u - v) (d + a) with
          | Fuel.done (u', d') => reduceU f u' v a d'
          | Fuel.out => Fuel.out)
      else Fuel.done (u, d) := rfl

/-- simulation of `reduceU`; `k` counts the subtractions so far (`a, d ≤ (k+1)·M`) -/
theorem reduceU_sim : ∀ (f a u v d k u' d' N F : Nat), reduceU f u v a d = Fuel.done (u', d') →
    f ≤ F → 200 ≤ N → u % 2 = 1 → v % 2 = 1 →
    a ≤ Bd k → d ≤ Bd k → k + f ≤ 200000 →
    L2 N a v F u d = (u', d') ∧ L2ok N a v F u d = true ∧ u' % 2 = 1 ∧ u' ≤ v ∧
      d' ≤ Bd (k + f) := by
  intro f
  induction f with
  | zero => intro a u v d k u' d' N F h; rw [reduceU_zero] at h; cases h
  | succ f ih =>
    intro a u v d k u' d' N F h hF hN hu hv ha hd hk
    obtain ⟨n, rfl⟩ : ∃ n, F = n + 1 := ⟨F - 1, by omega⟩
    rw [reduceU_succ] at h
    rw [L2_succ, L2ok_succ]
    by_cases hlt : v < u
    · rw [if_pos hlt] at h
      rw [if_pos (decide_eq_true hlt), if_pos (decide_eq_true hlt)]
      cases hh : halve 200 (u - v) (d + a) with
      | out => rw [hh] at h; cases h
      | done p =>
        obtain ⟨u1, d1⟩ := p
        rw [hh] at h
        have hs := Bd_succ k
        have hg := Bd_ge k
        have hl := Bd_lt (k + 1) (by omega)
        obtain ⟨e1, e2, e3, e4⟩ := halve_sim_even 200 (u - v) (d + a) u1 d1 N
          (Bd (k + 1)) hh hN (by omega) (by omega) (by omega) hl
        obtain ⟨r1, r2, r3, r4, r5⟩ := ih a u1 v d1 (k + 1) u' d' N n h (by omega) hN e3 hv
          (by omega) e4 (by omega)
        rw [e1]
        refine ⟨r1, ?_, r3, r4, ?_⟩
        · rw [r2, e2, decide_eq_true (Nat.le_of_lt hlt),
            decide_eq_true (show d + a < 340282366920938463463374607431768211456 by omega)]
          rfl
        · have : k + 1 + f = k + (f + 1) := by omega
          rw [← this]; exact r5
    · rw [if_neg hlt] at h
      have hc : ¬ (decide (v < u) = true) := by simpa using hlt
      rw [if_neg hc, if_neg hc]
      injection h with h
      injection h with h1 h2
      subst h1 h2
      refine ⟨rfl, rfl, hu, by omega, ?_⟩
      exact Nat.le_trans hd (Bd_mono (by omega))

/-! ### `while v != 1 { … }` -/

/-- subtractions per iteration of the main loop: at most 400 in `reduceU` plus one
    (kept opaque for `omega`) -/
def W (f : Nat) : Nat := 401 * f

theorem W_succ (f : Nat) : W (f + 1) = W f + 401 := by unfold W; rw [Nat.mul_add]

theorem W_400 : W 400 = 160400 := rfl

-- the fuel bookkeeping of `outer_sim`, as small separate facts (`omega` is fragile here)
theorem bk0 (k w : Nat) (hk : k + (w + 401) ≤ 160400) : k ≤ 159999 := by omega
theorem bk1 (k : Nat) (h : k ≤ 159999) : k + 400 ≤ 200000 := by omega
theorem bk2 (k : Nat) (h : k ≤ 159999) : k + 400 + 1 ≤ 200002 := by omega
theorem bk3 (k w : Nat) (hk : k + (w + 401) ≤ 160400) : k + 400 + 1 + w ≤ 160400 := by omega

theorem L1_succ (N n a u v d : Nat) :
    L1 N (n + 1) a u v d =
      if decide (v ≠ 1) = true then
        L1 N n
          (L4 N (a + (L2 N a v N u d).2) (v - (L2 N a v N u d).1)).1
          (L2 N a v N u d).1
          (L4 N (a + (L2 N a v N u d).2) (v - (L2 N a v N u d).1)).2
          (L2 N a v N u d).2
      else (a, u, v, d) := rfl

theorem L1ok_succ (N n a u v d : Nat) :
    L1ok N (n + 1) a u v d =
      (true && (if decide (v ≠ 1) = true then
        (decide (L2ok N a v N u d = true) && decide ((L2 N a v N u d).1 ≤ v) &&
          decide (a + (L2 N a v N u d).2 < 340282366920938463463374607431768211456) &&
          decide (L4ok N (a + (L2 N a v N u d).2) (v - (L2 N a v N u d).1) = true)) &&
        L1ok N n
          (L4 N (a + (L2 N a v N u d).2) (v - (L2 N a v N u d).1)).1
          (L2 N a v N u d).1
          (L4 N (a + (L2 N a v N u d).2) (v - (L2 N a v N u d).1)).2
          (L2 N a v N u d).2
      else true)) := rfl

theorem outer_zero (a u v d : Nat) : outer 0 a u v d = Fuel.out := rfl

theorem outer_succ (f a u v d : Nat) :
    outer (f + 1) a u v d =
      if v = 1 then Fuel.done a
      else
        (match reduceU 400 u v a d with
          | Fuel.out => Fuel.out
          | Fuel.done (u, d) =>
            match halve 200 (v - u) (a + d) with
            | Fuel.out => Fuel.out
            | Fuel.done (v', a') => outer f a' u v' d) := rfl

/-- simulation of the main loop -/
theorem outer_sim : ∀ (f a u v d k r N F : Nat), outer f a u v d = Fuel.done r →
    f ≤ F → 400 ≤ N → u % 2 = 1 → v % 2 = 1 →
    a ≤ Bd k → d ≤ Bd k → k + W f ≤ 160400 →
    (L1 N F a u v d).1 = r ∧ L1ok N F a u v d = true := by
  intro f
  induction f with
  | zero => intro a u v d k r N F h; rw [outer_zero] at h; cases h
  | succ f ih =>
    intro a u v d k r N F h hF hN hu hv ha hd hk
    rw [W_succ] at hk
    obtain ⟨n, rfl⟩ : ∃ n, F = n + 1 := ⟨F - 1, by omega⟩
    rw [outer_succ] at h
    rw [L1_succ, L1ok_succ]
    by_cases hv1 : v = 1
    · rw [if_pos hv1] at h
      have hc : ¬ (decide (v ≠ 1) = true) := by simpa using hv1
      rw [if_neg hc, if_neg hc]
      injection h with h
      exact ⟨h, rfl⟩
    · rw [if_neg hv1] at h
      have hc : decide (v ≠ 1) = true := decide_eq_true hv1
      rw [if_pos hc, if_pos hc]
      cases hr : reduceU 400 u v a d with
      | out => rw [hr] at h; cases h
      | done p =>
        obtain ⟨u1, d1⟩ := p
        rw [hr] at h
        dsimp only at h
        cases hh : halve 200 (v - u1) (a + d1) with
        | out => rw [hh] at h; cases h
        | done q =>
          obtain ⟨v1, a1⟩ := q
          rw [hh] at h
          dsimp only at h
          have hk0 := bk0 k (W f) hk
          have hk3 := bk3 k (W f) hk
          clear hk
          obtain ⟨s1, s2, s3, s4, s5⟩ := reduceU_sim 400 a u v d k u1 d1 N N hr hN (by omega) hu hv
            ha hd (bk1 k hk0)
          have hs := Bd_succ (k + 400)
          have hg := Bd_ge (k + 400)
          have hm : Bd k ≤ Bd (k + 400) := Bd_mono (Nat.le_add_right _ _)
          have hl := Bd_lt (k + 400 + 1) (bk2 k hk0)
          obtain ⟨e1, e2, e3, e4⟩ := halve_sim_even 200 (v - u1) (a + d1) v1 a1 N
            (Bd (k + 400 + 1)) hh (by omega) (by omega) (by omega) (by omega) hl
          rw [s1]
          dsimp only
          rw [L4_eq, L4ok_eq, e1]
          dsimp only
          have hd1 : d1 ≤ Bd (k + 400 + 1) := by omega
          obtain ⟨r1, r2⟩ := ih a1 u1 v1 d1 (k + 400 + 1) r N n h (by omega) hN s3 e3 e4 hd1 hk3
          refine ⟨r1, ?_⟩
          rw [r2, s2, e2, decide_eq_true s4,
            decide_eq_true (show a + d1 < 340282366920938463463374607431768211456 by omega)]
          rfl

/-! ### `while a > M { a -= M }` -/

theorem L5_succ (n a : Nat) :
    L5 (n + 1) a = if decide (a > 4611624995532046337) = true then L5 n (a - 4611624995532046337) else a := rfl

theorem L5ok_succ (n a : Nat) :
    L5ok (n + 1) a =
      (true && (if decide (a > 4611624995532046337) = true then
        decide (4611624995532046337 ≤ a) && L5ok n (a - 4611624995532046337) else true)) := rfl

theorem reduceA_zero (a : Nat) : reduceA 0 a = Fuel.out := rfl

theorem reduceA_succ (f a : Nat) :
    reduceA (f + 1) a =
      if a > 4611624995532046337 then reduceA f (a - 4611624995532046337) else Fuel.done a := rfl

theorem reduceA_sim : ∀ (f a r N : Nat), reduceA f a = Fuel.done r → f ≤ N →
    L5 N a = r ∧ L5ok N a = true := by
  intro f
  induction f with
  | zero => intro a r N h; rw [reduceA_zero] at h; cases h
  | succ f ih =>
    intro a r N h hN
    obtain ⟨n, rfl⟩ : ∃ n, N = n + 1 := ⟨N - 1, by omega⟩
    rw [reduceA_succ] at h
    rw [L5_succ, L5ok_succ]
    by_cases hgt : a > 4611624995532046337
    · rw [if_pos hgt] at h
      rw [if_pos (decide_eq_true hgt), if_pos (decide_eq_true hgt)]
      obtain ⟨h1, h2⟩ := ih _ r n h (by omega)
      refine ⟨h1, ?_⟩
      rw [h2, decide_eq_true (Nat.le_of_lt hgt)]
      rfl
    · rw [if_neg hgt] at h
      have hc : ¬ (decide (a > 4611624995532046337) = true) := by simpa using hgt
      rw [if_neg hc, if_neg hc]
      injection h with h
      exact ⟨h, rfl⟩

/-! ### the whole function -/

theorem model_inv_unfold (x : Nat) :
    Model.F62.inv x =
      if x = 0 ∨ x = 4611624995532046337 then Fuel.done 0
      else
        (match outer 400 0 (if x % 2 = 1 then x else x + 4611624995532046337) 4611624995532046337
            (4611624995532046337 - 1) with
          | Fuel.out => Fuel.out
          | Fuel.done a =>
            match reduceA 200 a with
            | Fuel.out => Fuel.out
            | Fuel.done a => Fuel.done (Gen.F62.mul (a % 18446744073709551616) 732984146687909319)) := rfl

theorem gen_inv_unfold (N x : Nat) :
    Gen.F62Inv.inv N x =
      if decide (x = 0 ∨ x = 4611624995532046337) = true then 0
      else Gen.F62.mul
        (L5 N (L1 N N 0 (if (x &&& 1) = 1 then x else x + 4611624995532046337) 4611624995532046337
          (4611624995532046337 - 1)).1 % 18446744073709551616) 732984146687909319 := rfl

theorem gen_inv_ok_unfold (N x : Nat) :
    Gen.F62Inv.inv_ok N x =
      (decide ((¬ (decide (x = 0 ∨ x = 4611624995532046337) = true)) ∧ (¬ ((x &&& 1) = 1)) →
          (x + 4611624995532046337 < 340282366920938463463374607431768211456)) &&
        decide ((¬ (decide (x = 0 ∨ x = 4611624995532046337) = true)) → (1 ≤ 4611624995532046337)) &&
        decide ((¬ (decide (x = 0 ∨ x = 4611624995532046337) = true)) →
          (L1ok N N 0 (if (x &&& 1) = 1 then x else x + 4611624995532046337) 4611624995532046337
            (4611624995532046337 - 1) = true)) &&
        decide ((¬ (decide (x = 0 ∨ x = 4611624995532046337) = true)) →
          (L5ok N (L1 N N 0 (if (x &&& 1) = 1 then x else x + 4611624995532046337) 4611624995532046337
            (4611624995532046337 - 1)).1 = true)) &&
        decide ((¬ (decide (x = 0 ∨ x = 4611624995532046337) = true)) →
          (Gen.F62.mul_ok
            (L5 N (L1 N N 0 (if (x &&& 1) = 1 then x else x + 4611624995532046337) 4611624995532046337
              (4611624995532046337 - 1)).1 % 18446744073709551616) 732984146687909319 = true))) := rfl

/-- the translated `inv` refines the hand model: whenever the model returns `.done r`, the
    generated function returns `r` for EVERY loop fuel `N ≥ 400` (so the result does not depend on
    the fuel), and no executed step of the checked build overflows or underflows -/
theorem gen_inv_refines (x r N : Nat) (hx : x < 2 ^ 64) (hN : 400 ≤ N)
    (h : Model.F62.inv x = Fuel.done r) :
    Gen.F62Inv.inv N x = r ∧ Gen.F62Inv.inv_ok N x = true := by
  rw [model_inv_unfold] at h
  rw [gen_inv_unfold, gen_inv_ok_unfold]
  by_cases hz : x = 0 ∨ x = 4611624995532046337
  · rw [if_pos hz] at h
    injection h with h
    have hc : decide (x = 0 ∨ x = 4611624995532046337) = true := decide_eq_true hz
    rw [if_pos hc, hc]
    exact ⟨h, by simp⟩
  · rw [if_neg hz] at h
    have hc : ¬ (decide (x = 0 ∨ x = 4611624995532046337) = true) := by simpa using hz
    rw [if_neg hc]
    rw [Nat.and_one_is_mod]
    obtain ⟨u0, hu0⟩ : ∃ u0, (if x % 2 = 1 then x else x + 4611624995532046337) = u0 := ⟨_, rfl⟩
    rw [hu0] at h ⊢
    have hodd : u0 % 2 = 1 := by rw [← hu0]; split <;> omega
    cases ho : outer 400 0 u0 4611624995532046337 (4611624995532046337 - 1) with
    | out => rw [ho] at h; cases h
    | done a =>
      rw [ho] at h
      dsimp only at h
      cases hr : reduceA 200 a with
      | out => rw [hr] at h; cases h
      | done a' =>
        rw [hr] at h
        dsimp only at h
        injection h with h
        obtain ⟨o1, o2⟩ := outer_sim 400 0 u0 4611624995532046337 (4611624995532046337 - 1) 0 a N N
          ho hN hN hodd (by decide) (by rw [Bd_zero]; omega) (by rw [Bd_zero]; omega)
          (by rw [W_400]; exact Nat.le_of_eq (Nat.zero_add _))
        obtain ⟨q1, q2⟩ := reduceA_sim 200 a a' N hr (by omega)
        rw [o1, q1, o2, q2]
        refine ⟨h, ?_⟩
        have hm : Gen.F62.mul_ok (a' % 18446744073709551616) 732984146687909319 = true :=
          WinterProofs.F62L.mul_ok_gen _ _
            (WinterProofs.F62L.prod_lt_word _ _ (Nat.mod_lt _ (by decide)) (by decide))
        rw [hm]
        have hx' : x + 4611624995532046337 < 340282366920938463463374607431768211456 := by
          have : x < 18446744073709551616 := hx
          omega
        simp [hx']

end WinterProofs.F62InvGen
