-- C05: what a successful run of the verifier model implies, layer by layer (helper lemmas)
import Winter.Model.Fri

namespace WinterProofs.C05
open Model.Fri

variable {α D : Type}

/-- the state the layer loop moves to from `st` with the folded positions, the opened rows and the challenge -/
def nextState (F : FOps α) (N : Nat) (roots : List α) (st : VState α) (folded : List Nat)
    (rows : List (List α)) (alpha : α) : VState α where
  positions := folded
  evals := (folded.zip rows).map fun (i, row) => lagrangeEval F (rowPoints F roots st.domainGen i) row alpha
  domainGen := pow F st.domainGen N
  domainSize := st.domainSize / N
  maxDegPlus1 := st.maxDegPlus1 / N

/-- everything one successful iteration of the layer loop of `verify_generic` has checked -/
def LayerOk (F : FOps α) (N : Nat) (inp : VInput α D) (roots : List α) (depth : Nat)
    (st st' : VState α) : Prop :=
  ∃ folded opening alpha queryValues,
    foldPositions st.positions st.domainSize N = some folded ∧
    inp.layers[depth]? = some opening ∧
    inp.alphas[depth]? = some alpha ∧
    -- the opened rows are the committed ones (Merkle batch verification succeeded), one row per folded position
    opening.merkleOk = true ∧
    opening.rows.length = folded.length ∧
    (∀ r ∈ opening.rows, r.length = N) ∧
    -- the values carried over from the previous layer are the opened values at the queried positions
    getQueryValues opening.rows st.positions folded st.domainSize N = some queryValues ∧
    beqList F st.evals queryValues = true ∧
    -- the degree bound is divisible by the folding factor
    st.maxDegPlus1 % N = 0 ∧
    -- the values carried to the next layer are the row interpolants at the challenge
    st' = nextState F N roots st folded opening.rows alpha

theorem verifyLayer_ok (F : FOps α) (N : Nat) (inp : VInput α D) (roots : List α) (depth : Nat)
    (st st' : VState α) (h : verifyLayer F N inp roots depth st = .ok st') :
    LayerOk F N inp roots depth st st' := by
  unfold verifyLayer at h
  split at h
  · exact absurd h (by simp)
  · rename_i folded hfold
    split at h
    · exact absurd h (by simp)
    · split at h
      · exact absurd h (by simp)
      · split at h
        · exact absurd h (by simp)
        · rename_i opening hopen
          split at h
          · exact absurd h (by simp)
          · rename_i hm
            split at h
            · exact absurd h (by simp)
            · rename_i hlt
              split at h
              · exact absurd h (by simp)
              · rename_i hne
                split at h
                · exact absurd h (by simp)
                · rename_i hrows
                  split at h
                  · exact absurd h (by simp)
                  · rename_i qv hqv
                    split at h
                    · exact absurd h (by simp)
                    · rename_i hbeq
                      split at h
                      · exact absurd h (by simp)
                      · rename_i alpha halpha
                        split at h
                        · exact absurd h (by simp)
                        · rename_i hdeg
                          refine ⟨folded, opening, alpha, qv, hfold, hopen, halpha, ?_, ?_, ?_, hqv, ?_, ?_, ?_⟩
                          · simpa using hm
                          · simpa using hne
                          · intro r hr
                            have := hrows
                            simp only [List.any_eq_true, not_exists, not_and] at this
                            simpa using this r hr
                          · simpa using hbeq
                          · simpa using hdeg
                          · cases h; rfl

/-- the converse: the listed checks (plus the presence of the layer's commitment and a usable partition count)
    make the iteration succeed -/
theorem verifyLayer_of_LayerOk (F : FOps α) (N : Nat) (inp : VInput α D) (roots : List α) (depth : Nat)
    (st st' : VState α) (h : LayerOk F N inp roots depth st st')
    (hc : (inp.commitments[depth]?).isSome) (hp : inp.numPartitions = 1) :
    verifyLayer F N inp roots depth st = .ok st' := by
  obtain ⟨folded, opening, alpha, qv, hfold, hopen, halpha, hm, hlen, hrows, hqv, hbeq, hdeg, hst⟩ := h
  obtain ⟨c, hc⟩ := Option.isSome_iff_exists.mp hc
  unfold verifyLayer
  simp only [hfold, mapPositionsToIndexes, hp, ↓reduceIte, hc, hopen, hm, Bool.not_true, Bool.false_eq_true,
    hlen, Nat.lt_irrefl, ne_eq, not_true_eq_false, hqv, hbeq, halpha, hdeg]
  simp only [hst, nextState]
  simpa using hrows

/-- `count` successful iterations starting at `depth` -/
inductive Chain (F : FOps α) (N : Nat) (inp : VInput α D) (roots : List α) :
    Nat → Nat → VState α → VState α → Prop where
  | nil (depth : Nat) (st : VState α) : Chain F N inp roots 0 depth st st
  | cons {count depth : Nat} {st st1 st' : VState α} :
      LayerOk F N inp roots depth st st1 → Chain F N inp roots count (depth + 1) st1 st' →
      Chain F N inp roots (count + 1) depth st st'

theorem verifyLayers_ok (F : FOps α) (N : Nat) (inp : VInput α D) (roots : List α) :
    ∀ (count depth : Nat) (st st' : VState α),
      verifyLayers F N inp roots count depth st = .ok st' → Chain F N inp roots count depth st st'
  | 0, depth, st, st', h => by
    simp only [verifyLayers] at h
    cases h
    exact Chain.nil depth st
  | count + 1, depth, st, st', h => by
    simp only [verifyLayers] at h
    split at h
    · rename_i st1 h1
      exact Chain.cons (verifyLayer_ok F N inp roots depth st st1 h1)
        (verifyLayers_ok F N inp roots count (depth + 1) st1 st' h)
    · exact absurd h (by simp)
    · exact absurd h (by simp)

theorem verifyLayers_of_chain (F : FOps α) (N : Nat) (inp : VInput α D) (roots : List α)
    (hp : inp.numPartitions = 1) :
    ∀ (count depth : Nat) (st st' : VState α), Chain F N inp roots count depth st st' →
      (∀ d, depth ≤ d → d < depth + count → (inp.commitments[d]?).isSome) →
      verifyLayers F N inp roots count depth st = .ok st' := by
  intro count depth st st' h
  induction h with
  | nil depth st => intro _; simp [verifyLayers]
  | @cons count depth st st1 st' hl _ ih =>
    intro hc
    simp only [verifyLayers]
    rw [verifyLayer_of_LayerOk F N inp roots depth st st1 hl (hc depth (Nat.le_refl _) (by omega)) hp]
    exact ih (fun d h1 h2 => hc d (by omega) (by omega))

/-- an empty chain does not depend on the folding roots -/
theorem Chain.zero_roots (F : FOps α) (N : Nat) (inp : VInput α D) (roots roots' : List α)
    {depth : Nat} {st st' : VState α} (h : Chain F N inp roots 0 depth st st') :
    Chain F N inp roots' 0 depth st st' := by
  cases h
  exact Chain.nil _ _

/-- degree bookkeeping along a chain: the bound is divisible by the folding factor at every layer -/
theorem Chain.maxDeg (F : FOps α) (N : Nat) (inp : VInput α D) (roots : List α)
    {count depth : Nat} {st st' : VState α} (h : Chain F N inp roots count depth st st') :
    st'.maxDegPlus1 = st.maxDegPlus1 / N ^ count ∧ st'.domainSize = st.domainSize / N ^ count ∧
      ∀ k, k < count → (st.maxDegPlus1 / N ^ k) % N = 0 := by
  induction h with
  | nil depth st => simp
  | @cons count depth st st1 st' hl _ ih =>
    obtain ⟨folded, opening, alpha, qv, _, _, _, _, _, _, _, _, hdeg, hst⟩ := hl
    obtain ⟨ih1, ih2, ih3⟩ := ih
    have e1 : st1.maxDegPlus1 = st.maxDegPlus1 / N := by rw [hst]; rfl
    have e2 : st1.domainSize = st.domainSize / N := by rw [hst]; rfl
    refine ⟨?_, ?_, ?_⟩
    · rw [ih1, e1, Nat.div_div_eq_div_mul, Nat.pow_succ, Nat.mul_comm]
    · rw [ih2, e2, Nat.div_div_eq_div_mul, Nat.pow_succ, Nat.mul_comm]
    · intro k hk
      cases k with
      | zero => simpa using hdeg
      | succ k =>
        have := ih3 k (by omega)
        rw [e1, Nat.div_div_eq_div_mul] at this
        rw [Nat.pow_succ, Nat.mul_comm]
        exact this

/-- what the remainder checks of the repaired verifier establish -/
theorem verifyRemainder_ok (F : FOps α) [BEq D] (hashRem : List α → D) (inp : VInput α D) (numLayers : Nat)
    (st : VState α) (h : verifyRemainder F true hashRem inp numLayers st = .ok ()) :
    remainderCommitted hashRem inp numLayers = true ∧
    inp.remainder.length ≤ st.maxDegPlus1 ∧
    ∀ pe ∈ st.positions.zip st.evals,
      F.beq (horner F inp.remainder (F.mul F.offset (pow F st.domainGen pe.1))) pe.2 = true := by
  unfold verifyRemainder at h
  split at h
  · exact absurd h (by simp)
  · rename_i hc
    split at h
    · exact absurd h (by simp)
    · rename_i hlen
      split at h
      · rename_i hall
        refine ⟨?_, by omega, ?_⟩
        · simpa using hc
        · intro pe hpe
          have := (List.all_eq_true.mp hall) pe hpe
          simpa using this
      · exact absurd h (by simp)

/-- the remainder checks of the pinned (unrepaired) verifier: no statement about the commitment -/
theorem verifyRemainder_unrepaired_ok (F : FOps α) [BEq D] (hashRem : List α → D) (inp : VInput α D)
    (numLayers : Nat) (st : VState α) (h : verifyRemainder F false hashRem inp numLayers st = .ok ()) :
    inp.remainder.length ≤ st.maxDegPlus1 ∧
    ∀ pe ∈ st.positions.zip st.evals,
      F.beq (horner F inp.remainder (F.mul F.offset (pow F st.domainGen pe.1))) pe.2 = true := by
  unfold verifyRemainder at h
  split at h
  · rename_i hc; simp at hc
  · split at h
    · exact absurd h (by simp)
    · rename_i hlen
      split at h
      · rename_i hall
        refine ⟨by omega, ?_⟩
        intro pe hpe
        have := (List.all_eq_true.mp hall) pe hpe
        simpa using this
      · exact absurd h (by simp)

theorem verifyRemainder_of_checks (F : FOps α) [BEq D] (cc : Bool) (hashRem : List α → D) (inp : VInput α D)
    (numLayers : Nat) (st : VState α)
    (hc : remainderCommitted hashRem inp numLayers = true)
    (hlen : inp.remainder.length ≤ st.maxDegPlus1)
    (hall : ∀ pe ∈ st.positions.zip st.evals,
      F.beq (horner F inp.remainder (F.mul F.offset (pow F st.domainGen pe.1))) pe.2 = true) :
    verifyRemainder F cc hashRem inp numLayers st = .ok () := by
  unfold verifyRemainder
  have h1 : ¬ (inp.remainder.length > st.maxDegPlus1) := by omega
  have h2 : ((st.positions.zip st.evals).all fun x =>
      F.beq (horner F inp.remainder (F.mul F.offset (pow F st.domainGen x.1))) x.2) = true := by
    rw [List.all_eq_true]
    intro pe hpe
    exact hall pe hpe
  simp [hc, h1, h2]

/-- the initial state of the layer loop -/
def initState (F : FOps α) (o : Opts) (inp : VInput α D) : VState α :=
  let domainSize := nextPow2 (inp.maxPolyDegree + 1) * o.blowup
  { positions := inp.positions
    evals := inp.evaluations
    domainGen := F.root (Nat.log2 domainSize)
    domainSize := domainSize
    maxDegPlus1 := inp.maxPolyDegree + 1 }

/-- the points `g^(n/N·i)`, `i < N`, computed once by `verify_generic` -/
def foldingRoots (F : FOps α) (o : Opts) (inp : VInput α D) : List α :=
  let domainSize := nextPow2 (inp.maxPolyDegree + 1) * o.blowup
  (List.range o.folding).map fun i => pow F (F.root (Nat.log2 domainSize)) (domainSize / o.folding * i)

/-- acceptance decomposes into: no `DegreeTruncation` in `new`, matching lengths, a chain of successful
    layer iterations, and the remainder checks -/
theorem verify_ok (F : FOps α) [BEq D] (cc : Bool) (hashRem : List α → D) (o : Opts) (inp : VInput α D)
    (h : verify F cc hashRem o inp = .ok ()) :
    let n := nextPow2 (inp.maxPolyDegree + 1) * o.blowup
    let L := numFriLayers o n
    newChecks o.folding inp.commitments.length inp.commitments.length 0 (inp.maxPolyDegree + 1) = none ∧
    inp.evaluations.length = inp.positions.length ∧
    ∃ stL, Chain F o.folding inp (foldingRoots F o inp) L 0 (initState F o inp) stL ∧
      verifyRemainder F cc hashRem inp L stL = .ok () := by
  unfold verify at h
  simp only at h
  split at h
  · exact absurd h (by simp)
  · split at h
    · exact absurd h (by simp)
    · split at h
      · exact absurd h (by simp)
      · split at h
        · exact absurd h (by simp)
        · rename_i hnew
          split at h
          · exact absurd h (by simp)
          · rename_i hlen
            split at h
            · rename_i stL hL
              refine ⟨hnew, by simpa using hlen, stL, ?_, h⟩
              exact verifyLayers_ok F o.folding inp _ _ 0 _ stL hL
            · exact absurd h (by simp)
            · exact absurd h (by simp)

/-- `FriVerifier::new` raises no `DegreeTruncation` when the bound is divisible at every commitment but the last -/
theorem newChecks_of_div (N total : Nat) :
    ∀ (k depth m : Nat), (∀ j, j < k → depth + j ≠ total - 1 → (m / N ^ j) % N = 0) →
      newChecks N total k depth m = none
  | 0, _, _, _ => rfl
  | k + 1, depth, m, h => by
    simp only [newChecks]
    have h0 : ¬ (depth ≠ total - 1 ∧ m % N ≠ 0) := by
      intro ⟨h1, h2⟩
      have := h 0 (by omega) (by simpa using h1)
      simp at this
      exact h2 this
    simp only [h0, ↓reduceIte]
    apply newChecks_of_div N total k (depth + 1) (m / N)
    intro j hj hne
    have := h (j + 1) (by omega) (by omega)
    rwa [Nat.pow_succ, Nat.mul_comm, ← Nat.div_div_eq_div_mul] at this

/-- the converse of `verify_ok` (for one partition and with the layer commitments present) -/
theorem verify_of_checks (F : FOps α) [BEq D] (cc : Bool) (hashRem : List α → D) (o : Opts) (inp : VInput α D)
    (hd : nextPow2 (inp.maxPolyDegree + 1) * o.blowup ≠ 0)
    (hok : F.rootOk (Nat.log2 (nextPow2 (inp.maxPolyDegree + 1) * o.blowup)) = true)
    (hal : inp.alphas.length = inp.commitments.length)
    (hnew : newChecks o.folding inp.commitments.length inp.commitments.length 0 (inp.maxPolyDegree + 1) = none)
    (hlen : inp.evaluations.length = inp.positions.length)
    (hp : inp.numPartitions = 1)
    (hcm : ∀ d, d < numFriLayers o (nextPow2 (inp.maxPolyDegree + 1) * o.blowup) →
      (inp.commitments[d]?).isSome)
    (stL : VState α)
    (hchain : Chain F o.folding inp (foldingRoots F o inp)
      (numFriLayers o (nextPow2 (inp.maxPolyDegree + 1) * o.blowup)) 0 (initState F o inp) stL)
    (hrem : verifyRemainder F cc hashRem inp
      (numFriLayers o (nextPow2 (inp.maxPolyDegree + 1) * o.blowup)) stL = .ok ()) :
    verify F cc hashRem o inp = .ok () := by
  have hl := verifyLayers_of_chain F o.folding inp (foldingRoots F o inp) hp _ 0 _ stL hchain
    (fun d _ h2 => hcm d (by omega))
  unfold verify
  simp only [hd, ↓reduceIte, hok, Bool.not_true, Bool.false_eq_true, hal, ne_eq, not_true_eq_false, hnew, hlen]
  unfold foldingRoots initState at hl
  simp only at hl
  rw [hl]
  exact hrem

end WinterProofs.C05
