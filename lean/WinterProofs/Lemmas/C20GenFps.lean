-- tie T for C20, continued: `fill_power_series` as regenerated from math/src/utils/mod.rs on this run
-- (Winter/Gen/MathUtils.lean) coincides with the hand-written model function `Model.Poly.fillPowerSeries`
-- for EVERY operations record, every output slice, base and start, and none of its index bounds can fail.
import WinterProofs.Lemmas.C20Gen

namespace C20G
open Model.Poly

variable {α : Type} (O : Ops α)

/-- the translated loop `for i in 1..len { result[i] = result[i - 1] * base }` over the cells after a filled
    prefix `pre ++ [last]` -/
theorem fpsLoop (base : α) : ∀ (rest pre : List α) (last : α),
    Gen.MathUtils.fill_power_series.for1 O.toX base (List.range' (pre.length + 1) rest.length) (pre ++ last :: rest) =
      pre ++ fillPowerSeries O base (rest.length + 1) last ∧
    Gen.MathUtils.fill_power_series.for1_ok O.toX base (List.range' (pre.length + 1) rest.length) (pre ++ last :: rest) =
      true := by
  intro rest
  induction rest with
  | nil =>
    intro pre last
    simp [Gen.MathUtils.fill_power_series.for1, Gen.MathUtils.fill_power_series.for1_ok, fillPowerSeries]
  | cons y rest ih =>
    intro pre last
    have hr : List.range' (pre.length + 1) (y :: rest).length =
        (pre.length + 1) :: List.range' ((pre ++ [last]).length + 1) rest.length := by
      simp [List.range'_succ]
    have hg : (pre ++ last :: y :: rest).getD (pre.length + 1 - 1) O.zero = last := by
      simp [List.getD]
    have hs : (pre ++ last :: y :: rest).set (pre.length + 1) (O.mul last base) =
        (pre ++ [last]) ++ O.mul last base :: rest := by
      rw [List.set_append_right _ _ (by omega)]
      simp
    obtain ⟨i1, i2⟩ := ih (pre ++ [last]) (O.mul last base)
    rw [hr, Gen.MathUtils.fill_power_series.for1, Gen.MathUtils.fill_power_series.for1_ok]
    unfold_gen Gen.MathUtils
    simp only [toX_zero, hg]
    have hm : O.toX.mul = O.mul := rfl
    rw [hm, hs, i1, i2]
    simp [fillPowerSeries]

/-- ★ `fill_power_series` (`result[0] = start; for i in 1..len { result[i] = result[i - 1] * base }`, nothing for an
    empty slice): the regenerated function IS the model's power series of the slice's length, whatever the slice held
    before, and the indices `result[0]`, `result[i]`, `result[i - 1]` and the `i - 1` never fail. -/
theorem gen_fill_power_series_eq (result : List α) (base start : α) :
    Gen.MathUtils.fill_power_series O.toX result base start = fillPowerSeries O base result.length start ∧
    Gen.MathUtils.fill_power_series_ok O.toX result base start = true := by
  cases result with
  | nil =>
    unfold_gen Gen.MathUtils
    simp [fillPowerSeries]
  | cons x rest =>
    obtain ⟨h1, h2⟩ := fpsLoop O base rest [] start
    simp only [List.length_nil, Nat.zero_add, List.nil_append] at h1 h2
    unfold_gen Gen.MathUtils
    simp [h1, h2]

end C20G
