-- tie T for C12: the integer logic of the vint64 size encoding as regenerated from
-- utils/core/src/serde/byte_writer.rs (`encoded_len`, the word written by `write_usize`) and byte_reader.rs
-- (the length `read_usize` reads off the first byte, the shift that extracts the value) on this run
-- (Winter/Gen/Serde.lean) coincides with the hand-written model of Winter/Model/Serde.lean, for all arguments.
-- The byte I/O around these expressions (`write_u8`, `write_bytes`, `peek_u8`, `read_slice`, …) is not
-- translated: `writeUsizeG` / `readUsizeG` (Winter/Model/SerdeGen.lean) are the model functions with exactly the integer parts
-- replaced by the regenerated definitions, and are proved equal to the model functions.
import Winter.Model.SerdeGen
import WinterProofs.Lemmas.GenTactic

namespace C12G
open Model Model.Serde

theorem ctz_eq_tz : ∀ (k b : Nat), Gen.ctz k b = tz k b := by
  intro k
  induction k with
  | zero => intro b; rfl
  | succ k ih => intro b; unfold Gen.ctz tz; rw [ih]; split <;> omega

/-- ★ `encoded_len` (regenerated: `leading_zeros`, `saturating_sub(1) / 7`, `9 - min(len, 8)`) is the model's
    `encodedLen` for ALL arguments, and never panics -/
theorem gen_encoded_len_eq (v : Nat) :
    Gen.Serde.encoded_len v = encodedLen v ∧ Gen.Serde.encoded_len_ok v = true := by
  unfold encodedLen
  unfold_gen Gen.Serde
  constructor
  · rfl
  · simp only [Bool.and_eq_true, decide_eq_true_eq]; omega

/-- ★ the word whose low `length` bytes `write_usize` writes (regenerated `(value << 1 | 1) << (length - 1)`) is
    the model's, for ALL arguments; the shift does not panic exactly when `1 ≤ length ≤ 64` -/
theorem gen_write_word_eq (v l : Nat) :
    Gen.Serde.write_usize_word v l =
      ((v * 2 % 18446744073709551616) ||| 1) <<< (l - 1) % 18446744073709551616 ∧
    (Gen.Serde.write_usize_word_ok v l = true ↔ (1 ≤ l ∧ l - 1 < 64)) := by
  unfold_gen Gen.Serde
  constructor <;> simp [Nat.shiftLeft_eq]

/-- ★ the length `read_usize` derives from the first byte (regenerated `trailing_zeros() as usize + 1`) -/
theorem gen_read_length_eq (b : Nat) :
    Gen.Serde.read_usize_length b = trailingZeros8 b + 1 ∧ Gen.Serde.read_usize_length_ok b = true := by
  have hle : ∀ (k b : Nat), tz k b ≤ k := by
    intro k
    induction k with
    | zero => intro b; simp [tz]
    | succ k ih => intro b; unfold tz; split
                   · omega
                   · have := ih (b / 2); omega
  unfold trailingZeros8
  unfold_gen Gen.Serde
  simp only [ctz_eq_tz, decide_eq_true_eq]
  exact ⟨trivial, by have := hle 8 b; omega⟩

/-- ★ the value `read_usize` extracts (regenerated `u64::from_le_bytes(encoded) >> length`); the shift does not
    panic exactly when `length < 64` -/
theorem gen_read_value_eq (x l : Nat) :
    Gen.Serde.read_usize_value x l = x >>> l ∧ (Gen.Serde.read_usize_value_ok x l = true ↔ l < 64) := by
  unfold_gen Gen.Serde
  constructor <;> simp [Nat.shiftRight_eq_div_pow]

/-- ★ the model's `writeUsize` IS `write_usize` over the regenerated integer logic -/
theorem writeUsize_eq_gen (v : Nat) : writeUsize v = writeUsizeG v := by
  unfold writeUsize writeUsizeG
  simp only [(gen_encoded_len_eq _).1, (gen_write_word_eq _ _).1]

/-- ★ the model's `readUsize` IS `read_usize` over the regenerated integer logic -/
theorem readUsize_eq_gen : readUsize = readUsizeG := by
  unfold readUsize readUsizeG
  simp only [(gen_read_length_eq _).1, (gen_read_value_eq _ _).1]

/-- ★ no checked-build panic in the regenerated integer parts on any path the two methods take: the shift
    amounts are in range whenever the non-9-byte branch is taken -/
theorem gen_vint64_no_panic (v b x : Nat) :
    (Gen.Serde.encoded_len v ≠ 9 → Gen.Serde.write_usize_word_ok v (Gen.Serde.encoded_len v) = true) ∧
    (Gen.Serde.read_usize_length b ≠ 9 →
      Gen.Serde.read_usize_value_ok x (Gen.Serde.read_usize_length b) = true) := by
  constructor
  · intro h
    rw [(gen_write_word_eq _ _).2]
    rw [(gen_encoded_len_eq v).1] at h ⊢
    unfold encodedLen at h ⊢
    simp only [] at h ⊢
    omega
  · intro h
    rw [(gen_read_value_eq _ _).2]
    have := (gen_read_length_eq b).2
    have e := (gen_read_length_eq b).1
    have hle : ∀ (k b : Nat), tz k b ≤ k := by
      intro k
      induction k with
      | zero => intro b; simp [tz]
      | succ k ih => intro b; unfold tz; split
                     · omega
                     · have := ih (b / 2); omega
    have := hle 8 b
    unfold trailingZeros8 at e
    omega

end C12G
