-- tie T for C12: the integer logic of the vint64 size encoding as regenerated from
-- utils/core/src/serde/byte_writer.rs (`encoded_len`, the word written by `write_usize`) and byte_reader.rs
-- (the length `read_usize` reads off the first byte, the shift that extracts the value) on this run
-- (Winter/Gen/Serde.lean) coincides with the hand-written model of Winter/Model/Serde.lean, for all arguments.
-- The byte I/O around these expressions (`write_u8`, `write_bytes`, `peek_u8`, `read_slice`, …) is not
-- translated: `writeUsizeG` / `readUsizeG` (Winter/Model/SerdeGen.lean) are the model functions with exactly the integer parts
-- replaced by the regenerated definitions, and are proved equal to the model functions.
import Winter.Model.SerdeGen
import WinterProofs.Lemmas.GenTactic

namespace C12G
open Model Model.Serde

theorem ctz_eq_tz : ∀ (k b : Nat), Gen.ctz k b = tz k b := by
  intro k
  induction k with
  | zero => intro b; rfl
  | succ k ih => intro b; unfold Gen.ctz tz; rw [ih]; split <;> omega

/-- ★ `encoded_len` (regenerated: `leading_zeros`, `saturating_sub(1) / 7`, `9 - min(len, 8)`) is the model's
    `encodedLen` for ALL arguments, and never panics -/
theorem gen_encoded_len_eq (v : Nat) :
    Gen.Serde.encoded_len v = encodedLen v ∧ Gen.Serde.encoded_len_ok v = true := by
  unfold encodedLen
  unfold_gen Gen.Serde
  constructor
  · rfl
  · simp only [Bool.and_eq_true, decide_eq_true_eq]; omega

/-- ★ the word whose low `length` bytes `write_usize` writes (regenerated `(value << 1 | 1) << (length - 1)`) is
    the model's, for ALL arguments; the shift does not panic exactly when `1 ≤ length ≤ 64` -/
theorem gen_write_word_eq (v l : Nat) :
    Gen.Serde.write_usize_word v l =
      ((v * 2 % 18446744073709551616) ||| 1) <<< (l - 1) % 18446744073709551616 ∧
    (Gen.Serde.write_usize_word_ok v l = true ↔ (1 ≤ l ∧ l - 1 < 64)) := by
  unfold_gen Gen.Serde
  constructor <;> simp [Nat.shiftLeft_eq]

/-- ★ the length `read_usize` derives from the first byte (regenerated `trailing_zeros() as usize + 1`) -/
theorem gen_read_length_eq (b : Nat) :
    Gen.Serde.read_usize_length b = trailingZeros8 b + 1 ∧ Gen.Serde.read_usize_length_ok b = true := by
  have hle : ∀ (k b : Nat), tz k b ≤ k := by
    intro k
    induction k with
    | zero => intro b; simp [tz]
    | succ k ih => intro b; unfold tz; split
                   · omega
                   · have := ih (b / 2); omega
  unfold trailingZeros8
  unfold_gen Gen.Serde
  simp only [ctz_eq_tz, decide_eq_true_eq]
  exact ⟨trivial, by have := hle 8 b; omega⟩

/-- ★ the value `read_usize` extracts (regenerated `u64::from_le_bytes(encoded) >> length`); the shift does not
    panic exactly when `length < 64` -/
theorem gen_read_value_eq (x l : Nat) :
    Gen.Serde.read_usize_value x l = x >>> l ∧ (Gen.Serde.read_usize_value_ok x l = true ↔ l < 64) := by
  unfold_gen Gen.Serde
  constructor <;> simp [Nat.shiftRight_eq_div_pow]

/-- ★ the model's `writeUsize` IS `write_usize` over the regenerated integer logic -/
theorem writeUsize_eq_gen (v : Nat) : writeUsize v = writeUsizeG v := by
  unfold writeUsize writeUsizeG
  simp only [(gen_encoded_len_eq _).1, (gen_write_word_eq _ _).1]

/-- ★ the model's `readUsize` IS `read_usize` over the regenerated integer logic -/
theorem readUsize_eq_gen : readUsize = readUsizeG := by
  unfold readUsize readUsizeG
  simp only [(gen_read_length_eq _).1, (gen_read_value_eq _ _).1]

/-- ★ no checked-build panic in the regenerated integer parts on any path the two methods take: the shift
    amounts are in range whenever the non-9-byte branch is taken -/
theorem gen_vint64_no_panic (v b x : Nat) :
    (Gen.Serde.encoded_len v ≠ 9 → Gen.Serde.write_usize_word_ok v (Gen.Serde.encoded_len v) = true) ∧
    (Gen.Serde.read_usize_length b ≠ 9 →
      Gen.Serde.read_usize_value_ok x (Gen.Serde.read_usize_length b) = true) := by
  constructor
  · intro h
    rw [(gen_write_word_eq _ _).2]
    rw [(gen_encoded_len_eq v).1] at h ⊢
    unfold encodedLen at h ⊢
    simp only [] at h ⊢
    omega
  · intro h
    rw [(gen_read_value_eq _ _).2]
    have := (gen_read_length_eq b).2
    have e := (gen_read_length_eq b).1
    have hle : ∀ (k b : Nat), tz k b ≤ k := by
      intro k
      induction k with
      | zero => intro b; simp [tz]
      | succ k ih => intro b; unfold tz; split
                     · omega
                     · have := ih (b / 2); omega
    have := hle 8 b
    unfold trailingZeros8 at e
    omega

/-! ## `read_from` guards of `TraceInfo`, `ProofOptions`, `Context` (Winter/Gen/ReadGuards.lean) -/
open Gen.Limits

theorem pow2_eq (x : Nat) : Gen.isPow2 x = pow2 x := by
  unfold Gen.isPow2 pow2
  rw [Bool.eq_iff_iff]
  simp only [Bool.and_eq_true, bne_iff_ne, beq_iff_eq]
  exact ⟨fun ⟨a, b⟩ => ⟨a, b.symm⟩, fun ⟨a, b⟩ => ⟨a, b.symm⟩⟩

/-- ★ the guards of `TraceInfo::read_from` as regenerated on this run, for ALL arguments: which
    (main, aux, rands, log2 length) bytes are refused, `checked_shl`, and the final constructor's assertions -/
theorem gen_trace_info_guards (main aux rands e n : Nat) (_md : Bytes) :
    Gen.ReadGuards.trace_info_main_zero main = decide (main = 0) ∧
    Gen.ReadGuards.trace_info_too_wide (Gen.ReadGuards.trace_info_full_width main aux)
      = decide (main + aux > MAX_TRACE_WIDTH) ∧
    Gen.ReadGuards.trace_info_rands_without_aux aux rands = decide (aux = 0 ∧ rands ≠ 0) ∧
    Gen.ReadGuards.trace_info_too_many_rands rands = decide (rands > MAX_RAND_SEGMENT_ELEMENTS) ∧
    Gen.ReadGuards.trace_info_too_short e = decide (e < MIN_TRACE_LENGTH.log2) ∧
    Gen.ReadGuards.trace_info_length e = (decide (e < 64), 2 ^ e % 18446744073709551616) ∧
    Gen.ReadGuards.trace_info_has_meta n = decide (n ≠ 0) := by
  have h8 : Nat.log2 8 = 3 := by decide
  unfold MAX_TRACE_WIDTH MAX_RAND_SEGMENT_ELEMENTS MIN_TRACE_LENGTH
  unfold_gen Gen.ReadGuards
  simp [h8]

/-- ★ `TraceInfo::new_multi_segment` (regenerated) is the model's `TraceInfo.wf` for every trace length a
    `usize` holds -/
theorem gen_trace_info_new_eq_wf (t : TraceInfo) (h : t.length < 18446744073709551616) :
    Gen.TraceInfo.new_multi_segment_ok t.main t.aux t.rands t.length t.metadata = t.wf := by
  unfold TraceInfo.wf MIN_TRACE_LENGTH MAX_META_LENGTH MAX_TRACE_WIDTH MAX_RAND_SEGMENT_ELEMENTS
  unfold_gen Gen.TraceInfo
  simp only [pow2_eq, gt_iff_lt, ge_iff_le]
  rw [Bool.eq_iff_iff]
  simp only [Bool.and_eq_true, Bool.or_eq_true, decide_eq_true_eq, bne_iff_ne, beq_iff_eq, ne_eq]
  constructor <;> intro hh <;> grind

theorem dbind_congr {α β : Type} {d : Dec α} {f g : α → Dec β} (h : ∀ a, f a = g a) :
    (d >>= f) = (d >>= g) := by
  have : f = g := funext h
  rw [this]

/-- ★ the model's `TraceInfo` decoder IS `read_from` over the regenerated guards -/
theorem traceInfo_dec_eq_gen : traceInfo.dec = traceInfoDecG := by
  have g1 : ∀ main, Gen.ReadGuards.trace_info_main_zero main = decide (main = 0) :=
    fun main => (gen_trace_info_guards main 0 0 0 0 []).1
  have g2 : ∀ main aux, Gen.ReadGuards.trace_info_too_wide (Gen.ReadGuards.trace_info_full_width main aux)
      = decide (main + aux > MAX_TRACE_WIDTH) := fun main aux => (gen_trace_info_guards main aux 0 0 0 []).2.1
  have g3 : ∀ aux rands, Gen.ReadGuards.trace_info_rands_without_aux aux rands = decide (aux = 0 ∧ rands ≠ 0) :=
    fun aux rands => (gen_trace_info_guards 0 aux rands 0 0 []).2.2.1
  have g4 : ∀ rands, Gen.ReadGuards.trace_info_too_many_rands rands = decide (rands > MAX_RAND_SEGMENT_ELEMENTS) :=
    fun rands => (gen_trace_info_guards 0 0 rands 0 0 []).2.2.2.1
  have g5 : ∀ e, Gen.ReadGuards.trace_info_too_short e = decide (e < MIN_TRACE_LENGTH.log2) :=
    fun e => (gen_trace_info_guards 0 0 0 e 0 []).2.2.2.2.1
  have g6 : ∀ e, Gen.ReadGuards.trace_info_length e = (decide (e < 64), 2 ^ e % 18446744073709551616) :=
    fun e => (gen_trace_info_guards 0 0 0 e 0 []).2.2.2.2.2.1
  have g7 : ∀ n, Gen.ReadGuards.trace_info_has_meta n = decide (n ≠ 0) :=
    fun n => (gen_trace_info_guards 0 0 0 0 n []).2.2.2.2.2.2
  funext bs
  unfold traceInfoDecG
  show traceInfo.dec bs = _
  unfold traceInfo
  simp only [g1, g2, g3, g4, g5, g6, g7, decide_eq_true_eq, Bool.not_eq_true', decide_eq_false_iff_not, Nat.not_lt]
  refine congrFun (dbind_congr fun main => ?_) bs
  refine ite_congr rfl (fun _ => rfl) (fun _ => ?_)
  refine dbind_congr fun aux => ?_
  refine ite_congr rfl (fun _ => rfl) (fun _ => ?_)
  refine dbind_congr fun rands => ?_
  refine ite_congr rfl (fun _ => rfl) (fun _ => ?_)
  refine ite_congr rfl (fun _ => rfl) (fun _ => ?_)
  refine dbind_congr fun e => ?_
  refine ite_congr rfl (fun _ => rfl) (fun _ => ?_)
  refine ite_congr rfl (fun _ => rfl) (fun he => ?_)
  have hlt : 2 ^ e < 18446744073709551616 := by
    have : 2 ^ e < 2 ^ 64 := Nat.pow_lt_pow_right (by omega) (by omega)
    simpa using this
  rw [Nat.mod_eq_of_lt hlt]
  refine dbind_congr fun n => ?_
  refine dbind_congr fun md => ?_
  rw [← gen_trace_info_new_eq_wf ⟨main, aux, rands, 2 ^ e, md⟩ hlt]

/-- ★ the guards of `ProofOptions::read_from` as regenerated on this run, for ALL arguments -/
theorem gen_proof_options_guards (nq bl gr ff rd : Nat) :
    Gen.ReadGuards.proof_options_bad_queries nq = decide (nq = 0 ∨ nq > MAX_NUM_QUERIES) ∧
    Gen.ReadGuards.proof_options_bad_blowup bl =
      decide (¬ pow2 bl = true ∨ ¬ (MIN_BLOWUP_FACTOR ≤ bl ∧ bl ≤ MAX_BLOWUP_FACTOR)) ∧
    Gen.ReadGuards.proof_options_bad_grinding gr = decide (gr > MAX_GRINDING_FACTOR) ∧
    Gen.ReadGuards.proof_options_bad_folding ff =
      decide (¬ pow2 ff = true ∨ ¬ (FRI_MIN_FOLDING_FACTOR ≤ ff ∧ ff ≤ FRI_MAX_FOLDING_FACTOR)) ∧
    Gen.ReadGuards.proof_options_bad_remainder rd =
      decide (¬ pow2 (rd + 1) = true ∨ rd > FRI_MAX_REMAINDER_DEGREE) := by
  unfold MAX_NUM_QUERIES MIN_BLOWUP_FACTOR MAX_BLOWUP_FACTOR MAX_GRINDING_FACTOR FRI_MIN_FOLDING_FACTOR
    FRI_MAX_FOLDING_FACTOR FRI_MAX_REMAINDER_DEGREE
  unfold_gen Gen.ReadGuards
  simp [pow2_eq]

/-- ★ none of the five guards fires exactly when `ProofOptions::new` (regenerated) accepts, which is the model's
    `wf` for a valid field-extension byte: `read_from` never reaches a panicking constructor -/
theorem gen_proof_options_guards_iff (nq bl gr fe ff rd : Nat) (hfe : fext.wf fe = true) :
    ((Gen.ReadGuards.proof_options_bad_queries nq || Gen.ReadGuards.proof_options_bad_blowup bl ||
      Gen.ReadGuards.proof_options_bad_grinding gr || Gen.ReadGuards.proof_options_bad_folding ff ||
      Gen.ReadGuards.proof_options_bad_remainder rd) = false ↔ (⟨nq, bl, gr, fe, ff, rd⟩ : ProofOptions).wf = true) ∧
    (Gen.ProofOpts.new_ok nq bl gr fe ff rd = true ↔ (⟨nq, bl, gr, fe, ff, rd⟩ : ProofOptions).wf = true) := by
  obtain ⟨q1, q2, q3, q4, q5⟩ := gen_proof_options_guards nq bl gr ff rd
  rw [q1, q2, q3, q4, q5]
  unfold ProofOptions.wf MAX_NUM_QUERIES MIN_BLOWUP_FACTOR MAX_BLOWUP_FACTOR MAX_GRINDING_FACTOR
    FRI_MIN_FOLDING_FACTOR FRI_MAX_FOLDING_FACTOR FRI_MAX_REMAINDER_DEGREE
  unfold_gen Gen.ProofOpts
  simp only [pow2_eq, hfe, Bool.and_true, Bool.or_eq_false_iff, Bool.and_eq_true, decide_eq_true_eq,
    decide_eq_false_iff_not, gt_iff_lt, ge_iff_le]
  constructor <;> constructor <;> intro h <;> grind

theorem fext_bind_congr {β : Type} {f g : Nat → Dec β} (h : ∀ a, fext.wf a = true → f a = g a) :
    (fext.dec >>= f) = (fext.dec >>= g) := by
  funext bs
  show Dec.bind fext.dec f bs = Dec.bind fext.dec g bs
  unfold Dec.bind
  cases hd : fext.dec bs with
  | ok p =>
    obtain ⟨a, r⟩ := p
    have hw : fext.wf a = true := by
      unfold fext at hd ⊢
      cases bs with
      | nil => simp [bind, Dec.bind, readU8] at hd
      | cons b t =>
        simp only [bind, Dec.bind, readU8] at hd
        by_cases hb : b = 1 ∨ b = 2 ∨ b = 3
        · simp only [hb, if_true, pure, Dec.pure, Res.ok.injEq, Prod.mk.injEq] at hd
          rw [← hd.1]; rcases hb with h1 | h1 | h1 <;> simp [h1]
        · simp [hb, Dec.fail] at hd
    simp only []
    rw [h a hw]
  | err => rfl
  | eof => rfl
  | panic => rfl

/-- ★ the model's `ProofOptions` decoder IS `read_from` over the regenerated guards followed by the regenerated
    constructor -/
theorem proofOptions_dec_eq_gen : proofOptions.dec = proofOptionsDecG := by
  unfold proofOptionsDecG
  show proofOptions.dec = _
  unfold proofOptions
  simp only []
  refine dbind_congr fun nq => ?_
  refine dbind_congr fun bl => ?_
  refine dbind_congr fun gr => ?_
  refine fext_bind_congr fun fe hfe => ?_
  refine dbind_congr fun ff => ?_
  refine dbind_congr fun rd => ?_
  obtain ⟨k1, k2⟩ := gen_proof_options_guards_iff nq bl gr fe ff rd hfe
  by_cases hw : (⟨nq, bl, gr, fe, ff, rd⟩ : ProofOptions).wf = true
  · rw [if_pos hw, k1.mpr hw, k2.mpr hw]; rfl
  · have hb : (Gen.ReadGuards.proof_options_bad_queries nq || Gen.ReadGuards.proof_options_bad_blowup bl ||
        Gen.ReadGuards.proof_options_bad_grinding gr || Gen.ReadGuards.proof_options_bad_folding ff ||
        Gen.ReadGuards.proof_options_bad_remainder rd) = true := by
      cases hh : (Gen.ReadGuards.proof_options_bad_queries nq || Gen.ReadGuards.proof_options_bad_blowup bl ||
        Gen.ReadGuards.proof_options_bad_grinding gr || Gen.ReadGuards.proof_options_bad_folding ff ||
        Gen.ReadGuards.proof_options_bad_remainder rd) with
      | true => rfl
      | false => exact absurd (k1.mp hh) hw
    rw [if_neg hw, hb]; rfl

/-- ★ the guards of `Context::read_from` as regenerated on this run -/
theorem gen_context_guards (n len b lde : Nat) :
    Gen.ReadGuards.context_empty_modulus n = decide (n = 0) ∧
    Gen.ReadGuards.context_trace_too_long len = decide (len > 4294967295) ∧
    Gen.ReadGuards.context_lde len b = len * b ∧
    (Gen.ReadGuards.context_lde_ok len b = true ↔ len * b < 18446744073709551616) ∧
    Gen.ReadGuards.context_lde_too_big lde = decide (lde > 4294967295) := by
  unfold_gen Gen.ReadGuards
  simp

/-- ★ the model's `Context` decoder IS `read_from` over the regenerated guards -/
theorem context_dec_eq_gen : context.dec = contextDecG := by
  unfold contextDecG
  show context.dec = _
  unfold context
  simp only [(gen_context_guards _ 0 0 0).1, fun len => (gen_context_guards 0 len 0 0).2.1,
    fun len b => (gen_context_guards 0 len b 0).2.2.1, fun lde => (gen_context_guards 0 0 0 lde).2.2.2.2,
    decide_eq_true_eq, ← traceInfo_dec_eq_gen, ← proofOptions_dec_eq_gen]

end C12G
