-- C07 helper lemmas, 128-bit field: the translated inversion loops (Winter/Gen/F128Inv.lean, regenerated
-- from `fn inv` of math/src/field/f128/mod.rs on every run) on 64-bit limbs refine the loops of the
-- hand model on natural numbers.  This file: limb-level facts and the two innermost loops (no Mathlib).
import Winter.Gen.F128Inv
import Winter.Model.Field
import WinterProofs.Lemmas.C07F128
namespace WinterProofs.F128G
open Gen.F128 Gen.F128Inv WinterProofs.F128L

/-- three 64-bit limbs representing the natural number `n` -/
def Rep (l0 l1 l2 n : Nat) : Prop :=
  l0 < 18446744073709551616 ∧ l1 < 18446744073709551616 ∧ l2 < 18446744073709551616 ∧
    n = l0 + l1 * 18446744073709551616 + l2 * 340282366920938463463374607431768211456

theorem or_hi (a b : Nat) (ha : a < 9223372036854775808) (hb : b ≤ 1) :
    a ||| (b * 9223372036854775808 % 18446744073709551616) = a + b * 9223372036854775808 := by
  have hb' : b * 9223372036854775808 % 18446744073709551616 = b * 9223372036854775808 := by omega
  rw [hb']
  rcases Nat.le_one_iff_eq_zero_or_eq_one.1 hb with rfl | rfl
  · rw [Nat.zero_mul, Nat.or_zero, Nat.add_zero]
  · have e : (2 : Nat) ^ 63 = 9223372036854775808 := by decide
    have := Nat.two_pow_add_eq_or_of_lt (i := 63) (b := a) (by rw [e]; exact ha) 1
    rw [e] at this
    rw [Nat.or_comm, Nat.one_mul, ← Nat.mul_one 9223372036854775808, ← this]
    omega

theorem and_one (a : Nat) : a &&& 1 = a % 2 := Nat.and_one_is_mod a

/-- the 192-bit right shift by one -/
theorem shr_rep (l0 l1 l2 n : Nat) (h : Rep l0 l1 l2 n) :
    Rep ((l0 / 2) ||| ((l1 &&& 1) * 9223372036854775808 % 18446744073709551616))
      ((l1 / 2) ||| ((l2 &&& 1) * 9223372036854775808 % 18446744073709551616)) (l2 / 2) (n / 2) := by
  obtain ⟨h0, h1, h2, hn⟩ := h
  rw [and_one, and_one, or_hi _ _ (by omega) (by omega), or_hi _ _ (by omega) (by omega)]
  refine ⟨by omega, by omega, by omega, ?_⟩
  subst hn
  omega

theorem repM : Rep (340282366920938463463374557953744961537 % 18446744073709551616)
    ((340282366920938463463374557953744961537 / 18446744073709551616) % 18446744073709551616) 0
    340282366920938463463374557953744961537 := by
  unfold Rep; omega

theorem rep128 (v : Nat) (hv : v < 340282366920938463463374607431768211456) :
    Rep (v % 18446744073709551616) ((v / 18446744073709551616) % 18446744073709551616) 0 v := by
  unfold Rep; omega

theorem add_rep (a0 a1 a2 b0 b1 b2 na nb : Nat) (ha : Rep a0 a1 a2 na) (hb : Rep b0 b1 b2 nb)
    (hs : na + nb < 6277101735386680763835789423207666416102355444464034512896) :
    ∃ e0 e1 e2, add_192x192 a0 a1 a2 b0 b1 b2 = (e0, e1, e2) ∧ Rep e0 e1 e2 (na + nb) ∧
      add_192x192_ok a0 a1 a2 b0 b1 b2 = true := by
  obtain ⟨ha0, ha1, ha2, hna⟩ := ha
  obtain ⟨hb0, hb1, hb2, hnb⟩ := hb
  obtain ⟨r0, r1, r2, k, he, hr0, hr1, hr2, hk, hv, hok⟩ := add_192x192_spec a0 a1 a2 b0 b1 b2 ha0 ha1 ha2 hb0 hb1 hb2
  rw [val3_mk, val3_mk, val3_mk] at hv
  refine ⟨r0, r1, r2, he, ⟨hr0, hr1, hr2, ?_⟩, hok⟩
  subst hna hnb
  clear he hok
  omega

theorem sub_rep (a0 a1 a2 b0 b1 b2 na nb : Nat) (ha : Rep a0 a1 a2 na) (hb : Rep b0 b1 b2 nb)
    (hs : nb ≤ na) :
    ∃ e0 e1 e2, sub_192x192 a0 a1 a2 b0 b1 b2 = (e0, e1, e2) ∧ Rep e0 e1 e2 (na - nb) ∧
      sub_192x192_ok a0 a1 a2 b0 b1 b2 = true := by
  obtain ⟨ha0, ha1, ha2, hna⟩ := ha
  obtain ⟨hb0, hb1, hb2, hnb⟩ := hb
  have hge : val3 (b0, b1, b2) ≤ val3 (a0, a1, a2) := by
    rw [val3_mk, val3_mk, ← hna, ← hnb]; exact hs
  obtain ⟨r0, r1, r2, he, hr0, hr1, hr2, hv, hok⟩ := sub_192x192_spec a0 a1 a2 b0 b1 b2 ha0 ha1 ha2 hb0 hb1 hb2 hge
  rw [val3_mk, val3_mk, val3_mk] at hv
  refine ⟨r0, r1, r2, he, ⟨hr0, hr1, hr2, ?_⟩, hok⟩
  subst hna hnb
  clear he hok hge
  omega

/-! ### innermost loop: halve `u`, fix `d` -/

def shr0 (a b : Nat) : Nat := (a / 2) ||| ((b &&& 1) * 9223372036854775808 % 18446744073709551616)
def sel (x : Nat) (c : Bool) (y : Nat) : Nat := if c = true then y else x


/-! ### innermost loop: halve `u`, fix `d` -/

theorem par_rep (l0 l1 l2 n : Nat) (h : Rep l0 l1 l2 n) : (l0 &&& 1) = n % 2 := by
  obtain ⟨_, _, _, hn⟩ := h
  rw [and_one]; omega


theorem B3_ok_spec (u0 u1 u2 d0 d1 d2 t0 t1 t2 : Nat)
    (heok : add_192x192_ok d0 d1 d2 (340282366920938463463374557953744961537 % 18446744073709551616)
      (340282366920938463463374557953744961537 / 18446744073709551616 % 18446744073709551616) 0 = true) :
    inv.loop1_body.loop1_body.loop1_body_ok u0 u1 u2 d0 d1 d2 t0 t1 t2 = true := by
  unfold inv.loop1_body.loop1_body.loop1_body_ok
  dsimp only
  exact decide_eq_true (fun _ => heok)

theorem B3_eq_true (u0 u1 u2 d0 d1 d2 t0 t1 t2 e0 e1 e2 : Nat)
    (he : add_192x192 d0 d1 d2 (340282366920938463463374557953744961537 % 18446744073709551616)
      (340282366920938463463374557953744961537 / 18446744073709551616 % 18446744073709551616) 0 = (e0, e1, e2))
    (hcc : inv.loop1_body.loop1_body.loop1_body.s_c d0 = true) :
    inv.loop1_body.loop1_body.loop1_body u0 u1 u2 d0 d1 d2 t0 t1 t2 =
      (u0 / 2 ||| (u1 &&& 1) * 9223372036854775808 % 18446744073709551616,
      u1 / 2 ||| (u2 &&& 1) * 9223372036854775808 % 18446744073709551616, u2 / 2,
      e0 / 2 ||| (e1 &&& 1) * 9223372036854775808 % 18446744073709551616,
      e1 / 2 ||| (e2 &&& 1) * 9223372036854775808 % 18446744073709551616, e2 / 2) := by
  unfold inv.loop1_body.loop1_body.loop1_body
  dsimp only [inv.loop1_body.loop1_body.loop1_body.s_r]
  rewrite [he, hcc]
  dsimp only [inv.loop1_body.loop1_body.loop1_body.s_t0_1, inv.loop1_body.loop1_body.loop1_body.s_t1_1,
      inv.loop1_body.loop1_body.loop1_body.s_t2_1, inv.loop1_body.loop1_body.loop1_body.s_d0_1,
      inv.loop1_body.loop1_body.loop1_body.s_d1_1, inv.loop1_body.loop1_body.loop1_body.s_d2_1,
      inv.loop1_body.loop1_body.loop1_body.s_d0_2, inv.loop1_body.loop1_body.loop1_body.s_d1_2,
      inv.loop1_body.loop1_body.loop1_body.s_d2_2, inv.loop1_body.loop1_body.loop1_body.s_u0_1,
      inv.loop1_body.loop1_body.loop1_body.s_u1_1, inv.loop1_body.loop1_body.loop1_body.s_u2_1,
      inv.loop1_body.loop1_body.loop1_body.s_d0_3, inv.loop1_body.loop1_body.loop1_body.s_d1_3,
      inv.loop1_body.loop1_body.loop1_body.s_d2_3]
  exact rfl

theorem B3_eq_false (u0 u1 u2 d0 d1 d2 t0 t1 t2 e0 e1 e2 : Nat)
    (he : add_192x192 d0 d1 d2 (340282366920938463463374557953744961537 % 18446744073709551616)
      (340282366920938463463374557953744961537 / 18446744073709551616 % 18446744073709551616) 0 = (e0, e1, e2))
    (hcc : inv.loop1_body.loop1_body.loop1_body.s_c d0 = false) :
    inv.loop1_body.loop1_body.loop1_body u0 u1 u2 d0 d1 d2 t0 t1 t2 =
      (u0 / 2 ||| (u1 &&& 1) * 9223372036854775808 % 18446744073709551616,
      u1 / 2 ||| (u2 &&& 1) * 9223372036854775808 % 18446744073709551616, u2 / 2,
      d0 / 2 ||| (d1 &&& 1) * 9223372036854775808 % 18446744073709551616,
      d1 / 2 ||| (d2 &&& 1) * 9223372036854775808 % 18446744073709551616, d2 / 2) := by
  unfold inv.loop1_body.loop1_body.loop1_body
  dsimp only [inv.loop1_body.loop1_body.loop1_body.s_r]
  rewrite [he, hcc]
  dsimp only [inv.loop1_body.loop1_body.loop1_body.s_t0_1, inv.loop1_body.loop1_body.loop1_body.s_t1_1,
      inv.loop1_body.loop1_body.loop1_body.s_t2_1, inv.loop1_body.loop1_body.loop1_body.s_d0_1,
      inv.loop1_body.loop1_body.loop1_body.s_d1_1, inv.loop1_body.loop1_body.loop1_body.s_d2_1,
      inv.loop1_body.loop1_body.loop1_body.s_d0_2, inv.loop1_body.loop1_body.loop1_body.s_d1_2,
      inv.loop1_body.loop1_body.loop1_body.s_d2_2, inv.loop1_body.loop1_body.loop1_body.s_u0_1,
      inv.loop1_body.loop1_body.loop1_body.s_u1_1, inv.loop1_body.loop1_body.loop1_body.s_u2_1,
      inv.loop1_body.loop1_body.loop1_body.s_d0_3, inv.loop1_body.loop1_body.loop1_body.s_d1_3,
      inv.loop1_body.loop1_body.loop1_body.s_d2_3]
  exact rfl

theorem B3_spec (u0 u1 u2 d0 d1 d2 t0 t1 t2 u d : Nat) (hu : Rep u0 u1 u2 u) (hd : Rep d0 d1 d2 d)
    (hdb : d + 340282366920938463463374557953744961537 < 6277101735386680763835789423207666416102355444464034512896) :
    ∃ u0' u1' u2' d0' d1' d2',
      inv.loop1_body.loop1_body.loop1_body u0 u1 u2 d0 d1 d2 t0 t1 t2 = (u0', u1', u2', d0', d1', d2') ∧
      Rep u0' u1' u2' (u / 2) ∧
      Rep d0' d1' d2' ((if d % 2 = 1 then d + 340282366920938463463374557953744961537 else d) / 2) ∧
      inv.loop1_body.loop1_body.loop1_body_ok u0 u1 u2 d0 d1 d2 t0 t1 t2 = true := by
  obtain ⟨e0, e1, e2, he, hre, heok⟩ := add_rep d0 d1 d2 _ _ _ d _ hd repM hdb
  have hpar := par_rep _ _ _ _ hd
  have hok := B3_ok_spec u0 u1 u2 d0 d1 d2 t0 t1 t2 heok
  by_cases hc : d % 2 = 1
  · have hcc : inv.loop1_body.loop1_body.loop1_body.s_c d0 = true := by
      unfold inv.loop1_body.loop1_body.loop1_body.s_c
      exact decide_eq_true (by rw [hpar]; exact hc)
    rw [if_pos hc]
    exact ⟨_, _, _, _, _, _, B3_eq_true u0 u1 u2 d0 d1 d2 t0 t1 t2 e0 e1 e2 he hcc,
      shr_rep _ _ _ _ hu, shr_rep _ _ _ _ hre, hok⟩
  · have hcc : inv.loop1_body.loop1_body.loop1_body.s_c d0 = false := by
      unfold inv.loop1_body.loop1_body.loop1_body.s_c
      exact decide_eq_false (by rw [hpar]; exact hc)
    rw [if_neg hc]
    exact ⟨_, _, _, _, _, _, B3_eq_false u0 u1 u2 d0 d1 d2 t0 t1 t2 e0 e1 e2 he hcc,
      shr_rep _ _ _ _ hu, shr_rep _ _ _ _ hd, hok⟩

theorem L3_zero (c0 c1 c2 x0 x1 x2 x3 x4 x5 : Nat) :
    inv.loop1_body.loop1_body.loop1 c0 c1 c2 0 x0 x1 x2 x3 x4 x5 = (x0, x1, x2, x3, x4, x5) := rfl

theorem L3_succ (c0 c1 c2 F x0 x1 x2 x3 x4 x5 : Nat) :
    inv.loop1_body.loop1_body.loop1 c0 c1 c2 (F + 1) x0 x1 x2 x3 x4 x5 =
      if inv.loop1_body.loop1_body.loop1_cond x0 x1 x2 x3 x4 x5 c0 c1 c2 = true then
        inv.loop1_body.loop1_body.loop1 c0 c1 c2 F
          (inv.loop1_body.loop1_body.loop1_body x0 x1 x2 x3 x4 x5 c0 c1 c2).1
          (inv.loop1_body.loop1_body.loop1_body x0 x1 x2 x3 x4 x5 c0 c1 c2).2.1
          (inv.loop1_body.loop1_body.loop1_body x0 x1 x2 x3 x4 x5 c0 c1 c2).2.2.1
          (inv.loop1_body.loop1_body.loop1_body x0 x1 x2 x3 x4 x5 c0 c1 c2).2.2.2.1
          (inv.loop1_body.loop1_body.loop1_body x0 x1 x2 x3 x4 x5 c0 c1 c2).2.2.2.2.1
          (inv.loop1_body.loop1_body.loop1_body x0 x1 x2 x3 x4 x5 c0 c1 c2).2.2.2.2.2
      else (x0, x1, x2, x3, x4, x5) := rfl

theorem L3_ok_zero (c0 c1 c2 x0 x1 x2 x3 x4 x5 : Nat) :
    inv.loop1_body.loop1_body.loop1_ok c0 c1 c2 0 x0 x1 x2 x3 x4 x5 = true := rfl

theorem L3_ok_succ (c0 c1 c2 F x0 x1 x2 x3 x4 x5 : Nat) :
    inv.loop1_body.loop1_body.loop1_ok c0 c1 c2 (F + 1) x0 x1 x2 x3 x4 x5 =
      (inv.loop1_body.loop1_body.loop1_cond_ok x0 x1 x2 x3 x4 x5 c0 c1 c2 &&
      (if inv.loop1_body.loop1_body.loop1_cond x0 x1 x2 x3 x4 x5 c0 c1 c2 = true then
        inv.loop1_body.loop1_body.loop1_body_ok x0 x1 x2 x3 x4 x5 c0 c1 c2 &&
        inv.loop1_body.loop1_body.loop1_ok c0 c1 c2 F
          (inv.loop1_body.loop1_body.loop1_body x0 x1 x2 x3 x4 x5 c0 c1 c2).1
          (inv.loop1_body.loop1_body.loop1_body x0 x1 x2 x3 x4 x5 c0 c1 c2).2.1
          (inv.loop1_body.loop1_body.loop1_body x0 x1 x2 x3 x4 x5 c0 c1 c2).2.2.1
          (inv.loop1_body.loop1_body.loop1_body x0 x1 x2 x3 x4 x5 c0 c1 c2).2.2.2.1
          (inv.loop1_body.loop1_body.loop1_body x0 x1 x2 x3 x4 x5 c0 c1 c2).2.2.2.2.1
          (inv.loop1_body.loop1_body.loop1_body x0 x1 x2 x3 x4 x5 c0 c1 c2).2.2.2.2.2
      else true)) := rfl

theorem L3_cond_iff (x0 x1 x2 x3 x4 x5 c0 c1 c2 u : Nat) (hu : Rep x0 x1 x2 u) :
    inv.loop1_body.loop1_body.loop1_cond x0 x1 x2 x3 x4 x5 c0 c1 c2 = true ↔ u % 2 = 0 := by
  unfold inv.loop1_body.loop1_body.loop1_cond
  rw [decide_eq_true_eq, par_rep _ _ _ _ hu]

/-- the innermost loop refines `Model.F128.halve` on the pair `(u, d)` -/
theorem halve_sim_u : ∀ (f u d u' d' u0 u1 u2 d0 d1 d2 : Nat),
    Model.F128.halve f u d = .done (u', d') → Rep u0 u1 u2 u → Rep d0 d1 d2 d →
    d < 1393796574908163946345982392040522594123776 →
    ∀ (F c0 c1 c2 : Nat), f ≤ F →
    ∃ u0' u1' u2' d0' d1' d2',
      inv.loop1_body.loop1_body.loop1 c0 c1 c2 F u0 u1 u2 d0 d1 d2 = (u0', u1', u2', d0', d1', d2') ∧
      Rep u0' u1' u2' u' ∧ Rep d0' d1' d2' d' ∧
      inv.loop1_body.loop1_body.loop1_ok c0 c1 c2 F u0 u1 u2 d0 d1 d2 = true := by
  intro f
  induction f with
  | zero =>
    intro u d u' d' u0 u1 u2 d0 d1 d2 h
    unfold Model.F128.halve at h
    exact absurd h (by intro h; cases h)
  | succ f ih =>
    intro u d u' d' u0 u1 u2 d0 d1 d2 h hu hd hdb F c0 c1 c2 hF
    obtain ⟨F', rfl⟩ : ∃ F', F = F' + 1 := ⟨F - 1, by omega⟩
    unfold Model.F128.halve at h
    by_cases he : u % 2 = 0
    · rw [if_pos he] at h
      dsimp only at h
      have hcond := (L3_cond_iff u0 u1 u2 d0 d1 d2 c0 c1 c2 u hu).2 he
      obtain ⟨a0, a1, a2, b0, b1, b2, hB, hru, hrd, hBok⟩ :=
        B3_spec u0 u1 u2 d0 d1 d2 c0 c1 c2 u d hu hd (by omega)
      have hM : Gen.F128.M = 340282366920938463463374557953744961537 := rfl
      rw [hM] at h
      obtain ⟨u0', u1', u2', d0', d1', d2', hL, hru', hrd', hLok⟩ :=
        ih _ _ u' d' a0 a1 a2 b0 b1 b2 h hru hrd (by split <;> omega) F' c0 c1 c2 (by omega)
      refine ⟨u0', u1', u2', d0', d1', d2', ?_, hru', hrd', ?_⟩
      · rewrite [L3_succ, if_pos hcond, hB]
        exact hL
      · rewrite [L3_ok_succ, if_pos hcond, hB, hBok]
        dsimp only
        rewrite [hLok]
        rfl
    · rw [if_neg he] at h
      have hcond : ¬ inv.loop1_body.loop1_body.loop1_cond u0 u1 u2 d0 d1 d2 c0 c1 c2 = true :=
        fun hc => he ((L3_cond_iff u0 u1 u2 d0 d1 d2 c0 c1 c2 u hu).1 hc)
      injection h with h
      injection h with h1 h2
      subst h1 h2
      refine ⟨u0, u1, u2, d0, d1, d2, ?_, hu, hd, ?_⟩
      · rewrite [L3_succ, if_neg hcond]
        rfl
      · rewrite [L3_ok_succ, if_neg hcond]
        rfl

/-! ### the loop halving `v` (a `u128`) and fixing `a` -/

theorem Bv_ok_spec (v a0 a1 a2 t0 t1 t2 : Nat)
    (heok : add_192x192_ok a0 a1 a2 (340282366920938463463374557953744961537 % 18446744073709551616)
      (340282366920938463463374557953744961537 / 18446744073709551616 % 18446744073709551616) 0 = true) :
    inv.loop1_body.loop2_body_ok v a0 a1 a2 t0 t1 t2 = true := by
  unfold inv.loop1_body.loop2_body_ok
  dsimp only
  exact decide_eq_true (fun _ => heok)

theorem Bv_eq_true (v a0 a1 a2 t0 t1 t2 e0 e1 e2 : Nat)
    (he : add_192x192 a0 a1 a2 (340282366920938463463374557953744961537 % 18446744073709551616)
      (340282366920938463463374557953744961537 / 18446744073709551616 % 18446744073709551616) 0 = (e0, e1, e2))
    (hcc : inv.loop1_body.loop2_body.s_c a0 = true) :
    inv.loop1_body.loop2_body v a0 a1 a2 t0 t1 t2 =
      (v / 2, e0 / 2 ||| (e1 &&& 1) * 9223372036854775808 % 18446744073709551616,
      e1 / 2 ||| (e2 &&& 1) * 9223372036854775808 % 18446744073709551616, e2 / 2) := by
  unfold inv.loop1_body.loop2_body
  dsimp only [inv.loop1_body.loop2_body.s_r]
  rewrite [he, hcc]
  dsimp only [inv.loop1_body.loop2_body.s_t0_1, inv.loop1_body.loop2_body.s_t1_1,
      inv.loop1_body.loop2_body.s_t2_1, inv.loop1_body.loop2_body.s_a0_1,
      inv.loop1_body.loop2_body.s_a1_1, inv.loop1_body.loop2_body.s_a2_1,
      inv.loop1_body.loop2_body.s_a0_2, inv.loop1_body.loop2_body.s_a1_2,
      inv.loop1_body.loop2_body.s_a2_2, inv.loop1_body.loop2_body.s_v_1,
      inv.loop1_body.loop2_body.s_a0_3, inv.loop1_body.loop2_body.s_a1_3,
      inv.loop1_body.loop2_body.s_a2_3]
  exact rfl

theorem Bv_eq_false (v a0 a1 a2 t0 t1 t2 e0 e1 e2 : Nat)
    (he : add_192x192 a0 a1 a2 (340282366920938463463374557953744961537 % 18446744073709551616)
      (340282366920938463463374557953744961537 / 18446744073709551616 % 18446744073709551616) 0 = (e0, e1, e2))
    (hcc : inv.loop1_body.loop2_body.s_c a0 = false) :
    inv.loop1_body.loop2_body v a0 a1 a2 t0 t1 t2 =
      (v / 2, a0 / 2 ||| (a1 &&& 1) * 9223372036854775808 % 18446744073709551616,
      a1 / 2 ||| (a2 &&& 1) * 9223372036854775808 % 18446744073709551616, a2 / 2) := by
  unfold inv.loop1_body.loop2_body
  dsimp only [inv.loop1_body.loop2_body.s_r]
  rewrite [he, hcc]
  dsimp only [inv.loop1_body.loop2_body.s_t0_1, inv.loop1_body.loop2_body.s_t1_1,
      inv.loop1_body.loop2_body.s_t2_1, inv.loop1_body.loop2_body.s_a0_1,
      inv.loop1_body.loop2_body.s_a1_1, inv.loop1_body.loop2_body.s_a2_1,
      inv.loop1_body.loop2_body.s_a0_2, inv.loop1_body.loop2_body.s_a1_2,
      inv.loop1_body.loop2_body.s_a2_2, inv.loop1_body.loop2_body.s_v_1,
      inv.loop1_body.loop2_body.s_a0_3, inv.loop1_body.loop2_body.s_a1_3,
      inv.loop1_body.loop2_body.s_a2_3]
  exact rfl

theorem Bv_spec (v a0 a1 a2 t0 t1 t2 a : Nat) (ha : Rep a0 a1 a2 a)
    (hab : a + 340282366920938463463374557953744961537 < 6277101735386680763835789423207666416102355444464034512896) :
    ∃ a0' a1' a2',
      inv.loop1_body.loop2_body v a0 a1 a2 t0 t1 t2 = (v / 2, a0', a1', a2') ∧
      Rep a0' a1' a2' ((if a % 2 = 1 then a + 340282366920938463463374557953744961537 else a) / 2) ∧
      inv.loop1_body.loop2_body_ok v a0 a1 a2 t0 t1 t2 = true := by
  obtain ⟨e0, e1, e2, he, hre, heok⟩ := add_rep a0 a1 a2 _ _ _ a _ ha repM hab
  have hpar := par_rep _ _ _ _ ha
  have hok := Bv_ok_spec v a0 a1 a2 t0 t1 t2 heok
  by_cases hc : a % 2 = 1
  · have hcc : inv.loop1_body.loop2_body.s_c a0 = true := by
      unfold inv.loop1_body.loop2_body.s_c
      exact decide_eq_true (by rw [hpar]; exact hc)
    rw [if_pos hc]
    exact ⟨_, _, _, Bv_eq_true v a0 a1 a2 t0 t1 t2 e0 e1 e2 he hcc, shr_rep _ _ _ _ hre, hok⟩
  · have hcc : inv.loop1_body.loop2_body.s_c a0 = false := by
      unfold inv.loop1_body.loop2_body.s_c
      exact decide_eq_false (by rw [hpar]; exact hc)
    rw [if_neg hc]
    exact ⟨_, _, _, Bv_eq_false v a0 a1 a2 t0 t1 t2 e0 e1 e2 he hcc, shr_rep _ _ _ _ ha, hok⟩

theorem Lv_succ (c0 c1 c2 F x0 x1 x2 x3 : Nat) :
    inv.loop1_body.loop2 c0 c1 c2 (F + 1) x0 x1 x2 x3 =
      if inv.loop1_body.loop2_cond x0 x1 x2 x3 c0 c1 c2 = true then
        inv.loop1_body.loop2 c0 c1 c2 F
          (inv.loop1_body.loop2_body x0 x1 x2 x3 c0 c1 c2).1
          (inv.loop1_body.loop2_body x0 x1 x2 x3 c0 c1 c2).2.1
          (inv.loop1_body.loop2_body x0 x1 x2 x3 c0 c1 c2).2.2.1
          (inv.loop1_body.loop2_body x0 x1 x2 x3 c0 c1 c2).2.2.2
      else (x0, x1, x2, x3) := rfl

theorem Lv_ok_succ (c0 c1 c2 F x0 x1 x2 x3 : Nat) :
    inv.loop1_body.loop2_ok c0 c1 c2 (F + 1) x0 x1 x2 x3 =
      (inv.loop1_body.loop2_cond_ok x0 x1 x2 x3 c0 c1 c2 &&
      (if inv.loop1_body.loop2_cond x0 x1 x2 x3 c0 c1 c2 = true then
        inv.loop1_body.loop2_body_ok x0 x1 x2 x3 c0 c1 c2 &&
        inv.loop1_body.loop2_ok c0 c1 c2 F
          (inv.loop1_body.loop2_body x0 x1 x2 x3 c0 c1 c2).1
          (inv.loop1_body.loop2_body x0 x1 x2 x3 c0 c1 c2).2.1
          (inv.loop1_body.loop2_body x0 x1 x2 x3 c0 c1 c2).2.2.1
          (inv.loop1_body.loop2_body x0 x1 x2 x3 c0 c1 c2).2.2.2
      else true)) := rfl

theorem Lv_cond_iff (v x1 x2 x3 c0 c1 c2 : Nat) :
    inv.loop1_body.loop2_cond v x1 x2 x3 c0 c1 c2 = true ↔ v % 2 = 0 := by
  unfold inv.loop1_body.loop2_cond
  rw [decide_eq_true_eq, and_one]

/-- the second inner loop refines `Model.F128.halve` on the pair `(v, a)` -/
theorem halve_sim_v : ∀ (f v a v' a' a0 a1 a2 : Nat),
    Model.F128.halve f v a = .done (v', a') → Rep a0 a1 a2 a →
    a < 1393796574908163946345982392040522594123776 →
    ∀ (F c0 c1 c2 : Nat), f ≤ F →
    ∃ a0' a1' a2',
      inv.loop1_body.loop2 c0 c1 c2 F v a0 a1 a2 = (v', a0', a1', a2') ∧
      Rep a0' a1' a2' a' ∧
      inv.loop1_body.loop2_ok c0 c1 c2 F v a0 a1 a2 = true := by
  intro f
  induction f with
  | zero =>
    intro v a v' a' a0 a1 a2 h
    unfold Model.F128.halve at h
    exact absurd h (by intro h; cases h)
  | succ f ih =>
    intro v a v' a' a0 a1 a2 h ha hab F c0 c1 c2 hF
    obtain ⟨F', rfl⟩ : ∃ F', F = F' + 1 := ⟨F - 1, by omega⟩
    unfold Model.F128.halve at h
    by_cases he : v % 2 = 0
    · rw [if_pos he] at h
      dsimp only at h
      have hcond := (Lv_cond_iff v a0 a1 a2 c0 c1 c2).2 he
      obtain ⟨b0, b1, b2, hB, hrb, hBok⟩ := Bv_spec v a0 a1 a2 c0 c1 c2 a ha (by omega)
      have hM : Gen.F128.M = 340282366920938463463374557953744961537 := rfl
      rw [hM] at h
      obtain ⟨a0', a1', a2', hL, hra', hLok⟩ :=
        ih _ _ v' a' b0 b1 b2 h hrb (by split <;> omega) F' c0 c1 c2 (by omega)
      refine ⟨a0', a1', a2', ?_, hra', ?_⟩
      · rewrite [Lv_succ, if_pos hcond, hB]
        exact hL
      · rewrite [Lv_ok_succ, if_pos hcond, hB, hBok]
        dsimp only
        rewrite [hLok]
        rfl
    · rw [if_neg he] at h
      have hcond : ¬ inv.loop1_body.loop2_cond v a0 a1 a2 c0 c1 c2 = true :=
        fun hc => he ((Lv_cond_iff v a0 a1 a2 c0 c1 c2).1 hc)
      injection h with h
      injection h with h1 h2
      subst h1 h2
      refine ⟨a0, a1, a2, ?_, ha, ?_⟩
      · rewrite [Lv_succ, if_neg hcond]
        rfl
      · rewrite [Lv_ok_succ, if_neg hcond]
        rfl

/-! ### body of the `while u > v` loop: `u -= v; d += a;` then the halving loop -/

theorem B2_eq (N u0 u1 u2 d0 d1 d2 v a0 a1 a2 e0 e1 e2 g0 g1 g2 p0 p1 p2 q0 q1 q2 : Nat)
    (hsub : sub_192x192 u0 u1 u2 (v % 18446744073709551616) ((v / 18446744073709551616) % 18446744073709551616) 0
      = (e0, e1, e2))
    (hadd : add_192x192 d0 d1 d2 a0 a1 a2 = (g0, g1, g2))
    (hL : inv.loop1_body.loop1_body.loop1 g0 g1 g2 N e0 e1 e2 g0 g1 g2 = (p0, p1, p2, q0, q1, q2)) :
    inv.loop1_body.loop1_body N u0 u1 u2 d0 d1 d2 v a0 a1 a2 = (p0, p1, p2, q0, q1, q2) := by
  unfold inv.loop1_body.loop1_body
  dsimp only [inv.loop1_body.loop1_body.s_r, inv.loop1_body.loop1_body.s_r_1]
  rewrite [hsub, hadd]
  dsimp only [inv.loop1_body.loop1_body.s_t0, inv.loop1_body.loop1_body.s_t1, inv.loop1_body.loop1_body.s_t2,
    inv.loop1_body.loop1_body.s_u0_1, inv.loop1_body.loop1_body.s_u1_1, inv.loop1_body.loop1_body.s_u2_1,
    inv.loop1_body.loop1_body.s_t0_1, inv.loop1_body.loop1_body.s_t1_1, inv.loop1_body.loop1_body.s_t2_1,
    inv.loop1_body.loop1_body.s_d0_1, inv.loop1_body.loop1_body.s_d1_1, inv.loop1_body.loop1_body.s_d2_1,
    inv.loop1_body.loop1_body.s_lp]
  rewrite [hL]
  exact rfl

theorem and_true3 (p q r : Bool) (hp : p = true) (hq : q = true) (hr : r = true) : (p && q && r) = true := by
  rw [hp, hq, hr]; rfl

theorem B2_ok_eq (N u0 u1 u2 d0 d1 d2 v a0 a1 a2 e0 e1 e2 g0 g1 g2 : Nat)
    (hsub : sub_192x192 u0 u1 u2 (v % 18446744073709551616) ((v / 18446744073709551616) % 18446744073709551616) 0
      = (e0, e1, e2))
    (hsubok : sub_192x192_ok u0 u1 u2 (v % 18446744073709551616) ((v / 18446744073709551616) % 18446744073709551616) 0
      = true)
    (hadd : add_192x192 d0 d1 d2 a0 a1 a2 = (g0, g1, g2))
    (haddok : add_192x192_ok d0 d1 d2 a0 a1 a2 = true)
    (hLok : inv.loop1_body.loop1_body.loop1_ok g0 g1 g2 N e0 e1 e2 g0 g1 g2 = true) :
    inv.loop1_body.loop1_body_ok N u0 u1 u2 d0 d1 d2 v a0 a1 a2 = true := by
  unfold inv.loop1_body.loop1_body_ok
  dsimp only
  refine and_true3 _ _ _ (decide_eq_true hsubok) (decide_eq_true haddok) (decide_eq_true ?_)
  dsimp only [inv.loop1_body.loop1_body.s_r, inv.loop1_body.loop1_body.s_r_1]
  rewrite [hsub, hadd]
  exact hLok

/-- one iteration of `while u > v`, given the model's halving result -/
theorem B2_spec (N u0 u1 u2 d0 d1 d2 v a0 a1 a2 u d a u' d' : Nat)
    (hu : Rep u0 u1 u2 u) (hd : Rep d0 d1 d2 d) (ha : Rep a0 a1 a2 a)
    (hv : v < 340282366920938463463374607431768211456) (hlt : v < u)
    (hda : d + a < 1393796574908163946345982392040522594123776) (hN : 400 ≤ N)
    (hh : Model.F128.halve 400 (u - v) (d + a) = .done (u', d')) :
    ∃ p0 p1 p2 q0 q1 q2,
      inv.loop1_body.loop1_body N u0 u1 u2 d0 d1 d2 v a0 a1 a2 = (p0, p1, p2, q0, q1, q2) ∧
      Rep p0 p1 p2 u' ∧ Rep q0 q1 q2 d' ∧
      inv.loop1_body.loop1_body_ok N u0 u1 u2 d0 d1 d2 v a0 a1 a2 = true := by
  obtain ⟨e0, e1, e2, hsub, hre, hsubok⟩ := sub_rep u0 u1 u2 _ _ _ u v hu (rep128 v hv) (by omega)
  obtain ⟨g0, g1, g2, hadd, hrg, haddok⟩ := add_rep d0 d1 d2 a0 a1 a2 d a hd ha (by omega)
  obtain ⟨p0, p1, p2, q0, q1, q2, hL, hrp, hrq, hLok⟩ :=
    halve_sim_u 400 (u - v) (d + a) u' d' e0 e1 e2 g0 g1 g2 hh hre hrg hda N g0 g1 g2 hN
  exact ⟨p0, p1, p2, q0, q1, q2, B2_eq N u0 u1 u2 d0 d1 d2 v a0 a1 a2 _ _ _ _ _ _ _ _ _ _ _ _ hsub hadd hL,
    hrp, hrq, B2_ok_eq N u0 u1 u2 d0 d1 d2 v a0 a1 a2 _ _ _ _ _ _ hsub hsubok hadd haddok hLok⟩

/-! ### the `while u > v` loop -/

theorem L2_succ (N c0 c1 c2 c3 F x0 x1 x2 x3 x4 x5 : Nat) :
    inv.loop1_body.loop1 N c0 c1 c2 c3 (F + 1) x0 x1 x2 x3 x4 x5 =
      if inv.loop1_body.loop1_cond N x0 x1 x2 x3 x4 x5 c0 c1 c2 c3 = true then
        inv.loop1_body.loop1 N c0 c1 c2 c3 F
          (inv.loop1_body.loop1_body N x0 x1 x2 x3 x4 x5 c0 c1 c2 c3).1
          (inv.loop1_body.loop1_body N x0 x1 x2 x3 x4 x5 c0 c1 c2 c3).2.1
          (inv.loop1_body.loop1_body N x0 x1 x2 x3 x4 x5 c0 c1 c2 c3).2.2.1
          (inv.loop1_body.loop1_body N x0 x1 x2 x3 x4 x5 c0 c1 c2 c3).2.2.2.1
          (inv.loop1_body.loop1_body N x0 x1 x2 x3 x4 x5 c0 c1 c2 c3).2.2.2.2.1
          (inv.loop1_body.loop1_body N x0 x1 x2 x3 x4 x5 c0 c1 c2 c3).2.2.2.2.2
      else (x0, x1, x2, x3, x4, x5) := rfl

theorem L2_zero (N c0 c1 c2 c3 x0 x1 x2 x3 x4 x5 : Nat) :
    inv.loop1_body.loop1 N c0 c1 c2 c3 0 x0 x1 x2 x3 x4 x5 = (x0, x1, x2, x3, x4, x5) := rfl

theorem L2_ok_zero (N c0 c1 c2 c3 x0 x1 x2 x3 x4 x5 : Nat) :
    inv.loop1_body.loop1_ok N c0 c1 c2 c3 0 x0 x1 x2 x3 x4 x5 = true := rfl

theorem L2_ok_succ (N c0 c1 c2 c3 F x0 x1 x2 x3 x4 x5 : Nat) :
    inv.loop1_body.loop1_ok N c0 c1 c2 c3 (F + 1) x0 x1 x2 x3 x4 x5 =
      (inv.loop1_body.loop1_cond_ok N x0 x1 x2 x3 x4 x5 c0 c1 c2 c3 &&
      (if inv.loop1_body.loop1_cond N x0 x1 x2 x3 x4 x5 c0 c1 c2 c3 = true then
        inv.loop1_body.loop1_body_ok N x0 x1 x2 x3 x4 x5 c0 c1 c2 c3 &&
        inv.loop1_body.loop1_ok N c0 c1 c2 c3 F
          (inv.loop1_body.loop1_body N x0 x1 x2 x3 x4 x5 c0 c1 c2 c3).1
          (inv.loop1_body.loop1_body N x0 x1 x2 x3 x4 x5 c0 c1 c2 c3).2.1
          (inv.loop1_body.loop1_body N x0 x1 x2 x3 x4 x5 c0 c1 c2 c3).2.2.1
          (inv.loop1_body.loop1_body N x0 x1 x2 x3 x4 x5 c0 c1 c2 c3).2.2.2.1
          (inv.loop1_body.loop1_body N x0 x1 x2 x3 x4 x5 c0 c1 c2 c3).2.2.2.2.1
          (inv.loop1_body.loop1_body N x0 x1 x2 x3 x4 x5 c0 c1 c2 c3).2.2.2.2.2
      else true)) := rfl

theorem low_eq (l0 l1 : Nat) (h1 : l1 < 18446744073709551616) :
    l0 + (l1 * 18446744073709551616 % 340282366920938463463374607431768211456) = l0 + l1 * 18446744073709551616 := by
  omega

/-- the comparison `u2 > 0 || u0 + (u1 << 64) > v` is `u > v` -/
theorem L2_cond_iff (N u0 u1 u2 x3 x4 x5 v c1 c2 c3 u : Nat) (hu : Rep u0 u1 u2 u)
    (hv : v < 340282366920938463463374607431768211456) :
    inv.loop1_body.loop1_cond N u0 u1 u2 x3 x4 x5 v c1 c2 c3 = true ↔ u > v := by
  obtain ⟨h0, h1, h2, hn⟩ := hu
  unfold inv.loop1_body.loop1_cond
  rw [decide_eq_true_eq, low_eq u0 u1 h1]
  subst hn
  omega

theorem L2_cond_ok (N u0 u1 u2 x3 x4 x5 v c1 c2 c3 u : Nat) (hu : Rep u0 u1 u2 u) :
    inv.loop1_body.loop1_cond_ok N u0 u1 u2 x3 x4 x5 v c1 c2 c3 = true := by
  obtain ⟨h0, h1, h2, hn⟩ := hu
  unfold inv.loop1_body.loop1_cond_ok
  rw [decide_eq_true_eq, low_eq u0 u1 h1]
  omega

/-! ### body of the outer loop -/

theorem B1_eq (N v a0 a1 a2 u0 u1 u2 d0 d1 d2 p0 p1 p2 q0 q1 q2 g0 g1 g2 v' b0 b1 b2 : Nat)
    (hL2 : inv.loop1_body.loop1 N v a0 a1 a2 N u0 u1 u2 d0 d1 d2 = (p0, p1, p2, q0, q1, q2))
    (hadd : add_192x192 a0 a1 a2 q0 q1 q2 = (g0, g1, g2))
    (hLv : inv.loop1_body.loop2 g0 g1 g2 N
      (v - (p0 + (p1 * 18446744073709551616 % 340282366920938463463374607431768211456))) g0 g1 g2
      = (v', b0, b1, b2)) :
    inv.loop1_body N v a0 a1 a2 u0 u1 u2 d0 d1 d2 = (v', b0, b1, b2, p0, p1, p2, q0, q1, q2) := by
  unfold inv.loop1_body
  dsimp only [inv.loop1_body.s_lp]
  rewrite [hL2]
  dsimp only [inv.loop1_body.s_u0_1, inv.loop1_body.s_u1_1, inv.loop1_body.s_u2_1, inv.loop1_body.s_d0_1,
    inv.loop1_body.s_d1_1, inv.loop1_body.s_d2_1, inv.loop1_body.s_r]
  rewrite [hadd]
  dsimp only [inv.loop1_body.s_v_1, inv.loop1_body.s_t0, inv.loop1_body.s_t1, inv.loop1_body.s_t2,
    inv.loop1_body.s_a0_1, inv.loop1_body.s_a1_1, inv.loop1_body.s_a2_1, inv.loop1_body.s_lp_1]
  rewrite [hLv]
  exact rfl

theorem and_true5 (p q r s t : Bool) (hp : p = true) (hq : q = true) (hr : r = true) (hs : s = true)
    (ht : t = true) : (p && q && r && s && t) = true := by
  rw [hp, hq, hr, hs, ht]; rfl

theorem B1_ok_eq (N v a0 a1 a2 u0 u1 u2 d0 d1 d2 p0 p1 p2 q0 q1 q2 g0 g1 g2 : Nat)
    (hL2 : inv.loop1_body.loop1 N v a0 a1 a2 N u0 u1 u2 d0 d1 d2 = (p0, p1, p2, q0, q1, q2))
    (hL2ok : inv.loop1_body.loop1_ok N v a0 a1 a2 N u0 u1 u2 d0 d1 d2 = true)
    (hlow : p0 + (p1 * 18446744073709551616 % 340282366920938463463374607431768211456)
      < 340282366920938463463374607431768211456)
    (hle : p0 + (p1 * 18446744073709551616 % 340282366920938463463374607431768211456) ≤ v)
    (hadd : add_192x192 a0 a1 a2 q0 q1 q2 = (g0, g1, g2))
    (haddok : add_192x192_ok a0 a1 a2 q0 q1 q2 = true)
    (hLvok : inv.loop1_body.loop2_ok g0 g1 g2 N
      (v - (p0 + (p1 * 18446744073709551616 % 340282366920938463463374607431768211456))) g0 g1 g2 = true) :
    inv.loop1_body_ok N v a0 a1 a2 u0 u1 u2 d0 d1 d2 = true := by
  unfold inv.loop1_body_ok
  dsimp only
  refine and_true5 _ _ _ _ _ (decide_eq_true hL2ok) (decide_eq_true ?_) (decide_eq_true ?_)
    (decide_eq_true ?_) (decide_eq_true ?_)
  · dsimp only [inv.loop1_body.s_lp]
    rewrite [hL2]
    exact hlow
  · dsimp only [inv.loop1_body.s_lp]
    rewrite [hL2]
    exact hle
  · dsimp only [inv.loop1_body.s_lp]
    rewrite [hL2]
    exact haddok
  · dsimp only [inv.loop1_body.s_lp]
    rewrite [hL2]
    dsimp only [inv.loop1_body.s_u0_1, inv.loop1_body.s_u1_1, inv.loop1_body.s_u2_1, inv.loop1_body.s_d0_1,
      inv.loop1_body.s_d1_1, inv.loop1_body.s_d2_1, inv.loop1_body.s_r]
    rewrite [hadd]
    exact hLvok

/-! ### the outer loop -/

theorem L1_succ (N F x0 x1 x2 x3 x4 x5 x6 x7 x8 x9 : Nat) :
    inv.loop1 N (F + 1) x0 x1 x2 x3 x4 x5 x6 x7 x8 x9 =
      if inv.loop1_cond N x0 x1 x2 x3 x4 x5 x6 x7 x8 x9 = true then
        inv.loop1 N F
          (inv.loop1_body N x0 x1 x2 x3 x4 x5 x6 x7 x8 x9).1
          (inv.loop1_body N x0 x1 x2 x3 x4 x5 x6 x7 x8 x9).2.1
          (inv.loop1_body N x0 x1 x2 x3 x4 x5 x6 x7 x8 x9).2.2.1
          (inv.loop1_body N x0 x1 x2 x3 x4 x5 x6 x7 x8 x9).2.2.2.1
          (inv.loop1_body N x0 x1 x2 x3 x4 x5 x6 x7 x8 x9).2.2.2.2.1
          (inv.loop1_body N x0 x1 x2 x3 x4 x5 x6 x7 x8 x9).2.2.2.2.2.1
          (inv.loop1_body N x0 x1 x2 x3 x4 x5 x6 x7 x8 x9).2.2.2.2.2.2.1
          (inv.loop1_body N x0 x1 x2 x3 x4 x5 x6 x7 x8 x9).2.2.2.2.2.2.2.1
          (inv.loop1_body N x0 x1 x2 x3 x4 x5 x6 x7 x8 x9).2.2.2.2.2.2.2.2.1
          (inv.loop1_body N x0 x1 x2 x3 x4 x5 x6 x7 x8 x9).2.2.2.2.2.2.2.2.2
      else (x0, x1, x2, x3, x4, x5, x6, x7, x8, x9) := by
  rewrite [inv.loop1]
  exact rfl

theorem L1_ok_succ (N F x0 x1 x2 x3 x4 x5 x6 x7 x8 x9 : Nat) :
    inv.loop1_ok N (F + 1) x0 x1 x2 x3 x4 x5 x6 x7 x8 x9 =
      (inv.loop1_cond_ok N x0 x1 x2 x3 x4 x5 x6 x7 x8 x9 &&
      (if inv.loop1_cond N x0 x1 x2 x3 x4 x5 x6 x7 x8 x9 = true then
        inv.loop1_body_ok N x0 x1 x2 x3 x4 x5 x6 x7 x8 x9 &&
        inv.loop1_ok N F
          (inv.loop1_body N x0 x1 x2 x3 x4 x5 x6 x7 x8 x9).1
          (inv.loop1_body N x0 x1 x2 x3 x4 x5 x6 x7 x8 x9).2.1
          (inv.loop1_body N x0 x1 x2 x3 x4 x5 x6 x7 x8 x9).2.2.1
          (inv.loop1_body N x0 x1 x2 x3 x4 x5 x6 x7 x8 x9).2.2.2.1
          (inv.loop1_body N x0 x1 x2 x3 x4 x5 x6 x7 x8 x9).2.2.2.2.1
          (inv.loop1_body N x0 x1 x2 x3 x4 x5 x6 x7 x8 x9).2.2.2.2.2.1
          (inv.loop1_body N x0 x1 x2 x3 x4 x5 x6 x7 x8 x9).2.2.2.2.2.2.1
          (inv.loop1_body N x0 x1 x2 x3 x4 x5 x6 x7 x8 x9).2.2.2.2.2.2.2.1
          (inv.loop1_body N x0 x1 x2 x3 x4 x5 x6 x7 x8 x9).2.2.2.2.2.2.2.2.1
          (inv.loop1_body N x0 x1 x2 x3 x4 x5 x6 x7 x8 x9).2.2.2.2.2.2.2.2.2
      else true)) := by
  rewrite [inv.loop1_ok]
  exact rfl

theorem L1_cond_iff (N v x1 x2 x3 x4 x5 x6 x7 x8 x9 : Nat) :
    inv.loop1_cond N v x1 x2 x3 x4 x5 x6 x7 x8 x9 = true ↔ v ≠ 1 := by
  unfold inv.loop1_cond
  rw [decide_eq_true_eq]

/-! ### the final reduction `while a2 > 0 || a >= M` -/

theorem L4_succ (F x0 x1 x2 x3 : Nat) :
    inv.loop2 (F + 1) x0 x1 x2 x3 =
      if inv.loop2_cond x0 x1 x2 x3 = true then
        inv.loop2 F (inv.loop2_body x0 x1 x2 x3).1 (inv.loop2_body x0 x1 x2 x3).2.1
          (inv.loop2_body x0 x1 x2 x3).2.2.1 (inv.loop2_body x0 x1 x2 x3).2.2.2
      else (x0, x1, x2, x3) := rfl

theorem L4_ok_succ (F x0 x1 x2 x3 : Nat) :
    inv.loop2_ok (F + 1) x0 x1 x2 x3 =
      (inv.loop2_cond_ok x0 x1 x2 x3 &&
      (if inv.loop2_cond x0 x1 x2 x3 = true then
        inv.loop2_body_ok x0 x1 x2 x3 &&
        inv.loop2_ok F (inv.loop2_body x0 x1 x2 x3).1 (inv.loop2_body x0 x1 x2 x3).2.1
          (inv.loop2_body x0 x1 x2 x3).2.2.1 (inv.loop2_body x0 x1 x2 x3).2.2.2
      else true)) := rfl

theorem and_true2 (p q : Bool) (hp : p = true) (hq : q = true) : (p && q) = true := by
  rw [hp, hq]; rfl

theorem B4_eq (a0 a1 a2 x e0 e1 e2 : Nat)
    (hsub : sub_192x192 a0 a1 a2 (340282366920938463463374557953744961537 % 18446744073709551616)
      ((340282366920938463463374557953744961537 / 18446744073709551616) % 18446744073709551616) 0 = (e0, e1, e2)) :
    inv.loop2_body a0 a1 a2 x =
      (e0, e1, e2, e0 + (e1 * 18446744073709551616 % 340282366920938463463374607431768211456)) := by
  unfold inv.loop2_body
  dsimp only [inv.loop2_body.s_r]
  rewrite [hsub]
  exact rfl

theorem B4_ok_eq (a0 a1 a2 x e0 e1 e2 : Nat)
    (hsub : sub_192x192 a0 a1 a2 (340282366920938463463374557953744961537 % 18446744073709551616)
      ((340282366920938463463374557953744961537 / 18446744073709551616) % 18446744073709551616) 0 = (e0, e1, e2))
    (hsubok : sub_192x192_ok a0 a1 a2 (340282366920938463463374557953744961537 % 18446744073709551616)
      ((340282366920938463463374557953744961537 / 18446744073709551616) % 18446744073709551616) 0 = true)
    (he1 : e1 < 18446744073709551616) (he0 : e0 < 18446744073709551616) :
    inv.loop2_body_ok a0 a1 a2 x = true := by
  unfold inv.loop2_body_ok
  dsimp only
  refine and_true2 _ _ (decide_eq_true hsubok) (decide_eq_true ?_)
  dsimp only [inv.loop2_body.s_r]
  rewrite [hsub]
  dsimp only [inv.loop2_body.s_t0, inv.loop2_body.s_t1, inv.loop2_body.s_a0_1, inv.loop2_body.s_a1_1]
  rw [low_eq e0 e1 he1]
  omega

theorem L4_cond_iff (a0 a1 a2 A : Nat) (ha : Rep a0 a1 a2 A) :
    inv.loop2_cond a0 a1 a2 (a0 + (a1 * 18446744073709551616 % 340282366920938463463374607431768211456)) = true
      ↔ A ≥ 340282366920938463463374557953744961537 := by
  obtain ⟨h0, h1, h2, hn⟩ := ha
  unfold inv.loop2_cond
  rw [decide_eq_true_eq, low_eq a0 a1 h1]
  subst hn
  omega

/-- the final reduction refines `Model.F128.reduceA` -/
theorem reduceA_sim : ∀ (f A r a0 a1 a2 : Nat), Model.F128.reduceA f A = .done r → Rep a0 a1 a2 A →
    ∀ F, f ≤ F →
    ∃ l0 l1 l2,
      inv.loop2 F a0 a1 a2 (a0 + (a1 * 18446744073709551616 % 340282366920938463463374607431768211456))
        = (l0, l1, l2, r) ∧
      inv.loop2_ok F a0 a1 a2 (a0 + (a1 * 18446744073709551616 % 340282366920938463463374607431768211456))
        = true := by
  intro f
  induction f with
  | zero =>
    intro A r a0 a1 a2 h
    unfold Model.F128.reduceA at h
    exact absurd h (by intro h; cases h)
  | succ f ih =>
    intro A r a0 a1 a2 h ha F hF
    obtain ⟨F', rfl⟩ : ∃ F', F = F' + 1 := ⟨F - 1, by omega⟩
    unfold Model.F128.reduceA at h
    have hM : Gen.F128.M = 340282366920938463463374557953744961537 := rfl
    rw [hM] at h
    by_cases hge : A ≥ 340282366920938463463374557953744961537
    · rw [if_pos hge] at h
      have hcond := (L4_cond_iff a0 a1 a2 A ha).2 hge
      obtain ⟨e0, e1, e2, hsub, hre, hsubok⟩ := sub_rep a0 a1 a2 _ _ _ A _ ha repM hge
      obtain ⟨l0, l1, l2, hL, hLok⟩ := ih _ r e0 e1 e2 h hre F' (by omega)
      refine ⟨l0, l1, l2, ?_, ?_⟩
      · rewrite [L4_succ, if_pos hcond, B4_eq a0 a1 a2 _ e0 e1 e2 hsub]
        exact hL
      · rewrite [L4_ok_succ, if_pos hcond, B4_eq a0 a1 a2 _ e0 e1 e2 hsub,
          B4_ok_eq a0 a1 a2 _ e0 e1 e2 hsub hsubok hre.2.1 hre.1]
        dsimp only
        rewrite [hLok]
        rfl
    · rw [if_neg hge] at h
      have hcond : ¬ inv.loop2_cond a0 a1 a2
          (a0 + (a1 * 18446744073709551616 % 340282366920938463463374607431768211456)) = true :=
        fun hc => hge ((L4_cond_iff a0 a1 a2 A ha).1 hc)
      injection h with h
      subst h
      refine ⟨a0, a1, a2, ?_, ?_⟩
      · rewrite [L4_succ, if_neg hcond]
        obtain ⟨h0, h1, h2, hn⟩ := ha
        have hA : a0 + a1 * 18446744073709551616 = A := by omega
        rw [low_eq a0 a1 h1, hA]
      · rewrite [L4_ok_succ, if_neg hcond]
        rfl

/-! ### the function `inv` around its loops -/

theorem repD : Rep inv.s_d0 inv.s_d1 inv.s_d2 340282366920938463463374557953744961536 := by
  unfold Rep inv.s_d0 inv.s_d1 inv.s_d2; omega

theorem repA0 : Rep inv.s_a0 inv.s_a1 inv.s_a2 0 := by
  unfold Rep inv.s_a0 inv.s_a1 inv.s_a2; omega

/-- the initial `u`: `x` if odd, `x + M` (a 192-bit addition) otherwise -/
theorem repU (x : Nat) (hx : x < 340282366920938463463374607431768211456) :
    Rep (inv.s_u0 x (inv.s_r x)) (inv.s_u1 x (inv.s_r x)) (inv.s_u2 x (inv.s_r x))
      (if x % 2 = 1 then x else x + 340282366920938463463374557953744961537) ∧
    (¬ ((x &&& 1) = 1) → add_192x192_ok (x % 18446744073709551616)
      ((x / 18446744073709551616) % 18446744073709551616) 0
      (340282366920938463463374557953744961537 % 18446744073709551616)
      ((340282366920938463463374557953744961537 / 18446744073709551616) % 18446744073709551616) 0 = true) := by
  obtain ⟨e0, e1, e2, he, hre, heok⟩ := add_rep _ _ _ _ _ _ x _ (rep128 x hx) repM (by omega)
  refine ⟨?_, fun _ => heok⟩
  unfold inv.s_u0 inv.s_u1 inv.s_u2 inv.s_r
  rewrite [he, and_one]
  by_cases h : x % 2 = 1
  · rewrite [if_pos h, if_pos h, if_pos h, if_pos h]
    exact rep128 x hx
  · rewrite [if_neg h, if_neg h, if_neg h, if_neg h]
    exact hre

theorem inv_eq (N x v' b0 b1 b2 p0 p1 p2 q0 q1 q2 l0 l1 l2 r : Nat) (hc : inv.s_c x = false)
    (hL1 : inv.loop1 N N inv.s_v inv.s_a0 inv.s_a1 inv.s_a2
      (inv.s_u0 x (inv.s_r x)) (inv.s_u1 x (inv.s_r x)) (inv.s_u2 x (inv.s_r x)) inv.s_d0 inv.s_d1 inv.s_d2
      = (v', b0, b1, b2, p0, p1, p2, q0, q1, q2))
    (hL4 : inv.loop2 N b0 b1 b2 (b0 + (b1 * 18446744073709551616 % 340282366920938463463374607431768211456))
      = (l0, l1, l2, r)) :
    inv N x = r := by
  unfold inv
  dsimp only [inv.s_lp]
  rewrite [hc, hL1]
  dsimp only [inv.s_a0_1, inv.s_a1_1, inv.s_a2_1, inv.s_a, inv.s_lp_1]
  rewrite [hL4]
  exact rfl

theorem inv_ok_eq (N x v' b0 b1 b2 p0 p1 p2 q0 q1 q2 : Nat)
    (hadd : ¬ ((x &&& 1) = 1) → add_192x192_ok (x % 18446744073709551616)
      ((x / 18446744073709551616) % 18446744073709551616) 0
      (340282366920938463463374557953744961537 % 18446744073709551616)
      ((340282366920938463463374557953744961537 / 18446744073709551616) % 18446744073709551616) 0 = true)
    (hL1 : inv.loop1 N N inv.s_v inv.s_a0 inv.s_a1 inv.s_a2
      (inv.s_u0 x (inv.s_r x)) (inv.s_u1 x (inv.s_r x)) (inv.s_u2 x (inv.s_r x)) inv.s_d0 inv.s_d1 inv.s_d2
      = (v', b0, b1, b2, p0, p1, p2, q0, q1, q2))
    (hL1ok : inv.loop1_ok N N inv.s_v inv.s_a0 inv.s_a1 inv.s_a2
      (inv.s_u0 x (inv.s_r x)) (inv.s_u1 x (inv.s_r x)) (inv.s_u2 x (inv.s_r x)) inv.s_d0 inv.s_d1 inv.s_d2
      = true)
    (hb0 : b0 < 18446744073709551616) (hb1 : b1 < 18446744073709551616)
    (hL4ok : inv.loop2_ok N b0 b1 b2
      (b0 + (b1 * 18446744073709551616 % 340282366920938463463374607431768211456)) = true) :
    inv_ok N x = true := by
  unfold inv_ok
  dsimp only
  refine and_true5 _ _ _ _ _ (decide_eq_true (fun h => hadd h.2)) (decide_eq_true (fun _ => by omega))
    (decide_eq_true (fun _ => hL1ok)) (decide_eq_true (fun _ => ?_)) (decide_eq_true (fun _ => ?_))
  · dsimp only [inv.s_lp]
    rewrite [hL1]
    dsimp only [inv.s_a0_1, inv.s_a1_1]
    rw [low_eq b0 b1 hb1]
    omega
  · dsimp only [inv.s_lp]
    rewrite [hL1]
    exact hL4ok

theorem inv_zero (N : Nat) : inv N 0 = 0 ∧ inv_ok N 0 = true := by
  have hc : inv.s_c 0 = true := rfl
  constructor
  · unfold inv
    dsimp only
    rewrite [hc]
    exact rfl
  · unfold inv_ok
    dsimp only
    rewrite [hc]
    exact and_true5 _ _ _ _ _ (decide_eq_true (fun h => absurd rfl h.1)) (decide_eq_true (fun h => absurd rfl h))
      (decide_eq_true (fun h => absurd rfl h)) (decide_eq_true (fun h => absurd rfl h))
      (decide_eq_true (fun h => absurd rfl h))

end WinterProofs.F128G
