-- helper lemmas of C04 (Fiat–Shamir transcript): list facts and the FRI loops of Winter/Model/Transcript.lean
import Winter.Model.Transcript

namespace C04L
open Model.Transcript

-- ====================================================================================== lists
/-- in a list without duplicates an element splits the list in exactly one way -/
theorem split_unique {α : Type} {x : α} :
    ∀ {l a b a' b' : List α}, l.Nodup → l = a ++ x :: b → l = a' ++ x :: b' → a = a'
  | l, [], b, [], b', _, _, _ => rfl
  | l, [], b, y :: a'', b', hn, h1, h2 => by
    exfalso
    subst h1
    simp only [List.nil_append, List.cons_append, List.cons.injEq] at h2
    obtain ⟨hxy, hb⟩ := h2
    have : x ∈ b := by rw [hb]; simp
    exact (List.nodup_cons.mp hn).1 this
  | l, y :: a1, b, [], b', hn, h1, h2 => by
    exfalso
    subst h2
    simp only [List.nil_append, List.cons_append, List.cons.injEq] at h1
    obtain ⟨hxy, hb⟩ := h1
    have : x ∈ b' := by rw [hb]; simp
    exact (List.nodup_cons.mp hn).1 this
  | l, y :: a1, b, y' :: a1', b', hn, h1, h2 => by
    subst h1
    simp only [List.cons_append, List.cons.injEq] at h2
    obtain ⟨hy, ht⟩ := h2
    subst hy
    have hn' : (a1 ++ x :: b).Nodup := (List.nodup_cons.mp hn).2
    rw [split_unique hn' rfl ht]

theorem filter_eq_self_of_all {α : Type} (p : α → Bool) :
    ∀ (l : List α), (∀ x ∈ l, p x = true) → l.filter p = l
  | [], _ => rfl
  | y :: l, h => by
    have hy : p y = true := h y (by simp)
    simp only [List.filter_cons, hy, if_true]
    rw [filter_eq_self_of_all p l (fun x hx => h x (by simp [hx]))]

theorem getElem?_range_map {β : Type} (f : Nat → β) (n k : Nat) :
    ((List.range n).map f)[k]? = if k < n then some (f k) else none := by
  by_cases h : k < n
  · simp [h]
  · have : (List.range n).length ≤ k := by simp; omega
    simp [h]

/-- THE GENERAL ARGUMENT of theorem (1): a script whose events, restricted to the events of the protocol,
    are exactly the protocol (which has no repeated event) respects the protocol order -/
theorem respects_of_filter (proto script : List Event) (hn : proto.Nodup)
    (hf : script.filter (fun e => decide (e ∈ proto)) = proto) : Respects proto script := by
  intro c x _ hb pre post hs
  obtain ⟨p1, p2, hp, hx⟩ := hb
  have hc : Event.chal c ∈ proto := by rw [hp]; simp
  have h2 : proto = pre.filter (fun e => decide (e ∈ proto)) ++ Event.chal c :: post.filter (fun e => decide (e ∈ proto)) := by
    have := hf
    rw [hs, List.filter_append, List.filter_cons] at this
    simp only [hc, decide_true, if_true] at this
    exact this.symm
  have h3 : p1 = pre.filter (fun e => decide (e ∈ proto)) := split_unique hn hp h2
  rw [h3] at hx
  exact (List.mem_filter.mp hx).1

-- ====================================================================================== FRI loops
theorem mem_protoFri (x : Event) : ∀ (k i : Nat),
    x ∈ protoFri i k ↔ ∃ j, i ≤ j ∧ j < i + k ∧ (x = .msg (.friLayerRoot j) ∨ x = .chal (.elems (.friAlpha j)))
  | 0, i => by
    simp only [protoFri, List.not_mem_nil, false_iff]
    rintro ⟨j, h1, h2, _⟩; omega
  | k + 1, i => by
    simp only [protoFri, List.mem_cons, mem_protoFri x k (i + 1)]
    constructor
    · rintro (h | h | ⟨j, h1, h2, h3⟩)
      · exact ⟨i, Nat.le_refl _, by omega, Or.inl h⟩
      · exact ⟨i, Nat.le_refl _, by omega, Or.inr h⟩
      · exact ⟨j, by omega, by omega, h3⟩
    · rintro ⟨j, h1, h2, h3⟩
      by_cases hj : j = i
      · subst hj
        rcases h3 with h | h
        · exact Or.inl h
        · exact Or.inr (Or.inl h)
      · exact Or.inr (Or.inr ⟨j, by omega, by omega, h3⟩)

theorem nodup_protoFri : ∀ (k i : Nat), (protoFri i k).Nodup
  | 0, _ => by simp [protoFri]
  | k + 1, i => by
    simp only [protoFri, List.nodup_cons, List.mem_cons, mem_protoFri]
    refine ⟨?_, ?_, nodup_protoFri k (i + 1)⟩
    · rintro (h | ⟨j, h1, _, h3⟩)
      · cases h
      · simp at h3; omega
    · rintro ⟨j, h1, _, h3⟩
      simp at h3; omega

theorem events_append (a b : List CoinOp) : events (a ++ b) = events a ++ events b := by
  simp [events]

theorem events_cons (a : CoinOp) (b : List CoinOp) : events (a :: b) = a.events ++ events b := by
  simp [events]

theorem events_nil : events [] = [] := rfl

/-- the prover's FRI loop produces the protocol's FRI rounds -/
theorem events_friProverLayers : ∀ (k i : Nat), events (friProverLayers i k) = protoFri i k
  | 0, _ => rfl
  | k + 1, i => by
    simp only [friProverLayers, protoFri, events_cons, CoinOp.events, List.cons_append, List.nil_append,
      events_friProverLayers k (i + 1)]

/-- the verifier's FRI loop over the parsed commitments produces the protocol's FRI rounds, the remainder
    commitment, and one more α -/
theorem events_friVerifierLoop : ∀ (k i : Nat),
    events (friVerifierLoop i (friCommitmentsFrom i k))
      = protoFri i k ++ [.msg .remainderCommitment, .chal (.elems (.friAlpha (i + k)))]
  | 0, i => by
    simp [friCommitmentsFrom, friVerifierLoop, protoFri, events, CoinOp.events]
  | k + 1, i => by
    simp only [friCommitmentsFrom, friVerifierLoop, protoFri, events_cons, CoinOp.events, List.cons_append,
      List.nil_append, events_friVerifierLoop k (i + 1)]
    have : i + 1 + k = i + (k + 1) := by omega
    rw [this]

/-- deleting the α drawn after the last commitment turns the verifier's FRI loop into the prover's -/
theorem filter_friVerifierLoop (L : Nat) : ∀ (k i : Nat), i + k = L →
    (friVerifierLoop i (friCommitmentsFrom i k)).filter (fun op => !(op == CoinOp.draw (.friAlpha L) 1))
      = friProverLayers i k ++ [.reseed .remainderCommitment]
  | 0, i, h => by
    have hi : i = L := by omega
    subst hi
    simp [friCommitmentsFrom, friVerifierLoop, friProverLayers]
  | k + 1, i, h => by
    have hne : i ≠ L := by omega
    have ih := filter_friVerifierLoop L k (i + 1) (by omega)
    simp only [friCommitmentsFrom, friVerifierLoop, friProverLayers, List.filter_cons, List.cons_append]
    simp [hne, ih]

/-- the prover's FRI loop draws no α with index ≥ the number of layers -/
theorem filter_friProverLayers (L : Nat) : ∀ (k i : Nat), i + k ≤ L →
    (friProverLayers i k).filter (fun op => !(op == CoinOp.draw (.friAlpha L) 1)) = friProverLayers i k
  | 0, _, _ => rfl
  | k + 1, i, h => by
    have hne : i ≠ L := by omega
    have ih := filter_friProverLayers L k (i + 1) (by omega)
    simp only [friProverLayers, List.filter_cons]
    simp [hne, ih]

-- ====================================================================================== absorbed messages
/-- the message of an event, if it is one -/
def msgOf : Event → Option Msg
  | .msg m => some m
  | _ => none

theorem msgs_protoFri : ∀ (k i : Nat),
    (protoFri i k).filterMap msgOf ++ [.remainderCommitment] = friCommitmentsFrom i k
  | 0, _ => rfl
  | k + 1, i => by
    simp [protoFri, friCommitmentsFrom, msgOf, List.filterMap_cons, ← msgs_protoFri k (i + 1)]

theorem absorbedMsgs_append : ∀ (a b : List CoinOp), absorbedMsgs (a ++ b) = absorbedMsgs a ++ absorbedMsgs b
  | [], _ => rfl
  | op :: a, b => by
    cases op <;> simp [absorbedMsgs, absorbedMsgs_append a b]

theorem absorbedMsgs_friVerifierLoop : ∀ (cs : List Msg) (i : Nat), absorbedMsgs (friVerifierLoop i cs) = cs
  | [], _ => rfl
  | c :: cs, i => by simp [friVerifierLoop, absorbedMsgs, absorbedMsgs_friVerifierLoop cs (i + 1)]

theorem absorbedMsgs_friProverLayers : ∀ (k i : Nat),
    absorbedMsgs (friProverLayers i k ++ [.reseed .remainderCommitment]) = friCommitmentsFrom i k
  | 0, _ => rfl
  | k + 1, i => by
    simp [friProverLayers, absorbedMsgs, friCommitmentsFrom, absorbedMsgs_friProverLayers k (i + 1)]

theorem getElem_friCommitmentsFrom : ∀ (k i j : Nat), j < k →
    (friCommitmentsFrom i k)[j]? = some (.friLayerRoot (i + j))
  | 0, _, _, h => by omega
  | k + 1, i, 0, _ => by simp [friCommitmentsFrom]
  | k + 1, i, j + 1, h => by
    simp only [friCommitmentsFrom, List.getElem?_cons_succ]
    rw [getElem_friCommitmentsFrom k (i + 1) j (by omega)]
    congr 2; omega

theorem getElem_friCommitmentsFrom_last : ∀ (k i : Nat),
    (friCommitmentsFrom i k)[k]? = some .remainderCommitment
  | 0, _ => by simp [friCommitmentsFrom]
  | k + 1, i => by
    simp only [friCommitmentsFrom, List.getElem?_cons_succ]
    exact getElem_friCommitmentsFrom_last k (i + 1)

theorem length_friCommitmentsFrom : ∀ (k i : Nat), (friCommitmentsFrom i k).length = k + 1
  | 0, _ => rfl
  | k + 1, i => by simp [friCommitmentsFrom, length_friCommitmentsFrom k (i + 1)]

theorem mem_friCommitmentsFrom (m : Msg) : ∀ (k i : Nat),
    m ∈ friCommitmentsFrom i k ↔ m = .remainderCommitment ∨ ∃ j, i ≤ j ∧ j < i + k ∧ m = .friLayerRoot j
  | 0, i => by
    simp only [friCommitmentsFrom, List.mem_singleton]
    constructor
    · intro h; exact Or.inl h
    · rintro (h | ⟨j, h1, h2, _⟩)
      · exact h
      · omega
  | k + 1, i => by
    simp only [friCommitmentsFrom, List.mem_cons, mem_friCommitmentsFrom m k (i + 1)]
    constructor
    · rintro (h | h | ⟨j, h1, h2, h3⟩)
      · exact Or.inr ⟨i, Nat.le_refl _, by omega, h⟩
      · exact Or.inl h
      · exact Or.inr ⟨j, by omega, by omega, h3⟩
    · rintro (h | ⟨j, h1, h2, h3⟩)
      · exact Or.inr (Or.inl h)
      · by_cases hj : j = i
        · subst hj; exact Or.inl h3
        · exact Or.inr (Or.inr ⟨j, by omega, by omega, h3⟩)

theorem nodup_friCommitmentsFrom : ∀ (k i : Nat), (friCommitmentsFrom i k).Nodup
  | 0, _ => by simp [friCommitmentsFrom]
  | k + 1, i => by
    simp only [friCommitmentsFrom, List.nodup_cons, mem_friCommitmentsFrom]
    refine ⟨?_, nodup_friCommitmentsFrom k (i + 1)⟩
    rintro (h | ⟨j, h1, _, h3⟩)
    · cases h
    · simp at h3; omega

end C04L
