-- tie T for C16 / C02: the divisor code as regenerated from air/src/air/divisor.rs on this run
-- (Winter/Gen/Divisor.lean: `get_trace_domain_value_at`, `ConstraintDivisor::new`, `from_transition` with its
-- exemption points, `evaluate_exemptions_at`, `evaluate_at`; field-generic over `Gen.FOpsX`) coincides with the
-- hand-written model of Winter/Model/Divisor.lean for EVERY operations record (through `Ops.toX`,
-- Winter/Model/DivisorGen.lean) and all arguments.
import Winter.Model.DivisorGen
import WinterProofs.Lemmas.GenTactic

namespace C16G
open Model.Divisor

variable {α : Type} (O : Ops α)

@[simp] theorem toX_one : O.toX.ofNat 1 = O.one := rfl
@[simp] theorem toX_zero : O.toX.ofNat 0 = O.zero := rfl
@[simp] theorem toX_pow : O.toX.pow = O.pow := rfl
@[simp] theorem toX_mul : O.toX.mul = O.mul := rfl
@[simp] theorem toX_sub : O.toX.sub = O.sub := rfl

/-- ★ `get_trace_domain_value_at(n, step)` = `g^step`: the model returns `ok v` exactly when the regenerated
    assertions hold (`step < n`, the `ilog2` argument non-zero, `get_root_of_unity` accepts) and the regenerated
    function returns `v` -/
theorem gen_trace_domain_value_at (n step : Nat) (v : α) :
    traceDomainValueAt O n step = .ok v ↔
      (Gen.Divisor.get_trace_domain_value_at_ok O.toX n step = true ∧
        Gen.Divisor.get_trace_domain_value_at O.toX n step = v) := by
  unfold traceDomainValueAt
  unfold_gen Gen.Divisor
  simp only [Ops.toX, Bool.and_eq_true, decide_eq_true_eq]
  obtain ⟨r, hr⟩ : ∃ r, O.root (Nat.log2 n) = r := ⟨_, rfl⟩
  simp only [hr]
  by_cases h : step ≥ n
  · simp [h]; intro h1; omega
  · cases r with
    | none => simp [h]
    | some g => simp [h]; intro _; omega

/-- ★ `ConstraintDivisor::from_transition(n, e)` (numerator `[(n, 1)]`, the exemption points
    `get_trace_domain_value_at(n, step)` for `step` in `n - e .. n`): the model returns `ok d` exactly when the
    regenerated no-panic condition holds and the regenerated constructor returns the two vectors of `d` -/
theorem gen_from_transition (n e : Nat) (d : Divisor α) :
    fromTransition O n e = .ok d ↔
      (Gen.Divisor.from_transition_ok O.toX n e = true ∧
        Gen.Divisor.from_transition O.toX n e = (d.numerator, d.exemptions)) := by
  unfold fromTransition
  unfold_gen Gen.Divisor
  simp only [Bool.and_eq_true, decide_eq_true_eq, List.all_eq_true, Bool.and_true, toX_one, toX_pow]
  by_cases h1 : e > n
  · simp [h1]; intro h; omega
  have hle : e ≤ n := by omega
  have hr : n - (n - e) = e := by omega
  simp only [h1, if_false, hr]
  by_cases h0 : e = 0
  · subst h0
    simp only [if_true, List.range'_zero, List.map_nil, List.not_mem_nil, false_imp_iff, implies_true, and_true,
      Nat.zero_le, true_and]
    constructor
    · intro h; cases h; rfl
    · intro h; cases d; simp only [Prod.mk.injEq] at h; obtain ⟨rfl, rfl⟩ := h; rfl
  · simp only [h0, if_false]
    have hmem : (n - e) ∈ List.range' (n - e) e := by simp [List.mem_range']; omega
    obtain ⟨r, hroot⟩ : ∃ r, O.root (Nat.log2 n) = r := ⟨_, rfl⟩
    simp only [hroot]
    cases r with
    | none =>
      simp only [reduceCtorEq, false_iff, not_and]
      intro h
      have := (h.1.2 (n - e) hmem).2
      simp [Ops.toX, hroot] at this
    | some g =>
      have hall : ∀ x ∈ List.range' (n - e) e, (x < n ∧ n ≠ 0) ∧ O.toX.rootOk (Nat.log2 n) = true := by
        intro x hx
        simp only [List.mem_range'_1] at hx
        refine ⟨⟨by omega, by omega⟩, ?_⟩
        simp [Ops.toX, hroot]
      have hg : O.toX.root (Nat.log2 n) = g := by simp [Ops.toX, hroot]
      simp only [hg]
      constructor
      · intro h; cases h; exact ⟨⟨⟨hle, hall⟩, trivial⟩, rfl⟩
      · rintro ⟨_, h⟩; cases d; simp only [Prod.mk.injEq] at h; obtain ⟨rfl, rfl⟩ := h; rfl

/-- ★ `evaluate_exemptions_at` (the `fold` over the exemption points) -/
theorem gen_evaluate_exemptions_at (d : Divisor α) (x : α) :
    Gen.Divisor.evaluate_exemptions_at O.toX d.exemptions x = d.evalExemptions O x ∧
    Gen.Divisor.evaluate_exemptions_at_ok O.toX d.exemptions x = true := by
  unfold Divisor.evalExemptions
  unfold_gen Gen.Divisor
  exact ⟨rfl, rfl⟩

theorem numLoop (x : α) : ∀ (ts : List (Nat × α)) (acc : α),
    Gen.Divisor.evaluate_at.for1 O.toX x ts acc = ts.foldl (fun acc t => O.mul acc (O.sub (O.pow x t.1) t.2)) acc ∧
    Gen.Divisor.evaluate_at.for1_ok O.toX x ts acc = true := by
  intro ts
  induction ts with
  | nil => intro acc; simp [Gen.Divisor.evaluate_at.for1, Gen.Divisor.evaluate_at.for1_ok]
  | cons t ts ih =>
    intro acc
    rw [Gen.Divisor.evaluate_at.for1, Gen.Divisor.evaluate_at.for1_ok]
    unfold_gen Gen.Divisor
    simp only [toX_mul, toX_sub, toX_pow, Bool.true_and, List.foldl_cons]
    exact ih _

/-- ★ `evaluate_at` (the numerator loop, `evaluate_exemptions_at`, the field division): whenever the model's
    division returns, the regenerated function returns the same element; it has no panic of its own -/
theorem gen_evaluate_at (d : Divisor α) (x : α) :
    (d.evalAt O x).getD O.zero = Gen.Divisor.evaluate_at O.toX d.exemptions d.numerator x ∧
    Gen.Divisor.evaluate_at_ok O.toX d.exemptions d.numerator x = true := by
  unfold Divisor.evalAt Divisor.evalNumerator
  unfold Gen.Divisor.evaluate_at_ok
  unfold_gen Gen.Divisor.evaluate_at
  obtain ⟨h1, h2⟩ := numLoop O x d.numerator O.one
  obtain ⟨e1, e2⟩ := gen_evaluate_exemptions_at O d x
  simp only [toX_one, h1, h2, e1, e2, decide_true, Bool.and_true]
  exact ⟨rfl, trivial⟩

end C16G
