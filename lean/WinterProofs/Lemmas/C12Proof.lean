-- helper lemmas for C12: round trips of the proof-format types
import WinterProofs.Lemmas.C12Codec

namespace WinterProofs.C12L
open Model Model.Serde Gen.Limits

theorem block_RT (n : Nat) : (block n).RT := by
  intro bs rest hx
  simp only [block, decide_eq_true_eq] at hx
  refine ⟨rfl, ?_⟩
  simp [block, List.append_assoc, readUInt_leBytes hx, readSlice_append]

theorem pow2_eq {n : Nat} (h : pow2 n = true) : 2 ^ n.log2 = n := by
  simp only [pow2, Bool.and_eq_true, bne_iff_ne, beq_iff_eq] at h
  exact h.2.symm
theorem fext_RT : fext.RT := by
  intro v rest hv
  simp only [fext, Bool.or_eq_true, beq_iff_eq] at hv
  refine ⟨rfl, ?_⟩
  simp only [fext, List.cons_append, List.nil_append, bind_apply, readU8_cons]
  rw [if_pos (by omega)]; rfl
theorem log2_bounds {n : Nat} (h8 : 8 ≤ n) (h64 : n < 18446744073709551616) : 3 ≤ n.log2 ∧ n.log2 < 64 := by
  have hn : n ≠ 0 := by omega
  constructor
  · rw [Nat.le_log2 hn]; simpa using h8
  · rw [Nat.log2_lt hn]; simpa using h64

theorem traceInfo_wf_iff (t : TraceInfo) : t.wf = true ↔
    (8 ≤ t.length ∧ pow2 t.length = true ∧ t.length < 18446744073709551616 ∧ t.metadata.length ≤ 65535 ∧
      0 < t.main ∧ t.main + t.aux ≤ 255 ∧ (t.aux ≠ 0 ∨ t.rands = 0) ∧ t.rands ≤ 255) := by
  simp only [TraceInfo.wf, Bool.and_eq_true, decide_eq_true_eq, Bool.or_eq_true, bne_iff_ne, beq_iff_eq,
    ge_iff_le, gt_iff_lt, and_assoc]
  simp only [MIN_TRACE_LENGTH, MAX_META_LENGTH, MAX_TRACE_WIDTH, MAX_RAND_SEGMENT_ELEMENTS]

theorem proofOptions_wf_iff (o : ProofOptions) : o.wf = true ↔
    (0 < o.numQueries ∧ o.numQueries ≤ 255 ∧ pow2 o.blowup = true ∧ 2 ≤ o.blowup ∧ o.blowup ≤ 128 ∧
      o.grinding ≤ 32 ∧ pow2 o.folding = true ∧ 2 ≤ o.folding ∧ o.folding ≤ 16 ∧ pow2 (o.remDeg + 1) = true ∧
      o.remDeg ≤ 255 ∧ (o.fieldExt = 1 ∨ o.fieldExt = 2 ∨ o.fieldExt = 3)) := by
  simp only [ProofOptions.wf, fext, Bool.and_eq_true, decide_eq_true_eq, Bool.or_eq_true, beq_iff_eq,
    ge_iff_le, gt_iff_lt, and_assoc, or_assoc]
  simp only [MAX_NUM_QUERIES, MIN_BLOWUP_FACTOR, MAX_BLOWUP_FACTOR, MAX_GRINDING_FACTOR,
    FRI_MIN_FOLDING_FACTOR, FRI_MAX_FOLDING_FACTOR, FRI_MAX_REMAINDER_DEGREE]

theorem proofOptions_RT : proofOptions.RT := by
  intro o rest ho
  refine ⟨rfl, ?_⟩
  have hw : o.wf = true := ho
  have h := (proofOptions_wf_iff o).mp hw
  have hfw : fext.wf o.fieldExt = true := by simp [fext]; omega
  have hf := rt_dec fext_RT hfw (o.folding :: o.remDeg :: rest)
  simp only [fext, List.cons_append, List.nil_append] at hf
  have e1 : o.numQueries % 256 = o.numQueries := Nat.mod_eq_of_lt (by omega)
  have e2 : o.blowup % 256 = o.blowup := Nat.mod_eq_of_lt (by omega)
  have e3 : o.grinding % 256 = o.grinding := Nat.mod_eq_of_lt (by omega)
  have e4 : o.folding % 256 = o.folding := Nat.mod_eq_of_lt (by omega)
  have e5 : o.remDeg % 256 = o.remDeg := Nat.mod_eq_of_lt (by omega)
  simp only [proofOptions, e1, e2, e3, e4, e5, List.cons_append, List.nil_append, bind_apply, readU8_cons]
  simp only [fext, hf, readU8_cons, hw, if_true, pure_apply]

theorem traceInfo_RT : traceInfo.RT := by
  intro t rest ht
  have hw : t.wf = true := ht
  obtain ⟨h8, hp, h64, hm, hmain, hwid, haux, hr⟩ := (traceInfo_wf_iff t).mp hw
  have hl := log2_bounds h8 h64
  refine ⟨by simp [traceInfo]; omega, ?_⟩
  have e1 : t.main % 256 = t.main := Nat.mod_eq_of_lt (by omega)
  have e2 : t.aux % 256 = t.aux := Nat.mod_eq_of_lt (by omega)
  have e3 : t.rands % 256 = t.rands := Nat.mod_eq_of_lt (by omega)
  have e4 : t.length.log2 % 256 = t.length.log2 := Nat.mod_eq_of_lt (by omega)
  have hlen := readUInt_leBytes (n := 2) (v := t.metadata.length) (by simpa using (by omega : t.metadata.length < 65536))
  have h3 : MIN_TRACE_LENGTH.log2 = 3 := by decide
  have hmeta : (if t.metadata.length ≠ 0 then readSlice t.metadata.length else (pure [] : Dec Bytes))
      (t.metadata ++ rest) = .ok (t.metadata, rest) := by
    by_cases h0 : t.metadata.length = 0
    · have : t.metadata = [] := List.eq_nil_of_length_eq_zero h0
      simp [this]
    · simp [h0, readSlice_append]
  have hback : (⟨t.main, t.aux, t.rands, 2 ^ t.length.log2, t.metadata⟩ : TraceInfo) = t := by
    rw [pow2_eq hp]
  simp only [traceInfo, e1, e2, e3, e4, List.cons_append, List.nil_append, List.append_assoc, bind_apply,
    readU8_cons, MAX_TRACE_WIDTH, MAX_RAND_SEGMENT_ELEMENTS, h3]
  rw [if_neg (by omega)]
  simp only [bind_apply, readU8_cons]
  rw [if_neg (by omega)]
  simp only [bind_apply, readU8_cons]
  rw [if_neg (by omega), if_neg (by omega)]
  simp only [bind_apply, readU8_cons]
  rw [if_neg (by omega), if_neg (by omega)]
  simp only [bind_apply, hlen, hmeta, hback, hw, if_true, pure_apply]
theorem context_RT : context.RT := by
  intro c rest hc
  have hc' : c.wf = true := hc
  simp only [Context.wf, Bool.and_eq_true, decide_eq_true_eq, ge_iff_le, gt_iff_lt] at hc'
  obtain ⟨⟨⟨⟨⟨hti, ho⟩, _⟩, _⟩, hm0⟩, hm⟩ := hc'
  have hti' : traceInfo.wf c.traceInfo = true := hti
  have ho' : proofOptions.wf c.options = true := ho
  refine ⟨by simp [context, rt_wpanic traceInfo_RT hti']; omega, ?_⟩
  have e1 : c.modulus.length % 256 = c.modulus.length := Nat.mod_eq_of_lt (by omega)
  simp only [context, e1, List.append_assoc, List.cons_append, List.nil_append, bind_apply,
    rt_dec traceInfo_RT hti', readU8_cons]
  rw [if_neg (by omega)]
  simp only [bind_apply, readSlice_append, rt_dec proofOptions_RT ho']
  rw [if_neg (by omega), if_neg (by omega)]
  rfl

theorem commitments_RT : commitments.RT := by
  intro bs rest hx
  simp only [commitments, decide_eq_true_eq] at hx
  refine ⟨by simp [commitments]; omega, ?_⟩
  exact rt_dec (block_RT 2) (by simp [block]; omega) rest

theorem queries_RT : queries.RT := by
  intro q rest hq
  simp only [queries, Bool.and_eq_true, decide_eq_true_eq] at hq
  refine ⟨rfl, ?_⟩
  have h1 := rt_dec (block_RT 4) (x := q.values) (by simp [block]; omega)
  have h2 := rt_dec (block_RT 4) (x := q.paths) (by simp [block]; omega)
  simp [queries, List.append_assoc, h1, h2]

theorem oodFrame_RT : oodFrame.RT := by
  intro f rest hf
  simp only [oodFrame, Bool.and_eq_true, decide_eq_true_eq] at hf
  refine ⟨rfl, ?_⟩
  have h1 := rt_dec (block_RT 2) (x := f.traceStates) (by simp [block]; omega)
  have h2 := rt_dec (block_RT 2) (x := f.lagrange) (by simp [block]; omega)
  have h3 := rt_dec (block_RT 2) (x := f.evaluations) (by simp [block]; omega)
  simp [oodFrame, List.append_assoc, h1, h2, h3]

theorem friLayer_RT : friLayer.RT := by
  intro l rest hl
  simp only [friLayer, Bool.and_eq_true, decide_eq_true_eq, gt_iff_lt] at hl
  refine ⟨rfl, ?_⟩
  have h1 := readUInt_leBytes (n := 4) (v := l.values.length) (by simpa using (by omega : l.values.length < 4294967296))
  have h2 := readUInt_leBytes (n := 4) (v := l.paths.length) (by simpa using (by omega : l.paths.length < 4294967296))
  simp only [friLayer, block, List.append_assoc, bind_apply, h1]
  rw [if_neg (by omega)]
  simp [readSlice_append, h2]

theorem friProof_RT : friProof.RT := by
  intro p rest hp
  simp only [friProof, Bool.and_eq_true, decide_eq_true_eq] at hp
  obtain ⟨⟨⟨hn, hl⟩, hr⟩, hnp⟩ := hp
  refine ⟨rfl, ?_⟩
  have e1 : p.layers.length % 256 = p.layers.length := Nat.mod_eq_of_lt hn
  have h1 := readMany_rt friLayer_RT hl
  have h2 := rt_dec (block_RT 2) (x := p.remainder) (by simp [block]; omega)
  simp only [friProof, e1, List.append_assoc, List.cons_append, List.nil_append, bind_apply, readU8_cons, h1, h2]
  rw [if_neg (by omega)]
  rfl

theorem gkr_RT : (option (vec (uint 1))).RT := option_RT (vec_RT (uint_RT 1))

theorem proof_RT : proof.RT := by
  intro p rest hp
  simp only [proof, Proof.wf, Bool.and_eq_true, decide_eq_true_eq, beq_iff_eq] at hp
  obtain ⟨⟨⟨⟨⟨⟨⟨⟨⟨hc, hnuq⟩, hcm⟩, hseg⟩, htq⟩, hcq⟩, hood⟩, hfri⟩, hnonce⟩, hgkr⟩ := hp
  refine ⟨by simp [proof, rt_wpanic context_RT hc, rt_wpanic commitments_RT hcm], ?_⟩
  have h1 := rt_dec context_RT hc
  have h2 := rt_dec commitments_RT hcm
  have h3 := readMany_rt queries_RT htq
  rw [hseg] at h3
  have h4 := rt_dec queries_RT hcq
  have h5 := rt_dec oodFrame_RT hood
  have h6 := rt_dec friProof_RT hfri
  have h7 := readUInt_leBytes (n := 8) (v := p.powNonce) (by simpa using hnonce)
  have h8 := rt_dec gkr_RT hgkr
  simp [proof, List.append_assoc, readU8_cons, h1, h2, h3, h4, h5, h6, h7, h8]

end WinterProofs.C12L
