-- Helper lemmas for C07 (62-bit field): the generated straight-line functions of
-- Winter/Gen/F62.lean characterised on natural numbers (no Mathlib).
-- M = 4611624995532046337, 2M = 9223249991064092674, R = 2^64 = 18446744073709551616,
-- M·R = 85069466056501613216581866859205230592.
import Winter.Gen.F62
namespace WinterProofs.F62L
open Gen.F62

/-! ### add / sub / double / normalize -/

theorem add_spec (a b : Nat) (ha : a < 9223249991064092674) (hb : b < 9223249991064092674) :
    add a b < 9223249991064092674 ∧ ∃ k, add a b + k * 4611624995532046337 = a + b := by
  unfold add add.s_q add.s_z
  dsimp only
  refine ⟨by omega, (a + b) / 4611686018427387904, by omega⟩

theorem add_ok_spec (a b : Nat) (_ha : a < 9223249991064092674) (hb : b < 9223249991064092674) :
    add_ok a b = true := by
  unfold add_ok add.s_q add.s_z
  dsimp only
  simp only [decide_eq_true_eq, Bool.and_eq_true]
  omega

theorem sub_spec (a b : Nat) (ha : a < 9223249991064092674) (hb : b < 9223249991064092674) :
    sub a b < 9223249991064092674 ∧
      (sub a b + b = a ∨ sub a b + b = a + 2 * 4611624995532046337) := by
  unfold sub
  split <;> omega

theorem sub_ok_spec (a b : Nat) (_ha : a < 9223249991064092674) (hb : b < 9223249991064092674) :
    sub_ok a b = true := by
  unfold sub_ok
  simp only [decide_eq_true_eq, Bool.and_eq_true]
  omega

theorem double_spec (a : Nat) (ha : a < 9223249991064092674) :
    double a < 9223249991064092674 ∧ ∃ k, double a + k * 4611624995532046337 = a + a := by
  unfold double double.s_q double.s_z
  have h1 : a * 2 % 18446744073709551616 = a * 2 := by omega
  dsimp only
  rw [h1]
  refine ⟨by omega, (a * 2) / 4611686018427387904, by omega⟩

theorem double_ok_spec (a : Nat) (ha : a < 9223249991064092674) : double_ok a = true := by
  unfold double_ok double.s_q double.s_z
  have h1 : a * 2 % 18446744073709551616 = a * 2 := by omega
  dsimp only
  rw [h1]
  simp only [decide_eq_true_eq, Bool.and_eq_true]
  omega

theorem neg_spec (a : Nat) (ha : a < 9223249991064092674) :
    neg a < 9223249991064092674 ∧ (neg a + a = 0 ∨ neg a + a = 2 * 4611624995532046337) := by
  unfold neg
  have := sub_spec 0 a (by omega) ha
  omega

theorem neg_ok_spec (a : Nat) (ha : a < 9223249991064092674) : neg_ok a = true := by
  unfold neg_ok
  rw [sub_ok_spec 0 a (by omega) ha]
  rfl

theorem normalize_spec (a : Nat) (ha : a < 9223249991064092674) :
    normalize a < 4611624995532046337 ∧
      (normalize a = a ∨ normalize a + 4611624995532046337 = a) := by
  unfold normalize
  split <;> omega

theorem normalize_ok_spec (a : Nat) : normalize_ok a = true := by
  unfold normalize_ok
  simp only [decide_eq_true_eq]
  omega

/-! ### Montgomery multiplication -/

/-- the reduction as a function of the double-width product -/
def mulCore (z : Nat) : Nat :=
  (mul.s_z_1 z (mul.s_q z) / 18446744073709551616) % 18446744073709551616

theorem mul_eq (a b : Nat) : mul a b = mulCore (a * b) := rfl

/-- the low word of `z + q·M` vanishes: `U·M + 1 = 1152890993361043456 · 2^64` -/
theorem low_zero (zl k : Nat)
    (hq : zl * 4611624995532046335 = k * 18446744073709551616 + (zl * 4611624995532046335) % 18446744073709551616) :
    zl + ((zl * 4611624995532046335) % 18446744073709551616) * 4611624995532046337
      = (zl * 1152890993361043456 - k * 4611624995532046337) * 18446744073709551616 ∧
    k * 4611624995532046337 ≤ zl * 1152890993361043456 := by
  omega

theorem bound_z1 (zh zl q : Nat) (hzh : zh < 4611624995532046337) (hzl : zl < 18446744073709551616)
    (hq : q < 18446744073709551616) :
    zh * 18446744073709551616 + zl + q * 4611624995532046337
      < 170138932113003226433163733718410461184 := by omega

theorem mulCore_spec (z : Nat) (hz : z < 85069466056501613216581866859205230592) :
    mulCore z < 9223249991064092674 ∧
      (∃ q, mulCore z * 18446744073709551616 = z + q * 4611624995532046337) ∧
      mul.s_q z < 18446744073709551616 ∧
      mul.s_z_1 z (mul.s_q z) < 170138932113003226433163733718410461184 := by
  unfold mulCore mul.s_z_1
  have hq : mul.s_q z < 18446744073709551616 := by unfold mul.s_q; omega
  obtain ⟨zh, zl, rfl, hzl⟩ : ∃ zh zl, z = zh * 18446744073709551616 + zl ∧ zl < 18446744073709551616 :=
    ⟨z / 18446744073709551616, z % 18446744073709551616, by omega, by omega⟩
  have hzh : zh < 4611624995532046337 := by omega
  have hqe : mul.s_q (zh * 18446744073709551616 + zl) = (zl * 4611624995532046335) % 18446744073709551616 := by
    unfold mul.s_q
    have : (zh * 18446744073709551616 + zl) % 18446744073709551616 = zl := by omega
    rw [this]
  rw [hqe] at hq ⊢
  obtain ⟨h1, h2⟩ := low_zero zl ((zl * 4611624995532046335) / 18446744073709551616) (by omega)
  generalize (zl * 4611624995532046335) % 18446744073709551616 = q at *
  generalize zl * 1152890993361043456 - (zl * 4611624995532046335) / 18446744073709551616 * 4611624995532046337 = w at *
  clear h2
  have hw : w < 4611624995532046338 := by omega
  have e : zh * 18446744073709551616 + zl + q * 4611624995532046337 = (zh + w) * 18446744073709551616 := by
    omega
  have e' := e
  rw [e, Nat.mul_div_cancel _ (by decide : 0 < 18446744073709551616)]
  have e2 : (zh + w) % 18446744073709551616 = zh + w := by omega
  rw [e2]
  clear e e2 hqe h1
  refine ⟨by omega, ⟨q, ?_⟩, hq, ?_⟩
  · rw [← e']
  · rw [← e']
    exact bound_z1 zh zl q hzh hzl hq

/-- `mul`: Montgomery product of two words with `a·b < M·2^64` (in particular `a, b < 2M`) -/
theorem mul_spec_gen (a b : Nat) (hz : a * b < 85069466056501613216581866859205230592) :
    mul a b < 9223249991064092674 ∧
      ∃ q, mul a b * 18446744073709551616 = a * b + q * 4611624995532046337 := by
  rw [mul_eq]
  exact ⟨(mulCore_spec _ hz).1, (mulCore_spec _ hz).2.1⟩

theorem prod_lt (a b : Nat) (ha : a < 9223249991064092674) (hb : b < 9223249991064092674) :
    a * b < 85069466056501613216581866859205230592 :=
  calc a * b < 9223249991064092674 * 9223249991064092674 := Nat.mul_lt_mul'' ha hb
    _ < 85069466056501613216581866859205230592 := by omega

theorem mul_spec (a b : Nat) (ha : a < 9223249991064092674) (hb : b < 9223249991064092674) :
    mul a b < 9223249991064092674 ∧
      ∃ q, mul a b * 18446744073709551616 = a * b + q * 4611624995532046337 :=
  mul_spec_gen a b (prod_lt a b ha hb)

theorem mul_ok_gen (a b : Nat) (hz : a * b < 85069466056501613216581866859205230592) :
    mul_ok a b = true := by
  unfold mul_ok mul.s_z
  dsimp only
  obtain ⟨-, -, hq, hz1⟩ := mulCore_spec (a * b) hz
  generalize a * b = z at *
  have hq' : (z % 18446744073709551616) * 4611624995532046335 < 340282366920938463463374607431768211456 := by
    omega
  unfold mul.s_z_1 at hz1
  generalize mul.s_q z = q at *
  simp only [decide_eq_true_eq, Bool.and_eq_true]
  omega

theorem mul_ok_spec (a b : Nat) (ha : a < 9223249991064092674) (hb : b < 9223249991064092674) :
    mul_ok a b = true :=
  mul_ok_gen a b (prod_lt a b ha hb)

/-- any 64-bit word times a constant `< M/4·…` (here: R2, R3 or 1) stays below `M·2^64` -/
theorem prod_lt_word (v c : Nat) (hv : v < 18446744073709551616) (hc : c ≤ 4611624995532046337) :
    v * c < 85069466056501613216581866859205230592 := by
  rcases Nat.eq_zero_or_pos c with rfl | hpos
  · omega
  · calc v * c < 18446744073709551616 * c := Nat.mul_lt_mul_of_pos_right hv hpos
      _ ≤ 18446744073709551616 * 4611624995532046337 := Nat.mul_le_mul_left _ hc
      _ = 85069466056501613216581866859205230592 := by omega

/-- `new`: any 64-bit word is accepted (the comment in the source claims less) -/
theorem new_spec (v : Nat) (hv : v < 18446744073709551616) :
    new v < 9223249991064092674 ∧
      ∃ q, new v * 18446744073709551616 = v * 630444561284293700 + q * 4611624995532046337 := by
  unfold new new.s_z
  exact mul_spec_gen v _ (prod_lt_word v _ hv (by decide))

theorem new_ok_spec (v : Nat) (hv : v < 18446744073709551616) : new_ok v = true := by
  unfold new_ok
  rw [mul_ok_gen v _ (prod_lt_word v _ hv (by decide))]
  rfl

theorem glue_as_int (n a q : Nat)
    (h2 : (n + 4611624995532046337) * 18446744073709551616 = a * 1 + q * 4611624995532046337) :
    n * 18446744073709551616 + 18446744073709551616 * 4611624995532046337
      = a + q * 4611624995532046337 := by
  rw [Nat.add_mul, Nat.mul_one] at h2
  rw [Nat.mul_comm 18446744073709551616 4611624995532046337]
  exact h2

/-- `as_int`: Montgomery reduction of the word followed by normalisation -/
theorem as_int_spec (a : Nat) (ha : a < 18446744073709551616) :
    as_int a < 4611624995532046337 ∧
      ∃ q c, as_int a * 18446744073709551616 + c * 4611624995532046337
        = a + q * 4611624995532046337 := by
  unfold as_int as_int.s_result
  obtain ⟨h1, q, h2⟩ := mul_spec_gen a 1 (by omega)
  obtain ⟨h3, h4⟩ := normalize_spec _ h1
  refine ⟨h3, ?_⟩
  generalize mul a 1 = m at *
  generalize normalize m = n at *
  rcases h4 with rfl | h4
  · exact ⟨q, 0, by rw [Nat.zero_mul, Nat.add_zero, h2, Nat.mul_one]⟩
  · subst h4
    exact ⟨q, 18446744073709551616, glue_as_int n a q h2⟩

theorem as_int_ok_spec (a : Nat) (ha : a < 18446744073709551616) : as_int_ok a = true := by
  unfold as_int_ok
  dsimp only
  rw [mul_ok_gen a 1 (by omega), normalize_ok_spec]
  rfl

/-- `==` compares the normalised words: equality modulo `M` -/
theorem eq_spec (a b : Nat) (ha : a < 9223249991064092674) (hb : b < 9223249991064092674) :
    eq a b = true ↔ (a = b ∨ a = b + 4611624995532046337 ∨ b = a + 4611624995532046337) := by
  unfold eq normalize
  simp only [decide_eq_true_eq]
  split <;> split <;> omega

theorem eq_ok_spec (a b : Nat) : eq_ok a b = true := by
  unfold eq_ok
  rw [normalize_ok_spec, normalize_ok_spec]
  rfl

theorem op_add_eq (a b : Nat) : op_add a b = add a b := rfl
theorem op_sub_eq (a b : Nat) : op_sub a b = sub a b := rfl
theorem op_mul_eq (a b : Nat) : op_mul a b = mul a b := rfl

theorem op_ok_spec (a b : Nat) (ha : a < 9223249991064092674) (hb : b < 9223249991064092674) :
    op_add_ok a b = true ∧ op_sub_ok a b = true ∧ op_mul_ok a b = true := by
  unfold op_add_ok op_sub_ok op_mul_ok
  rw [add_ok_spec a b ha hb, sub_ok_spec a b ha hb, mul_ok_spec a b ha hb]
  exact ⟨rfl, rfl, rfl⟩

end WinterProofs.F62L
