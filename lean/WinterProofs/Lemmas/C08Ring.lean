-- Helper lemmas for C08: the quotient rings R[x]/(x² - s·x - t) and R[x]/(x³ - s·x - t) as pairs / triples over an
-- arbitrary commutative ring, their ring structure, the embedding of R, evaluation at a root, and the abstract
-- argument "a p-power map with finite order whose fixed points are the constants makes the ring a field".
import Mathlib.Tactic.Ring
import Mathlib.Tactic.LinearCombination
import Mathlib.Algebra.Ring.Hom.Defs
import Mathlib.Algebra.Field.Defs
import Winter.Model.Ext

namespace WinterProofs.C08L

/-- the base-field operations (`Gen.FOps`) of a commutative ring -/
def ringOps (R : Type) [CommRing R] : Gen.FOps R where
  add := (· + ·)
  sub := (· - ·)
  mul := (· * ·)
  neg := fun x => -x
  double := fun x => 2 * x
  square := fun x => x ^ 2
  ofNat := fun n => (n : R)

variable {R : Type} [CommRing R]

-- ================================================================================================ degree 2
/-- `R[x]/(x² - s·x - t)`: pairs `c0 + c1·φ` with `φ² = s·φ + t` -/
@[ext] structure PQ2 (R : Type) (s t : R) where
  c0 : R
  c1 : R

namespace PQ2
variable {s t : R}
instance : Zero (PQ2 R s t) := ⟨⟨0, 0⟩⟩
instance : One (PQ2 R s t) := ⟨⟨1, 0⟩⟩
instance : Add (PQ2 R s t) := ⟨fun a b => ⟨a.c0 + b.c0, a.c1 + b.c1⟩⟩
instance : Neg (PQ2 R s t) := ⟨fun a => ⟨-a.c0, -a.c1⟩⟩
instance : Sub (PQ2 R s t) := ⟨fun a b => ⟨a.c0 - b.c0, a.c1 - b.c1⟩⟩
/-- schoolbook product `a0b0 + (a0b1 + a1b0)x + a1b1x²` reduced with `x² = s·x + t` -/
instance : Mul (PQ2 R s t) :=
  ⟨fun a b => ⟨a.c0 * b.c0 + t * (a.c1 * b.c1), a.c0 * b.c1 + a.c1 * b.c0 + s * (a.c1 * b.c1)⟩⟩
instance : SMul ℕ (PQ2 R s t) := ⟨fun n a => ⟨n • a.c0, n • a.c1⟩⟩
instance : SMul ℤ (PQ2 R s t) := ⟨fun n a => ⟨n • a.c0, n • a.c1⟩⟩
instance : NatCast (PQ2 R s t) := ⟨fun n => ⟨n, 0⟩⟩
instance : IntCast (PQ2 R s t) := ⟨fun n => ⟨n, 0⟩⟩

@[simp] theorem zero_c0 : (0 : PQ2 R s t).c0 = 0 := rfl
@[simp] theorem zero_c1 : (0 : PQ2 R s t).c1 = 0 := rfl
@[simp] theorem one_c0 : (1 : PQ2 R s t).c0 = 1 := rfl
@[simp] theorem one_c1 : (1 : PQ2 R s t).c1 = 0 := rfl
@[simp] theorem add_c0 (a b : PQ2 R s t) : (a + b).c0 = a.c0 + b.c0 := rfl
@[simp] theorem add_c1 (a b : PQ2 R s t) : (a + b).c1 = a.c1 + b.c1 := rfl
@[simp] theorem neg_c0 (a : PQ2 R s t) : (-a).c0 = -a.c0 := rfl
@[simp] theorem neg_c1 (a : PQ2 R s t) : (-a).c1 = -a.c1 := rfl
@[simp] theorem sub_c0 (a b : PQ2 R s t) : (a - b).c0 = a.c0 - b.c0 := rfl
@[simp] theorem sub_c1 (a b : PQ2 R s t) : (a - b).c1 = a.c1 - b.c1 := rfl
@[simp] theorem mul_c0 (a b : PQ2 R s t) : (a * b).c0 = a.c0 * b.c0 + t * (a.c1 * b.c1) := rfl
@[simp] theorem mul_c1 (a b : PQ2 R s t) :
    (a * b).c1 = a.c0 * b.c1 + a.c1 * b.c0 + s * (a.c1 * b.c1) := rfl
@[simp] theorem nsmul_c0 (n : ℕ) (a : PQ2 R s t) : (n • a).c0 = n • a.c0 := rfl
@[simp] theorem nsmul_c1 (n : ℕ) (a : PQ2 R s t) : (n • a).c1 = n • a.c1 := rfl
@[simp] theorem zsmul_c0 (n : ℤ) (a : PQ2 R s t) : (n • a).c0 = n • a.c0 := rfl
@[simp] theorem zsmul_c1 (n : ℤ) (a : PQ2 R s t) : (n • a).c1 = n • a.c1 := rfl
@[simp] theorem natCast_c0 (n : ℕ) : (n : PQ2 R s t).c0 = n := rfl
@[simp] theorem natCast_c1 (n : ℕ) : (n : PQ2 R s t).c1 = 0 := rfl
@[simp] theorem intCast_c0 (n : ℤ) : (n : PQ2 R s t).c0 = n := rfl
@[simp] theorem intCast_c1 (n : ℤ) : (n : PQ2 R s t).c1 = 0 := rfl

instance instCommRing : CommRing (PQ2 R s t) where
  add_assoc a b c := by ext <;> simp [add_assoc]
  zero_add a := by ext <;> simp
  add_zero a := by ext <;> simp
  add_comm a b := by ext <;> simp [add_comm]
  neg_add_cancel a := by ext <;> simp
  sub_eq_add_neg a b := by ext <;> simp [sub_eq_add_neg]
  nsmul n a := n • a
  nsmul_zero a := by ext <;> simp
  nsmul_succ n a := by ext <;> simp [add_mul]
  zsmul n a := n • a
  zsmul_zero' a := by ext <;> simp
  zsmul_succ' n a := by ext <;> simp [add_mul]
  zsmul_neg' n a := by ext <;> simp [add_mul]
  mul_assoc a b c := by ext <;> simp <;> ring
  one_mul a := by ext <;> simp
  mul_one a := by ext <;> simp
  zero_mul a := by ext <;> simp
  mul_zero a := by ext <;> simp
  left_distrib a b c := by ext <;> simp <;> ring
  right_distrib a b c := by ext <;> simp <;> ring
  mul_comm a b := by ext <;> simp <;> ring
  natCast_zero := by ext <;> simp
  natCast_succ n := by ext <;> simp
  intCast_ofNat n := by ext <;> simp
  intCast_negSucc n := by ext <;> simp

/-- the embedding of the base ring (`From<B>`): a ring homomorphism -/
def C : R →+* PQ2 R s t where
  toFun x := ⟨x, 0⟩
  map_one' := rfl
  map_mul' a b := by ext <;> simp
  map_zero' := rfl
  map_add' a b := by ext <;> simp

@[simp] theorem C_c0 (x : R) : (C x : PQ2 R s t).c0 = x := rfl
@[simp] theorem C_c1 (x : R) : (C x : PQ2 R s t).c1 = 0 := rfl

theorem C_injective : Function.Injective (C : R → PQ2 R s t) := fun a b h => by
  have := congrArg PQ2.c0 h
  simpa using this

/-- the class of `x` -/
def φ : PQ2 R s t := ⟨0, 1⟩
@[simp] theorem φ_c0 : (φ : PQ2 R s t).c0 = 0 := rfl
@[simp] theorem φ_c1 : (φ : PQ2 R s t).c1 = 1 := rfl

/-- `φ` is a root of `x² - s·x - t` -/
theorem φ_root : (φ : PQ2 R s t) ^ 2 - C s * φ - C t = 0 := by
  ext <;> simp [pow_two]

theorem decomp (a : PQ2 R s t) : a = C a.c0 + C a.c1 * φ := by
  ext <;> simp

/-- evaluation at a root: for every ring `S`, homomorphism `i : R →+* S` and `r : S` with `r² = i s · r + i t`,
    the map `c0 + c1·φ ↦ i c0 + i c1 · r` is a ring homomorphism (so `PQ2 R s t` is `R[x]/(x² - s·x - t)`) -/
def evalRoot {S : Type} [CommRing S] (i : R →+* S) (r : S) (hr : r ^ 2 = i s * r + i t) : PQ2 R s t →+* S where
  toFun a := i a.c0 + i a.c1 * r
  map_one' := by simp
  map_zero' := by simp
  map_add' a b := by simp; ring
  map_mul' a b := by
    simp only [mul_c0, mul_c1, map_add, map_mul]
    linear_combination (-(i a.c1 * i b.c1)) * hr

end PQ2

-- ================================================================================================ degree 3
/-- `R[x]/(x³ - s·x - t)`: triples `c0 + c1·φ + c2·φ²` with `φ³ = s·φ + t` -/
@[ext] structure PQ3 (R : Type) (s t : R) where
  c0 : R
  c1 : R
  c2 : R

namespace PQ3
variable {s t : R}
instance : Zero (PQ3 R s t) := ⟨⟨0, 0, 0⟩⟩
instance : One (PQ3 R s t) := ⟨⟨1, 0, 0⟩⟩
instance : Add (PQ3 R s t) := ⟨fun a b => ⟨a.c0 + b.c0, a.c1 + b.c1, a.c2 + b.c2⟩⟩
instance : Neg (PQ3 R s t) := ⟨fun a => ⟨-a.c0, -a.c1, -a.c2⟩⟩
instance : Sub (PQ3 R s t) := ⟨fun a b => ⟨a.c0 - b.c0, a.c1 - b.c1, a.c2 - b.c2⟩⟩
/-- schoolbook product `Σ c_k x^k` (k ≤ 4) reduced with `x³ = s·x + t`, `x⁴ = s·x² + t·x` -/
instance : Mul (PQ3 R s t) :=
  ⟨fun a b =>
    ⟨a.c0 * b.c0 + t * (a.c1 * b.c2 + a.c2 * b.c1),
     a.c0 * b.c1 + a.c1 * b.c0 + s * (a.c1 * b.c2 + a.c2 * b.c1) + t * (a.c2 * b.c2),
     a.c0 * b.c2 + a.c1 * b.c1 + a.c2 * b.c0 + s * (a.c2 * b.c2)⟩⟩
instance : SMul ℕ (PQ3 R s t) := ⟨fun n a => ⟨n • a.c0, n • a.c1, n • a.c2⟩⟩
instance : SMul ℤ (PQ3 R s t) := ⟨fun n a => ⟨n • a.c0, n • a.c1, n • a.c2⟩⟩
instance : NatCast (PQ3 R s t) := ⟨fun n => ⟨n, 0, 0⟩⟩
instance : IntCast (PQ3 R s t) := ⟨fun n => ⟨n, 0, 0⟩⟩

@[simp] theorem zero_c0 : (0 : PQ3 R s t).c0 = 0 := rfl
@[simp] theorem zero_c1 : (0 : PQ3 R s t).c1 = 0 := rfl
@[simp] theorem zero_c2 : (0 : PQ3 R s t).c2 = 0 := rfl
@[simp] theorem one_c0 : (1 : PQ3 R s t).c0 = 1 := rfl
@[simp] theorem one_c1 : (1 : PQ3 R s t).c1 = 0 := rfl
@[simp] theorem one_c2 : (1 : PQ3 R s t).c2 = 0 := rfl
@[simp] theorem add_c0 (a b : PQ3 R s t) : (a + b).c0 = a.c0 + b.c0 := rfl
@[simp] theorem add_c1 (a b : PQ3 R s t) : (a + b).c1 = a.c1 + b.c1 := rfl
@[simp] theorem add_c2 (a b : PQ3 R s t) : (a + b).c2 = a.c2 + b.c2 := rfl
@[simp] theorem neg_c0 (a : PQ3 R s t) : (-a).c0 = -a.c0 := rfl
@[simp] theorem neg_c1 (a : PQ3 R s t) : (-a).c1 = -a.c1 := rfl
@[simp] theorem neg_c2 (a : PQ3 R s t) : (-a).c2 = -a.c2 := rfl
@[simp] theorem sub_c0 (a b : PQ3 R s t) : (a - b).c0 = a.c0 - b.c0 := rfl
@[simp] theorem sub_c1 (a b : PQ3 R s t) : (a - b).c1 = a.c1 - b.c1 := rfl
@[simp] theorem sub_c2 (a b : PQ3 R s t) : (a - b).c2 = a.c2 - b.c2 := rfl
@[simp] theorem mul_c0 (a b : PQ3 R s t) :
    (a * b).c0 = a.c0 * b.c0 + t * (a.c1 * b.c2 + a.c2 * b.c1) := rfl
@[simp] theorem mul_c1 (a b : PQ3 R s t) :
    (a * b).c1 = a.c0 * b.c1 + a.c1 * b.c0 + s * (a.c1 * b.c2 + a.c2 * b.c1) + t * (a.c2 * b.c2) := rfl
@[simp] theorem mul_c2 (a b : PQ3 R s t) :
    (a * b).c2 = a.c0 * b.c2 + a.c1 * b.c1 + a.c2 * b.c0 + s * (a.c2 * b.c2) := rfl
@[simp] theorem nsmul_c0 (n : ℕ) (a : PQ3 R s t) : (n • a).c0 = n • a.c0 := rfl
@[simp] theorem nsmul_c1 (n : ℕ) (a : PQ3 R s t) : (n • a).c1 = n • a.c1 := rfl
@[simp] theorem nsmul_c2 (n : ℕ) (a : PQ3 R s t) : (n • a).c2 = n • a.c2 := rfl
@[simp] theorem zsmul_c0 (n : ℤ) (a : PQ3 R s t) : (n • a).c0 = n • a.c0 := rfl
@[simp] theorem zsmul_c1 (n : ℤ) (a : PQ3 R s t) : (n • a).c1 = n • a.c1 := rfl
@[simp] theorem zsmul_c2 (n : ℤ) (a : PQ3 R s t) : (n • a).c2 = n • a.c2 := rfl
@[simp] theorem natCast_c0 (n : ℕ) : (n : PQ3 R s t).c0 = n := rfl
@[simp] theorem natCast_c1 (n : ℕ) : (n : PQ3 R s t).c1 = 0 := rfl
@[simp] theorem natCast_c2 (n : ℕ) : (n : PQ3 R s t).c2 = 0 := rfl
@[simp] theorem intCast_c0 (n : ℤ) : (n : PQ3 R s t).c0 = n := rfl
@[simp] theorem intCast_c1 (n : ℤ) : (n : PQ3 R s t).c1 = 0 := rfl
@[simp] theorem intCast_c2 (n : ℤ) : (n : PQ3 R s t).c2 = 0 := rfl

instance instCommRing : CommRing (PQ3 R s t) where
  add_assoc a b c := by ext <;> simp [add_assoc]
  zero_add a := by ext <;> simp
  add_zero a := by ext <;> simp
  add_comm a b := by ext <;> simp [add_comm]
  neg_add_cancel a := by ext <;> simp
  sub_eq_add_neg a b := by ext <;> simp [sub_eq_add_neg]
  nsmul n a := n • a
  nsmul_zero a := by ext <;> simp
  nsmul_succ n a := by ext <;> simp [add_mul]
  zsmul n a := n • a
  zsmul_zero' a := by ext <;> simp
  zsmul_succ' n a := by ext <;> simp [add_mul]
  zsmul_neg' n a := by ext <;> simp [add_mul]
  mul_assoc a b c := by ext <;> simp <;> ring
  one_mul a := by ext <;> simp
  mul_one a := by ext <;> simp
  zero_mul a := by ext <;> simp
  mul_zero a := by ext <;> simp
  left_distrib a b c := by ext <;> simp <;> ring
  right_distrib a b c := by ext <;> simp <;> ring
  mul_comm a b := by ext <;> simp <;> ring
  natCast_zero := by ext <;> simp
  natCast_succ n := by ext <;> simp
  intCast_ofNat n := by ext <;> simp
  intCast_negSucc n := by ext <;> simp

def C : R →+* PQ3 R s t where
  toFun x := ⟨x, 0, 0⟩
  map_one' := rfl
  map_mul' a b := by ext <;> simp
  map_zero' := rfl
  map_add' a b := by ext <;> simp

@[simp] theorem C_c0 (x : R) : (C x : PQ3 R s t).c0 = x := rfl
@[simp] theorem C_c1 (x : R) : (C x : PQ3 R s t).c1 = 0 := rfl
@[simp] theorem C_c2 (x : R) : (C x : PQ3 R s t).c2 = 0 := rfl

theorem C_injective : Function.Injective (C : R → PQ3 R s t) := fun a b h => by
  have := congrArg PQ3.c0 h
  simpa using this

def φ : PQ3 R s t := ⟨0, 1, 0⟩
@[simp] theorem φ_c0 : (φ : PQ3 R s t).c0 = 0 := rfl
@[simp] theorem φ_c1 : (φ : PQ3 R s t).c1 = 1 := rfl
@[simp] theorem φ_c2 : (φ : PQ3 R s t).c2 = 0 := rfl

theorem φ_sq : (φ : PQ3 R s t) ^ 2 = ⟨0, 0, 1⟩ := by
  ext <;> simp [pow_two]

/-- `φ` is a root of `x³ - s·x - t` -/
theorem φ_root : (φ : PQ3 R s t) ^ 3 - C s * φ - C t = 0 := by
  have h : (φ : PQ3 R s t) ^ 3 = φ ^ 2 * φ := by ring
  rw [h, φ_sq]
  ext <;> simp

theorem decomp (a : PQ3 R s t) : a = C a.c0 + C a.c1 * φ + C a.c2 * φ ^ 2 := by
  rw [φ_sq]
  ext <;> simp

def evalRoot {S : Type} [CommRing S] (i : R →+* S) (r : S) (hr : r ^ 3 = i s * r + i t) : PQ3 R s t →+* S where
  toFun a := i a.c0 + i a.c1 * r + i a.c2 * r ^ 2
  map_one' := by simp
  map_zero' := by simp
  map_add' a b := by simp; ring
  map_mul' a b := by
    simp only [mul_c0, mul_c1, mul_c2, map_add, map_mul]
    linear_combination
      (-(i a.c1 * i b.c2 + i a.c2 * i b.c1) - (i a.c2 * i b.c2) * r) * hr

end PQ3

-- ================================================================================================ field criterion
/-- A commutative ring `E` over a field `K` in which `x ^ n = x` for all `x` (some `n ≥ 2`) and whose idempotents
    all come from `K` is a field: every non-zero `x` has the inverse `x ^ (n - 2)`. -/
theorem mul_pow_eq_one_of_pow_eq_self {K E : Type} [Field K] [CommRing E] (i : K →+* E) (hi : Function.Injective i) (n : ℕ) (hn : 2 ≤ n)
    (hpow : ∀ x : E, x ^ n = x) (hidem : ∀ e : E, e * e = e → ∃ k : K, e = i k)
    (x : E) (hx : x ≠ 0) : x * x ^ (n - 2) = 1 := by
  have he : x * x ^ (n - 2) = x ^ (n - 1) := by
    rw [← pow_succ']
    congr 1
    omega
  have hidem' : (x ^ (n - 1)) * (x ^ (n - 1)) = x ^ (n - 1) := by
    have h1 : x ^ (n - 1) * x ^ (n - 1) = x ^ n * x ^ (n - 2) := by
      rw [← pow_add, ← pow_add]
      congr 1
      omega
    rw [h1, hpow x, he]
  obtain ⟨k, hk⟩ := hidem _ hidem'
  have hk2 : k * k = k := by
    have : i (k * k) = i k := by rw [map_mul, ← hk, hidem']
    exact hi this
  have hk01 : k = 0 ∨ k = 1 := by
    rcases eq_or_ne k 0 with h | h
    · exact Or.inl h
    · right
      exact mul_left_cancel₀ h (by rw [hk2, mul_one])
  rcases hk01 with h | h
  · exfalso
    apply hx
    have : x = x ^ (n - 1) * x := by
      rw [← pow_succ]
      have : n - 1 + 1 = n := by omega
      rw [this, hpow x]
    rw [this, hk, h, map_zero, zero_mul]
  · rw [he, hk, h, map_one]

end WinterProofs.C08L
