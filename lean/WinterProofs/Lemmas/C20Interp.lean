-- C20 helper lemmas, part 6: Lagrange interpolation (`interpolate`).
import WinterProofs.Lemmas.C20Utils

namespace WinterProofs.C20
open Model.Poly Polynomial

variable {α β F : Type} [Field F]

section
variable {O : Ops α} {v : α → F}

-- ------------------------------------------------------------------ accumulate

theorem toPoly_zipWith_acc (L : Lawful O v) (ysl : α) (result num : List α)
    (h : result.length ≤ num.length) :
    toPoly v (List.zipWith (fun res c => O.add res (O.mul c ysl)) result num) =
      toPoly v result + C (v ysl) * toPoly v (num.take result.length) := by
  induction result generalizing num with
  | nil => simp
  | cons r rs ih =>
    cases num with
    | nil => simp at h
    | cons c cs =>
      simp only [List.zipWith_cons_cons, toPoly_cons, List.length_cons, List.take_succ_cons]
      rw [ih cs (by simpa using h), L.add, L.mul]
      simp only [C_add, C_mul]
      ring

theorem accumulate_aux (num : List α) (ysl : α) (result : List α) (k : Nat)
    (h : k + result.length ≤ num.length) :
    mapM' (fun rj : α × Nat => (getAt num rj.2).bind fun c => .ok (O.add rj.1 (O.mul c ysl)))
      (result.zipIdx k) = .ok (List.zipWith (fun res c => O.add res (O.mul c ysl)) result (num.drop k)) := by
  induction result generalizing k with
  | nil => simp [mapM']
  | cons r rs ih =>
    have hk : k < num.length := by simp at h; omega
    rw [List.zipIdx_cons, mapM']
    simp only [getAt_ok num k hk, bind_ok]
    rw [ih (k + 1) (by simp at h ⊢; omega)]
    rw [List.drop_eq_getElem_cons hk, List.zipWith_cons_cons]

/-- `result[j] += num[j] * y_slice` for all `j`: no panic when `num` is long enough -/
theorem accumulate_spec (L : Lawful O v) (num : List α) (ysl : α) (result : List α)
    (h : result.length ≤ num.length) :
    ∃ r', accumulate O num ysl result = .ok r' ∧ r'.length = result.length ∧
      toPoly v r' = toPoly v result + C (v ysl) * toPoly v (num.take result.length) := by
  refine ⟨_, by simpa [accumulate] using accumulate_aux (O := O) num ysl result 0 (by omega), ?_, ?_⟩
  · simp; omega
  · simpa using toPoly_zipWith_acc L ysl result num h

-- ------------------------------------------------------------------ the accumulation loop

/-- the main loop of `interpolate` after `k` iterations -/
theorem interpLoop_spec (L : Lawful O v) (ys dinv : List α) (nums : List (List α)) (n m : Nat)
    (hy : ys.length = n) (hd : dinv.length = n) (hn : nums.length = n)
    (hm : ∀ N ∈ nums, m ≤ N.length) (init : List α) (hi : init.length = m) (k : Nat) (hk : k ≤ n) :
    ∃ r, loopM (List.range k) init (fun result i =>
        (getAt ys i).bind fun y => (getAt dinv i).bind fun d => (getAt nums i).bind fun num =>
        accumulate O num (O.mul y d) result) = .ok r ∧ r.length = m ∧
      toPoly v r = toPoly v init + ∑ i ∈ Finset.range k,
        C (v (ys.getD i O.zero) * v (dinv.getD i O.zero)) * toPoly v ((nums.getD i []).take m) := by
  induction k with
  | zero => exact ⟨init, rfl, hi, by simp⟩
  | succ k ih =>
    obtain ⟨r, e, l, p⟩ := ih (by omega)
    have hky : k < ys.length := by omega
    have hkd : k < dinv.length := by omega
    have hkn : k < nums.length := by omega
    obtain ⟨r', e', l', p'⟩ := accumulate_spec L nums[k] (O.mul ys[k] dinv[k]) r
      (by rw [l]; exact hm _ (List.getElem_mem hkn))
    refine ⟨r', ?_, by omega, ?_⟩
    · rw [List.range_succ, loopM_append, e, bind_ok]
      simp only [loopM, getAt_ok ys k hky, getAt_ok dinv k hkd, getAt_ok nums k hkn, bind_ok, e']
    · rw [p', p, Finset.sum_range_succ, L.mul, l]
      simp [List.getD_eq_getElem?_getD, hky, hkd, hkn]
      ring


-- ------------------------------------------------------------------ algebra of the numerators

theorem rootsPoly_append (l₁ l₂ : List F) : rootsPoly (l₁ ++ l₂) = rootsPoly l₁ * rootsPoly l₂ := by
  induction l₁ with
  | nil => simp
  | cons a l ih => simp [ih, mul_assoc]

theorem rootsPoly_middle (l₁ l₂ : List F) (a : F) :
    rootsPoly (l₁ ++ a :: l₂) = (X - C a) * rootsPoly (l₁ ++ l₂) := by
  simp only [rootsPoly_append, rootsPoly_cons]; ring

theorem eval_rootsPoly_eq_zero (l : List F) (x : F) (h : x ∈ l) : (rootsPoly l).eval x = 0 := by
  induction l with
  | nil => simp at h
  | cons a l ih =>
    rcases List.mem_cons.1 h with rfl | h
    · simp
    · simp [ih h]

theorem eval_rootsPoly_ne_zero (l : List F) (x : F) (h : x ∉ l) : (rootsPoly l).eval x ≠ 0 := by
  induction l with
  | nil => simp
  | cons a l ih =>
    have h1 : x ≠ a := fun e => h (by simp [e])
    have h2 : x ∉ l := fun e => h (by simp [e])
    simp only [rootsPoly_cons, eval_mul, eval_sub, eval_X, eval_C]
    exact mul_ne_zero (sub_ne_zero.2 h1) (ih h2)

/-- the `i`-th numerator `Z /ₘ (X - a_i)` is `∏_{k ≠ i} (X - a_k)` -/
theorem numerator_eq (l : List F) (i : Nat) (hi : i < l.length) :
    rootsPoly l /ₘ (X - C l[i]) = rootsPoly (l.take i ++ l.drop (i + 1)) := by
  have hl : l = l.take i ++ l[i] :: l.drop (i + 1) := by
    rw [List.getElem_cons_drop, List.take_append_drop]
  have h2 : rootsPoly l = (X - C l[i]) * rootsPoly (l.take i ++ l.drop (i + 1)) := by
    conv_lhs => rw [hl]
    exact rootsPoly_middle _ _ _
  rw [h2]
  exact mul_divByMonic_cancel_left _ (monic_X_sub_C _)

/-- value of the `i`-th numerator at the `j`-th point: zero off the diagonal, non-zero on it -/
theorem numerator_eval (l : List F) (hnd : l.Nodup) (i j : Nat) (hi : i < l.length) (hj : j < l.length) :
    (i ≠ j → (rootsPoly l /ₘ (X - C l[i])).eval l[j] = 0) ∧
    (rootsPoly l /ₘ (X - C l[i])).eval l[i] ≠ 0 := by
  rw [numerator_eq l i hi]
  have hl : l = l.take i ++ l[i] :: l.drop (i + 1) := by
    rw [List.getElem_cons_drop, List.take_append_drop]
  have hnd' : (l[i] :: (l.take i ++ l.drop (i + 1))).Nodup := by
    rw [← List.nodup_middle, ← hl]; exact hnd
  have hnot : l[i] ∉ l.take i ++ l.drop (i + 1) := (List.nodup_cons.1 hnd').1
  refine ⟨fun hij => ?_, eval_rootsPoly_ne_zero _ _ hnot⟩
  apply eval_rootsPoly_eq_zero
  have hmem : l[j] ∈ l.take i ++ l[i] :: l.drop (i + 1) := by rw [← hl]; exact List.getElem_mem hj
  rcases List.mem_append.1 hmem with h | h
  · exact List.mem_append_left _ h
  · rcases List.mem_cons.1 h with h | h
    · exact absurd ((List.Nodup.getElem_inj_iff hnd).1 h) (fun e => hij e.symm)
    · exact List.mem_append_right _ h

theorem dropWhile_idem {γ : Type} (q : γ → Bool) (l : List γ) :
    (l.dropWhile q).dropWhile q = l.dropWhile q := by
  induction l with
  | nil => rfl
  | cons a l ih =>
    rw [List.dropWhile_cons]
    split
    · exact ih
    · rename_i h
      rw [List.dropWhile_cons, if_neg h]

/-- removing leading zeros twice is removing them once -/
theorem removeLeadingZeros_idem (r : List α) :
    removeLeadingZeros O (removeLeadingZeros O r) = removeLeadingZeros O r := by
  simp [removeLeadingZeros, stripRev, dropWhile_idem]

theorem zip_map_self {γ δ : Type} (g : γ → δ) (xs : List γ) :
    (xs.map g).zip xs = xs.map fun x => (g x, x) := by
  induction xs with
  | nil => rfl
  | cons x xs ih => simp [ih]

/-- the last cell of a numerator is the literal `ZERO`, so dropping it does not change the polynomial -/
theorem toPoly_take_synDivLinear (L : Lawful O v) (p : List α) (b : α) (hp : p ≠ []) :
    toPoly v ((synDivLinear O p b).1.take (p.length - 1)) = toPoly v (synDivLinear O p b).1 := by
  obtain ⟨q, hq⟩ := synDivLinear_getLast (O := O) p b hp
  have hl : q.length = p.length - 1 := by
    have := length_synDivLinear (O := O) p b
    rw [hq] at this; simp at this; omega
  rw [hq, ← hl, List.take_left', toPoly_append]
  · simp [L.zero]
  · rfl

-- ------------------------------------------------------------------ interpolate

/-- `interpolate` with equally many X and Y coordinates and returning inversions: no panic, at most
    `n` coefficients (exactly `n` without `remove_leading_zeros`), and the Lagrange formula
    `Σ y_i · inv0(N_i(x_i)) · N_i` with `N_i = ∏(X - x_k) /ₘ (X - x_i)` -/
theorem interpolate_formula (L : Lawful O v) (hT : Total O) (xs ys : List α) (rlz : Bool)
    (hlen : xs.length = ys.length) :
    ∃ r, interpolate O xs ys rlz = .ok r ∧ r.length ≤ xs.length ∧
      (rlz = false → r.length = xs.length) ∧
      (rlz = true → r = removeLeadingZeros O r) ∧
      toPoly v r = ∑ i ∈ Finset.range xs.length,
        C (v (ys.getD i O.zero) *
            inv0 ((rootsPoly (xs.map v) /ₘ (X - C (v (xs.getD i O.zero)))).eval (v (xs.getD i O.zero)))) *
          (rootsPoly (xs.map v) /ₘ (X - C (v (xs.getD i O.zero)))) := by
  set R := fromRootsSpec O xs with hR
  have hRl : R.length = xs.length + 1 := length_fromRootsSpec xs
  have hRp : toPoly v R = rootsPoly (xs.map v) := toPoly_fromRootsSpec L xs
  have hRne : R ≠ [] := by intro h; rw [h] at hRl; simp at hRl
  -- numerators
  have hnum : mapM' (fun x => synDivRoots O R [x]) xs = .ok (xs.map fun x => (synDivLinear O R x).1) := by
    apply mapM'_eq_map
    intro x hx
    have : ¬ R.length ≤ 1 := by
      have : 0 < xs.length := List.length_pos_of_mem hx
      omega
    simp [synDivRoots, this]
  have hNp : ∀ x, toPoly v (synDivLinear O R x).1 = rootsPoly (xs.map v) /ₘ (X - C (v x)) := by
    intro x; rw [(synDivLinear_eq_divByMonic L R x).1, hRp]
  -- denominators and their inverses
  obtain ⟨dinv, hdinv⟩ := serialBatchInversion_total hT
    (xs.map fun x => eval O (synDivLinear O R x).1 x)
  obtain ⟨hdl, hdv⟩ := serialBatchInversion_spec L _ _ hdinv
  -- accumulation loop
  obtain ⟨r, er, lr, pr⟩ := interpLoop_spec L ys dinv (xs.map fun x => (synDivLinear O R x).1)
    xs.length xs.length hlen.symm (by simpa using hdl) (by simp)
    (by
      intro N hN
      obtain ⟨x, _, rfl⟩ := List.mem_map.1 hN
      rw [length_synDivLinear, hRl]; omega)
    (List.replicate xs.length O.zero) (by simp) xs.length (le_refl _)
  have hinterp : interpolate O xs ys rlz =
      .ok (if rlz then removeLeadingZeros O r else r) := by
    unfold interpolate
    simp only [hlen, ne_eq, not_true_eq_false, if_false]
    rw [polyFromRoots_eq, bind_ok, hnum, bind_ok, zip_map_self, List.map_map]
    rw [batchInversion]
    simp only [Function.comp_def]
    rw [hdinv, bind_ok, ← hlen, er, bind_ok]
  have hsum : toPoly v r = ∑ i ∈ Finset.range xs.length,
        C (v (ys.getD i O.zero) *
            inv0 ((rootsPoly (xs.map v) /ₘ (X - C (v (xs.getD i O.zero)))).eval (v (xs.getD i O.zero)))) *
          (rootsPoly (xs.map v) /ₘ (X - C (v (xs.getD i O.zero)))) := by
    rw [pr, toPoly_replicate_zero L, zero_add]
    apply Finset.sum_congr rfl
    intro i hi
    have hi' : i < xs.length := Finset.mem_range.1 hi
    have hid : i < dinv.length := by rw [hdl]; simpa using hi'
    have e1 : (xs.map fun x => (synDivLinear O R x).1).getD i [] = (synDivLinear O R xs[i]).1 := by
      simp [List.getD_eq_getElem?_getD, hi']
    have e2 : xs.getD i O.zero = xs[i] := by simp [List.getD_eq_getElem?_getD, hi']
    have e3 : v (dinv.getD i O.zero) =
        inv0 ((rootsPoly (xs.map v) /ₘ (X - C (v xs[i]))).eval (v xs[i])) := by
      have h1 : dinv.getD i O.zero = dinv[i] := by simp [List.getD_eq_getElem?_getD, hid]
      have h2 := congrArg (fun l => l[i]?) hdv
      simp only [List.getElem?_map, List.getElem?_eq_getElem hid, List.getElem?_eq_getElem hi',
        Option.map_some, Option.some.injEq] at h2
      rw [h1, h2, v_eval L, hNp]
    have e4 : toPoly v ((synDivLinear O R xs[i]).1.take xs.length) =
        rootsPoly (xs.map v) /ₘ (X - C (v xs[i])) := by
      have := toPoly_take_synDivLinear L R xs[i] hRne
      rw [hRl, Nat.add_sub_cancel] at this
      rw [this, hNp]
    rw [e1, e2, e3, e4]
  refine ⟨_, hinterp, ?_, ?_, ?_, ?_⟩
  · cases rlz
    · simp [lr]
    · simp only [if_true]
      have := (removeLeadingZeros_prefix (O := O) r).length_le
      omega
  · intro h; simp [h, lr]
  · intro h
    simp only [h, if_true]
    exact (removeLeadingZeros_idem r).symm
  · cases rlz
    · simpa using hsum
    · simp only [if_true]; rw [toPoly_removeLeadingZeros L]; exact hsum


/-- evaluating the Lagrange formula at the `j`-th point gives the `j`-th value (distinct points) -/
theorem lagrange_eval (l : List F) (hnd : l.Nodup) (y : Nat → F) (j : Nat) (hj : j < l.length) :
    (∑ i ∈ Finset.range l.length,
        C (y i * inv0 ((rootsPoly l /ₘ (X - C (l.getD i 0))).eval (l.getD i 0))) *
          (rootsPoly l /ₘ (X - C (l.getD i 0)))).eval l[j] = y j := by
  rw [eval_finsetSum, Finset.sum_eq_single j]
  · have e : l.getD j 0 = l[j] := by simp [List.getD_eq_getElem?_getD, hj]
    have hne := (numerator_eval l hnd j j hj hj).2
    rw [e, eval_mul, eval_C, inv0, if_neg hne]
    field_simp
  · intro i hi hij
    have hi' : i < l.length := Finset.mem_range.1 hi
    have e : l.getD i 0 = l[i] := by simp [List.getD_eq_getElem?_getD, hi']
    rw [e, eval_mul, (numerator_eval l hnd i j hi' hj).1 hij, mul_zero]
  · intro h; exact absurd (Finset.mem_range.2 hj) h

/-- `interpolate` inverts evaluation on pairwise distinct points -/
theorem interpolate_eval (L : Lawful O v) (hT : Total O) (xs ys : List α) (rlz : Bool)
    (hlen : xs.length = ys.length) (hnd : (xs.map v).Nodup) :
    ∃ r, interpolate O xs ys rlz = .ok r ∧ r.length ≤ xs.length ∧
      (rlz = false → r.length = xs.length) ∧
      (rlz = true → r = removeLeadingZeros O r) ∧
      ∀ j (hj : j < xs.length), (toPoly v r).eval (v xs[j]) = v (ys[j]'(hlen ▸ hj)) := by
  obtain ⟨r, e, l1, l2, l3, p⟩ := interpolate_formula L hT xs ys rlz hlen
  refine ⟨r, e, l1, l2, l3, fun j hj => ?_⟩
  have hj' : j < (xs.map v).length := by simpa using hj
  have := lagrange_eval (xs.map v) hnd (fun i => v (ys.getD i O.zero)) j hj'
  simp only [List.length_map, List.getElem_map] at this
  rw [p]
  have hy : v (ys.getD j O.zero) = v (ys[j]'(hlen ▸ hj)) := by
    have : j < ys.length := hlen ▸ hj
    simp [List.getD_eq_getElem?_getD, this]
  rw [← hy, ← this]
  congr 1
  apply Finset.sum_congr rfl
  intro i hi
  have hi' : i < xs.length := Finset.mem_range.1 hi
  have e1 : (xs.map v).getD i 0 = v (xs.getD i O.zero) := by
    simp [List.getD_eq_getElem?_getD, hi']
  rw [e1]


-- ------------------------------------------------------------------ uniqueness

/-- a polynomial vanishing at pairwise distinct points is divisible by `∏ (X − a_i)` -/
theorem rootsPoly_dvd_of_eval_eq_zero (l : List F) (hnd : l.Nodup) (D : F[X])
    (h : ∀ a ∈ l, D.eval a = 0) : rootsPoly l ∣ D := by
  induction l generalizing D with
  | nil => simp
  | cons a l ih =>
    have ha : D.eval a = 0 := h a (by simp)
    obtain ⟨D', hD'⟩ := dvd_iff_isRoot.2 ha
    have hnd' := List.nodup_cons.1 hnd
    have hD'0 : ∀ b ∈ l, D'.eval b = 0 := by
      intro b hb
      have hb0 := h b (by simp [hb])
      rw [hD', eval_mul, eval_sub, eval_X, eval_C] at hb0
      have hne : b - a ≠ 0 := sub_ne_zero.2 (fun e => hnd'.1 (e ▸ hb))
      exact (mul_eq_zero.1 hb0).resolve_left hne
    obtain ⟨E, hE⟩ := ih hnd'.2 D' hD'0
    exact ⟨E, by rw [rootsPoly_cons, hD', hE]; ring⟩

/-- two polynomials of degree `< n` that agree on `n` pairwise distinct points are equal -/
theorem eq_of_eval_eq_on (l : List F) (hnd : l.Nodup) (f g : F[X])
    (hf : f.degree < (l.length : WithBot ℕ)) (hg : g.degree < (l.length : WithBot ℕ))
    (h : ∀ a ∈ l, f.eval a = g.eval a) : f = g := by
  have hdvd := rootsPoly_dvd_of_eval_eq_zero l hnd (f - g) (fun a ha => by simp [h a ha])
  have hdeg : (f - g).degree < (rootsPoly l).degree := by
    rw [degree_eq_natDegree (monic_rootsPoly l).ne_zero, natDegree_rootsPoly]
    exact lt_of_le_of_lt (degree_sub_le f g) (max_lt hf hg)
  exact sub_eq_zero.1 (eq_zero_of_dvd_of_degree_lt hdvd hdeg)

/-- interpolating the values of a polynomial with at most `n` coefficients on `n` pairwise distinct
    points gives that polynomial back -/
theorem interpolate_evalMany (L : Lawful O v) (hT : Total O) (xs p : List α)
    (hnd : (xs.map v).Nodup) (hp : p.length ≤ xs.length) :
    ∃ r, interpolate O xs (evalMany O p xs) false = .ok r ∧ r.length = xs.length ∧
      toPoly v r = toPoly v p := by
  have hlen : xs.length = (evalMany O p xs).length := by simp [evalMany]
  obtain ⟨r, e, _, l2, _, h⟩ := interpolate_eval L hT xs (evalMany O p xs) false hlen hnd
  refine ⟨r, e, l2 rfl, ?_⟩
  apply eq_of_eval_eq_on (xs.map v) hnd
  · have := toPoly_length_lt v r
    rw [l2 rfl] at this
    simpa using this
  · refine lt_of_lt_of_le (toPoly_length_lt v p) ?_
    simpa using hp
  · intro a ha
    obtain ⟨j, hj, rfl⟩ := List.getElem_of_mem ha
    have hj' : j < xs.length := by simpa using hj
    rw [List.getElem_map, h j hj']
    simp [evalMany, v_eval L]

end

end WinterProofs.C20
