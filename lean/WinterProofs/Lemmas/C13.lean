-- C13 helper lemmas: the adapter's primitive steps preserve the abstraction `St.abs` and the invariant
import Winter.Model.Reader
import WinterProofs.Lemmas.C13Generic

namespace WinterProofs.C13
open Model.Reader

/-- A source that honours the `std::io::Read` end-of-stream contract: once a read has returned `Ok(0)`
    (an empty chunk) no byte follows. Chunk boundaries are otherwise arbitrary. -/
def Fused : List (List Nat) → Prop
  | [] => True
  | c :: rest => (c = [] → rest.flatten = []) ∧ Fused rest

/-- Representation invariant of the adapter state. -/
structure Inv (s : St) : Prop where
  fused : Fused s.src
  pos_le : s.pos ≤ s.buf.length
  eof : s.eofSeen = true → s.rbuf = [] ∧ s.src.flatten = []
  geof : s.geof = true → s.eofSeen = true

instance decFused : ∀ l : List (List Nat), Decidable (Fused l)
  | [] => .isTrue trivial
  | c :: rest =>
    have := decFused rest
    show Decidable ((c = [] → rest.flatten = []) ∧ Fused rest) from inferInstance

theorem fused_of_flatten_nil : ∀ l : List (List Nat), l.flatten = [] → Fused l
  | [], _ => trivial
  | c :: rest, h => by
    have h' : c = [] ∧ rest.flatten = [] := by simpa using h
    exact ⟨fun _ => h'.2, fused_of_flatten_nil rest h'.2⟩

theorem fused_of_nonempty : ∀ l : List (List Nat), (∀ c ∈ l, c ≠ []) → Fused l
  | [], _ => trivial
  | c :: rest, h =>
    ⟨fun hc => absurd hc (h c (by simp)), fused_of_nonempty rest (fun d hd => h d (by simp [hd]))⟩

theorem fused_append : ∀ l k : List (List Nat), (∀ c ∈ l, c ≠ []) → Fused k → Fused (l ++ k)
  | [], _, _, hk => hk
  | c :: rest, k, h, hk =>
    ⟨fun hc => absurd hc (h c (by simp)), fused_append rest k (fun d hd => h d (by simp [hd])) hk⟩

theorem inv_new (chunks : List (List Nat)) (orc : List Bool) (h : Fused chunks) : Inv (St.new chunks orc) :=
  ⟨h, by simp [St.new], by simp [St.new], by simp [St.new]⟩

theorem abs_new (chunks : List (List Nat)) (orc : List Bool) : (St.new chunks orc).abs = chunks.flatten := by
  simp [St.new, St.abs, St.unread]

-- ------------------------------------------------------------------------------------------ fill
theorem fill_buf (s : St) : (St.fill s).buf = s.buf := by
  unfold St.fill; split
  · split <;> rfl
  · rfl
theorem fill_pos (s : St) : (St.fill s).pos = s.pos := by
  unfold St.fill; split
  · split <;> rfl
  · rfl
theorem fill_geof (s : St) : (St.fill s).geof = s.geof := by
  unfold St.fill; split
  · split <;> rfl
  · rfl
theorem fill_orc (s : St) : (St.fill s).orc = s.orc := by
  unfold St.fill; split
  · split <;> rfl
  · rfl
theorem fill_unread (s : St) : (St.fill s).unread = s.unread := by
  simp [St.unread, fill_buf, fill_pos]

theorem fill_abs (s : St) : (St.fill s).abs = s.abs := by
  unfold St.fill
  split
  · rename_i h
    have hr : s.rbuf = [] := by simpa using h
    split
    · rfl
    · rename_i c rest hsrc
      simp [St.abs, St.unread, hr, hsrc]
  · rfl

theorem fill_inv (s : St) (h : Inv s) : Inv (St.fill s) := by
  unfold St.fill
  split
  · rename_i hre
    have hr : s.rbuf = [] := by simpa using hre
    split
    · rename_i hsrc
      exact ⟨h.fused, h.pos_le, fun _ => ⟨hr, by simp [hsrc]⟩, fun hg => by simp⟩
    · rename_i c rest hsrc
      have hf : Fused (c :: rest) := hsrc ▸ h.fused
      refine ⟨hf.2, h.pos_le, ?_, fun hg => ?_⟩
      · intro he
        have he' : s.eofSeen = true ∨ c = [] := by simpa using he
        have hc : c = [] := by
          rcases he' with he' | he'
          · have := (h.eof he').2
            rw [hsrc] at this
            have h2 : c = [] ∧ rest.flatten = [] := by simpa using this
            exact h2.1
          · exact he'
        exact ⟨hc, hf.1 hc⟩
      · have := h.geof hg
        simp [this]
  · exact h

/-- when `fill_buf` comes back empty the stream has ended: nothing is left in the source either -/
theorem fill_empty (s : St) (h : Inv s) (he : (St.fill s).rbuf = []) :
    (St.fill s).src.flatten = [] ∧ (St.fill s).eofSeen = true := by
  by_cases hre : s.rbuf.isEmpty = true
  · unfold St.fill at he ⊢
    simp only [hre, if_true] at he ⊢
    split
    · rename_i hsrc
      simp [hsrc]
    · rename_i c rest hsrc
      have hf : Fused (c :: rest) := hsrc ▸ h.fused
      simp only [hsrc] at he
      have hc : c = [] := he
      exact ⟨hf.1 hc, by simp [hc]⟩
  · have hfs : St.fill s = s := by unfold St.fill; simp [hre]
    rw [hfs] at he
    simp [he] at hre


-- ------------------------------------------------------------------------------------------ Mem
theorem mem_readU8_nil : Mem.readU8 [] = (.eof, []) := rfl
theorem mem_readU8_cons (b : Nat) (l : List Nat) : Mem.readU8 (b :: l) = (.ok b, l) := rfl
theorem mem_peekU8_nil : Mem.peekU8 [] = (.eof, []) := rfl
theorem mem_peekU8_cons (b : Nat) (l : List Nat) : Mem.peekU8 (b :: l) = (.ok b, b :: l) := rfl
theorem mem_readSlice (n : Nat) (l : List Nat) :
    Mem.readSlice n l = if l.length < n then (.eof, l) else (.ok (l.take n), l.drop n) := rfl
theorem mem_readArray (n : Nat) (l : List Nat) :
    Mem.readArray n l = if l.length < n then (.eof, l) else (.ok (l.take n), l.drop n) := rfl
theorem mem_hasMore (l : List Nat) : Mem.hasMore l = (!l.isEmpty, l) := rfl

-- ------------------------------------------------------------------------------------------ pop / peek
theorem unread_length (s : St) : s.unread.length = s.buf.length - s.pos := by
  simp [St.unread]

theorem unread_cons {s : St} {b : Nat} {t : List Nat} (hu : s.unread = b :: t) :
    s.pos < s.buf.length ∧ s.buf.drop (s.pos + 1) = t := by
  constructor
  · have := unread_length s
    rw [hu] at this
    simp at this
    omega
  · have := congrArg List.tail hu
    simpa [St.unread, List.tail_drop] using this

theorem pop_refines (s : St) (hs : Inv s) : Agree Inv St.abs (St.pop s) (Mem.readU8 s.abs) := by
  unfold St.pop
  split
  · rename_i b t hu
    obtain ⟨hlt, hdrop⟩ := unread_cons hu
    have habs : s.abs = b :: (t ++ s.rbuf ++ s.src.flatten) := by simp [St.abs, hu]
    rw [habs, mem_readU8_cons]
    refine ⟨rfl, ?_, ⟨hs.fused, hlt, hs.eof, hs.geof⟩⟩
    simp [St.abs, St.unread, hdrop]
  · rename_i hu
    have hf := fill_inv s hs
    have hfu : (St.fill s).unread = [] := by rw [fill_unread]; exact hu
    dsimp only
    split
    · rename_i b r hr
      have habs : s.abs = b :: (r ++ (St.fill s).src.flatten) := by
        rw [← fill_abs]; simp [St.abs, hfu, hr]
      rw [habs, mem_readU8_cons]
      refine ⟨rfl, ?_, ⟨hf.fused, hf.pos_le, ?_, hf.geof⟩⟩
      · simp only [St.abs, St.unread] at hfu ⊢
        simp [hfu]
      · intro he
        have := (hf.eof he).1
        simp [hr] at this
    · rename_i hr
      obtain ⟨hsrc, hes⟩ := fill_empty s hs hr
      have habs : s.abs = [] := by
        rw [← fill_abs]; simp [St.abs, hfu, hr, hsrc]
      rw [habs, mem_readU8_nil]
      refine ⟨rfl, ?_, ⟨hf.fused, hf.pos_le, hf.eof, fun _ => hes⟩⟩
      simp only [St.abs, St.unread] at hfu ⊢
      simp [hfu, hr, hsrc]

theorem peekU8_refines (s : St) (hs : Inv s) : Agree Inv St.abs (St.peekU8 s) (Mem.peekU8 s.abs) := by
  unfold St.peekU8
  split
  · rename_i b t hu
    have habs : s.abs = b :: (t ++ s.rbuf ++ s.src.flatten) := by simp [St.abs, hu]
    rw [habs, mem_peekU8_cons]
    exact ⟨rfl, habs, hs⟩
  · rename_i hu
    have hf := fill_inv s hs
    have hfu : (St.fill s).unread = [] := by rw [fill_unread]; exact hu
    dsimp only
    split
    · rename_i b r hr
      have habs : s.abs = b :: (r ++ (St.fill s).src.flatten) := by
        rw [← fill_abs]; simp [St.abs, hfu, hr]
      rw [habs, mem_peekU8_cons]
      exact ⟨rfl, by rw [fill_abs]; exact habs, hf⟩
    · rename_i hr
      obtain ⟨hsrc, hes⟩ := fill_empty s hs hr
      have habs : s.abs = [] := by
        rw [← fill_abs]; simp [St.abs, hfu, hr, hsrc]
      rw [habs, mem_peekU8_nil]
      exact ⟨rfl, by rw [fill_abs]; exact habs, hf⟩

theorem hasMore_refines (s : St) (hs : Inv s) : Agree Inv St.abs (St.hasMore s) (Mem.hasMore s.abs) := by
  unfold St.hasMore
  rw [mem_hasMore]
  split
  · rename_i hu
    have hu' : s.unread = [] := by simpa using hu
    have hf := fill_inv s hs
    have hfu : (St.fill s).unread = [] := by rw [fill_unread]; exact hu'
    refine ⟨?_, fill_abs s, hf⟩
    by_cases hr : (St.fill s).rbuf = []
    · obtain ⟨hsrc, _⟩ := fill_empty s hs hr
      have habs : s.abs = [] := by
        rw [← fill_abs]; simp [St.abs, hfu, hr, hsrc]
      simp [hr, habs]
    · have habs : s.abs ≠ [] := by
        rw [← fill_abs]; simp [St.abs, hr]
      rw [Bool.eq_iff_iff]; simp [hr, habs]
  · rename_i hu
    have habs : s.abs ≠ [] := by
      intro h0
      simp [St.abs] at h0
      simp [h0.1] at hu
    refine ⟨?_, rfl, hs⟩
    simp [habs]

theorem checkEor_spec (n : Nat) (s : St) (hs : Inv s) :
    (St.checkEor s n).2.abs = s.abs ∧ Inv (St.checkEor s n).2 ∧
      ((St.checkEor s n).1 = .ok () ∨ ((St.checkEor s n).1 = .eof ∧ s.abs.length < n)) := by
  unfold St.checkEor
  simp only
  split
  · exact ⟨rfl, hs, Or.inl rfl⟩
  · rename_i hlt
    have hf := fill_inv s hs
    split
    · rename_i hr
      have hr' : (St.fill s).rbuf = [] := by simpa using hr
      obtain ⟨hsrc, _⟩ := fill_empty s hs hr'
      refine ⟨fill_abs s, hf, Or.inr ⟨rfl, ?_⟩⟩
      rw [← fill_abs]
      simp [St.abs, hr', hsrc, fill_unread]
      omega
    · split
      · exact ⟨fill_abs s, hf, Or.inl rfl⟩
      · rename_i hr hlt2
        split
        · rename_i hg
          have he := hf.geof hg
          have := (hf.eof he).1
          simp [this] at hr
        · exact ⟨fill_abs s, hf, Or.inl rfl⟩

-- ------------------------------------------------------------------------------------------ buffer_at_least
/-- bound on the remaining iterations of the `buffer_at_least` loop -/
def loopMeasure (s : St) : Nat := s.src.length + (if s.rbuf = [] then 0 else 1)

theorem fill_src_lt (s : St) (h : (St.fill s).rbuf ≠ []) : (St.fill s).src.length + 1 ≤ loopMeasure s := by
  by_cases hre : s.rbuf.isEmpty = true
  · have hr : s.rbuf = [] := by simpa using hre
    unfold St.fill at h ⊢
    simp only [hre, if_true] at h ⊢
    split
    · rename_i hsrc
      simp [hsrc, hr] at h
    · rename_i c rest hsrc
      simp [loopMeasure, hr, hsrc]
  · have hfs : St.fill s = s := by unfold St.fill; simp [hre]
    have hr : s.rbuf ≠ [] := by simpa using hre
    rw [hfs]
    simp [loopMeasure, hr]

theorem fillMut_false (s : St) (hs : Inv s) (h : (St.fillMut s).1 = false) :
    (St.fillMut s).2.abs = s.abs ∧ Inv (St.fillMut s).2 ∧ s.abs = s.unread ∧
      (St.fillMut s).2.orc = s.orc := by
  unfold St.fillMut at h ⊢
  simp only at h ⊢
  by_cases hr : (St.fill s).rbuf.isEmpty = true
  · have hr' : (St.fill s).rbuf = [] := by simpa using hr
    obtain ⟨hsrc, hes⟩ := fill_empty s hs hr'
    have hf := fill_inv s hs
    simp only [hr, if_true]
    refine ⟨?_, ⟨hf.fused, hf.pos_le, hf.eof, fun _ => hes⟩, ?_, fill_orc s⟩
    · exact fill_abs s
    · rw [← fill_abs]; simp [St.abs, hr', hsrc, fill_unread]
  · simp [hr] at h

theorem fillMut_true (s : St) (h : (St.fillMut s).1 = true) :
    (St.fillMut s).2 = St.fill s ∧ (St.fill s).rbuf ≠ [] := by
  unfold St.fillMut at h ⊢
  simp only at h ⊢
  by_cases hr : (St.fill s).rbuf.isEmpty = true
  · simp [hr] at h
  · simp only [hr]
    exact ⟨rfl, by simpa using hr⟩

/-- moving the whole `BufReader` buffer into `buf` (one iteration of the loop) -/
theorem absorb_spec (s1 : St) (h1 : Inv s1) (hne : s1.rbuf ≠ []) :
    let s2 : St := { s1 with buf := s1.buf ++ s1.rbuf, rbuf := [] }
    s2.abs = s1.abs ∧ Inv s2 ∧ loopMeasure s2 = s1.src.length ∧ s2.orc = s1.orc := by
  refine ⟨?_, ⟨h1.fused, ?_, ?_, h1.geof⟩, ?_, rfl⟩
  · simp [St.abs, St.unread, List.drop_append_of_le_length h1.pos_le]
  · simp; have := h1.pos_le; omega
  · intro he
    exact absurd (h1.eof he).1 hne
  · simp [loopMeasure]

theorem bufferAtLeastF_spec : ∀ (fuel : Nat) (s : St) (count : Nat), Inv s → loopMeasure s < fuel →
    (St.bufferAtLeastF fuel s count).2.abs = s.abs ∧ Inv (St.bufferAtLeastF fuel s count).2 ∧
      (St.bufferAtLeastF fuel s count).2.orc = s.orc ∧
      (((St.bufferAtLeastF fuel s count).1 = .ok () ∧ count ≤ (St.bufferAtLeastF fuel s count).2.unread.length) ∨
        ((St.bufferAtLeastF fuel s count).1 = .eof ∧ s.abs.length < count))
  | 0, s, count, _, hm => by omega
  | fuel + 1, s, count, hs, hm => by
    unfold St.bufferAtLeastF
    split
    · rename_i hge
      exact ⟨rfl, hs, rfl, Or.inl ⟨rfl, hge⟩⟩
    · rename_i hlt
      simp only
      by_cases hr : (St.fillMut s).1 = true
      · obtain ⟨he, hne⟩ := fillMut_true s hr
        simp only [hr, if_true]
        rw [he]
        have h1 := fill_inv s hs
        obtain ⟨a1, a2, a3, a4⟩ := absorb_spec (St.fill s) h1 hne
        have hlt' := fill_src_lt s hne
        obtain ⟨b1, b2, b3, b4⟩ := bufferAtLeastF_spec fuel _ count a2 (by omega)
        refine ⟨by rw [b1, a1, fill_abs], b2, by rw [b3, a4, fill_orc], ?_⟩
        rcases b4 with b4 | b4
        · exact Or.inl b4
        · refine Or.inr ⟨b4.1, ?_⟩
          have := b4.2
          rw [a1, fill_abs] at this
          exact this
      · have hr' : (St.fillMut s).1 = false := by simpa using hr
        obtain ⟨c1, c2, c3, c4⟩ := fillMut_false s hs hr'
        simp only [hr']
        refine ⟨c1, c2, c4, Or.inr ⟨rfl, ?_⟩⟩
        rw [c3]; omega

theorem bufferAtLeast_spec (s : St) (count : Nat) (hs : Inv s) :
    (St.bufferAtLeast s count).2.abs = s.abs ∧ Inv (St.bufferAtLeast s count).2 ∧
      (St.bufferAtLeast s count).2.orc = s.orc ∧
      (((St.bufferAtLeast s count).1 = .ok () ∧ count ≤ (St.bufferAtLeast s count).2.unread.length) ∨
        ((St.bufferAtLeast s count).1 = .eof ∧ s.abs.length < count)) := by
  unfold St.bufferAtLeast
  apply bufferAtLeastF_spec _ _ _ hs
  unfold loopMeasure
  split <;> omega


-- ------------------------------------------------------------------------------------------ read_slice / read_exact
/-- taking `N` bytes through `buf` (the body shared by `read_slice` and the fallback of `read_exact`) -/
theorem exactFromBuf_refines (N : Nat) (s : St) (hs : Inv s) :
    Agree Inv St.abs (St.exactFromBuf s N) (Mem.readArray N s.abs) ∧ (St.exactFromBuf s N).2.orc = s.orc := by
  obtain ⟨a1, a2, a3, a4⟩ := bufferAtLeast_spec s N hs
  rcases hb : St.bufferAtLeast s N with ⟨r, s2⟩
  rw [hb] at a1 a2 a3 a4
  simp only at a1 a2 a3 a4
  unfold St.exactFromBuf andThen
  rw [mem_readArray]
  simp only [hb]
  rcases a4 with ⟨hr, hlen⟩ | ⟨hr, hlen⟩
  · subst hr
    have hnl : ¬ s2.unread.length < N := by omega
    have habs : s.abs = s2.unread ++ (s2.rbuf ++ s2.src.flatten) := by
      rw [← a1]; simp [St.abs]
    have hle : ¬ s.abs.length < N := by rw [habs]; simp; omega
    simp only [hnl, hle, if_false]
    have hul := unread_length s2
    refine ⟨⟨?_, ?_, ⟨a2.fused, ?_, a2.eof, a2.geof⟩⟩, a3⟩
    · simp only
      rw [habs, List.take_append_of_le_length hlen]
    · simp only
      rw [habs, List.drop_append_of_le_length hlen]
      simp [St.abs, St.unread, List.drop_drop]
    · have := a2.pos_le
      simp only; omega
  · subst hr
    simp only [hlen, if_true]
    exact ⟨⟨rfl, a1, a2⟩, a3⟩

theorem readSlice_refines (n : Nat) (s : St) (hs : Inv s) :
    Agree Inv St.abs (St.readSlice s n) (Mem.readSlice n s.abs) := by
  unfold St.readSlice
  by_cases h0 : n = 0
  · subst h0
    simp only [if_true]
    rw [mem_readSlice]
    simp
    exact ⟨rfl, rfl, hs⟩
  · simp only [h0, if_false]
    -- the state after the (possible) compaction
    have key : ∀ s1 : St, Inv s1 → s1.abs = s.abs →
        Agree Inv St.abs (St.exactFromBuf s1 n) (Mem.readSlice n s.abs) := by
      intro s1 h1 ha
      have := (exactFromBuf_refines n s1 h1).1
      rw [ha] at this
      exact this
    split
    · rename_i hc
      apply key
      · refine ⟨hs.fused, by simp, hs.eof, hs.geof⟩
      · simp [St.abs, St.unread]
    · apply key
      · exact ⟨hs.fused, hs.pos_le, hs.eof, hs.geof⟩
      · rfl

theorem resetIfDrained_spec (s : St) (hs : Inv s) :
    (St.resetIfDrained s).abs = s.abs ∧ Inv (St.resetIfDrained s) := by
  unfold St.resetIfDrained
  split
  · rename_i h
    have hu : s.unread = [] := by simpa using h.1
    refine ⟨?_, ⟨hs.fused, by simp, hs.eof, hs.geof⟩⟩
    simp [St.abs, St.unread] at hu ⊢
    exact hu
  · exact ⟨rfl, hs⟩

theorem readExact_refines (N : Nat) (hN : N ≠ 0) (s : St) (hs : Inv s) :
    Agree Inv St.abs (St.readExact s N) (Mem.readArray N s.abs) := by
  unfold St.readExact
  simp only
  have hul := unread_length s
  split
  · -- nothing buffered in `buf`
    rename_i hn
    have hu : s.unread = [] := List.eq_nil_of_length_eq_zero hn
    by_cases hr : (St.fillMut s).1 = true
    · obtain ⟨he, hne⟩ := fillMut_true s hr
      simp only [hr, if_true]
      rw [he]
      have h1 := fill_inv s hs
      split
      · have := (exactFromBuf_refines N (St.fill s) h1).1
        rw [fill_abs] at this
        exact this
      · rename_i hlen
        have hlen' : N ≤ (St.fill s).rbuf.length := by omega
        have hfu : (St.fill s).unread = [] := by rw [fill_unread]; exact hu
        have habs : s.abs = (St.fill s).rbuf ++ (St.fill s).src.flatten := by
          rw [← fill_abs]; simp [St.abs, hfu]
        have hi2 : Inv { St.fill s with rbuf := (St.fill s).rbuf.drop N } := by
          refine ⟨h1.fused, h1.pos_le, ?_, h1.geof⟩
          intro he2
          exact absurd (h1.eof he2).1 hne
        obtain ⟨r1, r2⟩ := resetIfDrained_spec _ hi2
        rw [mem_readArray]
        have hle : ¬ s.abs.length < N := by rw [habs]; simp; omega
        simp only [hle, if_false]
        refine ⟨?_, ?_, r2⟩
        · simp only
          rw [habs, List.take_append_of_le_length hlen']
        · simp only
          rw [r1, habs, List.drop_append_of_le_length hlen']
          simp only [St.abs, St.unread] at hfu ⊢
          simp [hfu]
    · have hr' : (St.fillMut s).1 = false := by simpa using hr
      obtain ⟨c1, c2, c3, _⟩ := fillMut_false s hs hr'
      simp only [hr']
      rw [mem_readArray]
      have hlt : s.abs.length < N := by rw [c3, hu]; simp; omega
      simp only [hlt, if_true]
      exact ⟨rfl, c1, c2⟩
  · rename_i hn
    split
    · -- enough in `buf`
      rename_i hge
      have habs : s.abs = s.unread ++ (s.rbuf ++ s.src.flatten) := by simp [St.abs]
      have hi2 : Inv { s with pos := s.pos + N } := by
        refine ⟨hs.fused, ?_, hs.eof, hs.geof⟩
        simp only; omega
      obtain ⟨r1, r2⟩ := resetIfDrained_spec _ hi2
      rw [mem_readArray]
      have hle : ¬ s.abs.length < N := by rw [habs]; simp; omega
      simp only [hle, if_false]
      refine ⟨?_, ?_, r2⟩
      · simp only
        rw [habs, List.take_append_of_le_length hge]
      · simp only
        rw [r1, habs, List.drop_append_of_le_length hge]
        simp [St.abs, St.unread, List.drop_drop]
    · -- some, but fewer than N, in `buf`
      rename_i hlt
      by_cases hr : (St.fillMut s).1 = true
      · obtain ⟨he, hne⟩ := fillMut_true s hr
        simp only [hr, if_true]
        rw [he]
        have h1 := fill_inv s hs
        split
        · rename_i hmn
          have hfu : (St.fill s).unread = s.unread := fill_unread s
          have habs : s.abs = s.unread ++ ((St.fill s).rbuf ++ (St.fill s).src.flatten) := by
            rw [← fill_abs]; simp [St.abs, hfu]
          have hpos : (St.fill s).pos + s.unread.length = (St.fill s).buf.length := by
            rw [fill_pos, fill_buf]; have := hs.pos_le; omega
          have hi2 : Inv { St.fill s with pos := (St.fill s).pos + s.unread.length,
                                          rbuf := (St.fill s).rbuf.drop (N - s.unread.length) } := by
            refine ⟨h1.fused, ?_, ?_, h1.geof⟩
            · simp only; omega
            · intro he2
              exact absurd (h1.eof he2).1 hne
          obtain ⟨r1, r2⟩ := resetIfDrained_spec _ hi2
          rw [mem_readArray]
          have hle : ¬ s.abs.length < N := by rw [habs]; simp; omega
          simp only [hle, if_false]
          have hk : N - s.unread.length ≤ (St.fill s).rbuf.length := by omega
          have ht : s.unread.take N = s.unread := List.take_of_length_le (by omega)
          have hd : s.unread.drop N = [] := List.drop_eq_nil_of_le (by omega)
          refine ⟨?_, ?_, r2⟩
          · simp only
            rw [habs, hfu, List.take_append, ht, List.take_append_of_le_length hk]
          · simp only
            rw [r1, habs, List.drop_append, hd, List.drop_append_of_le_length hk]
            simp [St.abs, St.unread]
            omega
        · have := (exactFromBuf_refines N (St.fill s) h1).1
          rw [fill_abs] at this
          exact this
      · have hr' : (St.fillMut s).1 = false := by simpa using hr
        obtain ⟨c1, c2, c3, _⟩ := fillMut_false s hs hr'
        simp only [hr']
        rw [mem_readArray]
        have hlt' : s.abs.length < N := by rw [c3]; omega
        simp only [hlt', if_true]
        exact ⟨rfl, c1, c2⟩

theorem readArray_refines (N : Nat) (s : St) (hs : Inv s) :
    Agree Inv St.abs (St.readArray s N) (Mem.readArray N s.abs) := by
  unfold St.readArray
  by_cases h0 : N = 0
  · subst h0
    simp only [if_true]
    rw [mem_readArray]
    simp
    exact ⟨rfl, rfl, hs⟩
  · simp only [h0, if_false]
    exact readExact_refines N h0 s hs

/-- the required methods of the adapter refine the in-memory reader -/
theorem adapter_refines_mem : Refines St.reader Inv St.abs where
  readU8 := pop_refines
  peekU8 := peekU8_refines
  readSlice := readSlice_refines
  readArray := readArray_refines
  hasMore := hasMore_refines
  checkEor := checkEor_spec

-- ------------------------------------------------------------------------------------------ BufReader capacity
/-- the reads a 256-byte (or any capacity) `BufReader` performs deliver the same bytes in the same order,
    and keep the source contract -/
theorem splitCap_flatten (cap : Nat) : ∀ (fuel : Nat) (c : List Nat), (splitCap cap fuel c).flatten = c
  | 0, c => by simp [splitCap]
  | fuel + 1, c => by
    unfold splitCap
    split
    · simp
    · simp [splitCap_flatten cap fuel]

theorem capSplit_flatten (cap : Nat) : ∀ chunks : List (List Nat), (capSplit cap chunks).flatten = chunks.flatten
  | [] => rfl
  | c :: rest => by
    have := capSplit_flatten cap rest
    unfold capSplit at this ⊢
    simp [splitCap_flatten, this]

theorem splitCap_nonempty (cap : Nat) : ∀ (fuel : Nat) (c : List Nat), c ≠ [] →
    ∀ p ∈ splitCap cap fuel c, p ≠ []
  | 0, c, hc, p, hp => by simp [splitCap] at hp; rw [hp]; exact hc
  | fuel + 1, c, hc, p, hp => by
    unfold splitCap at hp
    split at hp
    · simp at hp; rw [hp]; exact hc
    · rename_i hcap
      have hcap' : ¬ c.length ≤ cap ∧ cap ≠ 0 := by simpa [not_or] using hcap
      simp at hp
      rcases hp with hp | hp
      · rw [hp]
        intro h0
        have := congrArg List.length h0
        rw [List.length_take, List.length_nil] at this
        omega
      · refine splitCap_nonempty cap fuel (c.drop cap) ?_ p hp
        intro h0
        have := congrArg List.length h0
        simp at this
        omega

theorem fused_capSplit (cap : Nat) : ∀ chunks : List (List Nat), Fused chunks → Fused (capSplit cap chunks)
  | [], _ => trivial
  | c :: rest, h => by
    have hrec := fused_capSplit cap rest h.2
    have hcs : capSplit cap (c :: rest) = splitCap cap c.length c ++ capSplit cap rest := by
      simp [capSplit]
    rw [hcs]
    by_cases hc : c = []
    · subst hc
      have hfl : (capSplit cap rest).flatten = [] := by rw [capSplit_flatten]; exact h.1 rfl
      have : splitCap cap ([] : List Nat).length [] = [[]] := by simp [splitCap]
      rw [this]
      exact ⟨fun _ => hfl, fused_of_flatten_nil _ hfl⟩
    · exact fused_append _ _ (splitCap_nonempty cap c.length c hc) hrec

end WinterProofs.C13
