-- C13 helper lemmas: the adapter's primitive steps preserve the abstraction `St.abs` and the invariant
import Winter.Model.Reader

namespace WinterProofs.C13
open Model.Reader

/-- A source that honours the `std::io::Read` end-of-stream contract: once a read has returned `Ok(0)`
    (an empty chunk) no byte follows. Chunk boundaries are otherwise arbitrary. -/
def Fused : List (List Nat) → Prop
  | [] => True
  | c :: rest => (c = [] → rest.flatten = []) ∧ Fused rest

/-- Representation invariant of the adapter state. -/
structure Inv (s : St) : Prop where
  fused : Fused s.src
  pos_le : s.pos ≤ s.buf.length
  eof : s.eofSeen = true → s.rbuf = [] ∧ s.src.flatten = []
  geof : s.geof = true → s.eofSeen = true

theorem fused_of_flatten_nil : ∀ l : List (List Nat), l.flatten = [] → Fused l
  | [], _ => trivial
  | c :: rest, h => by
    have h' : c = [] ∧ rest.flatten = [] := by simpa using h
    exact ⟨fun _ => h'.2, fused_of_flatten_nil rest h'.2⟩

theorem fused_of_nonempty : ∀ l : List (List Nat), (∀ c ∈ l, c ≠ []) → Fused l
  | [], _ => trivial
  | c :: rest, h =>
    ⟨fun hc => absurd hc (h c (by simp)), fused_of_nonempty rest (fun d hd => h d (by simp [hd]))⟩

theorem fused_append : ∀ l k : List (List Nat), (∀ c ∈ l, c ≠ []) → Fused k → Fused (l ++ k)
  | [], _, _, hk => hk
  | c :: rest, k, h, hk =>
    ⟨fun hc => absurd hc (h c (by simp)), fused_append rest k (fun d hd => h d (by simp [hd])) hk⟩

theorem inv_new (chunks : List (List Nat)) (orc : List Bool) (h : Fused chunks) : Inv (St.new chunks orc) :=
  ⟨h, by simp [St.new], by simp [St.new], by simp [St.new]⟩

theorem abs_new (chunks : List (List Nat)) (orc : List Bool) : (St.new chunks orc).abs = chunks.flatten := by
  simp [St.new, St.abs, St.unread]

-- ------------------------------------------------------------------------------------------ fill
theorem fill_buf (s : St) : (St.fill s).buf = s.buf := by
  unfold St.fill; split
  · split <;> rfl
  · rfl
theorem fill_pos (s : St) : (St.fill s).pos = s.pos := by
  unfold St.fill; split
  · split <;> rfl
  · rfl
theorem fill_geof (s : St) : (St.fill s).geof = s.geof := by
  unfold St.fill; split
  · split <;> rfl
  · rfl
theorem fill_orc (s : St) : (St.fill s).orc = s.orc := by
  unfold St.fill; split
  · split <;> rfl
  · rfl
theorem fill_unread (s : St) : (St.fill s).unread = s.unread := by
  simp [St.unread, fill_buf, fill_pos]

theorem fill_abs (s : St) : (St.fill s).abs = s.abs := by
  unfold St.fill
  split
  · rename_i h
    have hr : s.rbuf = [] := by simpa using h
    split
    · rfl
    · rename_i c rest hsrc
      simp [St.abs, St.unread, hr, hsrc]
  · rfl

theorem fill_inv (s : St) (h : Inv s) : Inv (St.fill s) := by
  unfold St.fill
  split
  · rename_i hre
    have hr : s.rbuf = [] := by simpa using hre
    split
    · rename_i hsrc
      exact ⟨h.fused, h.pos_le, fun _ => ⟨hr, by simp [hsrc]⟩, fun hg => by simp⟩
    · rename_i c rest hsrc
      have hf : Fused (c :: rest) := hsrc ▸ h.fused
      refine ⟨hf.2, h.pos_le, ?_, fun hg => ?_⟩
      · intro he
        have he' : s.eofSeen = true ∨ c = [] := by simpa using he
        have hc : c = [] := by
          rcases he' with he' | he'
          · have := (h.eof he').2
            rw [hsrc] at this
            have h2 : c = [] ∧ rest.flatten = [] := by simpa using this
            exact h2.1
          · exact he'
        exact ⟨hc, hf.1 hc⟩
      · have := h.geof hg
        simp [this]
  · exact h

/-- when `fill_buf` comes back empty the stream has ended: nothing is left in the source either -/
theorem fill_empty (s : St) (h : Inv s) (he : (St.fill s).rbuf = []) :
    (St.fill s).src.flatten = [] ∧ (St.fill s).eofSeen = true := by
  by_cases hre : s.rbuf.isEmpty = true
  · unfold St.fill at he ⊢
    simp only [hre, if_true] at he ⊢
    split
    · rename_i hsrc
      simp [hsrc]
    · rename_i c rest hsrc
      have hf : Fused (c :: rest) := hsrc ▸ h.fused
      simp only [hsrc] at he
      have hc : c = [] := he
      exact ⟨hf.1 hc, by simp [hc]⟩
  · have hfs : St.fill s = s := by unfold St.fill; simp [hre]
    rw [hfs] at he
    simp [he] at hre

end WinterProofs.C13
