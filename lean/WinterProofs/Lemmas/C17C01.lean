-- C17, towards C01: the integer side conditions under which C01's composition theorem imports "the
-- committed composition polynomial equals its definition" (`LowerLayers.c09_c16_c17_ood`: the highest
-- quotient degree fits the constraint evaluation domain) are what `committed_eq_definition` needs as
-- `hk`.  Only the shared glue model `Winter/Model/Protocol.lean` is imported, not C01's proof files.
import Winter.Model.Protocol
import WinterProofs.Lemmas.C17Basic

namespace WinterProofs.C17L
open Model.Divisor Model.Composition

/-- the same `TransitionConstraintDegree` in the two models -/
def toDivDegree (d : Model.Protocol.Degree) : Degree := ⟨d.base, d.cycles⟩

theorem evalDegree_toDivDegree (d : Model.Protocol.Degree) (n : ℕ) :
    (toDivDegree d).evalDegree n = d.evalDegree n := by
  unfold Degree.evalDegree Model.Protocol.Degree.evalDegree toDivDegree
  exact foldl_evalDegree d.cycles n _

theorem foldl_if_eq_foldl_max (ds : List Model.Protocol.Degree) (n a : ℕ) :
    (ds.map toDivDegree).foldl (fun h d => if d.evalDegree n > h then d.evalDegree n else h) a
      = (ds.map (·.evalDegree n)).foldl max a := by
  induction ds generalizing a with
  | nil => rfl
  | cons d ds ih =>
    simp only [List.map_cons, List.foldl_cons, evalDegree_toDivDegree]
    have : (if d.evalDegree n > a then d.evalDegree n else a) = max a (d.evalDegree n) := by
      split <;> omega
    rw [this, ih]

/-- `num_constraint_composition_columns` is the same number in the two models -/
theorem numCompColumns_eq_compositionColumns (ds : List Model.Protocol.Degree) (n e : ℕ) :
    numCompColumns (ds.map toDivDegree) n e = Model.Protocol.compositionColumns ds n e := by
  unfold numCompColumns Model.Protocol.compositionColumns Model.Protocol.highestDegree
  simp only [foldl_if_eq_foldl_max]

/-- C01's fit condition (the highest quotient degree is below the constraint evaluation domain size
    `n·ce`) gives the hypothesis `hk` of `committed_eq_definition`: the `k` columns fit the domain -/
theorem columns_fit_of_c01_condition (ds : List Model.Protocol.Degree) (n e ce : ℕ) (hn : 0 < n) (hce : 0 < ce)
    (h : Model.Protocol.highestDegree ds n - (n - e) ≤ n * ce - 1) :
    n * numCompColumns (ds.map toDivDegree) n e ≤ n * ce := by
  rw [numCompColumns_eq_compositionColumns]
  unfold Model.Protocol.compositionColumns
  apply Nat.mul_le_mul_left
  have hpos : 0 < n * ce := Nat.mul_pos hn hce
  have hlt : (Model.Protocol.highestDegree ds n - (n - e)) / n < ce :=
    (Nat.div_lt_iff_lt_mul hn).mpr (by rw [Nat.mul_comm ce n]; omega)
  exact max_le (by omega) hce

end WinterProofs.C17L
