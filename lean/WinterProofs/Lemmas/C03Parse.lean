-- C03 helper lemmas: the byte-level parsers of the proof's sub-structures accept no trailing bytes; what an
-- accepted channel parse (`VerifierChannel::new`) implies
import Winter.Model.VerifierChecks
import WinterProofs.Lemmas.C12Basic

namespace WinterProofs.C03L
open Model Model.VerifierChecks Model.Serde WinterProofs.C12L

/-- a decoder whose verdict and value do not change when bytes are appended to its input -/
def Stable (d : Dec α) : Prop := ∀ bs x r e, d bs = .ok (x, r) → d (bs ++ e) = .ok (x, r ++ e)

theorem stable_pure (a : α) : Stable (pure a : Dec α) := by
  intro bs x r e h
  have : (pure a : Dec α) bs = .ok (a, bs) := rfl
  rw [this] at h; injection h with h; injection h with h1 h2
  subst h1; subst h2; rfl

theorem stable_fail : Stable (Dec.fail : Dec α) := by
  intro bs x r e h; simp at h

theorem stable_bind {d : Dec α} {f : α → Dec β} (hd : Stable d) (hf : ∀ a, Stable (f a)) : Stable (d >>= f) := by
  intro bs x r e h
  simp only [bind_apply] at h ⊢
  cases hdb : d bs with
  | ok p =>
    obtain ⟨a, r1⟩ := p
    rw [hdb] at h
    simp only at h
    rw [hd bs a r1 e hdb]
    exact hf a r1 x r e h
  | err => rw [hdb] at h; cases h
  | eof => rw [hdb] at h; cases h
  | panic => rw [hdb] at h; cases h

theorem stable_readU8 : Stable readU8 := by
  intro bs x r e h
  cases bs with
  | nil => cases h
  | cons b bs => simp only [readU8] at h; injection h with h; injection h with h1 h2; subst h1; subst h2; rfl

theorem stable_readSlice (n : Nat) : Stable (readSlice n) := by
  intro bs x r e h
  rw [readSlice_eq] at h ⊢
  split at h
  · cases h
  · rename_i hl
    injection h with h; injection h with h1 h2
    have hl' : ¬ (bs ++ e).length < n := by simp; omega
    rw [if_neg hl', ← h1, ← h2]
    have : n ≤ bs.length := Nat.le_of_not_lt hl
    simp [List.take_append_of_le_length this, List.drop_append_of_le_length this]

theorem stable_readUInt (n : Nat) : Stable (readUInt n) :=
  stable_bind (stable_readSlice n) (fun _ => stable_pure _)

theorem stable_readMany {d : Dec α} (hd : Stable d) : ∀ n, Stable (readMany d n)
  | 0 => stable_pure _
  | n + 1 => stable_bind hd (fun _ => stable_bind (stable_readMany hd n) (fun _ => stable_pure _))

/-- **no trailing bytes**: a block that a stable decoder consumes completely is rejected (`UnconsumedBytes`)
    as soon as anything is appended to it -/
theorem runAll_trailing {d : Dec α} (hs : Stable d) {bs : Bytes} {x : α} (h : runAll d bs = .ok x) (e : Bytes)
    (he : e ≠ []) : runAll d (bs ++ e) = .err := by
  unfold runAll at h ⊢
  cases hd : d bs with
  | ok p =>
    obtain ⟨a, r⟩ := p
    rw [hd] at h
    simp only at h
    split at h
    · rename_i hr
      have hr' : r = [] := by simpa using hr
      rw [hs bs a r e hd, hr']
      simp [he]
    · cases h
  | err => rw [hd] at h; cases h
  | eof => rw [hd] at h; cases h
  | panic => rw [hd] at h; cases h

theorem stable_byteDigest (n : Nat) : Stable (byteDigest n).dec := stable_readSlice n

theorem stable_elem (F : FieldImpl) : Stable (elem F).dec := by
  apply stable_bind (stable_readUInt _)
  intro v
  by_cases h : v ≥ F.M
  · simp only [h, if_true]; exact stable_fail
  · simp only [h, if_false]; exact stable_pure _

theorem stable_array {c : Codec α} (hc : Stable c.dec) (n : Nat) : Stable (array n c).dec := stable_readMany hc n

theorem stable_extElem (F : FieldImpl) (ext : Nat) : Stable (extElem F ext).dec := stable_array (stable_elem F) ext

theorem stable_deserializeNodes {d : Codec δ} (hd : Stable d.dec) : Stable (deserializeNodes d) := by
  apply stable_bind stable_readU8
  intro n
  exact stable_readMany (stable_bind stable_readU8 (fun k => stable_readMany hd k)) n

/-- `Commitments::parse`: bytes appended to an accepted commitment block are an error -/
theorem commitments_no_trailing {d : Codec δ} (hd : Stable d.dec) (bytes : Bytes) (nt nf : Nat)
    (x : List δ × δ × List δ) (h : commitmentsParse d bytes nt nf = .ok x) (e : Bytes) (he : e ≠ []) :
    commitmentsParse d (bytes ++ e) nt nf = .err := by
  unfold commitmentsParse at h ⊢
  refine runAll_trailing ?_ h e he
  exact stable_bind (stable_readMany hd nt) (fun _ => stable_bind hd (fun _ =>
    stable_bind (stable_readMany hd (nf + 1)) (fun _ => stable_pure _)))

/-- `Queries::parse`: a value block or a node block with anything appended is an error -/
theorem queries_no_trailing {ε δ : Type} (e : Codec ε) (eb : Nat) {d : Codec δ} (hd : Stable d.dec) (q : Queries)
    (depth rows cols : Nat) (x : List (List ε) × List (List δ)) (h : queriesParse e eb d q depth rows cols = .ok x)
    (ex : Bytes) (hex : ex ≠ []) :
    queriesParse e eb d { q with values := q.values ++ ex } depth rows cols = .err ∧
    queriesParse e eb d { q with paths := q.paths ++ ex } depth rows cols = .err := by
  unfold queriesParse at h ⊢
  split at h; · cases h
  rename_i h0
  split at h; · cases h
  rename_i hlen
  have hlen' : q.values.length = rows * (eb * cols) := Decidable.of_not_not hlen
  split at h <;> try cases h
  rename_i t ht
  split at h; · cases h
  rename_i hdep
  split at h <;> try cases h
  rename_i nodes rest hn
  split at h <;> try cases h
  rename_i hrest
  have hr : rest = [] := by simpa using hrest
  subst hr
  constructor
  · rw [if_neg h0]
    have : (q.values ++ ex).length ≠ rows * (eb * cols) := by
      have : ex.length ≠ 0 := fun h => hex (List.eq_nil_of_length_eq_zero h)
      simp only [List.length_append]; omega
    simp only [this, ne_eq, not_false_eq_true, if_true]
  · simp only [h0, if_false, hlen, ht, hdep]
    have := stable_deserializeNodes hd q.paths nodes [] ex hn
    rw [this]
    simp [hex]

theorem friLayersParse_length {ε δ : Type} (e : Serde.Codec ε) (eb : Nat) (d : Serde.Codec δ) (folding : Nat) :
    ∀ (ls : List Serde.FriLayer) (dom : Nat) (xs : List (List (List ε) × List (List δ))),
      friLayersParse e eb d folding ls dom = .ok xs → xs.length = ls.length := by
  intro ls
  induction ls with
  | nil => intro dom xs h; simp only [friLayersParse] at h; injection h with h; rw [← h]; rfl
  | cons l ls ih =>
    intro dom xs h
    simp only [friLayersParse] at h
    split at h; · cases h
    split at h <;> try cases h
    split at h <;> try cases h
    rename_i x _ xs' hrec
    rw [List.length_cons, List.length_cons, ih _ _ hrec]

theorem channel_ok_facts (cfg : ChanCfg) (p : Serde.Proof) (c : ParsedChannel) (h : channelParse cfg p = .ok c) :
    p.numUniqueQueries ≠ 0 ∧ p.traceQueries.length = cfg.numSegments ∧
    p.friProof.layers.length = cfg.numFriLayers ∧
    (cfg.lagrangeLog = none → p.gkrProof = none) ∧
    c.oodLagrange.map List.length = cfg.lagrangeLog.map (· + 1) ∧
    c.gkr = p.gkrProof ∧ c.powNonce = p.powNonce ∧ c.friLayers.length = cfg.numFriLayers := by
  unfold channelParse at h
  simp only at h
  split at h <;> try cases h
  split at h; · cases h
  rename_i hnuq
  split at h; · cases h
  rename_i hseg
  split at h; · cases h
  split at h <;> try cases h
  split at h <;> try cases h
  split at h <;> try cases h
  split at h; · cases h
  rename_i hlay
  split at h <;> try cases h
  split at h <;> try cases h
  rename_i layers hlp
  split at h <;> try cases h
  split at h; · cases h
  rename_i hlag
  split at h; · cases h
  rename_i hgkr
  injection h with h
  subst h
  refine ⟨hnuq, Decidable.of_not_not hseg, Decidable.of_not_not hlay, ?_, Decidable.of_not_not hlag, rfl, rfl, ?_⟩
  · intro hl
    cases hg : p.gkrProof with
    | none => rfl
    | some g => exact absurd ⟨by simp [hg], by simp [hl]⟩ hgkr
  · simp only [List.length_map]
    rw [friLayersParse_length _ _ _ _ _ _ _ hlp]
    exact Decidable.of_not_not hlay

end WinterProofs.C03L
