-- C15 (winter-fri), position bookkeeping: `fold_positions`, `map_positions_to_indexes`, `num_fri_layers`.
--   * `fold_positions` = order-preserving de-duplication of `p % (n / N)` (`foldPositions_eq`);
--   * `map_positions_to_indexes` with one partition is the identity, with `P ∣ n / N` partitions it is an
--     injection of `[0, n / N)` into itself (`mapIndex_lt`, `mapIndex_inj`);
--   * `num_fri_layers` returns the least `L` with `d / N ^ L ≤ (remMaxDeg + 1) · blowup`
--     (`numLayersLoop_spec`), hence the remainder has at most `remMaxDeg + 1` coefficients
--     (`remainder_len_le`).
import Winter.Model.Fri

namespace WinterProofs.C15
open Model.Fri

/-! ## order-preserving de-duplication -/

/-- keep the first occurrence of every element, in order -/
def dedupKeepFirst : List Nat → List Nat
  | [] => []
  | x :: xs => x :: (dedupKeepFirst xs).filter (· != x)

theorem mem_dedupKeepFirst (l : List Nat) (x : Nat) : x ∈ dedupKeepFirst l ↔ x ∈ l := by
  induction l with
  | nil => simp [dedupKeepFirst]
  | cons a l ih =>
    simp only [dedupKeepFirst, List.mem_cons, List.mem_filter, ih, bne_iff_ne, ne_eq]
    by_cases h : x = a <;> simp [h]

theorem dedupKeepFirst_nodup (l : List Nat) : (dedupKeepFirst l).Nodup := by
  induction l with
  | nil => simp [dedupKeepFirst]
  | cons a l ih =>
    simp only [dedupKeepFirst, List.nodup_cons, List.mem_filter, bne_self_eq_false, Bool.false_eq_true,
      and_false, not_false_eq_true, true_and]
    exact ih.sublist List.filter_sublist

theorem dedupKeepFirst_sublist (l : List Nat) : (dedupKeepFirst l).Sublist l := by
  induction l with
  | nil => simp [dedupKeepFirst]
  | cons a l ih =>
    simp only [dedupKeepFirst]
    exact List.Sublist.cons_cons a (List.filter_sublist.trans ih)

theorem dedupKeepFirst_length_le (l : List Nat) : (dedupKeepFirst l).length ≤ l.length :=
  (dedupKeepFirst_sublist l).length_le

theorem dedupKeepFirst_of_nodup (l : List Nat) (h : l.Nodup) : dedupKeepFirst l = l := by
  induction l with
  | nil => simp [dedupKeepFirst]
  | cons a l ih =>
    rw [List.nodup_cons] at h
    simp only [dedupKeepFirst, ih h.2, List.cons.injEq, true_and]
    rw [List.filter_eq_self]
    intro b hb
    simp only [bne_iff_ne, ne_eq]
    rintro rfl
    exact h.1 hb

/-- de-duplication is idempotent -/
theorem dedupKeepFirst_idem (l : List Nat) : dedupKeepFirst (dedupKeepFirst l) = dedupKeepFirst l :=
  dedupKeepFirst_of_nodup _ (dedupKeepFirst_nodup l)

/-- filtering commutes with de-duplication -/
theorem dedupKeepFirst_filter (p : Nat → Bool) (l : List Nat) :
    dedupKeepFirst (l.filter p) = (dedupKeepFirst l).filter p := by
  induction l with
  | nil => simp [dedupKeepFirst]
  | cons a l ih =>
    by_cases h : p a = true
    · simp only [List.filter_cons, h, if_true, dedupKeepFirst, ih, List.cons.injEq, true_and,
        List.filter_filter]
      apply List.filter_congr
      intro x _
      exact Bool.and_comm _ _
    · simp only [List.filter_cons, h, dedupKeepFirst, List.filter_filter]
      simp only [Bool.false_eq_true, if_false]
      rw [ih]
      apply List.filter_congr
      intro x _
      by_cases hx : x = a
      · subst hx; simp [h]
      · simp [hx]

/-- the specification agrees with core's `List.eraseDups` -/
theorem dedupKeepFirst_eq_eraseDups (l : List Nat) : dedupKeepFirst l = l.eraseDups := by
  generalize hn : l.length = n
  induction n using Nat.strongRecOn generalizing l with
  | _ n ih =>
    cases l with
    | nil => simp [dedupKeepFirst]
    | cons a l =>
      rw [List.eraseDups_cons, dedupKeepFirst, ← dedupKeepFirst_filter]
      congr 1
      have hlt : (l.filter fun b => !b == a).length < n := by
        have := List.length_filter_le (fun b => !b == a) l
        simp only [List.length_cons] at hn
        omega
      have := ih _ hlt (l.filter fun b => !b == a) rfl
      rw [← this]
      congr 1

/-! ## `fold_positions` -/

/-- the loop of `fold_positions` started from an arbitrary accumulator -/
theorem foldl_foldStep_acc (m : Nat) (ps acc : List Nat) :
    ps.foldl (foldStep m) acc
      = acc ++ (dedupKeepFirst (ps.map (· % m))).filter (fun x => !acc.contains x) := by
  induction ps generalizing acc with
  | nil => simp [dedupKeepFirst]
  | cons p ps ih =>
    simp only [List.foldl_cons, List.map_cons, dedupKeepFirst]
    by_cases h : acc.contains (p % m) = true
    · rw [foldStep, if_pos h, ih, List.filter_cons]
      simp only [h, Bool.not_true, Bool.false_eq_true, if_false, List.filter_filter]
      congr 1
      apply List.filter_congr
      intro x _
      have h' : p % m ∈ acc := by simpa using h
      by_cases hx : x = p % m
      · subst hx; simp [h']
      · simp [hx]
    · rw [foldStep, if_neg h, ih, List.filter_cons]
      simp only [h, Bool.not_false, if_true, List.filter_filter, List.append_assoc, List.singleton_append]
      congr 2
      apply List.filter_congr
      intro x _
      simp only [List.contains_append, List.contains_cons, List.contains_nil, Bool.or_false, Bool.not_or]
      cases acc.contains x <;> simp [bne]

/-- the loop of `fold_positions` computes the order-preserving de-duplication of `p % m` -/
theorem foldl_foldStep_eq (m : Nat) (ps : List Nat) :
    ps.foldl (foldStep m) [] = dedupKeepFirst (ps.map (· % m)) := by
  rw [foldl_foldStep_acc]
  simp

theorem foldPositions_eq (ps : List Nat) (n N : Nat) (h : n / N ≠ 0) :
    foldPositions ps n N = some (dedupKeepFirst (ps.map (· % (n / N)))) := by
  rw [foldPositions, if_neg h, foldl_foldStep_eq]

/-- the panic of `fold_positions`: a zero target domain with at least one position -/
theorem foldPositions_none_iff (ps : List Nat) (n N : Nat) :
    foldPositions ps n N = none ↔ n / N = 0 ∧ ps ≠ [] := by
  unfold foldPositions
  by_cases h : n / N = 0
  · cases ps <;> simp [h]
  · simp [h]

section consequences
variable {ps folded : List Nat} {n N : Nat}

theorem foldPositions_spec (h : n / N ≠ 0) (hf : foldPositions ps n N = some folded) :
    folded = dedupKeepFirst (ps.map (· % (n / N))) := by
  rw [foldPositions_eq ps n N h] at hf
  exact (Option.some.inj hf).symm

theorem foldPositions_nodup (h : n / N ≠ 0) (hf : foldPositions ps n N = some folded) :
    folded.Nodup := by
  rw [foldPositions_spec h hf]
  exact dedupKeepFirst_nodup _

theorem mem_foldPositions (h : n / N ≠ 0) (hf : foldPositions ps n N = some folded) (q : Nat) :
    q ∈ folded ↔ ∃ p ∈ ps, p % (n / N) = q := by
  rw [foldPositions_spec h hf, mem_dedupKeepFirst, List.mem_map]

theorem foldPositions_lt (h : n / N ≠ 0) (hf : foldPositions ps n N = some folded) :
    ∀ q ∈ folded, q < n / N := by
  intro q hq
  obtain ⟨p, _, rfl⟩ := (mem_foldPositions h hf q).1 hq
  exact Nat.mod_lt _ (Nat.pos_of_ne_zero h)

theorem foldPositions_length_le (h : n / N ≠ 0) (hf : foldPositions ps n N = some folded) :
    folded.length ≤ ps.length := by
  rw [foldPositions_spec h hf]
  simpa using dedupKeepFirst_length_le (ps.map (· % (n / N)))

/-- the folded positions are a subsequence of the reduced positions (order of first occurrence) -/
theorem foldPositions_sublist (h : n / N ≠ 0) (hf : foldPositions ps n N = some folded) :
    folded.Sublist (ps.map (· % (n / N))) := by
  rw [foldPositions_spec h hf]
  exact dedupKeepFirst_sublist _

/-- positions that are already distinct modulo the target size are only reduced -/
theorem foldPositions_of_nodup (h : n / N ≠ 0) (hnd : (ps.map (· % (n / N))).Nodup) :
    foldPositions ps n N = some (ps.map (· % (n / N))) := by
  rw [foldPositions_eq ps n N h, dedupKeepFirst_of_nodup _ hnd]

/-- `position(..)` of a member finds an index that holds the member -/
theorem idxOf?_of_mem {l : List Nat} {x : Nat} (hx : x ∈ l) :
    ∃ idx, l.idxOf? x = some idx ∧ l[idx]? = some x := by
  cases hi : l.idxOf? x with
  | none => exact absurd hx (List.idxOf?_eq_none_iff.1 hi)
  | some idx =>
    refine ⟨idx, rfl, ?_⟩
    rw [List.idxOf?, List.findIdx?_eq_some_iff_getElem] at hi
    obtain ⟨hlt, heq, _⟩ := hi
    rw [List.getElem?_eq_getElem hlt]
    simpa using heq

/-- what `get_query_values`'s `.position(..).unwrap()` relies on -/
theorem foldPositions_idxOf (h : n / N ≠ 0) (hf : foldPositions ps n N = some folded) :
    ∀ p ∈ ps, ∃ idx, folded.idxOf? (p % (n / N)) = some idx ∧ folded[idx]? = some (p % (n / N)) := by
  intro p hp
  exact idxOf?_of_mem ((mem_foldPositions h hf _).2 ⟨p, hp, rfl⟩)

end consequences

/-! ## `map_positions_to_indexes` -/

theorem mapPositionsToIndexes_one (ps : List Nat) (n N : Nat) :
    mapPositionsToIndexes ps n N 1 = some ps := by
  simp [mapPositionsToIndexes]

/-- with at least two partitions the function maps every position by the partition formula -/
theorem mapPositionsToIndexes_eq (ps : List Nat) (n N P : Nat) (hP : 2 ≤ P) :
    mapPositionsToIndexes ps n N P
      = some (ps.map fun p => (p % P) * (n / N / P) + (p - p % P) / P) := by
  have h1 : P ≠ 1 := by omega
  have h0 : P ≠ 0 := by omega
  simp [mapPositionsToIndexes, h1, h0]

/-- the local index is the quotient -/
theorem sub_mod_div (P p : Nat) (hP : 0 < P) : (p - p % P) / P = p / P := by
  have h := Nat.div_add_mod p P
  have : p - p % P = P * (p / P) := by omega
  rw [this, Nat.mul_div_cancel_left _ hP]

theorem mapIndex_lt (P m p : Nat) (hP : 0 < P) (hd : P ∣ m) (hp : p < m) :
    (p % P) * (m / P) + (p - p % P) / P < m := by
  rw [sub_mod_div P p hP]
  obtain ⟨c, rfl⟩ := hd
  rw [Nat.mul_div_cancel_left _ hP]
  have h1 : p / P < c := Nat.div_lt_of_lt_mul hp
  have h2 : p % P ≤ P - 1 := by have := Nat.mod_lt p hP; omega
  have h3 : (p % P) * c ≤ (P - 1) * c := Nat.mul_le_mul_right c h2
  have h4 : (P - 1) * c + c = P * c := by
    obtain ⟨k, rfl⟩ : ∃ k, P = k + 1 := ⟨P - 1, by omega⟩
    simp [Nat.add_mul]
  omega

theorem mapIndex_inj (P m p q : Nat) (hP : 0 < P) (hd : P ∣ m) (hp : p < m) (hq : q < m)
    (h : (p % P) * (m / P) + (p - p % P) / P = (q % P) * (m / P) + (q - q % P) / P) : p = q := by
  rw [sub_mod_div P p hP, sub_mod_div P q hP] at h
  obtain ⟨c, rfl⟩ := hd
  rw [Nat.mul_div_cancel_left _ hP] at h
  have hp1 : p / P < c := Nat.div_lt_of_lt_mul hp
  have hq1 : q / P < c := Nat.div_lt_of_lt_mul hq
  have hc : 0 < c := Nat.lt_of_le_of_lt (Nat.zero_le _) hp1
  have hmod : p / P = q / P := by
    have := congrArg (· % c) h
    simpa [Nat.mul_add_mod, Nat.mod_eq_of_lt hp1, Nat.mod_eq_of_lt hq1, Nat.mul_comm _ c] using this
  have hdiv : p % P = q % P := by
    have := congrArg (· / c) h
    simpa [Nat.mul_add_div hc, Nat.div_eq_of_lt hp1, Nat.div_eq_of_lt hq1, Nat.mul_comm _ c] using this
  have h1 := Nat.div_add_mod p P
  have h2 := Nat.div_add_mod q P
  rw [hmod, hdiv] at h1
  omega

/-- consequence for the model function: distinct positions below `m = n / N` get distinct indexes below `m` -/
theorem mapPositionsToIndexes_spec (ps : List Nat) (n N P : Nat) (hP : 2 ≤ P) (hd : P ∣ n / N)
    (hps : ∀ p ∈ ps, p < n / N) (hnd : ps.Nodup) :
    ∃ idxs, mapPositionsToIndexes ps n N P = some idxs ∧ idxs.length = ps.length ∧
      (∀ i ∈ idxs, i < n / N) ∧ idxs.Nodup := by
  refine ⟨_, mapPositionsToIndexes_eq ps n N P hP, by simp, ?_, ?_⟩
  · intro i hi
    obtain ⟨p, hp, rfl⟩ := List.mem_map.1 hi
    exact mapIndex_lt P (n / N) p (by omega) hd (hps p hp)
  · induction ps with
    | nil => simp
    | cons a ps ih =>
      rw [List.nodup_cons] at hnd
      rw [List.map_cons, List.nodup_cons]
      refine ⟨?_, ih (fun p hp => hps p (List.mem_cons_of_mem _ hp)) hnd.2⟩
      intro hmem
      obtain ⟨b, hb, hbe⟩ := List.mem_map.1 hmem
      have := mapIndex_inj P (n / N) b a (by omega) hd (hps b (List.mem_cons_of_mem _ hb))
        (hps a List.mem_cons_self) hbe
      exact hnd.1 (this ▸ hb)

/-! ## `num_fri_layers` -/

/-- the loop returns the least `L` with `d / N ^ L ≤ maxRem` -/
theorem numLayersLoop_spec (maxRem N : Nat) (hf : 2 ≤ N) (d : Nat) :
    d / N ^ (numLayersLoop maxRem N hf d) ≤ maxRem ∧
      ∀ k, k < numLayersLoop maxRem N hf d → maxRem < d / N ^ k := by
  induction d using Nat.strongRecOn with
  | _ d ih =>
    rw [numLayersLoop]
    by_cases h : maxRem < d
    · rw [dif_pos h]
      have hlt : d / N < d := Nat.div_lt_self (by omega) hf
      obtain ⟨ih1, ih2⟩ := ih (d / N) hlt
      constructor
      · rw [Nat.pow_succ', ← Nat.div_div_eq_div_mul]
        exact ih1
      · intro k hk
        cases k with
        | zero => simpa using h
        | succ j =>
          rw [Nat.pow_succ', ← Nat.div_div_eq_div_mul]
          exact ih2 j (by omega)
    · rw [dif_neg h]
      constructor
      · simp; omega
      · intro k hk; omega

/-- uniqueness: any `L` with the two properties is the result of the loop -/
theorem numLayersLoop_unique (maxRem N : Nat) (hf : 2 ≤ N) (d L : Nat)
    (h1 : d / N ^ L ≤ maxRem) (h2 : ∀ k, k < L → maxRem < d / N ^ k) :
    numLayersLoop maxRem N hf d = L := by
  obtain ⟨s1, s2⟩ := numLayersLoop_spec maxRem N hf d
  rcases Nat.lt_trichotomy (numLayersLoop maxRem N hf d) L with hlt | heq | hgt
  · have := h2 _ hlt; omega
  · exact heq
  · have := s2 _ hgt; omega

/-- every layer counted by the loop divides the domain by `N` and leaves more than `maxRem` elements -/
theorem numLayersLoop_pow_le (maxRem N : Nat) (hf : 2 ≤ N) (d : Nat)
    (hpos : 0 < numLayersLoop maxRem N hf d) :
    N ^ (numLayersLoop maxRem N hf d - 1) * (maxRem + 1) ≤ d := by
  have h := (numLayersLoop_spec maxRem N hf d).2 (numLayersLoop maxRem N hf d - 1) (by omega)
  have hpow : 0 < N ^ (numLayersLoop maxRem N hf d - 1) := Nat.pow_pos (by omega)
  have := (Nat.le_div_iff_mul_le hpow).1 (Nat.succ_le_of_lt h)
  rw [Nat.mul_comm]
  exact this

/-- the number of layers is at most `log2 d + 1` (sharp: `maxRem = 0`, `d = 1` gives one layer) -/
theorem numLayersLoop_le_log2 (maxRem N : Nat) (hf : 2 ≤ N) (d : Nat) :
    numLayersLoop maxRem N hf d ≤ Nat.log2 d + 1 := by
  by_cases hpos : 0 < numLayersLoop maxRem N hf d
  · have h := numLayersLoop_pow_le maxRem N hf d hpos
    generalize numLayersLoop maxRem N hf d = L at *
    have h2 : 2 ^ (L - 1) ≤ N ^ (L - 1) := Nat.pow_le_pow_left hf _
    have h3 : N ^ (L - 1) ≤ N ^ (L - 1) * (maxRem + 1) := Nat.le_mul_of_pos_right _ (by omega)
    have hd : d ≠ 0 := by
      have : 0 < 2 ^ (L - 1) := Nat.pow_pos (by omega)
      omega
    have := (Nat.le_log2 hd).2 (Nat.le_trans h2 (Nat.le_trans h3 h))
    omega
  · omega

/-- with a nonzero threshold (the case of `num_fri_layers`, whose threshold is
    `(remMaxDeg + 1) · blowup` with `blowup ≥ 1`) the number of layers is at most `log2 d` -/
theorem numLayersLoop_le_log2_of_pos (maxRem N : Nat) (hf : 2 ≤ N) (d : Nat) (hm : 0 < maxRem) :
    numLayersLoop maxRem N hf d ≤ Nat.log2 d := by
  by_cases hpos : 0 < numLayersLoop maxRem N hf d
  · have h := numLayersLoop_pow_le maxRem N hf d hpos
    generalize numLayersLoop maxRem N hf d = L at *
    have h2 : 2 ^ (L - 1) ≤ N ^ (L - 1) := Nat.pow_le_pow_left hf _
    have h3 : N ^ (L - 1) * 2 ≤ N ^ (L - 1) * (maxRem + 1) := Nat.mul_le_mul_left _ (by omega)
    have h4 : 2 ^ L = 2 ^ (L - 1) * 2 := by
      obtain ⟨k, rfl⟩ : ∃ k, L = k + 1 := ⟨L - 1, by omega⟩
      simp [Nat.pow_succ]
    have hd : d ≠ 0 := by
      have : 0 < 2 ^ (L - 1) := Nat.pow_pos (by omega)
      omega
    exact (Nat.le_log2 hd).2 (by omega)
  · omega

theorem numFriLayers_le_log2 (o : Opts) (d : Nat) (hb : 0 < o.blowup) :
    numFriLayers o d ≤ Nat.log2 d :=
  numLayersLoop_le_log2_of_pos _ _ _ _ (Nat.mul_pos (by omega) hb)

/-- the last layer has at most `(remMaxDeg + 1) · blowup` evaluations, every earlier one has more -/
theorem numFriLayers_spec (o : Opts) (d : Nat) :
    d / o.folding ^ (numFriLayers o d) ≤ (o.remMaxDeg + 1) * o.blowup ∧
      ∀ k, k < numFriLayers o d → (o.remMaxDeg + 1) * o.blowup < d / o.folding ^ k :=
  numLayersLoop_spec _ _ _ _

/-- the remainder (`len / blowup` coefficients of the last layer, whose length is `d / N ^ L`) has at most
    `remainder_max_degree + 1` coefficients -/
theorem remainder_len_le (o : Opts) (d : Nat) (hb : 0 < o.blowup) :
    d / o.folding ^ (numFriLayers o d) / o.blowup ≤ o.remMaxDeg + 1 := by
  have h := (numFriLayers_spec o d).1
  calc d / o.folding ^ (numFriLayers o d) / o.blowup
      ≤ (o.remMaxDeg + 1) * o.blowup / o.blowup := Nat.div_le_div_right h
    _ = o.remMaxDeg + 1 := Nat.mul_div_cancel _ hb

/-- blowup 8, folding 4, remainder_max_degree 7, domain 4096: 4096 → 1024 → 256 → 64, three layers,
    and a remainder of 64 / 8 = 8 coefficients -/
example : numFriLayers ⟨8, 4, 7, by decide⟩ 4096 = 3 := by
  apply numLayersLoop_unique
  · decide
  · intro k hk
    have : k = 0 ∨ k = 1 ∨ k = 2 := by omega
    rcases this with rfl | rfl | rfl <;> decide

example : 4096 / 4 ^ (numFriLayers ⟨8, 4, 7, by decide⟩ 4096) / 8 = 8 := by
  have h : numFriLayers ⟨8, 4, 7, by decide⟩ 4096 = 3 := by
    apply numLayersLoop_unique
    · decide
    · intro k hk
      have : k = 0 ∨ k = 1 ∨ k = 2 := by omega
      rcases this with rfl | rfl | rfl <;> decide
  rw [h]

end WinterProofs.C15
