-- C10 helper lemmas: `into_paths` never panics
import WinterProofs.Lemmas.C10Batch

namespace WinterProofs.C10
open Model.Merkle

variable {D : Type}

theorem pathsLevel_nil (H : Hasher D) (rows : List (List D)) (ptrs : List Nat) (v pt : SMap D) :
    pathsLevel H [] rows ptrs v pt = .ok (v, pt, ptrs, []) := by simp [pathsLevel]

theorem pathsLevel_single (H : Hasher D) (k : Nat) (rest : List Nat) (hn : NotMerged k rest)
    (row : List D) (rows : List (List D)) (ptr : Nat) (ptrs : List Nat) (v pt : SMap D) :
    pathsLevel H (k :: rest) (row :: rows) (ptr :: ptrs) v pt =
      match row[ptr]? with
      | none => .err .invalid
      | some sibling =>
        match v.get k with
        | none => .err .invalid
        | some node =>
          pathsLevel H rest rows ptrs (v.insert (k / 2) (par H k node sibling))
              ((pt.insert (xor1 k) sibling).insert (k / 2) (par H k node sibling)) >>= fun r =>
            .ok (r.1, r.2.1, (ptr + 1) :: r.2.2.1, k / 2 :: r.2.2.2) := by
  cases rest with
  | nil =>
    simp only [pathsLevel]
    cases row[ptr]? with
    | none => rfl
    | some s =>
      cases v.get k with
      | none => rfl
      | some node => simp [par]
  | cons k' rest' =>
    have : k' ≠ xor1 k := hn k' rest' rfl
    simp only [pathsLevel, if_neg this]
    cases row[ptr]? with
    | none => rfl
    | some s =>
      cases v.get k with
      | none => rfl
      | some node => rfl

theorem pathsLevel_merged (H : Hasher D) (k : Nat) (rest : List Nat)
    (r0 r1 : List D) (rows : List (List D)) (p0 p1 : Nat) (ptrs : List Nat) (v pt : SMap D) :
    pathsLevel H (k :: xor1 k :: rest) (r0 :: r1 :: rows) (p0 :: p1 :: ptrs) v pt =
      match v.get (xor1 k) with
      | none => .err .invalid
      | some sibling =>
        match v.get k with
        | none => .err .invalid
        | some node =>
          pathsLevel H rest rows ptrs (v.insert (k / 2) (par H k node sibling))
              ((pt.insert (xor1 k) sibling).insert (k / 2) (par H k node sibling)) >>= fun r =>
            .ok (r.1, r.2.1, p0 :: p1 :: r.2.2.1, k / 2 :: r.2.2.2) := by
  simp only [pathsLevel, if_true]
  cases v.get (xor1 k) with
  | none => rfl
  | some s =>
    cases v.get k with
    | none => rfl
    | some node => rfl

theorem pathsLeafLoop_shape (H : Hasher D) (leaves : List D) (imap : SMap Nat) (offset : Nat) :
    ∀ (norm : List Nat) (rows : List (List D)) (v pt : SMap D), norm.length ≤ rows.length →
      Sat (fun r => r.2.2.1.length = norm.length ∧ r.2.2.2.length = norm.length)
        (pathsLeafLoop H leaves imap offset norm rows v pt)
  | [], rows, v, pt, _ => by simp [pathsLeafLoop, Sat]
  | e :: norm, [], v, pt, h => by simp at h
  | e :: norm, row :: rows, v, pt, h => by
    simp only [pathsLeafLoop]
    apply Sat.bind (leafPair_sat leaves imap e row)
    intro abp _
    obtain ⟨a, b, ptr⟩ := abp
    apply Sat.bind (pathsLeafLoop_shape H leaves imap offset norm rows _ _ (by simpa using h))
    intro r hr
    obtain ⟨v', pt', ptrs, next⟩ := r
    simp only [Sat, List.length_cons] at hr ⊢
    omega

theorem pathsLevel_shape (H : Hasher D) : ∀ (K : List Nat) (rows : List (List D)) (ptrs : List Nat) (v pt : SMap D),
    K.length ≤ rows.length → K.length ≤ ptrs.length →
    Sat (fun r => r.2.2.1.length = ptrs.length ∧ r.2.2.2.length ≤ K.length) (pathsLevel H K rows ptrs v pt) := by
  intro K
  induction K using level_induction with
  | nil => intro rows ptrs v pt _ _; simp [pathsLevel_nil, Sat]
  | single k rest hn ih =>
    intro rows ptrs v pt h1 h2
    match rows, ptrs, h1, h2 with
    | row :: rows, ptr :: ptrs, h1, h2 =>
      rw [pathsLevel_single H k rest hn]
      cases row[ptr]? with
      | none => trivial
      | some s =>
        cases v.get k with
        | none => trivial
        | some node =>
          apply Sat.bind (ih rows ptrs _ _ (by simpa using h1) (by simpa using h2))
          intro r hr
          simp only [Sat, List.length_cons] at hr ⊢
          omega
  | merged k rest ih =>
    intro rows ptrs v pt h1 h2
    match rows, ptrs, h1, h2 with
    | r0 :: r1 :: rows, p0 :: p1 :: ptrs, h1, h2 =>
      rw [pathsLevel_merged]
      cases v.get (xor1 k) with
      | none => trivial
      | some s =>
        cases v.get k with
        | none => trivial
        | some node =>
          simp only [List.length_cons] at h1 h2
          apply Sat.bind (ih rows ptrs _ _ (by omega) (by omega))
          intro r hr
          simp only [Sat, List.length_cons] at hr ⊢
          omega

theorem pathsLevels_shape (H : Hasher D) (rows : List (List D)) : ∀ (l : Nat) (K ptrs : List Nat) (v pt : SMap D),
    K.length ≤ rows.length → K.length ≤ ptrs.length →
    Sat (fun r => r.2.2.length = ptrs.length) (pathsLevels H rows l K ptrs v pt)
  | 0, K, ptrs, v, pt, _, _ => by simp [pathsLevels, Sat]
  | l + 1, K, ptrs, v, pt, h1, h2 => by
    simp only [pathsLevels]
    apply Sat.bind (pathsLevel_shape H K rows ptrs v pt h1 h2)
    intro r hr
    obtain ⟨v', pt', ptrs', next⟩ := r
    simp only at hr
    have := pathsLevels_shape H rows l next ptrs' v' pt' (by omega) (by omega)
    exact this.mono (fun a ha => by omega)

theorem shl1_ok {e : Nat} (h : e < 64) : shl1 e = .ok (2 ^ e) := by
  simp [shl1, usizeBits, h]

theorem pathsSeed_sat (depth : Nat) (hd : depth < 64) : ∀ (is : List Nat) (ls : List D) (pt : SMap D),
    (∀ i ∈ is, i < 2 ^ depth) → Sat (fun _ => True) (pathsSeed depth is ls pt)
  | [], ls, pt, _ => by cases ls <;> simp [pathsSeed, Sat]
  | i :: is, [], pt, _ => by simp [pathsSeed, Sat]
  | i :: is, l :: ls, pt, h => by
    have hi := h i (List.mem_cons_self ..)
    have hle := two_pow_le_63 (e := depth) (by omega)
    simp only [pathsSeed]
    rw [shl1_ok hd]
    simp only [Res.ok_bind]
    rw [addUsize_ok (by omega)]
    simp only [Res.ok_bind]
    exact pathsSeed_sat depth hd is ls _ (fun x hx => h x (List.mem_cons_of_mem _ hx))

theorem getPathLoop_sat (tree : SMap D) : ∀ (fuel index : Nat), Sat (fun _ => True) (getPathLoop tree fuel index)
  | 0, _ => by simp [getPathLoop, Sat]
  | fuel + 1, index => by
    simp only [getPathLoop]
    split
    · cases tree.get (xor1 index) with
      | none => trivial
      | some x =>
        simp only
        exact Sat.bind (getPathLoop_sat tree fuel (index / 2)) (fun _ _ => trivial)
    · trivial

theorem collectPaths_sat (pt : SMap D) (depth : Nat) (hd : depth < 64) : ∀ (is : List Nat),
    (∀ i ∈ is, i < 2 ^ depth) → Sat (fun _ => True) (collectPaths pt depth is)
  | [], _ => by simp [collectPaths, Sat]
  | i :: is, h => by
    have hi := h i (List.mem_cons_self ..)
    have hle := two_pow_le_63 (e := depth) (by omega)
    simp only [collectPaths, getPath]
    rw [shl1_ok hd]
    simp only [Res.ok_bind]
    rw [addUsize_ok (by omega)]
    simp only [Res.ok_bind]
    cases pt.get (i + 2 ^ depth) with
    | none => trivial
    | some leaf =>
      simp only
      have h1 : Sat (fun _ => True) (getPathLoop pt (depth + 1) (i + 2 ^ depth) >>= fun rest => Res.ok (leaf :: rest)) :=
        Sat.bind (getPathLoop_sat pt (depth + 1) (i + 2 ^ depth)) (fun _ _ => trivial)
      apply Sat.bind h1
      intro _ _
      exact Sat.bind (collectPaths_sat pt depth hd is (fun x hx => h x (List.mem_cons_of_mem _ hx))) (fun _ _ => trivial)

/-- `into_paths` never panics, whatever the opening and the position list -/
theorem intoPaths_sat (H : Hasher D) (p : BatchProof D) (idxs : List Nat) :
    Sat (fun _ => True) (intoPaths H p idxs) := by
  unfold intoPaths
  split; · trivial
  split; · trivial
  split; · trivial
  split; · trivial
  rename_i _ _ _ hd
  have hd' : p.depth < 64 := by simpa [usizeBits] using hd
  rcases mapIndexes_no_panic idxs p.depth hd' with ⟨m, hm⟩ | ⟨e, he⟩
  · rw [hm]; simp only [Res.ok_bind]
    obtain ⟨_, _, hrange, _⟩ := mapIndexes_ok hm
    apply Sat.bind (pathsSeed_sat p.depth hd' idxs p.leaves [] hrange)
    intro pt0 _
    split; · trivial
    rename_i hlen
    rw [pow2_ok hd']; simp only [Res.ok_bind]
    have hlen' : (normalizeIndexes idxs).length = p.nodes.length := by
      rcases Nat.lt_or_ge (normalizeIndexes idxs).length p.nodes.length with h | h
      · exact absurd (Nat.ne_of_lt h) (by simpa using hlen)
      · rcases Nat.lt_or_eq_of_le h with h | h
        · exact absurd (Nat.ne_of_gt h) (by simpa using hlen)
        · exact h.symm
    apply Sat.bind (pathsLeafLoop_shape H p.leaves m (2 ^ p.depth) _ p.nodes [] pt0 (by omega))
    intro r hr
    obtain ⟨v, pt, ptrs, next⟩ := r
    simp only at hr
    apply Sat.bind (pathsLevels_shape H p.nodes (p.depth - 1) next ptrs v pt (by omega) (by omega))
    intro r2 _
    obtain ⟨v2, pt2, ptrs2⟩ := r2
    simp only
    split; · trivial
    exact collectPaths_sat pt2 p.depth hd' idxs hrange
  · rw [he]; trivial

end WinterProofs.C10
