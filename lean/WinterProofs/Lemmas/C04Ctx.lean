-- helper lemmas of C04, third part: the context part of the coin seed (`ctxElems` of Winter/Model/Transcript.lean)
import Winter.Model.Transcript

namespace C04L
open Model.Transcript
open Model.Coin (leVal)

/-- equal little-endian values of byte strings of the same length: equal strings -/
theorem leVal_inj : ∀ (a b : List Nat), a.length = b.length → (∀ x ∈ a, x < 256) → (∀ x ∈ b, x < 256) →
    leVal a = leVal b → a = b
  | [], [], _, _, _, _ => rfl
  | [], _ :: _, hl, _, _, _ => by simp at hl
  | _ :: _, [], hl, _, _, _ => by simp at hl
  | x :: a, y :: b, hl, ha, hb, h => by
    simp only [leVal] at h
    have hx := ha x (by simp)
    have hy := hb y (by simp)
    have hxy : x = y := by omega
    have hv : leVal a = leVal b := by omega
    have hl' : a.length = b.length := by simpa using hl
    rw [hxy, leVal_inj a b hl' (fun z hz => ha z (by simp [hz])) (fun z hz => hb z (by simp [hz])) hv]

/-- the chunked, zero-padded encoding of the metadata is injective on byte strings of the same length -/
theorem chunks_inj (n : Nat) (hn : 0 < n) : ∀ (fuel : Nat) (a b : List Nat), a.length = b.length → a.length ≤ fuel →
    (∀ x ∈ a, x < 256) → (∀ x ∈ b, x < 256) →
    (chunksOf n fuel a).map leVal = (chunksOf n fuel b).map leVal → a = b
  | 0, a, b, hl, hf, _, _, _ => by
    have ha : a = [] := List.length_eq_zero_iff.mp (by omega)
    have hb : b = [] := List.length_eq_zero_iff.mp (by omega)
    rw [ha, hb]
  | fuel + 1, a, b, hl, hf, ha, hb, h => by
    cases a with
    | nil =>
      have hb' : b = [] := List.length_eq_zero_iff.mp (by simpa using hl.symm)
      rw [hb']
    | cons x a' =>
      cases b with
      | nil => simp at hl
      | cons y b' =>
        simp only [chunksOf, List.isEmpty_cons, Bool.false_eq_true, if_false, List.map_cons, List.cons.injEq] at h
        obtain ⟨h1, h2⟩ := h
        have htl : ((x :: a').take n).length = ((y :: b').take n).length := by
          simp only [List.length_take, hl]
        have ht : (x :: a').take n = (y :: b').take n :=
          leVal_inj _ _ htl (fun z hz => ha z (List.mem_of_mem_take hz)) (fun z hz => hb z (List.mem_of_mem_take hz)) h1
        have hdl : ((x :: a').drop n).length = ((y :: b').drop n).length := by
          simp only [List.length_drop, hl]
        have hdf : ((x :: a').drop n).length ≤ fuel := by
          simp only [List.length_drop, List.length_cons] at hf ⊢; omega
        have hd : (x :: a').drop n = (y :: b').drop n :=
          chunks_inj n hn fuel _ _ hdl hdf (fun z hz => ha z (List.mem_of_mem_drop hz))
            (fun z hz => hb z (List.mem_of_mem_drop hz)) h2
        rw [← List.take_append_drop n (x :: a'), ← List.take_append_drop n (y :: b'), ht, hd]

theorem length_chunksOf (n : Nat) (hn : 0 < n) : ∀ (fuel : Nat) (a : List Nat), a.length ≤ fuel →
    (chunksOf n fuel a).length = (a.length + n - 1) / n
  | 0, a, hf => by
    have ha : a = [] := List.length_eq_zero_iff.mp (by omega)
    subst ha
    simp only [chunksOf, List.length_nil]
    have : (0 + n - 1) / n = 0 := Nat.div_eq_of_lt (by omega)
    exact this.symm
  | fuel + 1, a, hf => by
    cases a with
    | nil =>
      simp only [chunksOf, List.isEmpty_nil, if_true, List.length_nil]
      have : (0 + n - 1) / n = 0 := Nat.div_eq_of_lt (by omega)
      exact this.symm
    | cons x a' =>
      simp only [chunksOf, List.isEmpty_cons, Bool.false_eq_true, if_false, List.length_cons]
      have hdf : ((x :: a').drop n).length ≤ fuel := by
        simp only [List.length_drop, List.length_cons] at hf ⊢; omega
      rw [length_chunksOf n hn fuel _ hdf]
      simp only [List.length_drop, List.length_cons]
      by_cases hle : a'.length + 1 ≤ n
      · have h1 : a'.length + 1 - n = 0 := by omega
        rw [h1]
        have h2 : (0 + n - 1) / n = 0 := Nat.div_eq_of_lt (by omega)
        have h3 : (a'.length + 1 + n - 1) / n = 1 := by
          apply Nat.div_eq_of_lt_le <;> omega
        omega
      · have h1 : a'.length + 1 + n - 1 = (a'.length + 1 - n + n - 1) + n := by omega
        rw [h1, Nat.add_div_right _ hn]

end C04L
