-- C10 helper lemmas: an accepted batch opening is the one the tree produces
import WinterProofs.Lemmas.C10Asm

namespace WinterProofs.C10
open Model.Merkle

variable {D : Type}

/-- the part of the node rows consumed so far -/
def pre (R : List (List D)) (ptrs : List Nat) : List (List D) :=
  List.zipWith (fun row ptr => row.take ptr) R ptrs

theorem pre_cons (row : List D) (R : List (List D)) (ptr : Nat) (ptrs : List Nat) :
    pre (row :: R) (ptr :: ptrs) = row.take ptr :: pre R ptrs := rfl

theorem pre_full : ∀ (R : List (List D)) (ptrs : List Nat), R.length = ptrs.length → anyUnused ptrs R = false →
    pre R ptrs = R
  | [], [], _, _ => rfl
  | row :: R, ptr :: ptrs, hl, h => by
    simp only [anyUnused, Bool.or_eq_false_iff, bne_eq_false_iff_eq] at h
    rw [pre_cons, h.1, List.take_length, pre_full R ptrs (by simpa using hl) h.2]

theorem par_inj_sib (H : Hasher D) (inj : MergeInj H) (val : Nat → D) (d : Nat) (wf : ValWF H val d)
    (k : Nat) (h1 : 2 ≤ k) (h2 : k < 2 ^ (d + 1)) (x s : D) (h : par H k x s = val (k / 2)) : s = val (xor1 k) := by
  have := two_pow_succ' d
  rw [wf (k / 2) (by omega) (by omega)] at h
  unfold par at h
  by_cases hev : k % 2 = 0
  · rw [if_neg (by omega)] at h
    have := (inj _ _ _ _ h).2
    rw [xor1_even hev, show k + 1 = 2 * (k / 2) + 1 by omega]; exact this
  · rw [if_pos hev] at h
    have := (inj _ _ _ _ h).1
    rw [xor1_odd (by omega), show k - 1 = 2 * (k / 2) by omega]; exact this

/-- one level: if the verifier's level succeeds on true values and leads to true values, the prover's
    level run on the consumed prefixes of the rows produces the prefixes consumed after the level -/
theorem level_unique (H : Hasher D) (inj : MergeInj H) (val : Nat → D) (d : Nat) (wf : ValWF H val d) (tn : List D) :
    ∀ (K : List Nat) (R : List (List D)) (ptrs : List Nat) (v v1 : SMap D) (ptrs1 K1 : List Nat),
    Asc K → rootLevel H K R ptrs v = .ok (v1, ptrs1, K1) →
    (∀ k ∈ K, 2 ≤ k ∧ k < 2 ^ (d + 1) ∧ tn[xor1 k]? = some (val (xor1 k))) →
    (∀ k ∈ K, SMap.get v k = some (val k)) →
    (∀ k ∈ K, SMap.get v1 (k / 2) = some (val (k / 2))) →
    proveLevel tn K (pre R ptrs) = .ok (pre R ptrs1, K1) := by
  intro K
  induction K using level_induction with
  | nil =>
    intro R ptrs v v1 ptrs1 K1 _ h _ _ _
    rw [rootLevel_nil] at h
    injection h with h; injection h with h1 h2; injection h2 with h2 h3
    subst h2; subst h3
    rw [proveLevel_nil]
  | single k rest hn ih =>
    intro R ptrs v v1 ptrs1 K1 hasc h hk hv hv1
    obtain ⟨row, rows, ptr, ptrs', rfl, rfl⟩ := rootLevel_ok_single H k rest hn R ptrs v _ h
    rw [rootLevel_single H k rest hn] at h
    cases hs : row[ptr]? with
    | none => rw [hs] at h; cases h
    | some s =>
      rw [hs, hv k (List.mem_cons_self ..)] at h
      simp only at h
      cases hr : rootLevel H rest rows ptrs' (SMap.insert v (k / 2) (par H k (val k) s)) with
      | err e => rw [hr] at h; cases h
      | panic e => rw [hr] at h; cases h
      | ok r =>
        obtain ⟨v2, ps, nx⟩ := r
        rw [hr] at h
        simp only [Res.ok_bind] at h
        injection h with h; injection h with h1 h2; injection h2 with h2 h3
        subst h1; subst h2; subst h3
        obtain ⟨_, j2, _⟩ := rootLevel_ok H rest rows ptrs' _ _ _ _ (Asc.tail hasc) hr
        have hlt := asc_single_lt hasc hn
        obtain ⟨hk1, hk2, hk3⟩ := hk k (List.mem_cons_self ..)
        have hpar : par H k (val k) s = val (k / 2) := by
          have := hv1 k (List.mem_cons_self ..)
          rw [j2 (k / 2) (fun z hz => hlt z hz), SMap.get_insert_self] at this
          injection this
        have hsv := par_inj_sib H inj val d wf k hk1 hk2 _ _ hpar
        subst hsv
        have ih' := ih rows ptrs' _ _ _ _ (Asc.tail hasc) hr (fun x hx => hk x (List.mem_cons_of_mem _ hx))
          (by
            intro x hx
            have := Asc.head_lt hasc x hx
            rw [SMap.get_insert_ne _ _ _ _ (by omega)]
            exact hv x (List.mem_cons_of_mem _ hx))
          (fun x hx => hv1 x (List.mem_cons_of_mem _ hx))
        rw [pre_cons, pre_cons, proveLevel_single tn k rest hn _ _ _ hk3, ih']
        simp only [Res.ok_bind, xor1_div, List.take_add_one, hs, Option.toList]
  | merged k rest ih =>
    intro R ptrs v v1 ptrs1 K1 hasc h hk hv hv1
    obtain ⟨r0, r1, rows, p0, p1, ptrs', rfl, rfl⟩ := rootLevel_ok_merged H k rest R ptrs v _ h
    obtain ⟨hev, hx1, hlt⟩ := asc_merged hasc
    rw [rootLevel_merged, hv k (List.mem_cons_self ..),
      hv (xor1 k) (List.mem_cons_of_mem _ (List.mem_cons_self ..))] at h
    simp only at h
    cases hr : rootLevel H rest rows ptrs' (SMap.insert v (k / 2) (par H k (val k) (val (xor1 k)))) with
    | err e => rw [hr] at h; cases h
    | panic e => rw [hr] at h; cases h
    | ok r =>
      obtain ⟨v2, ps, nx⟩ := r
      rw [hr] at h
      simp only [Res.ok_bind] at h
      injection h with h; injection h with h1 h2; injection h2 with h2 h3
      subst h1; subst h2; subst h3
      have ih' := ih rows ptrs' _ _ _ _ (Asc.tail (Asc.tail hasc)) hr
        (fun x hx => hk x (List.mem_cons_of_mem _ (List.mem_cons_of_mem _ hx)))
        (by
          intro x hx
          have := Asc.head_lt (Asc.tail hasc) x hx
          rw [hx1] at this
          rw [SMap.get_insert_ne _ _ _ _ (by omega)]
          exact hv x (List.mem_cons_of_mem _ (List.mem_cons_of_mem _ hx)))
        (fun x hx => hv1 x (List.mem_cons_of_mem _ (List.mem_cons_of_mem _ hx)))
      rw [pre_cons, pre_cons, pre_cons, pre_cons, proveLevel_merged, ih']
      simp only [Res.ok_bind, xor1_div]

/-- all upper levels -/
theorem levels_unique (H : Hasher D) (inj : MergeInj H) (val : Nat → D) (d : Nat) (wf : ValWF H val d) (tn : List D)
    (htn : ∀ j, 1 ≤ j → j < 2 ^ d → tn[j]? = some (val j)) (R : List (List D)) :
    ∀ (l : Nat) (K ptrs : List Nat) (v v' : SMap D) (ptrs' : List Nat),
    Asc K → (∀ k ∈ K, 2 ^ l ≤ k ∧ k < 2 ^ (l + 1)) → l < d →
    rootLevels H R l K ptrs v = .ok (v', ptrs') → (∀ k ∈ K, SMap.get v k = some (val k)) →
    SMap.get v' 1 = some (val 1) →
    proveLevels tn l K (pre R ptrs) = .ok (pre R ptrs')
  | 0, K, ptrs, v, v', ptrs', _, _, _, h, _, _ => by
    simp only [rootLevels] at h
    injection h with h; injection h with h1 h2; subst h2
    rfl
  | l + 1, K, ptrs, v, v', ptrs', hasc, hr, hl, h, hv, h1 => by
    simp only [rootLevels] at h
    cases hlv : rootLevel H K R ptrs v with
    | err e => rw [hlv] at h; cases h
    | panic e => rw [hlv] at h; cases h
    | ok r =>
      obtain ⟨v1, ptrs1, K1⟩ := r
      rw [hlv] at h
      simp only [Res.ok_bind] at h
      obtain ⟨j1, _, j3⟩ := rootLevel_ok H K R ptrs v v1 ptrs1 K1 hasc hlv
      obtain ⟨p1, p2, p3, _, _⟩ := parents_spec K hasc
      have hp := two_pow_succ' l
      have hp' := two_pow_succ' (l + 1)
      have hpd : 2 ^ (l + 1 + 1) ≤ 2 ^ d := Nat.pow_le_pow_right (by omega) (by omega)
      have hpd' := two_pow_succ' d
      have hpos := Nat.two_pow_pos l
      have hK1r : ∀ k ∈ K1, 2 ^ l ≤ k ∧ k < 2 ^ (l + 1) := by
        intro k1 hk1
        rw [j1] at hk1
        obtain ⟨k, hk, rfl⟩ := p2 k1 hk1
        have := hr k hk
        omega
      have hb := rootLevels_binding H inj val d wf R l K1 ptrs1 v1 v' ptrs' (by rw [j1]; exact p1) hK1r
        (by omega) h h1
      have hv1 : ∀ k ∈ K, SMap.get v1 (k / 2) = some (val (k / 2)) := by
        intro k hk
        obtain ⟨s, hs⟩ := j3 k hk _ (hv k hk)
        rw [hs, hb (k / 2) (by rw [j1]; exact p3 k hk) _ hs]
      have hlu := level_unique H inj val d wf tn K R ptrs v v1 ptrs1 K1 hasc hlv (by
        intro k hk
        have := hr k hk
        exact ⟨by omega, by omega, htn _ (by unfold xor1; split <;> omega) (by unfold xor1; split <;> omega)⟩) hv hv1
      simp only [proveLevels, hlu, Res.ok_bind]
      exact levels_unique H inj val d wf tn htn R l K1 ptrs1 v1 v' ptrs' (by rw [j1]; exact p1) hK1r (by omega) h
        (by
          intro k1 hk1
          rw [j1] at hk1
          obtain ⟨k, hk, rfl⟩ := p2 k1 hk1
          exact hv1 k hk) h1

theorem leafPair_take {leaves : List D} {imap : SMap Nat} {e : Nat} {row : List D} {a b : D} {ptr : Nat}
    (h : leafPair leaves imap e row = .ok (a, b, ptr)) :
    row.take ptr = (if SMap.get imap e = none then [a] else []) ++ (if SMap.get imap (e + 1) = none then [b] else []) := by
  unfold leafPair at h
  repeat' split at h
  all_goals (try cases h)
  all_goals simp_all

/-- leaf level: the consumed prefixes of the rows are the rows the prover emits -/
theorem rootLeafLoop_unique (H : Hasher D) (inj : MergeInj H) (leaves : List D) (imap : SMap Nat) (lv : Nat → D)
    (offset : Nat) : ∀ (norm : List Nat) (R : List (List D)) (v0 v : SMap D) (ptrs K1 : List Nat),
    Asc norm → (∀ e ∈ norm, e % 2 = 0) →
    rootLeafLoop H leaves imap offset norm R v0 = .ok (v, ptrs, K1) →
    (∀ e ∈ norm, SMap.get v ((offset + e) / 2) = some (H.merge (lv e) (lv (e + 1)))) →
    pre R ptrs = norm.map (missing imap lv)
  | [], R, v0, v, ptrs, K1, _, _, h, _ => by
    simp only [rootLeafLoop] at h
    injection h with h; injection h with h1 h2; injection h2 with h2 h3
    subst h2
    cases R <;> rfl
  | e :: norm, [], v0, v, ptrs, K1, _, _, h, _ => by simp [rootLeafLoop] at h
  | e :: norm, row :: R, v0, v, ptrs, K1, hasc, hev, h, hv => by
    simp only [rootLeafLoop] at h
    cases hp : leafPair leaves imap e row with
    | err x => rw [hp] at h; cases h
    | panic x => rw [hp] at h; cases h
    | ok abp =>
      obtain ⟨a, b, ptr⟩ := abp
      rw [hp] at h
      simp only [Res.ok_bind] at h
      cases hr : rootLeafLoop H leaves imap offset norm R (SMap.insert v0 ((offset + e) / 2) (H.merge a b)) with
      | err x => rw [hr] at h; cases h
      | panic x => rw [hr] at h; cases h
      | ok r =>
        obtain ⟨v2, ptrs2, K2⟩ := r
        rw [hr] at h
        simp only [Res.ok_bind] at h
        injection h with h; injection h with h1 h2; injection h2 with h2 h3
        subst h1; subst h2; subst h3
        obtain ⟨_, j2, _⟩ := rootLeafLoop_ok H leaves imap offset norm R _ _ _ _ (Asc.tail hasc)
          (fun x hx => hev x (List.mem_cons_of_mem _ hx)) hr
        have hlt : ∀ x ∈ norm, (offset + e) / 2 < (offset + x) / 2 := by
          intro x hx
          have := Asc.head_lt hasc x hx
          have := hev x (List.mem_cons_of_mem _ hx)
          have := hev e (List.mem_cons_self ..)
          omega
        have hm : H.merge a b = H.merge (lv e) (lv (e + 1)) := by
          have := hv e (List.mem_cons_self ..)
          rw [j2 _ (fun z hz => hlt z hz), SMap.get_insert_self] at this
          injection this
        obtain ⟨ea, eb⟩ := inj _ _ _ _ hm
        subst ea; subst eb
        rw [pre_cons, List.map_cons, leafPair_take hp,
          rootLeafLoop_unique H inj leaves imap lv offset norm R _ _ _ _ (Asc.tail hasc)
            (fun x hx => hev x (List.mem_cons_of_mem _ hx)) hr (fun x hx => hv x (List.mem_cons_of_mem _ hx))]
        rfl

end WinterProofs.C10

namespace WinterProofs.C10
open Model.Merkle

variable {D : Type}

/-- Uniqueness: under collision freedom, an opening of the tree's depth from which `get_root`
    computes the tree's root is exactly the opening `prove_batch` produces for the position list -/
theorem batch_unique_wf (H : Hasher D) (inj : MergeInj H) (t : Tree D) (d : Nat) (wf : TreeWF H t d) (hd2 : d ≤ 63)
    (root : D) (hroot : t.nodes[1]? = some root) (p : BatchProof D) (hdp : p.depth = d) (idxs : List Nat)
    (hg : getRoot H p idxs = .ok root) : proveBatch H t idxs = .ok p := by
  obtain ⟨d0, rfl⟩ : ∃ d0, d = d0 + 1 := ⟨d - 1, by have := wf.hd; omega⟩
  have hp := two_pow_succ' d0
  have hpos := Nat.two_pow_pos d0
  have hdepth : t.depth = d0 + 1 := by simp [Tree.depth, wf.llen, Nat.log2_two_pow]
  let val := treeVal H t
  let lv : Nat → D := fun i => val (2 ^ (d0 + 1) + i)
  have vwf : ValWF H val (d0 + 1) := treeVal_wf H t _ wf
  have hvroot : val 1 = root := treeVal_root H t _ wf root hroot
  have htn : ∀ j, 1 ≤ j → j < 2 ^ (d0 + 1) → t.nodes[j]? = some (val j) := by
    intro j _ h2
    have hj : j < t.nodes.length := by rw [wf.nlen]; exact h2
    show t.nodes[j]? = some (treeVal H t j)
    simp [treeVal, hval_lt hj, List.getElem?_eq_getElem hj]
  have htl : ∀ i, i < 2 ^ (d0 + 1) → t.leaves[i]? = some (lv i) := fun i hi => (treeVal_leaf H t _ wf i hi).symm
  rw [← hvroot] at hg
  have hbind := getRoot_binding H inj val p idxs (hdp ▸ vwf) (by omega) hg
  obtain ⟨hne, hlen, hll, _, imap, v, ptrs, K1, v', ptrs', hm, hnl, hl, hls, hun, hr1⟩ := getRoot_ok_stages H p idxs _ hg
  rw [hdp] at hm hl hls hbind
  obtain ⟨_, hnd, hrange, hget, hsound, hil⟩ := mapIndexes_ok hm
  have ctx : LeafCtx idxs imap := ⟨hget, hsound⟩
  obtain ⟨nasc, nmem⟩ := normalize_spec idxs
  have nev : ∀ e ∈ normalizeIndexes idxs, e % 2 = 0 := by
    intro e he; obtain ⟨i, _, rfl⟩ := (nmem e).1 he; omega
  have nrange : ∀ e ∈ normalizeIndexes idxs, e + 1 < 2 ^ (d0 + 1) := by
    intro e he; obtain ⟨i, hi, rfl⟩ := (nmem e).1 he; have := hrange i hi; omega
  obtain ⟨j1, _, j3⟩ := rootLeafLoop_ok H p.leaves imap (2 ^ (d0 + 1)) _ p.nodes [] v ptrs K1 nasc nev hl
  have hK1asc : Asc K1 := by rw [j1]; exact asc_map_half _ _ nasc nev
  have hK1r : ∀ k ∈ K1, 2 ^ d0 ≤ k ∧ k < 2 ^ (d0 + 1) := by
    intro k hk
    rw [j1] at hk
    obtain ⟨e, he, rfl⟩ := List.mem_map.1 hk
    have := nrange e he; have := nev e he
    omega
  simp only [Nat.add_sub_cancel] at hls
  have hb := rootLevels_binding H inj val (d0 + 1) vwf p.nodes d0 K1 ptrs v v' ptrs' hK1asc hK1r (by omega) hls hr1
  -- the node at every second-level position is the tree's
  have hvK1 : ∀ e ∈ normalizeIndexes idxs, SMap.get v ((2 ^ (d0 + 1) + e) / 2) = some (val ((2 ^ (d0 + 1) + e) / 2)) := by
    intro e he
    obtain ⟨_, a, b, _, _, hv⟩ := j3 e he
    rw [hv, hb _ (by rw [j1]; exact List.mem_map.2 ⟨e, he, rfl⟩) _ hv]
  -- leaf level
  have hpre0 : pre p.nodes ptrs = (normalizeIndexes idxs).map (missing imap lv) :=
    rootLeafLoop_unique H inj p.leaves imap lv (2 ^ (d0 + 1)) _ p.nodes [] v ptrs K1 nasc nev hl (by
      intro e he
      have hr1 := nrange e he
      have hev := nev e he
      rw [hvK1 e he, vwf ((2 ^ (d0 + 1) + e) / 2) (by omega) (by omega)]
      show _ = some (H.merge (val (2 ^ (d0 + 1) + e)) (val (2 ^ (d0 + 1) + (e + 1))))
      congr 3 <;> omega)
  -- upper levels
  have hlu := levels_unique H inj val (d0 + 1) vwf t.nodes htn p.nodes d0 K1 ptrs v v' ptrs' hK1asc hK1r (by omega) hls
    (by
      intro k hk
      rw [j1] at hk
      obtain ⟨e, he, rfl⟩ := List.mem_map.1 hk
      exact hvK1 e he) hr1
  have hpl : ptrs.length = (normalizeIndexes idxs).length :=
    ((rootLeafLoop_shape H p.leaves imap (2 ^ (d0 + 1)) _ p.nodes [] (by omega)).of_ok hl).1
  have hK1l : K1.length = (normalizeIndexes idxs).length := by rw [j1]; simp
  have hpl' : ptrs'.length = ptrs.length :=
    (rootLevels_shape H p.nodes d0 K1 ptrs v (by omega) (by omega)).of_ok hls
  rw [pre_full p.nodes ptrs' (by omega) hun, hpre0] at hlu
  -- leaves
  obtain ⟨LP, hleaf, hLP, hLPv⟩ := proveLeafLoop_ok t.leaves lv idxs imap t.leaves.length ctx
    (normalizeIndexes idxs) (List.replicate imap.length H.dflt) nasc nev
    (fun e he => ⟨htl e (by have := nrange e he; omega), htl (e + 1) (nrange e he)⟩) (by simp [hil])
  have hleaves : LP = p.leaves := by
    apply List.ext_getElem?
    intro j
    by_cases hj : j < idxs.length
    · rw [(hLPv j hj).1 ((nmem _).2 ⟨_, List.getElem_mem hj, rfl⟩), hbind j hj]
    · rw [List.getElem?_eq_none (by omega), List.getElem?_eq_none (by omega)]
  have hK1' : (normalizeIndexes idxs).map (fun e => (e + t.leaves.length) / 2) = K1 := by
    rw [j1]; apply List.map_congr_left; intro e _; rw [wf.llen, Nat.add_comm]
  unfold proveBatch
  rw [if_neg (by simpa using hne), if_neg (by simp [maxPaths]; omega), hdepth, hm]
  simp only [Res.ok_bind, hleaf, hK1', Nat.add_sub_cancel, hlu, hleaves]
  have : (d0 + 1) % 256 = p.depth := by omega
  rw [this]

end WinterProofs.C10
