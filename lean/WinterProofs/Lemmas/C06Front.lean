-- helper lemmas for C06: the logic of the allocation-counting computations without input stream (`AM`), and the
-- specifications of the component parsers of `VerifierChannel::new` as modelled in Winter/Model/Parse.lean
import WinterProofs.Lemmas.C06Parse

namespace WinterProofs.C06L
open Model Model.Serde Model.Parse

def APost (k kf : Nat) (Q : α → Prop) (a : Nat) : Res α × Nat → Prop
  | (.ok x, a') => Q x ∧ a' ≤ a + k
  | (.panic, _) => False
  | (.err, a') => a' ≤ a + kf
  | (.eof, a') => a' ≤ a + kf

/-- no panic; on success the value satisfies `Q` and at most `k` more heap bytes were requested, on failure at
    most `kf` -/
def ASpec (k kf : Nat) (Q : α → Prop) (m : AM α) : Prop := ∀ a, APost k kf Q a (m a)

@[simp] theorem abind_apply (m : AM α) (f : α → AM β) (a : Nat) :
    (m >>= f) a = match m a with
      | (.ok x, a') => f x a'
      | (.err, a') => (.err, a')
      | (.eof, a') => (.eof, a')
      | (.panic, a') => (.panic, a') := rfl

@[simp] theorem apure_apply (x : α) (a : Nat) : (pure x : AM α) a = (.ok x, a) := rfl

theorem aspec_pure {Q : α → Prop} {x : α} (h : Q x) : ASpec 0 0 Q (pure x : AM α) := by
  intro a; simp only [apure_apply, APost]; exact ⟨h, Nat.le_refl _⟩

theorem aspec_weaken {k k' kf kf' : Nat} {Q Q' : α → Prop} {m : AM α} (h : ASpec k kf Q m) (hk : k ≤ k')
    (hkf : kf ≤ kf') (hq : ∀ x, Q x → Q' x) : ASpec k' kf' Q' m := by
  intro a
  have := h a
  generalize m a = r at this ⊢
  rcases r with ⟨x | _ | _ | _, a'⟩ <;> simp only [APost] at this ⊢
  · exact ⟨hq x this.1, by omega⟩
  · omega
  · omega

theorem aspec_bind {k1 k2 kf1 kf2 k kf : Nat} {Q1 : α → Prop} {Q2 : β → Prop} {m : AM α} {f : α → AM β}
    (h1 : ASpec k1 kf1 Q1 m) (h2 : ∀ x, Q1 x → ASpec k2 kf2 Q2 (f x)) (hk : k1 + k2 ≤ k) (hf1 : kf1 ≤ kf)
    (hf2 : k1 + kf2 ≤ kf) : ASpec k kf Q2 (m >>= f) := by
  intro a
  have hd := h1 a
  simp only [abind_apply]
  generalize m a = r at hd ⊢
  rcases r with ⟨x | _ | _ | _, a'⟩ <;> simp only [APost] at hd ⊢
  · have hf := h2 x hd.1 a'
    generalize f x a' = r2 at hf ⊢
    rcases r2 with ⟨y | _ | _ | _, a''⟩ <;> simp only [APost] at hf ⊢
    · exact ⟨hf.1, by omega⟩
    · omega
    · omega
  · omega
  · omega

/-- sequencing after a step that requests nothing -/
theorem aspec_seq {k kf : Nat} {Q1 : α → Prop} {Q2 : β → Prop} {m : AM α} {f : α → AM β}
    (h1 : ASpec 0 0 Q1 m) (h2 : ∀ x, Q1 x → ASpec k kf Q2 (f x)) : ASpec k kf Q2 (m >>= f) :=
  aspec_bind h1 h2 (by omega) (Nat.zero_le _) (by omega)

theorem aspec_ite {k kf : Nat} {Q : α → Prop} {p : Prop} [Decidable p] {t e : AM α}
    (ht : p → ASpec k kf Q t) (he : ¬ p → ASpec k kf Q e) : ASpec k kf Q (if p then t else e) := by
  by_cases h : p
  · simp only [h, if_true]; exact ht h
  · simp only [h, if_false]; exact he h

/-- a branch that is never taken (the panic sites) -/
theorem aspec_ite_neg {k kf : Nat} {Q : α → Prop} {p : Prop} [Decidable p] {t e : AM α}
    (hp : ¬ p) (he : ASpec k kf Q e) : ASpec k kf Q (if p then t else e) := by
  simp only [hp, if_false]; exact he

theorem aspec_err {k kf : Nat} {Q : α → Prop} : ASpec k kf Q (aerr : AM α) := by
  intro a; simp only [aerr, APost]; omega

theorem aspec_alloc (n : Nat) : ASpec n 0 (fun _ => True) (aalloc n) := by
  intro a; simp only [aalloc, APost]; exact ⟨trivial, Nat.le_refl _⟩

theorem aspec_mapErr {k kf : Nat} {Q : α → Prop} {m : AM α} (h : ASpec k kf Q m) : ASpec k kf Q (mapErr m) := by
  intro a
  have := h a
  unfold mapErr
  generalize m a = r at this ⊢
  rcases r with ⟨x | _ | _ | _, a'⟩ <;> simp only [APost] at this ⊢ <;> exact this

/-- a decoder run on a component of the proof: `c` bytes per byte of the component, plus its constants -/
theorem aspec_onBytes {c : Nat} {k : Int} {kf kn : Nat} {Q : α → Prop} {d : PDec α} {bytes : Bytes}
    (h : Spec c k kf Q d) (hb : BytesOk bytes) (hk : k ≤ kn) :
    ASpec (c * bytes.length + kn) (c * bytes.length + kf) Q (onBytes bytes d) := by
  intro a
  have := h bytes a hb
  unfold onBytes
  generalize d bytes a = r at this ⊢
  rcases r with ⟨⟨x, rest⟩ | _ | _ | _, a'⟩ <;> simp only [Post] at this <;> simp only [APost]
  · obtain ⟨q, _, _, al⟩ := this
    exact ⟨q, by omega⟩
  · omega
  · omega

-- ------------------------------------------------------------------------------------------------
-- component parsers of the channel; the rate is `CR = 24` heap bytes per input byte (a `Vec` header per count
-- byte of a batch Merkle proof is the worst ratio in the code)

def CR : Nat := 24

/-- what the lemmas need to know about the instantiation: sizes of the hasher's digest and of a field element -/
structure AirOk (A : Air) : Prop where
  digest : 3 * A.digestSize ≤ CR * A.digestBytes
  digestSmall : A.digestSize ≤ 32
  elemBytes : 8 ≤ A.F.bytes
  elemBytesLe : A.F.bytes ≤ 16

/-- bound of one failing `read_many` pre-allocation -/
abbrev PRE : Nat := MAX_PREALLOC

/-- `Vec::with_capacity(num_node_vectors)` for at most 255 vectors -/
def MERKLE_K : Nat := 255 * 24

theorem spec_pDigest (A : Air) : Spec CR (-((CR * A.digestBytes : Nat) : Int)) 0 (fun _ => True) (pDigest A) :=
  spec_lift (dspec_dDigest A)

theorem spec_manyDigests (A : Air) (hA : AirOk A) (n : Nat) :
    Spec CR 0 PRE (fun xs => xs.length = n) (readManyA A.digestSize (pDigest A) n) :=
  spec_readManyA_lift A.digestSize n (dspec_dDigest A) hA.digest

theorem spec_manyElems (A : Air) (deg n : Nat) :
    Spec CR 0 PRE (fun xs => xs.length = n) (readManyA (elemSize A deg) (pElem A deg) n) :=
  spec_readManyA_lift (elemSize A deg) n (dspec_dElem A deg) (by unfold CR; omega)

theorem spec_pMerkle (A : Air) (hA : AirOk A) (depth leaves : Nat) :
    Spec CR 0 (MERKLE_K + PRE) (fun _ => True) (pMerkle A depth leaves) := by
  unfold pMerkle
  refine spec_ite (fun _ => spec_fail) ?_; intro _
  refine spec_ite (fun _ => spec_fail) ?_; intro _
  refine spec_ite (fun _ => spec_fail) ?_; intro _
  -- the count byte pays for one `Vec` header ...
  refine spec_bindk (k2 := CR) (kf2 := MERKLE_K + PRE) (spec_lift (c := CR) dspec_readU8) (fun nvec hn => ?_) (by omega)
    (Nat.zero_le _) (by omega)
  -- ... and every vector's count byte for its own
  have hbody : Spec CR (-(CR : Int)) PRE (fun _ : Unit => True) (do
      let ndig ← u8
      let _ ← readManyA A.digestSize (pDigest A) ndig
      pure ()) := by
    refine spec_bindk (k2 := 0) (kf2 := PRE) (spec_lift (c := CR) dspec_readU8) (fun ndig _ => ?_) (by omega)
      (Nat.zero_le _) (by omega)
    exact spec_bindk (spec_manyDigests A hA ndig) (fun _ _ => spec_pure trivial) (Int.le_refl (0 + 0))
      (Nat.le_refl _) (by omega)
  have hloop := spec_loopMany hbody (by unfold CR; omega) nvec
  have hnv : ((nvec : Nat) : Int) * (-(CR : Int)) = -((nvec * 24 : Nat) : Int) := by
    unfold CR; rw [Int.mul_neg, Int.natCast_mul]
  refine spec_bindk (k2 := -((nvec * 24 : Nat) : Int)) (kf2 := PRE) (spec_alloc _) (fun _ _ => ?_)
    (by unfold CR; omega) (Nat.zero_le _) (by unfold MERKLE_K; omega)
  rw [← hnv]
  exact spec_bindk hloop (fun _ _ => spec_pure trivial) (by omega) (Nat.le_refl _) (by
    have : ((nvec : Nat) : Int) * (-(CR : Int)) ≤ 0 := Int.mul_nonpos_of_nonneg_of_nonpos (by omega) (by unfold CR; omega)
    omega)

theorem spec_merkleEnd (A : Air) (hA : AirOk A) (depth leaves : Nat) :
    Spec CR 0 (MERKLE_K + PRE) (fun _ => True) (do pMerkle A depth leaves; pEnd) :=
  spec_bindk (spec_pMerkle A hA depth leaves) (fun _ _ => spec_pEnd) (Int.le_refl (0 + 0)) (Nat.le_refl _) (by omega)

theorem aspec_commitments (A : Air) (hA : AirOk A) (cm : Bytes) (hb : BytesOk cm) (numSeg layers : Nat) :
    ASpec (CR * cm.length) (CR * cm.length + PRE) (fun _ => True) (Parse.commitmentsParse A cm numSeg layers) := by
  unfold Parse.commitmentsParse
  have hd : Spec CR 0 PRE (fun _ : Unit => True) (do
      let _ ← readManyA A.digestSize (pDigest A) numSeg
      pDigest A
      let _ ← readManyA A.digestSize (pDigest A) (layers + 1)
      pEnd) := by
    refine spec_bindk (k2 := 0) (kf2 := PRE) (spec_manyDigests A hA numSeg) (fun _ _ => ?_) (by omega) (Nat.le_refl _) (by omega)
    refine spec_bind0 (spec_weaken (spec_pDigest A) (Int.le_refl _) (Nat.le_refl 0) (fun _ h => h)) (by omega) (fun _ _ => ?_)
    exact spec_bindk (spec_manyDigests A hA (layers + 1)) (fun _ _ => spec_pEnd) (Int.le_refl (0 + 0)) (Nat.le_refl _) (by omega)
  exact aspec_onBytes (kn := 0) hd hb (Int.le_refl 0)

/-- hashes of at most 255 rows -/
def ROWS_K (A : Air) : Nat := 255 * A.digestSize

/-- failure constant of one `Queries::parse` -/
def QUERIES_K (A : Air) : Nat := ROWS_K A + MERKLE_K + PRE

open Gen.Limits in
theorem aspec_queriesParse (A : Air) (hA : AirOk A) (q : Queries) (hq : QueriesOk q) (domain rows cols deg : Nat)
    (hdom : pow2 domain = true) (hr0 : rows ≠ 0) (hr : rows ≤ 255) (hc0 : cols ≠ 0) (hc : cols ≤ 255) :
    ASpec (CR * (q.values.length + q.paths.length) + QUERIES_K A)
      (CR * (q.values.length + q.paths.length) + QUERIES_K A) (fun _ => True)
      (Parse.queriesParse A q domain rows cols deg) := by
  unfold Parse.queriesParse
  refine aspec_ite_neg (by simp [hdom]) ?_
  refine aspec_ite_neg hr0 ?_
  refine aspec_ite_neg hc0 ?_
  simp only []
  refine aspec_ite (fun _ => aspec_err) ?_; intro _
  refine aspec_ite_neg (by simp only [MAX_ROWS]; omega) ?_
  refine aspec_ite_neg (by simp only [MAX_COLS]; omega) ?_
  have hv := aspec_onBytes (kn := 0) (spec_manyElems A deg (rows * cols)) hq.1 (Int.le_refl 0)
  have hp := aspec_onBytes (kn := 0) (spec_merkleEnd A hA (domain.log2 % 256) rows) hq.2 (Int.le_refl 0)
  have hrows : rows * A.digestSize ≤ ROWS_K A := Nat.mul_le_mul_right _ hr
  have hadd := Nat.mul_add CR q.values.length q.paths.length
  refine aspec_bind (k2 := rows * A.digestSize + CR * q.paths.length)
    (kf2 := rows * A.digestSize + CR * q.paths.length + MERKLE_K + PRE) hv (fun _ _ => ?_)
    (by unfold QUERIES_K; omega) (by unfold QUERIES_K; omega) (by unfold QUERIES_K; omega)
  refine aspec_bind (k2 := CR * q.paths.length) (kf2 := CR * q.paths.length + MERKLE_K + PRE) (aspec_alloc _)
    (fun _ _ => ?_) (Nat.le_refl _) (Nat.zero_le _) (by omega)
  exact aspec_weaken hp (by omega) (by omega) (fun _ h => h)

/-- rate of a FRI layer: parsing plus the two vectors sized from the number of queries -/
def CL : Nat := CR + 3

def layerSize (l : FriLayer) : Nat := l.values.length + l.paths.length

def layersSize (ls : List FriLayer) : Nat := (ls.map layerSize).sum

theorem aspec_layerParse (A : Air) (hA : AirOk A) (l : FriLayer) (hl : LayerOk l) (domain folding deg : Nat)
    (hdom : domain ≠ 0) (hfold : 2 ≤ folding) (hdeg : 1 ≤ deg) :
    ASpec (CL * layerSize l) (CL * layerSize l + MERKLE_K + PRE) (fun _ => True)
      (layerParse A l domain folding deg) := by
  unfold layerParse
  have hesz : 8 ≤ elemSize A deg := by
    unfold elemSize
    calc 8 ≤ A.F.bytes := hA.elemBytes
      _ = A.F.bytes * 1 := by omega
      _ ≤ A.F.bytes * deg := Nat.mul_le_mul_left _ hdeg
  have hnqb : 16 ≤ elemSize A deg * folding := by
    calc 16 = 8 * 2 := by omega
      _ ≤ elemSize A deg * folding := Nat.mul_le_mul hesz hfold
  simp only []
  refine aspec_ite_neg (by omega) ?_
  refine aspec_ite (fun _ => aspec_err) ?_; intro _
  refine aspec_ite (fun _ => aspec_err) ?_; intro _
  generalize hnq : l.values.length / (elemSize A deg * folding) = nq
  have hdm : nq * (elemSize A deg * folding) ≤ l.values.length := by
    rw [← hnq]; exact Nat.div_mul_le_self _ _
  have h1 : nq * A.digestSize ≤ 2 * l.values.length := by
    calc nq * A.digestSize ≤ nq * 32 := Nat.mul_le_mul_left _ hA.digestSmall
      _ = 2 * (nq * 16) := by omega
      _ ≤ 2 * (nq * (elemSize A deg * folding)) := Nat.mul_le_mul_left _ (Nat.mul_le_mul_left _ hnqb)
      _ ≤ 2 * l.values.length := Nat.mul_le_mul_left _ hdm
  have h2 : nq * folding * elemSize A deg ≤ l.values.length := by
    rw [Nat.mul_assoc, Nat.mul_comm folding]; exact hdm
  have hvals : Spec CR 0 PRE (fun _ : Unit => True) (do
      let _ ← loopMany (readManyA (elemSize A deg) (pElem A deg) folding) nq
      pEnd) := by
    have hl := spec_loopMany (spec_manyElems A deg folding) (Int.le_refl 0) nq
    exact spec_bindk hl (fun _ _ => spec_pEnd) (by simp) (Nat.le_refl _) (by simp)
  have hv := aspec_onBytes (kn := 0) hvals hl.1 (Int.le_refl 0)
  have hp := aspec_onBytes (kn := 0) (spec_merkleEnd A hA (domain.log2 % 256) nq) hl.2 (Int.le_refl 0)
  have hsz : CL * layerSize l =
      CR * l.values.length + 3 * l.values.length + CR * l.paths.length + 3 * l.paths.length := by
    unfold CL layerSize; rw [Nat.mul_add, Nat.add_mul, Nat.add_mul]; omega
  rw [hsz]
  refine aspec_bind (k2 := nq * folding * elemSize A deg + CR * l.values.length + CR * l.paths.length)
    (kf2 := nq * folding * elemSize A deg + CR * l.values.length + CR * l.paths.length + MERKLE_K + PRE)
    (aspec_alloc _) (fun _ _ => ?_) (by omega) (Nat.zero_le _) (by omega)
  refine aspec_bind (k2 := CR * l.values.length + CR * l.paths.length)
    (kf2 := CR * l.values.length + CR * l.paths.length + MERKLE_K + PRE)
    (aspec_alloc _) (fun _ _ => ?_) (by omega) (Nat.zero_le _) (by omega)
  refine aspec_bind (k2 := CR * l.paths.length) (kf2 := CR * l.paths.length + MERKLE_K + PRE) hv (fun _ _ => ?_)
    (by omega) (by omega) (by omega)
  refine aspec_ite_neg hdom ?_
  exact aspec_weaken hp (by omega) (by omega) (fun _ h => h)

theorem aspec_layersParse (A : Air) (hA : AirOk A) (folding deg : Nat) (hfold : 2 ≤ folding) (hdeg : 1 ≤ deg)
    (ls : List FriLayer) (hls : ∀ l ∈ ls, LayerOk l) (domain : Nat) :
    ASpec (CL * layersSize ls) (CL * layersSize ls + MERKLE_K + PRE) (fun _ => True)
      (layersParse A folding deg ls domain) := by
  induction ls generalizing domain with
  | nil =>
    unfold layersParse
    exact aspec_weaken (aspec_pure trivial) (Nat.zero_le _) (Nat.zero_le _) (fun _ h => h)
  | cons l ls ih =>
    unfold layersParse
    simp only []
    refine aspec_ite (fun _ => aspec_err) ?_; intro hd
    have hl := aspec_mapErr (aspec_layerParse A hA l (hls l (List.mem_cons_self ..)) (domain / folding) folding deg
      hd hfold hdeg)
    have ht := ih (fun x hx => hls x (List.mem_cons_of_mem _ hx)) (domain / folding)
    have hsz : CL * layersSize (l :: ls) = CL * layerSize l + CL * layersSize ls := by
      unfold layersSize; simp [Nat.mul_add]
    rw [hsz]
    exact aspec_bind hl (fun _ _ => ht) (Nat.le_refl _) (by omega) (by omega)

theorem aspec_remainder (A : Air) (hA : AirOk A) (fri : FriProof) (hf : FriOk fri) (deg : Nat) (hdeg : 1 ≤ deg) :
    ASpec (CR * fri.remainder.length) (CR * fri.remainder.length + PRE) (fun _ => True)
      (friParseRemainder A fri deg) := by
  unfold friParseRemainder
  have hesz : elemSize A deg ≠ 0 := by
    unfold elemSize
    have := hA.elemBytes
    exact Nat.ne_of_gt (Nat.mul_pos (by omega) (by omega))
  refine aspec_ite_neg hesz ?_
  simp only []
  refine aspec_ite (fun _ => aspec_err) ?_; intro _
  have hd : Spec CR 0 PRE (fun _ : Unit => True) (do
      let _ ← readManyA (elemSize A deg) (pElem A deg) (fri.remainder.length / elemSize A deg)
      pEnd) :=
    spec_bindk (spec_manyElems A deg _) (fun _ _ => spec_pEnd) (Int.le_refl (0 + 0)) (Nat.le_refl _) (by omega)
  exact aspec_mapErr (aspec_weaken (aspec_onBytes (kn := 0) hd hf.2.2.1 (Int.le_refl 0)) (by omega) (by omega)
    (fun _ h => h))

def oodSize (f : OodFrame) : Nat := f.traceStates.length + f.lagrange.length + f.evaluations.length

theorem aspec_oodParse (A : Air) (f : OodFrame) (hf : OodOk f) (mainW auxW ncols deg : Nat)
    (hm : mainW ≠ 0) (hn : ncols ≠ 0) :
    ASpec (CR * oodSize f + 3 * PRE + 2 * mainW * elemSize A deg)
      (CR * oodSize f + 3 * PRE + 2 * mainW * elemSize A deg) (fun _ => True)
      (Parse.oodParse A f mainW auxW ncols deg) := by
  unfold Parse.oodParse
  refine aspec_ite_neg hm ?_
  refine aspec_ite_neg hn ?_
  have hlagd : Spec CR 0 PRE (fun _ : Option Nat => True) (do
      let k ← u8
      let r ← (if k > 0 then do
        let _ ← readManyA (elemSize A deg) (pElem A deg) k
        pure (some k)
      else pure none)
      pEnd
      pure r) := by
    refine spec_seq spec_u8 ?_; intro k _
    have hr : Spec CR 0 PRE (fun _ : Option Nat => True) (if k > 0 then do
        let _ ← readManyA (elemSize A deg) (pElem A deg) k
        pure (some k)
      else pure none) := by
      refine spec_ite (fun _ => ?_) (fun _ => ?_)
      · exact spec_bindk (spec_manyElems A deg k) (fun _ _ => spec_pure trivial) (Int.le_refl (0 + 0)) (Nat.le_refl _) (by omega)
      · exact spec_weaken (spec_pure trivial) (Int.le_refl 0) (Nat.zero_le _) (fun _ h => h)
    refine spec_bindk (k2 := 0) (kf2 := 0) hr (fun r _ => ?_) (by omega) (Nat.le_refl _) (by omega)
    exact spec_seq spec_pEnd (fun _ _ => spec_pure trivial)
  have hlag := aspec_onBytes (kn := 0) hlagd hf.2.1 (Int.le_refl 0)
  have hsz : CR * oodSize f = CR * f.traceStates.length + CR * f.lagrange.length + CR * f.evaluations.length := by
    unfold oodSize; rw [Nat.mul_add, Nat.mul_add]
  rw [hsz]
  refine aspec_bind (k2 := CR * f.traceStates.length + CR * f.evaluations.length + 2 * PRE + 2 * mainW * elemSize A deg)
    (kf2 := CR * f.traceStates.length + CR * f.evaluations.length + 2 * PRE + 2 * mainW * elemSize A deg)
    hlag (fun lag _ => ?_) (by omega) (by omega) (by omega)
  refine aspec_ite (fun _ => aspec_err) ?_; intro _
  simp only []
  generalize (if lag.isSome = true then auxW - 1 else auxW) = auxW'
  have htsd : Spec CR 0 PRE (fun _ : Unit => True) (do
      let fs ← u8
      if fs ≠ 2 then pfail else do
      let _ ← readManyA (elemSize A deg) (pElem A deg) ((mainW + auxW') * fs)
      pEnd) := by
    refine spec_seq spec_u8 ?_; intro fs _
    refine spec_ite (fun _ => spec_fail) ?_; intro _
    exact spec_bindk (spec_manyElems A deg _) (fun _ _ => spec_pEnd) (Int.le_refl (0 + 0)) (Nat.le_refl _) (by omega)
  have hts := aspec_onBytes (kn := 0) htsd hf.1 (Int.le_refl 0)
  have hevd : Spec CR 0 PRE (fun _ : Unit => True) (do
      let _ ← readManyA (elemSize A deg) (pElem A deg) ncols
      pEnd) :=
    spec_bindk (spec_manyElems A deg _) (fun _ _ => spec_pEnd) (Int.le_refl (0 + 0)) (Nat.le_refl _) (by omega)
  have hev := aspec_onBytes (kn := 0) hevd hf.2.2 (Int.le_refl 0)
  refine aspec_bind (k2 := CR * f.evaluations.length + PRE + 2 * mainW * elemSize A deg)
    (kf2 := CR * f.evaluations.length + PRE + 2 * mainW * elemSize A deg) hts (fun _ _ => ?_)
    (by omega) (by omega) (by omega)
  refine aspec_bind (k2 := CR * f.evaluations.length + PRE) (kf2 := CR * f.evaluations.length + PRE)
    (aspec_alloc _) (fun _ _ => ?_) (by omega) (Nat.zero_le _) (by omega)
  exact aspec_bind hev (fun _ _ => aspec_pure trivial) (by omega) (by omega) (by omega)

-- ------------------------------------------------------------------------------------------------
-- facts about a parsed context

open Gen.Limits in
theorem ti_facts (t : TraceInfo) (h : t.wf = true) :
    t.main ≠ 0 ∧ t.main + t.aux ≤ 255 ∧ pow2 t.length = true ∧ 8 ≤ t.length := by
  simp only [TraceInfo.wf, Bool.and_eq_true, decide_eq_true_eq] at h
  simp only [MIN_TRACE_LENGTH, MAX_TRACE_WIDTH] at h
  obtain ⟨⟨⟨⟨⟨⟨⟨h1, h2⟩, h3⟩, h4⟩, h5⟩, h6⟩, h7⟩, h8⟩ := h
  exact ⟨by omega, h6, h2, h1⟩

open Gen.Limits in
theorem opt_facts (o : ProofOptions) (h : o.wf = true) :
    pow2 o.blowup = true ∧ 2 ≤ o.blowup ∧ o.blowup ≤ 128 ∧ pow2 o.folding = true ∧ 2 ≤ o.folding ∧
    (o.fieldExt = 1 ∨ o.fieldExt = 2 ∨ o.fieldExt = 3) ∧ 0 < o.numQueries ∧ o.numQueries ≤ 255 := by
  simp only [ProofOptions.wf, fext, Bool.and_eq_true, decide_eq_true_eq, Bool.or_eq_true, beq_iff_eq] at h
  simp only [MAX_NUM_QUERIES, MIN_BLOWUP_FACTOR, MAX_BLOWUP_FACTOR, FRI_MIN_FOLDING_FACTOR, FRI_MAX_FOLDING_FACTOR] at h
  obtain ⟨⟨⟨⟨⟨⟨⟨⟨⟨⟨⟨h1, h2⟩, h3⟩, h4⟩, h5⟩, h6⟩, h7⟩, h8⟩, h9⟩, h10⟩, h11⟩, h12⟩ := h
  refine ⟨h3, h4, h5, h7, h8, ?_, h1, h2⟩
  rcases h12 with (h | h) | h
  · exact Or.inl h
  · exact Or.inr (Or.inl h)
  · exact Or.inr (Or.inr h)

theorem pow2_eq {n : Nat} (h : pow2 n = true) : n = 2 ^ n.log2 := by
  simp only [pow2, Bool.and_eq_true, bne_iff_ne, beq_iff_eq] at h
  exact h.2

theorem pow2_mul {a b : Nat} (ha : pow2 a = true) (hb : pow2 b = true) : pow2 (a * b) = true := by
  rw [pow2_eq ha, pow2_eq hb, ← Nat.pow_add]
  exact pow2_log _

-- ------------------------------------------------------------------------------------------------
-- VerifierChannel::new

def queriesSize (q : Queries) : Nat := q.values.length + q.paths.length

/-- bytes of the components of a parsed proof that the channel parses -/
def proofSize (p : Proof) : Nat :=
  p.commitments.length + (p.traceQueries.map queriesSize).sum + queriesSize p.constraintQueries +
  layersSize p.friProof.layers + p.friProof.remainder.length + oodSize p.oodFrame

theorem aspec_traceQueriesNew (A : Air) (hA : AirOk A) (p : Proof) (hp : ProofOk p) (lde deg : Nat)
    (hlde : pow2 lde = true) (hnuq : p.numUniqueQueries ≠ 0) :
    ASpec (CR * (p.traceQueries.map queriesSize).sum + 2 * QUERIES_K A)
      (CR * (p.traceQueries.map queriesSize).sum + 2 * QUERIES_K A) (fun _ => True)
      (traceQueriesNew A p lde deg) := by
  obtain ⟨hctx, hnq, _, hlen, hqs, _⟩ := hp
  obtain ⟨hm0, hw, _, _⟩ := ti_facts _ hctx.1
  unfold traceQueriesNew
  simp only []
  refine aspec_ite_neg (by simp [hlen]) ?_
  have hr : p.numUniqueQueries ≤ 255 := by omega
  cases htq : p.traceQueries with
  | nil =>
    rw [htq] at hlen
    unfold TraceInfo.numSegments at hlen
    split at hlen <;> simp at hlen
  | cons q0 rest =>
    rw [htq] at hqs hlen
    simp only []
    have hq0 := aspec_mapErr (aspec_queriesParse A hA q0 (hqs q0 (List.mem_cons_self ..)) lde p.numUniqueQueries
      p.context.traceInfo.main 1 hlde hnuq hr hm0 (by omega))
    by_cases haux : p.context.traceInfo.aux > 0
    · simp only [haux, if_true]
      cases hrest : rest with
      | nil =>
        rw [hrest] at hlen
        unfold TraceInfo.numSegments at hlen
        simp [haux] at hlen
      | cons q1 tail =>
        rw [hrest] at hqs
        simp only []
        have hq1 := aspec_mapErr (aspec_queriesParse A hA q1
          (hqs q1 (List.mem_cons_of_mem _ (List.mem_cons_self ..))) lde p.numUniqueQueries
          p.context.traceInfo.aux deg hlde hnuq hr (by omega) (by omega))
        have hsum : CR * (List.map queriesSize (q0 :: q1 :: tail)).sum =
            CR * queriesSize q0 + CR * queriesSize q1 + CR * (List.map queriesSize tail).sum := by
          simp [Nat.mul_add, Nat.add_assoc]
        rw [hsum]
        unfold queriesSize at *
        exact aspec_bind hq0 (fun _ _ => hq1) (by omega) (by omega) (by omega)
    · simp only [haux, if_false]
      have hsum : CR * (List.map queriesSize (q0 :: rest)).sum =
          CR * queriesSize q0 + CR * (List.map queriesSize rest).sum := by
        simp [Nat.mul_add]
      rw [hsum]
      unfold queriesSize at *
      exact aspec_bind hq0 (fun _ _ => aspec_pure trivial) (by omega) (by omega) (by omega)

theorem aspec_friNew (A : Air) (hA : AirOk A) (fri : FriProof) (hf : FriOk fri) (lde layers folding deg : Nat)
    (hlde : pow2 lde = true) (hfp : pow2 folding = true) (hfold : 2 ≤ folding) (hdeg : 1 ≤ deg) :
    ASpec (CL * (layersSize fri.layers + fri.remainder.length) + MERKLE_K + 2 * PRE)
      (CL * (layersSize fri.layers + fri.remainder.length) + MERKLE_K + 2 * PRE) (fun _ => True)
      (friNew A fri lde layers folding deg) := by
  unfold friNew
  refine aspec_ite (fun _ => aspec_err) ?_; intro _
  refine aspec_ite_neg (by have := hf.2.2.2; omega) ?_
  have hrem := aspec_remainder A hA fri hf deg hdeg
  have hlay : ASpec (CL * layersSize fri.layers) (CL * layersSize fri.layers + MERKLE_K + PRE) (fun _ => True)
      (mapErr (friParseLayers A fri lde folding deg)) := by
    apply aspec_mapErr
    unfold friParseLayers
    refine aspec_ite_neg (by simp [hlde]) ?_
    refine aspec_ite_neg (by simp [hfp]) ?_
    refine aspec_ite_neg (by omega) ?_
    exact aspec_layersParse A hA folding deg hfold hdeg fri.layers hf.1 lde
  have h1 : CL * (layersSize fri.layers + fri.remainder.length) =
      CL * layersSize fri.layers + CL * fri.remainder.length := Nat.mul_add _ _ _
  have h2 : CR * fri.remainder.length ≤ CL * fri.remainder.length :=
    Nat.mul_le_mul_right _ (by unfold CL; omega)
  rw [h1]
  exact aspec_bind hrem (fun _ _ => hlay) (by omega) (by omega) (by omega)

/-- the two row vectors of at most 255 columns of at most 48-byte elements -/
def OOD_K : Nat := 3 * PRE + 2 * 255 * 48

theorem aspec_oodNew (A : Air) (hA : AirOk A) (p : Proof) (hp : ProofOk p) (ncols deg : Nat) (hn : ncols ≠ 0)
    (hdeg : deg ≤ 3) :
    ASpec (CR * oodSize p.oodFrame + OOD_K) (CR * oodSize p.oodFrame + OOD_K) (fun _ => True)
      (oodNew A p ncols deg) := by
  obtain ⟨hctx, _, _, _, _, _, hood, _⟩ := hp
  obtain ⟨hm0, hw, _, _⟩ := ti_facts _ hctx.1
  unfold oodNew
  simp only []
  have h := aspec_mapErr (aspec_oodParse A p.oodFrame hood p.context.traceInfo.main p.context.traceInfo.aux ncols deg
    hm0 hn)
  have hesz : 2 * p.context.traceInfo.main * elemSize A deg ≤ 2 * 255 * 48 := by
    unfold elemSize
    have h1 : A.F.bytes * deg ≤ 16 * 3 := Nat.mul_le_mul hA.elemBytesLe hdeg
    have h2 : 2 * p.context.traceInfo.main ≤ 2 * 255 := by omega
    calc 2 * p.context.traceInfo.main * (A.F.bytes * deg) ≤ 2 * 255 * (16 * 3) := Nat.mul_le_mul h2 h1
      _ = 2 * 255 * 48 := by omega
  refine aspec_bind (k2 := 0) (kf2 := 0) h (fun lag _ => ?_) (by unfold OOD_K; omega) (by unfold OOD_K; omega)
    (by unfold OOD_K; omega)
  refine aspec_ite (fun _ => aspec_err) ?_; intro _
  refine aspec_ite (fun _ => aspec_err) ?_; intro _
  exact aspec_pure trivial

/-- the constant part of the allocation bound of the channel construction -/
def FRONT_K (A : Air) : Nat := PRE + 3 * QUERIES_K A + (MERKLE_K + 2 * PRE) + OOD_K

theorem aspec_channelNew (A : Air) (hA : AirOk A) (p : Proof) (hp : ProofOk p) (ncols : Nat) (hn0 : ncols ≠ 0)
    (hn : ncols ≤ 255) :
    ASpec (CL * proofSize p + FRONT_K A) (CL * proofSize p + FRONT_K A) (fun _ => True) (channelNew A p ncols) := by
  have hp' := hp
  obtain ⟨hctx, hnq, hcm, hlen, hqs, hcq, hood, hfri⟩ := hp
  obtain ⟨hm0, hw, hpl, _⟩ := ti_facts _ hctx.1
  obtain ⟨hpb, hb2, _, hpf, hf2, hext, _, _⟩ := opt_facts _ hctx.2.1
  have hlde := pow2_mul hpl hpb
  have hdeg1 : 1 ≤ p.context.options.fieldExt := by omega
  have hdeg3 : p.context.options.fieldExt ≤ 3 := by omega
  unfold channelNew
  simp only []
  have hc := aspec_mapErr (aspec_commitments A hA p.commitments hcm p.context.traceInfo.numSegments
    (Protocol.friLayers (p.context.traceInfo.length * p.context.options.blowup)
      ((p.context.options.remDeg + 1) * p.context.options.blowup) p.context.options.folding).fst)
  -- sizes
  have hsz : CL * proofSize p = CL * p.commitments.length + CL * (p.traceQueries.map queriesSize).sum +
      CL * queriesSize p.constraintQueries + CL * (layersSize p.friProof.layers + p.friProof.remainder.length) +
      CL * oodSize p.oodFrame := by
    unfold proofSize; simp only [Nat.mul_add]; omega
  have hcl : ∀ x : Nat, CR * x ≤ CL * x := fun x => Nat.mul_le_mul_right x (by unfold CL; omega)
  have e1 := hcl p.commitments.length
  have e2 := hcl (p.traceQueries.map queriesSize).sum
  have e3 := hcl (queriesSize p.constraintQueries)
  have e4 := hcl (oodSize p.oodFrame)
  rw [hsz]
  generalize hS1 : CL * p.commitments.length = S1 at *
  generalize hS2 : CL * (p.traceQueries.map queriesSize).sum = S2 at *
  generalize hS3 : CL * queriesSize p.constraintQueries = S3 at *
  generalize hS4 : CL * (layersSize p.friProof.layers + p.friProof.remainder.length) = S4 at *
  generalize hS5 : CL * oodSize p.oodFrame = S5 at *
  refine aspec_bind (k2 := S2 + S3 + S4 + S5 + 3 * QUERIES_K A + (MERKLE_K + 2 * PRE) + OOD_K)
    (kf2 := S2 + S3 + S4 + S5 + 3 * QUERIES_K A + (MERKLE_K + 2 * PRE) + OOD_K) hc (fun _ _ => ?_)
    (by unfold FRONT_K; omega) (by unfold FRONT_K; omega) (by unfold FRONT_K; omega)
  refine aspec_ite (fun _ => aspec_err) ?_; intro hnuq
  have htq := aspec_traceQueriesNew A hA p hp' (p.context.traceInfo.length * p.context.options.blowup)
    p.context.options.fieldExt hlde hnuq
  refine aspec_bind (k2 := S3 + S4 + S5 + QUERIES_K A + (MERKLE_K + 2 * PRE) + OOD_K)
    (kf2 := S3 + S4 + S5 + QUERIES_K A + (MERKLE_K + 2 * PRE) + OOD_K) htq (fun _ _ => ?_)
    (by omega) (by omega) (by omega)
  have hcqs := aspec_mapErr (aspec_queriesParse A hA p.constraintQueries hcq
    (p.context.traceInfo.length * p.context.options.blowup) p.numUniqueQueries ncols p.context.options.fieldExt
    hlde hnuq (by omega) hn0 hn)
  refine aspec_bind (k2 := S4 + S5 + (MERKLE_K + 2 * PRE) + OOD_K)
    (kf2 := S4 + S5 + (MERKLE_K + 2 * PRE) + OOD_K) hcqs (fun _ _ => ?_)
    (by unfold queriesSize at e3; omega) (by unfold queriesSize at e3; omega) (by unfold queriesSize at e3; omega)
  have hfr := aspec_friNew A hA p.friProof hfri (p.context.traceInfo.length * p.context.options.blowup)
    (Protocol.friLayers (p.context.traceInfo.length * p.context.options.blowup)
      ((p.context.options.remDeg + 1) * p.context.options.blowup) p.context.options.folding).fst
    p.context.options.folding p.context.options.fieldExt hlde hpf hf2 hdeg1
  refine aspec_bind (k2 := S5 + OOD_K) (kf2 := S5 + OOD_K) hfr (fun _ _ => ?_) (by omega) (by omega) (by omega)
  exact aspec_weaken (aspec_oodNew A hA p hp' ncols p.context.options.fieldExt hn0 hdeg3) (by omega) (by omega)
    (fun _ h => h)

end WinterProofs.C06L
