-- C14 helper lemmas: `split_radix_fft` (transpose, row FFTs, transpose, twiddle scaling + row FFTs) computes the same
-- bit-reversed DFT as the serial `fft_in_place`, given that the row transforms do (C09's theorem, a named hypothesis)
import Winter.Model.Parallel
import WinterProofs.Lemmas.C09Brev
import Mathlib.Algebra.BigOperators.Intervals
import Mathlib.Algebra.Module.BigOperators
import Mathlib.Tactic.Ring
import Mathlib.Tactic.Module

namespace WinterProofs.C14
open Model.Parallel Finset
open Model.Fft (brev permuteIndex isPow2)

/-! ### index arithmetic -/

theorem div_mod_of_lt (n a b : Nat) (h : a < n) : (b * n + a) / n = b ∧ (b * n + a) % n = a := by
  have hn : 0 < n := by omega
  constructor
  · rw [Nat.add_comm, Nat.add_mul_div_right _ _ hn, Nat.div_eq_of_lt h, Nat.zero_add]
  · rw [Nat.add_comm, Nat.add_mul_mod_self_right, Nat.mod_eq_of_lt h]

/-- the stretched transposition swaps the block at (row r, column c) with the one at (row c, column r) -/
theorem transposeIdx_block (size stretch r c t : Nat) (hc : c < size) (ht : t < stretch) :
    transposeIdx size stretch ((r * size + c) * stretch + t) = (c * size + r) * stretch + t := by
  unfold transposeIdx
  obtain ⟨h1, h2⟩ := div_mod_of_lt stretch t (r * size + c) ht
  obtain ⟨h3, h4⟩ := div_mod_of_lt size c r hc
  simp only [h1, h2, h3, h4]

/-- bit reversal of an index split into a high part `i` (`ki` bits) and a low part `p` (`ko` bits) -/
theorem brev_split (ki : Nat) : ∀ (ko i p : Nat), p < 2 ^ ko →
    brev (ki + ko) (i * 2 ^ ko + p) = brev ko p * 2 ^ ki + brev ki i := by
  intro ko
  induction ko with
  | zero =>
    intro i p hp
    have : p = 0 := by simpa using hp
    subst this
    simp [brev]
  | succ ko ih =>
    intro i p hp
    have e : ki + (ko + 1) = (ki + ko) + 1 := by omega
    rw [e]
    simp only [brev]
    have h1 : (i * 2 ^ (ko + 1) + p) % 2 = p % 2 := by
      rw [Nat.pow_succ, ← Nat.mul_assoc, Nat.add_comm, Nat.add_mul_mod_self_right]
    have h2 : (i * 2 ^ (ko + 1) + p) / 2 = i * 2 ^ ko + p / 2 := by
      rw [Nat.pow_succ, ← Nat.mul_assoc, Nat.add_comm, Nat.add_mul_div_right _ _ (by decide : 0 < 2), Nat.add_comm]
    have hp2 : p / 2 < 2 ^ ko := by rw [Nat.pow_succ] at hp; omega
    rw [h1, h2, ih i (p / 2) hp2, Nat.pow_add]
    ring

/-! ### sums -/

variable {R : Type} [CommRing R] {M : Type} [AddCommGroup M] [Module R M]

theorem sum_range_mul (f : Nat → M) (I O : Nat) :
    ∑ j ∈ range (I * O), f j = ∑ c ∈ range I, ∑ q ∈ range O, f (c * O + q) := by
  induction I with
  | zero => simp
  | succ I ih => rw [Nat.succ_mul, sum_range_add, ih, sum_range_succ]

/-- the serial transform of `2^k` values with root `ρ` (C09: `fftRec_is_dft` with `fft_in_place_eq_fftRec`):
    position `m` holds the evaluation at `ρ ^ brev k m` -/
def IsBitRevDft (fft : (Nat → M) → Nat → M) (ρ : R) (k : Nat) : Prop :=
  ∀ (y : Nat → M) (m : Nat), m < 2 ^ k → fft y m = ∑ j ∈ range (2 ^ k), (ρ ^ brev k m) ^ j • y j

/-! ### `split_radix_fft` -/

/-- what the first transpose, the inner row transforms and the second transpose leave at position `i * outer + q`:
    the inner transform (at `i`) of the stride-`outer` subsequence of `x` starting at `q` -/
theorem splitRadix_inner (fftI : (Nat → M) → Nat → M) (ρI : R) (ki I S : Nat) (hI : I = 2 ^ ki) (hS : 0 < S)
    (hspec : IsBitRevDft fftI ρI ki) (x : Nat → M) (i q : Nat) (hi : i < I) (hq : q < I * S) :
    transposeFn I S (innerRows fftI (I * S) S (transposeFn I S x)) (i * (I * S) + q)
      = ∑ c' ∈ range I, (ρI ^ brev ki i) ^ c' • x (c' * (I * S) + q) := by
  -- q = c * S + t
  have ht : q % S < S := Nat.mod_lt _ hS
  have hc : q / S < I := by rw [Nat.div_lt_iff_lt_mul hS]; exact hq
  have hqd : q = (q / S) * S + q % S := by
    have := Nat.div_add_mod q S; rw [Nat.mul_comm] at this; omega
  have e1 : i * (I * S) + q = (i * I + q / S) * S + q % S := by
    rw [Nat.add_mul, Nat.mul_assoc]; omega
  unfold transposeFn
  rw [e1, transposeIdx_block I S i (q / S) (q % S) hc ht]
  -- the inner loop at row q / S, position i * S + t
  unfold innerRows
  have e2 : (q / S * I + i) * S + q % S = (q / S) * (I * S) + (i * S + q % S) := by ring
  have hlt : i * S + q % S < I * S := by
    have : (i + 1) * S ≤ I * S := Nat.mul_le_mul_right _ hi
    rw [Nat.add_mul] at this; omega
  obtain ⟨d3, d4⟩ := div_mod_of_lt (I * S) (i * S + q % S) (q / S) hlt
  obtain ⟨d5, d6⟩ := div_mod_of_lt S (q % S) i ht
  rw [e2]
  simp only [d3, d4, d5, d6]
  rw [hspec _ i (by rw [← hI]; exact hi), ← hI]
  apply sum_congr rfl
  intro c' hc'
  have hc' : c' < I := mem_range.mp hc'
  have e3 : q / S * (I * S) + c' * S + q % S = (q / S * I + c') * S + q % S := by ring
  rw [e3, transposeIdx_block I S (q / S) c' (q % S) hc' ht]
  congr 2
  rw [Nat.add_mul, Nat.mul_assoc]; omega

/-- (4) `split_radix_fft` on `2^k` values computes the bit-reversed DFT — what the serial `fft_in_place` computes —
    provided the row transforms do (`hI`, `hO`: C09) and `g` is a `2^k`-th root of unity (the code's debug assertion) -/
theorem splitRadix_is_dft (fftI fftO : (Nat → M) → Nat → M) (ω : R) (k : Nat) (hω : ω ^ 2 ^ k = 1)
    (hI : IsBitRevDft fftI (ω ^ 2 ^ (k - k / 2)) (k / 2))
    (hO : IsBitRevDft fftO (ω ^ 2 ^ (k / 2)) (k - k / 2))
    (x : Nat → M) (m : Nat) (hm : m < 2 ^ k) :
    splitRadix fftI fftO (fun e v => ω ^ e • v) k x m = ∑ j ∈ range (2 ^ k), (ω ^ brev k m) ^ j • x j := by
  have hko : k / 2 ≤ k - k / 2 := by omega
  have hO' : 2 ^ (k - k / 2) = 2 ^ (k / 2) * 2 ^ (k - k / 2 - k / 2) := by
    rw [← Nat.pow_add]; congr 1; omega
  have hs : 2 ^ (k - k / 2) / 2 ^ (k / 2) = 2 ^ (k - k / 2 - k / 2) := Nat.pow_div hko (by decide)
  have hspos : 0 < 2 ^ (k - k / 2 - k / 2) := Nat.two_pow_pos _
  have hn : 2 ^ k = 2 ^ (k / 2) * 2 ^ (k - k / 2) := by rw [← Nat.pow_add]; congr 1; omega
  have hOpos : 0 < 2 ^ (k - k / 2) := Nat.two_pow_pos _
  -- m = i * outer + p
  have hp : m % 2 ^ (k - k / 2) < 2 ^ (k - k / 2) := Nat.mod_lt _ hOpos
  have hi : m / 2 ^ (k - k / 2) < 2 ^ (k / 2) := by
    rw [Nat.div_lt_iff_lt_mul hOpos, ← hn]; exact hm
  have hmd : m = (m / 2 ^ (k - k / 2)) * 2 ^ (k - k / 2) + m % 2 ^ (k - k / 2) := by
    have := Nat.div_add_mod m (2 ^ (k - k / 2)); rw [Nat.mul_comm] at this; omega
  have hbrev : brev k m = brev (k - k / 2) (m % 2 ^ (k - k / 2)) * 2 ^ (k / 2) + brev (k / 2) (m / 2 ^ (k - k / 2)) := by
    have := brev_split (k / 2) (k - k / 2) (m / 2 ^ (k - k / 2)) (m % 2 ^ (k - k / 2)) hp
    rw [← hmd] at this
    have e : k / 2 + (k - k / 2) = k := by omega
    rw [e] at this
    exact this
  generalize hi' : m / 2 ^ (k - k / 2) = i at *
  generalize hp' : m % 2 ^ (k - k / 2) = p at *
  unfold splitRadix
  simp only [hs]
  unfold outerRows
  simp only [hi', hp']
  rw [hO _ p hp]
  -- every term of the outer sum
  have hterm : ∀ q ∈ range (2 ^ (k - k / 2)),
      ((ω ^ 2 ^ (k / 2)) ^ brev (k - k / 2) p) ^ q •
        (if i = 0 ∨ q = 0 then
          transposeFn (2 ^ (k / 2)) (2 ^ (k - k / 2 - k / 2))
            (innerRows fftI (2 ^ (k - k / 2)) (2 ^ (k - k / 2 - k / 2)) (transposeFn (2 ^ (k / 2)) (2 ^ (k - k / 2 - k / 2)) x))
            (i * 2 ^ (k - k / 2) + q)
        else ω ^ (brev (k / 2) i * q) •
          transposeFn (2 ^ (k / 2)) (2 ^ (k - k / 2 - k / 2))
            (innerRows fftI (2 ^ (k - k / 2)) (2 ^ (k - k / 2 - k / 2)) (transposeFn (2 ^ (k / 2)) (2 ^ (k - k / 2 - k / 2)) x))
            (i * 2 ^ (k - k / 2) + q))
      = ∑ c' ∈ range (2 ^ (k / 2)), (ω ^ brev k m) ^ (c' * 2 ^ (k - k / 2) + q) • x (c' * 2 ^ (k - k / 2) + q) := by
    intro q hq
    have hq : q < 2 ^ (k - k / 2) := mem_range.mp hq
    have hinner := splitRadix_inner fftI (ω ^ 2 ^ (k - k / 2)) (k / 2) (2 ^ (k / 2)) (2 ^ (k - k / 2 - k / 2)) rfl hspos hI x
      i q hi (by rw [← hO']; exact hq)
    rw [← hO'] at hinner
    have hscale : (if i = 0 ∨ q = 0 then
          transposeFn (2 ^ (k / 2)) (2 ^ (k - k / 2 - k / 2))
            (innerRows fftI (2 ^ (k - k / 2)) (2 ^ (k - k / 2 - k / 2)) (transposeFn (2 ^ (k / 2)) (2 ^ (k - k / 2 - k / 2)) x))
            (i * 2 ^ (k - k / 2) + q)
        else ω ^ (brev (k / 2) i * q) •
          transposeFn (2 ^ (k / 2)) (2 ^ (k - k / 2 - k / 2))
            (innerRows fftI (2 ^ (k - k / 2)) (2 ^ (k - k / 2 - k / 2)) (transposeFn (2 ^ (k / 2)) (2 ^ (k - k / 2 - k / 2)) x))
            (i * 2 ^ (k - k / 2) + q))
        = ω ^ (brev (k / 2) i * q) •
          transposeFn (2 ^ (k / 2)) (2 ^ (k - k / 2 - k / 2))
            (innerRows fftI (2 ^ (k - k / 2)) (2 ^ (k - k / 2 - k / 2)) (transposeFn (2 ^ (k / 2)) (2 ^ (k - k / 2 - k / 2)) x))
            (i * 2 ^ (k - k / 2) + q) := by
      split
      · rename_i h
        rcases h with h | h
        · subst h; simp [WinterProofs.C09.brev_zero_right]
        · subst h; simp
      · rfl
    rw [hscale, hinner, smul_sum, smul_sum]
    apply sum_congr rfl
    intro c' _
    rw [smul_smul, smul_smul]
    congr 1
    -- the exponents agree modulo 2^k
    rw [hbrev]
    have hfull : ∀ e : Nat, ω ^ (2 ^ (k / 2) * 2 ^ (k - k / 2) * e) = 1 := by
      intro e; rw [← hn, pow_mul, hω, one_pow]
    simp only [← pow_mul, ← pow_add]
    have : (brev (k - k / 2) p * 2 ^ (k / 2) + brev (k / 2) i) * (c' * 2 ^ (k - k / 2) + q)
        = 2 ^ (k / 2) * 2 ^ (k - k / 2) * (brev (k - k / 2) p * c')
          + (2 ^ (k / 2) * brev (k - k / 2) p * q + brev (k / 2) i * q + 2 ^ (k - k / 2) * brev (k / 2) i * c') := by ring
    rw [this, pow_add ω (2 ^ (k / 2) * 2 ^ (k - k / 2) * (brev (k - k / 2) p * c')), hfull, one_mul]
  rw [sum_congr rfl hterm, sum_comm, hn, sum_range_mul]

end WinterProofs.C14
