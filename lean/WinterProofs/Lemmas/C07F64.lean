-- Helper lemmas for C07 (64-bit field): the generated straight-line functions of
-- Winter/Gen/F64.lean characterised on natural numbers (no Mathlib).
import Winter.Gen.F64
namespace WinterProofs.F64L
open Gen.F64

theorem shl32 (h l : Nat) (hl : l < 4294967296) :
    (h * 4294967296 + l) * 4294967296 % 18446744073709551616 = l * 4294967296 := by
  omega

theorem step_a (h l : Nat) (hh : h < 4294967296) (hl : l < 4294967296) :
    mont_red_cst.s_a (h * 4294967296 + l) + (if mont_red_cst.s_e (h * 4294967296 + l) = true then 18446744073709551616 else 0)
      = (h + l) * 4294967296 + l ∧ mont_red_cst.s_a (h * 4294967296 + l) < 18446744073709551616 := by
  unfold mont_red_cst.s_a mont_red_cst.s_e
  rw [shl32 h l hl]
  simp only [decide_eq_true_eq]
  split <;> omega

theorem s_b_false (a ah : Nat) (ha : a < 18446744073709551616) (hah : ah ≤ a) :
    ((a + 18446744073709551616 - ah) % 18446744073709551616 + 18446744073709551616 - 0) % 18446744073709551616 = a - ah := by
  omega

theorem s_b_true (a ah : Nat) (ha : a < 18446744073709551616) (hah : ah + 1 ≤ a) :
    ((a + 18446744073709551616 - ah) % 18446744073709551616 + 18446744073709551616 - 1) % 18446744073709551616 = a - ah - 1 := by
  omega

theorem step_b (h l ah al : Nat) (e : Bool) (hh : h < 4294967296) (hl : l < 4294967296)
    (hah : ah < 4294967296) (hal : al < 4294967296)
    (hae : (ah * 4294967296 + al) + (if e = true then 18446744073709551616 else 0) = (h + l) * 4294967296 + l) :
    (ah * 4294967296 + al) * 18446744069414584321
        = (h * 4294967296 + l) + mont_red_cst.s_b (ah * 4294967296 + al) e * 18446744073709551616 ∧
      mont_red_cst.s_b (ah * 4294967296 + al) e < 18446744069414584321 := by
  unfold mont_red_cst.s_b
  have hdiv : (ah * 4294967296 + al) / 4294967296 = ah := by omega
  rw [hdiv]
  cases e <;> simp only [Bool.false_eq_true, if_false, if_true] at hae ⊢
  · have h1 : al = l := by omega
    have h2 : ah = h + l := by omega
    rw [s_b_false _ _ (by omega) (by omega)]
    clear hdiv hae
    constructor
    · clear hah hal hh hl
      omega
    · clear h1 h2 hh hl
      omega
  · have h1 : al = l := by omega
    have h2 : ah + 4294967296 = h + l := by omega
    have h3 : ah ≤ 4294967294 := by omega
    have h4 : ah + 1 ≤ ah * 4294967296 + al := by omega
    rw [s_b_true _ _ (by omega) h4]
    clear hdiv hae
    constructor
    · clear hah hal hh hl h3
      omega
    · clear h1 h2 hh hl hah h4
      omega

/-- the last step: conditional add of M after the borrow -/
def finish (xh b : Nat) : Nat :=
  (mont_red_cst.s_r xh b + 18446744073709551616 -
    ((0 + 4294967296 - (if mont_red_cst.s_c xh b = true then 1 else 0)) % 4294967296)) % 18446744073709551616

theorem step_fin (xh b : Nat) (hxh : xh < 18446744069414584321) (hb : b < 18446744069414584321) :
    finish xh b < 18446744069414584321 ∧
      finish xh b + b = xh + (if xh < b then 18446744069414584321 else 0) := by
  unfold finish mont_red_cst.s_r mont_red_cst.s_c
  simp only [decide_eq_true_eq]
  split <;> omega

theorem mont_red_cst_eq (x : Nat) :
    mont_red_cst x = finish (mont_red_cst.s_xh x) (mont_red_cst.s_b (mont_red_cst.s_a (mont_red_cst.s_xl x)) (mont_red_cst.s_e (mont_red_cst.s_xl x))) := rfl

theorem glue1 (r b xh xl : Nat) (h : r + b = xh + 18446744069414584321) :
    r * 18446744073709551616 + (xl + b * 18446744073709551616)
      = xh * 18446744073709551616 + xl + 1 * 340282366841710300967557013911933812736 := by omega

theorem glue0 (r b xh xl : Nat) (h : r + b = xh + 0) :
    r * 18446744073709551616 + (xl + b * 18446744073709551616)
      = xh * 18446744073709551616 + xl + 0 * 340282366841710300967557013911933812736 := by omega

/-- Montgomery reduction: for x < M * 2^64 the result is canonical and equals x / 2^64 modulo M;
    witnesses: `r * 2^64 + q * M = x + c * M * 2^64` with q < 2^64, c ∈ {0,1} -/
theorem mont_red_cst_spec (x : Nat) (hx : x < 340282366841710300967557013911933812736) :
    mont_red_cst x < 18446744069414584321 ∧
      ∃ q c, mont_red_cst x * 18446744073709551616 + q * 18446744069414584321
        = x + c * (340282366841710300967557013911933812736) := by
  rw [mont_red_cst_eq]
  have hxh : mont_red_cst.s_xh x < 18446744069414584321 := by
    unfold mont_red_cst.s_xh; omega
  have hxl : mont_red_cst.s_xl x < 18446744073709551616 := by
    unfold mont_red_cst.s_xl; omega
  have hx_split : x = mont_red_cst.s_xh x * 18446744073709551616 + mont_red_cst.s_xl x := by
    unfold mont_red_cst.s_xh mont_red_cst.s_xl; omega
  generalize mont_red_cst.s_xh x = xh at *
  generalize mont_red_cst.s_xl x = xl at *
  obtain ⟨h, l, rfl, hh, hl⟩ : ∃ h l, xl = h * 4294967296 + l ∧ h < 4294967296 ∧ l < 4294967296 :=
    ⟨xl / 4294967296, xl % 4294967296, by omega, by omega, by omega⟩
  obtain ⟨ha1, ha2⟩ := step_a h l hh hl
  generalize mont_red_cst.s_a (h * 4294967296 + l) = a at *
  generalize mont_red_cst.s_e (h * 4294967296 + l) = e at *
  obtain ⟨ah, al, rfl, hah, hal⟩ : ∃ ah al, a = ah * 4294967296 + al ∧ ah < 4294967296 ∧ al < 4294967296 :=
    ⟨a / 4294967296, a % 4294967296, by omega, by omega, by omega⟩
  obtain ⟨hb1, hb2⟩ := step_b h l ah al e hh hl hah hal ha1
  generalize mont_red_cst.s_b (ah * 4294967296 + al) e = b at *
  obtain ⟨hf1, hf2⟩ := step_fin xh b hxh hb2
  refine ⟨hf1, ah * 4294967296 + al, if xh < b then 1 else 0, ?_⟩
  generalize finish xh b = r at *
  clear ha1 ha2 hxh hxl hx hf1 hb2 hah hal hh hl
  subst hx_split
  rw [hb1]
  clear hb1
  split at hf2
  · rename_i hlt
    simp only [if_pos hlt]
    exact glue1 _ _ _ _ hf2
  · rename_i hlt
    simp only [if_neg hlt]
    exact glue0 _ _ _ _ hf2

/-- `mul`: Montgomery product -/
theorem mul_spec (a b : Nat) (ha : a < 18446744069414584321) (hb : b < 18446744069414584321) :
    mul a b < 18446744069414584321 ∧
      ∃ q c, mul a b * 18446744073709551616 + q * 18446744069414584321
        = a * b + c * 340282366841710300967557013911933812736 := by
  unfold mul
  apply mont_red_cst_spec
  calc a * b < 18446744069414584321 * 18446744073709551616 :=
        Nat.mul_lt_mul'' ha (by omega)
    _ = 340282366841710300967557013911933812736 := by decide

/-- `new`: conversion into Montgomery form of any 64-bit word -/
theorem new_spec (v : Nat) (hv : v < 18446744073709551616) :
    new v < 18446744069414584321 ∧
      ∃ q c, new v * 18446744073709551616 + q * 18446744069414584321
        = v * 18446744065119617025 + c * 340282366841710300967557013911933812736 := by
  unfold new
  apply mont_red_cst_spec
  omega

theorem add_spec (a b : Nat) (ha : a < 18446744069414584321) (hb : b < 18446744069414584321) :
    add a b < 18446744069414584321 ∧
      (add a b = a + b ∨ add a b + 18446744069414584321 = a + b) := by
  unfold add add.s_x1 add.s_c1 add.s_adj
  simp only [decide_eq_true_eq]
  split <;> omega

theorem add_ok_spec (a b : Nat) (hb : b < 18446744069414584321) : add_ok a b = true := by
  unfold add_ok
  simp only [decide_eq_true_eq]
  omega

theorem sub_spec (a b : Nat) (ha : a < 18446744069414584321) (hb : b < 18446744069414584321) :
    sub a b < 18446744069414584321 ∧
      (sub a b + b = a ∨ sub a b + b = a + 18446744069414584321) := by
  unfold sub sub.s_x1 sub.s_c1 sub.s_adj
  simp only [decide_eq_true_eq]
  split <;> omega

theorem double_spec (a : Nat) (ha : a < 18446744069414584321) :
    double a < 18446744069414584321 ∧
      (double a = a + a ∨ double a + 18446744069414584321 = a + a) := by
  unfold double double.s_under double.s_reduced double.s_result_1 double.s_over double.s_result double.s_ret
  have h1 : a * 2 % 340282366920938463463374607431768211456 = a * 2 := by omega
  simp only [h1, decide_eq_true_eq]
  by_cases hlt : a * 2 < 18446744073709551616
  · have h2 : a * 2 / 18446744073709551616 % 18446744073709551616 = 0 := by omega
    have h3 : a * 2 % 18446744073709551616 = a * 2 := by omega
    simp only [h2, h3]
    split <;> omega
  · have h2 : a * 2 / 18446744073709551616 % 18446744073709551616 = 1 := by omega
    have h3 : a * 2 % 18446744073709551616 = a * 2 - 18446744073709551616 := by omega
    simp only [h2, h3]
    split <;> omega

theorem new_zero : new 0 = 0 := by decide

theorem neg_spec (a : Nat) (ha : a < 18446744069414584321) :
    neg a < 18446744069414584321 ∧ (neg a + a = 0 ∨ neg a + a = 18446744069414584321) := by
  unfold neg
  rw [new_zero]
  have := sub_spec 0 a (by omega) ha
  omega

/-- the reduction tail of `mul_small` as a function of the 96-bit product -/
def mulSmallCore (s : Nat) : Nat :=
  let s_hi := mul_small.s_s_hi s
  let s_lo := mul_small.s_s_lo s
  let z := mul_small.s_z s_hi
  let res := mul_small.s_res s_lo z
  let over := mul_small.s_over s_lo z
  let res_1 := mul_small.s_res_1 res over
  let reduced := mul_small.s_reduced res_1
  let under := mul_small.s_under res_1
  if under = true then res_1 else reduced

theorem mul_small_eq (a k : Nat) : mul_small a k = mulSmallCore (a * k) := rfl

theorem mulSmallCore_spec (sh sl : Nat) (hsh : sh < 4294967296) (hsl : sl < 18446744073709551616) :
    mulSmallCore (sh * 18446744073709551616 + sl) < 18446744069414584321 ∧
      ∃ q, mulSmallCore (sh * 18446744073709551616 + sl) + q * 18446744069414584321
        = sh * 18446744073709551616 + sl := by
  unfold mulSmallCore mul_small.s_under mul_small.s_reduced mul_small.s_res_1 mul_small.s_over mul_small.s_res
    mul_small.s_z mul_small.s_s_lo mul_small.s_s_hi
  have h1 : (sh * 18446744073709551616 + sl) / 18446744073709551616 % 18446744073709551616 = sh := by omega
  have h2 : (sh * 18446744073709551616 + sl) % 18446744073709551616 = sl := by omega
  have h3 : sh * 4294967296 % 18446744073709551616 = sh * 4294967296 :=
    Nat.mod_eq_of_lt (by omega)
  simp only [h1, h2, h3, decide_eq_true_eq]
  clear h1 h2 h3
  by_cases hov : 18446744073709551616 ≤ sl + (sh * 4294967296 - sh)
  · simp only [if_pos hov]
    have e1 : (sl + (sh * 4294967296 - sh)) % 18446744073709551616
        = sl + (sh * 4294967296 - sh) - 18446744073709551616 := by omega
    simp only [e1]
    constructor
    · split <;> omega
    · split
      · exact ⟨sh + 1, by omega⟩
      · exact ⟨sh + 2, by omega⟩
  · simp only [if_neg hov]
    have e1 : (sl + (sh * 4294967296 - sh)) % 18446744073709551616 = sl + (sh * 4294967296 - sh) := by omega
    simp only [e1]
    constructor
    · split <;> omega
    · split
      · exact ⟨sh, by omega⟩
      · exact ⟨sh + 1, by omega⟩

/-- `mul_small`: product with a 32-bit integer, canonical result -/
theorem mul_small_spec (a k : Nat) (ha : a < 18446744073709551616) (hk : k < 4294967296) :
    mul_small a k < 18446744069414584321 ∧
      ∃ q, mul_small a k + q * 18446744069414584321 = a * k := by
  have hs : a * k < 18446744073709551616 * 4294967296 := Nat.mul_lt_mul'' ha hk
  rw [mul_small_eq]
  have hsplit : a * k = (a * k / 18446744073709551616) * 18446744073709551616 + a * k % 18446744073709551616 := by
    omega
  rw [hsplit]
  exact mulSmallCore_spec _ _ (by omega) (by omega)

/-- `mont_to_int` is the Montgomery reduction of a single word -/
theorem mont_to_int_eq (x : Nat) (hx : x < 18446744073709551616) : mont_to_int x = mont_red_cst x := by
  have h1 : mont_red_cst.s_xl x = x := by unfold mont_red_cst.s_xl; omega
  have h2 : mont_red_cst.s_xh x = 0 := by unfold mont_red_cst.s_xh; omega
  unfold mont_to_int mont_red_cst
  simp only [h1, h2]
  rfl

theorem as_int_spec (a : Nat) (ha : a < 18446744073709551616) :
    as_int a < 18446744069414584321 ∧
      ∃ q c, as_int a * 18446744073709551616 + q * 18446744069414584321
        = a + c * 340282366841710300967557013911933812736 := by
  unfold as_int
  rw [mont_to_int_eq a ha]
  exact mont_red_cst_spec a (by omega)

theorem xor_eq_zero_iff (a b : Nat) : a ^^^ b = 0 ↔ a = b := by
  constructor
  · intro h
    apply Nat.eq_of_testBit_eq
    intro i
    have := congrArg (fun x => x.testBit i) h
    simpa [Nat.testBit_xor] using this
  · rintro rfl; simp

/-- the constant-time equality test: all ones iff the words are equal -/
theorem equals_spec (a b : Nat) (ha : a < 18446744073709551616) (hb : b < 18446744073709551616) :
    equals a b = if a = b then 18446744073709551615 else 0 := by
  unfold equals equals.s_t
  have ht : a ^^^ b < 2 ^ 64 := Nat.xor_lt_two_pow (by omega) (by omega)
  by_cases h : a = b
  · subst h
    simp only [Nat.xor_self, if_true]
    decide
  · have hne : a ^^^ b ≠ 0 := fun h0 => h ((xor_eq_zero_iff a b).1 h0)
    simp only [h, if_false]
    generalize a ^^^ b = t at *
    have hu_lt : t ||| ((18446744073709551616 - t) % 18446744073709551616) < 2 ^ 64 :=
      Nat.or_lt_two_pow ht (by omega)
    have hu1 : t ≤ t ||| ((18446744073709551616 - t) % 18446744073709551616) := Nat.left_le_or
    have hu2 : (18446744073709551616 - t) % 18446744073709551616 ≤ t ||| ((18446744073709551616 - t) % 18446744073709551616) :=
      Nat.right_le_or
    generalize t ||| ((18446744073709551616 - t) % 18446744073709551616) = u at *
    have hu : 9223372036854775808 ≤ u := by omega
    unfold Gen.toSigned
    simp only [Nat.reducePow, Nat.reduceSub] at *
    have e1 : u % 18446744073709551616 = u := Nat.mod_eq_of_lt hu_lt
    rw [e1]
    have e2 : ¬ u < 9223372036854775808 := by omega
    rw [if_neg e2]
    simp only [Int.ofNat_eq_natCast]
    omega

theorem eq_spec (a b : Nat) (ha : a < 18446744073709551616) (hb : b < 18446744073709551616) :
    eq a b = true ↔ a = b := by
  unfold eq
  rw [equals_spec a b ha hb]
  by_cases h : a = b <;> simp [h]

end WinterProofs.F64L
