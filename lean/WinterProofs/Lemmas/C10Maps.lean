-- C10 helper lemmas: BTreeMap / BTreeSet models, map_indexes, normalize_indexes
import WinterProofs.Lemmas.C10Heap

namespace WinterProofs.C10
open Model.Merkle

variable {α : Type}

/-- strictly ascending -/
def Asc : List Nat → Prop
  | [] => True
  | [_] => True
  | a :: b :: t => a < b ∧ Asc (b :: t)

def decAsc : (l : List Nat) → Decidable (Asc l)
  | [] => isTrue trivial
  | [_] => isTrue trivial
  | a :: b :: t =>
    match decAsc (b :: t) with
    | isTrue h => if h' : a < b then isTrue ⟨h', h⟩ else isFalse (fun hh => h' hh.1)
    | isFalse h => isFalse (fun hh => h hh.2)

instance : DecidablePred Asc := decAsc

theorem Asc.tail {a : Nat} {t : List Nat} (h : Asc (a :: t)) : Asc t := by
  cases t with
  | nil => trivial
  | cons b t' => exact h.2

theorem Asc.head_lt {a : Nat} {t : List Nat} (h : Asc (a :: t)) : ∀ x ∈ t, a < x := by
  induction t generalizing a with
  | nil => intro x hx; cases hx
  | cons b t' ih =>
    intro x hx
    cases hx with
    | head => exact h.1
    | tail _ hx' => exact Nat.lt_trans h.1 (ih h.2 x hx')

theorem Asc.cons {a : Nat} {t : List Nat} (h : Asc t) (hlt : ∀ x ∈ t, a < x) : Asc (a :: t) := by
  cases t with
  | nil => trivial
  | cons b t' => exact ⟨hlt b (List.mem_cons_self ..), h⟩

-- ---------------------------------------------------------------------------------------------
-- SMap

theorem SMap.get_insert_self (m : SMap α) (k : Nat) (a : α) : SMap.get (SMap.insert m k a) k = some a := by
  induction m with
  | nil => simp [SMap.insert, SMap.get]
  | cons p t ih =>
    obtain ⟨k', a'⟩ := p
    unfold SMap.insert
    split
    · simp [SMap.get]
    · split
      · simp [SMap.get]
      · rename_i h1 h2
        simp only [SMap.get]
        rw [if_neg h2]; exact ih

theorem SMap.get_insert_ne (m : SMap α) (k k2 : Nat) (a : α) (h : k2 ≠ k) :
    SMap.get (SMap.insert m k a) k2 = SMap.get m k2 := by
  induction m with
  | nil => simp [SMap.insert, SMap.get, h]
  | cons p t ih =>
    obtain ⟨k', a'⟩ := p
    unfold SMap.insert
    split
    · simp [SMap.get, h]
    · split
      · rename_i h1 h2
        subst h2
        simp [SMap.get, h]
      · simp only [SMap.get]
        split
        · rfl
        · exact ih

theorem SMap.keys_insert_asc (m : SMap α) (k : Nat) (a : α) (h : Asc (SMap.keys m)) :
    Asc (SMap.keys (SMap.insert m k a)) ∧
    (∀ x, x ∈ SMap.keys (SMap.insert m k a) ↔ x = k ∨ x ∈ SMap.keys m) := by
  induction m with
  | nil => simp [SMap.insert, SMap.keys, Asc]
  | cons p t ih =>
    obtain ⟨k', a'⟩ := p
    have ht : Asc (SMap.keys t) := Asc.tail h
    have hlt := Asc.head_lt h
    unfold SMap.insert
    split
    · rename_i h1
      refine ⟨?_, by intro x; simp [SMap.keys]⟩
      exact Asc.cons h (by
        intro x hx
        simp only [SMap.keys, List.map_cons, List.mem_cons] at hx
        rcases hx with rfl | hx
        · exact h1
        · exact Nat.lt_trans h1 (hlt x hx))
    · split
      · rename_i h1 h2
        subst h2
        refine ⟨h, by intro x; simp [SMap.keys]⟩
      · rename_i h1 h2
        obtain ⟨ia, im⟩ := ih ht
        refine ⟨?_, ?_⟩
        · apply Asc.cons ia
          intro x hx
          rcases (im x).1 hx with rfl | hx
          · omega
          · exact hlt x hx
        · intro x
          simp only [SMap.keys, List.map_cons, List.mem_cons] at im ⊢
          rw [im x]
          constructor
          · rintro (h | h | h) <;> simp [h]
          · rintro (h | h | h) <;> simp [h]

theorem SMap.get_none_of_not_mem (m : SMap α) (k : Nat) (h : k ∉ SMap.keys m) : SMap.get m k = none := by
  induction m with
  | nil => rfl
  | cons p t ih =>
    obtain ⟨k', a'⟩ := p
    simp only [SMap.keys, List.map_cons, List.mem_cons, not_or] at h
    simp only [SMap.get]
    rw [if_neg h.1]
    exact ih h.2

theorem SMap.mem_keys_of_get (m : SMap α) (k : Nat) (a : α) (h : SMap.get m k = some a) : k ∈ SMap.keys m := by
  induction m with
  | nil => simp [SMap.get] at h
  | cons p t ih =>
    obtain ⟨k', a'⟩ := p
    simp only [SMap.get] at h
    simp only [SMap.keys, List.map_cons, List.mem_cons]
    split at h
    · left; assumption
    · right; exact ih h

theorem SMap.length_insert (m : SMap α) (k : Nat) (a : α) (h : Asc (SMap.keys m)) :
    (SMap.insert m k a).length = if k ∈ SMap.keys m then m.length else m.length + 1 := by
  induction m with
  | nil => simp [SMap.insert, SMap.keys]
  | cons p t ih =>
    obtain ⟨k', a'⟩ := p
    have ht : Asc (SMap.keys t) := Asc.tail h
    have hlt := Asc.head_lt h
    unfold SMap.insert
    split
    · rename_i h1
      have : k ∉ SMap.keys ((k', a') :: t) := by
        simp only [SMap.keys, List.map_cons, List.mem_cons, not_or]
        exact ⟨by omega, fun hm => by have := hlt k hm; omega⟩
      rw [if_neg this]; simp
    · split
      · rename_i h1 h2
        subst h2
        simp [SMap.keys]
      · rename_i h1 h2
        simp only [List.length_cons, ih ht, SMap.keys, List.map_cons, List.mem_cons]
        have : ¬ k = k' := h2
        simp only [this, false_or]
        split <;> simp_all

-- ---------------------------------------------------------------------------------------------
-- BTreeSet

theorem setInsert_spec (s : List Nat) (k : Nat) (h : Asc s) :
    Asc (setInsert s k) ∧ (∀ x, x ∈ setInsert s k ↔ x = k ∨ x ∈ s) := by
  induction s with
  | nil => simp [setInsert, Asc]
  | cons k' t ih =>
    have ht := Asc.tail h
    have hlt := Asc.head_lt h
    unfold setInsert
    split
    · rename_i h1
      refine ⟨Asc.cons h (by
        intro x hx
        rcases List.mem_cons.1 hx with rfl | hx
        · exact h1
        · exact Nat.lt_trans h1 (hlt x hx)), by intro x; simp⟩
    · split
      · rename_i h1 h2
        subst h2
        exact ⟨h, by intro x; simp⟩
      · rename_i h1 h2
        obtain ⟨ia, im⟩ := ih ht
        refine ⟨Asc.cons ia (by
          intro x hx
          rcases (im x).1 hx with rfl | hx
          · omega
          · exact hlt x hx), ?_⟩
        intro x
        simp only [List.mem_cons, im x]
        constructor
        · rintro (h | h | h) <;> simp [h]
        · rintro (h | h | h) <;> simp [h]

theorem normalize_spec (idxs : List Nat) :
    Asc (normalizeIndexes idxs) ∧ (∀ e, e ∈ normalizeIndexes idxs ↔ ∃ i ∈ idxs, e = i - i % 2) := by
  unfold normalizeIndexes
  suffices h : ∀ (l : List Nat) (s : List Nat), Asc s →
      Asc (l.foldl (fun s index => setInsert s (index - index % 2)) s) ∧
      (∀ e, e ∈ l.foldl (fun s index => setInsert s (index - index % 2)) s ↔ e ∈ s ∨ ∃ i ∈ l, e = i - i % 2) by
    obtain ⟨h1, h2⟩ := h idxs [] trivial
    exact ⟨h1, by intro e; rw [h2 e]; simp⟩
  intro l
  induction l with
  | nil => intro s hs; simp [hs]
  | cons i t ih =>
    intro s hs
    obtain ⟨ia, im⟩ := setInsert_spec s (i - i % 2) hs
    obtain ⟨h1, h2⟩ := ih _ ia
    refine ⟨h1, ?_⟩
    intro e
    simp only [List.foldl_cons]
    rw [h2 e, im e]
    constructor
    · rintro ((h | h) | ⟨j, hj, he⟩)
      · right; exact ⟨i, List.mem_cons_self .., h⟩
      · left; exact h
      · right; exact ⟨j, List.mem_cons_of_mem _ hj, he⟩
    · rintro (h | ⟨j, hj, he⟩)
      · left; right; exact h
      · rcases List.mem_cons.1 hj with rfl | hj
        · left; left; exact he
        · right; exact ⟨j, hj, he⟩

end WinterProofs.C10

namespace WinterProofs.C10
open Model.Merkle

theorem SMap.get_some_of_mem_keys {α : Type} (m : SMap α) (k : Nat) (h : k ∈ SMap.keys m) : ∃ a, SMap.get m k = some a := by
  induction m with
  | nil => simp [SMap.keys] at h
  | cons p t ih =>
    obtain ⟨k', a'⟩ := p
    simp only [SMap.keys, List.map_cons, List.mem_cons] at h
    simp only [SMap.get]
    by_cases hk : k = k'
    · exact ⟨a', by rw [if_pos hk]⟩
    · rw [if_neg hk]; exact ih (by rcases h with h | h; exact absurd h hk; exact h)

/-- loop invariant of `map_indexes` after the prefix `pre` of the position list -/
structure MapInv (pre : List Nat) (m : SMap Nat) : Prop where
  asc : Asc (SMap.keys m)
  sound : ∀ i j, SMap.get m i = some j → pre[j]? = some i
  len : m.length ≤ pre.length
  full : m.length = pre.length → ∀ j (h : j < pre.length), SMap.get m pre[j] = some j

theorem mapInv_step (pre : List Nat) (m : SMap Nat) (x : Nat) (inv : MapInv pre m) :
    MapInv (pre ++ [x]) (SMap.insert m x pre.length) ∧
    ((SMap.insert m x pre.length).length = pre.length + 1 ↔ m.length = pre.length ∧ x ∉ pre) := by
  obtain ⟨ia, im⟩ := SMap.keys_insert_asc m x pre.length inv.asc
  have hlen := SMap.length_insert m x pre.length inv.asc
  have hkeys : ∀ k, k ∈ SMap.keys m → k ∈ pre := by
    intro k hk
    obtain ⟨j, hj⟩ := SMap.get_some_of_mem_keys m k hk
    have := inv.sound k j hj
    exact List.mem_of_getElem? this
  refine ⟨⟨ia, ?_, ?_, ?_⟩, ?_⟩
  · intro i j hg
    by_cases hi : i = x
    · subst hi
      rw [SMap.get_insert_self] at hg
      injection hg with hg; subst hg
      simp
    · rw [SMap.get_insert_ne _ _ _ _ hi] at hg
      have := inv.sound i j hg
      have hj : j < pre.length := by
        rcases Nat.lt_or_ge j pre.length with h | h
        · exact h
        · rw [List.getElem?_eq_none h] at this; cases this
      rw [List.getElem?_append_left hj]; exact this
  · rw [hlen]; have := inv.len; simp only [List.length_append, List.length_cons, List.length_nil]; split <;> omega
  · intro heq j hj
    rw [hlen] at heq
    simp only [List.length_append, List.length_cons, List.length_nil] at heq hj
    have hx : x ∉ SMap.keys m := by
      intro hm; rw [if_pos hm] at heq; have := inv.len; omega
    rw [if_neg hx] at heq
    have hfull := inv.full (by omega)
    by_cases hjl : j < pre.length
    · have hne : pre[j] ≠ x := by
        intro he
        have := hfull j hjl
        rw [he] at this
        exact hx (SMap.mem_keys_of_get _ _ _ this)
      have e : (pre ++ [x])[j] = pre[j] := by simp [List.getElem_append_left hjl]
      rw [e, SMap.get_insert_ne _ _ _ _ hne]; exact hfull j hjl
    · have : j = pre.length := by omega
      subst this
      simp [SMap.get_insert_self]
  · rw [hlen]
    constructor
    · intro h
      have hx : x ∉ SMap.keys m := by
        intro hm; rw [if_pos hm] at h; have := inv.len; omega
      rw [if_neg hx] at h
      refine ⟨by omega, ?_⟩
      intro hp
      obtain ⟨j, hj, hje⟩ := List.getElem_of_mem hp
      have := inv.full (by omega) j hj
      rw [hje] at this
      exact hx (SMap.mem_keys_of_get _ _ _ this)
    · rintro ⟨h1, h2⟩
      rw [if_neg (fun hm => h2 (hkeys x hm))]; omega

theorem mapIndexesLoop_spec (n : Nat) : ∀ (rest pre : List Nat) (m m' : SMap Nat),
    MapInv pre m → mapIndexesLoop n rest pre.length m = .ok m' →
    MapInv (pre ++ rest) m' ∧ (∀ i ∈ rest, i < n) ∧
    (m'.length = (pre ++ rest).length ↔ m.length = pre.length ∧ rest.Nodup ∧ ∀ x ∈ rest, x ∉ pre)
  | [], pre, m, m', inv, h => by
    simp only [mapIndexesLoop] at h
    injection h with h; subst h
    simp [inv]
  | x :: rest, pre, m, m', inv, h => by
    simp only [mapIndexesLoop] at h
    split at h
    · cases h
    · rename_i hx
      obtain ⟨inv', hl'⟩ := mapInv_step pre m x inv
      have hpl : (pre ++ [x]).length = pre.length + 1 := by simp
      rw [← hpl] at h
      obtain ⟨r1, r2, r3⟩ := mapIndexesLoop_spec n rest (pre ++ [x]) _ m' inv' h
      have happ : pre ++ [x] ++ rest = pre ++ x :: rest := by simp
      rw [happ] at r1 r3
      refine ⟨r1, ?_, ?_⟩
      · intro i hi
        rcases List.mem_cons.1 hi with rfl | hi
        · omega
        · exact r2 i hi
      · rw [r3, hpl, hl']
        simp only [List.nodup_cons, List.mem_append, List.mem_cons, List.mem_singleton, List.not_mem_nil, or_false]
        constructor
        · rintro ⟨⟨h1, h2⟩, h3, h4⟩
          refine ⟨h1, ⟨fun hm => (h4 x hm) (Or.inr rfl), h3⟩, ?_⟩
          intro y hy
          rcases hy with rfl | hy
          · exact h2
          · exact fun hp => h4 y hy (Or.inl hp)
        · rintro ⟨h1, ⟨h2, h3⟩, h4⟩
          refine ⟨⟨h1, h4 x (Or.inl rfl)⟩, h3, ?_⟩
          intro y hy
          rintro (hp | rfl)
          · exact h4 y (Or.inr hy) hp
          · exact h2 hy

/-- what a successful `map_indexes` establishes -/
theorem mapIndexes_ok {idxs : List Nat} {d : Nat} {imap : SMap Nat} (h : mapIndexes idxs d = .ok imap) :
    d < 64 ∧ idxs.Nodup ∧ (∀ i ∈ idxs, i < 2 ^ d) ∧
    (∀ j (hj : j < idxs.length), SMap.get imap idxs[j] = some j) ∧
    (∀ i j, SMap.get imap i = some j → idxs[j]? = some i) ∧ imap.length = idxs.length := by
  unfold mapIndexes pow2 at h
  by_cases hd : d < usizeBits
  · rw [if_pos hd] at h
    simp only [Res.ok_bind] at h
    cases hl : mapIndexesLoop (2 ^ d) idxs 0 [] with
    | ok m =>
      rw [hl] at h
      simp only [Res.ok_bind] at h
      split at h
      · cases h
      · rename_i hlen
        injection h with h; subst h
        have inv0 : MapInv [] ([] : SMap Nat) := ⟨trivial, by intro i j h; simp [SMap.get] at h, by simp, by intro _ j hj; simp at hj⟩
        obtain ⟨r1, r2, r3⟩ := mapIndexesLoop_spec (2 ^ d) idxs [] [] m inv0 hl
        simp only [List.nil_append] at r1 r3
        have hlen' : m.length = idxs.length := by omega
        have := r3.1 hlen'
        exact ⟨hd, this.2.1, r2, r1.full hlen', r1.sound, hlen'⟩
    | err e => rw [hl] at h; cases h
    | panic s => rw [hl] at h; cases h
  · rw [if_neg hd] at h; cases h

theorem mapIndexesLoop_total (n : Nat) : ∀ (rest : List Nat) (i : Nat) (m : SMap Nat), (∀ x ∈ rest, x < n) →
    ∃ m', mapIndexesLoop n rest i m = .ok m'
  | [], i, m, _ => ⟨m, rfl⟩
  | x :: rest, i, m, h => by
    simp only [mapIndexesLoop]
    rw [if_neg (by have := h x (List.mem_cons_self ..); omega)]
    exact mapIndexesLoop_total n rest _ _ (fun y hy => h y (List.mem_cons_of_mem _ hy))

/-- `map_indexes` succeeds on duplicate-free in-range positions -/
theorem mapIndexes_total {idxs : List Nat} {d : Nat} (hd : d < 64) (hn : idxs.Nodup) (hr : ∀ i ∈ idxs, i < 2 ^ d) :
    ∃ imap, mapIndexes idxs d = .ok imap := by
  obtain ⟨m, hl⟩ := mapIndexesLoop_total (2 ^ d) idxs 0 [] hr
  have inv0 : MapInv [] ([] : SMap Nat) := ⟨trivial, by intro i j h; simp [SMap.get] at h, by simp, by intro _ j hj; simp at hj⟩
  obtain ⟨r1, r2, r3⟩ := mapIndexesLoop_spec (2 ^ d) idxs [] [] m inv0 hl
  simp only [List.nil_append] at r3
  have hlen : m.length = idxs.length := r3.2 ⟨rfl, hn, by simp⟩
  refine ⟨m, ?_⟩
  unfold mapIndexes pow2
  rw [if_pos (by simpa [usizeBits] using hd)]
  simp only [Res.ok_bind, hl]
  rw [if_neg (by omega)]

/-- `map_indexes` never panics for a depth below 64: it returns a map or an error -/
theorem mapIndexes_no_panic (idxs : List Nat) (d : Nat) (hd : d < 64) :
    (∃ m, mapIndexes idxs d = .ok m) ∨ ∃ e, mapIndexes idxs d = .err e := by
  have loop : ∀ (rest : List Nat) (i : Nat) (m : SMap Nat),
      (∃ m', mapIndexesLoop (2 ^ d) rest i m = .ok m') ∨ ∃ e, mapIndexesLoop (2 ^ d) rest i m = .err e := by
    intro rest
    induction rest with
    | nil => intro i m; exact Or.inl ⟨m, rfl⟩
    | cons x rest ih =>
      intro i m
      simp only [mapIndexesLoop]
      split
      · exact Or.inr ⟨_, rfl⟩
      · exact ih _ _
  unfold mapIndexes pow2
  rw [if_pos (by simpa [usizeBits] using hd)]
  simp only [Res.ok_bind]
  rcases loop idxs 0 [] with ⟨m, hm⟩ | ⟨e, he⟩
  · rw [hm]; simp only [Res.ok_bind]
    split
    · exact Or.inr ⟨_, rfl⟩
    · exact Or.inl ⟨_, rfl⟩
  · rw [he]; exact Or.inr ⟨e, rfl⟩

end WinterProofs.C10
