-- C09 helper lemmas: the FFT/LDE model is natural in its operation records.  For two pairs of records
-- (`Ops`, `BaseOps`) related by relations `Rb` on base elements and `Ra` on transform elements (operations map
-- related arguments to related results), every model function maps related inputs to related outputs and
-- panics on one side exactly when it panics on the other.  (The model only ever combines its inputs through the
-- records; all control flow depends on sizes, integer parameters and the records' `isZero`.)
import Winter.Model.Fft
import Mathlib.Tactic.Ring
import Mathlib.Tactic.Linarith
import Mathlib.Data.List.Forall2

set_option linter.unusedSectionVars false
set_option linter.unusedVariables false

namespace WinterProofs.C09
open Model.Fft

/-! ### relations on options and arrays -/

def OptRel {α α' : Type} (R : α → α' → Prop) : Option α → Option α' → Prop
  | none, none => True
  | some x, some y => R x y
  | _, _ => False

def ArrRel {α α' : Type} (R : α → α' → Prop) (a : Array α) (a' : Array α') : Prop :=
  a.size = a'.size ∧ ∀ i (h : i < a.size) (h' : i < a'.size), R a[i] a'[i]

section basics
variable {α α' γ γ' : Type} {R : α → α' → Prop} {S : γ → γ' → Prop}

theorem OptRel.bind {o : Option α} {o' : Option α'} {f : α → Option γ} {f' : α' → Option γ'}
    (h : OptRel R o o') (hf : ∀ x x', R x x' → OptRel S (f x) (f' x')) : OptRel S (o.bind f) (o'.bind f') := by
  cases o <;> cases o' <;> simp_all [OptRel]

theorem OptRel.map {o : Option α} {o' : Option α'} {f : α → γ} {f' : α' → γ'}
    (h : OptRel R o o') (hf : ∀ x x', R x x' → S (f x) (f' x')) : OptRel S (o.map f) (o'.map f') := by
  cases o <;> cases o' <;> simp_all [OptRel]

theorem OptRel.of_some_right {o : Option α} {y : α'} (h : OptRel R o (some y)) : ∃ x, o = some x ∧ R x y := by
  cases o with
  | none => exact absurd h (by simp [OptRel])
  | some x => exact ⟨x, rfl, h⟩

theorem OptRel.cases {o : Option α} {o' : Option α'} (h : OptRel R o o') :
    (o = none ∧ o' = none) ∨ ∃ x x', o = some x ∧ o' = some x' ∧ R x x' := by
  cases o <;> cases o' <;> simp_all [OptRel]

theorem OptRel.some_iff {x : α} {y : α'} : OptRel R (some x) (some y) ↔ R x y := Iff.rfl

theorem ArrRel.size_eq {a : Array α} {a' : Array α'} (h : ArrRel R a a') : a.size = a'.size := h.1

theorem ArrRel.getElem? {a : Array α} {a' : Array α'} (h : ArrRel R a a') (i : Nat) : OptRel R a[i]? a'[i]? := by
  by_cases hi : i < a.size
  · have hi' : i < a'.size := h.1 ▸ hi
    rw [Array.getElem?_eq_getElem hi, Array.getElem?_eq_getElem hi']
    exact h.2 i hi hi'
  · have hi' : ¬ i < a'.size := h.1 ▸ hi
    rw [Array.getElem?_eq_none (by omega), Array.getElem?_eq_none (by omega)]
    trivial

theorem ArrRel.empty : ArrRel R (#[] : Array α) (#[] : Array α') := ⟨rfl, fun i h => by simp at h⟩

theorem ArrRel.set {a : Array α} {a' : Array α'} (h : ArrRel R a a') {v : α} {v' : α'} (hv : R v v')
    (i : Nat) (hi : i < a.size) (hi' : i < a'.size) : ArrRel R (a.set i v hi) (a'.set i v' hi') := by
  refine ⟨by simp [h.1], ?_⟩
  intro j hj hj'
  simp only [Array.getElem_set]
  by_cases e : i = j
  · simp [e, hv]
  · simp only [e, ↓reduceIte]
    exact h.2 j (by simpa using hj) (by simpa using hj')

theorem ArrRel.swap {a : Array α} {a' : Array α'} (h : ArrRel R a a') (i j : Nat) (hi : i < a.size)
    (hj : j < a.size) (hi' : i < a'.size) (hj' : j < a'.size) :
    ArrRel R (a.swap i j hi hj) (a'.swap i j hi' hj') := by
  refine ⟨by simp [h.1], ?_⟩
  intro k hk hk'
  simp only [Array.getElem_swap]
  split_ifs
  · exact h.2 j hj hj'
  · exact h.2 i hi hi'
  · exact h.2 k (by simpa using hk) (by simpa using hk')

theorem ArrRel.append {a b : Array α} {a' b' : Array α'} (h : ArrRel R a a') (g : ArrRel R b b') :
    ArrRel R (a ++ b) (a' ++ b') := by
  refine ⟨by simp [h.1, g.1], ?_⟩
  intro i hi hi'
  simp only [Array.getElem_append]
  by_cases c : i < a.size
  · have c' : i < a'.size := h.1 ▸ c
    simp only [c, c', ↓reduceDIte]
    exact h.2 i c c'
  · have c' : ¬ i < a'.size := h.1 ▸ c
    simp only [c, c', ↓reduceDIte]
    have e : i - a.size = i - a'.size := by rw [h.1]
    simp only [Array.size_append] at hi hi'
    have := g.2 (i - a.size) (by omega) (by omega)
    simp only [e] at this ⊢
    exact this

theorem ArrRel.push {a : Array α} {a' : Array α'} (h : ArrRel R a a') {v : α} {v' : α'} (hv : R v v') :
    ArrRel R (a.push v) (a'.push v') := by
  have : ArrRel R (a ++ #[v]) (a' ++ #[v']) :=
    h.append ⟨rfl, fun i hi hi' => by
      have : i = 0 := by simpa using hi
      subst this; simpa using hv⟩
  simpa using this

theorem ArrRel.map {a : Array α} {a' : Array α'} (h : ArrRel R a a') {f : α → γ} {f' : α' → γ'}
    (hf : ∀ x x', R x x' → S (f x) (f' x')) : ArrRel S (a.map f) (a'.map f') := by
  refine ⟨by simp [h.1], ?_⟩
  intro i hi hi'
  simp only [Array.getElem_map]
  exact hf _ _ (h.2 i (by simpa using hi) (by simpa using hi'))

theorem ArrRel.zipWith {β β' δ δ' : Type} {T : β → β' → Prop} {U : δ → δ' → Prop}
    {a : Array α} {a' : Array α'} {b : Array β} {b' : Array β'} (h : ArrRel R a a') (g : ArrRel T b b')
    {f : α → β → δ} {f' : α' → β' → δ'} (hf : ∀ x x' y y', R x x' → T y y' → U (f x y) (f' x' y')) :
    ArrRel U (Array.zipWith f a b) (Array.zipWith f' a' b') := by
  refine ⟨by simp [h.1, g.1], ?_⟩
  intro i hi hi'
  simp only [Array.getElem_zipWith]
  simp only [Array.size_zipWith] at hi hi'
  exact hf _ _ _ _ (h.2 i (by omega) (by omega)) (g.2 i (by omega) (by omega))

theorem ArrRel.of_forall₂ {l : List α} {l' : List α'} (h : List.Forall₂ R l l') : ArrRel R l.toArray l'.toArray := by
  refine ⟨by simpa using h.length_eq, ?_⟩
  intro i hi hi'
  simp only [List.getElem_toArray]
  exact List.Forall₂.get h (by simpa using hi) (by simpa using hi')

theorem ArrRel.replicate (n : Nat) {v : α} {v' : α'} (hv : R v v') :
    ArrRel R (Array.replicate n v) (Array.replicate n v') :=
  ⟨by simp, fun i _ _ => by simpa using hv⟩

/-- loops with related bodies from related states -/
theorem forRange_rel {σ σ' : Type} {Q : σ → σ' → Prop} (f : Nat → σ → Option σ) (f' : Nat → σ' → Option σ')
    (hf : ∀ i s s', Q s s' → OptRel Q (f i s) (f' i s')) :
    ∀ (cnt start : Nat) (s : σ) (s' : σ'), Q s s' → OptRel Q (forRange f start cnt s) (forRange f' start cnt s') := by
  intro cnt
  induction cnt with
  | zero => intro start s s' h; exact h
  | succ cnt ih =>
    intro start s s' h
    simp only [forRange]
    exact (hf start s s' h).bind (fun x x' hx => ih (start + 1) x x' hx)

end basics

/-! ### related operation records -/

structure OpsRel {β β' α α' : Type} (ops : Ops β α) (ops' : Ops β' α') (Rb : β → β' → Prop) (Ra : α → α' → Prop) :
    Prop where
  add : ∀ x x' y y', Ra x x' → Ra y y' → Ra (ops.add x y) (ops'.add x' y')
  sub : ∀ x x' y y', Ra x x' → Ra y y' → Ra (ops.sub x y) (ops'.sub x' y')
  mulBase : ∀ x x' t t', Ra x x' → Rb t t' → Ra (ops.mulBase x t) (ops'.mulBase x' t')
  isZero : ∀ x x', Ra x x' → ops.isZero x = ops'.isZero x'

structure BaseRel {β β' : Type} (B : BaseOps β) (B' : BaseOps β') (Rb : β → β' → Prop) : Prop where
  one : Rb B.one B'.one
  mul : ∀ a a' b b', Rb a a' → Rb b b' → Rb (B.mul a b) (B'.mul a' b')
  /-- exponents the model uses are below `2^64` -/
  exp : ∀ a a' e, Rb a a' → e < 2 ^ 64 → Rb (B.exp a e) (B'.exp a' e)
  inv : ∀ a a', Rb a a' → OptRel Rb (B.inv a) (B'.inv a')
  /-- `B::from(n as u32)` -/
  ofNat : ∀ n, n < 2 ^ 32 → Rb (B.ofNat n) (B'.ofNat n)
  isZero : ∀ a a', Rb a a' → B.isZero a = B'.isZero a'
  twoAdicity : B.twoAdicity = B'.twoAdicity
  root : ∀ k, OptRel Rb (B.rootOfUnity k) (B'.rootOfUnity k)

section nat
variable {β β' α α' : Type} {ops : Ops β α} {ops' : Ops β' α'} {B : BaseOps β} {B' : BaseOps β'}
  {Rb : β → β' → Prop} {Ra : α → α' → Prop}

/-! ### permutation -/

theorem swap_rel {a : Array α} {a' : Array α'} (h : ArrRel Ra a a') (i j : Nat) :
    OptRel (ArrRel Ra) (swap a i j) (swap a' i j) := by
  unfold swap
  by_cases c : i < a.size ∧ j < a.size
  · have c' : i < a'.size ∧ j < a'.size := h.1 ▸ c
    rw [dif_pos c, dif_pos c']
    exact h.swap i j c.1 c.2 c'.1 c'.2
  · have c' : ¬ (i < a'.size ∧ j < a'.size) := h.1 ▸ c
    rw [dif_neg c, dif_neg c']
    trivial

theorem permute_rel {a : Array α} {a' : Array α'} (h : ArrRel Ra a a') :
    OptRel (ArrRel Ra) (permute a) (permute a') := by
  unfold permute
  rw [h.1]
  apply forRange_rel _ _ _ _ _ _ _ h
  intro i s s' hs
  rw [hs.1]
  cases permuteIndex s'.size i with
  | none => trivial
  | some j =>
    simp only
    by_cases c : j > i
    · simp only [c, ↓reduceIte]; exact swap_rel hs i j
    · simp only [c, ↓reduceIte]; exact hs

/-! ### butterflies and the in-place recursion -/

theorem butterfly_rel (H : OpsRel ops ops' Rb Ra) {a : Array α} {a' : Array α'} (h : ArrRel Ra a a') (i s : Nat) :
    OptRel (ArrRel Ra) (butterfly ops a i s) (butterfly ops' a' i s) := by
  unfold butterfly
  by_cases hi : i < a.size
  · have hi' : i < a'.size := h.1 ▸ hi
    by_cases hj : i + s < a.size
    · have hj' : i + s < a'.size := h.1 ▸ hj
      simp only [hi, hi', hj, hj', ↓reduceDIte, Array.size_set]
      have r1 := h.set (H.add _ _ _ _ (h.2 i hi hi') (h.2 (i + s) hj hj')) i hi hi'
      exact r1.set (H.sub _ _ _ _ (h.2 i hi hi') (r1.2 (i + s) (by simpa using hj) (by simpa using hj'))) (i + s)
        (by simpa using hj) (by simpa using hj')
    · have hj' : ¬ i + s < a'.size := h.1 ▸ hj
      simp only [hi, hi', hj, hj', ↓reduceDIte]; trivial
  · have hi' : ¬ i < a'.size := h.1 ▸ hi
    simp only [hi, hi', ↓reduceDIte]; trivial

theorem butterflyTw_rel (H : OpsRel ops ops' Rb Ra) {t : β} {t' : β'} (ht : Rb t t') {a : Array α} {a' : Array α'}
    (h : ArrRel Ra a a') (i s : Nat) :
    OptRel (ArrRel Ra) (butterflyTw ops t a i s) (butterflyTw ops' t' a' i s) := by
  unfold butterflyTw
  by_cases hi : i < a.size
  · have hi' : i < a'.size := h.1 ▸ hi
    by_cases hj : i + s < a.size
    · have hj' : i + s < a'.size := h.1 ▸ hj
      simp only [hi, hi', hj, hj', ↓reduceDIte, Array.size_set, and_self]
      have r1 := h.set (H.mulBase _ _ _ _ (h.2 (i + s) hj hj') ht) (i + s) hj hj'
      have r2 := r1.set (H.add _ _ _ _ (h.2 i hi hi') (r1.2 (i + s) (by simpa using hj) (by simpa using hj'))) i
        (by simpa using hi) (by simpa using hi')
      exact r2.set (H.sub _ _ _ _ (h.2 i hi hi') (r2.2 (i + s) (by simpa using hj) (by simpa using hj'))) (i + s)
        (by simpa using hj) (by simpa using hj')
    · have hj' : ¬ i + s < a'.size := h.1 ▸ hj
      simp only [hi, hi', hj, hj', ↓reduceDIte]; trivial
  · have hi' : ¬ i < a'.size := h.1 ▸ hi
    simp only [hi, hi', ↓reduceDIte]; trivial

theorem fftInPlace_rel (H : OpsRel ops ops' Rb Ra) (maxLoop : Nat) {tw : Array β} {tw' : Array β'}
    (htw : ArrRel Rb tw tw') :
    ∀ (fuel count stride offset : Nat) (a : Array α) (a' : Array α'), ArrRel Ra a a' →
      OptRel (ArrRel Ra) (fftInPlace ops maxLoop tw fuel count stride offset a)
        (fftInPlace ops' maxLoop tw' fuel count stride offset a') := by
  intro fuel
  induction fuel with
  | zero => intro _ _ _ _ _ _; simp [fftInPlace, OptRel]
  | succ fuel ih =>
    intro count stride offset a a' h
    simp only [fftInPlace]
    rw [h.1]
    by_cases c1 : stride = 0
    · simp [c1, OptRel]
    · simp only [c1, ↓reduceIte]
      by_cases c2 : ¬ (isPow2 (a'.size / stride) = true ∧ offset < stride ∧ a'.size % (a'.size / stride) = 0)
      · rw [if_pos c2, if_pos c2]; trivial
      · rw [if_neg c2, if_neg c2]
        refine OptRel.bind (R := ArrRel Ra) ?_ ?_
        · by_cases c3 : a'.size / stride > 2
          · simp only [c3, ↓reduceIte]
            by_cases c4 : stride = count ∧ count < maxLoop
            · simp only [c4, and_self, ↓reduceIte]; exact ih _ _ _ a a' h
            · simp only [c4, ↓reduceIte]
              exact (ih _ _ _ a a' h).bind (fun x x' hx => ih _ _ _ x x' hx)
          · simp only [c3, ↓reduceIte]; exact h
        · intro x x' hx
          refine OptRel.bind (R := ArrRel Ra) ?_ ?_
          · exact forRange_rel _ _ (fun o s s' hs => butterfly_rel H hs o stride) _ _ _ _ hx
          · intro y y' hy
            apply forRange_rel _ _ _ _ _ _ _ hy
            intro i s s' hs
            apply forRange_rel _ _ _ _ _ _ _ hs
            intro j u u' hu
            have := htw.getElem? i
            cases e : tw[i]? <;> cases e' : tw'[i]? <;> simp_all [OptRel]
            exact butterflyTw_rel H this hu j stride

theorem fftTop_rel (H : OpsRel ops ops' Rb Ra) (maxLoop : Nat) {tw : Array β} {tw' : Array β'}
    (htw : ArrRel Rb tw tw') {a : Array α} {a' : Array α'} (h : ArrRel Ra a a') :
    OptRel (ArrRel Ra) (fftTop ops maxLoop tw a) (fftTop ops' maxLoop tw' a') := by
  unfold fftTop
  rw [h.1]
  exact fftInPlace_rel H maxLoop htw _ _ _ _ a a' h

/-! ### series, twiddles -/

theorem powersFrom_rel (HB : BaseRel B B' Rb) {b : β} {b' : β'} (hb : Rb b b') (n : Nat) :
    ∀ (x : β) (x' : β'), Rb x x' → List.Forall₂ Rb (powersFrom B.mul b n x) (powersFrom B'.mul b' n x') := by
  induction n with
  | zero => intro _ _ _; exact List.Forall₂.nil
  | succ n ih =>
    intro x x' hx
    exact List.Forall₂.cons hx (ih _ _ (HB.mul _ _ _ _ hx hb))

theorem shiftBy_rel (H : OpsRel ops ops' Rb Ra) {a : Array α} {a' : Array α'} (h : ArrRel Ra a a')
    {c : β} {c' : β'} (hc : Rb c c') : ArrRel Ra (shiftBy ops a c) (shiftBy ops' a' c') :=
  h.map (fun x x' hx => H.mulBase _ _ _ _ hx hc)

theorem shiftBySeries_rel (H : OpsRel ops ops' Rb Ra) (HB : BaseRel B B' Rb) {a : Array α} {a' : Array α'}
    (h : ArrRel Ra a a') {o : β} {o' : β'} (ho : Rb o o') {i : β} {i' : β'} (hi : Rb i i') :
    ArrRel Ra (shiftBySeries ops B a o i) (shiftBySeries ops' B' a' o' i') := by
  unfold shiftBySeries
  rw [h.1]
  exact h.zipWith (ArrRel.of_forall₂ (powersFrom_rel HB hi _ _ _ ho)) (fun x x' y y' hx hy => H.mulBase _ _ _ _ hx hy)

theorem powerSeries_rel (HB : BaseRel B B' Rb) {b : β} {b' : β'} (hb : Rb b b') (n : Nat) :
    ArrRel Rb (powerSeries B b n) (powerSeries B' b' n) :=
  ArrRel.of_forall₂ (powersFrom_rel HB hb n _ _ (HB.exp _ _ 0 hb (by norm_num)))

theorem checkDomain_rel (HB : BaseRel B B' Rb) (n : Nat) : checkDomain B n = checkDomain B' n := by
  unfold checkDomain
  rw [HB.twoAdicity]

theorem getTwiddles_rel (HB : BaseRel B B' Rb) (n : Nat) :
    OptRel (ArrRel Rb) (getTwiddles B n) (getTwiddles B' n) := by
  unfold getTwiddles
  rw [checkDomain_rel HB n]
  cases checkDomain B' n with
  | none => trivial
  | some k =>
    simp only
    have := HB.root k
    cases e : B.rootOfUnity k <;> cases e' : B'.rootOfUnity k <;> simp_all [OptRel]
    exact permute_rel (powerSeries_rel HB this _)

theorem getInvTwiddles_rel (HB : BaseRel B B' Rb) (n : Nat) :
    OptRel (ArrRel Rb) (getInvTwiddles B n) (getInvTwiddles B' n) := by
  unfold getInvTwiddles
  rw [checkDomain_rel HB n]
  cases checkDomain B' n with
  | none => trivial
  | some k =>
    simp only
    have := HB.root k
    cases e : B.rootOfUnity k <;> cases e' : B'.rootOfUnity k <;> simp_all [OptRel]
    by_cases c : n % 4294967296 = 0
    · simp [c]
    · simp only [c, ↓reduceIte]
      have hlt : n % 4294967296 - 1 < 2 ^ 64 := by
        have := Nat.mod_lt n (by norm_num : 0 < 4294967296)
        have : (4294967296 : Nat) < 2 ^ 64 := by norm_num
        omega
      exact permute_rel (powerSeries_rel HB (HB.exp _ _ _ this hlt) _)

/-! ### evaluation, interpolation, degree -/

theorem evaluatePoly_rel (H : OpsRel ops ops' Rb Ra) (HB : BaseRel B B' Rb) (maxLoop : Nat)
    {p : Array α} {p' : Array α'} (hp : ArrRel Ra p p') {tw : Array β} {tw' : Array β'} (htw : ArrRel Rb tw tw') :
    OptRel (ArrRel Ra) (evaluatePoly ops B maxLoop p tw) (evaluatePoly ops' B' maxLoop p' tw') := by
  unfold evaluatePoly
  rw [checkDomain_rel HB, hp.1, htw.1]
  cases checkDomain B' p'.size with
  | none => trivial
  | some k =>
    simp only
    by_cases c : p'.size ≠ tw'.size * 2
    · simp [c, OptRel]
    · simp only [c, ↓reduceIte]
      exact (fftTop_rel H maxLoop htw hp).bind (fun x x' hx => permute_rel hx)

theorem cosetChunk_rel (H : OpsRel ops ops' Rb Ra) (HB : BaseRel B B' Rb) (maxLoop : Nat)
    {p : Array α} {p' : Array α'} (hp : ArrRel Ra p p') {tw : Array β} {tw' : Array β'} (htw : ArrRel Rb tw tw')
    {o : β} {o' : β'} (ho : Rb o o') :
    OptRel (ArrRel Ra) (cosetChunk ops B maxLoop p tw o) (cosetChunk ops' B' maxLoop p' tw' o') := by
  unfold cosetChunk
  exact fftTop_rel H maxLoop htw (shiftBySeries_rel H HB hp HB.one ho)

theorem permuteIndex_lt {size i idx : Nat} (h : permuteIndex size i = some idx) : idx < 2 ^ 64 := by
  unfold permuteIndex at h
  split at h
  · have e := Option.some.inj h
    rw [← e, Nat.shiftRight_eq_div_pow]
    have hb : ∀ w x, brev w x < 2 ^ w := by
      intro w
      induction w with
      | zero => intro x; simp [brev]
      | succ w ih =>
        intro x
        have h1 := ih (x / 2)
        have h2 : x % 2 < 2 := Nat.mod_lt _ (by decide)
        simp only [brev, Nat.pow_succ]
        have : x % 2 = 0 ∨ x % 2 = 1 := by omega
        rcases this with e | e <;> rw [e] <;> omega
    exact lt_of_le_of_lt (Nat.div_le_self _ _) (hb 64 i)
  · exact absurd h (by simp)

theorem evaluatePolyWithOffset_rel (H : OpsRel ops ops' Rb Ra) (HB : BaseRel B B' Rb) (maxLoop : Nat)
    {p : Array α} {p' : Array α'} (hp : ArrRel Ra p p') {tw : Array β} {tw' : Array β'} (htw : ArrRel Rb tw tw')
    {o : β} {o' : β'} (ho : Rb o o') (blowup : Nat) :
    OptRel (ArrRel Ra) (evaluatePolyWithOffset ops B maxLoop p tw o blowup)
      (evaluatePolyWithOffset ops' B' maxLoop p' tw' o' blowup) := by
  unfold evaluatePolyWithOffset
  rw [checkDomain_rel HB, hp.1, htw.1, HB.isZero _ _ ho]
  by_cases c1 : ¬ (isPow2 p'.size = true ∧ isPow2 blowup = true)
  · rw [if_pos c1, if_pos c1]; trivial
  · rw [if_neg c1, if_neg c1]
    by_cases c2 : p'.size ≠ tw'.size * 2
    · rw [if_pos c2, if_pos c2]; trivial
    · rw [if_neg c2, if_neg c2]
      cases checkDomain B' (p'.size * blowup) with
      | none => trivial
      | some k =>
        simp only
        by_cases c3 : B'.isZero o' = true
        · simp [c3, OptRel]
        · simp only [c3, Bool.false_eq_true, ↓reduceIte]
          have hr := HB.root k
          cases e : B.rootOfUnity k <;> cases e' : B'.rootOfUnity k <;> simp_all [OptRel]
          refine OptRel.bind (R := ArrRel Ra) ?_ (fun x x' hx => permute_rel hx)
          apply forRange_rel _ _ _ _ _ _ _ ArrRel.empty
          intro i s s' hs
          cases e2 : permuteIndex blowup i with
          | none => trivial
          | some idx =>
            simp only
            exact (cosetChunk_rel H HB maxLoop hp htw
              (HB.mul _ _ _ _ (HB.exp _ _ idx hr (permuteIndex_lt e2)) ho)).map (fun x x' hx => hs.append hx)

theorem interpolatePoly_rel (H : OpsRel ops ops' Rb Ra) (HB : BaseRel B B' Rb) (maxLoop : Nat)
    {v : Array α} {v' : Array α'} (hv : ArrRel Ra v v') {tw : Array β} {tw' : Array β'} (htw : ArrRel Rb tw tw') :
    OptRel (ArrRel Ra) (interpolatePoly ops B maxLoop v tw) (interpolatePoly ops' B' maxLoop v' tw') := by
  unfold interpolatePoly
  rw [checkDomain_rel HB, hv.1, htw.1]
  cases checkDomain B' v'.size with
  | none => trivial
  | some k =>
    simp only
    by_cases c : v'.size ≠ tw'.size * 2
    · simp [c, OptRel]
    · simp only [c, ↓reduceIte]
      by_cases c2 : v'.size > 4294967295
      · simp [c2, OptRel]
      · simp only [c2, ↓reduceIte]
        have hn : v'.size < 2 ^ 32 := by norm_num; omega
        have hi := HB.inv _ _ (HB.ofNat v'.size hn)
        cases e : B.inv (B.ofNat v'.size) <;> cases e' : B'.inv (B'.ofNat v'.size) <;> simp_all [OptRel]
        exact (fftTop_rel H maxLoop htw hv).bind (fun x x' hx => permute_rel (shiftBy_rel H hx hi))

theorem interpolatePolyWithOffset_rel (H : OpsRel ops ops' Rb Ra) (HB : BaseRel B B' Rb) (maxLoop : Nat)
    {v : Array α} {v' : Array α'} (hv : ArrRel Ra v v') {tw : Array β} {tw' : Array β'} (htw : ArrRel Rb tw tw')
    {o : β} {o' : β'} (ho : Rb o o') :
    OptRel (ArrRel Ra) (interpolatePolyWithOffset ops B maxLoop v tw o)
      (interpolatePolyWithOffset ops' B' maxLoop v' tw' o') := by
  unfold interpolatePolyWithOffset
  rw [checkDomain_rel HB, hv.1, htw.1, HB.isZero _ _ ho]
  cases checkDomain B' v'.size with
  | none => trivial
  | some k =>
    simp only
    by_cases c : v'.size ≠ tw'.size * 2
    · simp [c, OptRel]
    · simp only [c, ↓reduceIte]
      by_cases c3 : B'.isZero o' = true
      · simp [c3, OptRel]
      · simp only [c3, Bool.false_eq_true, ↓reduceIte]
        by_cases c2 : v'.size > 4294967295
        · simp [c2, OptRel]
        · simp only [c2, ↓reduceIte]
          have hn : v'.size < 2 ^ 32 := by norm_num; omega
          refine OptRel.bind (R := ArrRel Ra) ((fftTop_rel H maxLoop htw hv).bind (fun x x' hx => permute_rel hx)) ?_
          intro x x' hx
          have hi := HB.inv _ _ (HB.ofNat v'.size hn)
          have hio := HB.inv _ _ ho
          cases e : B.inv (B.ofNat v'.size) <;> cases e' : B'.inv (B'.ofNat v'.size) <;>
            cases e2 : B.inv o <;> cases e2' : B'.inv o' <;> simp_all [OptRel]
          exact shiftBySeries_rel H HB hx hi hio

theorem degreeOf_rel (H : OpsRel ops ops' Rb Ra) {p : Array α} {p' : Array α'} (hp : ArrRel Ra p p') :
    degreeOf ops p = degreeOf ops' p' := by
  unfold degreeOf
  rw [hp.1]
  congr 1
  funext d i
  have := hp.getElem? i
  cases e : p[i]? <;> cases e' : p'[i]? <;> simp_all [OptRel]
  rw [H.isZero _ _ this]

theorem inferDegree_rel (H : OpsRel ops ops' Rb Ra) (HB : BaseRel B B' Rb) (maxLoop : Nat)
    {v : Array α} {v' : Array α'} (hv : ArrRel Ra v v') {o : β} {o' : β'} (ho : Rb o o') :
    inferDegree ops B maxLoop v o = inferDegree ops' B' maxLoop v' o' := by
  unfold inferDegree
  rw [checkDomain_rel HB, hv.1, HB.isZero _ _ ho]
  cases checkDomain B' v'.size with
  | none => rfl
  | some k =>
    simp only
    by_cases c3 : B'.isZero o' = true
    · simp [c3]
    · simp only [c3, Bool.false_eq_true, ↓reduceIte]
      have ht := getInvTwiddles_rel HB v'.size
      cases e : getInvTwiddles B v'.size <;> cases e' : getInvTwiddles B' v'.size <;> simp_all [OptRel]
      have hi := interpolatePolyWithOffset_rel H HB maxLoop hv ht ho
      cases e3 : interpolatePolyWithOffset ops B maxLoop v _ o <;>
        cases e3' : interpolatePolyWithOffset ops' B' maxLoop v' _ o' <;> simp_all [OptRel]
      exact degreeOf_rel H hi

/-! ### the segmented row-major LDE -/

theorem rowOps_rel {add sub mul : β → β → β} {isz : β → Bool} {add' sub' mul' : β' → β' → β'} {isz' : β' → Bool}
    (hadd : ∀ a a' b b', Rb a a' → Rb b b' → Rb (add a b) (add' a' b'))
    (hsub : ∀ a a' b b', Rb a a' → Rb b b' → Rb (sub a b) (sub' a' b'))
    (hmul : ∀ a a' b b', Rb a a' → Rb b b' → Rb (mul a b) (mul' a' b'))
    (hisz : ∀ a a', Rb a a' → isz a = isz' a') :
    OpsRel (rowOps add sub mul isz) (rowOps add' sub' mul' isz') Rb (ArrRel Rb) where
  add x x' y y' hx hy := hx.zipWith hy (fun a a' b b' => hadd a a' b b')
  sub x x' y y' hx hy := hx.zipWith hy (fun a a' b b' => hsub a a' b b')
  mulBase x x' t t' hx ht := hx.map (fun a a' ha => hmul a a' t t' ha ht)
  isZero x x' hx := by
    simp only [rowOps]
    rw [Bool.eq_iff_iff, Array.all_eq_true, Array.all_eq_true]
    constructor
    · intro h i hi
      have hi0 : i < x.size := hx.1 ▸ hi
      rw [← hisz _ _ (hx.2 i hi0 hi)]; exact h i hi0
    · intro h i hi
      have hi0 : i < x'.size := hx.1 ▸ hi
      rw [hisz _ _ (hx.2 i hi hi0)]; exact h i hi0

theorem evaluationOffsets_rel (HB : BaseRel B B' Rb) (n blowup : Nat) {o : β} {o' : β'} (ho : Rb o o') :
    OptRel (ArrRel Rb) (evaluationOffsets B n blowup o) (evaluationOffsets B' n blowup o') := by
  unfold evaluationOffsets
  cases ilog2 (n * blowup) with
  | none => trivial
  | some k =>
    simp only
    have hr := HB.root k
    cases e : B.rootOfUnity k <;> cases e' : B'.rootOfUnity k <;> simp_all [OptRel]
    by_cases c : n = 0
    · simp [c]
    · simp only [c, ↓reduceIte]
      apply forRange_rel _ _ _ _ _ _ _ ArrRel.empty
      intro i s s' hs
      cases e2 : permuteIndex blowup i with
      | none => trivial
      | some idx =>
        simp only
        exact hs.append (ArrRel.of_forall₂ (powersFrom_rel HB
          (HB.mul _ _ _ _ (HB.exp _ _ idx hr (permuteIndex_lt e2)) ho) n _ _ HB.one))

theorem buildArr_rel {γ γ' : Type} {S : γ → γ' → Prop} (f : Nat → Option γ) (f' : Nat → Option γ')
    (n : Nat) (h : ∀ i, i < n → OptRel S (f i) (f' i)) : OptRel (ArrRel S) (buildArr f n) (buildArr f' n) := by
  induction n with
  | zero => exact ArrRel.empty
  | succ n ih =>
    simp only [buildArr]
    rcases (ih (fun i hi => h i (by omega))).cases with ⟨e, e'⟩ | ⟨a, a', e, e', h1⟩
    · rw [e, e']; trivial
    · rw [e, e']
      dsimp only
      exact (h n (by omega)).map (fun x x' hx => h1.push hx)

theorem segmentChunk_rel {mul : β → β → β} {mul' : β' → β' → β'}
    (hmul : ∀ a a' b b', Rb a a' → Rb b b' → Rb (mul a b) (mul' a' b')) {z : β} {z' : β'} (hz : Rb z z')
    (N numPolys : Nat) {polys : Array (Array β)} {polys' : Array (Array β')} (hp : ArrRel (ArrRel Rb) polys polys')
    (n po : Nat) {offs : Array β} {offs' : Array β'} (ho : ArrRel Rb offs offs') (c : Nat) :
    OptRel (ArrRel (ArrRel Rb)) (segmentChunk mul z N numPolys polys n po offs c)
      (segmentChunk mul' z' N numPolys polys' n po offs' c) := by
  unfold segmentChunk
  apply buildArr_rel
  intro row _
  rcases (ho.getElem? (c * n + row)).cases with ⟨e, e'⟩ | ⟨x, x', e, e', h1⟩
  · rw [e, e']; trivial
  · rw [e, e']
    dsimp only
    apply buildArr_rel
    intro i _
    by_cases ci : i < numPolys
    · rw [if_pos ci, if_pos ci]
      rcases (hp.getElem? (po + i)).cases with ⟨e2, e2'⟩ | ⟨col, col', e2, e2', h2⟩
      · rw [e2, e2']; trivial
      · rw [e2, e2']
        exact (h2.getElem? row).map (fun y y' hy => hmul _ _ _ _ hy h1)
    · rw [if_neg ci, if_neg ci]; exact hz

theorem segmentNew_rel {rops : Ops β (Array β)} {rops' : Ops β' (Array β')} (H : OpsRel rops rops' Rb (ArrRel Rb))
    {mul : β → β → β} {mul' : β' → β' → β'}
    (hmul : ∀ a a' b b', Rb a a' → Rb b b' → Rb (mul a b) (mul' a' b')) {z : β} {z' : β'} (hz : Rb z z')
    (maxLoop N : Nat) {polys : Array (Array β)} {polys' : Array (Array β')} (hp : ArrRel (ArrRel Rb) polys polys')
    (n po : Nat) {offs : Array β} {offs' : Array β'} (ho : ArrRel Rb offs offs')
    {tw : Array β} {tw' : Array β'} (htw : ArrRel Rb tw tw') :
    OptRel (ArrRel (ArrRel Rb)) (segmentNew rops mul z maxLoop N polys n po offs tw)
      (segmentNew rops' mul' z' maxLoop N polys' n po offs' tw') := by
  unfold segmentNew
  rw [ho.1, htw.1, hp.1]
  dsimp only
  by_cases c1 : ¬ (isPow2 offs'.size = true ∧ offs'.size > n ∧ n = tw'.size * 2 ∧ po < polys'.size)
  · rw [if_pos c1, if_pos c1]; trivial
  · rw [if_neg c1, if_neg c1]
    by_cases c2 : n = 0
    · rw [if_pos c2, if_pos c2]; trivial
    · rw [if_neg c2, if_neg c2]
      refine OptRel.bind (R := ArrRel (ArrRel Rb)) ?_ (fun x x' hx => permute_rel hx)
      apply forRange_rel _ _ _ _ _ _ _ ArrRel.empty
      intro c s s' hs
      have h1 := segmentChunk_rel hmul hz N (min (polys'.size - po) N) hp n po ho c
      cases e : segmentChunk mul z N (min (polys'.size - po) N) polys n po offs c <;>
        cases e' : segmentChunk mul' z' N (min (polys'.size - po) N) polys' n po offs' c <;> simp_all [OptRel]
      exact (fftTop_rel H maxLoop htw h1).map (fun x x' hx => hs.append hx)

theorem transposeSegments_rel {segs : Array (Array (Array β))} {segs' : Array (Array (Array β'))}
    (h : ArrRel (ArrRel (ArrRel Rb)) segs segs') (R : Nat) :
    OptRel (ArrRel (ArrRel Rb)) (transposeSegments segs R) (transposeSegments segs' R) := by
  unfold transposeSegments
  rw [h.1]
  by_cases c : segs'.size = 1
  · simp only [c, ↓reduceIte]; exact h.getElem? 0
  · simp only [c, ↓reduceIte]
    apply forRange_rel _ _ _ _ _ _ _ (ArrRel.replicate _ ArrRel.empty)
    intro i s s' hs
    apply forRange_rel _ _ _ _ _ _ _ hs
    intro j u u' hu
    rcases (h.getElem? j).cases with ⟨e, e'⟩ | ⟨sg, sg', e, e', h1⟩
    · rw [e, e']; trivial
    · rw [e, e']
      dsimp only
      rcases (h1.getElem? i).cases with ⟨e2, e2'⟩ | ⟨cells, cells', e2, e2', h2⟩
      · rw [e2, e2']; trivial
      · rw [e2, e2']
        dsimp only
        by_cases c3 : i * segs'.size + j < u'.size
        · have c3' : i * segs'.size + j < u.size := hu.1 ▸ c3
          rw [dif_pos c3', dif_pos c3]
          exact hu.set h2 _ c3' c3
        · have c3' : ¬ i * segs'.size + j < u.size := hu.1 ▸ c3
          rw [dif_neg c3', dif_neg c3]; trivial

theorem flattenRows_rel {rows : Array (Array β)} {rows' : Array (Array β')} (h : ArrRel (ArrRel Rb) rows rows') :
    OptRel (ArrRel Rb) (flattenRows rows) (flattenRows rows') := by
  unfold flattenRows
  rw [h.1]
  apply forRange_rel _ _ _ _ _ _ _ ArrRel.empty
  intro t s s' hs
  exact (h.getElem? t).map (fun x x' hx => hs.append hx)

/-- related row-major matrices -/
def RowMatRel (Rb : β → β' → Prop) (m : RowMat β) (m' : RowMat β') : Prop :=
  ArrRel Rb m.data m'.data ∧ m.rowWidth = m'.rowWidth ∧ m.elementsPerRow = m'.elementsPerRow

theorem rowMatrixFromPolys_rel {rops : Ops β (Array β)} {rops' : Ops β' (Array β')}
    (H : OpsRel rops rops' Rb (ArrRel Rb)) {mul : β → β → β} {mul' : β' → β' → β'}
    (hmul : ∀ a a' b b', Rb a a' → Rb b b' → Rb (mul a b) (mul' a' b')) {z : β} {z' : β'} (hz : Rb z z')
    (maxLoop N : Nat) {polys : Array (Array β)} {polys' : Array (Array β')} (hp : ArrRel (ArrRel Rb) polys polys')
    (n : Nat) {offs : Array β} {offs' : Array β'} (ho : ArrRel Rb offs offs')
    {tw : Array β} {tw' : Array β'} (htw : ArrRel Rb tw tw') :
    OptRel (RowMatRel Rb) (rowMatrixFromPolys rops mul z maxLoop N polys n offs tw)
      (rowMatrixFromPolys rops' mul' z' maxLoop N polys' n offs' tw') := by
  unfold rowMatrixFromPolys
  rw [hp.1]
  by_cases c0 : N = 0
  · rw [if_pos c0, if_pos c0]; trivial
  · rw [if_neg c0, if_neg c0]
    dsimp only
    rcases (buildArr_rel (S := ArrRel (ArrRel Rb))
      (fun i => segmentNew rops mul z maxLoop N polys n (i * N) offs tw)
      (fun i => segmentNew rops' mul' z' maxLoop N polys' n (i * N) offs' tw')
      (if polys'.size % N = 0 then polys'.size / N else polys'.size / N + 1)
      (fun i _ => segmentNew_rel H hmul hz maxLoop N hp n (i * N) ho htw)).cases with ⟨e, e'⟩ | ⟨segs, segs', e, e', hb⟩
    · rw [e, e']; trivial
    · rw [e, e']
      dsimp only
      rw [hb.1]
      by_cases c1 : segs'.size = 0
      · rw [if_pos c1, if_pos c1]; trivial
      · rw [if_neg c1, if_neg c1]
        by_cases c2 : polys'.size > segs'.size * N
        · rw [if_pos c2, if_pos c2]; trivial
        · rw [if_neg c2, if_neg c2]
          rcases (hb.getElem? 0).cases with ⟨e0, e0'⟩ | ⟨s0, s0', e0, e0', h0⟩
          · rw [e0, e0']; trivial
          · rw [e0, e0']
            dsimp only
            rw [h0.1]
            rcases ((transposeSegments_rel hb s0'.size).bind (fun x x' hx => flattenRows_rel hx)).cases with
              ⟨e3, e3'⟩ | ⟨d, d', e3, e3', hd⟩
            · rw [e3, e3']; trivial
            · rw [e3, e3']
              exact ⟨hd, rfl, rfl⟩

theorem starkDomainBlowup_rel (HB : BaseRel B B' Rb) {tw : Array β} {tw' : Array β'} (htw : ArrRel Rb tw tw')
    (blowup : Nat) : starkDomainBlowup B tw blowup = starkDomainBlowup B' tw' blowup := by
  unfold starkDomainBlowup
  rw [htw.1]
  by_cases c : ¬ (isPow2 tw'.size = true ∧ isPow2 blowup = true)
  · rw [if_pos c, if_pos c]
  · rw [if_neg c, if_neg c]
    dsimp only
    cases ilog2 (tw'.size * blowup * 2) with
    | none => rfl
    | some k =>
      simp only
      have hr := HB.root k
      cases e : B.rootOfUnity k <;> cases e' : B'.rootOfUnity k <;> simp_all [OptRel]

theorem evaluatePolysOver_rel {rops : Ops β (Array β)} {rops' : Ops β' (Array β')}
    (H : OpsRel rops rops' Rb (ArrRel Rb)) (HB : BaseRel B B' Rb) {z : β} {z' : β'} (hz : Rb z z')
    (maxLoop N : Nat) {polys : Array (Array β)} {polys' : Array (Array β')} (hp : ArrRel (ArrRel Rb) polys polys')
    (n : Nat) {tw : Array β} {tw' : Array β'} (htw : ArrRel Rb tw tw') (blowup : Nat)
    {o : β} {o' : β'} (ho : Rb o o') :
    OptRel (RowMatRel Rb) (evaluatePolysOver rops B z maxLoop N polys n tw blowup o)
      (evaluatePolysOver rops' B' z' maxLoop N polys' n tw' blowup o') := by
  unfold evaluatePolysOver
  by_cases c0 : N = 0
  · simp [c0, OptRel]
  · simp only [c0, ↓reduceIte]
    rw [starkDomainBlowup_rel HB htw]
    cases starkDomainBlowup B' tw' blowup with
    | none => trivial
    | some b =>
      simp only
      have h1 := evaluationOffsets_rel HB n b ho
      cases e : evaluationOffsets B n b o <;> cases e' : evaluationOffsets B' n b o' <;> simp_all [OptRel]
      exact rowMatrixFromPolys_rel H HB.mul hz maxLoop N hp n h1 htw

end nat

end WinterProofs.C09
