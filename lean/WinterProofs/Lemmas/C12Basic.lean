-- helper lemmas for C12: the decoder monad, little-endian bytes, slices, read_many
import Winter.Model.Serde

namespace WinterProofs.C12L
open Model Model.Serde

-- ------------------------------------------------------------------------------------------------
-- the decoder monad

@[simp] theorem bind_apply (d : Dec α) (f : α → Dec β) (bs : Bytes) :
    (d >>= f) bs = match d bs with
      | .ok (a, r) => f a r
      | .err => .err
      | .eof => .eof
      | .panic => .panic := rfl

@[simp] theorem pure_apply (a : α) (bs : Bytes) : (pure a : Dec α) bs = .ok (a, bs) := rfl

@[simp] theorem dpure_apply (a : α) (bs : Bytes) : (Dec.pure a : Dec α) bs = .ok (a, bs) := rfl

@[simp] theorem fail_apply (bs : Bytes) : (Dec.fail : Dec α) bs = .err := rfl

@[simp] theorem panic_apply (bs : Bytes) : (Dec.panic : Dec α) bs = .panic := rfl

/-- composition of sequenced decoders: if the first decoder returns `x` on the first block and the
    continuation returns `y` on the second, the sequence returns `y` on the concatenation -/
theorem bind_ok {d : Dec α} {f : α → Dec β} {bs r : Bytes} {x : α} {res : Res (β × Bytes)}
    (h1 : d bs = .ok (x, r)) (h2 : f x r = res) : (d >>= f) bs = res := by
  simp [h1, h2]

-- ------------------------------------------------------------------------------------------------
-- little-endian integers

theorem leBytes_length (n v : Nat) : (leBytes n v).length = n := by
  induction n generalizing v with
  | zero => rfl
  | succ n ih => simp [leBytes, ih]

theorem ofLeBytes_leBytes (n v : Nat) : ofLeBytes (leBytes n v) = v % 256 ^ n := by
  induction n generalizing v with
  | zero => simp [leBytes, ofLeBytes, Nat.mod_one]
  | succ n ih =>
    simp only [leBytes, ofLeBytes, ih]
    rw [Nat.pow_succ, Nat.mul_comm (256 ^ n) 256, Nat.mod_mul]

theorem ofLeBytes_leBytes_lt {n v : Nat} (h : v < 256 ^ n) : ofLeBytes (leBytes n v) = v := by
  rw [ofLeBytes_leBytes, Nat.mod_eq_of_lt h]

-- ------------------------------------------------------------------------------------------------
-- slices

theorem splitAcc_eq (n : Nat) (bs acc : Bytes) :
    splitAcc n bs acc = if bs.length < n then none else some (acc.reverse ++ bs.take n, bs.drop n) := by
  induction n generalizing bs acc with
  | zero => simp [splitAcc]
  | succ n ih =>
    cases bs with
    | nil => simp [splitAcc]
    | cons b bs =>
      simp only [splitAcc, ih, List.length_cons, Nat.add_lt_add_iff_right, List.take_succ_cons, List.drop_succ_cons]
      split <;> simp

theorem readSlice_eq (n : Nat) (bs : Bytes) :
    readSlice n bs = if bs.length < n then .eof else .ok (bs.take n, bs.drop n) := by
  simp only [readSlice, splitAcc_eq]
  by_cases h : bs.length < n <;> simp [h]

theorem readSlice_append (bs r : Bytes) : readSlice bs.length (bs ++ r) = .ok (bs, r) := by
  simp [readSlice_eq]

theorem readSlice_append_len {n : Nat} {bs : Bytes} (h : bs.length = n) (r : Bytes) :
    readSlice n (bs ++ r) = .ok (bs, r) := by
  subst h; exact readSlice_append bs r

theorem readUInt_leBytes {n v : Nat} (h : v < 256 ^ n) (r : Bytes) :
    readUInt n (leBytes n v ++ r) = .ok (v, r) := by
  simp [readUInt, readSlice_append_len (leBytes_length n v), ofLeBytes_leBytes_lt h]

theorem readU8_cons (b : Nat) (r : Bytes) : readU8 (b :: r) = .ok (b, r) := rfl

theorem peekU8_cons (b : Nat) (r : Bytes) : peekU8 (b :: r) = .ok (b, b :: r) := rfl

-- ------------------------------------------------------------------------------------------------
-- read_many

theorem readMany_encMany (c : Codec α) (xs : List α) (r : Bytes)
    (h : ∀ x ∈ xs, ∀ rest, c.dec (c.enc x ++ rest) = .ok (x, rest)) :
    readMany c.dec xs.length (encMany c xs ++ r) = .ok (xs, r) := by
  induction xs with
  | nil => simp [readMany, encMany]
  | cons x xs ih =>
    have hx := h x (List.mem_cons_self ..) (encMany c xs ++ r)
    have ih' := ih (fun y hy => h y (List.mem_cons_of_mem _ hy))
    simp [readMany, encMany, List.append_assoc, hx, ih']

end WinterProofs.C12L
