-- helper lemmas for C12: the decoder monad, little-endian bytes, slices, read_many
import Winter.Model.Serde

namespace WinterProofs.C12L
open Model Model.Serde

-- ------------------------------------------------------------------------------------------------
-- the decoder monad

@[simp] theorem bind_apply (d : Dec α) (f : α → Dec β) (bs : Bytes) :
    (d >>= f) bs = match d bs with
      | .ok (a, r) => f a r
      | .err => .err
      | .eof => .eof
      | .panic => .panic := rfl

@[simp] theorem pure_apply (a : α) (bs : Bytes) : (pure a : Dec α) bs = .ok (a, bs) := rfl

@[simp] theorem dpure_apply (a : α) (bs : Bytes) : (Dec.pure a : Dec α) bs = .ok (a, bs) := rfl

@[simp] theorem fail_apply (bs : Bytes) : (Dec.fail : Dec α) bs = .err := rfl

@[simp] theorem panic_apply (bs : Bytes) : (Dec.panic : Dec α) bs = .panic := rfl

/-- composition of sequenced decoders: if the first decoder returns `x` on the first block and the
    continuation returns `y` on the second, the sequence returns `y` on the concatenation -/
theorem bind_ok {d : Dec α} {f : α → Dec β} {bs r : Bytes} {x : α} {res : Res (β × Bytes)}
    (h1 : d bs = .ok (x, r)) (h2 : f x r = res) : (d >>= f) bs = res := by
  simp [h1, h2]

-- ------------------------------------------------------------------------------------------------
-- little-endian integers

theorem leBytes_length (n v : Nat) : (leBytes n v).length = n := by
  induction n generalizing v with
  | zero => rfl
  | succ n ih => simp [leBytes, ih]

theorem ofLeBytes_leBytes (n v : Nat) : ofLeBytes (leBytes n v) = v % 256 ^ n := by
  induction n generalizing v with
  | zero => simp [leBytes, ofLeBytes, Nat.mod_one]
  | succ n ih =>
    simp only [leBytes, ofLeBytes, ih]
    rw [Nat.pow_succ, Nat.mul_comm (256 ^ n) 256, Nat.mod_mul]

theorem ofLeBytes_leBytes_lt {n v : Nat} (h : v < 256 ^ n) : ofLeBytes (leBytes n v) = v := by
  rw [ofLeBytes_leBytes, Nat.mod_eq_of_lt h]

-- ------------------------------------------------------------------------------------------------
-- slices

theorem splitAcc_eq (n : Nat) (bs acc : Bytes) :
    splitAcc n bs acc = if bs.length < n then none else some (acc.reverse ++ bs.take n, bs.drop n) := by
  induction n generalizing bs acc with
  | zero => simp [splitAcc]
  | succ n ih =>
    cases bs with
    | nil => simp [splitAcc]
    | cons b bs =>
      simp only [splitAcc, ih, List.length_cons, Nat.add_lt_add_iff_right, List.take_succ_cons, List.drop_succ_cons]
      split <;> simp

theorem readSlice_eq (n : Nat) (bs : Bytes) :
    readSlice n bs = if bs.length < n then .eof else .ok (bs.take n, bs.drop n) := by
  simp only [readSlice, splitAcc_eq]
  by_cases h : bs.length < n <;> simp [h]

theorem readSlice_append (bs r : Bytes) : readSlice bs.length (bs ++ r) = .ok (bs, r) := by
  simp [readSlice_eq]

theorem readSlice_append_len {n : Nat} {bs : Bytes} (h : bs.length = n) (r : Bytes) :
    readSlice n (bs ++ r) = .ok (bs, r) := by
  subst h; exact readSlice_append bs r

theorem readUInt_leBytes {n v : Nat} (h : v < 256 ^ n) (r : Bytes) :
    readUInt n (leBytes n v ++ r) = .ok (v, r) := by
  simp [readUInt, readSlice_append_len (leBytes_length n v), ofLeBytes_leBytes_lt h]

theorem readU8_cons (b : Nat) (r : Bytes) : readU8 (b :: r) = .ok (b, r) := rfl

theorem peekU8_cons (b : Nat) (r : Bytes) : peekU8 (b :: r) = .ok (b, b :: r) := rfl

-- ------------------------------------------------------------------------------------------------
-- read_many

theorem readMany_encMany (c : Codec α) (xs : List α) (r : Bytes)
    (h : ∀ x ∈ xs, ∀ rest, c.dec (c.enc x ++ rest) = .ok (x, rest)) :
    readMany c.dec xs.length (encMany c xs ++ r) = .ok (xs, r) := by
  induction xs with
  | nil => simp [readMany, encMany]
  | cons x xs ih =>
    have hx := h x (List.mem_cons_self ..) (encMany c xs ++ r)
    have ih' := ih (fun y hy => h y (List.mem_cons_of_mem _ hy))
    simp [readMany, encMany, List.append_assoc, hx, ih']

-- ------------------------------------------------------------------------------------------------
-- the Cursor byte source is the SliceReader on the unread bytes

theorem cursor_rem_cases (c : Cursor) :
    (c.pos < c.buf.length ∧ c.rem = c.buf.drop c.pos) ∨ (c.buf.length ≤ c.pos ∧ c.rem = []) := by
  unfold Cursor.rem
  by_cases h : c.pos < c.buf.length
  · left; exact ⟨h, by rw [Nat.min_eq_left (Nat.le_of_lt h)]⟩
  · right
    have h' : c.buf.length ≤ c.pos := Nat.le_of_not_lt h
    exact ⟨h', by rw [Nat.min_eq_right h']; simp⟩

theorem cursor_readU8_eq (c : Cursor) : (c.readU8).unread = readU8 c.rem := by
  unfold Cursor.readU8
  rcases cursor_rem_cases c with ⟨hlt, hrem⟩ | ⟨hge, hrem⟩
  · rw [hrem]
    cases hd : c.buf.drop c.pos with
    | nil =>
      have := List.drop_eq_nil_iff.mp hd
      omega
    | cons b r =>
      simp only [Res.unread, readU8, Cursor.rem]
      have h1 : min (c.pos + 1) c.buf.length = c.pos + 1 := Nat.min_eq_left hlt
      rw [h1, ← List.drop_drop, hd]
      simp
  · rw [hrem]; rfl

theorem cursor_peekU8_eq (c : Cursor) : (c.peekU8).unread = peekU8 c.rem := by
  unfold Cursor.peekU8
  cases h : c.rem with
  | nil => rfl
  | cons b r => simp [Res.unread, peekU8, h]

theorem cursor_readSlice_eq (n : Nat) (c : Cursor) : (c.readSlice n).unread = readSlice n c.rem := by
  rw [readSlice_eq]
  unfold Cursor.readSlice
  rcases cursor_rem_cases c with ⟨hlt, hrem⟩ | ⟨hge, hrem⟩
  · have hl : c.rem.length = c.buf.length - c.pos := by rw [hrem, List.length_drop]
    by_cases hn : c.buf.length - c.pos < n
    · simp [hn, hl, Res.unread]
    · rw [if_neg hn, if_neg (by rw [hl]; exact hn)]
      simp only [Res.unread, Cursor.rem]
      have h1 : min c.pos c.buf.length = c.pos := Nat.min_eq_left (Nat.le_of_lt hlt)
      have h2 : min (c.pos + n) c.buf.length = c.pos + n := Nat.min_eq_left (by omega)
      rw [h1, h2, ← List.drop_drop]
  · have hl : c.rem.length = 0 := by rw [hrem]; rfl
    have h0 : c.buf.length - c.pos = 0 := by omega
    by_cases hn : 0 < n
    · simp [h0, hn, hl, Res.unread]
    · have : n = 0 := by omega
      subst this
      simp only [h0, Nat.lt_irrefl, if_false, hl, Res.unread, Cursor.rem, hrem, Nat.add_zero, List.take_zero,
        List.drop_zero]
      rw [Nat.min_eq_right hge]; simp

theorem cursor_hasMore_eq (c : Cursor) : c.hasMoreBytes = !c.rem.isEmpty := by
  unfold Cursor.hasMoreBytes
  rcases cursor_rem_cases c with ⟨hlt, hrem⟩ | ⟨hge, hrem⟩
  · have : c.rem ≠ [] := by
      rw [hrem]; intro h
      have := List.drop_eq_nil_iff.mp h
      omega
    cases hr : c.rem with
    | nil => exact absurd hr this
    | cons b r => simp [hlt]
  · simp [hrem, Nat.not_lt.mpr hge]

end WinterProofs.C12L
