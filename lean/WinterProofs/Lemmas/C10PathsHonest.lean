-- C10 helper lemmas: `into_paths` of the opening the tree produces yields the tree's single paths
import WinterProofs.Lemmas.C10Paths
import WinterProofs.Lemmas.C10Asm
import WinterProofs.Lemmas.C10Spec

namespace WinterProofs.C10
open Model.Merkle

variable {D : Type}

/-- every entry of the partial tree is a node of the tree -/
def AllTrue (val : Nat → D) (pt : SMap D) : Prop := ∀ p ∈ pt, p.2 = val p.1

theorem AllTrue.insert {val : Nat → D} {pt : SMap D} (h : AllTrue val pt) (k : Nat) :
    AllTrue val (SMap.insert pt k (val k)) := by
  intro p hp
  rcases SMap.mem_insert _ _ _ _ hp with rfl | hp
  · rfl
  · exact h p hp

theorem AllTrue.get {val : Nat → D} {pt : SMap D} (h : AllTrue val pt) {k : Nat} {x : D}
    (hg : SMap.get pt k = some x) : x = val k := h _ (SMap.mem_of_get _ _ _ hg)

theorem SMap.keys_insert_mono {α : Type} (m : SMap α) (k : Nat) (a : α) :
    (∀ x, x ∈ SMap.keys m → x ∈ SMap.keys (SMap.insert m k a)) ∧ k ∈ SMap.keys (SMap.insert m k a) := by
  refine ⟨?_, SMap.mem_keys_of_get _ _ _ (SMap.get_insert_self m k a)⟩
  intro x hx
  by_cases hxk : x = k
  · subst hxk; exact SMap.mem_keys_of_get _ _ _ (SMap.get_insert_self m x a)
  · obtain ⟨b, hb⟩ := SMap.get_some_of_mem_keys m x hx
    exact SMap.mem_keys_of_get _ _ b (by rw [SMap.get_insert_ne _ _ _ _ hxk]; exact hb)

/-- honest run of one level of `into_paths` (as `level_sim`, with the partial tree) -/
theorem paths_level_sim (H : Hasher D) (val : Nat → D) (tn : List D) : ∀ (K : List Nat)
    (rows rows1 rowsF : List (List D)) (K1 : List Nat) (v pt : SMap D),
    Asc K → proveLevel tn K rows = .ok (rows1, K1) → Ext rows1 rowsF →
    (∀ k ∈ K, SMap.get v k = some (val k)) →
    (∀ k ∈ K, tn[xor1 k]? = some (val (xor1 k)) ∧ par H k (val k) (val (xor1 k)) = val (k / 2)) →
    AllTrue val pt → (∀ k ∈ K, k ∈ SMap.keys pt) →
    ∃ v1 pt1, pathsLevel H K rowsF (rows.map List.length) v pt = .ok (v1, pt1, rows1.map List.length, K1) ∧
      (∀ k1 ∈ K1, SMap.get v1 k1 = some (val k1)) ∧
      (∀ key, (∀ k ∈ K, key < k / 2) → SMap.get v1 key = SMap.get v key) ∧
      AllTrue val pt1 ∧ (∀ x ∈ SMap.keys pt, x ∈ SMap.keys pt1) ∧ (∀ k ∈ K, xor1 k ∈ SMap.keys pt1) ∧
      (∀ k1 ∈ K1, k1 ∈ SMap.keys pt1) := by
  intro K
  induction K using level_induction with
  | nil =>
    intro rows rows1 rowsF K1 v pt _ hp _ _ _ htrue _
    rw [proveLevel_nil] at hp
    injection hp with hp; injection hp with h1 h2; subst h1; subst h2
    refine ⟨v, pt, by rw [pathsLevel_nil], ?_, fun _ _ => rfl, htrue, fun _ h => h, ?_, ?_⟩
    · intro k1 hk1; cases hk1
    · intro k hk; cases hk
    · intro k hk; cases hk
  | single k rest hn ih =>
    intro rows rows1 rowsF K1 v pt hasc hp hext hv ht htrue hcov
    obtain ⟨hts, hpar⟩ := ht k (List.mem_cons_self ..)
    match rows with
    | [] =>
      cases rest with
      | nil => simp [proveLevel] at hp
      | cons k' rest' => simp [proveLevel, hn k' rest' rfl] at hp
    | row :: rows =>
      rw [proveLevel_single tn k rest hn row rows _ hts] at hp
      cases hr : proveLevel tn rest rows with
      | err e => rw [hr] at hp; cases hp
      | panic e => rw [hr] at hp; cases hp
      | ok r =>
        obtain ⟨rs, nx⟩ := r
        rw [hr] at hp
        simp only [Res.ok_bind] at hp
        injection hp with hp; injection hp with h1 h2; subst h1; subst h2
        match rowsF, hext with
        | rF :: rFs, .cons ⟨suf, hsuf⟩ hext' =>
          have hlt := asc_single_lt hasc hn
          have hv2 : ∀ x ∈ rest, SMap.get (SMap.insert v (k / 2) (val (k / 2))) x = some (val x) := by
            intro x hx
            have := Asc.head_lt hasc x hx
            rw [SMap.get_insert_ne _ _ _ _ (by omega)]
            exact hv x (List.mem_cons_of_mem _ hx)
          have htrue2 := (htrue.insert (xor1 k)).insert (k / 2)
          have m1 := SMap.keys_insert_mono pt (xor1 k) (val (xor1 k))
          have m2 := SMap.keys_insert_mono (SMap.insert pt (xor1 k) (val (xor1 k))) (k / 2) (val (k / 2))
          obtain ⟨v1, pt1, i1, i2, i3, i4, i5, i6, i7⟩ := ih rows rs rFs nx _ _ (Asc.tail hasc) hr hext' hv2
            (fun x hx => ht x (List.mem_cons_of_mem _ hx)) htrue2
            (fun x hx => m2.1 x (m1.1 x (hcov x (List.mem_cons_of_mem _ hx))))
          refine ⟨v1, pt1, ?_, ?_, ?_, i4, ?_, ?_, ?_⟩
          · simp only [List.map_cons]
            rw [pathsLevel_single H k rest hn]
            have hread : rF[row.length]? = some (val (xor1 k)) := by
              rw [hsuf, List.append_assoc, List.getElem?_append_right (Nat.le_refl _)]
              simp
            rw [hread, hv k (List.mem_cons_self ..)]
            simp only [hpar, i1, Res.ok_bind, List.length_append, List.length_cons, List.length_nil, xor1_div]
          · intro k1 hk1
            rw [xor1_div] at hk1
            rcases List.mem_cons.1 hk1 with rfl | hk1
            · rw [i3 _ (fun x hx => hlt x hx)]
              exact SMap.get_insert_self _ _ _
            · exact i2 k1 hk1
          · intro key hkey
            rw [i3 key (fun x hx => hkey x (List.mem_cons_of_mem _ hx))]
            exact SMap.get_insert_ne _ _ _ _ (by have := hkey k (List.mem_cons_self ..); omega)
          · intro x hx; exact i5 x (m2.1 x (m1.1 x hx))
          · intro x hx
            rcases List.mem_cons.1 hx with rfl | hx
            · exact i5 _ (m2.1 _ m1.2)
            · exact i6 x hx
          · intro k1 hk1
            rw [xor1_div] at hk1
            rcases List.mem_cons.1 hk1 with rfl | hk1
            · exact i5 _ m2.2
            · exact i7 k1 hk1
  | merged k rest ih =>
    intro rows rows1 rowsF K1 v pt hasc hp hext hv ht htrue hcov
    obtain ⟨hev, hx1, hlt⟩ := asc_merged hasc
    obtain ⟨_, hpar⟩ := ht k (List.mem_cons_self ..)
    match rows with
    | [] => simp [proveLevel] at hp
    | [_] => simp [proveLevel] at hp
    | r0 :: r1 :: rows =>
      rw [proveLevel_merged] at hp
      cases hr : proveLevel tn rest rows with
      | err e => rw [hr] at hp; cases hp
      | panic e => rw [hr] at hp; cases hp
      | ok r =>
        obtain ⟨rs, nx⟩ := r
        rw [hr] at hp
        simp only [Res.ok_bind] at hp
        injection hp with hp; injection hp with h1 h2; subst h1; subst h2
        match rowsF, hext with
        | rF0 :: rF1 :: rFs, .cons _ (.cons _ hext') =>
          have hv2 : ∀ x ∈ rest, SMap.get (SMap.insert v (k / 2) (val (k / 2))) x = some (val x) := by
            intro x hx
            have := Asc.head_lt (Asc.tail hasc) x hx
            rw [hx1] at this
            rw [SMap.get_insert_ne _ _ _ _ (by omega)]
            exact hv x (List.mem_cons_of_mem _ (List.mem_cons_of_mem _ hx))
          have htrue2 := (htrue.insert (xor1 k)).insert (k / 2)
          have m1 := SMap.keys_insert_mono pt (xor1 k) (val (xor1 k))
          have m2 := SMap.keys_insert_mono (SMap.insert pt (xor1 k) (val (xor1 k))) (k / 2) (val (k / 2))
          obtain ⟨v1, pt1, i1, i2, i3, i4, i5, i6, i7⟩ := ih rows rs rFs nx _ _ (Asc.tail (Asc.tail hasc)) hr hext' hv2
            (fun x hx => ht x (List.mem_cons_of_mem _ (List.mem_cons_of_mem _ hx))) htrue2
            (fun x hx => m2.1 x (m1.1 x (hcov x (List.mem_cons_of_mem _ (List.mem_cons_of_mem _ hx)))))
          refine ⟨v1, pt1, ?_, ?_, ?_, i4, ?_, ?_, ?_⟩
          · simp only [List.map_cons]
            rw [pathsLevel_merged, hv k (List.mem_cons_self ..),
              hv (xor1 k) (List.mem_cons_of_mem _ (List.mem_cons_self ..))]
            simp only [hpar, i1, Res.ok_bind, xor1_div]
          · intro k1 hk1
            rw [xor1_div] at hk1
            rcases List.mem_cons.1 hk1 with rfl | hk1
            · rw [i3 _ (fun x hx => hlt x hx)]
              exact SMap.get_insert_self _ _ _
            · exact i2 k1 hk1
          · intro key hkey
            rw [i3 key (fun x hx => hkey x (List.mem_cons_of_mem _ (List.mem_cons_of_mem _ hx)))]
            exact SMap.get_insert_ne _ _ _ _ (by have := hkey k (List.mem_cons_self ..); omega)
          · intro x hx; exact i5 x (m2.1 x (m1.1 x hx))
          · intro x hx
            rcases List.mem_cons.1 hx with rfl | hx
            · exact i5 _ (m2.1 _ m1.2)
            · rcases List.mem_cons.1 hx with rfl | hx
              · rw [xor1_xor1]
                exact i5 _ (m2.1 _ (m1.1 _ (hcov k (List.mem_cons_self ..))))
              · exact i6 x hx
          · intro k1 hk1
            rw [xor1_div] at hk1
            rcases List.mem_cons.1 hk1 with rfl | hk1
            · exact i5 _ m2.2
            · exact i7 k1 hk1

end WinterProofs.C10

namespace WinterProofs.C10
open Model.Merkle

variable {D : Type}

theorem pow_div_succ (k s : Nat) : k / 2 ^ (s + 1) = k / 2 / 2 ^ s := by
  rw [Nat.pow_succ, Nat.mul_comm, Nat.div_div_eq_div_mul]

/-- honest run of the upper levels of `into_paths` -/
theorem paths_levels_sim (H : Hasher D) (val : Nat → D) (tn : List D) (d : Nat) (wf : ValWF H val d)
    (htn : ∀ j, 1 ≤ j → j < 2 ^ d → tn[j]? = some (val j)) : ∀ (l : Nat) (K : List Nat)
    (rows rowsF : List (List D)) (v pt : SMap D),
    proveLevels tn l K rows = .ok rowsF → Asc K → (∀ k ∈ K, 2 ^ l ≤ k ∧ k < 2 ^ (l + 1)) → l < d →
    (∀ k ∈ K, SMap.get v k = some (val k)) → AllTrue val pt → (∀ k ∈ K, k ∈ SMap.keys pt) →
    ∃ v' pt', pathsLevels H rowsF l K (rows.map List.length) v pt = .ok (v', pt', rowsF.map List.length) ∧
      AllTrue val pt' ∧ (∀ x ∈ SMap.keys pt, x ∈ SMap.keys pt') ∧
      (∀ k ∈ K, ∀ s, s < l → xor1 (k / 2 ^ s) ∈ SMap.keys pt')
  | 0, K, rows, rowsF, v, pt, h, _, _, _, _, htrue, _ => by
    simp only [proveLevels] at h
    injection h with h; subst h
    exact ⟨v, pt, rfl, htrue, fun _ h => h, fun _ _ s hs => by omega⟩
  | l + 1, K, rows, rowsF, v, pt, h, hasc, hr, hl, hv, htrue, hcov => by
    simp only [proveLevels] at h
    cases hp : proveLevel tn K rows with
    | err e => rw [hp] at h; cases h
    | panic e => rw [hp] at h; cases h
    | ok r =>
      obtain ⟨rows1, K1⟩ := r
      rw [hp] at h
      simp only [Res.ok_bind] at h
      have hext := proveLevels_ok tn l K1 rows1 rowsF h
      have hp2 := two_pow_succ' l
      have hp2' := two_pow_succ' (l + 1)
      have hpd : 2 ^ (l + 1 + 1) ≤ 2 ^ d := Nat.pow_le_pow_right (by omega) (by omega)
      have hpd' := two_pow_succ' d
      have hpos := Nat.two_pow_pos l
      obtain ⟨v1, pt1, s1, s2, _, s4, s5, s6, s7⟩ := paths_level_sim H val tn K rows rows1 rowsF K1 v pt hasc hp hext hv (by
        intro k hk
        have := hr k hk
        refine ⟨htn _ (by unfold xor1; split <;> omega) (by unfold xor1; split <;> omega), ?_⟩
        exact par_val H val d wf k (by omega) (by omega)) htrue hcov
      obtain ⟨_, hK1⟩ := proveLevel_ok tn K rows rows1 K1 hp
      obtain ⟨p1, p2, p3, _, _⟩ := parents_spec K hasc
      subst hK1
      obtain ⟨v', pt', t1, t2, t3, t4⟩ := paths_levels_sim H val tn d wf htn l (parents K) rows1 rowsF v1 pt1 h p1 (by
        intro k1 hk1
        obtain ⟨k, hk, rfl⟩ := p2 k1 hk1
        have := hr k hk
        omega) (by omega) s2 s4 s7
      refine ⟨v', pt', by simp only [pathsLevels, s1, Res.ok_bind, t1], t2, fun x hx => t3 x (s5 x hx), ?_⟩
      intro k hk s hs
      cases s with
      | zero => simp only [Nat.pow_zero, Nat.div_one]; exact t3 _ (s6 k hk)
      | succ s => rw [pow_div_succ]; exact t4 (k / 2) (p3 k hk) s (by omega)

/-- honest run of the first loop of `into_paths` -/
theorem pathsLeafLoop_honest (H : Hasher D) (val : Nat → D) (LP : List D) (imap : SMap Nat) (lv : Nat → D)
    (offset : Nat) (hlv : ∀ i, lv i = val (offset + i)) (hoff : offset % 2 = 0) :
    ∀ (norm : List Nat) (rowsF : List (List D)) (v pt : SMap D),
    Asc norm → (∀ e ∈ norm, e % 2 = 0) → Ext (norm.map (missing imap lv)) rowsF →
    (∀ e ∈ norm, (∀ j, SMap.get imap e = some j → LP[j]? = some (lv e)) ∧
      (∀ j, SMap.get imap (e + 1) = some j → LP[j]? = some (lv (e + 1))) ∧
      (SMap.get imap e ≠ none ∨ SMap.get imap (e + 1) ≠ none) ∧
      H.merge (lv e) (lv (e + 1)) = val ((offset + e) / 2)) →
    AllTrue val pt →
    ∃ v1 pt1, pathsLeafLoop H LP imap offset norm rowsF v pt =
        .ok (v1, pt1, (norm.map (missing imap lv)).map List.length, norm.map (fun e => (offset + e) / 2)) ∧
      (∀ e ∈ norm, SMap.get v1 ((offset + e) / 2) = some (val ((offset + e) / 2))) ∧
      (∀ key, (∀ e ∈ norm, key < (offset + e) / 2) → SMap.get v1 key = SMap.get v key) ∧
      AllTrue val pt1 ∧ (∀ x ∈ SMap.keys pt, x ∈ SMap.keys pt1) ∧
      (∀ e ∈ norm, offset + e ∈ SMap.keys pt1 ∧ offset + e + 1 ∈ SMap.keys pt1 ∧ (offset + e) / 2 ∈ SMap.keys pt1)
  | [], rowsF, v, pt, _, _, _, _, htrue =>
    ⟨v, pt, by simp [pathsLeafLoop], fun _ h => (by cases h), fun _ _ => rfl, htrue, fun _ h => h, fun _ h => (by cases h)⟩
  | e :: rest, rowsF, v, pt, hasc, hev, hext, hf, htrue => by
    match rowsF, hext with
    | rF :: rFs, .cons ⟨suf, hsuf⟩ hext' =>
      obtain ⟨f0, f1, f2, f3⟩ := hf e (List.mem_cons_self ..)
      have hpair := leafPair_honest LP imap lv e rF suf hsuf f0 f1 f2
      have heven := hev e (List.mem_cons_self ..)
      have hxo : xor1 (offset + e) = offset + e + 1 := xor1_even (by omega)
      have htrue2 : AllTrue val (SMap.insert (SMap.insert (SMap.insert pt (offset + e) (lv e)) (xor1 (offset + e)) (lv (e + 1)))
          ((offset + e) / 2) (val ((offset + e) / 2))) := by
        have a1 := htrue.insert (offset + e)
        rw [← hlv e] at a1
        have a2 := a1.insert (offset + e + 1)
        rw [show val (offset + e + 1) = lv (e + 1) by rw [hlv]; rfl, ← hxo] at a2
        exact a2.insert _
      obtain ⟨v1, pt1, i1, i2, i3, i4, i5, i6⟩ := pathsLeafLoop_honest H val LP imap lv offset hlv hoff rest rFs
        (SMap.insert v ((offset + e) / 2) (val ((offset + e) / 2))) _ (Asc.tail hasc)
        (fun x hx => hev x (List.mem_cons_of_mem _ hx)) hext' (fun x hx => hf x (List.mem_cons_of_mem _ hx)) htrue2
      have hlt : ∀ x ∈ rest, (offset + e) / 2 < (offset + x) / 2 := by
        intro x hx
        have := Asc.head_lt hasc x hx
        have := hev x (List.mem_cons_of_mem _ hx)
        omega
      have m1 := SMap.keys_insert_mono pt (offset + e) (lv e)
      have m2 := SMap.keys_insert_mono (SMap.insert pt (offset + e) (lv e)) (xor1 (offset + e)) (lv (e + 1))
      have m3 := SMap.keys_insert_mono (SMap.insert (SMap.insert pt (offset + e) (lv e)) (xor1 (offset + e)) (lv (e + 1)))
        ((offset + e) / 2) (val ((offset + e) / 2))
      refine ⟨v1, pt1, ?_, ?_, ?_, i4, ?_, ?_⟩
      · simp only [pathsLeafLoop, hpair, Res.ok_bind, f3, i1, List.map_cons]
      · intro x hx
        rcases List.mem_cons.1 hx with rfl | hx
        · rw [i3 _ (fun z hz => hlt z hz)]; exact SMap.get_insert_self _ _ _
        · exact i2 x hx
      · intro key hkey
        rw [i3 key (fun x hx => hkey x (List.mem_cons_of_mem _ hx))]
        exact SMap.get_insert_ne _ _ _ _ (by have := hkey e (List.mem_cons_self ..); omega)
      · intro x hx; exact i5 x (m3.1 x (m2.1 x (m1.1 x hx)))
      · intro x hx
        rcases List.mem_cons.1 hx with rfl | hx
        · refine ⟨i5 _ (m3.1 _ (m2.1 _ m1.2)), ?_, i5 _ m3.2⟩
          rw [← hxo]; exact i5 _ (m3.1 _ m2.2)
        · exact i6 x hx

/-- `partial_tree_map` is seeded with the claimed leaves -/
theorem pathsSeed_honest (val : Nat → D) (d : Nat) (hd : d < 64) : ∀ (is : List Nat) (pt : SMap D),
    (∀ i ∈ is, i < 2 ^ d) → AllTrue val pt →
    ∃ pt0, pathsSeed d is (is.map (fun i => val (2 ^ d + i))) pt = .ok pt0 ∧ AllTrue val pt0 ∧
      (∀ x ∈ SMap.keys pt, x ∈ SMap.keys pt0) ∧ (∀ i ∈ is, 2 ^ d + i ∈ SMap.keys pt0)
  | [], pt, _, htrue => ⟨pt, by simp [pathsSeed], htrue, fun _ h => h, fun _ h => (by cases h)⟩
  | i :: is, pt, hr, htrue => by
    have hi := hr i (List.mem_cons_self ..)
    have hle := two_pow_le_63 (e := d) (by omega)
    have htrue2 : AllTrue val (SMap.insert pt (i + 2 ^ d) (val (2 ^ d + i))) := by
      rw [Nat.add_comm i]; exact htrue.insert _
    obtain ⟨pt0, h1, h2, h3, h4⟩ := pathsSeed_honest val d hd is _ (fun x hx => hr x (List.mem_cons_of_mem _ hx)) htrue2
    have m1 := SMap.keys_insert_mono pt (i + 2 ^ d) (val (2 ^ d + i))
    refine ⟨pt0, ?_, h2, fun x hx => h3 x (m1.1 x hx), ?_⟩
    · simp only [List.map_cons, pathsSeed]
      rw [shl1_ok hd]
      simp only [Res.ok_bind]
      rw [addUsize_ok (by omega)]
      simp only [Res.ok_bind, h1]
    · intro x hx
      rcases List.mem_cons.1 hx with rfl | hx
      · rw [Nat.add_comm]; exact h3 _ m1.2
      · exact h4 x hx

/-- the siblings along the way from position `j` up, `n` levels -/
def sibs (val : Nat → D) : Nat → Nat → List D
  | 0, _ => []
  | n + 1, j => val (xor1 j) :: sibs val n (j / 2)

theorem getPathLoop_honest (val : Nat → D) (pt : SMap D) (htrue : AllTrue val pt) : ∀ (n fuel j : Nat),
    2 ^ n ≤ j → j < 2 ^ (n + 1) → n ≤ fuel → (∀ s, s < n → xor1 (j / 2 ^ s) ∈ SMap.keys pt) →
    getPathLoop pt fuel j = .ok (sibs val n j)
  | 0, fuel, j, h1, h2, _, _ => by
    have : j = 1 := by simp at h1 h2; omega
    subst this
    cases fuel <;> simp [getPathLoop, sibs]
  | n + 1, 0, j, _, _, h3, _ => by omega
  | n + 1, fuel + 1, j, h1, h2, h3, hk => by
    have hp := two_pow_succ' n
    have hp' := two_pow_succ' (n + 1)
    have hpos := Nat.two_pow_pos n
    have hk0 := hk 0 (by omega)
    simp only [Nat.pow_zero, Nat.div_one] at hk0
    obtain ⟨x, hx⟩ := SMap.get_some_of_mem_keys pt _ hk0
    have hxv := htrue.get hx
    subst hxv
    have ih := getPathLoop_honest val pt htrue n fuel (j / 2) (by omega) (by omega) (by omega) (by
      intro s hs
      rw [← pow_div_succ]; exact hk (s + 1) (by omega))
    simp only [getPathLoop, sibs]
    rw [if_pos (by omega), hx]
    simp only [ih, Res.ok_bind]

theorem proveLoop_sibs (val : Nat → D) (tn : List D) (d : Nat)
    (htn : ∀ j, 1 ≤ j → j < 2 ^ d → tn[j]? = some (val j)) : ∀ (n fuel j : Nat),
    2 ^ n ≤ j → j < 2 ^ (n + 1) → n < d → n ≤ fuel → proveLoop tn fuel j = .ok (sibs val n j)
  | 0, fuel, j, h1, h2, _, _ => by
    have : j = 1 := by simp at h1 h2; omega
    subst this
    simp [proveLoop_one, sibs]
  | n + 1, 0, j, _, _, _, h4 => by omega
  | n + 1, fuel + 1, j, h1, h2, h3, h4 => by
    have hp := two_pow_succ' n
    have hp' := two_pow_succ' (n + 1)
    have hpos := Nat.two_pow_pos n
    have hpd : 2 ^ (n + 1 + 1) ≤ 2 ^ d := Nat.pow_le_pow_right (by omega) (by omega)
    have hx := htn (xor1 j) (by unfold xor1; split <;> omega) (by unfold xor1; split <;> omega)
    have ih := proveLoop_sibs val tn d htn n fuel (j / 2) (by omega) (by omega) (by omega) (by omega)
    simp only [proveLoop, sibs]
    rw [if_pos (by omega), hx]
    simp only [ih, Res.ok_bind]

end WinterProofs.C10

namespace WinterProofs.C10
open Model.Merkle

variable {D : Type}

/-- the path of position `i` in terms of the valuation -/
def pathOf (val : Nat → D) (d i : Nat) : List D := val (2 ^ d + i) :: sibs val d (2 ^ d + i)

theorem collectPaths_honest (val : Nat → D) (pt : SMap D) (d : Nat) (hd : d < 64) (htrue : AllTrue val pt) :
    ∀ (is : List Nat), (∀ i ∈ is, i < 2 ^ d ∧ 2 ^ d + i ∈ SMap.keys pt ∧
      ∀ s, s < d → xor1 ((2 ^ d + i) / 2 ^ s) ∈ SMap.keys pt) →
    collectPaths pt d is = .ok (is.map (pathOf val d))
  | [], _ => rfl
  | i :: is, h => by
    obtain ⟨hi, hk, hs⟩ := h i (List.mem_cons_self ..)
    have hle := two_pow_le_63 (e := d) (by omega)
    have hp := two_pow_succ' d
    obtain ⟨x, hx⟩ := SMap.get_some_of_mem_keys pt _ hk
    have hxv := htrue.get hx
    subst hxv
    have hloop := getPathLoop_honest val pt htrue d (d + 1) (2 ^ d + i) (by omega) (by omega) (by omega) hs
    simp only [collectPaths, getPath]
    rw [shl1_ok hd]
    simp only [Res.ok_bind]
    rw [addUsize_ok (by omega)]
    simp only [Res.ok_bind]
    rw [Nat.add_comm i, hx]
    simp only [hloop, Res.ok_bind, collectPaths_honest val pt d hd htrue is (fun x hx => h x (List.mem_cons_of_mem _ hx))]
    rfl

/-- Decompression of the opening the tree produces: `into_paths` returns, in the order of the
    position list, exactly the paths `prove` produces -/
theorem intoPaths_honest_wf (H : Hasher D) (t : Tree D) (d : Nat) (wf : TreeWF H t d) (hd2 : d ≤ 63)
    (idxs : List Nat) (hne : idxs ≠ []) (hlen : idxs.length ≤ 255) (hnd : idxs.Nodup)
    (hr : ∀ i ∈ idxs, i < 2 ^ d) :
    ∃ p paths, proveBatch H t idxs = .ok p ∧ intoPaths H p idxs = .ok paths ∧ paths.length = idxs.length ∧
      ∀ j (hj : j < idxs.length), prove t idxs[j] = .ok (paths.getD j []) := by
  obtain ⟨d0, rfl⟩ : ∃ d0, d = d0 + 1 := ⟨d - 1, by have := wf.hd; omega⟩
  have hp := two_pow_succ' d0
  have hpos := Nat.two_pow_pos d0
  have hdepth : t.depth = d0 + 1 := by simp [Tree.depth, wf.llen, Nat.log2_two_pow]
  let val := treeVal H t
  let lv : Nat → D := fun i => val (2 ^ (d0 + 1) + i)
  have vwf : ValWF H val (d0 + 1) := treeVal_wf H t _ wf
  have htn : ∀ j, 1 ≤ j → j < 2 ^ (d0 + 1) → t.nodes[j]? = some (val j) := by
    intro j _ h2
    have hj : j < t.nodes.length := by rw [wf.nlen]; exact h2
    show t.nodes[j]? = some (treeVal H t j)
    simp [treeVal, hval_lt hj, List.getElem?_eq_getElem hj]
  have htl : ∀ i, i < 2 ^ (d0 + 1) → t.leaves[i]? = some (lv i) := fun i hi => (treeVal_leaf H t _ wf i hi).symm
  obtain ⟨imap, hm⟩ := mapIndexes_total (d := d0 + 1) (by omega) hnd hr
  obtain ⟨_, _, _, hget, hsound, hil⟩ := mapIndexes_ok hm
  have ctx : LeafCtx idxs imap := ⟨hget, hsound⟩
  obtain ⟨nasc, nmem⟩ := normalize_spec idxs
  have nev : ∀ e ∈ normalizeIndexes idxs, e % 2 = 0 := by
    intro e he; obtain ⟨i, _, rfl⟩ := (nmem e).1 he; omega
  have nrange : ∀ e ∈ normalizeIndexes idxs, e + 1 < 2 ^ (d0 + 1) := by
    intro e he; obtain ⟨i, hi, rfl⟩ := (nmem e).1 he; have := hr i hi; omega
  obtain ⟨LP, hleaf, hLP, hLPv⟩ := proveLeafLoop_ok t.leaves lv idxs imap t.leaves.length ctx
    (normalizeIndexes idxs) (List.replicate imap.length H.dflt) nasc nev
    (fun e he => ⟨htl e (by have := nrange e he; omega), htl (e + 1) (nrange e he)⟩) (by simp [hil])
  have hK1 : (normalizeIndexes idxs).map (fun e => (e + t.leaves.length) / 2) =
      (normalizeIndexes idxs).map (fun e => (2 ^ (d0 + 1) + e) / 2) := by
    apply List.map_congr_left; intro e _; rw [wf.llen, Nat.add_comm]
  have hK1asc := asc_map_half (2 ^ (d0 + 1)) _ nasc nev
  have hK1r : ∀ k ∈ (normalizeIndexes idxs).map (fun e => (2 ^ (d0 + 1) + e) / 2), 2 ^ d0 ≤ k ∧ k < 2 ^ (d0 + 1) := by
    intro k hk
    obtain ⟨e, he, rfl⟩ := List.mem_map.1 hk
    have := nrange e he; have := nev e he
    omega
  obtain ⟨rowsF, hlevels⟩ := proveLevels_total t.nodes (d0 + 1) wf.nlen d0 _
    ((normalizeIndexes idxs).map (missing imap lv)) hK1asc hK1r (by omega) (by simp)
  have hext := proveLevels_ok _ _ _ _ _ hlevels
  have hLPeq : LP = idxs.map lv := by
    apply List.ext_getElem?
    intro j
    by_cases hj : j < idxs.length
    · rw [(hLPv j hj).1 ((nmem _).2 ⟨_, List.getElem_mem hj, rfl⟩), List.getElem?_map, List.getElem?_eq_getElem hj]; rfl
    · rw [List.getElem?_eq_none (by omega), List.getElem?_eq_none (by simp; omega)]
  have hprove : proveBatch H t idxs = .ok { leaves := LP, nodes := rowsF, depth := d0 + 1 } := by
    unfold proveBatch
    rw [if_neg (by simpa using hne), if_neg (by simp [maxPaths]; omega), hdepth, hm]
    simp only [Res.ok_bind, hleaf, hK1, Nat.add_sub_cancel, hlevels]
    congr 2; omega
  -- decompression
  obtain ⟨pt0, hseed, ht0, _, hk0⟩ := pathsSeed_honest val (d0 + 1) (by omega) idxs [] hr (fun p hp => by cases hp)
  obtain ⟨v1, pt1, hpl, hv1, _, ht1, hm1, hk1⟩ := pathsLeafLoop_honest H val LP imap lv (2 ^ (d0 + 1)) (fun _ => rfl)
    (by omega) (normalizeIndexes idxs) rowsF [] pt0 nasc nev hext (by
      intro e he
      have hr1 := nrange e he
      have hev := nev e he
      refine ⟨?_, ?_, ?_, ?_⟩
      · intro j hj
        have hjl := ctx.lt hj
        have := ctx.sound _ _ hj
        rw [List.getElem?_eq_getElem hjl] at this
        injection this with this
        have := (hLPv j hjl).1 (by rw [this]; rw [show e - e % 2 = e by omega]; exact he)
        rw [this]; congr 2
      · intro j hj
        have hjl := ctx.lt hj
        have := ctx.sound _ _ hj
        rw [List.getElem?_eq_getElem hjl] at this
        injection this with this
        have := (hLPv j hjl).1 (by rw [this]; rw [show e + 1 - (e + 1) % 2 = e by omega]; exact he)
        rw [this]; congr 2
      · obtain ⟨i, hi, hie⟩ := (nmem e).1 he
        obtain ⟨j, hj, hji⟩ := List.getElem_of_mem hi
        have := ctx.get j hj
        rw [hji] at this
        by_cases hpar : i % 2 = 0
        · left; rw [show e = i by omega, this]; simp
        · right; rw [show e + 1 = i by omega, this]; simp
      · show H.merge (val (2 ^ (d0 + 1) + e)) (val (2 ^ (d0 + 1) + (e + 1))) = _
        rw [vwf ((2 ^ (d0 + 1) + e) / 2) (by omega) (by omega)]
        congr 2 <;> omega) ht0
  obtain ⟨v', pt', hpls, ht', hm', hk'⟩ := paths_levels_sim H val t.nodes (d0 + 1) vwf htn d0 _ _ rowsF v1 pt1 hlevels
    hK1asc hK1r (by omega) (by
      intro k hk
      obtain ⟨e, he, rfl⟩ := List.mem_map.1 hk
      exact hv1 e he) ht1 (by
      intro k hk
      obtain ⟨e, he, rfl⟩ := List.mem_map.1 hk
      exact (hk1 e he).2.2)
  have hcollect := collectPaths_honest val pt' (d0 + 1) (by omega) ht' idxs (by
    intro i hi
    have hir := hr i hi
    have he : i - i % 2 ∈ normalizeIndexes idxs := (nmem _).2 ⟨i, hi, rfl⟩
    obtain ⟨k1a, k1b, k1c⟩ := hk1 _ he
    refine ⟨hir, hm' _ (hm1 _ (hk0 i hi)), ?_⟩
    intro s hs
    cases s with
    | zero =>
      simp only [Nat.pow_zero, Nat.div_one]
      by_cases hev : i % 2 = 0
      · rw [xor1_even (by omega)]
        rw [show 2 ^ (d0 + 1) + i + 1 = 2 ^ (d0 + 1) + (i - i % 2) + 1 by omega]
        exact hm' _ k1b
      · rw [xor1_odd (by omega)]
        rw [show 2 ^ (d0 + 1) + i - 1 = 2 ^ (d0 + 1) + (i - i % 2) by omega]
        exact hm' _ k1a
    | succ s =>
      rw [pow_div_succ]
      have : (2 ^ (d0 + 1) + i) / 2 = (2 ^ (d0 + 1) + (i - i % 2)) / 2 := by omega
      rw [this]
      exact hk' _ (List.mem_map.2 ⟨_, he, rfl⟩) s (by omega))
  refine ⟨_, idxs.map (pathOf val (d0 + 1)), hprove, ?_, by simp, ?_⟩
  · unfold intoPaths
    simp only
    rw [if_neg (by simpa using hne), if_neg (by simp [maxPaths]; omega), if_neg (by simp [hLP]),
      if_neg (by simp [usizeBits]; omega), hm]
    simp only [Res.ok_bind]
    rw [hLPeq] at hpl ⊢
    rw [hseed]
    simp only [Res.ok_bind]
    rw [if_neg (by have := hext.length_eq; simp at this; omega), pow2_ok (by omega)]
    simp only [Res.ok_bind, hpl, Nat.add_sub_cancel, hpls, anyUnused_lengths, hcollect]
    rfl
  · intro j hj
    have hir := hr _ (List.getElem_mem hj)
    have hx : xor1 idxs[j] < 2 ^ (d0 + 1) := by unfold xor1; split <;> omega
    have hxx : xor1 (2 ^ (d0 + 1) + idxs[j]) = 2 ^ (d0 + 1) + xor1 idxs[j] := by
      unfold xor1; split <;> split <;> omega
    have hloop := proveLoop_sibs val t.nodes (d0 + 1) htn d0 t.nodes.length ((idxs[j] + t.nodes.length) / 2)
      (by rw [wf.nlen]; omega) (by rw [wf.nlen]; omega) (by omega)
      (by rw [wf.nlen]; have := @Nat.lt_two_pow_self d0; omega)
    have := prove_eq t idxs[j] _ _ _ (by rw [wf.llen]; exact hir) (htl _ hir) (htl _ hx) hloop
    rw [this]
    simp only [List.getD_eq_getElem?_getD, List.getElem?_map, List.getElem?_eq_getElem hj, Option.map_some, Option.getD_some,
      pathOf, sibs, hxx]
    congr 4
    rw [wf.nlen]; omega

end WinterProofs.C10
