-- C03 helper lemmas: Merkle binding of the opened rows (through C10's `getRoot_binding`), the FRI layer
-- loop, the remainder.
import Winter.Model.VerifierChecks
import WinterProofs.Lemmas.C10Bind

set_option linter.unusedSectionVars false

namespace WinterProofs.C03L
open Model Model.VerifierChecks Model.Merkle WinterProofs.C10

variable {C D V : Type} [DecidableEq D] [DecidableEq V]

/-- `root` is the root of a Merkle tree of depth `d` (a value for every heap position `1 .. 2^(d+1) - 1`,
    every inner node the merge of its children) -/
def IsMerkleRoot (H : Hasher D) (root : D) (d : Nat) : Prop := ∃ val : Nat → D, ValWF H val d ∧ val 1 = root

/-- **binding of one opening**: if `verify_batch` accepts the opening against the root of a tree of the
    opening's depth and `merge` is collision free, there is one row per position and the hash of row `j`
    is the committed leaf at position `positions[j]` -/
theorem openingOk_leaves (W : Verifier C D V) (inj : MergeInj W.merkle) (val : Nat → D) (root : D)
    (positions : List Nat) (o : Opening V D) (depth : Nat) (wf : ValWF W.merkle val depth) (hd : 1 ≤ depth)
    (hroot : val 1 = root) (h : openingOk W root positions o depth = true) :
    positions.length = o.rows.length ∧
    ∀ j (hj : j < positions.length), (o.rows.map W.hashElems)[j]? = some (val (2 ^ depth + positions[j])) := by
  unfold openingOk at h
  have hv : verifyBatch W.merkle root positions (o.proof W depth) = .ok () := by simpa using h
  have hg := verifyBatch_ok W.merkle root positions _ hv
  obtain ⟨_, _, hlen, _⟩ := getRoot_ok_stages W.merkle _ positions _ hg
  rw [← hroot] at hg
  have hb := getRoot_binding W.merkle inj val (o.proof W depth) positions wf hd hg
  refine ⟨by simpa [Opening.proof] using hlen, fun j hj => ?_⟩
  simpa [Opening.proof] using hb j hj

theorem map_injective {α β : Type} {f : α → β} (hf : Function.Injective f) :
    ∀ l1 l2 : List α, l1.map f = l2.map f → l1 = l2
  | [], [], _ => rfl
  | [], _ :: _, h => by simp at h
  | _ :: _, [], h => by simp at h
  | a :: l1, b :: l2, h => by
    simp only [List.map_cons, List.cons.injEq] at h
    rw [hf h.1, map_injective hf l1 l2 h.2]

/-- two openings accepted against the same committed root for the same positions carry the same rows
    (when `hash_elements` is collision free as well) -/
theorem openingOk_rows_eq (W : Verifier C D V) (inj : MergeInj W.merkle) (hinj : Function.Injective W.hashElems)
    (root : D) (positions : List Nat) (o1 o2 : Opening V D) (depth : Nat)
    (hc : IsMerkleRoot W.merkle root depth) (hd : 1 ≤ depth)
    (h1 : openingOk W root positions o1 depth = true) (h2 : openingOk W root positions o2 depth = true) :
    o1.rows = o2.rows := by
  obtain ⟨val, wf, hroot⟩ := hc
  obtain ⟨l1, b1⟩ := openingOk_leaves W inj val root positions o1 depth wf hd hroot h1
  obtain ⟨l2, b2⟩ := openingOk_leaves W inj val root positions o2 depth wf hd hroot h2
  have hm : o1.rows.map W.hashElems = o2.rows.map W.hashElems := by
    apply List.ext_getElem?
    intro j
    by_cases hj : j < positions.length
    · rw [b1 j hj, b2 j hj]
    · have e1 : (o1.rows.map W.hashElems)[j]? = none := by
        apply List.getElem?_eq_none; simp; omega
      have e2 : (o2.rows.map W.hashElems)[j]? = none := by
        apply List.getElem?_eq_none; simp; omega
      rw [e1, e2]
  exact map_injective hinj _ _ hm

/-- the commitments of the FRI layers `depth .. depth + count - 1` are roots of trees of the depth the
    verifier opens them at (mirrors the recursion of `friLayers`) -/
def LayersCommitted (H : Hasher D) (N : Nat) (roots : List D) : Nat → Nat → Nat → Prop
  | 0, _, _ => True
  | count + 1, depth, dom =>
    (∃ root, roots[depth]? = some root ∧ IsMerkleRoot H root (Nat.log2 (dom / N)) ∧ 1 ≤ Nat.log2 (dom / N)) ∧
    LayersCommitted H N roots count (depth + 1) (dom / N)

/-- **binding of the FRI layers**: two runs of the layer loop over the same commitments, challenges,
    partition count and starting state that both succeed read the same rows in every layer and end in
    the same state -/
theorem friLayers_same (W : Verifier C D V) (A : AirInst C D V) (inj : MergeInj W.merkle)
    (hinj : Function.Injective W.hashElems) (roots : List D) (alphas : List V) (np : Nat)
    (l1 l2 : List (Opening V D)) :
    ∀ (count depth : Nat) (pos : List Nat) (ev : List V) (dom md : Nat) (r1 r2 : List Nat × List V × Nat × Nat),
      LayersCommitted W.merkle A.fri.folding roots count depth dom →
      friLayers W A roots l1 alphas np count depth pos ev dom md = .ok r1 →
      friLayers W A roots l2 alphas np count depth pos ev dom md = .ok r2 →
      r1 = r2 ∧ ∀ k, k < count → (l1[depth + k]?).map (·.rows) = (l2[depth + k]?).map (·.rows) := by
  intro count
  induction count with
  | zero =>
    intro depth pos ev dom md r1 r2 _ h1 h2
    simp only [friLayers] at h1 h2
    injection h1 with h1
    injection h2 with h2
    exact ⟨by rw [← h1, ← h2], fun k hk => absurd hk (Nat.not_lt_zero k)⟩
  | succ count ih =>
    intro depth pos ev dom md r1 r2 hc h1 h2
    obtain ⟨⟨root, hroot, hmr, hd⟩, hrest⟩ := hc
    simp only [friLayers] at h1 h2
    split at h1
    · cases h1
    · rename_i folded hf
      simp only [hf] at h2
      split at h1
      · cases h1
      · rename_i idx hi
        simp only [hi] at h2
        split at h1
        · rename_i root' layer1 alpha hr1 hl1 ha1
          split at h2
          · rename_i root'' layer2 alpha' hr2 hl2 ha2
            have e1 : root' = root := by rw [hroot] at hr1; injection hr1 with hr1; exact hr1.symm
            have e2 : root'' = root := by rw [hroot] at hr2; injection hr2 with hr2; exact hr2.symm
            have ea : alpha' = alpha := by rw [ha1] at ha2; injection ha2 with ha2; exact ha2.symm
            subst e1 e2 ea
            split at h1
            · cases h1
            · rename_i ho1
              split at h2
              · cases h2
              · rename_i ho2
                have hrows : layer1.rows = layer2.rows :=
                  openingOk_rows_eq W inj hinj root'' idx layer1 layer2 _ hmr hd (by simpa using ho1) (by simpa using ho2)
                rw [← hrows] at h2
                split at h1
                · cases h1
                · rename_i qv hq
                  simp only [hq] at h2
                  split at h1
                  · cases h1
                  · split at h1
                    · cases h1
                    · rename_i hev hmd
                      rw [if_neg hev, if_neg hmd] at h2
                      obtain ⟨hr, hk⟩ := ih _ _ _ _ _ _ _ hrest h1 h2
                      refine ⟨hr, fun k hk' => ?_⟩
                      cases k with
                      | zero =>
                        simp only [Nat.add_zero, hl1, hl2, Option.map_some, hrows]
                      | succ k =>
                        have := hk k (by omega)
                        rw [show depth + (k + 1) = depth + 1 + k by omega]
                        exact this
          · cases h2
        · cases h1

/-- with the commitment check, an accepted remainder hashes to the commitment that follows the layer
    commitments -/
theorem friRemainder_committed (W : Verifier C D V) (A : AirInst C D V) (roots : List D) (rem : List V)
    (numLayers : Nat) (pos : List Nat) (ev : List V) (dom md : Nat) (hc : W.commitCheck = true)
    (h : friRemainder W A roots rem numLayers pos ev dom md = .ok ()) :
    roots[numLayers]? = some (W.hashElems rem) ∧ rem.length ≤ md ∧
    ∀ pe ∈ pos.zip ev, A.evalRemainder rem dom pe.1 = pe.2 := by
  unfold friRemainder at h
  split at h
  · cases h
  · rename_i h1
    split at h
    · cases h
    · rename_i h2
      split at h
      · rename_i h3
        refine ⟨?_, Nat.le_of_not_lt h2, fun pe hpe => ?_⟩
        · have : ¬ (roots[numLayers]? ≠ some (W.hashElems rem)) := fun hne => h1 ⟨hc, hne⟩
          exact Decidable.of_not_not this
        · have := List.all_eq_true.mp h3 pe hpe
          simpa using this
      · cases h

/-- without the commitment check (the pinned tree) the verdict on the remainder does not depend on any
    commitment: nothing ties the remainder to what the prover committed to -/
theorem friRemainder_unbound (W : Verifier C D V) (A : AirInst C D V) (roots roots' : List D) (rem : List V)
    (numLayers : Nat) (pos : List Nat) (ev : List V) (dom md : Nat) (hc : W.commitCheck = false) :
    friRemainder W A roots rem numLayers pos ev dom md = friRemainder W A roots' rem numLayers pos ev dom md := by
  unfold friRemainder
  simp [hc]

end WinterProofs.C03L
