-- helper lemmas of C04, second part: running the scripts on the coin model of C19 (Winter/Model/Coin.lean)
import Winter.Model.Transcript
import WinterProofs.Lemmas.C04

namespace C04L
open Model.Transcript Model.Coin

-- ====================================================================================== script shape
/-- the verifier's FRI loop is the prover's FRI phase followed by one more draw -/
theorem friVerifierLoop_eq : ∀ (k i : Nat),
    friVerifierLoop i (friCommitmentsFrom i k)
      = friProverLayers i k ++ [.reseed .remainderCommitment, .draw (.friAlpha (i + k)) 1]
  | 0, i => by simp [friCommitmentsFrom, friVerifierLoop, friProverLayers]
  | k + 1, i => by
    simp only [friCommitmentsFrom, friVerifierLoop, friProverLayers, friVerifierLoop_eq k (i + 1), List.cons_append]
    have : i + 1 + k = i + (k + 1) := by omega
    rw [this]

/-- everything up to and including the remainder commitment (prover's transcription) -/
def prefixScript (cfg : Cfg) : List CoinOp :=
  (proverScript cfg).take ((proverScript cfg).length - 3)

/-- the proof-of-work check and the query positions -/
def tailScript (cfg : Cfg) : List CoinOp :=
  [.checkPow, .reseedWithNonce, .drawInts cfg.queries cfg.ldeSize]

theorem proverScript_split (cfg : Cfg) : proverScript cfg = prefixScript cfg ++ tailScript cfg := by
  rcases cfg with ⟨aux, lag, _, _, _, _, _, _, _, L, _, _, _, _⟩
  cases aux <;> cases lag <;>
    simp [prefixScript, tailScript, proverScript, friProver, List.take_append, List.take_of_length_le]

theorem verifierScript_split (cfg : Cfg) :
    verifierScript cfg = prefixScript cfg ++ .draw (.friAlpha cfg.friLayers) 1 :: tailScript cfg := by
  rcases cfg with ⟨aux, lag, _, _, _, _, _, _, _, L, _, _, _, _⟩
  have hF := friVerifierLoop_eq L 0
  simp only [Nat.zero_add] at hF
  cases aux <;> cases lag <;>
    simp [prefixScript, tailScript, proverScript, verifierScript, friProver, friCommitments, hF, List.take_append,
      List.take_of_length_le]

theorem prefixScript_head (cfg : Cfg) : ∃ rest, prefixScript cfg = .new [.context, .pubInputs] :: rest := by
  rcases cfg with ⟨aux, lag, _, _, _, _, _, _, _, L, _, _, _, _⟩
  cases aux <;> cases lag <;>
    simp [prefixScript, proverScript, friProver, List.take_append, List.take_of_length_le]

theorem compile_append {D : Type} (env : Env D) (cfg : Cfg) (a b : List CoinOp) :
    compile env cfg (a ++ b) = compile env cfg a ++ compile env cfg b := by
  simp [compile]

-- ====================================================================================== coin facts
section coin
variable {D : Type} (H : HashOps D)

theorem next_seed (c : Coin D) (v : D) (c' : Coin D) (h : next H c = some (v, c')) : c'.seed = c.seed := by
  unfold next at h
  split at h
  · injection h with h; injection h with _ h; subst h; rfl
  · cases h

theorem drawLoop_seed (fd : FieldDesc) (deg : Nat) : ∀ (k : Nat) (c : Coin D), (drawLoop H fd deg k c).2.seed = c.seed
  | 0, _ => rfl
  | k + 1, c => by
    unfold drawLoop
    cases hn : next H c with
    | none => rfl
    | some p =>
      obtain ⟨v, c'⟩ := p
      have hs := next_seed H c v c' hn
      simp only []
      split
      · exact hs
      · rw [drawLoop_seed fd deg k c', hs]

/-- `draw` changes the counter only: the seed is what it was -/
theorem draw_seed (fd : FieldDesc) (deg : Nat) (c : Coin D) : (draw H fd deg c).2.seed = c.seed := by
  unfold draw
  split
  · rfl
  · exact drawLoop_seed H fd deg _ c

/-- `check_leading_zeros` reads the seed only -/
theorem checkLeadingZeros_congr (c c' : Coin D) (v : Nat) (h : c.seed = c'.seed) :
    checkLeadingZeros H c v = checkLeadingZeros H c' v := by
  simp [checkLeadingZeros, h]

/-- the result of `draw_integers` is a function of the seed (the counter is reset) -/
theorem drawIntegers_out_congr (n d nonce : Nat) (c c' : Coin D) (h : c.seed = c'.seed) :
    (drawIntegers H n d nonce c).1 = (drawIntegers H n d nonce c').1 := by
  unfold drawIntegers
  by_cases h1 : ¬ isPow2 d
  · simp [h1]
  · by_cases h2 : ¬ n < d
    · simp [h1, h2]
    · simp only [h1, h2, if_false, h]

theorem runFrom_single (c : Coin D) (op : Op D) : (runFrom H c [op]).1 = [(step H c op).1] := by
  simp only [runFrom]
  cases hs : step H c op with
  | mk o c' => by_cases hp : isPanic o = true <;> simp [hp]

theorem runFrom_cons_head (c : Coin D) (op : Op D) (ops : List (Op D)) :
    (step H c op).1 ∈ (runFrom H c (op :: ops)).1 := by
  simp only [runFrom]
  cases hs : step H c op with
  | mk o c' => by_cases hp : isPanic o = true <;> simp [hp]

theorem runFrom_cons_nopanic (c : Coin D) (op : Op D) (ops : List (Op D)) (h : isPanic (step H c op).1 = false) :
    (runFrom H c (op :: ops)).1 = (step H c op).1 :: (runFrom H (step H c op).2 ops).1 := by
  simp only [runFrom]
  cases hs : step H c op with
  | mk o c' =>
    rw [hs] at h
    simp only [] at h
    simp [h]

theorem runFrom_clz_cons (c : Coin D) (v : Nat) (ops : List (Op D)) :
    (runFrom H c (.checkLeadingZeros v :: ops)).1 = .num (checkLeadingZeros H c v) :: (runFrom H c ops).1 := by
  simp [runFrom, step, isPanic]

/-- the proof-of-work value and the query positions are functions of the seed -/
theorem tail_outputs (n d nonce : Nat) (c c' : Coin D) (h : c.seed = c'.seed) :
    (runFrom H c [.checkLeadingZeros nonce, .drawIntegers n d nonce]).1
      = (runFrom H c' [.checkLeadingZeros nonce, .drawIntegers n d nonce]).1 := by
  rw [runFrom_clz_cons, runFrom_clz_cons, runFrom_single, runFrom_single]
  simp only [step, checkLeadingZeros_congr H c c' nonce h, drawIntegers_out_congr H n d nonce c c' h]

theorem tail_outputs_length (n d nonce : Nat) (c : Coin D) :
    (runFrom H c [.checkLeadingZeros nonce, .drawIntegers n d nonce]).1.length = 2 := by
  rw [runFrom_clz_cons, runFrom_single]; rfl

/-- (as C19.runFrom_append) a history without panic followed by more operations first produces its own outputs -/
theorem runFrom_append' (c : Coin D) (ops₁ ops₂ : List (Op D))
    (hnp : ∀ o ∈ (runFrom H c ops₁).1, isPanic o = false) :
    (runFrom H c (ops₁ ++ ops₂)).1 = (runFrom H c ops₁).1 ++ (runFrom H (runFrom H c ops₁).2 ops₂).1 := by
  induction ops₁ generalizing c with
  | nil => simp [runFrom]
  | cons op ops ih =>
    simp only [List.cons_append, runFrom]
    cases hs : step H c op with
    | mk o c' =>
      simp only []
      by_cases hp : isPanic o = true
      · exfalso
        have := hnp o (by simp [runFrom, hs, hp])
        rw [hp] at this; cases this
      · simp only [hp]
        have hnp' : ∀ o' ∈ (runFrom H c' ops).1, isPanic o' = false := by
          intro o' ho'
          apply hnp o'
          simp [runFrom, hs, hp, ho']
        have := ih c' hnp'
        simp only [Bool.false_eq_true, if_false, List.cons_append, this]

/-- no panic in a history ⇒ no panic in a prefix of it -/
theorem nopanic_prefix (c : Coin D) (ops₁ ops₂ : List (Op D))
    (hnp : ∀ o ∈ (runFrom H c (ops₁ ++ ops₂)).1, isPanic o = false) :
    ∀ o ∈ (runFrom H c ops₁).1, isPanic o = false := by
  induction ops₁ generalizing c with
  | nil => intro o ho; simp [runFrom] at ho
  | cons op ops ih =>
    intro o ho
    simp only [List.cons_append, runFrom] at hnp ho
    cases hs : step H c op with
    | mk o1 c' =>
      simp only [hs] at hnp ho
      by_cases hp : isPanic o1 = true
      · simp only [hp, if_true, List.mem_singleton] at hnp ho
        subst ho
        exact hnp o rfl
      · simp only [hp, Bool.false_eq_true, if_false, List.mem_cons] at hnp ho
        rcases ho with ho | ho
        · subst ho; exact hnp o (Or.inl rfl)
        · exact ih c' (fun o' ho' => hnp o' (Or.inr ho')) o ho

end coin

end C04L
