-- C17, "for a valid trace the definition is a polynomial": every numerator is divisible by its divisor,
-- the sum of the quotients `compositionQ` evaluates to the definition `defAt` at every point off the
-- trace domain, and its degree is below `n · num_constraint_composition_columns` when the declared
-- constraint degrees bound the actual ones.
import WinterProofs.Lemmas.C17Valid

set_option linter.unusedSectionVars false

namespace WinterProofs.C17L
open Model.Divisor Model.Composition WinterProofs.C16L Polynomial

variable {F : Type} [Field F]

section
variable (root : ℕ → Option F)
local notation "O" => fieldOps F root

-- ============================================================================================
-- what `prep` keeps of the assertions
-- ============================================================================================

theorem prepared_member {invG : F} {as ms : List (Assertion F)} {w n : ℕ} {l : List (BC F)}
    (hp : prepareAssertions as w n = .ok ms) (hl : ms.mapM (mkBC (O) invG) = some l) :
    ∀ bc ∈ l, ∃ a ∈ as, a.validateTraceLength n = .ok () ∧ mkBC (O) invG a = some bc := by
  have hmem := foldl_prepStep_mem as w n [] ms (by rw [← prepareAssertions_eq]; exact hp)
  have hval := ((foldl_prepStep_ok_iff as w n []).mp ⟨ms, by rw [← prepareAssertions_eq]; exact hp⟩).1
  intro bc hbc
  obtain ⟨a, ha, hfa⟩ := mapM_mem _ ms l hl bc hbc
  have : a ∈ as := by
    rcases (hmem a).mp ha with h | h
    · cases h
    · exact h
  exact ⟨a, this, (hval a this).2, hfa⟩

/-- per boundary constraint: the numerator `t_col − b` vanishes on the `k` roots of the divisor -/
structure BCRoots (g : F) (n : ℕ) (polys : ℕ → List F) (bc : BC F) : Prop where
  polyLen : bc.c.poly.length ≤ n
  roots : ∃ S, n = S * numSteps bc.a n ∧
    ∀ j < numSteps bc.a n, bc.c.evalAt (O) (g ^ (bc.a.first + S * j))
      (polyEval (O) (polys bc.c.column) (g ^ (bc.a.first + S * j))) = 0

theorem prepared_roots {g : F} {n w : ℕ} (hn : 0 < n) (hg : IsPrimitiveRoot g n)
    {as ms : List (Assertion F)} {l : List (BC F)}
    (hp : prepareAssertions as w n = .ok ms) (hl : ms.mapM (mkBC (O) g⁻¹) = some l)
    (hwf : ∀ a ∈ as, WF a)
    (hseq : ∀ a ∈ as, 2 ≤ a.values.length → root (Nat.log2 a.values.length) = some (g ^ a.stride))
    (polys : ℕ → List F) (hh : ∀ a ∈ as, AssertionHolds root g n polys a) :
    ∀ bc ∈ l, BCRoots root g n polys bc := by
  intro bc hbc
  obtain ⟨a, ha, hv, hmk⟩ := prepared_member root hp hl bc hbc
  obtain ⟨h1, h2, S, h3, h4⟩ := mkBC_facts root hn hg hmk (hwf a ha) hv (hseq a ha) polys (hh a ha)
  exact ⟨h2, S, by rw [h1]; exact h3, by rw [h1]; exact h4⟩

theorem prep_invG {air : Air F} {P : Prep F} (hP : prep (O) air = some P) : P.invG = P.g⁻¹ := by
  obtain ⟨_, h, _⟩ := prep_spec hP
  have : some ((1 : F) / P.g) = some P.invG := h
  rw [← Option.some.inj this, one_div]

/-- **validity, per boundary constraint** of the instance `prep` delivers -/
theorem valid_bc_roots {air : Air F} {P : Prep F} (hP : prep (O) air = some P) (hn : 0 < air.n)
    (hg : IsPrimitiveRoot P.g air.n) (hok : AssertOK root air P) {mainPolys auxPolys : ℕ → List F}
    {rands : ℕ → F} (hvalid : ValidTrace root air P mainPolys auxPolys rands) :
    (∀ bc ∈ P.main, BCRoots root P.g air.n mainPolys bc) ∧ (∀ bc ∈ P.aux, BCRoots root P.g air.n auxPolys bc) := by
  obtain ⟨_, _, _, ms, as, h1, h2, h3, h4⟩ := prep_spec hP
  rw [prep_invG root hP] at h3 h4
  exact ⟨prepared_roots root hn hg h1 h3 (fun a ha => hok.hwf a (List.mem_append_left _ ha))
      (fun a ha => hok.hseq a (List.mem_append_left _ ha)) mainPolys hvalid.mainAssertions,
    prepared_roots root hn hg h2 h4 (fun a ha => hok.hwf a (List.mem_append_right _ ha))
      (fun a ha => hok.hseq a (List.mem_append_right _ ha)) auxPolys hvalid.auxAssertions⟩

-- ============================================================================================
-- boundary numerators and quotients
-- ============================================================================================

/-- the boundary numerator `t_col(X) − b(X)` -/
noncomputable def boundNum (polys : ℕ → List F) (bc : BC F) : F[X] :=
  listPoly (polys bc.c.column) - valuePoly bc.c

theorem boundNum_eval (polys : ℕ → List F) (bc : BC F) (x : F) :
    (boundNum polys bc).eval x = bc.c.evalAt (O) x (polyEval (O) (polys bc.c.column) x) := by
  unfold boundNum BConstraint.evalAt
  rw [eval_sub, listPoly_eval root, valuePoly_eval root]
  rfl

/-- **boundary numerators are divisible by the assertion divisor** -/
theorem boundNum_dvd {g : F} {n : ℕ} (hn : 0 < n) (hg : IsPrimitiveRoot g n) {polys : ℕ → List F} {bc : BC F}
    (h : BCRoots root g n polys bc) : assertPoly g (numSteps bc.a n) bc.a.first ∣ boundNum polys bc := by
  obtain ⟨S, hS, hz⟩ := h.roots
  apply assertPoly_dvd hn hg hS
  intro j hj
  rw [boundNum_eval root]
  exact hz j hj

theorem boundNum_natDegree_le {g : F} {n : ℕ} {polys : ℕ → List F} {bc : BC F}
    (hlen : ∀ j, (polys j).length ≤ n) (h : BCRoots root g n polys bc) :
    (boundNum polys bc).natDegree ≤ n - 1 := by
  refine le_trans (natDegree_sub_le _ _) (max_le ?_ ?_)
  · exact le_trans (listPoly_natDegree_le _) (by have := hlen bc.c.column; omega)
  · exact le_trans (valuePoly_natDegree_le _) (by have := h.polyLen; omega)

theorem adiv_eq (g : F) (a : Assertion F) (n : ℕ) (x : F) :
    adiv g a n x = (assertPoly g (numSteps a n) a.first).eval x := by
  unfold adiv
  rw [assertPoly_eval]
  by_cases h0 : a.first = 0
  · simp [h0]
  · rw [if_neg h0]

/-- one boundary quotient `β·(t_col − b)/Z` as a polynomial -/
noncomputable def boundTerm (g : F) (n : ℕ) (polys : ℕ → List F) (p : BC F × F) : F[X] :=
  C p.2 * (boundNum polys p.1 /ₘ assertPoly g (numSteps p.1.a n) p.1.a.first)

theorem numSteps_pos_of_roots {g : F} {n : ℕ} (hn : 0 < n) {polys : ℕ → List F} {bc : BC F}
    (h : BCRoots root g n polys bc) : 0 < numSteps bc.a n := by
  obtain ⟨S, hS, _⟩ := h.roots
  exact Nat.pos_of_mul_pos_left (hS ▸ hn)

theorem boundTerm_eval {g : F} {n : ℕ} (hn : 0 < n) (hg : IsPrimitiveRoot g n) {polys : ℕ → List F}
    (p : BC F × F) (h : BCRoots root g n polys p.1) (x : F) (hx : x ^ n ≠ 1) :
    (boundTerm g n polys p).eval x
      = p.1.c.evalAt (O) x (polyEval (O) (polys p.1.c.column) x) * p.2 / adiv g p.1.a n x := by
  obtain ⟨S, hS, _⟩ := h.roots
  have hk := numSteps_pos_of_roots root hn h
  have hne := assertPoly_eval_off_domain (f := p.1.a.first) hn hg hS x hx
  unfold boundTerm
  rw [eval_mul, eval_C, eval_divByMonic_of_dvd (assertPoly_monic g _ hk) (boundNum_dvd root hn hg h) x hne,
    boundNum_eval root, adiv_eq]
  ring

theorem boundTerm_degree_lt {g : F} {n m : ℕ} (hn : 0 < n) (hm : n ≤ m) {polys : ℕ → List F}
    (hlen : ∀ j, (polys j).length ≤ n) (p : BC F × F) (h : BCRoots root g n polys p.1) :
    (boundTerm g n polys p).degree < m := by
  have hk := numSteps_pos_of_roots root hn h
  apply degree_C_mul_lt
  have := natDegree_divByMonic_le (assertPoly_monic g p.1.a.first hk) (boundNum_natDegree_le root hlen h)
  omega

/-- the boundary part of the composition polynomial -/
noncomputable def boundQ (g : F) (n : ℕ) (polys : ℕ → List F) (l : List (BC F × F)) : F[X] :=
  (l.map (boundTerm g n polys)).sum

theorem boundQ_eval {g : F} {n : ℕ} (hn : 0 < n) (hg : IsPrimitiveRoot g n) {polys : ℕ → List F}
    (l : List (BC F × F)) (h : ∀ p ∈ l, BCRoots root g n polys p.1) (x : F) (hx : x ^ n ≠ 1) :
    (boundQ g n polys l).eval x
      = (l.map (fun p => p.1.c.evalAt (O) x (polyEval (O) (polys p.1.c.column) x) * p.2 / adiv g p.1.a n x)).sum := by
  unfold boundQ
  rw [eval_listSum, List.map_map]
  congr 1
  apply List.map_congr_left
  intro p hp
  exact boundTerm_eval root hn hg p (h p hp) x hx

theorem boundQ_degree_lt {g : F} {n m : ℕ} (hn : 0 < n) (hm : n ≤ m) {polys : ℕ → List F}
    (hlen : ∀ j, (polys j).length ≤ n) (l : List (BC F × F)) (h : ∀ p ∈ l, BCRoots root g n polys p.1) :
    (boundQ g n polys l).degree < m :=
  degree_list_sum_lt _ m l (fun p hp => boundTerm_degree_lt root hn hm hlen p (h p hp))

-- ============================================================================================
-- transition numerators and quotients
-- ============================================================================================

/-- **transition numerators are divisible by the transition divisor** -/
theorem exprPoly_dvd {air : Air F} {P : Prep F} (hg : IsPrimitiveRoot P.g air.n)
    {mainPolys auxPolys : ℕ → List F} {rands : ℕ → F}
    (hvalid : ValidTrace root air P mainPolys auxPolys rands) (c : Expr) (hc : c ∈ air.mainCons ++ air.auxCons) :
    transPoly P.g (air.n - air.e) ∣ exprPoly air P mainPolys auxPolys rands c := by
  apply transPoly_dvd hg (Nat.sub_le _ _)
  intro i hi
  rw [exprPoly_eval root]
  exact hvalid.transition i hi c hc

/-- one transition quotient `α·T/Z_T` as a polynomial -/
noncomputable def transTerm (air : Air F) (P : Prep F) (mainPolys auxPolys : ℕ → List F) (rands : ℕ → F)
    (p : F × Expr) : F[X] :=
  C p.1 * (exprPoly air P mainPolys auxPolys rands p.2 /ₘ transPoly P.g (air.n - air.e))

/-- the transition part of the composition polynomial -/
noncomputable def transQ (air : Air F) (P : Prep F) (mainPolys auxPolys : ℕ → List F) (rands : ℕ → F)
    (tco : List F) : F[X] :=
  ((tco.zip (air.mainCons ++ air.auxCons)).map (transTerm air P mainPolys auxPolys rands)).sum

theorem list_sum_map_div {β : Type} (l : List β) (f : β → F) (z : F) :
    (l.map (fun b => f b / z)).sum = (l.map f).sum / z := by
  induction l with
  | nil => simp
  | cons b l ih => simp only [List.map_cons, List.sum_cons, ih, add_div]

theorem zval_transition {g : F} {n e : ℕ} (he : e ≤ n) (x : F) :
    zval root (transitionDivisor (O) g n e) x = (x ^ n - 1) / ∏ k ∈ Finset.Ico (n - e) n, (x - g ^ k) := by
  have h := transitionDivisor_evalAt root g n e he x
  rw [evalAt_eq_zval] at h
  exact Option.some.inj h

theorem transQ_eval {air : Air F} {P : Prep F} (hn : 0 < air.n) (he : air.e ≤ air.n)
    (hg : IsPrimitiveRoot P.g air.n) {mainPolys auxPolys : ℕ → List F} {rands : ℕ → F}
    (hvalid : ValidTrace root air P mainPolys auxPolys rands) (tco : List F) (x : F) (hx : x ^ air.n ≠ 1) :
    (transQ air P mainPolys auxPolys rands tco).eval x
      = combine (O) tco ((air.mainCons ++ air.auxCons).map (fun c => c.eval (O)
          (defEnv root air P mainPolys auxPolys rands x)))
        / zval root (transitionDivisor (O) P.g air.n air.e) x := by
  obtain ⟨hz, hne⟩ := transPoly_eval_off_domain (e := air.e) hn hg x hx
  rw [zval_transition root he, hz, combine_eq_sum, List.zip_map_right, List.map_map, ← list_sum_map_div]
  unfold transQ
  rw [eval_listSum, List.map_map]
  congr 1
  apply List.map_congr_left
  intro p hp
  have hc := (List.of_mem_zip hp).2
  show (transTerm air P mainPolys auxPolys rands p).eval x = _
  unfold transTerm
  rw [eval_mul, eval_C, eval_divByMonic_of_dvd (transPoly_monic _ _) (exprPoly_dvd root hg hvalid p.2 hc) x hne,
    exprPoly_eval root]
  simp only [Function.comp, Prod.map, id]
  ring

end

-- ============================================================================================
-- declared degrees
-- ============================================================================================

/-- **the degree hypothesis on the AIR**: the declared `TransitionConstraintDegree` of every transition
    constraint bounds the actual degree of the constraint composed with the trace polynomials (what the
    prover asserts in debug builds) -/
def DeclaredDegreesOK (air : Air F) (P : Prep F) (mainPolys auxPolys : ℕ → List F) (rands : ℕ → F) : Prop :=
  List.Forall₂ (fun c d => (exprPoly air P mainPolys auxPolys rands c).natDegree ≤ d.evalDegree air.n)
    air.mainCons air.mainDegs ∧
  List.Forall₂ (fun c d => (exprPoly air P mainPolys auxPolys rands c).natDegree ≤ d.evalDegree air.n)
    air.auxCons air.auxDegs

/-- a decidable sufficient condition: the syntactic degree bound of every constraint is at most its
    declared degree -/
theorem declaredDegreesOK_of_degBound (air : Air F) (P : Prep F) (mainPolys auxPolys : ℕ → List F)
    (rands : ℕ → F) (hm : ∀ j, (mainPolys j).length ≤ air.n) (ha : ∀ j, (auxPolys j).length ≤ air.n)
    (h1 : List.Forall₂ (fun c d => degBound air.n (P.perPolys.map List.length) c ≤ d.evalDegree air.n)
      air.mainCons air.mainDegs)
    (h2 : List.Forall₂ (fun c d => degBound air.n (P.perPolys.map List.length) c ≤ d.evalDegree air.n)
      air.auxCons air.auxDegs) :
    DeclaredDegreesOK air P mainPolys auxPolys rands :=
  ⟨h1.imp (fun _ _ h => le_trans (exprPoly_natDegree_le air P mainPolys auxPolys rands hm ha _) h),
   h2.imp (fun _ _ h => le_trans (exprPoly_natDegree_le air P mainPolys auxPolys rands hm ha _) h)⟩

theorem forall₂_exists_of_mem {β γ : Type} {R : β → γ → Prop} {l1 : List β} {l2 : List γ}
    (h : List.Forall₂ R l1 l2) : ∀ a ∈ l1, ∃ b ∈ l2, R a b := by
  induction h with
  | nil => intro a ha; cases ha
  | cons hab _ ih =>
    intro a ha
    rcases List.mem_cons.mp ha with rfl | ha
    · exact ⟨_, List.mem_cons_self, hab⟩
    · obtain ⟨b, hb, hr⟩ := ih a ha
      exact ⟨b, List.mem_cons_of_mem _ hb, hr⟩

theorem one_le_numCompColumns (ds : List Degree) (n e : ℕ) : 1 ≤ numCompColumns ds n e := by
  unfold numCompColumns
  exact le_max_right _ _

theorem transQ_degree_lt {air : Air F} {P : Prep F} {mainPolys auxPolys : ℕ → List F}
    {rands : ℕ → F} (hdeg : DeclaredDegreesOK air P mainPolys auxPolys rands) (tco : List F)
    (hcols : ∀ d ∈ air.mainDegs ++ air.auxDegs, d.evalDegree air.n - (air.n - air.e)
      < air.n * numCompColumns (air.mainDegs ++ air.auxDegs) air.n air.e) :
    (transQ air P mainPolys auxPolys rands tco).degree
      < (air.n * numCompColumns (air.mainDegs ++ air.auxDegs) air.n air.e : ℕ) := by
  apply degree_list_sum_lt
  intro p hp
  have hc := (List.of_mem_zip hp).2
  obtain ⟨d, hd, hle⟩ := forall₂_exists_of_mem (List.rel_append hdeg.1 hdeg.2) p.2 hc
  apply degree_C_mul_lt
  have h1 := natDegree_divByMonic_le (transPoly_monic P.g (air.n - air.e)) hle
  rw [transPoly_natDegree] at h1
  exact lt_of_le_of_lt h1 (hcols d hd)

-- ============================================================================================
-- the composition polynomial of a valid trace
-- ============================================================================================

/-- `Q(X) = Σ_j α_j·T_j/Z_T + Σ_i β_i·(t_{col_i} − b_i)/Z_i` with polynomial quotients -/
noncomputable def compositionQ (air : Air F) (P : Prep F) (mainPolys auxPolys : ℕ → List F) (rands : ℕ → F)
    (tco bco : List F) : F[X] :=
  transQ air P mainPolys auxPolys rands tco + boundQ P.g air.n mainPolys (P.main.zip bco)
    + boundQ P.g air.n auxPolys (P.aux.zip (bco.drop P.main.length))

section
variable (root : ℕ → Option F)
local notation "O" => fieldOps F root

theorem compositionQ_eval {air : Air F} {P : Prep F} (hP : prep (O) air = some P) (hn : 0 < air.n)
    (he : air.e ≤ air.n) (hg : IsPrimitiveRoot P.g air.n) (hok : AssertOK root air P)
    {mainPolys auxPolys : ℕ → List F} {rands : ℕ → F}
    (hvalid : ValidTrace root air P mainPolys auxPolys rands) (tco bco : List F) (x : F) (hx : x ^ air.n ≠ 1) :
    defAt (O) air P mainPolys auxPolys rands tco bco x
      = some ((compositionQ air P mainPolys auxPolys rands tco bco).eval x) := by
  obtain ⟨hm, ha⟩ := valid_bc_roots root hP hn hg hok hvalid
  rw [defAt_eq]
  unfold compositionQ
  rw [eval_add, eval_add, transQ_eval root hn he hg hvalid tco x hx,
    boundQ_eval root hn hg _ (fun p hp => hm p.1 (List.of_mem_zip hp).1) x hx,
    boundQ_eval root hn hg _ (fun p hp => ha p.1 (List.of_mem_zip hp).1) x hx]
  rfl

theorem compositionQ_natDegree_lt {air : Air F} {P : Prep F} (hP : prep (O) air = some P) (hn : 0 < air.n)
    (hg : IsPrimitiveRoot P.g air.n) (hok : AssertOK root air P)
    {mainPolys auxPolys : ℕ → List F} {rands : ℕ → F}
    (hvalid : ValidTrace root air P mainPolys auxPolys rands)
    (hdeg : DeclaredDegreesOK air P mainPolys auxPolys rands) (tco bco : List F)
    (hcols : ∀ d ∈ air.mainDegs ++ air.auxDegs, d.evalDegree air.n - (air.n - air.e)
      < air.n * numCompColumns (air.mainDegs ++ air.auxDegs) air.n air.e) :
    (compositionQ air P mainPolys auxPolys rands tco bco).natDegree
      < air.n * numCompColumns (air.mainDegs ++ air.auxDegs) air.n air.e := by
  obtain ⟨hm, ha⟩ := valid_bc_roots root hP hn hg hok hvalid
  have hK := one_le_numCompColumns (air.mainDegs ++ air.auxDegs) air.n air.e
  have hle : air.n ≤ air.n * numCompColumns (air.mainDegs ++ air.auxDegs) air.n air.e :=
    Nat.le_mul_of_pos_right _ hK
  apply natDegree_lt_of_degree_lt (lt_of_lt_of_le hn hle)
  unfold compositionQ
  rw [← mem_degreeLT]
  refine Submodule.add_mem _ (Submodule.add_mem _ ?_ ?_) ?_
  · exact mem_degreeLT.mpr (transQ_degree_lt hdeg tco hcols)
  · exact mem_degreeLT.mpr (boundQ_degree_lt root hn hle hvalid.mainLen _
      (fun p hp => hm p.1 (List.of_mem_zip hp).1))
  · exact mem_degreeLT.mpr (boundQ_degree_lt root hn hle hvalid.auxLen _
      (fun p hp => ha p.1 (List.of_mem_zip hp).1))

end

end WinterProofs.C17L
