-- `DrawTotal`: for the instantiations whose digests are four CANONICAL 64-bit field elements (Rp64_256, RpJive64_256)
-- every `draw` of the public coin succeeds at its first PRNG call, whatever the hash values are:
-- `from_random_bytes` reads `8·deg` bytes of `Digest::as_bytes`, i.e. the little-endian bytes of `as_int` of the first
-- `deg` digest words, and `as_int` of ANY 64-bit word is below the modulus (C07 `as_int_spec`), so no candidate is
-- ever rejected.  The digest words are below 2^64 because the last operation of the Rescue permutation /
-- of the Jive compression is a field addition, which reduces modulo 2^64.  (For Rp62_248 the statement is false in
-- general: its digest packs 62-bit words, the first 8 bytes carry two bits of the second word and exceed the
-- modulus for three of four values of these bits - rejection sampling is real there, and 1000 consecutive
-- rejections cannot be excluded without an assumption on the hash values.)
import Winter.Model.RefVerifier
import WinterProofs.Lemmas.C07F64

namespace WinterProofs.RefVerifier
open Model Model.VerifierChecks Model.RefVerifier

/-- every `draw` of an element of extension degree 1..3 succeeds at the first PRNG call -/
def DrawTotal (J : Inst) : Prop :=
  ∀ (E : EOps), 1 ≤ E.deg → E.deg ≤ 3 → ∀ c : Coin.Coin Dg, c.counter + 1 < Coin.U64 →
    ∃ v, (coinOps J E).draw c = some (v, ⟨c.seed, c.counter + 1⟩)

def Lt64 (l : List Nat) : Prop := ∀ e ∈ l, e < 18446744073709551616

/-! ## bytes -/

theorem leBytes_length : ∀ (n v : Nat), (leBytes n v).length = n
  | 0, _ => rfl
  | n + 1, v => by simp [leBytes, leBytes_length n]

theorem leVal_leBytes : ∀ (n v : Nat), Coin.leVal (leBytes n v) = v % 256 ^ n
  | 0, v => by simp [leBytes, Coin.leVal, Nat.mod_one]
  | n + 1, v => by
    simp only [leBytes, Coin.leVal, leVal_leBytes n (v / 256)]
    rw [Nat.pow_succ, Nat.mul_comm (256 ^ n) 256, Nat.mod_mul]

theorem leVal_leBytes8 (v : Nat) (h : v < 18446744073709551616) : Coin.leVal (leBytes 8 v) = v := by
  rw [leVal_leBytes]
  exact Nat.mod_eq_of_lt (by simpa using h)

/-- reading `xs.length` coordinates off the concatenated 8-byte encodings of canonical values returns them -/
theorem readCoords_chunks (M : Nat) : ∀ (xs : List Nat) (rest : List Nat),
    (∀ x ∈ xs, x < M) → (∀ x ∈ xs, x < 18446744073709551616) →
    Coin.readCoords ⟨M, 8⟩ xs.length ((xs.map (leBytes 8)).flatten ++ rest) = some xs
  | [], _, _, _ => rfl
  | x :: xs, rest, hM, h64 => by
    have hx := hM x List.mem_cons_self
    have hx64 := h64 x List.mem_cons_self
    simp only [List.map_cons, List.flatten_cons, List.length_cons, Coin.readCoords, List.append_assoc]
    have ht : (leBytes 8 x ++ ((xs.map (leBytes 8)).flatten ++ rest)).take 8 = leBytes 8 x := by
      rw [List.take_append_of_le_length (by rw [leBytes_length]; exact Nat.le_refl 8)]
      exact List.take_of_length_le (by rw [leBytes_length]; exact Nat.le_refl 8)
    have hd : (leBytes 8 x ++ ((xs.map (leBytes 8)).flatten ++ rest)).drop 8 = (xs.map (leBytes 8)).flatten ++ rest := by
      rw [List.drop_append_of_le_length (by rw [leBytes_length]; exact Nat.le_refl 8)]
      rw [List.drop_of_length_le (by rw [leBytes_length]; exact Nat.le_refl 8)]
      rfl
    rw [ht, hd, leVal_leBytes8 x hx64, if_pos hx,
      readCoords_chunks M xs rest (fun y hy => hM y (List.mem_cons_of_mem _ hy)) (fun y hy => h64 y (List.mem_cons_of_mem _ hy))]

theorem flatten_chunks_length : ∀ (xs : List Nat), ((xs.map (leBytes 8)).flatten).length = 8 * xs.length
  | [] => rfl
  | x :: xs => by
    simp only [List.map_cons, List.flatten_cons, List.length_append, leBytes_length, List.length_cons,
      flatten_chunks_length xs]
    omega

/-- the first `8·k` bytes of the concatenated encodings are the encodings of the first `k` values -/
theorem take_chunks : ∀ (k : Nat) (xs : List Nat), k ≤ xs.length →
    ((xs.map (leBytes 8)).flatten).take (8 * k) = ((xs.take k).map (leBytes 8)).flatten
  | 0, xs, _ => by simp
  | k + 1, [], h => by simp at h
  | k + 1, x :: xs, h => by
    have hk : k ≤ xs.length := by simpa using h
    simp only [List.map_cons, List.flatten_cons, List.take_succ_cons]
    have : 8 * (k + 1) = 8 + 8 * k := by omega
    rw [this, List.take_append, leBytes_length]
    rw [List.take_of_length_le (by rw [leBytes_length]; omega)]
    have h2 : 8 + 8 * k - 8 = 8 * k := by omega
    rw [h2, take_chunks k xs hk]

/-- `from_random_bytes` never rejects the first `8·deg` bytes of a digest of four canonical values -/
theorem fromRandomBytes_digest (M : Nat) (ws : List Nat) (deg : Nat) (hdeg : deg ≤ ws.length)
    (hM : ∀ x ∈ ws, x < M) (h64 : ∀ x ∈ ws, x < 18446744073709551616) :
    Coin.fromRandomBytes ⟨M, 8⟩ deg (((ws.map (leBytes 8)).flatten).take (8 * deg)) = some (ws.take deg) := by
  unfold Coin.fromRandomBytes
  rw [take_chunks deg ws hdeg]
  have hl : (ws.take deg).length = deg := by simp [List.length_take]; omega
  rw [if_pos (by rw [flatten_chunks_length, hl])]
  have := readCoords_chunks M (ws.take deg) []
    (fun x hx => hM x (List.mem_of_mem_take hx)) (fun x hx => h64 x (List.mem_of_mem_take hx))
  rw [hl, List.append_nil] at this
  exact this

/-! ## the digests of the 64-bit Rescue hashers are four words below 2^64 -/

theorem add_lt (a b : Nat) : Gen.F64.add a b < 18446744073709551616 := by
  unfold Gen.F64.add
  exact Nat.mod_lt _ (by decide)

theorem zipWith_add_lt64 (a b : List Nat) : Lt64 (List.zipWith Gen.F64.add a b) := by
  intro e he
  induction a generalizing b with
  | nil => simp at he
  | cons x xs ih =>
    cases b with
    | nil => simp at he
    | cons y ys =>
      simp only [List.zipWith_cons_cons, List.mem_cons] at he
      rcases he with rfl | he
      · exact add_lt x y
      · exact ih ys he

theorem mds12_length (st : List Nat) (h : st.length = 12) : (Rescue.mds12 st).length = 12 := by
  match st, h with
  | [s0, s1, s2, s3, s4, s5, s6, s7, s8, s9, s10, s11], _ =>
    simp only [Rescue.mds12]
    rfl

theorem mds8_length (st : List Nat) (h : st.length = 8) : (Rescue.mds8 st).length = 8 := by
  match st, h with
  | [s0, s1, s2, s3, s4, s5, s6, s7], _ =>
    simp only [Rescue.mds8]
    rfl

/-- one round of Rp64_256 on twelve words gives twelve words below 2^64 (the last step adds the constants) -/
theorem round64 (st k1 k2 : List Nat) (hs : st.length = 12) (h1 : k1.length = 12) (h2 : k2.length = 12) :
    (Rescue.roundWith Rescue.rp64 st k1 k2).length = 12 ∧ Lt64 (Rescue.roundWith Rescue.rp64 st k1 k2) := by
  unfold Rescue.roundWith Rescue.addConstants
  simp only []
  have e1 : (Rescue.rp64.mds (List.map Rescue.rp64.sbox st)).length = 12 :=
    mds12_length _ (by simp [hs])
  have e2 : (List.zipWith Rescue.rp64.F.add (Rescue.rp64.mds (List.map Rescue.rp64.sbox st)) k1).length = 12 := by
    rw [List.length_zipWith, e1, h1]; rfl
  have e3 : (Rescue.rp64.mds (List.map Rescue.rp64.invSbox
      (List.zipWith Rescue.rp64.F.add (Rescue.rp64.mds (List.map Rescue.rp64.sbox st)) k1))).length = 12 :=
    mds12_length _ (by rw [List.length_map, e2])
  refine ⟨by rw [List.length_zipWith, e3, h2]; rfl, ?_⟩
  exact zipWith_add_lt64 _ _

theorem perm64_fold : ∀ (rs : List (List Nat × List Nat)) (st : List Nat),
    (∀ r ∈ rs, r.1.length = 12 ∧ r.2.length = 12) → st.length = 12 → (Lt64 st ∨ rs ≠ []) →
    (rs.foldl (fun st k => Rescue.roundWith Rescue.rp64 st k.1 k.2) st).length = 12 ∧
    Lt64 (rs.foldl (fun st k => Rescue.roundWith Rescue.rp64 st k.1 k.2) st)
  | [], st, _, hs, hl => by
    refine ⟨hs, ?_⟩
    rcases hl with h | h
    · exact h
    · exact absurd rfl h
  | r :: rs, st, hr, hs, _ => by
    obtain ⟨h1, h2⟩ := hr r List.mem_cons_self
    obtain ⟨hl, hb⟩ := round64 st r.1 r.2 hs h1 h2
    simp only [List.foldl_cons]
    exact perm64_fold rs _ (fun x hx => hr x (List.mem_cons_of_mem _ hx)) hl (Or.inl hb)

theorem ark64_ok : (Rescue.rp64.ark1.zip Rescue.rp64.ark2).all (fun r => r.1.length == 12 && r.2.length == 12) = true ∧
    (Rescue.rp64.ark1.zip Rescue.rp64.ark2).isEmpty = false := by
  constructor <;> decide +kernel

/-- `apply_permutation` of Rp64_256 on twelve words: twelve words below 2^64 -/
theorem perm64 (st : List Nat) (hs : st.length = 12) :
    (Rescue.applyPermutation Rescue.rp64 st).length = 12 ∧ Lt64 (Rescue.applyPermutation Rescue.rp64 st) := by
  unfold Rescue.applyPermutation
  refine perm64_fold _ st ?_ hs (Or.inr ?_)
  · intro r hr
    have := List.all_eq_true.mp ark64_ok.1 r hr
    simpa using this
  · intro h
    have := ark64_ok.2
    rw [h] at this
    simp at this

theorem foldl_seed_length (seed : List Nat) (off : Nat) : ∀ (ks : List Nat) (st : List Nat),
    (ks.foldl (fun st k => match seed[k]? with | some e => st.set (off + k) e | none => st) st).length = st.length
  | [], _ => rfl
  | k :: ks, st => by
    simp only [List.foldl_cons]
    rw [foldl_seed_length seed off ks]
    split <;> simp

theorem mergeIntState64_length (seed : List Nat) (v : Nat) : (Rescue.mergeIntState Rescue.rp64 seed v).length = 12 := by
  unfold Rescue.mergeIntState
  have hj : Rescue.rp64.jive = false := rfl
  simp only [hj, Bool.false_eq_true, if_false]
  have hz : (Rescue.zeroState Rescue.rp64).length = 12 := by
    unfold Rescue.zeroState; simp; rfl
  split <;> simp only [List.length_set] <;>
    exact (foldl_seed_length seed Rescue.rp64.rateStart (List.range 4) _).trans (by rw [List.length_set]; exact hz)

/-- a digest `merge_with_int` of Rp64_256 returns: four words below 2^64, whatever the seed -/
theorem mergeWithInt64 (seed : List Nat) (v : Nat) :
    (Rescue.mergeWithInt Rescue.rp64 seed v).length = 4 ∧ Lt64 (Rescue.mergeWithInt Rescue.rp64 seed v) := by
  unfold Rescue.mergeWithInt
  have hj : Rescue.rp64.jive = false := rfl
  simp only [hj, Bool.false_eq_true, if_false]
  obtain ⟨hl, hb⟩ := perm64 _ (mergeIntState64_length seed v)
  unfold Rescue.digestOf
  have hd : Rescue.rp64.digestStart = 4 := rfl
  rw [hd]
  refine ⟨by simp [List.length_take, List.length_drop, hl], ?_⟩
  intro e he
  exact hb e (List.mem_of_mem_drop (List.mem_of_mem_take he))

/-- the same for RpJive64_256: every word of the Jive compression is a field addition (or 0) -/
theorem mergeWithIntJive (seed : List Nat) (v : Nat) :
    (Rescue.mergeWithInt Rescue.rpjive seed v).length = 4 ∧ Lt64 (Rescue.mergeWithInt Rescue.rpjive seed v) := by
  unfold Rescue.mergeWithInt
  have hj : Rescue.rpjive.jive = true := rfl
  simp only [hj, if_true]
  unfold Rescue.jiveCompress
  simp only []
  refine ⟨by simp, ?_⟩
  intro e he
  simp only [List.mem_map] at he
  obtain ⟨i, _, rfl⟩ := he
  split
  · exact add_lt _ _
  · decide

/-! ## `DrawTotal` for the two instantiations over the 64-bit field -/

theorem as_int_lt (a : Nat) (ha : a < 18446744073709551616) : Gen.F64.as_int a < 18446744069414584321 :=
  (WinterProofs.F64L.as_int_spec a ha).1

theorem drawTotal_of_digests (J : Inst) (hI : J.I = F64.impl) (hB : J.asBytes = Rescue.digestBytes64)
    (hD : ∀ seed v, (Rescue.mergeWithInt J.P seed v).length = 4 ∧ Lt64 (Rescue.mergeWithInt J.P seed v)) :
    DrawTotal J := by
  intro E h1 h3 c hc
  obtain ⟨hl, hb⟩ := hD c.seed (c.counter + 1)
  have hM : fieldDesc J = ⟨18446744069414584321, 8⟩ := by
    unfold fieldDesc; rw [hI]; rfl
  simp only [coinOps]
  unfold Coin.draw
  rw [hM]
  have hnb : ¬ (Coin.DIGEST_BYTES < (⟨18446744069414584321, 8⟩ : Coin.FieldDesc).bytes * E.deg) := by
    show ¬ (32 < 8 * E.deg); omega
  rw [if_neg hnb]
  have hmax : Coin.MAX_TRIES = 999 + 1 := rfl
  rw [hmax]
  unfold Coin.drawLoop
  have hnext : Coin.next (hashOps J) c = some ((hashOps J).mergeWithInt c.seed (c.counter + 1), ⟨c.seed, c.counter + 1⟩) := by
    unfold Coin.next; rw [if_pos hc]
  rw [hnext]
  simp only []
  have hbytes : (hashOps J).asBytes ((hashOps J).mergeWithInt c.seed (c.counter + 1))
      = (((Rescue.mergeWithInt J.P c.seed (c.counter + 1)).map Gen.F64.as_int).map (leBytes 8)).flatten := by
    simp only [hashOps, hB, Rescue.digestBytes64, List.map_map]
    rfl
  have hfr := fromRandomBytes_digest 18446744069414584321
    ((Rescue.mergeWithInt J.P c.seed (c.counter + 1)).map Gen.F64.as_int) E.deg
    (by simp [hl]; omega)
    (by
      intro x hx
      simp only [List.mem_map] at hx
      obtain ⟨w, hw, rfl⟩ := hx
      exact as_int_lt w (hb w hw))
    (by
      intro x hx
      simp only [List.mem_map] at hx
      obtain ⟨w, hw, rfl⟩ := hx
      exact Nat.lt_trans (as_int_lt w (hb w hw)) (by decide))
  show ∃ v, (match
      (match Coin.fromRandomBytes ⟨18446744069414584321, 8⟩ E.deg
          (((hashOps J).asBytes ((hashOps J).mergeWithInt c.seed (c.counter + 1))).take (8 * E.deg)) with
        | some e => (Coin.Out.elem e, (⟨c.seed, c.counter + 1⟩ : Coin.Coin Dg))
        | none => Coin.drawLoop (hashOps J) ⟨18446744069414584321, 8⟩ E.deg 999 ⟨c.seed, c.counter + 1⟩) with
      | (.elem cs, c') => some (cs.map (fun c => J.norm (J.I.new c)), c')
      | _ => none) = some (v, ⟨c.seed, c.counter + 1⟩)
  rw [hbytes, hfr]
  exact ⟨_, rfl⟩

theorem drawTotal_rp64 : DrawTotal Inst.rp64 := drawTotal_of_digests _ rfl rfl mergeWithInt64

theorem drawTotal_rpjive : DrawTotal Inst.rpjive := drawTotal_of_digests _ rfl rfl mergeWithIntJive

/-! ## consequences for sequences of draws -/

theorem drawMany_total (J : Inst) (hD : DrawTotal J) (E : EOps) (h1 : 1 ≤ E.deg) (h3 : E.deg ≤ 3) :
    ∀ (n : Nat) (c : Coin.Coin Dg), c.counter + n < Coin.U64 →
      ∃ vs, drawMany (coinOps J E) n c = some (vs, ⟨c.seed, c.counter + n⟩)
  | 0, c, _ => ⟨[], rfl⟩
  | n + 1, c, h => by
    obtain ⟨v, hv⟩ := hD E h1 h3 c (by omega)
    obtain ⟨vs, hvs⟩ := drawMany_total J hD E h1 h3 n ⟨c.seed, c.counter + 1⟩ (by show c.counter + 1 + n < _; omega)
    refine ⟨v :: vs, ?_⟩
    simp only [drawMany, hv, hvs]
    congr 3
    omega

end WinterProofs.RefVerifier
