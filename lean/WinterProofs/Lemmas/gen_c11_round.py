#!/usr/bin/env python3
"""Authoring aid (not run by ./check): writes WinterProofs/Lemmas/C11Round12.lean and C11Round8.lean:
under the (unproved, correspondence-covered) plumbing statement `mm_eq_tail_statement`, the MDS step and
one full round of the 64-bit Rescue instances on raw words denote the reference round on residues."""
import re, os
L = os.path.dirname(os.path.dirname(os.path.dirname(os.path.abspath(__file__))))

def gen(mod, rp, inst, mdsfn, N):
    s = open(f'{L}/Winter/Gen/{rp}.lean').read()
    mds = eval(re.search(r'def MDS : List \(List Nat\) := (\[\[.*?\]\])', s).group(1))
    R = range(N)
    mds_lit = '[' + ', '.join('[' + ', '.join(str(c) for c in r) + ']' for r in mds) + ']'
    xs = ' '.join(f'x{i}' for i in R)
    xl = ', '.join(f'x{i}' for i in R)
    lin = lambda row, vs: ' + '.join(f'{c} * {v}' for c, v in zip(row, vs))
    lo = [f'(x{i} % 4294967296)' for i in R]
    hi = [f'(x{i} / 4294967296)' for i in R]
    xv = [f'x{i}' for i in R]
    xh = ' '.join(f'(hx{i} : x{i} < 18446744073709551616)' for i in R)
    hl = '\n'.join(f'  have hh{i} : x{i} / 4294967296 < 4294967296 := by omega\n  have hl{i} : x{i} % 4294967296 < 4294967296 := by omega' for i in R)
    us = ' '.join('_' for _ in R)
    hhs = ' '.join(f'hh{i}' for i in R)
    hls = ' '.join(f'hl{i}' for i in R)
    T = [f'tailRed ({lin(mds[i], lo)}) ({lin(mds[i], hi)})' for i in R]
    facts = '\n'.join(
        f'  have f{i} := tail_cast ({lin(mds[i], lo)}) ({lin(mds[i], hi)}) ({lin(mds[i], xv)}) (by omega) (by omega) (by omega)' for i in R)
    ys = ' '.join(f'y{i}' for i in R)
    yl = ', '.join(f'y{i}' for i in R)
    dots = lambda vs: [' + '.join(f'({c} : ZMod P) * {v}' for c, v in zip(mds[i], vs)) for i in R]
    dx = dots([f'val x{i}' for i in R])
    spec = ' ∧\n      '.join(f'(y{i} < 18446744073709551616 ∧ val y{i} = {dx[i]})' for i in R)
    wit = ', '.join(f'({t})' for t in T)
    comps = ',\n      '.join(f'⟨f{i}.1, by unfold val; rw [f{i}.2]; push_cast; ring⟩' for i in R)
    # round
    ks = lambda n: ' '.join(f'{n}{i}' for i in R)
    kl = lambda n: ', '.join(f'{n}{i}' for i in R)
    kh = lambda n: ' '.join(f'(h{n}{i} : {n}{i} ≤ 18446744065119617025)' for i in R)
    xinv = ' '.join(f'(hx{i} : Inv x{i})' for i in R)
    out = f'''-- C11 helper lemmas ({inst}): under the plumbing statement `{mod}.mm_eq_tail_statement` (NOT proved in
-- Lean, covered by the correspondence harness) the MDS step and one full round on raw words denote
-- the reference round on residues.  Written by gen_c11_round.py; checked by Lean.
import Winter.Model.Rescue
import WinterProofs.Lemmas.C07F64Z
import WinterProofs.Lemmas.C11{mod}
import WinterProofs.Lemmas.C11RoundCommon
import WinterProofs.Lemmas.C11Sbox
set_option linter.unusedSimpArgs false
set_option linter.unusedVariables false
set_option maxRecDepth 100000

namespace WinterProofs.C11.Round{N}
open Gen Model Model.Rescue WinterProofs.F64Z WinterProofs.C11 WinterProofs.C11.RoundCommon

/-- `apply_mds` on ANY 64-bit raw words: 64-bit words whose residues are the matrix-vector product -/
theorem mds_spec (hglue : WinterProofs.C11.{mod}.mm_eq_tail_statement) ({xs} : Nat) {xh} :
    ∃ {ys} : Nat, {mdsfn} [{xl}] = [{yl}] ∧
      {spec} := by
{hl}
  have hg := hglue {xs}
  rw [WinterProofs.C11.{mod}.freq_eq_tuple {us} {hhs}, WinterProofs.C11.{mod}.freq_eq_tuple {us} {hls}] at hg
  dsimp only at hg
{facts}
  refine ⟨{wit}, ?_,
      {comps}⟩
  simp only [{mdsfn}, hg]

/-- the reference round on residues: S-box, MDS, constants, inverse S-box, MDS, constants -/
noncomputable def refRound (v k1 k2 : List (ZMod P)) : List (ZMod P) :=
  let v := v.map (· ^ Gen.{rp}.ALPHA)
  let v := List.zipWith (· + ·) (matVecZ Gen.{rp}.MDS v) k1
  let v := v.map (· ^ Gen.{rp}.INV_ALPHA)
  List.zipWith (· + ·) (matVecZ Gen.{rp}.MDS v) k2

theorem refRound_eq (v k1 k2 : List (ZMod P)) :
    refRound v k1 k2 =
      List.zipWith (· + ·) (matVecZ Gen.{rp}.MDS
        ((List.zipWith (· + ·) (matVecZ Gen.{rp}.MDS (v.map (· ^ Gen.{rp}.ALPHA))) k1).map (· ^ Gen.{rp}.INV_ALPHA))) k2 := by
  rw [refRound]

theorem mds_table_eq : Gen.{rp}.MDS = {mds_lit} := by decide

/-- one round on valid raw words, with round constants whose raw words are `<= p - 2^32`: the
    result consists of valid raw words and denotes the reference round -/
theorem round_spec (hglue : WinterProofs.C11.{mod}.mm_eq_tail_statement)
    ({xs} {ks('a')} {ks('b')} : Nat) {xinv}
    {kh('a')}
    {kh('b')} :
    (∀ e ∈ roundWith {inst} [{xl}] [{kl('a')}] [{kl('b')}], Inv e) ∧
    (roundWith {inst} [{xl}] [{kl('a')}] [{kl('b')}]).map val
      = refRound ([{xl}].map val) ([{kl('a')}].map val) ([{kl('b')}].map val) := by
  have ps : {inst}.sbox = Gen.F64.exp7 := rfl
  have pi : {inst}.invSbox = Model.Rescue.F64.invSbox := rfl
  have pm : {inst}.mds = {mdsfn} := rfl
  have pa : {inst}.F.add = Gen.F64.add := rfl
  have hA : Gen.{rp}.ALPHA = 7 := by decide
  have hI : Gen.{rp}.INV_ALPHA = Gen.Rp64.INV_ALPHA := by decide
''' + '\n'.join(f'  have s{i} := Sbox.F64.exp7_pow x{i} hx{i}' for i in R) + f'''
  obtain ⟨{', '.join(f'y{i}' for i in R)}, hy, {', '.join(f'⟨by{i}, vy{i}⟩' for i in R)}⟩ :=
    mds_spec hglue {' '.join(f'(Gen.F64.exp7 x{i})' for i in R)} {' '.join(f'(Nat.lt_trans s{i}.1 (by decide))' for i in R)}
''' + '\n'.join(f'  have c{i} := add_any y{i} a{i} by{i} ha{i}' for i in R) + '\n' + '\n'.join(f'  have t{i} := Sbox.F64.invSbox_pow (Gen.F64.add y{i} a{i}) c{i}.1' for i in R) + f'''
  obtain ⟨{', '.join(f'z{i}' for i in R)}, hz, {', '.join(f'⟨bz{i}, vz{i}⟩' for i in R)}⟩ :=
    mds_spec hglue {' '.join(f'(Model.Rescue.F64.invSbox (Gen.F64.add y{i} a{i}))' for i in R)} {' '.join(f'(Nat.lt_trans t{i}.1 (by decide))' for i in R)}
''' + '\n'.join(f'  have d{i} := add_any z{i} b{i} bz{i} hb{i}' for i in R) + f'''
  have hr : roundWith {inst} [{xl}] [{kl('a')}] [{kl('b')}]
      = [{', '.join(f'Gen.F64.add z{i} b{i}' for i in R)}] := by
    simp only [roundWith, addConstants, ps, pi, pm, pa, List.map_cons, List.map_nil, hy, List.zipWith_cons_cons,
      List.zipWith_nil_left, hz]
  rw [hr]
  constructor
  · intro e he
    simp only [List.mem_cons, List.not_mem_nil, or_false] at he
    rcases he with {' | '.join('rfl' for _ in R)}
''' + '\n'.join(f'    · exact d{i}.1' for i in R) + f'''
  · simp only [refRound_eq, matVecZ_eq, dotZ_eq, mds_table_eq, map_cons', map_nil', zipWith_cons',
      zipWith_nil', sum_cons', sum_nil', add_zero,
      hA, hI, Nat.cast_ofNat, add_assoc,
      {', '.join(f'd{i}.2' for i in R)},
      {', '.join(f'vz{i}' for i in R)},
      {', '.join(f't{i}.2' for i in R)},
      {', '.join(f'c{i}.2' for i in R)},
      {', '.join(f'vy{i}' for i in R)},
      {', '.join(f's{i}.2' for i in R)}]

end WinterProofs.C11.Round{N}
'''
    open(f'{L}/WinterProofs/Lemmas/C11Round{N}.lean', 'w').write(out)

gen('Mds12', 'Rp64', 'rp64', 'mds12', 12)
gen('Mds8', 'Rp64Jive', 'rpjive', 'mds8', 8)
