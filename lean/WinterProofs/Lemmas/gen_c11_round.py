#!/usr/bin/env python3
"""Authoring aid (not run by ./check): writes WinterProofs/Lemmas/C11Round12.lean and C11Round8.lean:
the MDS step and
one full round of the 64-bit Rescue instances on raw words denote the reference round on residues."""
import re, os
L = os.path.dirname(os.path.dirname(os.path.dirname(os.path.abspath(__file__))))


TAIL = r"""
/-! ### the permutation -/

theorem explicit{N} (l : List Nat) (h : l.length = {N}) : ∃ {xs} : Nat, l = [{xl}] := by
{cases}
  · exact ⟨{exs}, rfl⟩
  · simp at h

theorem mds_len (l : List Nat) (h : l.length = {N}) : ({mdsfn} l).length = {N} := by
  obtain ⟨{xlc}, rfl⟩ := explicit{N} l h
  show (match Gen.{mod}.mds_multiply {xs} with
    | ({rl}) => [{rl}]).length = {N}
  generalize Gen.{mod}.mds_multiply {xs} = t
  obtain ⟨{rlc}⟩ := t
  rfl

/-- the round on lists of the right length -/
theorem round_list (st k1 k2 : List Nat)
    (hl : st.length = {N}) (hl1 : k1.length = {N}) (hl2 : k2.length = {N}) (hs : AllInv S64 st)
    (h1 : ∀ k ∈ k1, k ≤ 18446744065119617025) (h2 : ∀ k ∈ k2, k ≤ 18446744065119617025) :
    (roundWith {inst} st k1 k2).length = {N} ∧ AllInv S64 (roundWith {inst} st k1 k2) ∧
    (roundWith {inst} st k1 k2).map val = refRound (st.map val) (k1.map val) (k2.map val) := by
  have hlen : (roundWith {inst} st k1 k2).length = {N} := by
    have e : roundWith {inst} st k1 k2 = List.zipWith Gen.F64.add
        ({mdsfn} ((List.zipWith Gen.F64.add ({mdsfn} (st.map Gen.F64.exp7)) k1).map Model.Rescue.F64.invSbox)) k2 := rfl
    rw [e, List.length_zipWith, mds_len _ (by rw [List.length_map, List.length_zipWith, mds_len _ (by rw [List.length_map, hl]), hl1]; exact Nat.min_self {N}), hl2]
    exact Nat.min_self {N}
  obtain ⟨{xlc}, rfl⟩ := explicit{N} st hl
  obtain ⟨{alc}, rfl⟩ := explicit{N} k1 hl1
  obtain ⟨{blc}, rfl⟩ := explicit{N} k2 hl2
  have r := round_spec {xs} {as_} {bs_}
    {hsx}
    {h1a}
    {h2b}
  exact ⟨hlen, r.1, r.2⟩

def rowsLen (t : List (List Nat)) : Bool := t.all fun r => decide (r.length = {N})

theorem ark_rows_len : rowsLen Gen.{rp}.ARK1 = true ∧ rowsLen Gen.{rp}.ARK2 = true := by
  constructor <;> decide +kernel

def GoodK (k1 k2 : List Nat) : Prop :=
  k1.length = {N} ∧ k2.length = {N} ∧ (∀ k ∈ k1, k ≤ 18446744065119617025) ∧ (∀ k ∈ k2, k ≤ 18446744065119617025)

theorem row_good {{t : List (List Nat)}} (hs : Misc.arkSmall t = true) (hl : rowsLen t = true) {{r : List Nat}} (hr : r ∈ t) :
    (r.map Gen.F64.new).length = {N} ∧ ∀ k ∈ r.map Gen.F64.new, k ≤ 18446744065119617025 := by
  constructor
  · rw [List.length_map]
    have := (List.all_eq_true.mp hl) r hr
    simpa using this
  · intro k hk
    obtain ⟨c, hc, rfl⟩ := List.mem_map.mp hk
    have := (List.all_eq_true.mp ((List.all_eq_true.mp hs) r hr)) c hc
    simpa using this

theorem ark_good : ∀ k ∈ List.zip {inst}.ark1 {inst}.ark2, GoodK k.1 k.2 := by
  rintro ⟨ka, kb⟩ hk
  obtain ⟨h1, h2⟩ := List.of_mem_zip hk
  have e1 : {inst}.ark1 = Gen.{rp}.ARK1.map (fun r => r.map Gen.F64.new) := rfl
  have e2 : {inst}.ark2 = Gen.{rp}.ARK2.map (fun r => r.map Gen.F64.new) := rfl
  rw [e1] at h1
  rw [e2] at h2
  obtain ⟨r1, hr1, q1⟩ := List.mem_map.mp h1
  obtain ⟨r2, hr2, q2⟩ := List.mem_map.mp h2
  rw [← q1, ← q2]
  have g1 := row_good Misc.{small}.1 ark_rows_len.1 hr1
  have g2 := row_good Misc.{small}.2 ark_rows_len.2 hr2
  exact ⟨g1.1, g2.1, g1.2, g2.2⟩

/-- the reference permutation: the reference rounds with the constants of the tables, as residues -/
noncomputable def refPerm (v : List (ZMod P)) : List (ZMod P) :=
  (List.zip {inst}.ark1 {inst}.ark2).foldl (fun v k => refRound v (k.1.map val) (k.2.map val)) v

/-- `apply_permutation` on valid raw words denotes the reference permutation -/
theorem perm_sem (st : List Nat) (hl : st.length = {N})
    (hs : AllInv S64 st) :
    (applyPermutation {inst} st).length = {N} ∧ AllInv S64 (applyPermutation {inst} st) ∧
    (applyPermutation {inst} st).map val = refPerm (st.map val) :=
  fold_sem S64 {inst} {N} GoodK refRound
    (fun st k1 k2 hl hi hg => round_list st k1 k2 hl hg.1 hg.2.1 hi hg.2.2.1 hg.2.2.2)
    (List.zip {inst}.ark1 {inst}.ark2) st ark_good hl hs

/-- the permutation as the sponge sees it -/
noncomputable def perm : PermSem {inst} P where
  S := S64
  refPerm := refPerm
  perm_ok := fun st hl hs => perm_sem st hl hs

end WinterProofs.C11.Round{N}
"""

def mk_tail(mod, rp, inst, mdsfn, N):
    R = range(N)
    cases = ''
    ind = '  '
    for i in R:
        cases += f"{ind}rcases l with _ | ⟨x{i}, l⟩\n{ind}· simp at h\n"
    cases += f"{ind}rcases l with _ | ⟨y, l⟩"
    d = dict(N=N, mod=mod, rp=rp, inst=inst, mdsfn=mdsfn,
        xs=' '.join(f'x{i}' for i in R), xl=', '.join(f'x{i}' for i in R), exs=', '.join(f'x{i}' for i in R),
        cases=cases,
        xlc=', '.join(f'x{i}' for i in R), alc=', '.join(f'a{i}' for i in R), blc=', '.join(f'b{i}' for i in R),
        as_=' '.join(f'a{i}' for i in R), bs_=' '.join(f'b{i}' for i in R),
        hsx=' '.join(f'(hs x{i} (by simp))' for i in R),
        h1a=' '.join(f'(h1 a{i} (by simp))' for i in R),
        h2b=' '.join(f'(h2 b{i} (by simp))' for i in R),
        rl=', '.join(f'r{i}' for i in R), rlc=', '.join(f'r{i}' for i in R),
        small='rp64_ark_small' if inst == 'rp64' else 'jive_ark_small')
    t = TAIL
    for k, v in d.items():
        t = t.replace('{' + k + '}', str(v))
    return t.replace('{{', '{').replace('}}', '}')

def gen(mod, rp, inst, mdsfn, N):
    tail_txt = mk_tail(mod, rp, inst, mdsfn, N)
    s = open(f'{L}/Winter/Gen/{rp}.lean').read()
    mds = eval(re.search(r'def MDS : List \(List Nat\) := (\[\[.*?\]\])', s).group(1))
    R = range(N)
    mds_lit = '[' + ', '.join('[' + ', '.join(str(c) for c in r) + ']' for r in mds) + ']'
    xs = ' '.join(f'x{i}' for i in R)
    xl = ', '.join(f'x{i}' for i in R)
    lin = lambda row, vs: ' + '.join(f'{c} * {v}' for c, v in zip(row, vs))
    lo = [f'(x{i} % 4294967296)' for i in R]
    hi = [f'(x{i} / 4294967296)' for i in R]
    xv = [f'x{i}' for i in R]
    xh = ' '.join(f'(hx{i} : x{i} < 18446744073709551616)' for i in R)
    hl = '\n'.join(f'  have hh{i} : x{i} / 4294967296 < 4294967296 := by omega\n  have hl{i} : x{i} % 4294967296 < 4294967296 := by omega' for i in R)
    us = ' '.join('_' for _ in R)
    hhs = ' '.join(f'hh{i}' for i in R)
    hls = ' '.join(f'hl{i}' for i in R)
    T = [f'tailRed ({lin(mds[i], lo)}) ({lin(mds[i], hi)})' for i in R]
    facts = '\n'.join(
        f'  have f{i} := tail_cast ({lin(mds[i], lo)}) ({lin(mds[i], hi)}) ({lin(mds[i], xv)}) (by omega) (by omega) (by omega)' for i in R)
    ys = ' '.join(f'y{i}' for i in R)
    yl = ', '.join(f'y{i}' for i in R)
    dots = lambda vs: [' + '.join(f'({c} : ZMod P) * {v}' for c, v in zip(mds[i], vs)) for i in R]
    dx = dots([f'val x{i}' for i in R])
    spec = ' ∧\n      '.join(f'(y{i} < 18446744073709551616 ∧ val y{i} = {dx[i]})' for i in R)
    wit = ', '.join(f'({t})' for t in T)
    comps = ',\n      '.join(f'⟨f{i}.1, by unfold val; rw [f{i}.2]; push_cast; ring⟩' for i in R)
    # round
    ks = lambda n: ' '.join(f'{n}{i}' for i in R)
    kl = lambda n: ', '.join(f'{n}{i}' for i in R)
    kh = lambda n: ' '.join(f'(h{n}{i} : {n}{i} ≤ 18446744065119617025)' for i in R)
    xinv = ' '.join(f'(hx{i} : Inv x{i})' for i in R)
    out = f'''-- C11 helper lemmas ({inst}): the MDS step (through `{mod}.mm_eq_tail`) and one full round on raw words denote
-- the reference round on residues.  Written by gen_c11_round.py; checked by Lean.
import Winter.Model.Rescue
import WinterProofs.Lemmas.C07F64Z
import WinterProofs.Lemmas.C11{mod}
import WinterProofs.Lemmas.C11RoundCommon
import WinterProofs.Lemmas.C11Sbox
import WinterProofs.Lemmas.C11Sem
set_option linter.unusedSimpArgs false
set_option linter.unusedVariables false
set_option maxRecDepth 100000

namespace WinterProofs.C11.Round{N}
open Gen Model Model.Rescue WinterProofs.F64Z WinterProofs.C11 WinterProofs.C11.RoundCommon WinterProofs.C11.Sem

/-- `apply_mds` on ANY 64-bit raw words: 64-bit words whose residues are the matrix-vector product -/
theorem mds_spec ({xs} : Nat) {xh} :
    ∃ {ys} : Nat, {mdsfn} [{xl}] = [{yl}] ∧
      {spec} := by
{hl}
  have hg := WinterProofs.C11.{mod}.mm_eq_tail {xs}
  rw [WinterProofs.C11.{mod}.freq_eq_tuple {us} {hhs}, WinterProofs.C11.{mod}.freq_eq_tuple {us} {hls}] at hg
  dsimp only at hg
{facts}
  refine ⟨{wit}, ?_,
      {comps}⟩
  simp only [{mdsfn}, hg]

/-- the reference round on residues: S-box, MDS, constants, inverse S-box, MDS, constants -/
noncomputable def refRound (v k1 k2 : List (ZMod P)) : List (ZMod P) :=
  let v := v.map (· ^ Gen.{rp}.ALPHA)
  let v := List.zipWith (· + ·) (matVecZ Gen.{rp}.MDS v) k1
  let v := v.map (· ^ Gen.{rp}.INV_ALPHA)
  List.zipWith (· + ·) (matVecZ Gen.{rp}.MDS v) k2

theorem refRound_eq (v k1 k2 : List (ZMod P)) :
    refRound v k1 k2 =
      List.zipWith (· + ·) (matVecZ Gen.{rp}.MDS
        ((List.zipWith (· + ·) (matVecZ Gen.{rp}.MDS (v.map (· ^ Gen.{rp}.ALPHA))) k1).map (· ^ Gen.{rp}.INV_ALPHA))) k2 := by
  rw [refRound]

theorem mds_table_eq : Gen.{rp}.MDS = {mds_lit} := by decide

/-- one round on valid raw words, with round constants whose raw words are `<= p - 2^32`: the
    result consists of valid raw words and denotes the reference round -/
theorem round_spec ({xs} {ks('a')} {ks('b')} : Nat) {xinv}
    {kh('a')}
    {kh('b')} :
    (∀ e ∈ roundWith {inst} [{xl}] [{kl('a')}] [{kl('b')}], Inv e) ∧
    (roundWith {inst} [{xl}] [{kl('a')}] [{kl('b')}]).map val
      = refRound ([{xl}].map val) ([{kl('a')}].map val) ([{kl('b')}].map val) := by
  have ps : {inst}.sbox = Gen.F64.exp7 := rfl
  have pi : {inst}.invSbox = Model.Rescue.F64.invSbox := rfl
  have pm : {inst}.mds = {mdsfn} := rfl
  have pa : {inst}.F.add = Gen.F64.add := rfl
  have hA : Gen.{rp}.ALPHA = 7 := by decide
  have hI : Gen.{rp}.INV_ALPHA = Gen.Rp64.INV_ALPHA := by decide
''' + '\n'.join(f'  have s{i} := Sbox.F64.exp7_pow x{i} hx{i}' for i in R) + f'''
  obtain ⟨{', '.join(f'y{i}' for i in R)}, hy, {', '.join(f'⟨by{i}, vy{i}⟩' for i in R)}⟩ :=
    mds_spec {' '.join(f'(Gen.F64.exp7 x{i})' for i in R)} {' '.join(f'(Nat.lt_trans s{i}.1 (by decide))' for i in R)}
''' + '\n'.join(f'  have c{i} := add_any y{i} a{i} by{i} ha{i}' for i in R) + '\n' + '\n'.join(f'  have t{i} := Sbox.F64.invSbox_pow (Gen.F64.add y{i} a{i}) c{i}.1' for i in R) + f'''
  obtain ⟨{', '.join(f'z{i}' for i in R)}, hz, {', '.join(f'⟨bz{i}, vz{i}⟩' for i in R)}⟩ :=
    mds_spec {' '.join(f'(Model.Rescue.F64.invSbox (Gen.F64.add y{i} a{i}))' for i in R)} {' '.join(f'(Nat.lt_trans t{i}.1 (by decide))' for i in R)}
''' + '\n'.join(f'  have d{i} := add_any z{i} b{i} bz{i} hb{i}' for i in R) + f'''
  have hr : roundWith {inst} [{xl}] [{kl('a')}] [{kl('b')}]
      = [{', '.join(f'Gen.F64.add z{i} b{i}' for i in R)}] := by
    simp only [roundWith, addConstants, ps, pi, pm, pa, List.map_cons, List.map_nil, hy, List.zipWith_cons_cons,
      List.zipWith_nil_left, hz]
  rw [hr]
  constructor
  · intro e he
    simp only [List.mem_cons, List.not_mem_nil, or_false] at he
    rcases he with {' | '.join('rfl' for _ in R)}
''' + '\n'.join(f'    · exact d{i}.1' for i in R) + f'''
  · simp only [refRound_eq, matVecZ_eq, dotZ_eq, mds_table_eq, map_cons', map_nil', zipWith_cons',
      zipWith_nil', sum_cons', sum_nil', add_zero,
      hA, hI, Nat.cast_ofNat, add_assoc,
      {', '.join(f'd{i}.2' for i in R)},
      {', '.join(f'vz{i}' for i in R)},
      {', '.join(f't{i}.2' for i in R)},
      {', '.join(f'c{i}.2' for i in R)},
      {', '.join(f'vy{i}' for i in R)},
      {', '.join(f's{i}.2' for i in R)}]

TAILPLACEHOLDER'''
    out = out.replace('TAILPLACEHOLDER', tail_txt)
    open(f'{L}/WinterProofs/Lemmas/C11Round{N}.lean', 'w').write(out)

gen('Mds12', 'Rp64', 'rp64', 'mds12', 12)
gen('Mds8', 'Rp64Jive', 'rpjive', 'mds8', 8)
