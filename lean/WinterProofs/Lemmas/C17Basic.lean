-- C17, basic lemmas: Horner evaluation of concatenated coefficient lists, the column split, the OOD
-- recombination as a sum, and the integer arithmetic of `TransitionConstraintDegree`.
import WinterProofs.Lemmas.C16Interp
import Winter.Model.Composition

namespace WinterProofs.C17L
open Model.Divisor Model.Composition WinterProofs.C16L

variable {F : Type} [Field F]

-- ------------------------------------------------------------------ Horner evaluation
theorem polyEval_nil (root : ℕ → Option F) (x : F) : polyEval (fieldOps F root) [] x = 0 := rfl

theorem polyEval_cons (root : ℕ → Option F) (c : F) (p : List F) (x : F) :
    polyEval (fieldOps F root) (c :: p) x = c + x * polyEval (fieldOps F root) p x := by
  show polyEval (fieldOps F root) p x * x + c = _
  ring

theorem polyEval_append (root : ℕ → Option F) (a b : List F) (x : F) :
    polyEval (fieldOps F root) (a ++ b) x =
      polyEval (fieldOps F root) a x + x ^ a.length * polyEval (fieldOps F root) b x := by
  induction a with
  | nil => simp [polyEval, fieldOps]
  | cons c a ih =>
    rw [List.cons_append, polyEval_cons, ih, polyEval_cons, List.length_cons, pow_succ]
    ring

theorem polyEval_take_drop (root : ℕ → Option F) (l : List F) (n : ℕ) (x : F) :
    polyEval (fieldOps F root) l x =
      polyEval (fieldOps F root) (l.take n) x + x ^ n * polyEval (fieldOps F root) (l.drop n) x := by
  by_cases h : n ≤ l.length
  · conv_lhs => rw [← List.take_append_drop n l]
    rw [polyEval_append, List.length_take, Nat.min_eq_left h]
  · have h' : l.length ≤ n := by omega
    rw [List.take_of_length_le h', List.drop_of_length_le h', polyEval_nil, mul_zero, add_zero]

/-- the polynomial of a coefficient list does not depend on the `Ops` record's root family -/
theorem polyEval_root_irrel (r1 r2 : ℕ → Option F) (p : List F) (x : F) :
    polyEval (fieldOps F r1) p x = polyEval (fieldOps F r2) p x := rfl

-- ------------------------------------------------------------------ recombination, column split
theorem recombine_eq_sum (root : ℕ → Option F) (n : ℕ) (z : F) (vals : List F) :
    recombine (fieldOps F root) n z vals = ∑ i ∈ Finset.range vals.length, z ^ (i * n) * vals.getD i 0 := by
  have := foldl_zipIdx_add (fun v i => z ^ (i * n) * v) vals 0 0
  simpa [recombine, fieldOps] using this

theorem chunks_length {α : Type} (n k : ℕ) (c : List α) : (chunks n k c).length = k := by
  induction k generalizing c with
  | zero => rfl
  | succ k ih => simp [chunks, ih]

theorem column_split_sum (root : ℕ → Option F) (n k : ℕ) (c : List F) (z : F) :
    ∑ i ∈ Finset.range k, z ^ (i * n) * ((chunks n k c).map (fun p => polyEval (fieldOps F root) p z)).getD i 0
      = polyEval (fieldOps F root) (c.take (n * k)) z := by
  induction k generalizing c with
  | zero => simp [polyEval_nil]
  | succ k ih =>
    rw [Finset.sum_range_succ']
    simp only [chunks, List.map_cons, List.getD_cons_succ, List.getD_cons_zero, Nat.zero_mul, pow_zero, one_mul]
    have h1 : ∀ i, z ^ ((i + 1) * n) = z ^ n * z ^ (i * n) := fun i => by rw [← pow_add]; congr 1; ring
    simp only [h1, mul_assoc]
    rw [← Finset.mul_sum, ih (c.drop n)]
    rw [polyEval_take_drop root (c.take (n * (k + 1))) n z]
    have e1 : (c.take (n * (k + 1))).take n = c.take n := by
      rw [List.take_take]; congr 1; exact Nat.min_eq_left (Nat.le_mul_of_pos_right n (Nat.succ_pos k))
    have e2 : (c.take (n * (k + 1))).drop n = (c.drop n).take (n * k) := by
      rw [List.drop_take]; congr 1; rw [Nat.mul_succ]; omega
    rw [e1, e2]; ring

-- ------------------------------------------------------------------ degree arithmetic
theorem foldl_evalDegree (cs : List ℕ) (n a : ℕ) :
    cs.foldl (fun r c => r + (n / c) * (c - 1)) a = a + (cs.map (fun c => (n / c) * (c - 1))).sum := by
  induction cs generalizing a with
  | nil => simp
  | cons c cs ih => simp [ih, Nat.add_assoc]

/-- a periodic factor of cycle length `c` contributes at most `n - 1` to the degree -/
theorem cycle_term_le (n c : ℕ) (hn : 1 ≤ n) : (n / c) * (c - 1) ≤ n - 1 := by
  rcases Nat.eq_zero_or_pos c with h | h
  · subst h; simp
  · by_cases hc : c ≤ n
    · have h1 : 1 ≤ n / c := (Nat.one_le_div_iff h).mpr hc
      have h2 : (n / c) * c ≤ n := Nat.div_mul_le_self n c
      have h3 : (n / c) * (c - 1) = (n / c) * c - n / c := by rw [Nat.mul_sub, Nat.mul_one]
      omega
    · have : n / c = 0 := Nat.div_eq_of_lt (by omega)
      simp [this]

theorem le_nextPow2 (m : ℕ) : m ≤ nextPow2 m := by
  unfold nextPow2
  split
  · omega
  · have := Nat.lt_log2_self (n := m - 1)
    omega

theorem foldl_max_ge {β : Type} (f : β → ℕ) (ds : List β) (a : ℕ) :
    a ≤ ds.foldl (fun r d => if f d > r then f d else r) a ∧
    ∀ d ∈ ds, f d ≤ ds.foldl (fun r d => if f d > r then f d else r) a := by
  induction ds generalizing a with
  | nil => simp
  | cons x xs ih =>
    simp only [List.foldl_cons, List.mem_cons]
    have h0 := (ih (if f x > a then f x else a)).1
    have h1 : a ≤ (if f x > a then f x else a) ∧ f x ≤ (if f x > a then f x else a) := by
      split <;> omega
    constructor
    · omega
    · rintro d (rfl | hd)
      · omega
      · exact (ih _).2 d hd

theorem foldl_max_mem {β : Type} (f : β → ℕ) (ds : List β) (a : ℕ) :
    ds.foldl (fun r d => if f d > r then f d else r) a = a ∨
    ∃ d ∈ ds, ds.foldl (fun r d => if f d > r then f d else r) a = f d := by
  induction ds generalizing a with
  | nil => simp
  | cons x xs ih =>
    simp only [List.foldl_cons, List.mem_cons]
    rcases ih (if f x > a then f x else a) with h | ⟨d, hd, h⟩
    · rw [h]
      by_cases hx : f x > a
      · right; exact ⟨x, Or.inl rfl, by simp [hx]⟩
      · left; simp [hx]
    · right; exact ⟨d, Or.inr hd, h⟩

theorem ceBlowup_ge (ds : List Degree) : ∀ d ∈ ds, d.minBlowup ≤ ceBlowup ds :=
  (foldl_max_ge Degree.minBlowup ds 0).2

/-- what an accepted `set_num_transition_exemptions(e)` guarantees -/
theorem exemptions_ok_bound {n e : ℕ} {ds : List Degree} (h : setNumTransitionExemptions n ds e = .ok e) :
    e ≠ 0 ∧ e ≤ n / 2 + 1 ∧ ∀ d ∈ ds, e + d.evalDegree n ≤ n * ceBlowup ds - 1 + n := by
  unfold setNumTransitionExemptions at h
  split at h
  · cases h
  rename_i h0
  split at h
  · cases h
  rename_i h1
  simp only at h
  split at h
  · cases h
  rename_i h2
  split at h
  · cases h
  rename_i h3
  refine ⟨h0, by omega, fun d hd => ?_⟩
  simp only [List.any_eq_true, decide_eq_true_eq, not_exists, not_and, not_lt] at h2 h3
  have a := h2 d hd
  have b := h3 d hd
  omega

end WinterProofs.C17L
