-- tie T for C09: `fft::permute_index` as regenerated from math/src/fft/mod.rs on this run
-- (Winter/Gen/Fft.lean: `reverse_bits`, `trailing_zeros`, `wrapping_shr`, the two debug assertions) coincides
-- with the hand-written model `Model.Fft.permuteIndex` for all arguments.
import Winter.Model.Fft
import Winter.Gen.Fft
import WinterProofs.Lemmas.GenTactic

namespace C09G
open Model.Fft

theorem revBits_eq_brev : ∀ (w i : Nat), Gen.revBits w i = brev w i := by
  intro w
  induction w with
  | zero => intro i; rfl
  | succ w ih => intro i; unfold Gen.revBits brev; rw [ih]

theorem ctz_eq_trailingZeros : ∀ (k n : Nat), Gen.ctz k n = trailingZeros k n := by
  intro k
  induction k with
  | zero => intro n; rfl
  | succ k ih => intro n; unfold Gen.ctz trailingZeros; rw [ih]; split <;> omega

theorem trailingZeros_le : ∀ (k n : Nat), trailingZeros k n ≤ k := by
  intro k
  induction k with
  | zero => intro n; simp [trailingZeros]
  | succ k ih =>
    intro n; unfold trailingZeros; split
    · omega
    · have := ih (n / 2); omega

/-- ★ for ALL sizes and indexes: the model returns `some j` exactly when the regenerated debug assertions (and
    the `u32` subtraction `USIZE_BITS - bits`) hold and the regenerated function returns `j` -/
theorem gen_permute_index_eq_model (size index : Nat) :
    permuteIndex size index =
      if Gen.Fft.permute_index_ok size index then some (Gen.Fft.permute_index size index) else none := by
  have hp : Gen.isPow2 size = Model.Fft.isPow2 size := by
    unfold Gen.isPow2 Model.Fft.isPow2
    rw [Bool.eq_iff_iff]
    simp only [Bool.and_eq_true, bne_iff_ne, beq_iff_eq]
    exact ⟨fun ⟨a, b⟩ => ⟨a, b.symm⟩, fun ⟨a, b⟩ => ⟨a, b.symm⟩⟩
  have hle := trailingZeros_le 64 size
  unfold permuteIndex
  unfold_gen Gen.Fft
  simp only [revBits_eq_brev, ctz_eq_trailingZeros, hp, Nat.shiftRight_eq_div_pow, Bool.and_eq_true,
    decide_eq_true_eq]
  -- by cases on the two assertions, in whatever order the source states them
  by_cases h1 : index < size <;> by_cases h2 : Model.Fft.isPow2 size = true <;> simp [h1, h2, hle]

end C09G
