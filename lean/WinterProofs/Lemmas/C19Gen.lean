-- tie T for C19: the integer logic of `draw_integers` (its two assertions, the mask, the masking of the first
-- eight bytes) and of `check_leading_zeros` (`trailing_zeros`) as regenerated from
-- crypto/src/random/default.rs on this run (Winter/Gen/Coin.lean) coincides with the hand-written model of
-- Winter/Model/Coin.lean, for all arguments; the hashing, the byte slicing and the retry loop around these
-- expressions are not translated: `drawIntegersG` / `checkLeadingZerosG` (Winter/Model/CoinGen.lean) are the
-- model functions with exactly the integer parts replaced, and are proved equal to the model functions.
import Winter.Model.CoinGen
import WinterProofs.Lemmas.GenTactic

namespace C19G
open Model.Coin

theorem ctz_eq_tzAux : ∀ (k x : Nat), Gen.ctz k x = tzAux k x := by
  intro k
  induction k with
  | zero => intro x; rfl
  | succ k ih => intro x; unfold Gen.ctz tzAux; rw [ih]; split <;> omega

/-- ★ the regenerated pieces, for ALL arguments: the assertions are `is_power_of_two(domain_size)` and
    `num_values < domain_size`; the mask is `domain_size - 1` (no underflow exactly when `domain_size ≥ 1`,
    which the first assertion implies); the value is the bitwise AND; the count is `tz64` -/
theorem gen_pieces (n d x m : Nat) :
    Gen.Coin.draw_integers_assert0 n d = isPow2 d ∧
    Gen.Coin.draw_integers_assert1 n d = decide (n < d) ∧
    Gen.Coin.draw_integers_mask d = d - 1 ∧ (Gen.Coin.draw_integers_mask_ok d = true ↔ 1 ≤ d) ∧
    Gen.Coin.draw_integers_value x m = x &&& m ∧
    Gen.Coin.check_leading_zeros_count x = tz64 x := by
  have hp : Gen.isPow2 d = isPow2 d := rfl
  unfold tz64
  unfold_gen Gen.Coin
  simp [hp, ctz_eq_tzAux]

/-- no checked-build panic in the mask once the first assertion holds -/
theorem gen_mask_ok_of_assert (n d : Nat) (h : Gen.Coin.draw_integers_assert0 n d = true) :
    Gen.Coin.draw_integers_mask_ok d = true := by
  rw [(gen_pieces n d 0 0).1] at h
  rw [(gen_pieces n d 0 0).2.2.2.1]
  unfold isPow2 at h
  simp only [Bool.and_eq_true, bne_iff_ne] at h
  omega

variable {D : Type} (H : HashOps D)

theorem intLoop_eq_gen (mask n : Nat) : ∀ (k : Nat) (c : Coin D) (acc : List Nat),
    intLoop H mask n k c acc = intLoopG H mask n k c acc := by
  intro k
  induction k with
  | zero => intro c acc; rfl
  | succ k ih =>
    intro c acc
    unfold intLoop intLoopG
    cases next H c with
    | none => rfl
    | some p => simp only [(gen_pieces 0 0 _ _).2.2.2.2.1, ih]

/-- ★ the model's `drawIntegers` IS `draw_integers` over the regenerated integer logic -/
theorem drawIntegers_eq_gen (n d nonce : Nat) (c : Coin D) :
    drawIntegers H n d nonce c = drawIntegersG H n d nonce c := by
  unfold drawIntegers drawIntegersG
  simp only [(gen_pieces n d 0 0).1, (gen_pieces n d 0 0).2.1, (gen_pieces n d 0 0).2.2.1, intLoop_eq_gen,
    decide_eq_true_eq]
  have key : ∀ r : Option (List Nat × Coin D),
      (match r with
        | none => ((Out.panic "counter overflow", (⟨H.mergeWithInt c.seed nonce, 0⟩ : Coin D)) : Out × Coin D)
        | some (acc, c2) => if acc.length < n then (Out.err, c2) else (Out.ints acc.reverse, c2)) =
      (match r with
        | none => (Out.panic "counter overflow", ⟨H.mergeWithInt c.seed nonce, 0⟩)
        | some (acc, c2) => if acc.length < n then (Out.err, c2) else (Out.ints acc.reverse, c2)) := by
    intro r; cases r <;> rfl
  split
  · rfl
  · split
    · rfl
    · exact key _

/-- ★ the model's `checkLeadingZeros` IS `check_leading_zeros` over the regenerated `trailing_zeros` -/
theorem checkLeadingZeros_eq_gen (c : Coin D) (v : Nat) :
    checkLeadingZeros H c v = checkLeadingZerosG H c v := by
  unfold checkLeadingZeros checkLeadingZerosG
  rw [(gen_pieces 0 0 _ 0).2.2.2.2.2]

end C19G
