-- C15 (winter-fri), layer layout: `transpose_slice`, `query_layer`, `get_query_values`.
--   * row `r` of the transposed layer holds the evaluations at positions `r + j·m`, `m = n / N`
--     (`transpose_some`);
--   * `query_layer` returns the rows at the folded positions (`queryLayer_some`);
--   * on the rows opened by an honest prover `get_query_values` returns the evaluation at every queried
--     position (`getQueryValues_honest`).
import Winter.Model.Fri
import WinterProofs.Lemmas.C15Positions

namespace WinterProofs.C15
open Model.Fri

variable {α : Type}

/-! ## `mapM` in `Option` -/

theorem mapM_option_nil {β γ : Type} (f : β → Option γ) : ([] : List β).mapM f = some [] := by
  simp [List.mapM_nil]

theorem mapM_option_cons {β γ : Type} (f : β → Option γ) (x : β) (xs : List β) :
    (x :: xs).mapM f = (f x).bind fun y => (xs.mapM f).bind fun ys => some (y :: ys) := by
  rw [List.mapM_cons]; rfl

/-- a `mapM` in `Option` all of whose steps succeed succeeds, and its `i`-th result is the `i`-th step -/
theorem mapM_option_some {β γ : Type} (f : β → Option γ) (xs : List β)
    (h : ∀ x ∈ xs, (f x).isSome = true) :
    ∃ ys, xs.mapM f = some ys ∧ ys.length = xs.length ∧
      ∀ i, (hi : i < xs.length) → ys[i]? = f xs[i] := by
  induction xs with
  | nil => exact ⟨[], mapM_option_nil f, rfl, fun i hi => absurd hi (Nat.not_lt_zero _)⟩
  | cons x xs ih =>
    obtain ⟨ys, hys, hlen, hget⟩ := ih fun y hy => h y (List.mem_cons_of_mem _ hy)
    obtain ⟨y, hy⟩ := Option.isSome_iff_exists.1 (h x List.mem_cons_self)
    refine ⟨y :: ys, ?_, by simp [hlen], ?_⟩
    · rw [mapM_option_cons, hy, hys]; rfl
    · intro i hi
      cases i with
      | zero => simp [hy]
      | succ j =>
        simp only [List.getElem?_cons_succ, List.getElem_cons_succ]
        exact hget j (by simpa using hi)

/-- a `mapM` in `Option` with a failing step fails -/
theorem mapM_option_none {β γ : Type} (f : β → Option γ) (xs : List β) (x : β) (hx : x ∈ xs)
    (h : f x = none) : xs.mapM f = none := by
  induction xs with
  | nil => cases hx
  | cons a xs ih =>
    rw [mapM_option_cons]
    rcases List.mem_cons.1 hx with rfl | hmem
    · rw [h]; rfl
    · rw [ih hmem]
      cases f a <;> rfl

/-! ## `transpose_slice` -/

theorem transpose_none (N : Nat) (xs : List α) (h : xs.length / N * N ≠ xs.length) :
    transpose N xs = none := by
  simp only [transpose]
  rw [if_pos h]

/-- row `r` of the transposed layer is `[xs[r], xs[r + m], …, xs[r + (N-1)·m]]` -/
theorem transpose_some (N : Nat) (xs : List α) (m : Nat) (hN : 0 < N) (h : xs.length = m * N) :
    ∃ rows, transpose N xs = some rows ∧ rows.length = m ∧
      ∀ r, r < m → ∃ row, rows[r]? = some row ∧ row.length = N ∧
        ∀ j, j < N → row[j]? = xs[r + j * m]? := by
  have hm : xs.length / N = m := by rw [h, Nat.mul_div_cancel _ hN]
  -- every row exists
  have hrow : ∀ r, r < m → ∃ row, ((List.range N).mapM fun j => xs[r + j * m]?) = some row ∧
      row.length = N ∧ ∀ j, j < N → row[j]? = xs[r + j * m]? := by
    intro r hr
    have hsome : ∀ j ∈ List.range N, (xs[r + j * m]?).isSome = true := by
      intro j hj
      have hj' : j < N := List.mem_range.1 hj
      have : r + j * m < xs.length := by
        have h1 : j * m ≤ (N - 1) * m := Nat.mul_le_mul_right m (by omega)
        have h2 : (N - 1) * m + m = m * N := by
          obtain ⟨k, rfl⟩ : ∃ k, N = k + 1 := ⟨N - 1, by omega⟩
          simp [Nat.add_mul, Nat.mul_comm m]
        omega
      simp [this]
    obtain ⟨row, h1, h2, h3⟩ := mapM_option_some (fun j => xs[r + j * m]?) (List.range N) hsome
    refine ⟨row, h1, by simpa using h2, ?_⟩
    intro j hj
    have := h3 j (by simpa using hj)
    simpa using this
  have hall : ∀ r ∈ List.range m,
      (((List.range N).mapM fun j => xs[r + j * m]?) : Option (List α)).isSome = true := by
    intro r hr
    obtain ⟨row, h1, _⟩ := hrow r (List.mem_range.1 hr)
    rw [h1]; rfl
  obtain ⟨rows, h1, h2, h3⟩ :=
    mapM_option_some (fun r => (List.range N).mapM fun j => xs[r + j * m]?) (List.range m) hall
  refine ⟨rows, ?_, by simpa using h2, ?_⟩
  · simp only [transpose, hm]
    rw [if_neg (by rw [h]; simp), h1]
  · intro r hr
    obtain ⟨row, hr1, hr2, hr3⟩ := hrow r hr
    refine ⟨row, ?_, hr2, hr3⟩
    have := h3 r (by simpa using hr)
    simpa [hr1] using this

/-! ## `query_layer` -/

theorem queryLayer_some (l : Layer α) (ps : List Nat) (h : ∀ p ∈ ps, p < l.rows.length) :
    ∃ pl, queryLayer l ps = some pl ∧ pl.length = ps.length ∧
      ∀ i, (hi : i < ps.length) → pl[i]? = l.rows[ps[i]]? := by
  have hsome : ∀ p ∈ ps, (l.rows[p]?).isSome = true := by
    intro p hp
    simp [h p hp]
  exact mapM_option_some (fun p => l.rows[p]?) ps hsome

/-- the panic of `query_layer`: a position outside the layer -/
theorem queryLayer_none (l : Layer α) (ps : List Nat) (p : Nat) (hp : p ∈ ps)
    (h : l.rows.length ≤ p) : queryLayer l ps = none :=
  mapM_option_none (fun p => l.rows[p]?) ps p hp (by simp [h])

/-! ## `get_query_values` -/

/-- On the rows an honest prover opens at the folded positions, `get_query_values` returns for every
    queried position `p` the evaluation `xs[p]` of the committed layer. -/
theorem getQueryValues_honest (N m : Nat) (hN : 0 < N) (hm : 0 < m) (xs : List α)
    (hlen : xs.length = m * N)
    (rowsT : List (List α)) (hT : transpose N xs = some rowsT)
    (ps folded : List Nat) (hps : ∀ p ∈ ps, p < m * N)
    (hfold : foldPositions ps (m * N) N = some folded)
    (opened : List (List α)) (hopen : queryLayer ⟨rowsT⟩ folded = some opened) :
    ∃ vals, getQueryValues opened ps folded (m * N) N = some vals ∧ vals.length = ps.length ∧
      ∀ k, (hk : k < ps.length) → vals[k]? = xs[ps[k]]? := by
  have hdiv : m * N / N = m := Nat.mul_div_cancel _ hN
  have hne : m * N / N ≠ 0 := by omega
  -- the transposed layer
  obtain ⟨rows', hT', hTlen, hTrow⟩ := transpose_some N xs m hN hlen
  obtain rfl : rows' = rowsT := Option.some.inj (hT'.symm.trans hT)
  -- the opened rows
  have hflt : ∀ q ∈ folded, q < (Layer.mk rows').rows.length := by
    intro q hq
    have := foldPositions_lt hne hfold q hq
    rw [hdiv] at this
    simpa [hTlen] using this
  obtain ⟨pl, hpl, hpllen, hplget⟩ := queryLayer_some ⟨rows'⟩ folded hflt
  obtain rfl : pl = opened := Option.some.inj (hpl.symm.trans hopen)
  -- the step function of `get_query_values` returns `xs[p]`
  have hstep : ∀ p ∈ ps,
      (match folded.idxOf? (p % m) with
        | none => none
        | some idx =>
          match pl[idx]? with
          | none => none
          | some row => row[p / m]?) = xs[p]? := by
    intro p hp
    obtain ⟨idx, hidx, hget⟩ := foldPositions_idxOf hne hfold p hp
    rw [hdiv] at hidx hget
    have hidxlt : idx < folded.length := by
      rcases Nat.lt_or_ge idx folded.length with h | h
      · exact h
      · rw [List.getElem?_eq_none h] at hget; cases hget
    have hfi : folded[idx] = p % m := by
      rw [List.getElem?_eq_getElem hidxlt] at hget
      exact Option.some.inj hget
    have hrlt : p % m < m := Nat.mod_lt _ hm
    obtain ⟨row, hrow, _, hrowget⟩ := hTrow (p % m) hrlt
    have hopened : pl[idx]? = some row := by
      rw [hplget idx hidxlt, hfi]
      exact hrow
    have hcol : p / m < N := Nat.div_lt_of_lt_mul (hps p hp)
    have hpos : p % m + p / m * m = p := by
      rw [Nat.mul_comm]; exact Nat.mod_add_div p m
    rw [hidx]
    simp only [hopened]
    rw [hrowget _ hcol, hpos]
  have hsome : ∀ p ∈ ps,
      (match folded.idxOf? (p % m) with
        | none => none
        | some idx =>
          match pl[idx]? with
          | none => none
          | some row => row[p / m]?).isSome = true := by
    intro p hp
    rw [hstep p hp]
    have : p < xs.length := by rw [hlen]; exact hps p hp
    simp [this]
  obtain ⟨vals, hv1, hv2, hv3⟩ := mapM_option_some _ ps hsome
  refine ⟨vals, ?_, hv2, ?_⟩
  · simp only [getQueryValues, hdiv]
    rw [if_neg (by omega)]
    exact hv1
  · intro k hk
    rw [hv3 k hk]
    exact hstep _ (List.getElem_mem hk)

/-- the same with the hypotheses discharged from the honest computation: the prover's transposition,
    `fold_positions` and `query_layer` all succeed on in-range positions -/
theorem getQueryValues_honest' (N m : Nat) (hN : 0 < N) (hm : 0 < m) (xs : List α)
    (hlen : xs.length = m * N) (ps : List Nat) (hps : ∀ p ∈ ps, p < m * N) :
    ∃ rowsT folded opened vals,
      transpose N xs = some rowsT ∧
      foldPositions ps (m * N) N = some folded ∧
      queryLayer ⟨rowsT⟩ folded = some opened ∧
      getQueryValues opened ps folded (m * N) N = some vals ∧ vals.length = ps.length ∧
      ∀ k, (hk : k < ps.length) → vals[k]? = xs[ps[k]]? := by
  have hdiv : m * N / N = m := Nat.mul_div_cancel _ hN
  have hne : m * N / N ≠ 0 := by omega
  obtain ⟨rowsT, hT, hTlen, _⟩ := transpose_some N xs m hN hlen
  have hfold := foldPositions_eq ps (m * N) N hne
  have hflt : ∀ q ∈ dedupKeepFirst (ps.map (· % (m * N / N))), q < (Layer.mk rowsT).rows.length := by
    intro q hq
    have := foldPositions_lt hne hfold q hq
    rw [hdiv] at this
    simpa [hTlen] using this
  obtain ⟨opened, hopen, _, _⟩ := queryLayer_some ⟨rowsT⟩ _ hflt
  obtain ⟨vals, h1, h2, h3⟩ :=
    getQueryValues_honest N m hN hm xs hlen rowsT hT ps _ hps hfold opened hopen
  exact ⟨rowsT, _, opened, vals, hT, hfold, hopen, h1, h2, h3⟩

/-! ## a concrete instance -/

/-- `N = 2`, `m = 4`: the layer `[10, …, 17]` is committed as the rows `[10,14], [11,15], [12,16], [13,17]`;
    the positions `[5, 1, 6, 5]` fold to `[1, 2]`; the opened rows are `[11,15], [12,16]`; the query values are
    `xs[5], xs[1], xs[6], xs[5]` -/
example :
    transpose 2 [10, 11, 12, 13, 14, 15, 16, 17] = some [[10, 14], [11, 15], [12, 16], [13, 17]] ∧
    foldPositions [5, 1, 6, 5] (4 * 2) 2 = some [1, 2] ∧
    queryLayer ⟨[[10, 14], [11, 15], [12, 16], [13, 17]]⟩ [1, 2] = some [[11, 15], [12, 16]] ∧
    getQueryValues [[11, 15], [12, 16]] [5, 1, 6, 5] [1, 2] (4 * 2) 2 = some [15, 11, 16, 15] := by
  decide

/-- the theorem instantiated on the same data -/
example :
    ∃ vals, getQueryValues [[11, 15], [12, 16]] [5, 1, 6, 5] [1, 2] (4 * 2) 2 = some vals ∧
      vals.length = [5, 1, 6, 5].length ∧
      ∀ k, (hk : k < [5, 1, 6, 5].length) →
        vals[k]? = [10, 11, 12, 13, 14, 15, 16, 17][[5, 1, 6, 5][k]]? :=
  getQueryValues_honest 2 4 (by decide) (by decide) [10, 11, 12, 13, 14, 15, 16, 17] (by decide)
    [[10, 14], [11, 15], [12, 16], [13, 17]] (by decide) [5, 1, 6, 5] [1, 2] (by decide) (by decide)
    [[11, 15], [12, 16]] (by decide)

end WinterProofs.C15
