-- C13 helper lemmas, generic part: if the required methods of a reader refine the in-memory reader
-- (`Mem`), so do the provided methods of the `ByteReader` trait, every single call and every history.
import Winter.Model.Reader

namespace WinterProofs.C13
open Model.Reader

variable {σ : Type}

/-- `x` (result and new state of a reader) agrees with `y` (result and remaining bytes of the in-memory
    reader): same result, the abstraction of the new state is what the in-memory reader has left, and the
    invariant still holds -/
def Agree (I : σ → Prop) (ab : σ → List Nat) {α : Type} (x : α × σ) (y : α × List Nat) : Prop :=
  x.1 = y.1 ∧ ab x.2 = y.2 ∧ I x.2

/-- the required methods of `R` refine those of the in-memory reader under the abstraction `ab` -/
structure Refines (R : Reader σ) (I : σ → Prop) (ab : σ → List Nat) : Prop where
  readU8 : ∀ s, I s → Agree I ab (R.readU8 s) (Mem.readU8 (ab s))
  peekU8 : ∀ s, I s → Agree I ab (R.peekU8 s) (Mem.peekU8 (ab s))
  readSlice : ∀ n s, I s → Agree I ab (R.readSlice n s) (Mem.readSlice n (ab s))
  readArray : ∀ n s, I s → Agree I ab (R.readArray n s) (Mem.readArray n (ab s))
  hasMore : ∀ s, I s → Agree I ab (R.hasMore s) (Mem.hasMore (ab s))
  /-- the look-ahead consumes nothing, answers `ok` or `eof`, and `eof` only when fewer bytes are left -/
  checkEor : ∀ n s, I s → ab (R.checkEor n s).2 = ab s ∧ I (R.checkEor n s).2 ∧
    ((R.checkEor n s).1 = .ok () ∨ ((R.checkEor n s).1 = .eof ∧ (ab s).length < n))

theorem agree_andThen {I : σ → Prop} {ab : σ → List Nat} {α β : Type}
    {m : σ → Res α × σ} {m' : List Nat → Res α × List Nat}
    {f : α → σ → Res β × σ} {f' : α → List Nat → Res β × List Nat} {s : σ} {l : List Nat}
    (hm : Agree I ab (m s) (m' l))
    (hf : ∀ a s' l', I s' → ab s' = l' → Agree I ab (f a s') (f' a l')) :
    Agree I ab (andThen m f s) (andThen m' f' l) := by
  obtain ⟨h1, h2, h3⟩ := hm
  unfold andThen
  rcases hms : m s with ⟨r, s'⟩
  rcases hml : m' l with ⟨r', l'⟩
  rw [hms, hml] at h1 h2
  rw [hms] at h3
  simp only at h1 h2 h3
  subst h1
  cases r with
  | ok a => exact hf a s' l' h3 h2
  | eof => exact ⟨rfl, h2, h3⟩
  | invalid => exact ⟨rfl, h2, h3⟩
  | panic => exact ⟨rfl, h2, h3⟩

theorem agree_ret {I : σ → Prop} {ab : σ → List Nat} {α : Type} (a : α) {s : σ} {l : List Nat}
    (hi : I s) (ha : ab s = l) : Agree I ab (ret a s) (ret a l) := ⟨rfl, ha, hi⟩

section
variable {R : Reader σ} {I : σ → Prop} {ab : σ → List Nat} (h : Refines R I ab)
include h

theorem readBool_refines (s : σ) (hs : I s) : Agree I ab (readBool R s) (readBool Mem (ab s)) := by
  unfold readBool
  refine agree_andThen (h.readU8 s hs) ?_
  intro b s' l' hi ha
  by_cases h0 : b = 0
  · simp only [h0, if_true]; exact ⟨rfl, ha, hi⟩
  · by_cases h1 : b = 1
    · simp only [h1, if_true]; exact ⟨rfl, ha, hi⟩
    · simp only [h0, h1, if_false]; exact ⟨rfl, ha, hi⟩

theorem readInt_refines (k : Nat) (s : σ) (hs : I s) : Agree I ab (readInt R k s) (readInt Mem k (ab s)) := by
  unfold readInt
  exact agree_andThen (h.readArray k s hs) (fun bs s' l' hi ha => agree_ret _ hi ha)

theorem readUsize_refines (s : σ) (hs : I s) : Agree I ab (readUsize R s) (readUsize Mem (ab s)) := by
  unfold readUsize
  refine agree_andThen (h.peekU8 s hs) ?_
  intro first s1 l1 hi1 ha1
  by_cases h9 : tz8 first + 1 = 9
  · simp only [h9, if_true]
    refine agree_andThen (ha1 ▸ h.readU8 s1 hi1) ?_
    intro _ s2 l2 hi2 ha2
    exact agree_andThen (ha2 ▸ h.readArray 8 s2 hi2) (fun bs s' l' hi ha => agree_ret _ hi ha)
  · simp only [h9, if_false]
    exact agree_andThen (ha1 ▸ h.readSlice _ s1 hi1) (fun bs s' l' hi ha => agree_ret _ hi ha)

theorem readVec_refines (n : Nat) (s : σ) (hs : I s) : Agree I ab (readVec R n s) (readVec Mem n (ab s)) :=
  h.readSlice n s hs

theorem readString_refines (n : Nat) (s : σ) (hs : I s) :
    Agree I ab (readString R n s) (readString Mem n (ab s)) := by
  unfold readString
  refine agree_andThen (readVec_refines h n s hs) ?_
  intro bs s' l' hi ha
  by_cases hv : utf8Valid bs = true
  · simp only [hv, if_true]; exact ⟨rfl, ha, hi⟩
  · simp only [hv]; exact ⟨rfl, ha, hi⟩

theorem readElem_refines (e : Elem) (s : σ) (hs : I s) : Agree I ab (readElem R e s) (readElem Mem e (ab s)) := by
  cases e
  · exact h.readU8 s hs
  · exact readInt_refines h 2 s hs
  · exact readInt_refines h 4 s hs
  · exact readInt_refines h 8 s hs
  · exact readInt_refines h 16 s hs
  · exact readUsize_refines h s hs
  · exact agree_ret _ hs rfl
  · refine agree_andThen (readBool_refines h s hs) ?_
    intro b s1 l1 hi1 ha1
    cases b
    · exact agree_ret _ hi1 ha1
    · exact agree_andThen (ha1 ▸ h.readU8 s1 hi1) (fun v s' l' hi ha => agree_ret _ hi ha)
  · refine agree_andThen (h.readU8 s hs) ?_
    intro a s1 l1 hi1 ha1
    exact agree_andThen (ha1 ▸ readInt_refines h 2 s1 hi1) (fun b s' l' hi ha => agree_ret _ hi ha)

theorem readMany_refines (e : Elem) : ∀ (n : Nat) (s : σ), I s →
    Agree I ab (readMany R e n s) (readMany Mem e n (ab s))
  | 0, s, hs => agree_ret _ hs rfl
  | k + 1, s, hs => by
    unfold readMany
    refine agree_andThen (readElem_refines h e s hs) ?_
    intro v s1 l1 hi1 ha1
    refine agree_andThen (ha1 ▸ readMany_refines e k s1 hi1) ?_
    intro vs s2 l2 hi2 ha2
    exact agree_ret _ hi2 ha2

end

/-- how the result of one call may relate to the in-memory reader's: equal, except that `check_eor` may
    answer `ok` where the in-memory reader answers `eof` -/
def ResOK (op : Op) (impl spec : Res Val) : Prop :=
  impl = spec ∨ ((∃ n, op = .checkEor n) ∧ impl = .ok .unit ∧ spec = .eof)

theorem lift_agree {I : σ → Prop} {ab : σ → List Nat} {op : Op} {α : Type} (f : α → Val)
    {x : Res α × σ} {y : Res α × List Nat} (hxy : Agree I ab x y) :
    ResOK op (x.1.val f) (y.1.val f) ∧ ab x.2 = y.2 ∧ I x.2 :=
  ⟨Or.inl (by rw [hxy.1]), hxy.2.1, hxy.2.2⟩

theorem mem_checkEor (n : Nat) (l : List Nat) :
    Mem.checkEor n l = if l.length < n then (.eof, l) else (.ok (), l) := rfl

/-- one call: result related by `ResOK`, abstraction commutes with the step, invariant kept -/
theorem step_refines {R : Reader σ} {I : σ → Prop} {ab : σ → List Nat} (h : Refines R I ab)
    (op : Op) (s : σ) (hs : I s) :
    ResOK op (step R op s).1 (step Mem op (ab s)).1 ∧
      ab (step R op s).2 = (step Mem op (ab s)).2 ∧ I (step R op s).2 := by
  cases op with
  | readU8 => exact lift_agree _ (h.readU8 s hs)
  | peekU8 => exact lift_agree _ (h.peekU8 s hs)
  | readSlice n => exact lift_agree _ (h.readSlice n s hs)
  | readArray n => exact lift_agree _ (h.readArray n s hs)
  | readBool => exact lift_agree _ (readBool_refines h s hs)
  | readU16 => exact lift_agree _ (readInt_refines h 2 s hs)
  | readU32 => exact lift_agree _ (readInt_refines h 4 s hs)
  | readU64 => exact lift_agree _ (readInt_refines h 8 s hs)
  | readU128 => exact lift_agree _ (readInt_refines h 16 s hs)
  | readUsize => exact lift_agree _ (readUsize_refines h s hs)
  | readVec n => exact lift_agree _ (readVec_refines h n s hs)
  | readString n => exact lift_agree _ (readString_refines h n s hs)
  | readMany e n => exact lift_agree _ (readMany_refines h e n s hs)
  | hasMore =>
    have := h.hasMore s hs
    exact ⟨Or.inl (by simp only [step]; rw [this.1]), this.2.1, this.2.2⟩
  | checkEor n =>
    obtain ⟨ha, hi, hr⟩ := h.checkEor n s hs
    refine ⟨?_, ?_, hi⟩
    · simp only [step, mem_checkEor]
      rcases hr with hr | ⟨hr, hl⟩
      · rw [hr]
        by_cases hl : (ab s).length < n
        · right; exact ⟨⟨n, rfl⟩, rfl, by simp [hl, Res.val]⟩
        · left; simp [hl, Res.val]
      · rw [hr]; left; simp [hl, Res.val]
    · simp only [step, mem_checkEor]
      rw [ha]
      by_cases hl : (ab s).length < n <;> simp [hl]

/-- element-wise relation between the results of two runs of the same history -/
def AllOK : List Op → List (Res Val) → List (Res Val) → Prop
  | [], [], [] => True
  | op :: ops, a :: as, b :: bs => ResOK op a b ∧ AllOK ops as bs
  | _, _, _ => False

/-- every history: all results related, and what is left afterwards is the same -/
theorem run_refines {R : Reader σ} {I : σ → Prop} {ab : σ → List Nat} (h : Refines R I ab) :
    ∀ (ops : List Op) (s : σ), I s →
      AllOK ops (run R ops s).1 (run Mem ops (ab s)).1 ∧
        ab (run R ops s).2 = (run Mem ops (ab s)).2 ∧ I (run R ops s).2
  | [], s, hs => ⟨trivial, rfl, hs⟩
  | op :: ops, s, hs => by
    obtain ⟨h1, h2, h3⟩ := step_refines h op s hs
    obtain ⟨r1, r2, r3⟩ := run_refines h ops (step R op s).2 h3
    simp only [run]
    rw [h2] at r1 r2
    exact ⟨⟨h1, r1⟩, r2, r3⟩

/-- without `check_eor` in the history, related result lists are equal -/
theorem allOK_eq : ∀ (ops : List Op) (a b : List (Res Val)),
    (∀ op ∈ ops, ∀ n, op ≠ .checkEor n) → AllOK ops a b → a = b
  | [], [], [], _, _ => rfl
  | [], [], _ :: _, _, h => h.elim
  | [], _ :: _, _, _, h => h.elim
  | _ :: _, [], _, _, h => h.elim
  | _ :: _, _ :: _, [], _, h => h.elim
  | op :: ops, x :: as, y :: bs, hno, h => by
    obtain ⟨h1, h2⟩ := h
    have hxy : x = y := by
      rcases h1 with h1 | ⟨⟨n, hn⟩, _, _⟩
      · exact h1
      · exact absurd hn (hno op (by simp) n)
    rw [hxy, allOK_eq ops as bs (fun o ho => hno o (by simp [ho])) h2]

end WinterProofs.C13
