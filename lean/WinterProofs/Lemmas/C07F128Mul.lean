-- C07 helper lemmas, 128-bit field: `Gen.F128.mul` (schoolbook 128x128 product with stepwise
-- reduction) computes the canonical product modulo M and never overflows in the checked build.
import WinterProofs.Lemmas.C07F128
namespace WinterProofs.F128L
open Gen.F128

theorem glueA (x0 x1 x2 u0 u1 u2 t0 t1 X0 X1 : Nat)
    (hx0 : x0 < 18446744073709551616) (hx1 : x1 < 18446744073709551616) (hx2 : x2 < 18446744073709551616)
    (hu0 : u0 < 18446744073709551616) (hu1 : u1 < 18446744073709551616) (hu2 : u2 ≤ 1)
    (ht0 : t0 < 18446744073709551616) (ht1 : t1 < 18446744073709551616)
    (hu : u0 + u1 * 18446744073709551616 + u2 * 340282366920938463463374607431768211456
        = x0 + x1 * 18446744073709551616 + x2 * 49478023249919)
    (ht : t0 + t1 * 18446744073709551616
        = (u0 + u1 * 18446744073709551616 + 49478023249919) % 340282366920938463463374607431768211456)
    (hX0 : X0 = mul.s_x0_3 u0 (mul.s_c u2) t0) (hX1 : X1 = mul.s_x1_3 u1 (mul.s_c u2) t1) :
    X0 < 18446744073709551616 ∧ X1 < 18446744073709551616 ∧
      X0 + X1 * 18446744073709551616 + (x2 + u2) * 340282366920938463463374557953744961537
        = x0 + x1 * 18446744073709551616 + x2 * 340282366920938463463374607431768211456 := by
  unfold mul.s_x0_3 mul.s_c at hX0
  unfold mul.s_x1_3 mul.s_c at hX1
  simp only [decide_eq_true_eq] at hX0 hX1
  by_cases h : u2 = 1
  · rw [if_pos h] at hX0 hX1
    subst hX0 hX1 h
    have e : (u0 + u1 * 18446744073709551616 + 49478023249919) % 340282366920938463463374607431768211456
        = u0 + u1 * 18446744073709551616 + 49478023249919 := Nat.mod_eq_of_lt (by omega)
    rw [e] at ht
    omega
  · rw [if_neg h] at hX0 hX1
    subst hX0 hX1
    have : u2 = 0 := by omega
    subst this
    omega

theorem scale4 (s1 k1 y1 X0 : Nat) (h : s1 + k1 * 18446744073709551616 = y1 + X0 + 0) :
    s1 * 18446744073709551616 + k1 * 340282366920938463463374607431768211456
      = y1 * 18446744073709551616 + X0 * 18446744073709551616 := by omega

theorem scale5 (s2 y2 X1 k1 : Nat) (h : s2 + 1 * 18446744073709551616 = y2 + X1 + k1) :
    s2 * 340282366920938463463374607431768211456 + 6277101735386680763835789423207666416102355444464034512896
      = y2 * 340282366920938463463374607431768211456 + X1 * 340282366920938463463374607431768211456
        + k1 * 340282366920938463463374607431768211456 := by omega

theorem scaleV (v0 v1 s1 s2 : Nat)
    (h : v0 + v1 * 18446744073709551616 = s1 + s2 * 18446744073709551616 + 49478023249919) :
    v0 * 18446744073709551616 + v1 * 340282366920938463463374607431768211456
      = s1 * 18446744073709551616 + s2 * 340282366920938463463374607431768211456
        + 912708432164306722333552598319104 := by omega

theorem finB (y0 Y1 Y2 s1 s2 y1 y2 X0 X1 k1 : Nat)
    (hvW : Y1 * 18446744073709551616 + Y2 * 340282366920938463463374607431768211456
      = s1 * 18446744073709551616 + s2 * 340282366920938463463374607431768211456
        + 912708432164306722333552598319104)
    (h5W : s2 * 340282366920938463463374607431768211456 + 6277101735386680763835789423207666416102355444464034512896
      = y2 * 340282366920938463463374607431768211456 + X1 * 340282366920938463463374607431768211456
        + k1 * 340282366920938463463374607431768211456)
    (h4W : s1 * 18446744073709551616 + k1 * 340282366920938463463374607431768211456
      = y1 * 18446744073709551616 + X0 * 18446744073709551616) :
    y0 + Y1 * 18446744073709551616 + Y2 * 340282366920938463463374607431768211456
        + 1 * 6277101735386680763835788510499234251795633110911436193792
        = y0 + y1 * 18446744073709551616 + y2 * 340282366920938463463374607431768211456
          + (X0 + X1 * 18446744073709551616) * 18446744073709551616 := by omega

theorem glueB (y0 y1 y2 X0 X1 s1 k1 s2 k2 v0 v1 Y1 Y2 : Nat)
    (hy0 : y0 < 18446744073709551616)
    (hX0 : X0 < 18446744073709551616) (hX1 : X1 < 18446744073709551616)
    (hs1 : s1 < 18446744073709551616) (hs2 : s2 < 18446744073709551616) (hk2 : k2 ≤ 1)
    (hv0 : v0 < 18446744073709551616) (hv1 : v1 < 18446744073709551616)
    (hB : y0 + y1 * 18446744073709551616 + y2 * 340282366920938463463374607431768211456
        ≤ 340282366920938463463374557953744961536 * 18446744073709551615)
    (h4 : s1 + k1 * 18446744073709551616 = y1 + X0 + 0)
    (h5 : s2 + k2 * 18446744073709551616 = y2 + X1 + k1)
    (hv : v0 + v1 * 18446744073709551616
        = (s1 + s2 * 18446744073709551616 + 49478023249919) % 340282366920938463463374607431768211456)
    (hY1 : Y1 = mul.s_y1_3 s1 (mul.s_c_1 k2) v0) (hY2 : Y2 = mul.s_y2_3 s2 (mul.s_c_1 k2) v1) :
    Y1 < 18446744073709551616 ∧ Y2 < 18446744073709551616 ∧
      y0 + Y1 * 18446744073709551616 + Y2 * 340282366920938463463374607431768211456
        + k2 * 6277101735386680763835788510499234251795633110911436193792
        = y0 + y1 * 18446744073709551616 + y2 * 340282366920938463463374607431768211456
          + (X0 + X1 * 18446744073709551616) * 18446744073709551616 := by
  unfold mul.s_y1_3 mul.s_c_1 at hY1
  unfold mul.s_y2_3 mul.s_c_1 at hY2
  simp only [decide_eq_true_eq] at hY1 hY2
  by_cases h : k2 = 1
  · rw [if_pos h] at hY1 hY2
    subst hY1 hY2 h
    have e : (s1 + s2 * 18446744073709551616 + 49478023249919) % 340282366920938463463374607431768211456
        = s1 + s2 * 18446744073709551616 + 49478023249919 := Nat.mod_eq_of_lt (by omega)
    rw [e] at hv
    refine ⟨hv0, hv1, ?_⟩
    exact finB _ _ _ _ _ _ _ _ _ _ (scaleV _ _ _ _ hv) (scale5 _ _ _ _ h5) (scale4 _ _ _ _ h4)
  · rw [if_neg h] at hY1 hY2
    subst hY1 hY2
    have : k2 = 0 := by omega
    subst this
    omega

theorem glueC (y0 Y1 Y2 z0 z1 z2 w0 w1 Z0 Z1 : Nat)
    (hy0 : y0 < 18446744073709551616) (hY1 : Y1 < 18446744073709551616) (hY2 : Y2 < 18446744073709551616)
    (hz0 : z0 < 18446744073709551616) (hz1 : z1 < 18446744073709551616) (hz2 : z2 ≤ 1)
    (hw0 : w0 < 18446744073709551616) (hw1 : w1 < 18446744073709551616)
    (hz : z0 + z1 * 18446744073709551616 + z2 * 340282366920938463463374607431768211456
        = y0 + Y1 * 18446744073709551616 + Y2 * 49478023249919)
    (hw : w0 + w1 * 18446744073709551616
        = (z0 + z1 * 18446744073709551616 + 49478023249919) % 340282366920938463463374607431768211456)
    (hZ0 : Z0 = mul.s_z0_2 z0 (mul.s_c_2 z0 z1 z2) w0) (hZ1 : Z1 = mul.s_z1_2 z1 (mul.s_c_2 z0 z1 z2) w1) :
    Z0 < 18446744073709551616 ∧ Z1 < 18446744073709551616 ∧
    Z0 + Z1 * 18446744073709551616 < 340282366920938463463374557953744961537 ∧
      Z0 + Z1 * 18446744073709551616 + (Y2 + (if mul.s_c_2 z0 z1 z2 = true then 1 else 0)) * 340282366920938463463374557953744961537
        = y0 + Y1 * 18446744073709551616 + Y2 * 340282366920938463463374607431768211456 := by
  have hc : mul.s_c_2 z0 z1 z2 = true ↔ (z2 = 1 ∨ (z1 = 18446744073709551615 ∧ z0 ≥ 18446694595686301697)) := by
    unfold mul.s_c_2
    simp only [decide_eq_true_eq, Nat.reduceDiv, Nat.reduceMod]
  unfold mul.s_z0_2 at hZ0
  unfold mul.s_z1_2 at hZ1
  by_cases h : mul.s_c_2 z0 z1 z2 = true
  · rw [if_pos h] at hZ0 hZ1
    rw [if_pos h]
    subst hZ0 hZ1
    rcases hc.1 h with h2 | ⟨h3, h4⟩
    · subst h2
      have e : (z0 + z1 * 18446744073709551616 + 49478023249919) % 340282366920938463463374607431768211456
          = z0 + z1 * 18446744073709551616 + 49478023249919 := Nat.mod_eq_of_lt (by omega)
      rw [e] at hw
      omega
    · have hz2' : z2 = 0 := by omega
      subst hz2' h3
      have e : (z0 + 18446744073709551615 * 18446744073709551616 + 49478023249919) % 340282366920938463463374607431768211456
          = z0 + 18446744073709551615 * 18446744073709551616 + 49478023249919 - 340282366920938463463374607431768211456 := by
        omega
      rw [e] at hw
      omega
  · rw [if_neg h] at hZ0 hZ1
    rw [if_neg h]
    subst hZ0 hZ1
    have h' := mt hc.2 h
    have : z2 = 0 := by omega
    subst this
    omega

def tail3 (y0 y1_3 y2_3 : Nat) : Nat :=
  let r_7 := mul.s_r_7 y0 y1_3 y2_3
  let z0 := mul.s_z0 r_7
  let z1 := mul.s_z1 r_7
  let z2 := mul.s_z2 r_7
  let c_2 := mul.s_c_2 z0 z1 z2
  let r_8 := mul.s_r_8 z0 z1
  let t0_2 := mul.s_t0_2 r_8
  let t1_2 := mul.s_t1_2 r_8
  let z0_1 := mul.s_z0_1 t0_2
  let z1_1 := mul.s_z1_1 t1_2
  let z0_2 := mul.s_z0_2 z0 c_2 z0_1
  let z1_2 := mul.s_z1_2 z1 c_2 z1_1
  (z1_2 * 18446744073709551616 % 340282366920938463463374607431768211456) + z0_2

def tail2 (a b x0_3 x1_3 : Nat) : Nat :=
  let r_3 := mul.s_r_3 a b
  let y0 := mul.s_y0 r_3
  let y1 := mul.s_y1 r_3
  let y2 := mul.s_y2 r_3
  let r_4 := mul.s_r_4 x0_3 y1
  let y1_1 := mul.s_y1_1 r_4
  let carry := mul.s_carry r_4
  let r_5 := mul.s_r_5 x1_3 y2 carry
  let y2_1 := mul.s_y2_1 r_5
  let y3 := mul.s_y3 r_5
  let c_1 := mul.s_c_1 y3
  let r_6 := mul.s_r_6 y1_1 y2_1
  let t0_1 := mul.s_t0_1 r_6
  let t1_1 := mul.s_t1_1 r_6
  let y1_2 := mul.s_y1_2 t0_1
  let y2_2 := mul.s_y2_2 t1_1
  let y1_3 := mul.s_y1_3 y1_1 c_1 y1_2
  let y2_3 := mul.s_y2_3 y2_1 c_1 y2_2
  tail3 y0 y1_3 y2_3

def tail1 (a b : Nat) : Nat :=
  let r := mul.s_r a b
  let x0 := mul.s_x0 r
  let x1 := mul.s_x1 r
  let x2 := mul.s_x2 r
  let r_1 := mul.s_r_1 x0 x1 x2
  let x0_1 := mul.s_x0_1 r_1
  let x1_1 := mul.s_x1_1 r_1
  let x2_1 := mul.s_x2_1 r_1
  let c := mul.s_c x2_1
  let r_2 := mul.s_r_2 x0_1 x1_1
  let t0 := mul.s_t0 r_2
  let t1 := mul.s_t1 r_2
  let x0_2 := mul.s_x0_2 t0
  let x1_2 := mul.s_x1_2 t1
  let x0_3 := mul.s_x0_3 x0_1 c x0_2
  let x1_3 := mul.s_x1_3 x1_1 c x1_2
  tail2 a b x0_3 x1_3

theorem mul_eq_tail (a b : Nat) : mul a b = tail1 a b := rfl

theorem tail3_eq (y0 Y1 Y2 z0 z1 z2 w0 w1 : Nat) (hz : mul_reduce y0 Y1 Y2 = (z0, z1, z2))
    (hw : sub_modulus z0 z1 = (w0, w1)) :
    tail3 y0 Y1 Y2 = mul.s_z1_2 z1 (mul.s_c_2 z0 z1 z2) w1 * 18446744073709551616
        % 340282366920938463463374607431768211456 + mul.s_z0_2 z0 (mul.s_c_2 z0 z1 z2) w0 := by
  unfold tail3
  dsimp only [mul.s_r_7]
  rewrite [hz]
  dsimp only [mul.s_z0, mul.s_z1, mul.s_z2, mul.s_r_8]
  rewrite [hw]
  dsimp only [mul.s_t0_2, mul.s_t1_2, mul.s_z0_1, mul.s_z1_1]

theorem tail2_eq (a b X0 X1 y0 y1 y2 s1 k1 s2 k2 v0 v1 : Nat)
    (e_r3 : mul.s_r_3 a b = (y0, y1, y2))
    (h4 : add64_with_carry y1 X0 0 = (s1, k1))
    (h5 : add64_with_carry y2 X1 k1 = (s2, k2))
    (hv : sub_modulus s1 s2 = (v0, v1)) :
    tail2 a b X0 X1 = tail3 y0 (mul.s_y1_3 s1 (mul.s_c_1 k2) v0) (mul.s_y2_3 s2 (mul.s_c_1 k2) v1) := by
  unfold tail2
  dsimp only
  rewrite [e_r3]
  dsimp only [mul.s_y0, mul.s_y1, mul.s_y2, mul.s_r_4]
  rewrite [h4]
  dsimp only [mul.s_y1_1, mul.s_carry, mul.s_r_5]
  rewrite [h5]
  dsimp only [mul.s_y2_1, mul.s_y3, mul.s_r_6]
  rewrite [hv]
  dsimp only [mul.s_t0_1, mul.s_t1_1, mul.s_y1_2, mul.s_y2_2]

theorem tail1_eq (a b x0 x1 x2 u0 u1 u2 t0 t1 : Nat)
    (e_r : mul.s_r a b = (x0, x1, x2)) (hu : mul_reduce x0 x1 x2 = (u0, u1, u2))
    (ht : sub_modulus u0 u1 = (t0, t1)) :
    tail1 a b = tail2 a b (mul.s_x0_3 u0 (mul.s_c u2) t0) (mul.s_x1_3 u1 (mul.s_c u2) t1) := by
  unfold tail1
  dsimp only
  rewrite [e_r]
  dsimp only [mul.s_x0, mul.s_x1, mul.s_x2, mul.s_r_1]
  rewrite [hu]
  dsimp only [mul.s_x0_1, mul.s_x1_1, mul.s_x2_1, mul.s_r_2]
  rewrite [ht]
  dsimp only [mul.s_t0, mul.s_t1, mul.s_x0_2, mul.s_x1_2]

/-! ### the same staging for `mul_ok` -/

def ok3 (pre : Bool) (y0 y1_3 y2_3 : Nat) : Bool :=
  let r_7 := mul.s_r_7 y0 y1_3 y2_3
  let z0 := mul.s_z0 r_7
  let z1 := mul.s_z1 r_7
  let z2 := mul.s_z2 r_7
  let c_2 := mul.s_c_2 z0 z1 z2
  let r_8 := mul.s_r_8 z0 z1
  let t0_2 := mul.s_t0_2 r_8
  let t1_2 := mul.s_t1_2 r_8
  let z0_1 := mul.s_z0_1 t0_2
  let z1_1 := mul.s_z1_1 t1_2
  let z0_2 := mul.s_z0_2 z0 c_2 z0_1
  let z1_2 := mul.s_z1_2 z1 c_2 z1_1
  pre &&
    decide (mul_reduce_ok y0 y1_3 y2_3 = true) &&
    decide ((c_2 = true) → (sub_modulus_ok z0 z1 = true)) &&
    decide ((z1_2 * 18446744073709551616 % 340282366920938463463374607431768211456) + z0_2 < 340282366920938463463374607431768211456)

def ok2 (pre : Bool) (a b x0_3 x1_3 : Nat) : Bool :=
  let r_3 := mul.s_r_3 a b
  let y0 := mul.s_y0 r_3
  let y1 := mul.s_y1 r_3
  let y2 := mul.s_y2 r_3
  let r_4 := mul.s_r_4 x0_3 y1
  let y1_1 := mul.s_y1_1 r_4
  let carry := mul.s_carry r_4
  let r_5 := mul.s_r_5 x1_3 y2 carry
  let y2_1 := mul.s_y2_1 r_5
  let y3 := mul.s_y3 r_5
  let c_1 := mul.s_c_1 y3
  let r_6 := mul.s_r_6 y1_1 y2_1
  let t0_1 := mul.s_t0_1 r_6
  let t1_1 := mul.s_t1_1 r_6
  let y1_2 := mul.s_y1_2 t0_1
  let y2_2 := mul.s_y2_2 t1_1
  let y1_3 := mul.s_y1_3 y1_1 c_1 y1_2
  let y2_3 := mul.s_y2_3 y2_1 c_1 y2_2
  ok3 (pre &&
    decide (mul_128x64_ok a (b % 18446744073709551616) = true) &&
    decide (add64_with_carry_ok y1 x0_3 0 = true) &&
    decide (add64_with_carry_ok y2 x1_3 carry = true) &&
    decide ((c_1 = true) → (sub_modulus_ok y1_1 y2_1 = true))) y0 y1_3 y2_3

def ok1 (a b : Nat) : Bool :=
  let r := mul.s_r a b
  let x0 := mul.s_x0 r
  let x1 := mul.s_x1 r
  let x2 := mul.s_x2 r
  let r_1 := mul.s_r_1 x0 x1 x2
  let x0_1 := mul.s_x0_1 r_1
  let x1_1 := mul.s_x1_1 r_1
  let x2_1 := mul.s_x2_1 r_1
  let c := mul.s_c x2_1
  let r_2 := mul.s_r_2 x0_1 x1_1
  let t0 := mul.s_t0 r_2
  let t1 := mul.s_t1 r_2
  let x0_2 := mul.s_x0_2 t0
  let x1_2 := mul.s_x1_2 t1
  let x0_3 := mul.s_x0_3 x0_1 c x0_2
  let x1_3 := mul.s_x1_3 x1_1 c x1_2
  ok2 (decide (mul_128x64_ok a ((b / 18446744073709551616) % 18446744073709551616) = true) &&
    decide (mul_reduce_ok x0 x1 x2 = true) &&
    decide ((c = true) → (sub_modulus_ok x0_1 x1_1 = true))) a b x0_3 x1_3

set_option maxRecDepth 8000 in
theorem mul_ok_eq_ok1 (a b : Nat) : mul_ok a b = ok1 a b := rfl

theorem and_true' (p q : Bool) (hp : p = true) (hq : q = true) : (p && q) = true := by
  rw [hp, hq]; rfl

theorem sub_modulus_ok_true (lo hi : Nat) : sub_modulus_ok lo hi = true := rfl

theorem ok3_eq (pre : Bool) (y0 Y1 Y2 z0 z1 z2 w0 w1 : Nat) (hpre : pre = true)
    (hz : mul_reduce y0 Y1 Y2 = (z0, z1, z2)) (hzok : mul_reduce_ok y0 Y1 Y2 = true)
    (hw : sub_modulus z0 z1 = (w0, w1))
    (hfin : mul.s_z1_2 z1 (mul.s_c_2 z0 z1 z2) w1 * 18446744073709551616
        % 340282366920938463463374607431768211456 + mul.s_z0_2 z0 (mul.s_c_2 z0 z1 z2) w0
        < 340282366920938463463374607431768211456) :
    ok3 pre y0 Y1 Y2 = true := by
  unfold ok3
  dsimp only
  refine and_true' _ _ (and_true' _ _ (and_true' _ _ hpre ?_) ?_) ?_
  · exact decide_eq_true hzok
  · exact decide_eq_true (fun _ => sub_modulus_ok_true _ _)
  · apply decide_eq_true
    dsimp only [mul.s_r_7]
    rewrite [hz]
    dsimp only [mul.s_z0, mul.s_z1, mul.s_z2, mul.s_r_8]
    rewrite [hw]
    exact hfin

theorem ok2_eq (pre : Bool) (a b X0 X1 y0 y1 y2 s1 k1 s2 k2 v0 v1 : Nat) (hpre : pre = true)
    (e_r3 : mul.s_r_3 a b = (y0, y1, y2))
    (hyok : mul_128x64_ok a (b % 18446744073709551616) = true)
    (h4 : add64_with_carry y1 X0 0 = (s1, k1)) (h4ok : add64_with_carry_ok y1 X0 0 = true)
    (h5 : add64_with_carry y2 X1 k1 = (s2, k2)) (h5ok : add64_with_carry_ok y2 X1 k1 = true)
    (hv : sub_modulus s1 s2 = (v0, v1))
    (h3 : ∀ pre', pre' = true →
      ok3 pre' y0 (mul.s_y1_3 s1 (mul.s_c_1 k2) v0) (mul.s_y2_3 s2 (mul.s_c_1 k2) v1) = true) :
    ok2 pre a b X0 X1 = true := by
  unfold ok2
  dsimp only
  generalize hP : (pre &&
    decide (mul_128x64_ok a (b % 18446744073709551616) = true) &&
    decide (add64_with_carry_ok (mul.s_y1 (mul.s_r_3 a b)) X0 0 = true) &&
    decide (add64_with_carry_ok (mul.s_y2 (mul.s_r_3 a b)) X1
      (mul.s_carry (mul.s_r_4 X0 (mul.s_y1 (mul.s_r_3 a b)))) = true) &&
    decide ((mul.s_c_1 (mul.s_y3 (mul.s_r_5 X1 (mul.s_y2 (mul.s_r_3 a b))
      (mul.s_carry (mul.s_r_4 X0 (mul.s_y1 (mul.s_r_3 a b)))))) = true) →
      (sub_modulus_ok (mul.s_y1_1 (mul.s_r_4 X0 (mul.s_y1 (mul.s_r_3 a b))))
        (mul.s_y2_1 (mul.s_r_5 X1 (mul.s_y2 (mul.s_r_3 a b))
          (mul.s_carry (mul.s_r_4 X0 (mul.s_y1 (mul.s_r_3 a b)))))) = true))) = P
  have hPt : P = true := by
    rewrite [← hP]
    refine and_true' _ _ (and_true' _ _ (and_true' _ _ (and_true' _ _ hpre ?_) ?_) ?_) ?_
    · exact decide_eq_true hyok
    · apply decide_eq_true
      rewrite [e_r3]
      exact h4ok
    · apply decide_eq_true
      rewrite [e_r3]
      dsimp only [mul.s_y1, mul.s_y2, mul.s_r_4]
      rewrite [h4]
      exact h5ok
    · exact decide_eq_true (fun _ => sub_modulus_ok_true _ _)
  clear hP
  rewrite [e_r3]
  dsimp only [mul.s_y0, mul.s_y1, mul.s_y2, mul.s_r_4]
  rewrite [h4]
  dsimp only [mul.s_y1_1, mul.s_carry, mul.s_r_5]
  rewrite [h5]
  dsimp only [mul.s_y2_1, mul.s_y3, mul.s_r_6]
  rewrite [hv]
  dsimp only [mul.s_t0_1, mul.s_t1_1, mul.s_y1_2, mul.s_y2_2]
  exact h3 P hPt

theorem ok1_eq (a b x0 x1 x2 u0 u1 u2 t0 t1 : Nat)
    (e_r : mul.s_r a b = (x0, x1, x2))
    (hxok : mul_128x64_ok a ((b / 18446744073709551616) % 18446744073709551616) = true)
    (hu : mul_reduce x0 x1 x2 = (u0, u1, u2)) (huok : mul_reduce_ok x0 x1 x2 = true)
    (ht : sub_modulus u0 u1 = (t0, t1))
    (h2 : ∀ pre', pre' = true →
      ok2 pre' a b (mul.s_x0_3 u0 (mul.s_c u2) t0) (mul.s_x1_3 u1 (mul.s_c u2) t1) = true) :
    ok1 a b = true := by
  unfold ok1
  dsimp only
  generalize hP : (decide (mul_128x64_ok a ((b / 18446744073709551616) % 18446744073709551616) = true) &&
    decide (mul_reduce_ok (mul.s_x0 (mul.s_r a b)) (mul.s_x1 (mul.s_r a b)) (mul.s_x2 (mul.s_r a b)) = true) &&
    decide ((mul.s_c (mul.s_x2_1 (mul.s_r_1 (mul.s_x0 (mul.s_r a b)) (mul.s_x1 (mul.s_r a b))
        (mul.s_x2 (mul.s_r a b)))) = true) →
      (sub_modulus_ok (mul.s_x0_1 (mul.s_r_1 (mul.s_x0 (mul.s_r a b)) (mul.s_x1 (mul.s_r a b))
        (mul.s_x2 (mul.s_r a b))))
        (mul.s_x1_1 (mul.s_r_1 (mul.s_x0 (mul.s_r a b)) (mul.s_x1 (mul.s_r a b))
        (mul.s_x2 (mul.s_r a b)))) = true))) = P
  have hPt : P = true := by
    rewrite [← hP]
    refine and_true' _ _ (and_true' _ _ ?_ ?_) ?_
    · exact decide_eq_true hxok
    · apply decide_eq_true
      rewrite [e_r]
      exact huok
    · exact decide_eq_true (fun _ => sub_modulus_ok_true _ _)
  clear hP
  rewrite [e_r]
  dsimp only [mul.s_x0, mul.s_x1, mul.s_x2, mul.s_r_1]
  rewrite [hu]
  dsimp only [mul.s_x0_1, mul.s_x1_1, mul.s_x2_1, mul.s_r_2]
  rewrite [ht]
  dsimp only [mul.s_t0, mul.s_t1, mul.s_x0_2, mul.s_x1_2]
  exact h2 P hPt

theorem prod_split (a bh bl : Nat) :
    a * (bh * 18446744073709551616 + bl) = a * bh * 18446744073709551616 + a * bl := by
  rw [Nat.mul_add, Nat.mul_assoc]

theorem shiftW (z : Nat) (h : z < 18446744073709551616) :
    z * 18446744073709551616 % 340282366920938463463374607431768211456 = z * 18446744073709551616 := by
  omega

theorem fin_lt (Z0 Z1 : Nat) (h : Z0 + Z1 * 18446744073709551616 < 340282366920938463463374557953744961537) :
    Z1 * 18446744073709551616 + Z0 < 340282366920938463463374607431768211456 := by omega

theorem fin_glue (P1 P2 X Yv R K k2 Y2 e : Nat)
    (hA : X + K * 340282366920938463463374557953744961537 = P1)
    (hB : Yv + k2 * 6277101735386680763835788510499234251795633110911436193792
        = P2 + X * 18446744073709551616)
    (hC : R + (Y2 + e) * 340282366920938463463374557953744961537 = Yv) :
    R + ((Y2 + e) * 340282366920938463463374557953744961537
        + (k2 + K) * 6277101735386680763835788510499234251795633110911436193792)
      = P1 * 18446744073709551616 + P2 := by
  subst hA hC
  omega

theorem q_glue (q1 q2 : Nat) :
    (q1 + q2 * 18446744073709551616) * 340282366920938463463374557953744961537
      = q1 * 340282366920938463463374557953744961537
        + q2 * 6277101735386680763835788510499234251795633110911436193792 := by
  rw [Nat.add_mul, Nat.mul_assoc]

/-- the multiplication of the 128-bit field: canonical result, congruent to the integer product,
    and no overflow of any checked operation -/
theorem mul_spec (a b : Nat) (ha : a < 340282366920938463463374557953744961537)
    (hb : b < 340282366920938463463374557953744961537) :
    mul a b < 340282366920938463463374557953744961537 ∧
      (∃ q, mul a b + q * 340282366920938463463374557953744961537 = a * b) ∧
      mul_ok a b = true := by
  obtain ⟨bh, bl, rfl, hbh, hbl⟩ : ∃ bh bl, b = bh * 18446744073709551616 + bl ∧
      bh < 18446744073709551616 ∧ bl < 18446744073709551616 :=
    ⟨b / 18446744073709551616, b % 18446744073709551616, by omega, by omega, by omega⟩
  have eb1 : (bh * 18446744073709551616 + bl) / 18446744073709551616 % 18446744073709551616 = bh := by
    omega
  have eb2 : (bh * 18446744073709551616 + bl) % 18446744073709551616 = bl := by omega
  have ha2 : a < 340282366920938463463374607431768211456 := by omega
  -- x = a * b_hi, reduced
  obtain ⟨x0, x1, x2, hx, hx0, hx1, hx2, hxv, hxok⟩ := mul_128x64_spec a bh ha2 hbh
  obtain ⟨u0, u1, u2, hu, hu0, hu1, hu2, huv, huok⟩ := mul_reduce_spec x0 x1 x2 hx0 hx1 hx2
  obtain ⟨t0, t1, ht, ht0, ht1, htv⟩ := sub_modulus_spec u0 u1
  obtain ⟨X0, hX0⟩ : ∃ X0, X0 = mul.s_x0_3 u0 (mul.s_c u2) t0 := ⟨_, rfl⟩
  obtain ⟨X1, hX1⟩ : ∃ X1, X1 = mul.s_x1_3 u1 (mul.s_c u2) t1 := ⟨_, rfl⟩
  obtain ⟨hX0l, hX1l, hA⟩ := glueA x0 x1 x2 u0 u1 u2 t0 t1 X0 X1 hx0 hx1 hx2 hu0 hu1 hu2 ht0 ht1 huv htv hX0 hX1
  -- y = a * b_lo + (x << 64)
  obtain ⟨y0, y1, y2, hy, hy0, hy1, hy2, hyv, hyok⟩ := mul_128x64_spec a bl ha2 hbl
  obtain ⟨s1, k1, h4, hs1, hk1, h4v, h4ok⟩ := add64_with_carry_spec y1 X0 0 hy1 hX0l (by omega)
  obtain ⟨s2, k2, h5, hs2, hk2, h5v, h5ok⟩ := add64_with_carry_spec y2 X1 k1 hy2 hX1l hk1
  obtain ⟨v0, v1, hv, hv0, hv1, hvv⟩ := sub_modulus_spec s1 s2
  obtain ⟨Y1, hY1⟩ : ∃ Y1, Y1 = mul.s_y1_3 s1 (mul.s_c_1 k2) v0 := ⟨_, rfl⟩
  obtain ⟨Y2, hY2⟩ : ∃ Y2, Y2 = mul.s_y2_3 s2 (mul.s_c_1 k2) v1 := ⟨_, rfl⟩
  have hP2 : a * bl ≤ 340282366920938463463374557953744961536 * 18446744073709551615 :=
    Nat.mul_le_mul (by omega) (by omega)
  rw [val3_mk] at hxv hyv
  obtain ⟨hY1l, hY2l, hB⟩ := glueB y0 y1 y2 X0 X1 s1 k1 s2 k2 v0 v1 Y1 Y2 hy0 hX0l hX1l hs1 hs2 hk2
    hv0 hv1 (by rw [hyv]; exact hP2) h4v h5v hvv hY1 hY2
  -- z = reduced y, final conditional subtraction
  obtain ⟨z0, z1, z2, hz, hz0, hz1, hz2, hzv, hzok⟩ := mul_reduce_spec y0 Y1 Y2 hy0 hY1l hY2l
  obtain ⟨w0, w1, hw, hw0, hw1, hwv⟩ := sub_modulus_spec z0 z1
  obtain ⟨Z0, hZ0⟩ : ∃ Z0, Z0 = mul.s_z0_2 z0 (mul.s_c_2 z0 z1 z2) w0 := ⟨_, rfl⟩
  obtain ⟨Z1, hZ1⟩ : ∃ Z1, Z1 = mul.s_z1_2 z1 (mul.s_c_2 z0 z1 z2) w1 := ⟨_, rfl⟩
  obtain ⟨hZ0l, hZ1l, hZlt, hC⟩ := glueC y0 Y1 Y2 z0 z1 z2 w0 w1 Z0 Z1 hy0 hY1l hY2l hz0 hz1 hz2 hw0 hw1
    hzv hwv hZ0 hZ1
  -- the generated definitions in terms of these values
  have e_r : mul.s_r a (bh * 18446744073709551616 + bl) = (x0, x1, x2) := by
    unfold mul.s_r; rewrite [eb1]; exact hx
  have e_r3 : mul.s_r_3 a (bh * 18446744073709551616 + bl) = (y0, y1, y2) := by
    unfold mul.s_r_3; rewrite [eb2]; exact hy
  have hres : mul a (bh * 18446744073709551616 + bl)
      = Z1 * 18446744073709551616 % 340282366920938463463374607431768211456 + Z0 := by
    rewrite [mul_eq_tail, tail1_eq _ _ _ _ _ _ _ _ _ _ e_r hu ht, ← hX0, ← hX1,
      tail2_eq _ _ _ _ _ _ _ _ _ _ _ _ _ e_r3 h4 h5 hv, ← hY1, ← hY2,
      tail3_eq _ _ _ _ _ _ _ _ hz hw, ← hZ0, ← hZ1]
    exact rfl
  refine ⟨?_, ?_, ?_⟩
  · rewrite [hres, shiftW Z1 hZ1l, Nat.add_comm]
    exact hZlt
  · rewrite [hres, shiftW Z1 hZ1l, prod_split]
    refine ⟨(Y2 + (if mul.s_c_2 z0 z1 z2 = true then 1 else 0))
      + (k2 + (x2 + u2)) * 18446744073709551616, ?_⟩
    rewrite [q_glue, ← hxv, ← hyv]
    have := fin_glue _ _ _ _ (Z0 + Z1 * 18446744073709551616) _ _ _ _ hA hB hC
    rewrite [Nat.add_comm Z0] at this
    exact this
  · rewrite [mul_ok_eq_ok1]
    apply ok1_eq _ _ _ _ _ _ _ _ _ _ e_r (by rewrite [eb1]; exact hxok) hu huok ht
    intro pre1 hpre1
    rewrite [← hX0, ← hX1]
    apply ok2_eq _ _ _ _ _ _ _ _ _ _ _ _ _ _ hpre1 e_r3 (by rewrite [eb2]; exact hyok) h4 h4ok h5 h5ok hv
    intro pre2 hpre2
    rewrite [← hY1, ← hY2]
    apply ok3_eq _ _ _ _ _ _ _ _ _ hpre2 hz hzok hw
    rewrite [← hZ0, ← hZ1, shiftW Z1 hZ1l]
    exact fin_lt Z0 Z1 hZlt

end WinterProofs.F128L
