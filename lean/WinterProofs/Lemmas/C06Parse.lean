-- helper lemmas for C06: specifications (no panic, invariants of the parsed value, allocation bound) of the
-- component readers of `Proof::from_bytes` as modelled in Winter/Model/Parse.lean
import WinterProofs.Lemmas.C06Spec

namespace WinterProofs.C06L
open Model Model.Serde Model.Parse

theorem pow2_log (e : Nat) : pow2 (2 ^ e) = true := by
  simp [pow2, Nat.log2_two_pow]

open Gen.Limits in
theorem spec_pOptions {c : Nat} : Spec c 0 0 (fun o => o.wf = true) pOptions := by
  unfold pOptions
  refine spec_seq spec_u8 ?_; intro nq _
  refine spec_seq spec_u8 ?_; intro bl _
  refine spec_seq spec_u8 ?_; intro gr _
  refine spec_seq (spec_lift0 dspec_fext) ?_; intro fe hfe
  refine spec_seq spec_u8 ?_; intro ff _
  refine spec_seq spec_u8 ?_; intro rd _
  refine spec_ite (fun _ => spec_fail) ?_; intro h1
  refine spec_ite (fun _ => spec_fail) ?_; intro h2
  refine spec_ite (fun _ => spec_fail) ?_; intro h3
  refine spec_ite (fun _ => spec_fail) ?_; intro h4
  refine spec_ite (fun _ => spec_fail) ?_; intro h5
  have hwf : (ProofOptions.mk nq bl gr fe ff rd).wf = true := by
    simp only [not_or, Bool.not_eq_false, Nat.not_lt] at h1 h2 h3 h4 h5
    simp only [ProofOptions.wf, fext, Bool.and_eq_true, decide_eq_true_eq, Bool.or_eq_true, beq_iff_eq]
    refine ⟨⟨⟨⟨⟨⟨⟨⟨⟨⟨⟨?_, ?_⟩, ?_⟩, ?_⟩, ?_⟩, ?_⟩, ?_⟩, ?_⟩, ?_⟩, ?_⟩, ?_⟩, ?_⟩
    all_goals first | omega | (simp_all; done) | (rcases hfe with h | h | h <;> simp [h])
  simp only [hwf, if_true]
  exact spec_pure hwf

open Gen.Limits in
theorem spec_pTraceInfo {c : Nat} (hc : 1 ≤ c) :
    Spec c 0 0 (fun t => t.wf = true ∧ BytesOk t.metadata) pTraceInfo := by
  unfold pTraceInfo
  refine spec_seq spec_u8 ?_; intro main _
  refine spec_ite (fun _ => spec_fail) ?_; intro h1
  refine spec_seq spec_u8 ?_; intro aux _
  refine spec_ite (fun _ => spec_fail) ?_; intro h2
  refine spec_seq spec_u8 ?_; intro rands _
  refine spec_ite (fun _ => spec_fail) ?_; intro h3
  refine spec_ite (fun _ => spec_fail) ?_; intro h4
  refine spec_seq spec_u8 ?_; intro e _
  refine spec_ite (fun _ => spec_fail) ?_; intro h5
  refine spec_ite (fun _ => spec_fail) ?_; intro h6
  refine spec_seq (spec_lift0 (dspec_readUInt 2)) ?_; intro n hn
  have hmd : Spec c 0 0 (fun md : Bytes => md.length ≤ 65535 ∧ BytesOk md)
      (if n ≠ 0 then readVec n else pure []) := by
    refine spec_ite (fun _ => ?_) (fun _ => ?_)
    · exact spec_weaken (spec_readVec hc n) (Int.le_refl 0) (Nat.le_refl 0) (fun s hs => ⟨by rw [hs.1]; omega, hs.2⟩)
    · exact spec_pure ⟨by simp, BytesOk.nil⟩
  refine spec_seq hmd ?_; intro md hmd
  have he1 : 8 ≤ 2 ^ e := by
    calc 8 = 2 ^ 3 := by decide
      _ ≤ 2 ^ e := Nat.pow_le_pow_right (by omega) (by omega)
  have he2 : 2 ^ e < 18446744073709551616 := by
    calc 2 ^ e < 2 ^ 64 := Nat.pow_lt_pow_right (by omega) (by omega)
      _ = 18446744073709551616 := by decide
  have h31 : (aux != 0 || rands == 0) = true := by
    by_cases ha : aux = 0
    · have : rands = 0 := Decidable.byContradiction (fun hr => h3 ⟨ha, hr⟩)
      simp [this]
    · simp [ha]
  have hwf : (TraceInfo.mk main aux rands (2 ^ e) md).wf = true := by
    simp only [TraceInfo.wf, Bool.and_eq_true, decide_eq_true_eq, pow2_log, h31,
      MIN_TRACE_LENGTH, MAX_META_LENGTH, MAX_TRACE_WIDTH, MAX_RAND_SEGMENT_ELEMENTS]
    simp only [MAX_TRACE_WIDTH, MAX_RAND_SEGMENT_ELEMENTS] at h2 h4
    refine ⟨⟨⟨⟨⟨⟨⟨?_, ?_⟩, ?_⟩, ?_⟩, ?_⟩, ?_⟩, ?_⟩, ?_⟩
    all_goals first | omega | trivial | (apply decide_eq_true; first | omega | exact hmd.1)
  simp only [hwf, if_true]
  exact spec_pure ⟨hwf, hmd.2⟩

-- ------------------------------------------------------------------------------------------------
-- invariants of a parsed proof

def CtxOk (c : Context) : Prop :=
  c.traceInfo.wf = true ∧ c.options.wf = true ∧ c.traceInfo.length ≤ 4294967295 ∧
  c.traceInfo.length * c.options.blowup ≤ 4294967295 ∧ BytesOk c.modulus ∧ BytesOk c.traceInfo.metadata

def QueriesOk (q : Queries) : Prop := BytesOk q.values ∧ BytesOk q.paths

def OodOk (f : OodFrame) : Prop := BytesOk f.traceStates ∧ BytesOk f.lagrange ∧ BytesOk f.evaluations

def LayerOk (l : FriLayer) : Prop := BytesOk l.values ∧ BytesOk l.paths

def FriOk (f : FriProof) : Prop :=
  (∀ l ∈ f.layers, LayerOk l) ∧ f.layers.length < 256 ∧ BytesOk f.remainder ∧ f.numPartitions < 64

/-- what `Proof::from_bytes` guarantees about the value it returns -/
def ProofOk (p : Proof) : Prop :=
  CtxOk p.context ∧ p.numUniqueQueries < 256 ∧ BytesOk p.commitments ∧
  p.traceQueries.length = p.context.traceInfo.numSegments ∧ (∀ q ∈ p.traceQueries, QueriesOk q) ∧
  QueriesOk p.constraintQueries ∧ OodOk p.oodFrame ∧ FriOk p.friProof

theorem spec_pContext {c : Nat} (hc : 1 ≤ c) : Spec c 0 0 CtxOk pContext := by
  unfold pContext
  refine spec_seq (spec_pTraceInfo hc) ?_; intro ti hti
  refine spec_seq spec_u8 ?_; intro n _
  refine spec_ite (fun _ => spec_fail) ?_; intro _
  refine spec_seq (spec_readVec hc n) ?_; intro m hm
  refine spec_seq spec_pOptions ?_; intro o ho
  refine spec_ite (fun _ => spec_fail) ?_; intro h1
  refine spec_ite (fun _ => spec_fail) ?_; intro h2
  exact spec_pure ⟨hti.1, ho, Nat.le_of_not_lt h1, Nat.le_of_not_lt h2, hm.2, hti.2⟩

theorem spec_pQueries {c : Nat} (hc : 1 ≤ c) : Spec c 0 0 QueriesOk pQueries := by
  unfold pQueries
  refine spec_seq (spec_pBlock hc 4) ?_; intro v hv
  refine spec_seq (spec_pBlock hc 4) ?_; intro p hp
  exact spec_pure ⟨hv.2, hp.2⟩

theorem spec_pOod {c : Nat} (hc : 1 ≤ c) : Spec c 0 0 OodOk pOod := by
  unfold pOod
  refine spec_seq (spec_pBlock hc 2) ?_; intro t ht
  refine spec_seq (spec_pBlock hc 2) ?_; intro l hl
  refine spec_seq (spec_pBlock hc 2) ?_; intro e he
  exact spec_pure ⟨ht.2, hl.2, he.2⟩

theorem spec_pFriLayer {c : Nat} (hc : 1 ≤ c) : Spec c 0 0 LayerOk pFriLayer := by
  unfold pFriLayer
  refine spec_seq (spec_lift0 (dspec_readUInt 4)) ?_; intro n _
  refine spec_ite (fun _ => spec_fail) ?_; intro _
  refine spec_seq (spec_readVec hc n) ?_; intro v hv
  refine spec_seq (spec_pBlock hc 4) ?_; intro p hp
  exact spec_pure ⟨hv.2, hp.2⟩

theorem spec_pFri {c : Nat} (hc : 1 ≤ c) : Spec c MAX_PREALLOC MAX_PREALLOC FriOk pFri := by
  unfold pFri
  refine spec_seq spec_u8 ?_; intro n hn
  have hcap : MAX_PREALLOC / max SIZE_TWO_VECS 1 = 1365 := by decide
  have hl := spec_readManyA (c := c) SIZE_TWO_VECS n (spec_pFriLayer hc) (Int.le_refl 0) (fun h => absurd (by
    rw [hcap]; omega) h)
  refine spec_bindk (k2 := 0) (kf2 := 0) hl (fun ls hls => ?_) (by omega) (by omega) (by omega)
  refine spec_seq (spec_pBlock hc 2) ?_; intro r hr
  refine spec_seq spec_u8 ?_; intro np _
  refine spec_ite (fun _ => spec_fail) ?_; intro hnp
  exact spec_pure ⟨hls.2, by rw [hls.1]; exact hn, hr.2, Nat.lt_of_not_le hnp⟩

theorem spec_pGkr {c : Nat} (hc : 3 ≤ c) : Spec c 0 MAX_PREALLOC (fun _ => True) pGkr := by
  unfold pGkr
  refine spec_seq (spec_lift0 dspec_readBool) ?_; intro b _
  cases b with
  | false =>
    simp only [Bool.false_eq_true, if_false]
    exact spec_weaken (spec_pure trivial) (Int.le_refl 0) (Nat.zero_le _) (fun _ h => h)
  | true =>
    simp only [if_true]
    refine spec_seq (spec_lift0 dspec_readUsize) ?_; intro n _
    have hv := spec_readManyA_lift (c := c) 1 n dspec_readU8 (by omega)
    exact spec_bindk hv (fun v _ => spec_pure trivial) (Int.le_refl (0 + 0)) (Nat.le_refl _) (by omega)

/-- the constant part of the allocation bound of `Proof::from_bytes` on success: the capacity for the query sets
    of at most two trace segments and the bounded pre-allocation of the FRI layer vector -/
def PARSE_C0 : Nat := 2 * SIZE_TWO_VECS + MAX_PREALLOC

/-- on failure: additionally the bounded pre-allocation of the GKR byte vector -/
def PARSE_CF : Nat := PARSE_C0 + MAX_PREALLOC

theorem numSegments_le (t : TraceInfo) : t.numSegments ≤ 2 := by
  unfold TraceInfo.numSegments; split <;> omega

theorem spec_pProof {c : Nat} (hc : 3 ≤ c) : Spec c PARSE_C0 PARSE_CF ProofOk pProof := by
  have hc1 : 1 ≤ c := by omega
  unfold pProof
  refine spec_seq (spec_pContext hc1) ?_; intro ctx hctx
  refine spec_seq spec_u8 ?_; intro nuq hnuq
  refine spec_seq (spec_pBlock hc1 2) ?_; intro cm hcm
  have hseg : ctx.traceInfo.numSegments * SIZE_TWO_VECS ≤ 2 * SIZE_TWO_VECS :=
    Nat.mul_le_mul_right _ (numSegments_le _)
  refine spec_bindk (k2 := MAX_PREALLOC) (kf2 := MAX_PREALLOC + MAX_PREALLOC) (spec_alloc _) (fun _ _ => ?_)
    (by unfold PARSE_C0; omega) (Nat.zero_le _) (by unfold PARSE_CF PARSE_C0; omega)
  have hq := spec_weaken (k' := 0) (spec_loopMany (spec_pQueries hc1) (Int.le_refl 0) ctx.traceInfo.numSegments)
    (by simp) (Nat.le_refl 0) (fun _ h => h)
  refine spec_seq hq ?_; intro tq htq
  refine spec_seq (spec_pQueries hc1) ?_; intro cq hcq
  refine spec_seq (spec_pOod hc1) ?_; intro ood hood
  refine spec_bindk (k2 := 0) (kf2 := MAX_PREALLOC) (spec_pFri hc1) (fun fri hfri => ?_) (by omega) (by omega) (by omega)
  refine spec_seq (spec_lift0 (dspec_readUInt 8)) ?_; intro nonce _
  exact spec_bindk (spec_pGkr hc) (fun gkr _ =>
    spec_pure ⟨hctx, hnuq, hcm.2, htq.1, htq.2, hcq, hood, hfri⟩) (Int.le_refl (0 + 0)) (Nat.le_refl _) (by omega)

end WinterProofs.C06L
