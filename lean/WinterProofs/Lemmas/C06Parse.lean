-- helper lemmas for C06: specifications (no panic, invariants of the parsed value, allocation bound) of the
-- component readers of `Proof::from_bytes` as modelled in Winter/Model/Parse.lean
import WinterProofs.Lemmas.C06Spec

namespace WinterProofs.C06L
open Model Model.Serde Model.Parse

theorem spec_bind0 {c k : Nat} {Q1 : α → Prop} {Q2 : β → Prop} {d : PDec α} {f : α → PDec β}
    (h1 : Spec c 0 Q1 d) (h2 : ∀ x, Q1 x → Spec c k Q2 (f x)) : Spec c k Q2 (d >>= f) := by
  have := spec_bind h1 h2
  simpa using this

theorem spec_bindk {c k k1 k2 : Nat} {Q1 : α → Prop} {Q2 : β → Prop} {d : PDec α} {f : α → PDec β}
    (h1 : Spec c k1 Q1 d) (h2 : ∀ x, Q1 x → Spec c k2 Q2 (f x)) (hk : k1 + k2 ≤ k) : Spec c k Q2 (d >>= f) :=
  spec_weaken (spec_bind h1 h2) hk (fun _ h => h)

theorem spec_ite {c k : Nat} {Q : α → Prop} {p : Prop} [Decidable p] {t e : PDec α}
    (ht : p → Spec c k Q t) (he : ¬ p → Spec c k Q e) : Spec c k Q (if p then t else e) := by
  by_cases h : p
  · simp only [h, if_true]; exact ht h
  · simp only [h, if_false]; exact he h

theorem pow2_log (e : Nat) : pow2 (2 ^ e) = true := by
  simp [pow2, Nat.log2_two_pow]

open Gen.Limits in
theorem spec_pOptions {c : Nat} : Spec c 0 (fun o => o.wf = true) pOptions := by
  unfold pOptions
  refine spec_bind0 spec_u8 ?_; intro nq _
  refine spec_bind0 spec_u8 ?_; intro bl _
  refine spec_bind0 spec_u8 ?_; intro gr _
  refine spec_bind0 (spec_lift dspec_fext) ?_; intro fe hfe
  refine spec_bind0 spec_u8 ?_; intro ff _
  refine spec_bind0 spec_u8 ?_; intro rd _
  refine spec_ite (fun _ => spec_fail) ?_; intro h1
  refine spec_ite (fun _ => spec_fail) ?_; intro h2
  refine spec_ite (fun _ => spec_fail) ?_; intro h3
  refine spec_ite (fun _ => spec_fail) ?_; intro h4
  refine spec_ite (fun _ => spec_fail) ?_; intro h5
  have hwf : (ProofOptions.mk nq bl gr fe ff rd).wf = true := by
    simp only [not_or, Bool.not_eq_false, Nat.not_lt] at h1 h2 h3 h4 h5
    simp only [ProofOptions.wf, fext, Bool.and_eq_true, decide_eq_true_eq, Bool.or_eq_true, beq_iff_eq]
    refine ⟨⟨⟨⟨⟨⟨⟨⟨⟨⟨⟨?_, ?_⟩, ?_⟩, ?_⟩, ?_⟩, ?_⟩, ?_⟩, ?_⟩, ?_⟩, ?_⟩, ?_⟩, ?_⟩
    all_goals first | omega | (simp_all; done) | (rcases hfe with h | h | h <;> simp [h])
  simp only [hwf, if_true]
  exact spec_pure hwf

open Gen.Limits in
theorem spec_pTraceInfo {c : Nat} (hc : 1 ≤ c) :
    Spec c 0 (fun t => t.wf = true ∧ BytesOk t.metadata) pTraceInfo := by
  unfold pTraceInfo
  refine spec_bind0 spec_u8 ?_; intro main _
  refine spec_ite (fun _ => spec_fail) ?_; intro h1
  refine spec_bind0 spec_u8 ?_; intro aux _
  refine spec_ite (fun _ => spec_fail) ?_; intro h2
  refine spec_bind0 spec_u8 ?_; intro rands _
  refine spec_ite (fun _ => spec_fail) ?_; intro h3
  refine spec_ite (fun _ => spec_fail) ?_; intro h4
  refine spec_bind0 spec_u8 ?_; intro e _
  refine spec_ite (fun _ => spec_fail) ?_; intro h5
  refine spec_ite (fun _ => spec_fail) ?_; intro h6
  refine spec_bind0 (spec_lift (dspec_readUInt 2)) ?_; intro n hn
  have hmd : Spec c 0 (fun md : Bytes => md.length ≤ 65535 ∧ BytesOk md)
      (if n ≠ 0 then readVec n else pure []) := by
    refine spec_ite (fun _ => ?_) (fun _ => ?_)
    · exact spec_weaken (spec_readVec hc n) (Nat.le_refl 0) (fun s hs => ⟨by rw [hs.1]; omega, hs.2⟩)
    · exact spec_pure ⟨by simp, BytesOk.nil⟩
  refine spec_bind0 hmd ?_; intro md hmd
  have he1 : 8 ≤ 2 ^ e := by
    calc 8 = 2 ^ 3 := by decide
      _ ≤ 2 ^ e := Nat.pow_le_pow_right (by omega) (by omega)
  have he2 : 2 ^ e < 18446744073709551616 := by
    calc 2 ^ e < 2 ^ 64 := Nat.pow_lt_pow_right (by omega) (by omega)
      _ = 18446744073709551616 := by decide
  have h31 : (aux != 0 || rands == 0) = true := by
    by_cases ha : aux = 0
    · have : rands = 0 := Decidable.byContradiction (fun hr => h3 ⟨ha, hr⟩)
      simp [this]
    · simp [ha]
  have hwf : (TraceInfo.mk main aux rands (2 ^ e) md).wf = true := by
    simp only [TraceInfo.wf, Bool.and_eq_true, decide_eq_true_eq, pow2_log, h31,
      MIN_TRACE_LENGTH, MAX_META_LENGTH, MAX_TRACE_WIDTH, MAX_RAND_SEGMENT_ELEMENTS]
    simp only [MAX_TRACE_WIDTH, MAX_RAND_SEGMENT_ELEMENTS] at h2 h4
    refine ⟨⟨⟨⟨⟨⟨⟨?_, ?_⟩, ?_⟩, ?_⟩, ?_⟩, ?_⟩, ?_⟩, ?_⟩
    all_goals first | omega | trivial | (apply decide_eq_true; first | omega | exact hmd.1)
  simp only [hwf, if_true]
  exact spec_pure ⟨hwf, hmd.2⟩

-- ------------------------------------------------------------------------------------------------
-- invariants of a parsed proof

def CtxOk (c : Context) : Prop :=
  c.traceInfo.wf = true ∧ c.options.wf = true ∧ c.traceInfo.length ≤ 4294967295 ∧
  c.traceInfo.length * c.options.blowup ≤ 4294967295 ∧ BytesOk c.modulus ∧ BytesOk c.traceInfo.metadata

def QueriesOk (q : Queries) : Prop := BytesOk q.values ∧ BytesOk q.paths

def OodOk (f : OodFrame) : Prop := BytesOk f.traceStates ∧ BytesOk f.lagrange ∧ BytesOk f.evaluations

def LayerOk (l : FriLayer) : Prop := BytesOk l.values ∧ BytesOk l.paths

def FriOk (f : FriProof) : Prop :=
  (∀ l ∈ f.layers, LayerOk l) ∧ f.layers.length < 256 ∧ BytesOk f.remainder ∧ f.numPartitions < 64

/-- what `Proof::from_bytes` guarantees about the value it returns -/
def ProofOk (p : Proof) : Prop :=
  CtxOk p.context ∧ p.numUniqueQueries < 256 ∧ BytesOk p.commitments ∧
  p.traceQueries.length = p.context.traceInfo.numSegments ∧ (∀ q ∈ p.traceQueries, QueriesOk q) ∧
  QueriesOk p.constraintQueries ∧ OodOk p.oodFrame ∧ FriOk p.friProof

theorem spec_pContext {c : Nat} (hc : 1 ≤ c) : Spec c 0 CtxOk pContext := by
  unfold pContext
  refine spec_bind0 (spec_pTraceInfo hc) ?_; intro ti hti
  refine spec_bind0 spec_u8 ?_; intro n _
  refine spec_ite (fun _ => spec_fail) ?_; intro _
  refine spec_bind0 (spec_readVec hc n) ?_; intro m hm
  refine spec_bind0 spec_pOptions ?_; intro o ho
  refine spec_ite (fun _ => spec_fail) ?_; intro h1
  refine spec_ite (fun _ => spec_fail) ?_; intro h2
  exact spec_pure ⟨hti.1, ho, Nat.le_of_not_lt h1, Nat.le_of_not_lt h2, hm.2, hti.2⟩

theorem spec_pQueries {c : Nat} (hc : 1 ≤ c) : Spec c 0 QueriesOk pQueries := by
  unfold pQueries
  refine spec_bind0 (spec_pBlock hc 4) ?_; intro v hv
  refine spec_bind0 (spec_pBlock hc 4) ?_; intro p hp
  exact spec_pure ⟨hv.2, hp.2⟩

theorem spec_pOod {c : Nat} (hc : 1 ≤ c) : Spec c 0 OodOk pOod := by
  unfold pOod
  refine spec_bind0 (spec_pBlock hc 2) ?_; intro t ht
  refine spec_bind0 (spec_pBlock hc 2) ?_; intro l hl
  refine spec_bind0 (spec_pBlock hc 2) ?_; intro e he
  exact spec_pure ⟨ht.2, hl.2, he.2⟩

theorem spec_pFriLayer {c : Nat} (hc : 1 ≤ c) : Spec c 0 LayerOk pFriLayer := by
  unfold pFriLayer
  refine spec_bind0 (spec_lift (dspec_readUInt 4)) ?_; intro n _
  refine spec_ite (fun _ => spec_fail) ?_; intro _
  refine spec_bind0 (spec_readVec hc n) ?_; intro v hv
  refine spec_bind0 (spec_pBlock hc 4) ?_; intro p hp
  exact spec_pure ⟨hv.2, hp.2⟩

theorem prealloc_le (size n : Nat) : preallocCount size n * size ≤ MAX_PREALLOC := by
  unfold preallocCount
  by_cases hs : size = 0
  · subst hs; simp
  · have h1 : max size 1 = size := by omega
    rw [h1]
    calc min n (MAX_PREALLOC / size) * size ≤ (MAX_PREALLOC / size) * size :=
          Nat.mul_le_mul_right _ (Nat.min_le_right _ _)
      _ ≤ MAX_PREALLOC := Nat.div_mul_le_self _ _

/-- `read_many`: the bounded pre-allocation is the only allocation that is not paid by consumed bytes, provided
    the elements pay for themselves (and for the growth of the vector when more than the pre-allocated number
    are requested) -/
theorem spec_readManyA {c : Nat} {Q : α → Prop} {d : PDec α} (size n : Nat) (h : Spec c 0 Q d)
    (hg : ¬ n ≤ MAX_PREALLOC / max size 1 → Spec c 0 Q (growing size d)) :
    Spec c MAX_PREALLOC (fun xs => xs.length = n ∧ ∀ x ∈ xs, Q x) (readManyA size d n) := by
  unfold readManyA
  refine spec_bindk (k2 := 0) (spec_alloc _) (fun _ _ => ?_) (by have := prealloc_le size n; omega)
  by_cases hn : n ≤ MAX_PREALLOC / max size 1
  · simp only [hn, if_true]; exact spec_loopMany h n
  · simp only [hn, if_false]; exact spec_loopMany (hg hn) n

theorem spec_pFri {c : Nat} (hc : 1 ≤ c) : Spec c MAX_PREALLOC FriOk pFri := by
  unfold pFri
  refine spec_bind0 spec_u8 ?_; intro n hn
  have hcap : MAX_PREALLOC / max SIZE_TWO_VECS 1 = 1365 := by decide
  have hl := spec_readManyA (c := c) SIZE_TWO_VECS n (spec_pFriLayer hc) (fun h => absurd (by
    rw [hcap]; omega) h)
  refine spec_bindk hl (fun ls hls => ?_) (Nat.le_refl (MAX_PREALLOC + 0))
  refine spec_bind0 (spec_pBlock hc 2) ?_; intro r hr
  refine spec_bind0 spec_u8 ?_; intro np _
  refine spec_ite (fun _ => spec_fail) ?_; intro hnp
  exact spec_pure ⟨hls.2, by rw [hls.1]; exact hn, hr.2, Nat.lt_of_not_le hnp⟩

theorem spec_growing_u8 {c : Nat} (hc : 2 ≤ c) : Spec c 0 (fun x => x < 256) (growing 1 u8) := by
  unfold growing u8
  exact spec_lift_pay dspec_readU8 (by omega)

theorem spec_pGkr {c : Nat} (hc : 2 ≤ c) : Spec c MAX_PREALLOC (fun _ => True) pGkr := by
  unfold pGkr
  refine spec_bind0 (spec_lift dspec_readBool) ?_; intro b _
  cases b with
  | false => simp only [Bool.false_eq_true, if_false]; exact spec_weaken (spec_pure trivial) (Nat.zero_le _) (fun _ h => h)
  | true =>
    simp only [if_true]
    refine spec_bind0 (spec_lift dspec_readUsize) ?_; intro n _
    have hv := spec_readManyA (c := c) 1 n spec_u8 (fun _ => spec_growing_u8 hc)
    refine spec_bindk hv (fun v _ => ?_) (Nat.le_refl (MAX_PREALLOC + 0))
    exact spec_pure trivial

/-- the constant part of the allocation bound of `Proof::from_bytes`: the capacity for the query sets of at most
    two trace segments and the two bounded `read_many` pre-allocations (FRI layers, GKR proof) -/
def PARSE_C0 : Nat := 2 * SIZE_TWO_VECS + MAX_PREALLOC + MAX_PREALLOC

theorem numSegments_le (t : TraceInfo) : t.numSegments ≤ 2 := by
  unfold TraceInfo.numSegments; split <;> omega

theorem spec_pProof {c : Nat} (hc : 2 ≤ c) : Spec c PARSE_C0 ProofOk pProof := by
  have hc1 : 1 ≤ c := by omega
  unfold pProof
  refine spec_bind0 (spec_pContext hc1) ?_; intro ctx hctx
  refine spec_bind0 spec_u8 ?_; intro nuq hnuq
  refine spec_bind0 (spec_pBlock hc1 2) ?_; intro cm hcm
  refine spec_bindk (k1 := 2 * SIZE_TWO_VECS) (k2 := MAX_PREALLOC + MAX_PREALLOC)
    (spec_weaken (spec_alloc _) (Nat.mul_le_mul_right _ (numSegments_le _)) (fun _ h => h)) (fun _ _ => ?_)
    (by unfold PARSE_C0; omega)
  refine spec_bind0 (spec_loopMany (spec_pQueries hc1) _) ?_; intro tq htq
  refine spec_bind0 (spec_pQueries hc1) ?_; intro cq hcq
  refine spec_bind0 (spec_pOod hc1) ?_; intro ood hood
  refine spec_bindk (spec_pFri hc1) (fun fri hfri => ?_) (Nat.le_refl _)
  refine spec_bind0 (spec_lift (dspec_readUInt 8)) ?_; intro nonce _
  refine spec_bindk (spec_pGkr hc) (fun gkr _ => ?_) (Nat.le_refl (MAX_PREALLOC + 0))
  exact spec_pure ⟨hctx, hnuq, hcm.2, htq.1, htq.2, hcq, hood, hfri⟩

end WinterProofs.C06L
