-- C10 helper lemmas: `from_paths` of the tree's single paths is the opening `prove_batch` produces
import WinterProofs.Lemmas.C10PathsHonest
import WinterProofs.Lemmas.C10Struct
import WinterProofs.Lemmas.C10Refine

namespace WinterProofs.C10
open Model.Merkle

variable {D : Type}

theorem sibs_length (val : Nat → D) : ∀ (n j : Nat), (sibs val n j).length = n
  | 0, _ => rfl
  | n + 1, j => by simp [sibs, sibs_length val n]

theorem sibs_get (val : Nat → D) : ∀ (n j h : Nat), h < n → (sibs val n j)[h]? = some (val (xor1 (j / 2 ^ h)))
  | 0, _, _, hh => by omega
  | n + 1, j, 0, _ => by simp [sibs]
  | n + 1, j, h + 1, hh => by
    simp only [sibs, List.getElem?_cons_succ]
    rw [sibs_get val n (j / 2) h (by omega), pow_div_succ]

theorem pathOf_length (val : Nat → D) (d i : Nat) : (pathOf val d i).length = d + 1 := by
  simp [pathOf, sibs_length]

theorem pathOf_zero (val : Nat → D) (d i : Nat) : (pathOf val d i)[0]? = some (val (2 ^ d + i)) := by
  simp [pathOf]

theorem pathOf_succ (val : Nat → D) (d i h : Nat) (hh : h < d) :
    (pathOf val d i)[h + 1]? = some (val (xor1 ((2 ^ d + i) / 2 ^ h))) := by
  simp only [pathOf, List.getElem?_cons_succ]
  exact sibs_get val d _ h hh

theorem pow_add_div (d h i : Nat) (hh : h ≤ d) : (2 ^ d + i) / 2 ^ h = 2 ^ (d - h) + i / 2 ^ h := by
  have : 2 ^ d = 2 ^ h * 2 ^ (d - h) := by rw [← Nat.pow_add]; congr 1; omega
  rw [this, Nat.mul_add_div (Nat.two_pow_pos h)]

/-- the path `prove` produces, in terms of the valuation of the tree -/
theorem prove_eq_pathOf (H : Hasher D) (t : Tree D) (d : Nat) (wf : TreeWF H t d) (i : Nat) (hi : i < 2 ^ d) :
    prove t i = .ok (pathOf (treeVal H t) d i) := by
  obtain ⟨d0, rfl⟩ : ∃ d0, d = d0 + 1 := ⟨d - 1, by have := wf.hd; omega⟩
  have hp := two_pow_succ' d0
  have hpos := Nat.two_pow_pos d0
  have htn : ∀ j, 1 ≤ j → j < 2 ^ (d0 + 1) → t.nodes[j]? = some (treeVal H t j) := by
    intro j _ h2
    have hj : j < t.nodes.length := by rw [wf.nlen]; exact h2
    simp [treeVal, hval_lt hj, List.getElem?_eq_getElem hj]
  have htl : ∀ i, i < 2 ^ (d0 + 1) → t.leaves[i]? = some (treeVal H t (2 ^ (d0 + 1) + i)) :=
    fun i hi => (treeVal_leaf H t _ wf i hi).symm
  have hx : xor1 i < 2 ^ (d0 + 1) := by unfold xor1; split <;> omega
  have hxx : xor1 (2 ^ (d0 + 1) + i) = 2 ^ (d0 + 1) + xor1 i := by
    unfold xor1; split <;> split <;> omega
  have hloop := proveLoop_sibs (treeVal H t) t.nodes (d0 + 1) htn d0 t.nodes.length ((i + t.nodes.length) / 2)
    (by rw [wf.nlen]; omega) (by rw [wf.nlen]; omega) (by omega)
    (by rw [wf.nlen]; have := @Nat.lt_two_pow_self d0; omega)
  rw [prove_eq t i _ _ _ (by rw [wf.llen]; exact hi) (htl _ hi) (htl _ hx) hloop]
  simp only [pathOf, sibs, hxx]
  congr 4
  rw [wf.nlen]; omega

theorem SMap.insert_map_val {α β : Type} (g : α → β) (m : SMap α) (k : Nat) (a : α) :
    (SMap.insert m k a).map (fun p => (p.1, g p.2)) = SMap.insert (m.map (fun p => (p.1, g p.2))) k (g a) := by
  have := SMap.insert_map 0 g m k a
  simpa using this

/-- `from_paths` builds the map of paths and the map of positions in lock step with `map_indexes` -/
theorem fromPathsMap_lockstep (depth n : Nat) (P : List (List D)) : ∀ (is : List Nat) (ps : List (List D)) (i0 : Nat)
    (mi mi' : SMap Nat), (∀ j, ps[j]? = P[i0 + j]?) → is.length = ps.length →
    (∀ path ∈ ps, path.length = depth) → mapIndexesLoop n is i0 mi = .ok mi' →
    fromPathsMap depth is ps i0 (mi.map (fun p => (p.1, P.getD p.2 []))) mi =
      .ok (mi'.map (fun p => (p.1, P.getD p.2 [])), mi')
  | [], ps, i0, mi, mi', _, hl, _, h => by
    simp only [mapIndexesLoop] at h
    injection h with h; subst h
    cases ps <;> simp [fromPathsMap]
  | i :: is, [], i0, mi, mi', _, hl, _, _ => by simp at hl
  | i :: is, path :: ps, i0, mi, mi', hP, hl, hlen, h => by
    simp only [mapIndexesLoop] at h
    split at h
    · cases h
    · have h0 := hP 0
      simp only [List.getElem?_cons_zero, Nat.add_zero] at h0
      have hp0 : P.getD i0 [] = path := by simp [List.getD_eq_getElem?_getD, ← h0]
      simp only [fromPathsMap]
      rw [if_neg (by have := hlen path (List.mem_cons_self ..); omega), ← hp0,
        ← SMap.insert_map_val (fun j => P.getD j []) mi i i0]
      exact fromPathsMap_lockstep depth n P is ps (i0 + 1) _ mi' (by
        intro j
        have := hP (j + 1)
        simp only [List.getElem?_cons_succ] at this
        rw [this]; congr 1; omega) (by simpa using hl) (fun q hq => hlen q (List.mem_cons_of_mem _ hq)) h

/-- inserting below all keys puts the entry in front -/
theorem SMap.insert_lt_all {α : Type} (m : SMap α) (k : Nat) (a : α) (h : ∀ p ∈ m, k < p.1) :
    SMap.insert m k a = (k, a) :: m := by
  cases m with
  | nil => rfl
  | cons p t =>
    obtain ⟨k', a'⟩ := p
    have := h (k', a') (List.mem_cons_self ..)
    simp only [SMap.insert]
    rw [if_pos this]

end WinterProofs.C10

namespace WinterProofs.C10
open Model.Merkle

variable {D : Type}

theorem areSiblings_succ {k : Nat} (h : k % 2 = 0) : areSiblings k (k + 1) = .ok true := by
  simp [areSiblings, h]

theorem areSiblings_odd {k k' : Nat} (h : k % 2 = 1) : areSiblings k k' = .ok false := by
  simp [areSiblings, h]

theorem areSiblings_far {k k' : Nat} (h : k + 2 ≤ k') : areSiblings k k' = .ok false := by
  unfold areSiblings
  split
  · rw [if_neg (by omega)]; congr 1; simp; omega
  · rfl

theorem fromLeafLoop_single (k : Nat) (path : List D) (tail : SMap (List D)) (pos : Nat) (positions : List Nat)
    (L : List D) (l0 l1 : D) (h0 : path[0]? = some l0) (h1 : path[1]? = some l1) (hpos : pos < L.length)
    (hns : ∀ k' p' rest', tail = (k', p') :: rest' → areSiblings k k' = .ok false) :
    fromLeafLoop ((k, path) :: tail) (pos :: positions) L =
      fromLeafLoop tail positions (L.set pos l0) >>= fun r => .ok (r.1, [l1] :: r.2.1, SMap.insert r.2.2 (k / 2) path) := by
  cases tail with
  | nil => simp [fromLeafLoop, h0, h1, setLeaf, hpos, SMap.insert]
  | cons q rest' =>
    obtain ⟨k', p'⟩ := q
    simp only [fromLeafLoop, h0, h1, setLeaf, hpos, if_true, Res.ok_bind, hns k' p' rest' rfl]
    rfl

theorem fromLeafLoop_merged (k k' : Nat) (path path' : List D) (tail : SMap (List D)) (pos pos' : Nat)
    (positions : List Nat) (L : List D) (l0 l1 : D) (h0 : path[0]? = some l0) (h1 : path[1]? = some l1)
    (hpos : pos < L.length) (hpos' : pos' < L.length) (hs : areSiblings k k' = .ok true) :
    fromLeafLoop ((k, path) :: (k', path') :: tail) (pos :: pos' :: positions) L =
      fromLeafLoop tail positions ((L.set pos l0).set pos' l1) >>= fun r =>
        .ok (r.1, [] :: r.2.1, SMap.insert r.2.2 (k' / 2) path') := by
  simp only [fromLeafLoop, h0, h1, setLeaf, hpos, if_true, Res.ok_bind, hs]
  rw [if_pos (by simpa using hpos')]
  rfl

/-- the position of a claimed position in the position list -/
def posOf (imap : SMap Nat) (i : Nat) : Nat := (SMap.get imap i).getD 0

/-- the position whose path `from_paths` carries to the next level for the pair at `e` -/
def repOf (imap : SMap Nat) (e : Nat) : Nat := if (SMap.get imap (e + 1)).isSome then e + 1 else e

/-- first loop of `from_paths` on the tree's paths: emits the rows of the prover's first loop, stores
    the committed leaves at the places of their positions and carries one path per pair upwards -/
theorem fromLeafLoop_honest (val : Nat → D) (d : Nat) (hd : 1 ≤ d) (idxs : List Nat) (imap : SMap Nat)
    (c : LeafCtx idxs imap) :
    ∀ (norm : List Nat) (L : List D), Asc norm → (∀ e ∈ norm, e % 2 = 0) →
    (∀ e ∈ norm, (SMap.get imap e).isSome ∨ (SMap.get imap (e + 1)).isSome) →
    L.length = idxs.length →
    ∃ LP, fromLeafLoop ((pairKeys imap norm).map (fun i => (i, pathOf val d i)))
        ((pairKeys imap norm).map (posOf imap)) L =
        .ok (LP, norm.map (missing imap (fun i => val (2 ^ d + i))),
          norm.map (fun e => (e / 2, pathOf val d (repOf imap e)))) ∧
      LP.length = idxs.length ∧
      ∀ j (hj : j < idxs.length),
        (idxs[j] - idxs[j] % 2 ∈ norm → LP[j]? = some (val (2 ^ d + idxs[j]))) ∧
        (idxs[j] - idxs[j] % 2 ∉ norm → LP[j]? = L[j]?)
  | [], L, _, _, _, hL => ⟨L, by simp [pairKeys, fromLeafLoop], hL, fun j hj => ⟨fun h => (by cases h), fun _ => rfl⟩⟩
  | e :: rest, L, hasc, hev, hsome, hL => by
    obtain ⟨d0, rfl⟩ : ∃ d0, d = d0 + 1 := ⟨d - 1, by omega⟩
    have hp := two_pow_succ' d0
    have heven := hev e (List.mem_cons_self ..)
    have hlb := pairKeys_lb imap hasc hev
    have henot : e ∉ rest := fun hm => by have := Asc.head_lt hasc e hm; omega
    -- path entries
    have p0 : ∀ i, (pathOf val (d0 + 1) i)[0]? = some (val (2 ^ (d0 + 1) + i)) := fun i => pathOf_zero val _ i
    have p1e : (pathOf val (d0 + 1) e)[1]? = some (val (2 ^ (d0 + 1) + (e + 1))) := by
      have := pathOf_succ val (d0 + 1) e 0 (by omega)
      simp only [Nat.pow_zero, Nat.div_one, Nat.zero_add] at this
      rw [this, xor1_even (by omega)]; rfl
    have p1e1 : (pathOf val (d0 + 1) (e + 1))[1]? = some (val (2 ^ (d0 + 1) + e)) := by
      have := pathOf_succ val (d0 + 1) (e + 1) 0 (by omega)
      simp only [Nat.pow_zero, Nat.div_one, Nat.zero_add] at this
      rw [this, xor1_odd (by omega)]; congr 2
    -- the tail is not a sibling of `e` / `e + 1`
    have hns : ∀ (k : Nat), (k = e ∨ k = e + 1) → ∀ k' p' rest',
        (pairKeys imap rest).map (fun i => (i, pathOf val (d0 + 1) i)) = (k', p') :: rest' →
        areSiblings k k' = .ok false := by
      intro k hk k' p' rest' he
      have hk' : k' ∈ pairKeys imap rest := by
        have : (k', p') ∈ (pairKeys imap rest).map (fun i => (i, pathOf val (d0 + 1) i)) := by rw [he]; exact List.mem_cons_self ..
        obtain ⟨x, hx, hxe⟩ := List.mem_map.1 this
        injection hxe with h1 _; rw [← h1]; exact hx
      have := hlb k' hk'
      rcases hk with rfl | rfl
      · exact areSiblings_far (by omega)
      · exact areSiblings_odd (by omega)
    -- the common end of the three cases
    have fin : ∀ (L2 : List D) (row : List D) (r : Nat), L2.length = idxs.length →
        (∀ j, L2[j]? = if SMap.get imap (e + 1) = some j then some (val (2 ^ (d0 + 1) + (e + 1)))
          else if SMap.get imap e = some j then some (val (2 ^ (d0 + 1) + e)) else L[j]?) →
        row = missing imap (fun i => val (2 ^ (d0 + 1) + i)) e → r = repOf imap e →
        ∃ LP, (fromLeafLoop ((pairKeys imap rest).map (fun i => (i, pathOf val (d0 + 1) i)))
            ((pairKeys imap rest).map (posOf imap)) L2 >>= fun q =>
              Res.ok (q.1, row :: q.2.1, SMap.insert q.2.2 (r / 2) (pathOf val (d0 + 1) r))) =
            .ok (LP, (e :: rest).map (missing imap (fun i => val (2 ^ (d0 + 1) + i))),
              (e :: rest).map (fun e => (e / 2, pathOf val (d0 + 1) (repOf imap e)))) ∧
          LP.length = idxs.length ∧
          ∀ j (hj : j < idxs.length),
            (idxs[j] - idxs[j] % 2 ∈ e :: rest → LP[j]? = some (val (2 ^ (d0 + 1) + idxs[j]))) ∧
            (idxs[j] - idxs[j] % 2 ∉ e :: rest → LP[j]? = L[j]?) := by
      intro L2 row r hl2 hg2 hrow hr
      obtain ⟨LP, hrec, hlp, hprop⟩ := fromLeafLoop_honest val (d0 + 1) hd idxs imap c rest L2 (Asc.tail hasc)
        (fun x hx => hev x (List.mem_cons_of_mem _ hx)) (fun x hx => hsome x (List.mem_cons_of_mem _ hx)) hl2
      refine ⟨LP, ?_, hlp, ?_⟩
      · rw [hrec]
        simp only [Res.ok_bind, List.map_cons, hrow, hr]
        have hre : repOf imap e / 2 = e / 2 := by unfold repOf; split <;> omega
        rw [SMap.insert_lt_all _ _ _ (by
          intro p hp
          obtain ⟨x, hx, rfl⟩ := List.mem_map.1 hp
          have := Asc.head_lt hasc x hx
          have := hev x (List.mem_cons_of_mem _ hx)
          simp only; omega), hre]
      · intro j hj
        obtain ⟨q1, q2⟩ := hprop j hj
        have hgj := c.get j hj
        by_cases hb : idxs[j] - idxs[j] % 2 = e
        · have hL2 : L2[j]? = some (val (2 ^ (d0 + 1) + idxs[j])) := by
            rw [hg2 j]
            by_cases hi : idxs[j] = e
            · have hne : SMap.get imap (e + 1) ≠ some j := by
                intro hh
                have := c.sound _ _ hh
                rw [List.getElem?_eq_getElem hj] at this
                injection this with this; omega
              rw [if_neg hne, ← hi, if_pos hgj]
            · have hi' : idxs[j] = e + 1 := by omega
              rw [← hi', if_pos hgj]
          refine ⟨fun _ => ?_, fun h => absurd (hb ▸ List.mem_cons_self ..) h⟩
          rw [q2 (hb ▸ henot)]; exact hL2
        · have hL2 : L2[j]? = L[j]? := by
            rw [hg2 j]
            have hne1 : SMap.get imap (e + 1) ≠ some j := by
              intro hh
              have := c.sound _ _ hh
              rw [List.getElem?_eq_getElem hj] at this
              injection this with this; omega
            have hne0 : SMap.get imap e ≠ some j := by
              intro hh
              have := c.sound _ _ hh
              rw [List.getElem?_eq_getElem hj] at this
              injection this with this; omega
            rw [if_neg hne1, if_neg hne0]
          refine ⟨fun h => ?_, fun h => ?_⟩
          · rcases List.mem_cons.1 h with h | h
            · exact absurd h hb
            · exact q1 h
          · rw [q2 (fun hm => h (List.mem_cons_of_mem _ hm))]; exact hL2
    -- the three cases
    cases hg0 : SMap.get imap e with
    | some j0 =>
      have hj0 : j0 < L.length := by rw [hL]; exact c.lt hg0
      cases hg1 : SMap.get imap (e + 1) with
      | some j1 =>
        have hj1 : j1 < (L.set j0 (val (2 ^ (d0 + 1) + e))).length := by simp; rw [hL]; exact c.lt hg1
        simp only [pairKeys, hg0, hg1, Option.isSome_some, if_true, List.cons_append, List.nil_append, List.map_cons,
          posOf, Option.getD_some]
        rw [fromLeafLoop_merged e (e + 1) _ _ _ j0 j1 _ L _ _ (p0 e) p1e hj0 (by simpa using hj1) (areSiblings_succ heven)]
        have := fin ((L.set j0 (val (2 ^ (d0 + 1) + e))).set j1 (val (2 ^ (d0 + 1) + (e + 1)))) [] (e + 1)
          (by simp [hL]) (by
            intro j
            rw [hg1, hg0, List.getElem?_set, List.getElem?_set]
            simp only [Option.some.injEq, List.length_set]
            by_cases h1 : j1 = j <;> by_cases h0' : j0 = j <;> simp_all) (by simp [missing, hg0, hg1]) (by simp [repOf, hg1])
        exact this
      | none =>
        simp only [pairKeys, hg0, hg1, Option.isSome_some, Option.isSome_none, if_true, List.cons_append,
          List.nil_append, List.map_cons, posOf, Option.getD_some, Bool.false_eq_true, if_false]
        rw [fromLeafLoop_single e _ _ j0 _ L _ _ (p0 e) p1e hj0 (hns e (Or.inl rfl))]
        exact fin (L.set j0 (val (2 ^ (d0 + 1) + e))) [val (2 ^ (d0 + 1) + (e + 1))] e (by simp [hL]) (by
          intro j
          rw [hg1, hg0, List.getElem?_set]
          simp only [Option.some.injEq]
          by_cases h0' : j0 = j <;> simp_all) (by simp [missing, hg0, hg1]) (by simp [repOf, hg1])
    | none =>
      cases hg1 : SMap.get imap (e + 1) with
      | none =>
        have := hsome e (List.mem_cons_self ..)
        simp [hg0, hg1] at this
      | some j1 =>
        have hj1 : j1 < L.length := by rw [hL]; exact c.lt hg1
        simp only [pairKeys, hg0, hg1, Option.isSome_some, Option.isSome_none, if_true, List.cons_append,
          List.nil_append, List.map_cons, posOf, Option.getD_some, Bool.false_eq_true, if_false]
        rw [fromLeafLoop_single (e + 1) _ _ j1 _ L _ _ (p0 (e + 1)) p1e1 hj1 (hns (e + 1) (Or.inr rfl))]
        exact fin (L.set j1 (val (2 ^ (d0 + 1) + (e + 1)))) [val (2 ^ (d0 + 1) + e)] (e + 1) (by simp [hL]) (by
          intro j
          rw [hg1, hg0, List.getElem?_set]
          simp only [Option.some.injEq]
          by_cases h1 : j1 = j <;> simp_all) (by simp [missing, hg0, hg1]) (by simp [repOf, hg1])

end WinterProofs.C10

namespace WinterProofs.C10
open Model.Merkle

variable {D : Type}

theorem fromLevel_nil (dd : Nat) (rows : List (List D)) : fromLevel dd ([] : SMap (List D)) rows = .ok (rows, []) := by
  simp [fromLevel]

theorem fromLevel_single (dd k : Nat) (path : List D) (tail : SMap (List D)) (row : List D) (rows : List (List D))
    (x : D) (hx : path[dd]? = some x)
    (hns : ∀ k' p' rest', tail = (k', p') :: rest' → areSiblings k k' = .ok false) :
    fromLevel dd ((k, path) :: tail) (row :: rows) =
      fromLevel dd tail rows >>= fun r => .ok ((row ++ [x]) :: r.1, SMap.insert r.2 (k / 2) path) := by
  cases tail with
  | nil => simp [fromLevel, hx, SMap.insert]
  | cons q rest' =>
    obtain ⟨k', p'⟩ := q
    simp only [fromLevel, hns k' p' rest' rfl, Res.ok_bind, hx]
    rfl

theorem fromLevel_merged (dd k k' : Nat) (path path' : List D) (tail : SMap (List D)) (r0 r1 : List D)
    (rows : List (List D)) (hs : areSiblings k k' = .ok true) :
    fromLevel dd ((k, path) :: (k', path') :: tail) (r0 :: r1 :: rows) =
      fromLevel dd tail rows >>= fun r => .ok (r0 :: r1 :: r.1, SMap.insert r.2 (k / 2) path) := by
  simp only [fromLevel, hs, Res.ok_bind, if_true]

/-- the (relative position, leaf) pairs of the next level of `from_paths` -/
def nextL : List (Nat × Nat) → List (Nat × Nat)
  | [] => []
  | [(k, i)] => [(k / 2, i)]
  | (k, i) :: (k', i') :: rest =>
    if k % 2 = 0 ∧ k' = k + 1 then (k / 2, i) :: nextL rest else (k / 2, i) :: nextL ((k', i') :: rest)

/-- sibling entries of a sorted level of `from_paths` -/
def Sib (x y : Nat × Nat) : Prop := x.1 % 2 = 0 ∧ y.1 = x.1 + 1

theorem nextL_single (x : Nat × Nat) (tail : List (Nat × Nat)) (hns : ∀ y r, tail = y :: r → ¬ Sib x y) :
    nextL (x :: tail) = (x.1 / 2, x.2) :: nextL tail := by
  obtain ⟨k, i⟩ := x
  cases tail with
  | nil => rfl
  | cons y r =>
    obtain ⟨k', i'⟩ := y
    have := hns (k', i') r rfl
    simp only [nextL]
    rw [if_neg (by simpa [Sib] using this)]

theorem nextL_merged (x y : Nat × Nat) (rest : List (Nat × Nat)) (hs : Sib x y) :
    nextL (x :: y :: rest) = (x.1 / 2, x.2) :: nextL rest := by
  obtain ⟨k, i⟩ := x
  obtain ⟨k', i'⟩ := y
  simp only [nextL]
  rw [if_pos (by simpa [Sib] using hs)]

theorem pairs_induction {P : List (Nat × Nat) → Prop} (nil : P [])
    (single : ∀ x tail, (∀ y r, tail = y :: r → ¬ Sib x y) → P tail → P (x :: tail))
    (merged : ∀ x y rest, Sib x y → P rest → P (x :: y :: rest)) : ∀ L, P L
  | [] => nil
  | [x] => single x [] (by intro y r h; cases h) nil
  | x :: y :: rest => by
    by_cases h : Sib x y
    · exact merged x y rest h (pairs_induction nil single merged rest)
    · exact single x (y :: rest) (by intro y' r he; cases he; exact h) (pairs_induction nil single merged (y :: rest))

/-- one upper level of `from_paths` on the tree's paths does what the prover's level does -/
theorem fromLevel_honest (val : Nat → D) (tn : List D) (d h : Nat) (hh1 : 1 ≤ h) (hhd : h < d)
    (htn : ∀ j, 1 ≤ j → j < 2 ^ d → tn[j]? = some (val j)) :
    ∀ (L : List (Nat × Nat)) (rows rows1 : List (List D)) (K1 : List Nat),
    Asc (L.map Prod.fst) → (∀ p ∈ L, p.2 < 2 ^ d ∧ p.1 = p.2 / 2 ^ h) →
    proveLevel tn (L.map (fun p => 2 ^ (d - h) + p.1)) rows = .ok (rows1, K1) →
    fromLevel (h + 1) (L.map (fun p => (p.1, pathOf val d p.2))) rows =
        .ok (rows1, (nextL L).map (fun p => (p.1, pathOf val d p.2))) ∧
      K1 = (nextL L).map (fun p => 2 ^ (d - (h + 1)) + p.1) ∧
      Asc ((nextL L).map Prod.fst) ∧ (∀ p ∈ nextL L, p.2 < 2 ^ d ∧ p.1 = p.2 / 2 ^ (h + 1)) ∧
      (∀ p ∈ nextL L, ∃ q ∈ L, p.1 = q.1 / 2) := by
  have hc : 2 ^ (d - h) = 2 * 2 ^ (d - (h + 1)) := by
    rw [show d - h = (d - (h + 1)) + 1 by omega]; exact two_pow_succ' _
  have hcpos := Nat.two_pow_pos (d - (h + 1))
  have hcd : 2 ^ (d - h) * 2 ^ h = 2 ^ d := by rw [← Nat.pow_add]; congr 1; omega
  have hhpos := Nat.two_pow_pos h
  -- facts about one entry
  have entry : ∀ (k i : Nat), i < 2 ^ d → k = i / 2 ^ h →
      k < 2 ^ (d - h) ∧ (pathOf val d i)[h + 1]? = some (val (xor1 (2 ^ (d - h) + k))) ∧
      tn[xor1 (2 ^ (d - h) + k)]? = some (val (xor1 (2 ^ (d - h) + k))) ∧ k / 2 = i / 2 ^ (h + 1) := by
    intro k i hi hk
    have hklt : k < 2 ^ (d - h) := by
      rw [hk]; apply Nat.div_lt_of_lt_mul; rw [Nat.mul_comm, hcd]; exact hi
    refine ⟨hklt, ?_, ?_, by rw [hk, Nat.div_div_eq_div_mul, ← Nat.pow_succ]⟩
    · rw [pathOf_succ val d i h hhd, pow_add_div d h i (by omega), ← hk]
    · have hdd : 2 ^ (d - h) * 2 ≤ 2 ^ d := by
        have : 2 ^ (d - h) * 2 ^ 1 ≤ 2 ^ (d - h) * 2 ^ h := Nat.mul_le_mul_left _ (Nat.pow_le_pow_right (by omega) hh1)
        simpa [hcd] using this
      exact htn _ (by unfold xor1; split <;> omega) (by unfold xor1; split <;> omega)
  intro L
  induction L using pairs_induction with
  | nil =>
    intro rows rows1 K1 _ _ hp
    simp only [List.map_nil, proveLevel_nil] at hp
    injection hp with hp; injection hp with h1 h2; subst h1; subst h2
    exact ⟨by simp [fromLevel_nil, nextL], by simp [nextL], by simp [nextL, Asc], by simp [nextL], by simp [nextL]⟩
  | single x tail hns ih =>
    intro rows rows1 K1 hasc hinv hp
    obtain ⟨k, i⟩ := x
    obtain ⟨hi, hk⟩ := hinv (k, i) (List.mem_cons_self ..)
    simp only at hi hk
    obtain ⟨hklt, hpath, htnk, hk2⟩ := entry k i hi hk
    have hasc' : Asc (tail.map Prod.fst) := Asc.tail hasc
    have hgt : ∀ q ∈ tail, k < q.1 := fun q hq => Asc.head_lt hasc q.1 (List.mem_map.2 ⟨q, hq, rfl⟩)
    -- the head of the tail is not a sibling, in both worlds
    have hnm : NotMerged (2 ^ (d - h) + k) (tail.map (fun p => 2 ^ (d - h) + p.1)) := by
      intro K' r' he
      cases tail with
      | nil => cases he
      | cons y r =>
        simp only [List.map_cons] at he
        injection he with he1 _
        have h1 := hns y r rfl
        have h2 := hgt y (List.mem_cons_self ..)
        unfold Sib at h1
        simp only at h1
        rw [← he1]; unfold xor1; split <;> omega
    have hnsib : ∀ k' p' rest', tail.map (fun p => (p.1, pathOf val d p.2)) = (k', p') :: rest' →
        areSiblings k k' = .ok false := by
      intro k' p' rest' he
      cases tail with
      | nil => cases he
      | cons y r =>
        simp only [List.map_cons] at he
        injection he with he1 _
        injection he1 with he1 _
        have h1 := hns y r rfl
        have h2 := hgt y (List.mem_cons_self ..)
        unfold Sib at h1
        simp only at h1
        by_cases hev : k % 2 = 0
        · exact areSiblings_far (by omega)
        · exact areSiblings_odd (by omega)
    simp only [List.map_cons] at hp ⊢
    match rows with
    | [] =>
      cases tail with
      | nil => simp [proveLevel] at hp
      | cons y r =>
        have := hnm _ _ rfl
        simp [proveLevel, this] at hp
    | row :: rows =>
      rw [proveLevel_single tn _ _ hnm row rows _ htnk] at hp
      cases hr : proveLevel tn (tail.map (fun p => 2 ^ (d - h) + p.1)) rows with
      | err e => rw [hr] at hp; cases hp
      | panic e => rw [hr] at hp; cases hp
      | ok r =>
        obtain ⟨rs, nx⟩ := r
        rw [hr] at hp
        simp only [Res.ok_bind] at hp
        injection hp with hp; injection hp with e1 e2; subst e1; subst e2
        obtain ⟨i1, i2, i3, i4, i5⟩ := ih rows rs nx hasc' (fun p hp => hinv p (List.mem_cons_of_mem _ hp)) hr
        have hlow : ∀ p ∈ nextL tail, k / 2 < p.1 := by
          intro p hp
          obtain ⟨q, hq, he⟩ := i5 p hp
          have h2 := hgt q hq
          cases tail with
          | nil => cases hq
          | cons y r =>
            have h1 := hns y r rfl
            have h3 := hgt y (List.mem_cons_self ..)
            have h4 : y.1 ≤ q.1 := by
              rcases List.mem_cons.1 hq with rfl | hq'
              · exact Nat.le_refl _
              · exact Nat.le_of_lt (Asc.head_lt hasc' q.1 (List.mem_map.2 ⟨q, hq', rfl⟩))
            unfold Sib at h1
            simp only at h1
            omega
        rw [nextL_single (k, i) tail hns]
        refine ⟨?_, ?_, ?_, ?_, ?_⟩
        · rw [fromLevel_single (h + 1) k _ _ row rows _ hpath hnsib, i1]
          simp only [Res.ok_bind, List.map_cons]
          rw [SMap.insert_lt_all _ _ _ (by
            intro p hp
            obtain ⟨q, hq, rfl⟩ := List.mem_map.1 hp
            exact hlow q hq)]
        · simp only [List.map_cons, i2, xor1_div]
          congr 1; omega
        · simp only [List.map_cons]
          apply Asc.cons i3
          intro y hy
          obtain ⟨q, hq, rfl⟩ := List.mem_map.1 hy
          exact hlow q hq
        · intro p hp
          rcases List.mem_cons.1 hp with rfl | hp
          · exact ⟨hi, hk2⟩
          · exact i4 p hp
        · intro p hp
          rcases List.mem_cons.1 hp with rfl | hp
          · exact ⟨(k, i), List.mem_cons_self .., rfl⟩
          · obtain ⟨q, hq, he⟩ := i5 p hp
            exact ⟨q, List.mem_cons_of_mem _ hq, he⟩
  | merged x y rest hs ih =>
    intro rows rows1 K1 hasc hinv hp
    obtain ⟨k, i⟩ := x
    obtain ⟨k', i'⟩ := y
    obtain ⟨hev, hk'⟩ : k % 2 = 0 ∧ k' = k + 1 := hs
    subst hk'
    obtain ⟨hi, hk⟩ := hinv (k, i) (List.mem_cons_self ..)
    simp only at hi hk
    obtain ⟨hklt, hpath, htnk, hk2⟩ := entry k i hi hk
    have hasc' : Asc (rest.map Prod.fst) := Asc.tail (Asc.tail hasc)
    have hgt : ∀ q ∈ rest, k + 1 < q.1 := fun q hq => Asc.head_lt (Asc.tail hasc) q.1 (List.mem_map.2 ⟨q, hq, rfl⟩)
    have hx : 2 ^ (d - h) + (k + 1) = xor1 (2 ^ (d - h) + k) := by rw [xor1_even (by omega)]; omega
    simp only [List.map_cons, hx] at hp ⊢
    match rows with
    | [] => simp [proveLevel] at hp
    | [_] => simp [proveLevel] at hp
    | r0 :: r1 :: rows =>
      rw [proveLevel_merged] at hp
      cases hr : proveLevel tn (rest.map (fun p => 2 ^ (d - h) + p.1)) rows with
      | err e => rw [hr] at hp; cases hp
      | panic e => rw [hr] at hp; cases hp
      | ok r =>
        obtain ⟨rs, nx⟩ := r
        rw [hr] at hp
        simp only [Res.ok_bind] at hp
        injection hp with hp; injection hp with e1 e2; subst e1; subst e2
        obtain ⟨i1, i2, i3, i4, i5⟩ := ih rows rs nx hasc'
          (fun p hp => hinv p (List.mem_cons_of_mem _ (List.mem_cons_of_mem _ hp))) hr
        have hlow : ∀ p ∈ nextL rest, k / 2 < p.1 := by
          intro p hp
          obtain ⟨q, hq, he⟩ := i5 p hp
          have h2 := hgt q hq
          omega
        rw [nextL_merged (k, i) (k + 1, i') rest ⟨hev, rfl⟩]
        refine ⟨?_, ?_, ?_, ?_, ?_⟩
        · rw [fromLevel_merged (h + 1) k (k + 1) _ _ _ r0 r1 rows (areSiblings_succ hev), i1]
          simp only [Res.ok_bind, List.map_cons]
          rw [SMap.insert_lt_all _ _ _ (by
            intro p hp
            obtain ⟨q, hq, rfl⟩ := List.mem_map.1 hp
            exact hlow q hq)]
        · simp only [List.map_cons, i2, xor1_div]
          congr 1; omega
        · simp only [List.map_cons]
          apply Asc.cons i3
          intro y hy
          obtain ⟨q, hq, rfl⟩ := List.mem_map.1 hy
          exact hlow q hq
        · intro p hp
          rcases List.mem_cons.1 hp with rfl | hp
          · exact ⟨hi, hk2⟩
          · exact i4 p hp
        · intro p hp
          rcases List.mem_cons.1 hp with rfl | hp
          · exact ⟨(k, i), List.mem_cons_self .., rfl⟩
          · obtain ⟨q, hq, he⟩ := i5 p hp
            exact ⟨q, List.mem_cons_of_mem _ (List.mem_cons_of_mem _ hq), he⟩

end WinterProofs.C10

namespace WinterProofs.C10
open Model.Merkle

variable {D : Type}

/-- all upper levels of `from_paths` on the tree's paths do what the prover's levels do -/
theorem fromLevels_honest (val : Nat → D) (tn : List D) (d : Nat)
    (htn : ∀ j, 1 ≤ j → j < 2 ^ d → tn[j]? = some (val j)) :
    ∀ (cnt h : Nat) (L : List (Nat × Nat)) (rows rowsF : List (List D)), 1 ≤ h → h + cnt = d →
    Asc (L.map Prod.fst) → (∀ p ∈ L, p.2 < 2 ^ d ∧ p.1 = p.2 / 2 ^ h) →
    proveLevels tn cnt (L.map (fun p => 2 ^ (d - h) + p.1)) rows = .ok rowsF →
    fromLevels cnt (h + 1) (L.map (fun p => (p.1, pathOf val d p.2))) rows = .ok rowsF
  | 0, h, L, rows, rowsF, _, _, _, _, hp => by
    simp only [proveLevels] at hp
    injection hp with hp; subst hp; rfl
  | cnt + 1, h, L, rows, rowsF, h1, hd, hasc, hinv, hp => by
    simp only [proveLevels] at hp
    cases hl : proveLevel tn (L.map (fun p => 2 ^ (d - h) + p.1)) rows with
    | err e => rw [hl] at hp; cases hp
    | panic e => rw [hl] at hp; cases hp
    | ok r =>
      obtain ⟨rows1, K1⟩ := r
      rw [hl] at hp
      simp only [Res.ok_bind] at hp
      obtain ⟨f1, f2, f3, f4, _⟩ := fromLevel_honest val tn d h h1 (by omega) htn L rows rows1 K1 hasc hinv hl
      rw [f2] at hp
      simp only [fromLevels, f1, Res.ok_bind]
      exact fromLevels_honest val tn d htn cnt (h + 1) (nextL L) rows1 rowsF (by omega) (by omega) f3 f4 hp

/-- the structure of the opening `prove_batch` produces -/
theorem proveBatch_structure (H : Hasher D) (t : Tree D) (d : Nat) (wf : TreeWF H t d) (hd2 : d ≤ 63)
    (idxs : List Nat) (hne : idxs ≠ []) (hlen : idxs.length ≤ 255) (hnd : idxs.Nodup)
    (hr : ∀ i ∈ idxs, i < 2 ^ d) :
    ∃ imap rowsF, mapIndexes idxs d = .ok imap ∧
      proveLevels t.nodes (d - 1) ((normalizeIndexes idxs).map (fun e => (2 ^ d + e) / 2))
        ((normalizeIndexes idxs).map (missing imap (fun i => treeVal H t (2 ^ d + i)))) = .ok rowsF ∧
      proveBatch H t idxs = .ok { leaves := idxs.map (fun i => treeVal H t (2 ^ d + i)), nodes := rowsF, depth := d } := by
  obtain ⟨d0, rfl⟩ : ∃ d0, d = d0 + 1 := ⟨d - 1, by have := wf.hd; omega⟩
  have hp := two_pow_succ' d0
  have hpos := Nat.two_pow_pos d0
  have hdepth : t.depth = d0 + 1 := by simp [Tree.depth, wf.llen, Nat.log2_two_pow]
  let val := treeVal H t
  let lv : Nat → D := fun i => val (2 ^ (d0 + 1) + i)
  have htl : ∀ i, i < 2 ^ (d0 + 1) → t.leaves[i]? = some (lv i) := fun i hi => (treeVal_leaf H t _ wf i hi).symm
  obtain ⟨imap, hm⟩ := mapIndexes_total (d := d0 + 1) (by omega) hnd hr
  obtain ⟨_, _, _, hget, hsound, hil⟩ := mapIndexes_ok hm
  have ctx : LeafCtx idxs imap := ⟨hget, hsound⟩
  obtain ⟨nasc, nmem⟩ := normalize_spec idxs
  have nev : ∀ e ∈ normalizeIndexes idxs, e % 2 = 0 := by
    intro e he; obtain ⟨i, _, rfl⟩ := (nmem e).1 he; omega
  have nrange : ∀ e ∈ normalizeIndexes idxs, e + 1 < 2 ^ (d0 + 1) := by
    intro e he; obtain ⟨i, hi, rfl⟩ := (nmem e).1 he; have := hr i hi; omega
  obtain ⟨LP, hleaf, hLP, hLPv⟩ := proveLeafLoop_ok t.leaves lv idxs imap t.leaves.length ctx
    (normalizeIndexes idxs) (List.replicate imap.length H.dflt) nasc nev
    (fun e he => ⟨htl e (by have := nrange e he; omega), htl (e + 1) (nrange e he)⟩) (by simp [hil])
  have hK1 : (normalizeIndexes idxs).map (fun e => (e + t.leaves.length) / 2) =
      (normalizeIndexes idxs).map (fun e => (2 ^ (d0 + 1) + e) / 2) := by
    apply List.map_congr_left; intro e _; rw [wf.llen, Nat.add_comm]
  have hK1asc := asc_map_half (2 ^ (d0 + 1)) _ nasc nev
  have hK1r : ∀ k ∈ (normalizeIndexes idxs).map (fun e => (2 ^ (d0 + 1) + e) / 2), 2 ^ d0 ≤ k ∧ k < 2 ^ (d0 + 1) := by
    intro k hk
    obtain ⟨e, he, rfl⟩ := List.mem_map.1 hk
    have := nrange e he; have := nev e he
    omega
  obtain ⟨rowsF, hlevels⟩ := proveLevels_total t.nodes (d0 + 1) wf.nlen d0 _
    ((normalizeIndexes idxs).map (missing imap lv)) hK1asc hK1r (by omega) (by simp)
  have hLPeq : LP = idxs.map lv := by
    apply List.ext_getElem?
    intro j
    by_cases hj : j < idxs.length
    · rw [(hLPv j hj).1 ((nmem _).2 ⟨_, List.getElem_mem hj, rfl⟩), List.getElem?_map, List.getElem?_eq_getElem hj]; rfl
    · rw [List.getElem?_eq_none (by omega), List.getElem?_eq_none (by simp; omega)]
  refine ⟨imap, rowsF, hm, hlevels, ?_⟩
  unfold proveBatch
  rw [if_neg (by simpa using hne), if_neg (by simp [maxPaths]; omega), hdepth, hm]
  simp only [Res.ok_bind, hleaf, hK1, Nat.add_sub_cancel, hlevels, hLPeq]
  congr 2; omega

/-- Re-compression: `from_paths` of the single paths the tree produces for a position list is the
    opening `prove_batch` produces for it -/
theorem fromPaths_honest_wf (H : Hasher D) (t : Tree D) (d : Nat) (wf : TreeWF H t d) (hd2 : d ≤ 63)
    (idxs : List Nat) (hne : idxs ≠ []) (hlen : idxs.length ≤ 255) (hnd : idxs.Nodup)
    (hr : ∀ i ∈ idxs, i < 2 ^ d) (paths : List (List D)) (hpl : paths.length = idxs.length)
    (hpaths : ∀ j (hj : j < idxs.length), prove t idxs[j] = .ok (paths.getD j [])) :
    fromPaths H paths idxs = proveBatch H t idxs := by
  obtain ⟨imap, rowsF, hm, hlevels, hprove⟩ := proveBatch_structure H t d wf hd2 idxs hne hlen hnd hr
  rw [hprove]
  obtain ⟨d0, rfl⟩ : ∃ d0, d = d0 + 1 := ⟨d - 1, by have := wf.hd; omega⟩
  have hp := two_pow_succ' d0
  have hpos := Nat.two_pow_pos d0
  let val := treeVal H t
  have htn : ∀ j, 1 ≤ j → j < 2 ^ (d0 + 1) → t.nodes[j]? = some (val j) := by
    intro j _ h2
    have hj : j < t.nodes.length := by rw [wf.nlen]; exact h2
    show t.nodes[j]? = some (treeVal H t j)
    simp [treeVal, hval_lt hj, List.getElem?_eq_getElem hj]
  obtain ⟨_, _, _, hget, hsound, hil⟩ := mapIndexes_ok hm
  have ctx : LeafCtx idxs imap := ⟨hget, hsound⟩
  obtain ⟨nasc, nmem⟩ := normalize_spec idxs
  have nev : ∀ e ∈ normalizeIndexes idxs, e % 2 = 0 := by
    intro e he; obtain ⟨i, _, rfl⟩ := (nmem e).1 he; omega
  have nrange : ∀ e ∈ normalizeIndexes idxs, e + 1 < 2 ^ (d0 + 1) := by
    intro e he; obtain ⟨i, hi, rfl⟩ := (nmem e).1 he; have := hr i hi; omega
  have hsome : ∀ e ∈ normalizeIndexes idxs, (SMap.get imap e).isSome ∨ (SMap.get imap (e + 1)).isSome := by
    intro e he
    obtain ⟨i, hi, hie⟩ := (nmem e).1 he
    obtain ⟨j, hj, hji⟩ := List.getElem_of_mem hi
    have := hget j hj
    rw [hji] at this
    by_cases hpar : i % 2 = 0
    · left; rw [show e = i by omega, this]; rfl
    · right; rw [show e + 1 = i by omega, this]; rfl
  -- the paths
  have hP : ∀ j (hj : j < idxs.length), paths.getD j [] = pathOf val (d0 + 1) idxs[j] := by
    intro j hj
    have h1 := hpaths j hj
    rw [prove_eq_pathOf H t _ wf _ (hr _ (List.getElem_mem hj))] at h1
    injection h1 with h1; exact h1.symm
  have hPlen : ∀ path ∈ paths, path.length = d0 + 1 + 1 := by
    intro path hpm
    obtain ⟨j, hj, hje⟩ := List.getElem_of_mem hpm
    have := hP j (by omega)
    rw [List.getD_eq_getElem?_getD, List.getElem?_eq_getElem hj, Option.getD_some, hje] at this
    rw [this, pathOf_length]
  have hasc := mapIndexes_asc hm
  have hentry : ∀ p ∈ imap, paths.getD p.2 [] = pathOf val (d0 + 1) p.1 ∧ SMap.get imap p.1 = some p.2 := by
    intro p hp
    obtain ⟨i, j⟩ := p
    have hg := SMap.get_of_mem imap hasc i j hp
    have hj := ctx.lt hg
    have := hsound i j hg
    rw [List.getElem?_eq_getElem hj] at this
    injection this with this
    exact ⟨by rw [hP j hj, this], hg⟩
  match paths, hpl, hP, hPlen with
  | [], hpl, _, _ =>
    exfalso
    cases idxs with
    | nil => exact hne rfl
    | cons a b => simp at hpl
  | p0 :: ps, hpl, hP, hPlen =>
    have hp0 : p0.length = d0 + 1 + 1 := hPlen p0 (List.mem_cons_self ..)
    have hmap := fromPathsMap_lockstep (d0 + 1 + 1) (2 ^ (d0 + 1)) (p0 :: ps) idxs (p0 :: ps) 0 [] imap
      (by intro j; simp) hpl.symm hPlen (mapIndexes_loop hm)
    simp only [List.map_nil] at hmap
    have hm1 : imap.map (fun p => (p.1, (p0 :: ps).getD p.2 [])) =
        (pairKeys imap (normalizeIndexes idxs)).map (fun i => (i, pathOf val (d0 + 1) i)) := by
      rw [← keys_eq_pairKeys hm]
      simp only [SMap.keys, List.map_map]
      apply List.map_congr_left
      intro p hp
      simp only [Function.comp_apply, (hentry p hp).1]
    have hm2 : SMap.values imap = (pairKeys imap (normalizeIndexes idxs)).map (posOf imap) := by
      rw [← keys_eq_pairKeys hm]
      simp only [SMap.keys, SMap.values, List.map_map]
      apply List.map_congr_left
      intro p hp
      simp only [Function.comp_apply, posOf, (hentry p hp).2, Option.getD_some]
    obtain ⟨LPf, hfl, hLPf, hLPfv⟩ := fromLeafLoop_honest val (d0 + 1) (by omega) idxs imap ctx
      (normalizeIndexes idxs) (List.replicate imap.length H.dflt) nasc nev hsome (by simp [hil])
    have hLPeq : LPf = idxs.map (fun i => val (2 ^ (d0 + 1) + i)) := by
      apply List.ext_getElem?
      intro j
      by_cases hj : j < idxs.length
      · rw [(hLPfv j hj).1 ((nmem _).2 ⟨_, List.getElem_mem hj, rfl⟩), List.getElem?_map, List.getElem?_eq_getElem hj]; rfl
      · rw [List.getElem?_eq_none (by omega), List.getElem?_eq_none (by simp; omega)]
    -- the upper levels
    have hL1 : (normalizeIndexes idxs).map (fun e => (e / 2, pathOf val (d0 + 1) (repOf imap e))) =
        ((normalizeIndexes idxs).map (fun e => (e / 2, repOf imap e))).map (fun p => (p.1, pathOf val (d0 + 1) p.2)) := by
      simp [List.map_map, Function.comp_def]
    have hK1 : (normalizeIndexes idxs).map (fun e => (2 ^ (d0 + 1) + e) / 2) =
        ((normalizeIndexes idxs).map (fun e => (e / 2, repOf imap e))).map (fun p => 2 ^ (d0 + 1 - 1) + p.1) := by
      simp only [List.map_map, Function.comp_def, Nat.add_sub_cancel]
      apply List.map_congr_left
      intro e he
      have := nev e he; omega
    have hfls := fromLevels_honest val t.nodes (d0 + 1) htn d0 1
      ((normalizeIndexes idxs).map (fun e => (e / 2, repOf imap e)))
      ((normalizeIndexes idxs).map (missing imap (fun i => val (2 ^ (d0 + 1) + i)))) rowsF (by omega) (by omega)
      (by
        simp only [List.map_map, Function.comp_def]
        have := asc_map_half 0 _ nasc nev
        simpa using this)
      (by
        intro p hp
        obtain ⟨e, he, rfl⟩ := List.mem_map.1 hp
        have := nrange e he
        have := nev e he
        simp only [Nat.pow_one]
        unfold repOf; split <;> omega)
      (by rw [← hK1]; exact hlevels)
    have hpl' : ps.length + 1 = idxs.length := by simpa using hpl
    unfold fromPaths
    simp only
    rw [if_neg (by simp [maxPaths]; omega), if_neg (by simp [hpl])]
    simp only [hp0, hmap, Res.ok_bind]
    rw [if_neg (by simp [hil, hpl])]
    simp only [List.length_map]
    rw [hm1, hm2, hfl]
    simp only [Res.ok_bind, hL1, show d0 + 1 + 1 - 2 = d0 by omega, hfls, hLPeq]
    rw [if_neg (by omega)]
    congr 2; omega

end WinterProofs.C10
