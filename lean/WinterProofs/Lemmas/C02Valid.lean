-- C02 helper lemmas: the executable reference validity check of Winter/Model/VerifierChecks.lean (part 1)
import Winter.Model.VerifierChecks

namespace WinterProofs.C02L
open Model Model.VerifierChecks

theorem shape_iff (A : Air) (cols : List (List Nat)) (pubs : List Nat) :
    shapeViolation A cols pubs = none ↔
      cols.length = A.width ∧ (∀ c ∈ cols, c.length = A.n) ∧ pubs.length = A.numPubInputs := by
  unfold shapeViolation
  split
  · rename_i h; simp [h]
  · rename_i h
    have h' : cols.length = A.width := Decidable.of_not_not h
    split
    · rename_i cj hf
      have := List.find?_some hf
      have hm := List.mem_of_find?_eq_some hf
      simp only [decide_eq_true_eq] at this
      constructor
      · intro hh; cases hh
      · rintro ⟨_, hall, _⟩
        have : cj.1 ∈ cols := by
          have h2 : (cj.1, cj.2) ∈ cols.zipIdx := hm
          rw [List.mem_zipIdx_iff_getElem?] at h2
          exact List.mem_iff_getElem?.mpr ⟨cj.2, h2⟩
        exact absurd (hall _ this) ‹_›
    · rename_i hf
      rw [List.find?_eq_none] at hf
      have hall : ∀ c ∈ cols, c.length = A.n := by
        intro c hc
        obtain ⟨j, hj⟩ := List.mem_iff_getElem?.mp hc
        have : (c, j) ∈ cols.zipIdx := by
          rw [List.mem_zipIdx_iff_getElem?]; exact hj
        have := hf _ this
        simpa using this
      split
      · rename_i hp; simp [hp]
      · rename_i hp
        exact ⟨fun _ => ⟨h', hall, Decidable.of_not_not hp⟩, fun _ => rfl⟩

theorem mem_assertionIndex (A : Air) (k i : Nat) :
    (k, i) ∈ assertionIndex A ↔ ∃ a, A.assertions[k]? = some a ∧ i < (a.steps A.n).length := by
  unfold assertionIndex
  simp only [List.mem_flatMap, List.mem_range]
  constructor
  · rintro ⟨k', hk', hm⟩
    split at hm
    · rename_i a ha
      simp only [List.mem_map, List.mem_range, Prod.mk.injEq] at hm
      obtain ⟨i', hi', rfl, rfl⟩ := hm
      exact ⟨a, ha, hi'⟩
    · simp at hm
  · rintro ⟨a, ha, hi⟩
    refine ⟨k, ?_, ?_⟩
    · exact (List.getElem?_eq_some_iff.mp ha).1
    · rw [ha]; simp only [List.mem_map, List.mem_range, Prod.mk.injEq]; exact ⟨i, hi, by simp⟩

theorem mem_transitionIndex (A : Air) (s k : Nat) :
    (s, k) ∈ transitionIndex A ↔ s < A.n - A.exemptions ∧ k < A.constraints.length := by
  unfold transitionIndex
  simp only [List.mem_flatMap, List.mem_range, List.mem_map, Prod.mk.injEq]
  constructor
  · rintro ⟨s', hs', k', hk', rfl, rfl⟩; exact ⟨hs', hk'⟩
  · rintro ⟨hs, hk⟩; exact ⟨s, hs, k, hk, rfl, rfl⟩

/-- the cell at (column j, row s) -/
def cellAt (cols : List (List Nat)) (j s : Nat) : Option Nat := (cols[j]?).bind (·[s]?)

theorem rowAt_congr : ∀ (cols cols' : List (List Nat)) (s : Nat), cols.length = cols'.length →
    (∀ j, cellAt cols j s = cellAt cols' j s) → rowAt cols s = rowAt cols' s
  | [], [], _, _, _ => rfl
  | [], _ :: _, _, hl, _ => by simp at hl
  | _ :: _, [], _, hl, _ => by simp at hl
  | c :: cs, c' :: cs', s, hl, h => by
    have h0 : c[s]? = c'[s]? := by simpa [cellAt] using h 0
    have ht : rowAt cs s = rowAt cs' s :=
      rowAt_congr cs cs' s (by simpa using hl) (fun j => by simpa [cellAt] using h (j + 1))
    unfold rowAt at ht ⊢
    simp only [List.mapM_cons, h0, ht]

theorem transitionHolds_congr (A : Air) (M : Nat) (cols cols' : List (List Nat)) (s k : Nat)
    (hl : cols.length = cols'.length)
    (h0 : ∀ j, cellAt cols j s = cellAt cols' j s) (h1 : ∀ j, cellAt cols j (s + 1) = cellAt cols' j (s + 1)) :
    transitionHolds A M cols s k = transitionHolds A M cols' s k := by
  unfold transitionHolds
  rw [rowAt_congr cols cols' s hl h0, rowAt_congr cols cols' (s + 1) hl h1]

theorem assertionHolds_congr (A : Air) (cols cols' : List (List Nat)) (pubs : List Nat) (k i : Nat)
    (h : ∀ a s, A.assertions[k]? = some a → (a.steps A.n)[i]? = some s → cellAt cols a.column s = cellAt cols' a.column s) :
    assertionHolds A cols pubs k i = assertionHolds A cols' pubs k i := by
  unfold assertionHolds
  cases ha : A.assertions[k]? with
  | none => rfl
  | some a =>
    simp only
    cases hs : (a.steps A.n)[i]? with
    | none => simp
    | some s =>
      have := h a s ha hs
      unfold cellAt at this
      cases hc : cols[a.column]? with
      | none =>
        cases hc' : cols'[a.column]? with
        | none => rfl
        | some col' =>
          rw [hc, hc'] at this
          simp only [Option.bind_none, Option.bind_some] at this
          simp [← this]
      | some col =>
        cases hc' : cols'[a.column]? with
        | none =>
          rw [hc, hc'] at this
          simp only [Option.bind_none, Option.bind_some] at this
          simp [this]
        | some col' =>
          rw [hc, hc'] at this
          simp only [Option.bind_some] at this
          simp [this]

end WinterProofs.C02L
