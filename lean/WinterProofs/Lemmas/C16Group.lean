-- C16: invariant of `group_constraints` (boundary/mod.rs): groups are keyed by (stride, first_step),
-- carry the divisor of the first assertion with that key, and list the columns of all of them.
import Winter.Model.Divisor

namespace WinterProofs.C16L
open Model.Divisor

variable {α : Type}

def groupStep (O : Ops α) (n : Nat) (acc : Res (List (Group α))) (a : Assertion α) : Res (List (Group α)) :=
  match acc with
  | .panic s => .panic s
  | .ok groups =>
    if groups.any (fun g => g.stride == a.stride && g.first == a.first) then
      .ok (groups.map (fun g =>
        if g.stride == a.stride && g.first == a.first then { g with columns := g.columns ++ [a.column] } else g))
    else match fromAssertion O a n with
      | .panic s => .panic s
      | .ok d => .ok (groups ++ [⟨a.stride, a.first, d, [a.column]⟩])

theorem groupConstraints_eq (O : Ops α) (sorted : List (Assertion α)) (n : Nat) :
    groupConstraints O sorted n = sorted.foldl (groupStep O n) (.ok []) := rfl

/-- the invariant relating the groups built so far to the assertions processed so far -/
def GInv (O : Ops α) (n : Nat) (processed : List (Assertion α)) (groups : List (Group α)) : Prop :=
  (∀ grp ∈ groups, ∃ a0 ∈ processed, a0.stride = grp.stride ∧ a0.first = grp.first ∧
      fromAssertion O a0 n = .ok grp.divisor) ∧
  (∀ grp ∈ groups, ∀ col, col ∈ grp.columns ↔
      ∃ a ∈ processed, a.stride = grp.stride ∧ a.first = grp.first ∧ a.column = col) ∧
  (∀ a ∈ processed, ∃ grp ∈ groups, grp.stride = a.stride ∧ grp.first = a.first)

theorem key_iff (g : Group α) (a : Assertion α) :
    (g.stride == a.stride && g.first == a.first) = true ↔ g.stride = a.stride ∧ g.first = a.first := by
  simp

theorem groupStep_inv (O : Ops α) (n : Nat) (processed : List (Assertion α)) (groups : List (Group α))
    (a : Assertion α) (hinv : GInv O n processed groups) {d : Divisor α} (hd : fromAssertion O a n = .ok d) :
    ∃ groups', groupStep O n (.ok groups) a = .ok groups' ∧ GInv O n (processed ++ [a]) groups' := by
  obtain ⟨h1, h2, h3⟩ := hinv
  unfold groupStep
  by_cases hany : groups.any (fun g => g.stride == a.stride && g.first == a.first) = true
  · simp only [hany, if_true]
    refine ⟨_, rfl, ?_, ?_, ?_⟩
    · intro grp' hg'
      obtain ⟨grp, hg, rfl⟩ := List.mem_map.mp hg'
      obtain ⟨a0, ha0, e1, e2, e3⟩ := h1 grp hg
      refine ⟨a0, List.mem_append_left _ ha0, ?_⟩
      by_cases hk : (grp.stride == a.stride && grp.first == a.first) = true
      · simp only [hk, if_true]; exact ⟨e1, e2, e3⟩
      · have hkf := (Bool.not_eq_true _).mp hk
        simp only [hkf, Bool.false_eq_true, if_false]; exact ⟨e1, e2, e3⟩
    · intro grp' hg' col
      obtain ⟨grp, hg, rfl⟩ := List.mem_map.mp hg'
      by_cases hk : (grp.stride == a.stride && grp.first == a.first) = true
      · have hk' := (key_iff grp a).mp hk
        simp only [hk, if_true, List.mem_append, List.mem_singleton]
        rw [h2 grp hg col]
        constructor
        · rintro (⟨a', ha', e⟩ | rfl)
          · exact ⟨a', Or.inl ha', e⟩
          · exact ⟨a, Or.inr rfl, hk'.1.symm, hk'.2.symm, rfl⟩
        · rintro ⟨a', ha' | rfl, e⟩
          · exact Or.inl ⟨a', ha', e⟩
          · exact Or.inr e.2.2.symm
      · have hkf := (Bool.not_eq_true _).mp hk
        simp only [hkf, Bool.false_eq_true, if_false, List.mem_append, List.mem_singleton]
        rw [h2 grp hg col]
        constructor
        · rintro ⟨a', ha', e⟩; exact ⟨a', Or.inl ha', e⟩
        · rintro ⟨a', ha' | rfl, e⟩
          · exact ⟨a', ha', e⟩
          · exact absurd ((key_iff grp a').mpr ⟨e.1.symm, e.2.1.symm⟩) hk
    · intro a' ha'
      have hex : ∃ grp ∈ groups, grp.stride = a'.stride ∧ grp.first = a'.first := by
        rcases List.mem_append.mp ha' with h | h
        · exact h3 a' h
        · simp only [List.mem_singleton] at h
          subst h
          obtain ⟨grp, hg, hk⟩ := List.any_eq_true.mp hany
          exact ⟨grp, hg, (key_iff grp a').mp hk⟩
      obtain ⟨grp, hg, e⟩ := hex
      refine ⟨_, List.mem_map.mpr ⟨grp, hg, rfl⟩, ?_⟩
      by_cases hk : (grp.stride == a.stride && grp.first == a.first) = true
      · simp only [hk, if_true]; exact e
      · have hkf := (Bool.not_eq_true _).mp hk
        simp only [hkf, Bool.false_eq_true, if_false]; exact e
  · have hnone : ∀ grp ∈ groups, ¬ (grp.stride = a.stride ∧ grp.first = a.first) := by
      intro grp hg hk
      exact hany (List.any_eq_true.mpr ⟨grp, hg, (key_iff grp a).mpr hk⟩)
    have hanyf := (Bool.not_eq_true _).mp hany
    simp only [hanyf, Bool.false_eq_true, if_false, hd]
    refine ⟨_, rfl, ?_, ?_, ?_⟩
    · intro grp hg
      rcases List.mem_append.mp hg with h | h
      · obtain ⟨a0, ha0, e⟩ := h1 grp h
        exact ⟨a0, List.mem_append_left _ ha0, e⟩
      · simp only [List.mem_singleton] at h
        subst h
        exact ⟨a, List.mem_append_right _ (List.mem_singleton.mpr rfl), rfl, rfl, hd⟩
    · intro grp hg col
      rcases List.mem_append.mp hg with h | h
      · rw [h2 grp h col]
        constructor
        · rintro ⟨a', ha', e⟩; exact ⟨a', List.mem_append_left _ ha', e⟩
        · rintro ⟨a', ha', e⟩
          rcases List.mem_append.mp ha' with h' | h'
          · exact ⟨a', h', e⟩
          · simp only [List.mem_singleton] at h'
            subst h'
            exact absurd ⟨e.1.symm, e.2.1.symm⟩ (hnone grp h)
      · simp only [List.mem_singleton] at h
        subst h
        simp only [List.mem_singleton]
        constructor
        · rintro rfl
          exact ⟨a, List.mem_append_right _ (List.mem_singleton.mpr rfl), rfl, rfl, rfl⟩
        · rintro ⟨a', ha', e⟩
          rcases List.mem_append.mp ha' with h' | h'
          · obtain ⟨grp, hg', e'⟩ := h3 a' h'
            exact absurd ⟨e'.1.trans e.1, e'.2.trans e.2.1⟩ (hnone grp hg')
          · simp only [List.mem_singleton] at h'
            subst h'
            exact e.2.2.symm
    · intro a' ha'
      rcases List.mem_append.mp ha' with h | h
      · obtain ⟨grp, hg, e⟩ := h3 a' h
        exact ⟨grp, List.mem_append_left _ hg, e⟩
      · simp only [List.mem_singleton] at h
        subst h
        exact ⟨_, List.mem_append_right _ (List.mem_singleton.mpr rfl), rfl, rfl⟩

theorem foldl_groupStep_inv (O : Ops α) (n : Nat) (as : List (Assertion α))
    (has : ∀ a ∈ as, ∃ d, fromAssertion O a n = .ok d)
    (processed : List (Assertion α)) (groups : List (Group α)) (hinv : GInv O n processed groups) :
    ∃ out, as.foldl (groupStep O n) (.ok groups) = .ok out ∧ GInv O n (processed ++ as) out := by
  induction as generalizing processed groups with
  | nil => exact ⟨groups, rfl, by simpa using hinv⟩
  | cons a rest ih =>
    obtain ⟨d, hd⟩ := has a List.mem_cons_self
    obtain ⟨groups', hstep, hinv'⟩ := groupStep_inv O n processed groups a hinv hd
    obtain ⟨out, hout, hfin⟩ := ih (fun x hx => has x (List.mem_cons_of_mem _ hx)) (processed ++ [a]) groups' hinv'
    refine ⟨out, ?_, ?_⟩
    · rw [List.foldl_cons, hstep]; exact hout
    · rw [List.append_assoc] at hfin; exact hfin

end WinterProofs.C16L
