-- Primality of the three field moduli (Lucas test), via a kernel-evaluable modular power.
import Mathlib.NumberTheory.LucasPrimality
import Mathlib.Tactic.NormNum.Prime
import Mathlib.Data.ZMod.Basic
import Mathlib.GroupTheory.OrderOfElement

namespace WinterProofs.Primes

/-- binary modular exponentiation with explicit fuel (structural recursion: reduces in the kernel) -/
def powModAux (m : Nat) : Nat → Nat → Nat → Nat → Nat
  | 0, _, _, acc => acc
  | f + 1, b, e, acc =>
    if e = 0 then acc
    else powModAux m f (b * b % m) (e / 2) (if e % 2 = 1 then acc * b % m else acc)

def powMod (a e m : Nat) : Nat := powModAux m 200 (a % m) e (1 % m)

theorem powModAux_spec (m : Nat) : ∀ (f b e acc : Nat), e < 2 ^ f →
    powModAux m f b e acc ≡ acc * b ^ e [MOD m] := by
  intro f
  induction f with
  | zero =>
    intro b e acc he
    have : e = 0 := by omega
    subst this
    simp [powModAux, Nat.ModEq]
  | succ f ih =>
    intro b e acc he
    unfold powModAux
    by_cases h0 : e = 0
    · subst h0; simp [Nat.ModEq]
    · simp only [h0, if_false]
      have he2 : e / 2 < 2 ^ f := by
        rw [Nat.pow_succ] at he; omega
      refine (ih _ _ _ he2).trans ?_
      have hsplit : e = 2 * (e / 2) + e % 2 := by omega
      have hb : (b * b % m) ^ (e / 2) ≡ (b ^ 2) ^ (e / 2) [MOD m] := by
        apply Nat.ModEq.pow
        rw [pow_two]
        exact Nat.mod_modEq _ _
      by_cases hodd : e % 2 = 1
      · simp only [hodd, if_true]
        have hacc : acc * b % m ≡ acc * b [MOD m] := Nat.mod_modEq _ _
        have : acc * b ^ e = acc * b * (b ^ 2) ^ (e / 2) := by
          conv_lhs => rw [hsplit, hodd, pow_add, pow_mul, pow_one]
          ring
        rw [this]
        exact Nat.ModEq.mul hacc hb
      · have hev : e % 2 = 0 := by omega
        have hne : ¬ (0 = 1) := by decide
        simp only [hev, hne, if_false]
        have : acc * b ^ e = acc * (b ^ 2) ^ (e / 2) := by
          conv_lhs => rw [hsplit, hev, add_zero, pow_mul]
        rw [this]
        exact Nat.ModEq.mul_left _ hb

theorem powMod_spec (a e m : Nat) (he : e < 2 ^ 200) : powMod a e m % m = a ^ e % m := by
  unfold powMod
  have h := powModAux_spec m 200 (a % m) e (1 % m) he
  have h2 : 1 % m * (a % m) ^ e ≡ a ^ e [MOD m] := by
    have : 1 * a ^ e = a ^ e := one_mul _
    rw [← this]
    exact Nat.ModEq.mul (Nat.mod_modEq _ _) (Nat.ModEq.pow _ (Nat.mod_modEq _ _))
  exact h.trans h2

/-- transfer to `ZMod m` -/
theorem zmod_pow_eq (a e m : Nat) (he : e < 2 ^ 200) :
    ((a : ZMod m)) ^ e = ((powMod a e m : Nat) : ZMod m) := by
  rw [← Nat.cast_pow, ← ZMod.natCast_mod (a ^ e) m, ← powMod_spec a e m he, ZMod.natCast_mod]

/-- Lucas primality from a complete list of prime factors of `p - 1` (with multiplicity) -/
theorem prime_of_lucas (p a : Nat) (L : List Nat) (hp : p - 1 < 2 ^ 200)
    (hL : ∀ q ∈ L, q.Prime) (hprod : L.prod = p - 1)
    (h1 : powMod a (p - 1) p % p = 1 % p)
    (h2 : ∀ q ∈ L, powMod a ((p - 1) / q) p % p ≠ 1 % p) : p.Prime := by
  apply lucas_primality p (a : ZMod p)
  · rw [zmod_pow_eq a (p - 1) p hp]
    have := (ZMod.natCast_eq_natCast_iff' (powMod a (p - 1) p) 1 p).2 h1
    simpa using this
  · intro q hq hdvd
    rw [← hprod] at hdvd
    obtain ⟨r, hr, hqr⟩ := (Prime.dvd_prod_iff (Nat.Prime.prime hq)).1 hdvd
    have hqr' : q = r := (Nat.prime_dvd_prime_iff_eq hq (hL r hr)).1 hqr
    subst hqr'
    have hlt : (p - 1) / q < 2 ^ 200 := lt_of_le_of_lt (Nat.div_le_self _ _) hp
    rw [zmod_pow_eq a ((p - 1) / q) p hlt]
    intro hc
    have := (ZMod.natCast_eq_natCast_iff' (powMod a ((p - 1) / q) p) 1 p).1 (by simpa using hc)
    exact h2 q hr this

/-- multiplicative order `p - 1` from the same certificate -/
theorem order_of_lucas (p a : Nat) (L : List Nat) (hp1 : 1 < p) (hp : p - 1 < 2 ^ 200)
    (hL : ∀ q ∈ L, q.Prime) (hprod : L.prod = p - 1)
    (h1 : powMod a (p - 1) p % p = 1 % p)
    (h2 : ∀ q ∈ L, powMod a ((p - 1) / q) p % p ≠ 1 % p) : orderOf (a : ZMod p) = p - 1 := by
  apply orderOf_eq_of_pow_and_pow_div_prime (by omega)
  · rw [zmod_pow_eq a (p - 1) p hp]
    have := (ZMod.natCast_eq_natCast_iff' (powMod a (p - 1) p) 1 p).2 h1
    simpa using this
  · intro q hq hdvd
    rw [← hprod] at hdvd
    obtain ⟨r, hr, hqr⟩ := (Prime.dvd_prod_iff (Nat.Prime.prime hq)).1 hdvd
    have hqr' : q = r := (Nat.prime_dvd_prime_iff_eq hq (hL r hr)).1 hqr
    subst hqr'
    have hlt : (p - 1) / q < 2 ^ 200 := lt_of_le_of_lt (Nat.div_le_self _ _) hp
    rw [zmod_pow_eq a ((p - 1) / q) p hlt]
    intro hc
    have := (ZMod.natCast_eq_natCast_iff' (powMod a ((p - 1) / q) p) 1 p).1 (by simpa using hc)
    exact h2 q hr this

/-- an element of order exactly `2^(k+1)` -/
theorem order_two_pow (p a k : Nat) (hk : 2 ^ (k + 1) < 2 ^ 200)
    (h1 : powMod a (2 ^ (k + 1)) p % p = 1 % p)
    (h2 : powMod a (2 ^ k) p % p ≠ 1 % p) : orderOf (a : ZMod p) = 2 ^ (k + 1) := by
  apply orderOf_eq_prime_pow
  · rw [zmod_pow_eq a (2 ^ k) p (lt_trans (Nat.pow_lt_pow_right (by norm_num) (Nat.lt_succ_self k)) hk)]
    intro hc
    have := (ZMod.natCast_eq_natCast_iff' (powMod a (2 ^ k) p) 1 p).1 (by simpa using hc)
    exact h2 this
  · rw [zmod_pow_eq a (2 ^ (k + 1)) p hk]
    have := (ZMod.natCast_eq_natCast_iff' (powMod a (2 ^ (k + 1)) p) 1 p).2 h1
    simpa using this

/-- the 64-bit modulus 2^64 - 2^32 + 1 is prime (witness 7; p - 1 = 2^32·3·5·17·257·65537) -/
theorem prime_M64 : Nat.Prime 18446744069414584321 := by
  apply prime_of_lucas 18446744069414584321 7 (List.replicate 32 2 ++ [3, 5, 17, 257, 65537])
  · norm_num
  · intro q hq
    simp only [List.mem_append, List.mem_replicate, List.mem_cons, List.not_mem_nil, or_false] at hq
    rcases hq with ⟨-, rfl⟩ | rfl | rfl | rfl | rfl | rfl <;> norm_num
  · decide +kernel
  · decide +kernel
  · decide +kernel

/-- the 62-bit modulus 2^62 - 111·2^39 + 1 is prime (witness 3; p - 1 = 2^39·13·17·37957) -/
theorem prime_M62 : Nat.Prime 4611624995532046337 := by
  apply prime_of_lucas 4611624995532046337 3 (List.replicate 39 2 ++ [13, 17, 37957])
  · norm_num
  · intro q hq
    simp only [List.mem_append, List.mem_replicate, List.mem_cons, List.not_mem_nil, or_false] at hq
    rcases hq with ⟨-, rfl⟩ | rfl | rfl | rfl <;> norm_num
  · decide +kernel
  · decide +kernel
  · decide +kernel

theorem prime_18053749339 : Nat.Prime 18053749339 := by
  -- nested Lucas test: 18053749338 = 2 · 3 · 157 · 19165339, witness 3
  apply prime_of_lucas 18053749339 3 [2, 3, 157, 19165339]
  · norm_num
  · intro q hq
    simp only [List.mem_cons, List.not_mem_nil, or_false] at hq
    rcases hq with rfl | rfl | rfl | rfl <;> norm_num
  · decide +kernel
  · decide +kernel
  · decide +kernel

/-- the 128-bit modulus 2^128 - 45·2^40 + 1 is prime
    (witness 3; p - 1 = 2^40·29·181·286619·11394379·18053749339) -/
theorem prime_M128 : Nat.Prime 340282366920938463463374557953744961537 := by
  apply prime_of_lucas 340282366920938463463374557953744961537 3
    (List.replicate 40 2 ++ [29, 181, 286619, 11394379, 18053749339])
  · norm_num
  · intro q hq
    simp only [List.mem_append, List.mem_replicate, List.mem_cons, List.not_mem_nil, or_false] at hq
    rcases hq with ⟨-, rfl⟩ | rfl | rfl | rfl | rfl | rfl
    · norm_num
    · norm_num
    · norm_num
    · norm_num
    · norm_num
    · exact prime_18053749339
  · decide +kernel
  · decide +kernel
  · decide +kernel

end WinterProofs.Primes
