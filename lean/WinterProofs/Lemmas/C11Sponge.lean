-- C11 helper lemmas: byte chunking, the documented encoding of byte strings as field elements and
-- its injectivity, totality of byte hashing, `hash = hash_elements` of the encoding, `merge` versus
-- `hash_elements`.  No Mathlib.
import Winter.Model.Rescue
set_option linter.unusedSimpArgs false
set_option linter.unusedVariables false

namespace WinterProofs.C11.Sponge
open Model Model.Rescue


/-! ### chunks -/

theorem chunksAux_spec : ∀ (fuel : Nat) (bs : List Nat), bs.length ≤ fuel →
    (∀ c ∈ chunksAux fuel bs, 1 ≤ c.length ∧ c.length ≤ 7) ∧ (chunksAux fuel bs).flatten = bs
  | 0, bs, h => by
    have : bs = [] := List.eq_nil_of_length_eq_zero (by omega)
    subst this
    simp [chunksAux]
  | fuel + 1, bs, h => by
    unfold chunksAux
    by_cases he : bs.isEmpty = true
    · have : bs = [] := by simpa using he
      subst this
      simp
    · simp only [he]
      have hne : bs ≠ [] := by simpa using he
      have hlen : 0 < bs.length := List.length_pos_iff.mpr hne
      have ih := chunksAux_spec fuel (bs.drop 7) (by simp; omega)
      constructor
      · intro c hc
        simp only [Bool.false_eq_true, ↓reduceIte, List.mem_cons] at hc
        rcases hc with rfl | hc
        · simp [List.length_take]; omega
        · exact ih.1 c hc
      · simp only [Bool.false_eq_true, ↓reduceIte, List.flatten_cons, ih.2, List.take_append_drop]

/-! ### totality of byte hashing -/

theorem numElements_step (len : Nat) (h : 0 < len) :
    numElements len = 1 + numElements (len - 7) ∧ (len ≤ 7 → numElements len = 1) ∧ (7 < len → 2 ≤ numElements len) := by
  unfold numElements
  refine ⟨?_, ?_, ?_⟩
  · split <;> split <;> omega
  · intro h7; split <;> omega
  · intro h7; split <;> omega

theorem absorbChunks_ok (P : Params) : ∀ (fuel : Nat) (bs : List Nat) (n index : Nat) (si : State × Nat) (buf : List Nat),
    bs.length ≤ fuel → n = index + numElements bs.length →
    ∃ r, absorbChunks P n (chunksAux fuel bs) index si buf = .ok r
  | 0, bs, n, index, si, buf, h, hn => by
    simp [chunksAux, absorbChunks]
  | fuel + 1, bs, n, index, si, buf, h, hn => by
    unfold chunksAux
    by_cases he : bs.isEmpty = true
    · simp [he, absorbChunks]
    · simp only [he, Bool.false_eq_true, ↓reduceIte]
      have hne : bs ≠ [] := by simpa using he
      have hlen : 0 < bs.length := List.length_pos_iff.mpr hne
      obtain ⟨hs1, hs2, hs3⟩ := numElements_step bs.length hlen
      have hn0 : n ≠ 0 := by omega
      have htake : (bs.take 7).length = min 7 bs.length := List.length_take
      unfold absorbChunks chunkBuf
      simp only [hn0, ↓reduceIte]
      by_cases hidx : index < n - 1
      · have h7 : 7 < bs.length := by
          rcases Nat.lt_or_ge 7 bs.length with h7 | h7
          · exact h7
          · have := hs2 h7
            omega
        have hl : (bs.take 7).length = 7 := by omega
        simp only [hidx, ↓reduceIte, hl]
        exact absorbChunks_ok P fuel (bs.drop 7) n (index + 1) _ _ (by simp; omega) (by simp; omega)
      · have hl : (bs.take 7).length < 8 := by omega
        simp only [hidx, ↓reduceIte, hl]
        exact absorbChunks_ok P fuel (bs.drop 7) n (index + 1) _ _ (by simp; omega) (by simp; omega)

/-- hashing a byte string never panics, whatever its length -/
theorem hashBytes_total (P : Params) (bs : List Nat) : ∃ d, hashBytes P bs = .ok d := by
  unfold hashBytes chunks7
  obtain ⟨r, hr⟩ := absorbChunks_ok P bs.length bs (numElements bs.length) 0
    (initState P (numElements bs.length), 0) (List.replicate 8 0) (Nat.le_refl _) (by simp)
  simp only [hr]
  exact ⟨_, rfl⟩




/-! ### little-endian integers -/

theorem ofLe_lt : ∀ (c : List Nat), (∀ b ∈ c, b < 256) → ofLeBytes c < 256 ^ c.length
  | [], _ => by simp [ofLeBytes]
  | b :: bs, h => by
    have hb : b < 256 := h b (by simp)
    have ih := ofLe_lt bs (fun x hx => h x (by simp [hx]))
    simp only [ofLeBytes, List.length_cons, Nat.pow_succ]
    omega

theorem ofLe_inj : ∀ (c c' : List Nat), c.length = c'.length → (∀ b ∈ c, b < 256) → (∀ b ∈ c', b < 256) →
    ofLeBytes c = ofLeBytes c' → c = c'
  | [], [], _, _, _, _ => rfl
  | [], _ :: _, h, _, _, _ => by simp at h
  | _ :: _, [], h, _, _, _ => by simp at h
  | b :: bs, b' :: bs', hl, h, h', he => by
    have hb : b < 256 := h b (by simp)
    have hb' : b' < 256 := h' b' (by simp)
    simp only [ofLeBytes] at he
    have h1 : b = b' := by omega
    have h2 : ofLeBytes bs = ofLeBytes bs' := by omega
    have := ofLe_inj bs bs' (by simpa using hl) (fun x hx => h x (by simp [hx])) (fun x hx => h' x (by simp [hx])) h2
    subst h1; subst this; rfl

theorem ofLe_append : ∀ (a b : List Nat), ofLeBytes (a ++ b) = ofLeBytes a + 256 ^ a.length * ofLeBytes b
  | [], b => by simp [ofLeBytes]
  | x :: a, b => by
    simp only [List.cons_append, ofLeBytes, ofLe_append a b, List.length_cons, Nat.pow_succ]
    rw [Nat.mul_add, Nat.mul_comm (256 ^ a.length) 256, Nat.mul_assoc, Nat.add_assoc]

theorem ofLe_zeros : ∀ k, ofLeBytes (List.replicate k 0) = 0
  | 0 => rfl
  | k + 1 => by simp [List.replicate_succ, ofLeBytes, ofLe_zeros k]

/-- the padded last chunk determines the chunk: the marker byte sits above every data byte -/
theorem pad_inj (c c' : List Nat) (h : ∀ b ∈ c, b < 256) (h' : ∀ b ∈ c', b < 256)
    (he : ofLeBytes c + 256 ^ c.length = ofLeBytes c' + 256 ^ c'.length) : c = c' := by
  have l1 := ofLe_lt c h
  have l2 := ofLe_lt c' h'
  have hlen : c.length = c'.length := by
    rcases Nat.lt_trichotomy c.length c'.length with hlt | heq | hgt
    · have : 256 ^ (c.length + 1) ≤ 256 ^ c'.length := Nat.pow_le_pow_right (by decide) hlt
      rw [Nat.pow_succ] at this
      omega
    · exact heq
    · have : 256 ^ (c'.length + 1) ≤ 256 ^ c.length := Nat.pow_le_pow_right (by decide) hgt
      rw [Nat.pow_succ] at this
      omega
  rw [hlen] at he
  exact ofLe_inj c c' hlen h h' (by omega)




/-- the integers given to `BaseElement::new`, chunk by chunk: plain little-endian value for every
    chunk but the last, which gets a byte of value 1 after its data bytes -/
def encodeChunks : List (List Nat) → List Nat
  | [] => []
  | [c] => [ofLeBytes c + 256 ^ c.length]
  | c :: c' :: rest => ofLeBytes c :: encodeChunks (c' :: rest)

/-- the documented encoding of a byte string as field elements -/
def encodeBytes (bs : List Nat) : List Nat := encodeChunks (chunks7 bs)

theorem encodeChunks_length : ∀ cs, (encodeChunks cs).length = cs.length
  | [] => rfl
  | [_] => rfl
  | _ :: c' :: rest => by simp [encodeChunks, encodeChunks_length (c' :: rest)]

/-- well-formed chunk lists: bytes, and every chunk but the last has exactly 7 of them -/
def WF : List (List Nat) → Prop
  | [] => True
  | [c] => ∀ b ∈ c, b < 256
  | c :: c' :: rest => c.length = 7 ∧ (∀ b ∈ c, b < 256) ∧ WF (c' :: rest)

theorem encodeChunks_inj : ∀ (cs cs' : List (List Nat)), WF cs → WF cs' → encodeChunks cs = encodeChunks cs' → cs = cs'
  | [], [], _, _, _ => rfl
  | [], [_], _, _, h => by simp [encodeChunks] at h
  | [], _ :: _ :: _, _, _, h => by simp [encodeChunks] at h
  | [_], [], _, _, h => by simp [encodeChunks] at h
  | _ :: _ :: _, [], _, _, h => by simp [encodeChunks] at h
  | [c], [c'], w, w', h => by
    simp only [encodeChunks, List.cons.injEq, and_true] at h
    rw [pad_inj c c' w w' h]
  | [c], c1 :: c2 :: rest, _, _, h => by
    have := congrArg List.length h
    simp [encodeChunks_length] at this
  | c1 :: c2 :: rest, [c], _, _, h => by
    have := congrArg List.length h
    simp [encodeChunks_length] at this
  | c :: c2 :: rest, c' :: c2' :: rest', w, w', h => by
    simp only [encodeChunks, List.cons.injEq] at h
    have e1 := ofLe_inj c c' (by rw [w.1, w'.1]) w.2.1 w'.2.1 h.1
    have e2 := encodeChunks_inj (c2 :: rest) (c2' :: rest') w.2.2 w'.2.2 h.2
    rw [e1, e2]





theorem chunksAux_nil (fuel : Nat) : chunksAux fuel [] = [] := by
  cases fuel <;> simp [chunksAux]

theorem chunksAux_cons (fuel : Nat) (bs : List Nat) (hne : bs ≠ []) :
    chunksAux (fuel + 1) bs = bs.take 7 :: chunksAux fuel (bs.drop 7) := by
  have he : bs.isEmpty = false := by simpa using hne
  simp [chunksAux, he]

theorem chunksAux_ne_nil (fuel : Nat) (bs : List Nat) (hne : bs ≠ []) (hf : bs.length ≤ fuel) :
    ∃ c rest, chunksAux fuel bs = c :: rest := by
  cases fuel with
  | zero =>
    have : bs = [] := List.eq_nil_of_length_eq_zero (by omega)
    exact absurd this hne
  | succ f => exact ⟨_, _, chunksAux_cons f bs hne⟩

theorem chunksAux_WF : ∀ (fuel : Nat) (bs : List Nat), bs.length ≤ fuel → (∀ b ∈ bs, b < 256) → WF (chunksAux fuel bs)
  | 0, bs, _, _ => by simp [chunksAux, WF]
  | fuel + 1, bs, h, hb => by
    by_cases hne : bs = []
    · subst hne; simp [chunksAux, WF]
    · rw [chunksAux_cons fuel bs hne]
      have hbt : ∀ b ∈ bs.take 7, b < 256 := fun b hx => hb b (List.mem_of_mem_take hx)
      have hbd : ∀ b ∈ bs.drop 7, b < 256 := fun b hx => hb b (List.mem_of_mem_drop hx)
      have ih := chunksAux_WF fuel (bs.drop 7) (by simp; omega) hbd
      by_cases hd : bs.drop 7 = []
      · rw [hd, chunksAux_nil]
        exact hbt
      · obtain ⟨c, rest, hc⟩ := chunksAux_ne_nil fuel (bs.drop 7) hd (by simp; omega)
        rw [hc] at ih ⊢
        have hl : 7 < bs.length := by
          have := List.length_pos_iff.mpr hd
          simp at this
          omega
        refine ⟨?_, hbt, ih⟩
        simp [List.length_take]; omega

/-- the encoding of byte strings into field elements is injective: strings that differ only in
    length or in trailing zero bytes are encoded differently -/
theorem encodeBytes_injective (a b : List Nat) (ha : ∀ x ∈ a, x < 256) (hb : ∀ x ∈ b, x < 256)
    (h : encodeBytes a = encodeBytes b) : a = b := by
  unfold encodeBytes chunks7 at h
  have e := encodeChunks_inj _ _ (chunksAux_WF a.length a (Nat.le_refl _) ha) (chunksAux_WF b.length b (Nat.le_refl _) hb) h
  have fa := (chunksAux_spec a.length a (Nat.le_refl _)).2
  have fb := (chunksAux_spec b.length b (Nat.le_refl _)).2
  rw [← fa, ← fb, e]

theorem encodeBytes_length (bs : List Nat) : (encodeBytes bs).length = numElements bs.length := by
  unfold encodeBytes chunks7
  rw [encodeChunks_length]
  suffices h : ∀ (fuel : Nat) (bs : List Nat), bs.length ≤ fuel → (chunksAux fuel bs).length = numElements bs.length from
    h _ _ (Nat.le_refl _)
  intro fuel
  induction fuel with
  | zero =>
    intro bs h
    have : bs = [] := List.eq_nil_of_length_eq_zero (by omega)
    subst this; simp [chunksAux, numElements]
  | succ f ih =>
    intro bs h
    by_cases hne : bs = []
    · subst hne; simp [chunksAux, numElements]
    · rw [chunksAux_cons f bs hne, List.length_cons, ih (bs.drop 7) (by simp; omega)]
      have hlen : 0 < bs.length := List.length_pos_iff.mpr hne
      have := (numElements_step bs.length hlen).1
      simp only [List.length_drop]
      omega





theorem absorbChunks_eq (P : Params) : ∀ (fuel : Nat) (bs : List Nat) (n index : Nat) (si : State × Nat) (buf : List Nat),
    bs.length ≤ fuel → n = index + numElements bs.length → buf.drop 7 = [0] →
    absorbChunks P n (chunksAux fuel bs) index si buf
      = .ok (((encodeChunks (chunksAux fuel bs)).map P.F.new).foldl (absorbOne P) si)
  | 0, bs, n, index, si, buf, h, hn, hbuf => by
    simp [chunksAux, absorbChunks, encodeChunks]
  | fuel + 1, bs, n, index, si, buf, h, hn, hbuf => by
    by_cases hne : bs = []
    · subst hne; simp [chunksAux, absorbChunks, encodeChunks]
    · rw [chunksAux_cons fuel bs hne]
      have hlen : 0 < bs.length := List.length_pos_iff.mpr hne
      obtain ⟨hs1, hs2, hs3⟩ := numElements_step bs.length hlen
      have hn0 : n ≠ 0 := by omega
      have htake : (bs.take 7).length = min 7 bs.length := List.length_take
      unfold absorbChunks chunkBuf
      simp only [hn0, ↓reduceIte]
      by_cases hd : bs.drop 7 = []
      · -- the last chunk
        have hl7 : bs.length ≤ 7 := by
          have := congrArg List.length hd
          simp at this; omega
        have hidx : ¬ index < n - 1 := by have := hs2 hl7; omega
        have hl : (bs.take 7).length < 8 := by omega
        simp only [hidx, ↓reduceIte, hl, hd, chunksAux_nil, absorbChunks, encodeChunks, List.map_cons, List.map_nil,
          List.foldl_cons, List.foldl_nil]
        congr 3
        rw [List.append_assoc, ofLe_append]
        simp [ofLeBytes, ofLe_zeros]
      · obtain ⟨c, rest, hc⟩ := chunksAux_ne_nil fuel (bs.drop 7) hd (by simp; omega)
        have hl7 : 7 < bs.length := by
          have := List.length_pos_iff.mpr hd
          simp at this; omega
        have hidx : index < n - 1 := by have := hs3 hl7; omega
        have hl : (bs.take 7).length = 7 := by omega
        simp only [hidx, ↓reduceIte, hl]
        rw [absorbChunks_eq P fuel (bs.drop 7) n (index + 1) _ _ (by simp; omega) (by simp; omega)
          (by rw [List.drop_append_of_le_length (by omega)]; simp [hbuf])]
        rw [hc, encodeChunks, ← hc]
        simp only [List.map_cons, List.foldl_cons]
        congr 4
        rw [ofLe_append, hbuf]
        simp [ofLeBytes]

/-- hashing a byte string is hashing its documented encoding as field elements -/
theorem hashBytes_eq (P : Params) (bs : List Nat) :
    hashBytes P bs = .ok (hashElements P ((encodeBytes bs).map P.F.new)) := by
  unfold hashBytes hashElements chunks7
  simp only []
  rw [absorbChunks_eq P bs.length bs (numElements bs.length) 0 _ _ (Nat.le_refl _) (by simp) (by decide)]
  simp only [List.length_map, encodeBytes_length]
  rfl




theorem f64_new_zero : Gen.F64.new 0 = 0 := by decide

theorem f64_add_zero (e : Nat) (h : e < 18446744069414584321) : Gen.F64.add 0 e = e := by
  unfold Gen.F64.add Gen.F64.add.s_x1 Gen.F64.add.s_c1 Gen.F64.add.s_adj
  simp only []
  generalize hb : decide (0 < 18446744069414584321 - e) = b
  cases b
  · have := of_decide_eq_false hb
    omega
  · have e5 : (0 + 4294967296 - if true = true then 1 else 0) % 4294967296 = 4294967295 := by decide
    rw [e5]
    have e1 : (0 + 18446744073709551616 - (18446744069414584321 - e)) % 18446744073709551616 = e + 4294967295 := by omega
    rw [e1]
    omega

theorem f62_new_zero : Gen.F62.new 0 = 0 := by decide

theorem f62_add_zero (e : Nat) (h : e < 4611686018427387904) : Gen.F62.add 0 e = e := by
  unfold Gen.F62.add Gen.F62.add.s_z Gen.F62.add.s_q
  simp only []
  have : (0 + e) / 4611686018427387904 = 0 := by omega
  rw [this]
  omega

theorem range8 : List.range 8 = [0, 1, 2, 3, 4, 5, 6, 7] := by decide

/-- `merge` of two digests is literally `hash_elements` of the eight elements, for canonical raw words -/
theorem rp64_merge_eq (a0 a1 a2 a3 b0 b1 b2 b3 : Nat)
    (h0 : a0 < 18446744069414584321) (h1 : a1 < 18446744069414584321) (h2 : a2 < 18446744069414584321)
    (h3 : a3 < 18446744069414584321) (h4 : b0 < 18446744069414584321) (h5 : b1 < 18446744069414584321)
    (h6 : b2 < 18446744069414584321) (h7 : b3 < 18446744069414584321) :
    merge rp64 [a0, a1, a2, a3] [b0, b1, b2, b3] = hashElements rp64 [a0, a1, a2, a3, b0, b1, b2, b3] := by
  have pj : rp64.jive = false := rfl
  have pw : rp64.width = 12 := rfl
  have pr : rp64.rateStart = 4 := rfl
  have prw : rp64.rateWidth = 8 := rfl
  have pc : rp64.capIdx = 0 := rfl
  have pn : rp64.F.new = Gen.F64.new := rfl
  have pa : rp64.F.add = Gen.F64.add := rfl
  simp [merge, mergeState, hashElements, absorbOne, addAt, initState, zeroState, finish, pj, pw, pr, prw, pc, pn, pa,
    f64_new_zero, f64_add_zero, h0, h1, h2, h3, h4, h5, h6, h7, List.replicate, range8, List.modify]


end WinterProofs.C11.Sponge
