-- C07 helper lemmas, 128-bit field: the inversion as TRANSLATED from the Rust source
-- (Winter/Gen/F128Inv.lean: `while` loops on 64-bit limbs with one fuel parameter `N`) refines the
-- hand model `Model.F128.inv` (loops on natural numbers) for every fuel `N ≥ 800`, and none of its
-- checked operations overflows.  Limb-level lemmas: C07F128InvLimb.lean; invariant `K`: C07F128Inv.lean.
import WinterProofs.Lemmas.C07F128InvLimb
import WinterProofs.Lemmas.C07F128Inv
namespace WinterProofs.F128G
open Gen.F128 Gen.F128Inv WinterProofs.F128L WinterProofs.F128Z

theorem pow135_lt : (2 : Nat) ^ 135 = 43556142965880123323311949751266331066368 := by norm_num

theorem K_sum_lt {xz s : ZMod P} {U V D A n : Nat} (h : K xz s U V D A n) :
    D + A < 1393796574908163946345982392040522594123776 := by
  obtain ⟨h1, h2⟩ := h.acc_lt
  rw [pow135_lt] at h1 h2
  omega

/-- the `while u > v` loop refines `Model.F128.reduceU` -/
theorem reduceU_sim (xz : ZMod P) : ∀ (f u v a d n u' d' u0 u1 u2 d0 d1 d2 a0 a1 a2 : Nat),
    K xz (-1) u v d a n → v < 340282366920938463463374607431768211456 →
    Model.F128.reduceU f u v a d = .done (u', d') →
    Rep u0 u1 u2 u → Rep d0 d1 d2 d → Rep a0 a1 a2 a →
    ∀ (F N : Nat), f ≤ F → 400 ≤ N →
    ∃ p0 p1 p2 q0 q1 q2 n',
      inv.loop1_body.loop1 N v a0 a1 a2 F u0 u1 u2 d0 d1 d2 = (p0, p1, p2, q0, q1, q2) ∧
      Rep p0 p1 p2 u' ∧ Rep q0 q1 q2 d' ∧
      inv.loop1_body.loop1_ok N v a0 a1 a2 F u0 u1 u2 d0 d1 d2 = true ∧
      K xz (-1) u' v d' a n' ∧ u' ≤ v := by
  intro f
  induction f with
  | zero =>
    intro u v a d n u' d' u0 u1 u2 d0 d1 d2 a0 a1 a2 _ _ h
    unfold Model.F128.reduceU at h
    exact absurd h (by intro h; cases h)
  | succ f ih =>
    intro u v a d n u' d' u0 u1 u2 d0 d1 d2 a0 a1 a2 hK hv h hu hd ha F N hF hN
    obtain ⟨F', rfl⟩ : ∃ F', F = F' + 1 := ⟨F - 1, by omega⟩
    unfold Model.F128.reduceU at h
    by_cases hlt : u > v
    · rw [if_pos hlt] at h
      obtain ⟨U', D', hh, hK', _⟩ := halve_step hK hlt
      rw [hh] at h
      dsimp only at h
      have hcond := (L2_cond_iff N u0 u1 u2 d0 d1 d2 v a0 a1 a2 u hu hv).2 hlt
      obtain ⟨b0, b1, b2, c0, c1, c2, hB, hrb, hrc, hBok⟩ :=
        B2_spec N u0 u1 u2 d0 d1 d2 v a0 a1 a2 u d a U' D' hu hd ha hv hlt (K_sum_lt hK) hN hh
      obtain ⟨p0, p1, p2, q0, q1, q2, n', hL, hrp, hrq, hLok, hKf, hle⟩ :=
        ih U' v a D' (n + 1) u' d' b0 b1 b2 c0 c1 c2 a0 a1 a2 hK' hv h hrb hrc ha F' N (by omega) hN
      refine ⟨p0, p1, p2, q0, q1, q2, n', ?_, hrp, hrq, ?_, hKf, hle⟩
      · rewrite [L2_succ, if_pos hcond, hB]
        exact hL
      · rewrite [L2_ok_succ, if_pos hcond, hB, hBok, L2_cond_ok N u0 u1 u2 d0 d1 d2 v a0 a1 a2 u hu]
        dsimp only
        rewrite [hLok]
        rfl
    · rw [if_neg hlt] at h
      have hcond : ¬ inv.loop1_body.loop1_cond N u0 u1 u2 d0 d1 d2 v a0 a1 a2 = true :=
        fun hc => hlt ((L2_cond_iff N u0 u1 u2 d0 d1 d2 v a0 a1 a2 u hu hv).1 hc)
      injection h with h
      injection h with h1 h2
      subst h1 h2
      refine ⟨u0, u1, u2, d0, d1, d2, n, ?_, hu, hd, ?_, hK, by omega⟩
      · rewrite [L2_succ, if_neg hcond]
        rfl
      · rewrite [L2_ok_succ, if_neg hcond, L2_cond_ok N u0 u1 u2 d0 d1 d2 v a0 a1 a2 u hu]
        rfl


/-- the outer `while v != 1` loop refines `Model.F128.outer` -/
theorem outer_sim (xz : ZMod P) : ∀ (f a u v d n r a0 a1 a2 u0 u1 u2 d0 d1 d2 : Nat),
    K xz (-1) u v d a n → v < 340282366920938463463374607431768211456 →
    Model.F128.outer f a u v d = .done r →
    Rep a0 a1 a2 a → Rep u0 u1 u2 u → Rep d0 d1 d2 d →
    ∀ (F N : Nat), f ≤ F → 800 ≤ N →
    ∃ v' b0 b1 b2 p0 p1 p2 q0 q1 q2,
      inv.loop1 N F v a0 a1 a2 u0 u1 u2 d0 d1 d2 = (v', b0, b1, b2, p0, p1, p2, q0, q1, q2) ∧
      Rep b0 b1 b2 r ∧
      inv.loop1_ok N F v a0 a1 a2 u0 u1 u2 d0 d1 d2 = true := by
  intro f
  induction f with
  | zero =>
    intro a u v d n r a0 a1 a2 u0 u1 u2 d0 d1 d2 _ _ h
    unfold Model.F128.outer at h
    exact absurd h (by intro h; cases h)
  | succ f ih =>
    intro a u v d n r a0 a1 a2 u0 u1 u2 d0 d1 d2 hK hv h ha hu hd F N hF hN
    obtain ⟨F', rfl⟩ : ∃ F', F = F' + 1 := ⟨F - 1, by omega⟩
    unfold Model.F128.outer at h
    by_cases hv1 : v = 1
    · rw [if_pos hv1] at h
      injection h with h
      subst h
      have hcond : ¬ inv.loop1_cond N v a0 a1 a2 u0 u1 u2 d0 d1 d2 = true :=
        fun hc => (L1_cond_iff N v a0 a1 a2 u0 u1 u2 d0 d1 d2).1 hc hv1
      refine ⟨v, a0, a1, a2, u0, u1, u2, d0, d1, d2, ?_, ha, ?_⟩
      · rewrite [L1_succ, if_neg hcond]
        rfl
      · rewrite [L1_ok_succ, if_neg hcond]
        rfl
    · rw [if_neg hv1] at h
      have hcond := (L1_cond_iff N v a0 a1 a2 u0 u1 u2 d0 d1 d2).2 hv1
      -- the model's `while u > v`
      have hu800 : u < 2 ^ 800 :=
        lt_trans hK.lt_pow (Nat.pow_lt_pow_right (by norm_num) (by norm_num))
      obtain ⟨u', d', _, hr, _, _⟩ := reduceU_spec xz 800 u v a d n hK hu800
      rw [hr] at h
      dsimp only at h
      obtain ⟨p0, p1, p2, q0, q1, q2, n', hL2, hrp, hrq, hL2ok, hK', hle⟩ :=
        reduceU_sim xz 800 u v a d n u' d' u0 u1 u2 d0 d1 d2 a0 a1 a2 hK hv hr hu hd ha N N (by omega) (by omega)
      -- `v -= u; a += d;` and the halving of `v`
      have hne : u' ≠ v := by
        intro e
        subst e
        have := hK'.2.2.1
        rw [Nat.coprime_self] at this
        exact hv1 this
      have hlt : u' < v := lt_of_le_of_ne hle hne
      have hKs : K xz 1 v u' a d' n' := by
        have := hK'.swap
        rwa [neg_neg] at this
      obtain ⟨V', A', hh, hK2, h2⟩ := halve_step hKs hlt
      rw [hh] at h
      dsimp only at h
      obtain ⟨g0, g1, g2, hadd, hrg, haddok⟩ :=
        add_rep a0 a1 a2 q0 q1 q2 a d' ha hrq (by have := K_sum_lt hKs; omega)
      have hlow : p0 + (p1 * 18446744073709551616 % 340282366920938463463374607431768211456) = u' := by
        obtain ⟨h0, h1, h2', hn⟩ := hrp
        rw [low_eq p0 p1 h1]
        omega
      obtain ⟨b0, b1, b2, hLv, hrb, hLvok⟩ :=
        halve_sim_v 400 (v - u') (a + d') V' A' g0 g1 g2 hh hrg (K_sum_lt hKs) N g0 g1 g2 (by omega)
      rw [← hlow] at hLv hLvok
      have hB := B1_eq N v a0 a1 a2 u0 u1 u2 d0 d1 d2 p0 p1 p2 q0 q1 q2 g0 g1 g2 V' b0 b1 b2 hL2 hadd hLv
      have hBok := B1_ok_eq N v a0 a1 a2 u0 u1 u2 d0 d1 d2 p0 p1 p2 q0 q1 q2 g0 g1 g2 hL2 hL2ok
        (by rw [hlow]; omega) (by rw [hlow]; omega) hadd haddok hLvok
      have hK3 : K xz (-1) u' V' d' A' (n' + 1) := hK2.swap
      obtain ⟨v', c0, c1, c2, s0, s1, s2, t0, t1, t2, hL1, hrc, hL1ok⟩ :=
        ih A' u' V' d' (n' + 1) r b0 b1 b2 p0 p1 p2 q0 q1 q2 hK3 (by omega) h hrb hrp hrq F' N (by omega) hN
      refine ⟨v', c0, c1, c2, s0, s1, s2, t0, t1, t2, ?_, hrc, ?_⟩
      · rewrite [L1_succ, if_pos hcond, hB]
        exact hL1
      · rewrite [L1_ok_succ, if_pos hcond, hB, hBok]
        dsimp only
        rewrite [hL1ok]
        rfl

/-- **Refinement.** For every canonical word and every fuel `N ≥ 800` the translated inversion
    returns what the hand model returns, and no checked operation overflows or underflows
    (the model's own fuels are 800 / 800 / 400 / 200; `800` dominates them) -/
theorem gen_inv_refines (x r N : Nat) (hx : x < 340282366920938463463374557953744961537) (hN : 800 ≤ N)
    (h : Model.F128.inv x = .done r) :
    Gen.F128Inv.inv N x = r ∧ Gen.F128Inv.inv_ok N x = true := by
  by_cases hx0 : x = 0
  · subst hx0
    have : r = 0 := by
      unfold Model.F128.inv at h
      rw [if_pos rfl] at h
      injection h with h
      exact h.symm
    subst this
    exact inv_zero N
  · unfold Model.F128.inv at h
    rw [if_neg hx0] at h
    dsimp only at h
    rw [M_lit] at h
    obtain ⟨u, hu⟩ : ∃ u, u = if x % 2 = 1 then x else x + 340282366920938463463374557953744961537 := ⟨_, rfl⟩
    rw [← hu] at h
    have hK := K_init x u hx hx0 hu
    have hM800 : 340282366920938463463374557953744961537 < 2 ^ 800 :=
      lt_trans (by norm_num : 340282366920938463463374557953744961537 < 2 ^ 130)
        (Nat.pow_lt_pow_right (by norm_num) (by norm_num))
    obtain ⟨r0, _, hr0, _, _, _⟩ := outer_spec (x : ZMod P) 800 0 u _ _ 0 hK hM800
    rw [hr0] at h
    dsimp only at h
    obtain ⟨hrepU, haddok⟩ := repU x (by omega)
    rw [← hu] at hrepU
    have hc : inv.s_c x = false := by
      unfold inv.s_c
      exact decide_eq_false hx0
    obtain ⟨v', b0, b1, b2, p0, p1, p2, q0, q1, q2, hL1, hrb, hL1ok⟩ :=
      outer_sim (x : ZMod P) 800 0 u _ _ 0 r0 _ _ _ _ _ _ _ _ _ hK (by norm_num) hr0 repA0 hrepU repD
        N N hN hN
    obtain ⟨l0, l1, l2, hL4, hL4ok⟩ := reduceA_sim 200 r0 r b0 b1 b2 h hrb N (by omega)
    exact ⟨inv_eq N x v' b0 b1 b2 p0 p1 p2 q0 q1 q2 l0 l1 l2 r hc hL1 hL4,
      inv_ok_eq N x v' b0 b1 b2 p0 p1 p2 q0 q1 q2 haddok hL1 hL1ok hrb.1 hrb.2.1 hL4ok⟩

end WinterProofs.F128G
