-- C14 helper lemmas: concurrent `build_merkle_nodes` as step lists — every interleaving of the first-row loop, then
-- every interleaving of the spawned tasks, then the tip, leaves exactly the nodes the serial loop leaves
import WinterProofs.Lemmas.C14Merkle
import WinterProofs.Lemmas.C14Sched

namespace WinterProofs.C14
open Model.Parallel
open Model.Fft (brev permuteIndex isPow2)

variable {α : Type} (merge : α → α → α)

/-! ### any order that never computes a node before its children builds the tree -/

/-- the steps "node k from its children", in list order (the task tag is irrelevant for the state) -/
def nodeSteps (ks : List Nat) : List (Step α) := ks.map (merkleStep merge 0)

/-- no node is followed by itself or by one of its children -/
def GoodOrder (L : List Nat) : Prop := L.Pairwise (fun x y => y ≠ x ∧ y ≠ 2 * x ∧ y ≠ 2 * x + 1)

/-- the state is the Merkle tree over the leaves `[2n, 4n)` of `s0`: every node `1 ≤ k < 2n` is the merge of its
    children, everything else is untouched -/
def IsTree (n : Nat) (s0 s : Nat → α) : Prop :=
  (∀ k, 1 ≤ k → k < 2 * n → s k = merge (s (2 * k)) (s (2 * k + 1))) ∧ ∀ k, (k = 0 ∨ 2 * n ≤ k) → s k = s0 k

theorem runAll_nodeSteps_cons (k : Nat) (L : List Nat) (s : Nat → α) :
    runAll (nodeSteps merge (k :: L)) s = runAll (nodeSteps merge L) (setAt s k (merge (s (2 * k)) (s (2 * k + 1)))) := rfl

private def Inv (n : Nat) (s0 : Nat → α) (P : List Nat) (s : Nat → α) : Prop :=
  (∀ k ∈ P, s k = merge (s (2 * k)) (s (2 * k + 1)) ∧ (2 * n ≤ 2 * k ∨ (2 * k ∈ P ∧ 2 * k + 1 ∈ P))) ∧
    ∀ k, k ∉ P → s k = s0 k

private theorem inv_run (n : Nat) (s0 : Nat → α) : ∀ (L P : List Nat) (s : Nat → α),
    GoodOrder (P ++ L) → (∀ k, k ∈ P ++ L → 1 ≤ k ∧ k < 2 * n) → (∀ k, 1 ≤ k → k < 2 * n → k ∈ P ++ L) →
    Inv merge n s0 P s → Inv merge n s0 (P ++ L) (runAll (nodeSteps merge L) s) := by
  intro L
  induction L with
  | nil => intro P s _ _ _ h; simpa [nodeSteps, runAll] using h
  | cons k L ih =>
    intro P s hgo hrange hcov hinv
    have hsplit : P ++ k :: L = (P ++ [k]) ++ L := by simp
    rw [runAll_nodeSteps_cons, hsplit]
    have hk := hrange k (by simp)
    -- facts from the order
    have hgo' := hgo
    rw [GoodOrder, List.pairwise_append] at hgo'
    obtain ⟨_, hkL, hPk⟩ := hgo'
    have hkL' := List.pairwise_cons.mp hkL
    have hkP : k ∉ P := fun h => (hPk k h k (by simp)).1 rfl
    apply ih (P ++ [k]) _ (by rw [← hsplit]; exact hgo) (by rw [← hsplit]; exact hrange) (by rw [← hsplit]; exact hcov)
    -- the invariant after the step
    constructor
    · intro j hj
      rcases List.mem_append.mp hj with hjP | hjk
      · obtain ⟨e, c⟩ := hinv.1 j hjP
        have hjk : j ≠ k := fun h => hkP (h ▸ hjP)
        have h2j : 2 * j ≠ k := by
          intro h
          rcases c with c | c
          · omega
          · exact hkP (h ▸ c.1)
        have h2j1 : 2 * j + 1 ≠ k := by
          intro h
          rcases c with c | c
          · omega
          · exact hkP (h ▸ c.2)
        refine ⟨by simp [setAt, hjk, h2j, h2j1, e], ?_⟩
        rcases c with c | c
        · exact Or.inl c
        · exact Or.inr ⟨List.mem_append.mpr (Or.inl c.1), List.mem_append.mpr (Or.inl c.2)⟩
      · have : j = k := by simpa using hjk
        subst this
        have h1 : 2 * j ≠ j := by omega
        have h2 : 2 * j + 1 ≠ j := by omega
        refine ⟨by simp [setAt, h1, h2], ?_⟩
        by_cases hleaf : 2 * n ≤ 2 * j
        · exact Or.inl hleaf
        · right
          have c1 : 2 * j ∈ P ++ j :: L := hcov _ (by omega) (by omega)
          have c2 : 2 * j + 1 ∈ P ++ j :: L := hcov _ (by omega) (by omega)
          constructor
          · rcases List.mem_append.mp c1 with h | h
            · exact List.mem_append.mpr (Or.inl h)
            · rcases List.mem_cons.mp h with h | h
              · omega
              · exact absurd rfl (hkL'.1 _ h).2.1
          · rcases List.mem_append.mp c2 with h | h
            · exact List.mem_append.mpr (Or.inl h)
            · rcases List.mem_cons.mp h with h | h
              · omega
              · exact absurd rfl (hkL'.1 _ h).2.2
    · intro j hj
      have hjk : j ≠ k := fun h => hj (by simp [h])
      have hjP : j ∉ P := fun h => hj (by simp [h])
      simp [setAt, hjk, hinv.2 j hjP]

/-- any order of the nodes `[1, 2n)` in which no node precedes itself or one of its children builds the tree -/
theorem run_isTree (n : Nat) (L : List Nat) (hgo : GoodOrder L) (hmem : ∀ k, k ∈ L ↔ 1 ≤ k ∧ k < 2 * n) (s0 : Nat → α) :
    IsTree merge n s0 (runAll (nodeSteps merge L) s0) := by
  have := inv_run merge n s0 L [] s0 (by simpa using hgo) (by simpa using fun k h => (hmem k).mp h)
    (by simpa using fun k h1 h2 => (hmem k).mpr ⟨h1, h2⟩) ⟨by simp, by simp⟩
  simp only [List.nil_append] at this
  constructor
  · intro k h1 h2
    exact (this.1 k ((hmem k).mpr ⟨h1, h2⟩)).1
  · intro k hk
    apply this.2
    intro h
    have := (hmem k).mp h
    omega

/-- the tree over given leaves is unique -/
theorem isTree_unique (n : Nat) (s0 s s' : Nat → α) (h : IsTree merge n s0 s) (h' : IsTree merge n s0 s') :
    ∀ k, s k = s' k := by
  have key : ∀ d k, 2 * n - k ≤ d → s k = s' k := by
    intro d
    induction d with
    | zero =>
      intro k hk
      rw [h.2 k (by omega), h'.2 k (by omega)]
    | succ d ih =>
      intro k hk
      by_cases h0 : k = 0 ∨ 2 * n ≤ k
      · rw [h.2 k h0, h'.2 k h0]
      · rw [h.1 k (by omega) (by omega), h'.1 k (by omega) (by omega), ih (2 * k) (by omega), ih (2 * k + 1) (by omega)]
  intro k
  exact key (2 * n - k) k (Nat.le_refl _)

/-! ### the two concrete orders -/

theorem good_of_lt {x y : Nat} (h : y < x) : y ≠ x ∧ y ≠ 2 * x ∧ y ≠ 2 * x + 1 := by omega

/-- a descending run is a good order -/
theorem good_desc (a m : Nat) : GoodOrder (List.range' a m).reverse := by
  rw [GoodOrder, List.pairwise_reverse]
  exact List.Pairwise.imp (fun h => good_of_lt h) (List.pairwise_lt_range' (s := a) (n := m))

/-- the serial order: first row `n, …, 2n-1`, then `n-1, …, 1` -/
def serialOrder (n : Nat) : List Nat := List.range' n n ++ (List.range' 1 (n - 1)).reverse

theorem serialOrder_good (n : Nat) : GoodOrder (serialOrder n) ∧ ∀ k, k ∈ serialOrder n ↔ 1 ≤ k ∧ k < 2 * n := by
  constructor
  · rw [serialOrder, GoodOrder, List.pairwise_append]
    refine ⟨?_, good_desc 1 (n - 1), ?_⟩
    · refine List.Pairwise.imp_of_mem ?_ (List.pairwise_lt_range' (s := n) (n := n))
      intro a b ha hb hab
      simp only [List.mem_range'_1] at ha hb
      omega
    · intro a ha b hb
      simp only [List.mem_range'_1, List.mem_reverse] at ha hb
      omega
  · intro k
    simp only [serialOrder, List.mem_append, List.mem_range'_1, List.mem_reverse]
    omega

/-- the sequential order of the concurrent build: first row, task 0, task 1, …, tip -/
def concOrder (n S : Nat) : List Nat :=
  List.range' n n ++ ((List.range S).flatMap (merkleTaskWrites n S) ++ merkleTip S)

theorem inSubtree_range (a b i k : Nat) (hb : b < a) (hi : i < 2 ^ b) (h : InSubtree (2 ^ b) (a - b) i k) :
    2 ^ b ≤ k ∧ k < 2 ^ a := by
  obtain ⟨d, hd, hk⟩ := h
  have := (div_pow_range b d k).mp ⟨by omega, by rw [Nat.pow_succ]; omega⟩
  have h1 : 2 ^ b ≤ 2 ^ (b + d) := Nat.pow_le_pow_right (by decide) (by omega)
  have h2 : 2 ^ (b + d + 1) ≤ 2 ^ a := Nat.pow_le_pow_right (by decide) (by omega)
  omega

/-- nodes of two different sub-trees: neither equal nor parent and child -/
theorem cross_task (a b i i' x y : Nat) (hlt : b < a) (hi : i < 2 ^ b) (hi' : i' < 2 ^ b) (hne : i ≠ i')
    (hxs : InSubtree (2 ^ b) (a - b) i x) (hys : InSubtree (2 ^ b) (a - b) i' y) :
    y ≠ x ∧ y ≠ 2 * x ∧ y ≠ 2 * x + 1 := by
  have hxr := inSubtree_range a b i x hlt hi hxs
  have hyr := inSubtree_range a b i' y hlt hi' hys
  obtain ⟨i0, _, _, huniq⟩ := subtree_owner_unique a b y hlt hyr.1 hyr.2
  have hi'0 := huniq i' hi' hys
  obtain ⟨i1, _, _, huniq1⟩ := subtree_owner_unique a b x hlt hxr.1 hxr.2
  have e1 := huniq1 i hi hxs
  refine ⟨?_, ?_, ?_⟩
  · intro h
    have := huniq i hi (h ▸ hxs)
    omega
  · intro h
    obtain ⟨d', hd', hk'⟩ := hys
    cases d' with
    | zero => simp at hk'; omega
    | succ d' =>
      have : x / 2 ^ d' = 2 ^ b + i' := by
        rw [← hk', h, Nat.pow_succ, Nat.mul_comm (2 ^ d') 2, ← Nat.div_div_eq_div_mul,
          Nat.mul_div_cancel_left _ (by decide : 0 < 2)]
      have e2 := huniq1 i' hi' ⟨d', by omega, this⟩
      omega
  · intro h
    obtain ⟨d', hd', hk'⟩ := hys
    cases d' with
    | zero => simp at hk'; omega
    | succ d' =>
      have : x / 2 ^ d' = 2 ^ b + i' := by
        rw [← hk', h, Nat.pow_succ, Nat.mul_comm (2 ^ d') 2, ← Nat.div_div_eq_div_mul]
        congr 1; omega
      have e2 := huniq1 i' hi' ⟨d', by omega, this⟩
      omega

/-- within one task: rows bottom-up, each downwards — strictly decreasing node numbers -/
theorem taskWrites_desc (a b i : Nat) (hb : b < a) (ha : a - b ≤ 64) (hi : i < 2 ^ b) :
    (merkleTaskWrites (2 ^ a) (2 ^ b) i).Pairwise (fun x y => y < x) := by
  unfold merkleTaskWrites
  rw [merkleTaskLevels_closed a b i hb ha hi, List.pairwise_flatMap]
  constructor
  · intro p _
    rw [List.pairwise_reverse]
    exact List.pairwise_lt_range' (s := p.1) (n := p.2)
  · rw [List.pairwise_map]
    refine List.Pairwise.imp_of_mem ?_ (List.pairwise_lt_range (n := a - b))
    intro j j' hj hj' hlt x hx y hy
    simp only [List.mem_range] at hj hj'
    simp only [List.mem_reverse, List.mem_range'_1] at hx hy
    -- x in row d = a-b-1-j, y in row d' = a-b-1-j' < d
    have hdd : a - b - 1 - j = (a - b - 1 - j') + (j' - j) := by omega
    have hp : 2 ^ (a - b - 1 - j) = 2 ^ (a - b - 1 - j') * 2 ^ (j' - j) := by rw [hdd, Nat.pow_add]
    have h2 : 2 ≤ 2 ^ (j' - j) := by
      have : (2 : Nat) ^ 1 ≤ 2 ^ (j' - j) := Nat.pow_le_pow_right (by decide) (by omega)
      simpa using this
    have hpos : 0 < 2 ^ (a - b - 1 - j') := Nat.two_pow_pos _
    have : (2 ^ b + i + 1) * 2 ^ (a - b - 1 - j') ≤ (2 ^ b + i) * 2 ^ (a - b - 1 - j) := by
      rw [hp, ← Nat.mul_assoc, Nat.mul_comm _ (2 ^ (a - b - 1 - j')), Nat.mul_comm _ (2 ^ (a - b - 1 - j')),
        Nat.mul_assoc]
      apply Nat.mul_le_mul_left
      have hSi : 1 ≤ 2 ^ b + i := by have := Nat.two_pow_pos b; omega
      calc 2 ^ b + i + 1 ≤ (2 ^ b + i) * 2 := by omega
        _ ≤ (2 ^ b + i) * 2 ^ (j' - j) := Nat.mul_le_mul_left _ h2
    rw [Nat.add_mul] at this
    omega

theorem concOrder_good (a b : Nat) (hb : b ≤ a) (ha : a - b ≤ 64) :
    GoodOrder (concOrder (2 ^ a) (2 ^ b)) ∧ ∀ k, k ∈ concOrder (2 ^ a) (2 ^ b) ↔ 1 ≤ k ∧ k < 2 * 2 ^ a := by
  have hSn : 2 ^ b ≤ 2 ^ a := Nat.pow_le_pow_right (by decide) hb
  have hSpos : 0 < 2 ^ b := Nat.two_pow_pos b
  -- membership in the task part
  have hmemT : ∀ k, k ∈ (List.range (2 ^ b)).flatMap (merkleTaskWrites (2 ^ a) (2 ^ b)) ↔ 2 ^ b ≤ k ∧ k < 2 ^ a := by
    intro k
    rcases Nat.lt_or_ge b a with hlt | hge
    · simp only [List.mem_flatMap, List.mem_range]
      constructor
      · rintro ⟨i, hi, hk⟩
        exact inSubtree_range a b i k hlt hi ((mem_merkleTaskWrites a b i k hlt ha hi).mp hk)
      · rintro ⟨h1, h2⟩
        obtain ⟨i, hi, hin, _⟩ := subtree_owner_unique a b k hlt h1 h2
        exact ⟨i, hi, (mem_merkleTaskWrites a b i k hlt ha hi).mpr hin⟩
    · have : b = a := by omega
      subst this
      simp only [List.mem_flatMap, List.mem_range, merkleTaskWrites, merkleTaskLevels_full]
      constructor
      · rintro ⟨i, _, hk⟩; simp at hk
      · intro h; omega
  have hmemTip := (merkleTip_spec (2 ^ b)).1
  constructor
  · rw [concOrder, GoodOrder, List.pairwise_append]
    refine ⟨?_, ?_, ?_⟩
    · refine List.Pairwise.imp_of_mem ?_ (List.pairwise_lt_range' (s := 2 ^ a) (n := 2 ^ a))
      intro x y hx hy hxy
      simp only [List.mem_range'_1] at hx hy
      omega
    · rw [List.pairwise_append]
      refine ⟨?_, ?_, ?_⟩
      · -- the tasks
        rw [List.pairwise_flatMap]
        constructor
        · intro i hi
          rcases Nat.lt_or_ge b a with hlt | hge
          · exact List.Pairwise.imp (fun h => good_of_lt h) (taskWrites_desc a b i hlt ha (List.mem_range.mp hi))
          · have : b = a := by omega
            subst this
            simp [merkleTaskWrites, merkleTaskLevels_full]
        · refine List.Pairwise.imp_of_mem ?_ (List.pairwise_lt_range (n := 2 ^ b))
          intro i i' hi hi' hii x hx y hy
          simp only [List.mem_range] at hi hi'
          rcases Nat.lt_or_ge b a with hlt | hge
          · have hxs := (mem_merkleTaskWrites a b i x hlt ha hi).mp hx
            have hys := (mem_merkleTaskWrites a b i' y hlt ha hi').mp hy
            exact cross_task a b i i' x y hlt hi hi' (by omega) hxs hys
          · have : b = a := by omega
            subst this
            simp [merkleTaskWrites, merkleTaskLevels_full] at hx
      · exact List.Pairwise.imp (fun h => good_of_lt h) (merkleTip_spec (2 ^ b)).2
      · intro x hx y hy
        have hx' := (hmemT x).mp hx
        have hy' := (hmemTip y).mp hy
        exact good_of_lt (by omega)
    · intro x hx y hy
      simp only [List.mem_range'_1] at hx
      have hy' : y < 2 ^ a := by
        rcases List.mem_append.mp hy with h | h
        · exact ((hmemT y).mp h).2
        · have := (hmemTip y).mp h; omega
      exact good_of_lt (by omega)
  · intro k
    simp only [concOrder, List.mem_append, List.mem_range'_1, hmemT, hmemTip]
    omega

/-! ### the step lists of the model are these orders -/

theorem runAll_eq_of_runs {l l' : List (Step α)} (h : l.map Step.run = l'.map Step.run) (s : Nat → α) :
    runAll l s = runAll l' s := by
  have e : ∀ (l : List (Step α)) (s : Nat → α), runAll l s = (l.map Step.run).foldl (fun s f => f s) s := by
    intro l s; simp [runAll, List.foldl_map]
  rw [e, e, h]

theorem merkleSerial_runs (n : Nat) :
    (merkleSerial merge n).map Step.run = (nodeSteps merge (serialOrder n)).map Step.run := by
  simp [merkleSerial, nodeSteps, serialOrder, List.range'_eq_map_range, merkleStep, Function.comp_def]

theorem flatten_map_singleton' {β γ : Type} (f : β → γ) (l : List β) : (l.map (fun x => [f x])).flatten = l.map f := by
  induction l with
  | nil => rfl
  | cons x l ih => simp [ih]

theorem merkleConc_runs (n S : Nat) :
    ((merkleFirstRow merge n).flatten ++ ((merkleTasks merge n S).flatten ++ merkleTipSteps merge S)).map Step.run
      = (nodeSteps merge (concOrder n S)).map Step.run := by
  simp [merkleFirstRow, merkleTasks, merkleTipSteps, nodeSteps, concOrder, List.range'_eq_map_range, merkleStep,
    Function.comp_def, List.flatMap_def, List.map_flatten, flatten_map_singleton']

/-! ### every interleaving -/

theorem merkleStep_footprint (t k : Nat) :
    Footprint (merkleStep merge t k) (fun p => p = 2 * k ∨ p = 2 * k + 1) (fun p => p = k) := by
  constructor
  · intro s i hi
    simp [merkleStep, setAt, hi]
  · intro s s' h i hi
    subst hi
    simp [merkleStep, setAt, h (2 * i) (Or.inl rfl), h (2 * i + 1) (Or.inr rfl)]

/-- two node steps commute when the nodes are different and neither is a child of the other -/
theorem merkleStep_commute (t t' x y : Nat) (h1 : y ≠ x ∧ y ≠ 2 * x ∧ y ≠ 2 * x + 1)
    (h2 : x ≠ y ∧ x ≠ 2 * y ∧ x ≠ 2 * y + 1) (s : Nat → α) :
    (merkleStep merge t' y).run ((merkleStep merge t x).run s) = (merkleStep merge t x).run ((merkleStep merge t' y).run s) := by
  apply commute_of_nonInterfering _ _ _ _ _ _ (merkleStep_footprint merge t x) (merkleStep_footprint merge t' y)
  constructor
  · intro i hi; subst hi
    exact ⟨fun h => by rcases h with h | h <;> omega, fun h => by omega⟩
  · intro i hi; subst hi
    exact ⟨fun h => by rcases h with h | h <;> omega, fun h => by omega⟩

/-- the first phase: every interleaving of the `n` one-step tasks = the ascending loop -/
theorem merkleFirstRow_any_schedule (n : Nat) (sched : List (Step α)) (hs : IsSchedule (merkleFirstRow merge n) sched)
    (s : Nat → α) : runAll sched s = runAll (merkleFirstRow merge n).flatten s := by
  apply schedule_eq_sequential _ _ _ hs
  intro a ha b hb hne s
  simp only [merkleFirstRow, List.mem_flatten, List.mem_map, List.mem_range] at ha hb
  obtain ⟨_, ⟨j, hj, rfl⟩, ha⟩ := ha
  obtain ⟨_, ⟨j', hj', rfl⟩, hb⟩ := hb
  simp only [List.mem_singleton] at ha hb
  subst ha hb
  have : j ≠ j' := by intro h; subst h; exact hne rfl
  exact merkleStep_commute merge j j' (n + j) (n + j') (by omega) (by omega) s

/-- the second phase: every interleaving of the spawned sub-tree tasks = task 0, task 1, … -/
theorem merkleTasks_any_schedule (a b : Nat) (hb : b ≤ a) (ha : a - b ≤ 64) (sched : List (Step α))
    (hs : IsSchedule (merkleTasks merge (2 ^ a) (2 ^ b)) sched) (s : Nat → α) :
    runAll sched s = runAll (merkleTasks merge (2 ^ a) (2 ^ b)).flatten s := by
  apply schedule_eq_sequential _ _ _ hs
  intro st hst st' hst' hne s
  simp only [merkleTasks, List.mem_flatten, List.mem_map, List.mem_range] at hst hst'
  obtain ⟨_, ⟨i, hi, rfl⟩, hst⟩ := hst
  obtain ⟨_, ⟨i', hi', rfl⟩, hst'⟩ := hst'
  obtain ⟨x, hx, rfl⟩ := List.mem_map.mp hst
  obtain ⟨y, hy, rfl⟩ := List.mem_map.mp hst'
  have hii : i ≠ i' := by intro h; subst h; exact hne rfl
  rcases Nat.lt_or_ge b a with hlt | hge
  · have hxs := (mem_merkleTaskWrites a b i x hlt ha hi).mp hx
    have hys := (mem_merkleTaskWrites a b i' y hlt ha hi').mp hy
    exact merkleStep_commute merge i i' x y (cross_task a b i i' x y hlt hi hi' hii hxs hys)
      (cross_task a b i' i y x hlt hi' hi (Ne.symm hii) hys hxs) s
  · have : b = a := by omega
    subst this
    simp [merkleTaskWrites, merkleTaskLevels_full] at hx

/-- concurrent `build_merkle_nodes`, `n = 2^a` first-row nodes, `S = 2^b ≤ n` sub-trees: EVERY interleaving of the
    first-row loop, followed by EVERY interleaving of the spawned tasks, followed by the tip, leaves in every node
    what the serial `build_merkle_nodes` leaves there — the tree over the leaves -/
theorem merkle_any_schedule_eq_serial (a b : Nat) (hb : b ≤ a) (ha : a - b ≤ 64)
    (sched1 sched2 : List (Step α)) (h1 : IsSchedule (merkleFirstRow merge (2 ^ a)) sched1)
    (h2 : IsSchedule (merkleTasks merge (2 ^ a) (2 ^ b)) sched2) (s0 : Nat → α) :
    (∀ k, runAll (sched1 ++ (sched2 ++ merkleTipSteps merge (2 ^ b))) s0 k = runAll (merkleSerial merge (2 ^ a)) s0 k) ∧
      IsTree merge (2 ^ a) s0 (runAll (merkleSerial merge (2 ^ a)) s0) := by
  have hser : runAll (merkleSerial merge (2 ^ a)) s0 = runAll (nodeSteps merge (serialOrder (2 ^ a))) s0 :=
    runAll_eq_of_runs (merkleSerial_runs merge _) s0
  have hconc : runAll (sched1 ++ (sched2 ++ merkleTipSteps merge (2 ^ b))) s0
      = runAll (nodeSteps merge (concOrder (2 ^ a) (2 ^ b))) s0 := by
    rw [runAll_append, runAll_append, merkleFirstRow_any_schedule merge _ sched1 h1,
      merkleTasks_any_schedule merge a b hb ha sched2 h2, ← runAll_append, ← runAll_append]
    exact runAll_eq_of_runs (merkleConc_runs merge _ _) s0
  have t1 := run_isTree merge (2 ^ a) _ (serialOrder_good (2 ^ a)).1 (serialOrder_good (2 ^ a)).2 s0
  have t2 := run_isTree merge (2 ^ a) _ (concOrder_good a b hb ha).1 (concOrder_good a b hb ha).2 s0
  refine ⟨fun k => ?_, by rw [hser]; exact t1⟩
  rw [hser, hconc]
  exact isTree_unique merge (2 ^ a) s0 _ _ t2 t1 k

end WinterProofs.C14
