-- C10 helper lemmas: completeness of batch openings, assembly
import WinterProofs.Lemmas.C10Leaf

namespace WinterProofs.C10
open Model.Merkle

variable {D : Type}

theorem asc_map_half (o : Nat) : ∀ (l : List Nat), Asc l → (∀ e ∈ l, e % 2 = 0) → Asc (l.map (fun e => (o + e) / 2))
  | [], _, _ => trivial
  | a :: t, ha, hev => by
    simp only [List.map_cons]
    apply Asc.cons (asc_map_half o t (Asc.tail ha) (fun e he => hev e (List.mem_cons_of_mem _ he)))
    intro x hx
    obtain ⟨y, hy, rfl⟩ := List.mem_map.1 hx
    have := Asc.head_lt ha y hy
    have := hev y (List.mem_cons_of_mem _ hy)
    have := hev a (List.mem_cons_self ..)
    omega

/-- completeness of batch openings for a well-formed tree -/
theorem batch_complete_wf (H : Hasher D) (t : Tree D) (d : Nat) (wf : TreeWF H t d) (hd2 : d ≤ 63)
    (idxs : List Nat) (hne : idxs ≠ []) (hlen : idxs.length ≤ 255) (hnd : idxs.Nodup)
    (hr : ∀ i ∈ idxs, i < 2 ^ d) (root : D) (hroot : t.nodes[1]? = some root) :
    ∃ p, proveBatch H t idxs = .ok p ∧ p.depth = d ∧ p.leaves.length = idxs.length ∧
      (∀ j (hj : j < idxs.length), p.leaves[j]? = t.leaves[idxs[j]]?) ∧ getRoot H p idxs = .ok root := by
  obtain ⟨d0, rfl⟩ : ∃ d0, d = d0 + 1 := ⟨d - 1, by have := wf.hd; omega⟩
  have hp := two_pow_succ' d0
  have hpos := Nat.two_pow_pos d0
  have hdepth : t.depth = d0 + 1 := by simp [Tree.depth, wf.llen, Nat.log2_two_pow]
  let val := treeVal H t
  let lv : Nat → D := fun i => val (2 ^ (d0 + 1) + i)
  have vwf : ValWF H val (d0 + 1) := treeVal_wf H t _ wf
  have hvroot : val 1 = root := treeVal_root H t _ wf root hroot
  have htn : ∀ j, 1 ≤ j → j < 2 ^ (d0 + 1) → t.nodes[j]? = some (val j) := by
    intro j _ h2
    have hj : j < t.nodes.length := by rw [wf.nlen]; exact h2
    show t.nodes[j]? = some (treeVal H t j)
    simp [treeVal, hval_lt hj, List.getElem?_eq_getElem hj]
  have htl : ∀ i, i < 2 ^ (d0 + 1) → t.leaves[i]? = some (lv i) := fun i hi => (treeVal_leaf H t _ wf i hi).symm
  -- the position list
  obtain ⟨imap, hm⟩ := mapIndexes_total (d := d0 + 1) (by omega) hnd hr
  obtain ⟨_, _, _, hget, hsound, hil⟩ := mapIndexes_ok hm
  have ctx : LeafCtx idxs imap := ⟨hget, hsound⟩
  obtain ⟨nasc, nmem⟩ := normalize_spec idxs
  have nev : ∀ e ∈ normalizeIndexes idxs, e % 2 = 0 := by
    intro e he; obtain ⟨i, _, rfl⟩ := (nmem e).1 he; omega
  have nrange : ∀ e ∈ normalizeIndexes idxs, e + 1 < 2 ^ (d0 + 1) := by
    intro e he; obtain ⟨i, hi, rfl⟩ := (nmem e).1 he; have := hr i hi; omega
  have nne : normalizeIndexes idxs ≠ [] := by
    match idxs, hne, nmem with
    | i :: rest, _, nmem =>
      intro hn
      have : i - i % 2 ∈ normalizeIndexes (i :: rest) := (nmem _).2 ⟨i, List.mem_cons_self .., rfl⟩
      rw [hn] at this; cases this
  -- prover, leaf level
  obtain ⟨LP, hleaf, hLP, hLPv⟩ := proveLeafLoop_ok t.leaves lv idxs imap t.leaves.length ctx
    (normalizeIndexes idxs) (List.replicate imap.length H.dflt) nasc nev
    (fun e he => ⟨htl e (by have := nrange e he; omega), htl (e + 1) (nrange e he)⟩) (by simp [hil])
  -- the second level
  have hK1 : (normalizeIndexes idxs).map (fun e => (e + t.leaves.length) / 2) =
      (normalizeIndexes idxs).map (fun e => (2 ^ (d0 + 1) + e) / 2) := by
    apply List.map_congr_left; intro e _; rw [wf.llen, Nat.add_comm]
  have hK1asc := asc_map_half (2 ^ (d0 + 1)) _ nasc nev
  have hK1r : ∀ k ∈ (normalizeIndexes idxs).map (fun e => (2 ^ (d0 + 1) + e) / 2), 2 ^ d0 ≤ k ∧ k < 2 ^ (d0 + 1) := by
    intro k hk
    obtain ⟨e, he, rfl⟩ := List.mem_map.1 hk
    have := nrange e he; have := nev e he
    omega
  have hK1ne : (normalizeIndexes idxs).map (fun e => (2 ^ (d0 + 1) + e) / 2) ≠ [] := by simpa using nne
  -- prover, upper levels
  obtain ⟨rowsF, hlevels⟩ := proveLevels_total t.nodes (d0 + 1) wf.nlen d0 _
    ((normalizeIndexes idxs).map (missing imap lv)) hK1asc hK1r (by omega) (by simp)
  have hext := proveLevels_ok _ _ _ _ _ hlevels
  refine ⟨{ leaves := LP, nodes := rowsF, depth := d0 + 1 }, ?_, rfl, hLP, ?_, ?_⟩
  · unfold proveBatch
    rw [if_neg (by simpa using hne), if_neg (by simp [maxPaths]; omega), hdepth, hm]
    simp only [Res.ok_bind, hleaf, hK1, Nat.add_sub_cancel, hlevels]
    congr 2; omega
  · intro j hj
    have hi := hr _ (List.getElem_mem hj)
    rw [(hLPv j hj).1 ((nmem _).2 ⟨_, List.getElem_mem hj, rfl⟩), htl _ hi]
  · -- verifier
    obtain ⟨v1, hvl, hv1, _⟩ := rootLeafLoop_honest H val LP imap lv (2 ^ (d0 + 1)) (normalizeIndexes idxs) rowsF []
      nasc nev hext (by
        intro e he
        have hr1 := nrange e he
        have hev := nev e he
        refine ⟨?_, ?_, ?_, ?_⟩
        · intro j hj
          have hjl := ctx.lt hj
          have := ctx.sound _ _ hj
          rw [List.getElem?_eq_getElem hjl] at this
          injection this with this
          have := (hLPv j hjl).1 (by rw [this]; rw [show e - e % 2 = e by omega]; exact he)
          rw [this]; congr 2
        · intro j hj
          have hjl := ctx.lt hj
          have := ctx.sound _ _ hj
          rw [List.getElem?_eq_getElem hjl] at this
          injection this with this
          have := (hLPv j hjl).1 (by rw [this]; rw [show e + 1 - (e + 1) % 2 = e by omega]; exact he)
          rw [this]; congr 2
        · obtain ⟨i, hi, hie⟩ := (nmem e).1 he
          obtain ⟨j, hj, hji⟩ := List.getElem_of_mem hi
          have := ctx.get j hj
          rw [hji] at this
          by_cases hpar : i % 2 = 0
          · left; rw [show e = i by omega, this]; simp
          · right; rw [show e + 1 = i by omega, this]; simp
        · show H.merge (val (2 ^ (d0 + 1) + e)) (val (2 ^ (d0 + 1) + (e + 1))) = _
          rw [vwf ((2 ^ (d0 + 1) + e) / 2) (by omega) (by omega)]
          congr 2 <;> omega)
    obtain ⟨v', hvls, hv'⟩ := levels_sim H val t.nodes (d0 + 1) vwf htn d0 _ _ rowsF v1 hlevels hK1asc hK1r
      (by omega) hK1ne (by
        intro k hk
        obtain ⟨e, he, rfl⟩ := List.mem_map.1 hk
        exact hv1 e he)
    unfold getRoot
    simp only
    rw [if_neg (by simpa using hne), if_neg (by simp [maxPaths]; omega), if_neg (by simp [hLP]),
      if_neg (by simp [usizeBits]; omega), hm]
    simp only [Res.ok_bind]
    rw [if_neg (by have := hext.length_eq; simp at this; omega), pow2_ok (by omega)]
    simp only [Res.ok_bind, hvl, Nat.add_sub_cancel, hvls, anyUnused_lengths, hv', hvroot]
    rfl

end WinterProofs.C10
