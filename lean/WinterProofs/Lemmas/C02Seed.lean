-- C02 helper lemmas: the elements `Context::to_elements` makes of trace info and options
import Winter.Model.VerifierChecks

namespace WinterProofs.C02L
open Model Model.VerifierChecks

/-- the first element of `TraceInfo::to_elements` as a plain number -/
theorem traceBuf_eq (eb : Nat) (t : Serde.TraceInfo) (hm : t.main + t.aux ≤ 255) (hr : t.rands ≤ 255) :
    (traceInfoElements eb t).head? =
      some (if t.aux > 0 then ((t.main * 256 + 1) * 256 + t.aux) * 256 + t.rands else t.main * 256) := by
  simp only [traceInfoElements, List.cons_append, List.head?_cons]
  by_cases ha : t.aux > 0
  · simp only [ha, if_true]
    have e1 : (t.main * 256 + 1) % 4294967296 = t.main * 256 + 1 := Nat.mod_eq_of_lt (by omega)
    have e2 : ((t.main * 256 + 1) * 256 + t.aux) % 4294967296 = (t.main * 256 + 1) * 256 + t.aux :=
      Nat.mod_eq_of_lt (by omega)
    have e3 : (((t.main * 256 + 1) * 256 + t.aux) * 256 + t.rands) % 4294967296
        = ((t.main * 256 + 1) * 256 + t.aux) * 256 + t.rands := Nat.mod_eq_of_lt (by omega)
    rw [e1, e2, e3]
  · simp only [ha, if_false]
    have e1 : (t.main * 256) % 4294967296 = t.main * 256 := Nat.mod_eq_of_lt (by omega)
    simp [e1]

theorem traceBuf_inj (eb : Nat) (t1 t2 : Serde.TraceInfo) (w1 : t1.wf = true) (w2 : t2.wf = true)
    (h : (traceInfoElements eb t1).head? = (traceInfoElements eb t2).head?) :
    t1.main = t2.main ∧ t1.aux = t2.aux ∧ t1.rands = t2.rands := by
  simp only [Serde.TraceInfo.wf, Bool.and_eq_true, decide_eq_true_eq, Bool.or_eq_true, bne_iff_ne, beq_iff_eq,
    Gen.Limits.MAX_TRACE_WIDTH, Gen.Limits.MAX_RAND_SEGMENT_ELEMENTS] at w1 w2
  obtain ⟨⟨⟨⟨_, hm1⟩, hw1⟩, hz1⟩, hr1⟩ := w1
  obtain ⟨⟨⟨⟨_, hm2⟩, hw2⟩, hz2⟩, hr2⟩ := w2
  have hw1 := of_decide_eq_true hw1
  have hw2 := of_decide_eq_true hw2
  have hr1 := of_decide_eq_true hr1
  have hr2 := of_decide_eq_true hr2
  rw [traceBuf_eq eb t1 hw1 hr1, traceBuf_eq eb t2 hw2 hr2] at h
  injection h with h
  by_cases ha1 : t1.aux > 0 <;> by_cases ha2 : t2.aux > 0 <;> simp only [ha1, ha2, if_true, if_false] at h <;> omega

/-- the first element of `ProofOptions::to_elements` determines extension, folding factor and remainder degree -/
theorem optionsElements_inj (o1 o2 : Serde.ProofOptions) (w1 : o1.wf = true) (w2 : o2.wf = true)
    (h : optionsElements o1 = optionsElements o2) : o1 = o2 := by
  simp only [Serde.ProofOptions.wf, Bool.and_eq_true, decide_eq_true_eq, Serde.fext, Bool.or_eq_true, beq_iff_eq,
    Gen.Limits.FRI_MAX_FOLDING_FACTOR, Gen.Limits.FRI_MAX_REMAINDER_DEGREE] at w1 w2
  simp only [optionsElements, List.cons.injEq, and_true] at h
  obtain ⟨hb, hg, hbl, hq⟩ := h
  have f1 : o1.folding ≤ 16 := of_decide_eq_true w1.1.1.1.2
  have f2 : o2.folding ≤ 16 := of_decide_eq_true w2.1.1.1.2
  have r1 : o1.remDeg ≤ 255 := of_decide_eq_true w1.1.2
  have r2 : o2.remDeg ≤ 255 := of_decide_eq_true w2.1.2
  have x1 : o1.fieldExt ≤ 3 := by rcases w1.2 with (h | h) | h <;> omega
  have x2 : o2.fieldExt ≤ 3 := by rcases w2.2 with (h | h) | h <;> omega
  have e1 : (o1.fieldExt * 256 + o1.folding) % 4294967296 = o1.fieldExt * 256 + o1.folding := Nat.mod_eq_of_lt (by omega)
  have e2 : (o2.fieldExt * 256 + o2.folding) % 4294967296 = o2.fieldExt * 256 + o2.folding := Nat.mod_eq_of_lt (by omega)
  rw [e1, e2] at hb
  have e3 : ((o1.fieldExt * 256 + o1.folding) * 256 + o1.remDeg) % 4294967296 = (o1.fieldExt * 256 + o1.folding) * 256 + o1.remDeg :=
    Nat.mod_eq_of_lt (by omega)
  have e4 : ((o2.fieldExt * 256 + o2.folding) * 256 + o2.remDeg) % 4294967296 = (o2.fieldExt * 256 + o2.folding) * 256 + o2.remDeg :=
    Nat.mod_eq_of_lt (by omega)
  rw [e3, e4] at hb
  cases o1; cases o2
  simp only [Serde.ProofOptions.mk.injEq] at *
  omega

end WinterProofs.C02L
