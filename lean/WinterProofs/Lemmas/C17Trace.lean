-- C17, evaluation table: the prover's groups, rows and `combine`, assembled into "the composition
-- polynomial trace holds the definition at every point of the constraint evaluation domain".
import WinterProofs.Lemmas.C17Poly

namespace WinterProofs.C17L
open Model.Divisor Model.Composition WinterProofs.C16L

variable {F : Type} [Field F]

section
variable (root : ℕ → Option F)
local notation "O" => fieldOps F root

/-- a prover item is sound: its representation was built from its (ghost) constraint, and the
    domain is coherent for that constraint -/
def PItemOk (D : Domain F) (th : ℕ) (p : PItem F) : Prop :=
  BRepr.ofConstraint (O) D th p.c = some p.r ∧ ReprOK root D p.c

def itemNum (state : ℕ → F) (x : F) (p : PItem F) : F := p.cc * p.c.evalAt (O) x (state p.c.column)

theorem pitems_sum (D : Domain F) (th : ℕ) (items : List (PItem F)) (state : ℕ → F) (step : ℕ)
    (hstep : step < D.ceSize) (hok : ∀ p ∈ items, PItemOk root D th p) :
    sumTerms (O) (fun (p : PItem F) => (p.r.evaluate (O) state step (D.ceX (O) step)).map (fun v => (O).mul p.cc v)) items
      = some ((items.map (itemNum root state (D.ceX (O) step))).sum) :=
  sumTerms_some root _ _ _ (fun p hp => by
    rw [boundary_repr_value root D th p.c p.r (hok p hp).2 (hok p hp).1 state step hstep]
    rfl)

def pgNum (ms as : ℕ → F) (x : F) (pg : PGroup F) : F :=
  (pg.mainItems.map (itemNum root ms x)).sum + (pg.auxItems.map (itemNum root as x)).sum

def PGroupOk (D : Domain F) (th : ℕ) (pg : PGroup F) : Prop :=
  (∀ p ∈ pg.mainItems, PItemOk root D th p) ∧ (∀ p ∈ pg.auxItems, PItemOk root D th p)

theorem pgroup_evaluate (D : Domain F) (th : ℕ) (pg : PGroup F) (hok : PGroupOk root D th pg)
    (ms as : ℕ → F) (step : ℕ) (hstep : step < D.ceSize) :
    pg.evaluate (O) ms as step (D.ceX (O) step) = some (pgNum root ms as (D.ceX (O) step) pg) := by
  unfold PGroup.evaluate
  rw [pitems_sum root D th _ ms step hstep hok.1, pitems_sum root D th _ as step hstep hok.2]
  rfl

/-- `toReprs` keeps constraints and coefficients and yields sound items -/
theorem toReprs_spec (D : Domain F) (th : ℕ) : ∀ (items : List (BConstraint F × F)) (ps : List (PItem F)),
    toReprs (O) D th items = some ps →
      ps.map (fun p => (p.c, p.cc)) = items ∧ ∀ p ∈ ps, BRepr.ofConstraint (O) D th p.c = some p.r := by
  intro items
  induction items with
  | nil =>
    intro ps h
    simp only [toReprs, List.mapM_nil, pure, Option.some.injEq] at h
    subst h; simp
  | cons it rest ih =>
    intro ps h
    simp only [toReprs, List.mapM_cons, bind, Option.bind_eq_some_iff, Option.map_eq_some_iff, pure,
      Option.some.injEq] at h
    obtain ⟨p, ⟨r, hr, rfl⟩, ps', hps', rfl⟩ := h
    obtain ⟨h1, h2⟩ := ih ps' hps'
    refine ⟨by simp [h1], ?_⟩
    intro q hq
    rcases List.mem_cons.mp hq with rfl | hq
    · exact hr
    · exact h2 q hq

def pgsum (ms as : ℕ → F) (x : F) (gs : List (PGroup F)) : F :=
  (gs.map (fun pg => pgNum root ms as x pg / zval root pg.divisor x)).sum

theorem list_eq_of_zip_all {β : Type} (r : β → β → Bool) (hr : ∀ a b, r a b = true → a = b) :
    ∀ (l1 l2 : List β), l1.length = l2.length → (l1.zip l2).all (fun p => r p.1 p.2) = true → l1 = l2 := by
  intro l1
  induction l1 with
  | nil => intro l2 hl _; cases l2 with
    | nil => rfl
    | cons _ _ => simp at hl
  | cons a l1 ih =>
    intro l2 hl h
    cases l2 with
    | nil => simp at hl
    | cons b l2 =>
      simp only [List.zip_cons_cons, List.all_cons, Bool.and_eq_true] at h
      rw [hr a b h.1, ih l2 (by simpa using hl) h.2]

theorem divisorEq_sound (beq : F → F → Bool) (hbeq : ∀ a b, beq a b = true → a = b) (d1 d2 : Divisor F)
    (h : divisorEq beq d1 d2 = true) : d1 = d2 := by
  unfold divisorEq at h
  simp only [Bool.and_eq_true, beq_iff_eq] at h
  obtain ⟨⟨⟨h1, h2⟩, h3⟩, h4⟩ := h
  have e1 : d1.numerator = d2.numerator :=
    list_eq_of_zip_all (fun (a b : ℕ × F) => a.1 == b.1 && beq a.2 b.2)
      (fun a b hab => by
        simp only [Bool.and_eq_true, beq_iff_eq] at hab
        exact Prod.ext hab.1 (hbeq _ _ hab.2)) _ _ h1 h3
  have e2 : d1.exemptions = d2.exemptions := list_eq_of_zip_all beq hbeq _ _ h2 h4
  cases d1; cases d2; simp only at e1 e2; rw [e1, e2]

theorem mergeAux_pgsum (beq : F → F → Bool) (hbeq : ∀ a b, beq a b = true → a = b) (ms as : ℕ → F) (x : F)
    (d : Divisor F) (items : List (PItem F)) (gs : List (PGroup F)) :
    pgsum root ms as x (mergeAux beq d items gs)
      = pgsum root ms as x gs + (items.map (itemNum root as x)).sum / zval root d x := by
  induction gs with
  | nil => simp [mergeAux, pgsum, pgNum]
  | cons pg rest ih =>
    unfold mergeAux
    by_cases he : divisorEq beq pg.divisor d = true
    · rw [if_pos he]
      have hd := divisorEq_sound beq hbeq _ _ he
      simp only [pgsum, List.map_cons, List.sum_cons, pgNum, List.map_append, List.sum_append]
      rw [← hd]; ring
    · rw [if_neg he]
      simp only [pgsum, List.map_cons, List.sum_cons] at ih ⊢
      rw [ih]; ring

theorem mergeAux_ok (beq : F → F → Bool) (D : Domain F) (th : ℕ) (d : Divisor F) (items : List (PItem F))
    (gs : List (PGroup F)) (hgs : ∀ pg ∈ gs, PGroupOk root D th pg) (hit : ∀ p ∈ items, PItemOk root D th p) :
    ∀ pg ∈ mergeAux beq d items gs, PGroupOk root D th pg := by
  induction gs with
  | nil =>
    intro pg hpg
    simp only [mergeAux, List.mem_singleton] at hpg
    subst hpg
    exact ⟨fun p hp => (by cases hp), hit⟩
  | cons g rest ih =>
    unfold mergeAux
    have hrest : ∀ pg ∈ rest, PGroupOk root D th pg := fun pg h => hgs pg (List.mem_cons_of_mem _ h)
    by_cases he : divisorEq beq g.divisor d = true
    · rw [if_pos he]
      intro pg hpg
      rcases List.mem_cons.mp hpg with rfl | hpg
      · have hg := hgs g List.mem_cons_self
        refine ⟨hg.1, fun p hp => ?_⟩
        rcases List.mem_append.mp hp with h | h
        · exact hg.2 p h
        · exact hit p h
      · exact hrest pg hpg
    · rw [if_neg he]
      intro pg hpg
      rcases List.mem_cons.mp hpg with rfl | hpg
      · exact hgs pg List.mem_cons_self
      · exact ih hrest pg hpg

/-- the numerator of a source group through its prover items -/
theorem items_num_eq (state : ℕ → F) (x : F) (items : List (BConstraint F × F)) (ps : List (PItem F))
    (h : ps.map (fun p => (p.c, p.cc)) = items) :
    (ps.map (itemNum root state x)).sum = (items.map (itemVal root state x)).sum := by
  subst h
  rw [List.map_map]
  congr 1
  apply List.map_congr_left
  intro p _
  simp only [Function.comp, itemNum, itemVal]
  ring

theorem toReprs_ok (D : Domain F) (th : ℕ) (items : List (BConstraint F × F)) (ps : List (PItem F))
    (h : toReprs (O) D th items = some ps) (hrok : ∀ it ∈ items, ReprOK root D it.1) :
    ∀ p ∈ ps, PItemOk root D th p := by
  obtain ⟨h1, h2⟩ := toReprs_spec root D th items ps h
  intro p hp
  refine ⟨h2 p hp, ?_⟩
  have : (p.c, p.cc) ∈ items := by rw [← h1]; exact List.mem_map.mpr ⟨p, hp, rfl⟩
  exact hrok _ this

theorem mainGroups_spec (D : Domain F) (th : ℕ) : ∀ (mg : List (BGroup F)) (main : List (PGroup F)),
    mg.mapM (fun grp => (toReprs (O) D th grp.items).map (fun rs => (⟨grp.divisor, rs, []⟩ : PGroup F))) = some main →
    (∀ g ∈ mg, ∀ it ∈ g.items, ReprOK root D it.1) →
    (∀ pg ∈ main, PGroupOk root D th pg) ∧
      ∀ (ms as : ℕ → F) (x : F), pgsum root ms as x main = gsum root ms x mg := by
  intro mg
  induction mg with
  | nil =>
    intro main h _
    simp only [List.mapM_nil, pure, Option.some.injEq] at h
    subst h
    exact ⟨fun pg h => (by cases h), fun _ _ _ => rfl⟩
  | cons g rest ih =>
    intro main h hrok
    simp only [List.mapM_cons, bind, Option.bind_eq_some_iff, Option.map_eq_some_iff, pure, Option.some.injEq] at h
    obtain ⟨pg, ⟨rs, hrs, rfl⟩, main', hmain', rfl⟩ := h
    obtain ⟨ih1, ih2⟩ := ih main' hmain' (fun g' hg' => hrok g' (List.mem_cons_of_mem _ hg'))
    have hok := toReprs_ok root D th g.items rs hrs (hrok g List.mem_cons_self)
    refine ⟨?_, ?_⟩
    · intro q hq
      rcases List.mem_cons.mp hq with rfl | hq
      · exact ⟨hok, fun p hp => by cases hp⟩
      · exact ih1 q hq
    · intro ms as x
      have := ih2 ms as x
      simp only [pgsum, gsum, List.map_cons, List.sum_cons, pgNum, List.map_nil, List.sum_nil, add_zero] at this ⊢
      rw [this, items_num_eq root ms x g.items rs (toReprs_spec root D th g.items rs hrs).1]

theorem auxFold_spec (beq : F → F → Bool) (hbeq : ∀ a b, beq a b = true → a = b) (D : Domain F) (th : ℕ) :
    ∀ (ag : List (BGroup F)) (acc gs : List (PGroup F)),
    ag.foldlM (fun acc grp => (toReprs (O) D th grp.items).map (fun rs => mergeAux beq grp.divisor rs acc)) acc = some gs →
    (∀ pg ∈ acc, PGroupOk root D th pg) → (∀ g ∈ ag, ∀ it ∈ g.items, ReprOK root D it.1) →
    (∀ pg ∈ gs, PGroupOk root D th pg) ∧
      ∀ (ms as : ℕ → F) (x : F), pgsum root ms as x gs = pgsum root ms as x acc + gsum root as x ag := by
  intro ag
  induction ag with
  | nil =>
    intro acc gs h hacc _
    simp only [List.foldlM_nil, pure, Option.some.injEq] at h
    subst h
    exact ⟨hacc, fun _ _ _ => by simp [gsum]⟩
  | cons g rest ih =>
    intro acc gs h hacc hrok
    simp only [List.foldlM_cons, bind, Option.bind_eq_some_iff, Option.map_eq_some_iff] at h
    obtain ⟨acc', ⟨rs, hrs, rfl⟩, hgs⟩ := h
    have hok := toReprs_ok root D th g.items rs hrs (hrok g List.mem_cons_self)
    obtain ⟨ih1, ih2⟩ := ih _ gs hgs (mergeAux_ok root beq D th g.divisor rs acc hacc hok)
      (fun g' hg' => hrok g' (List.mem_cons_of_mem _ hg'))
    refine ⟨ih1, fun ms as x => ?_⟩
    rw [ih2 ms as x, mergeAux_pgsum root beq hbeq ms as x,
      items_num_eq root as x g.items rs (toReprs_spec root D th g.items rs hrs).1]
    simp only [gsum, List.map_cons, List.sum_cons]
    ring

/-- **prover-side grouping.**  The groups the prover builds (main groups, auxiliary groups merged
    into the first group with an equal divisor) are sound and their quotient sum is the sum over the
    verifier's main and auxiliary groups -/
theorem proverGroups_spec (beq : F → F → Bool) (hbeq : ∀ a b, beq a b = true → a = b) (D : Domain F) (th : ℕ)
    (mg ag : List (BGroup F)) (gs : List (PGroup F)) (h : proverGroups (O) beq D th mg ag = some gs)
    (hrok : ∀ g ∈ mg ++ ag, ∀ it ∈ g.items, ReprOK root D it.1) :
    (∀ pg ∈ gs, PGroupOk root D th pg) ∧
      ∀ (ms as : ℕ → F) (x : F), pgsum root ms as x gs = gsum root ms x mg + gsum root as x ag := by
  unfold proverGroups at h
  simp only [bind, Option.bind_eq_some_iff] at h
  obtain ⟨main, hmain, hgs⟩ := h
  obtain ⟨m1, m2⟩ := mainGroups_spec root D th mg main hmain (fun g hg => hrok g (List.mem_append_left _ hg))
  obtain ⟨a1, a2⟩ := auxFold_spec root beq hbeq D th ag main gs hgs m1 (fun g hg => hrok g (List.mem_append_right _ hg))
  exact ⟨a1, fun ms as x => by rw [a2, m2]⟩

/-- the divisors `acc_column` can handle: one numerator term `x^a − b` with `a` dividing the domain size -/
def DivOk (D : Domain F) (d : Divisor F) : Prop :=
  ∃ a b, d.numerator = [(a, b)] ∧ 0 < a ∧ a ∣ D.ceSize

theorem nth_map_zipIdx (f : F × ℕ → F) (l : List F) (i : ℕ) (hi : i < l.length) :
    nth (O) (l.zipIdx.map f) i = f (nth (O) l i, i) := by
  unfold nth
  rw [List.getD_eq_getElem?_getD, List.getD_eq_getElem?_getD, List.getElem?_map, List.getElem?_zipIdx,
    List.getElem?_eq_getElem hi]
  simp

theorem accColumn_spec (D : Domain F) (hw : D.wce ^ D.ceSize = 1) (hce : 0 < D.ceSize) (column acc out : List F)
    (d : Divisor F) (hd : DivOk D d) (h : accColumn (O) D column d acc = some out) :
    out.length = acc.length ∧ ∀ i < acc.length,
      nth (O) out i = nth (O) acc i + nth (O) column i / zval root d (D.ceX (O) i) := by
  obtain ⟨a, b, hnum, ha, hdvd⟩ := hd
  have hdform : d = ⟨[(a, b)], d.exemptions⟩ := by cases d; simp only at hnum; rw [hnum]
  unfold accColumn at h
  have hz := invEvaluations_eq root D a b d.exemptions (by omega)
  rw [hdform] at h
  rw [hz] at h
  simp only [bind, Option.bind_some] at h
  have hm : 0 < D.ceSize / a := Nat.div_pos (Nat.le_of_dvd hce hdvd) ha
  have hne : ((List.range (D.ceSize / a)).map (fun i => 1 / (D.ceXPower (O) i a - b))).isEmpty = false := by
    rw [List.isEmpty_eq_false_iff]
    intro hnil
    have := congrArg List.length hnil
    have hle := Nat.le_of_dvd hce hdvd
    simp at this; omega
  rw [hne] at h
  simp only [Bool.false_eq_true, if_false, pure, Option.some.injEq] at h
  subst h
  refine ⟨by simp, fun i hi => ?_⟩
  rw [nth_map_zipIdx root _ acc i hi]
  -- the inverse divisor value at step i
  have hzi := inv_evaluation_index root D a b d.exemptions _ hz hw hdvd ha hce i
  simp only at hzi ⊢
  rw [hzi]
  have hzv : zval root d (D.ceX (O) i) = ((D.ceX (O) i) ^ a - b) / d.evalExemptions (O) (D.ceX (O) i) := by
    rw [hdform]; unfold zval
    rw [evalNumerator_single]
  rw [hzv, div_div_eq_mul_div]
  by_cases hex : d.exemptions.isEmpty = true
  · rw [if_pos hex]
    have : d.exemptions = [] := List.isEmpty_iff.mp hex
    have he1 : d.evalExemptions (O) (D.ceX (O) i) = 1 := by
      unfold Divisor.evalExemptions; rw [this]; rfl
    rw [he1]
    show nth (O) acc i + nth (O) column i * (1 / _) = _
    ring
  · rw [if_neg hex]
    show nth (O) acc i + nth (O) column i * ((1 / _) * Divisor.evalExemptions (O) ⟨[(a, b)], d.exemptions⟩ _) = _
    have : Divisor.evalExemptions (O) ⟨[(a, b)], d.exemptions⟩ (D.ceX (O) i) = d.evalExemptions (O) (D.ceX (O) i) := rfl
    rw [this]
    ring

/-- entry `i` of column `k` of the evaluation table given as rows -/
def cell (rows : List (List F)) (i k : ℕ) : F := nth (O) (rows.map (fun r => nth (O) r k)) i

theorem combine_fold_spec (D : Domain F) (hw : D.wce ^ D.ceSize = 1) (hce : 0 < D.ceSize) (rows : List (List F)) :
    ∀ (ds : List (Divisor F)) (s : ℕ) (acc out : List F),
    (ds.zipIdx s).foldlM (fun acc p => accColumn (O) D (rows.map (fun r => nth (O) r p.2)) p.1 acc) acc = some out →
    (∀ d ∈ ds, DivOk D d) →
    out.length = acc.length ∧ ∀ i < acc.length,
      nth (O) out i = nth (O) acc i +
        ((ds.zipIdx s).map (fun p => cell root rows i p.2 / zval root p.1 (D.ceX (O) i))).sum := by
  intro ds
  induction ds with
  | nil =>
    intro s acc out h _
    simp only [List.zipIdx_nil, List.foldlM_nil, pure, Option.some.injEq] at h
    subst h
    exact ⟨rfl, fun i _ => by simp⟩
  | cons d ds ih =>
    intro s acc out h hds
    simp only [List.zipIdx_cons, List.foldlM_cons, bind, Option.bind_eq_some_iff] at h
    obtain ⟨acc', hacc', hout⟩ := h
    obtain ⟨hl1, hv1⟩ := accColumn_spec root D hw hce _ acc acc' d (hds d List.mem_cons_self) hacc'
    obtain ⟨hl2, hv2⟩ := ih (s + 1) acc' out hout (fun d' hd' => hds d' (List.mem_cons_of_mem _ hd'))
    refine ⟨by rw [hl2, hl1], fun i hi => ?_⟩
    rw [hv2 i (by rw [hl1]; exact hi), hv1 i hi]
    simp only [List.zipIdx_cons, List.map_cons, List.sum_cons, cell]
    ring

theorem nth_replicate_zero (m i : ℕ) : nth (O) (List.replicate m (O).zero) i = 0 := by
  unfold nth
  rw [List.getD_eq_getElem?_getD]
  by_cases h : i < m
  · rw [List.getElem?_replicate]; simp [h]; rfl
  · rw [List.getElem?_eq_none (by simpa using h)]; rfl

theorem combineTable_spec (D : Domain F) (hw : D.wce ^ D.ceSize = 1) (hce : 0 < D.ceSize) (rows : List (List F))
    (ds : List (Divisor F)) (out : List F) (h : combineTable (O) D rows ds = some out)
    (hds : ∀ d ∈ ds, DivOk D d) :
    out.length = D.ceSize ∧ ∀ i < D.ceSize,
      nth (O) out i = (ds.zipIdx.map (fun p => cell root rows i p.2 / zval root p.1 (D.ceX (O) i))).sum := by
  unfold combineTable at h
  obtain ⟨h1, h2⟩ := combine_fold_spec root D hw hce rows ds 0 _ out h hds
  rw [List.length_replicate] at h1 h2
  refine ⟨h1, fun i hi => ?_⟩
  rw [h2 i hi, nth_replicate_zero, zero_add]
/-- what every group of `group_constraints` is made of: its divisor is the divisor of a member of the
    input, its items are (constraint, coefficient) pairs of the input -/
def GroupSrc (g : F) (n : ℕ) (l : List (BC F × F)) (grp : BGroup F) : Prop :=
  (∃ p ∈ l, grp.divisor = assertionDivisor (O) g p.1.a n) ∧ ∀ it ∈ grp.items, ∃ p ∈ l, it = (p.1.c, p.2)

theorem insertGroup_src (g : F) (n : ℕ) (l : List (BC F × F)) (bc : BC F) (cc : F) (hbc : (bc, cc) ∈ l)
    (gs : List (BGroup F)) (hgs : ∀ grp ∈ gs, GroupSrc root g n l grp) :
    ∀ grp ∈ insertGroup (O) g n bc cc gs, GroupSrc root g n l grp := by
  induction gs with
  | nil =>
    intro grp hgrp
    simp only [insertGroup, List.mem_singleton] at hgrp
    subst hgrp
    refine ⟨⟨(bc, cc), hbc, rfl⟩, fun it hit => ?_⟩
    simp only [List.mem_singleton] at hit
    exact ⟨(bc, cc), hbc, hit⟩
  | cons grp0 rest ih =>
    unfold insertGroup
    have hrest : ∀ grp ∈ rest, GroupSrc root g n l grp := fun grp h => hgs grp (List.mem_cons_of_mem _ h)
    by_cases hkey : (grp0.stride == bc.a.stride && grp0.first == bc.a.first) = true
    · rw [if_pos hkey]
      intro grp hgrp
      rcases List.mem_cons.mp hgrp with rfl | hgrp
      · have h0 := hgs grp0 List.mem_cons_self
        refine ⟨h0.1, fun it hit => ?_⟩
        rcases List.mem_append.mp hit with h | h
        · exact h0.2 it h
        · simp only [List.mem_singleton] at h
          exact ⟨(bc, cc), hbc, h⟩
      · exact hrest grp hgrp
    · rw [if_neg hkey]
      intro grp hgrp
      rcases List.mem_cons.mp hgrp with rfl | hgrp
      · exact hgs grp List.mem_cons_self
      · exact ih hrest grp hgrp

theorem groups_src (g : F) (n : ℕ) (l : List (BC F × F)) :
    ∀ grp ∈ groupConstraintsCC (O) g n l, GroupSrc root g n l grp := by
  unfold groupConstraintsCC
  have : ∀ (l' : List (BC F × F)) (gs : List (BGroup F)), (∀ p ∈ l', p ∈ l) →
      (∀ grp ∈ gs, GroupSrc root g n l grp) →
      ∀ grp ∈ l'.foldl (fun gs p => insertGroup (O) g n p.1 p.2 gs) gs, GroupSrc root g n l grp := by
    intro l'
    induction l' with
    | nil => intro gs _ hgs; exact hgs
    | cons p l' ih =>
      intro gs hl hgs
      rw [List.foldl_cons]
      exact ih _ (fun q hq => hl q (List.mem_cons_of_mem _ hq))
        (insertGroup_src root g n l p.1 p.2 (hl p List.mem_cons_self) gs hgs)
  exact this l [] (fun p hp => hp) (fun grp h => by cases h)

theorem mergeAux_div (beq : F → F → Bool) (S : List (Divisor F)) (d : Divisor F) (hd : d ∈ S)
    (items : List (PItem F)) (gs : List (PGroup F)) (hgs : ∀ pg ∈ gs, pg.divisor ∈ S) :
    ∀ pg ∈ mergeAux beq d items gs, pg.divisor ∈ S := by
  induction gs with
  | nil =>
    intro pg hpg
    simp only [mergeAux, List.mem_singleton] at hpg
    subst hpg; exact hd
  | cons g rest ih =>
    unfold mergeAux
    have hrest : ∀ pg ∈ rest, pg.divisor ∈ S := fun pg h => hgs pg (List.mem_cons_of_mem _ h)
    by_cases he : divisorEq beq g.divisor d = true
    · rw [if_pos he]
      intro pg hpg
      rcases List.mem_cons.mp hpg with rfl | hpg
      · exact hgs g List.mem_cons_self
      · exact hrest pg hpg
    · rw [if_neg he]
      intro pg hpg
      rcases List.mem_cons.mp hpg with rfl | hpg
      · exact hgs pg List.mem_cons_self
      · exact ih hrest pg hpg

theorem mainGroups_div (D : Domain F) (th : ℕ) (S : List (Divisor F)) :
    ∀ (mg : List (BGroup F)) (main : List (PGroup F)),
    mg.mapM (fun grp => (toReprs (O) D th grp.items).map (fun rs => (⟨grp.divisor, rs, []⟩ : PGroup F))) = some main →
    (∀ g ∈ mg, g.divisor ∈ S) → ∀ pg ∈ main, pg.divisor ∈ S := by
  intro mg
  induction mg with
  | nil =>
    intro main h _ pg hpg
    simp only [List.mapM_nil, pure, Option.some.injEq] at h
    subst h; cases hpg
  | cons g rest ih =>
    intro main h hS pg hpg
    simp only [List.mapM_cons, bind, Option.bind_eq_some_iff, Option.map_eq_some_iff, pure, Option.some.injEq] at h
    obtain ⟨pg0, ⟨rs, _, rfl⟩, main', hmain', rfl⟩ := h
    rcases List.mem_cons.mp hpg with rfl | hpg
    · exact hS g List.mem_cons_self
    · exact ih main' hmain' (fun g' hg' => hS g' (List.mem_cons_of_mem _ hg')) pg hpg

theorem auxFold_div (beq : F → F → Bool) (D : Domain F) (th : ℕ) (S : List (Divisor F)) :
    ∀ (ag : List (BGroup F)) (acc gs : List (PGroup F)),
    ag.foldlM (fun acc grp => (toReprs (O) D th grp.items).map (fun rs => mergeAux beq grp.divisor rs acc)) acc = some gs →
    (∀ pg ∈ acc, pg.divisor ∈ S) → (∀ g ∈ ag, g.divisor ∈ S) → ∀ pg ∈ gs, pg.divisor ∈ S := by
  intro ag
  induction ag with
  | nil =>
    intro acc gs h hacc _
    simp only [List.foldlM_nil, pure, Option.some.injEq] at h
    subst h; exact hacc
  | cons g rest ih =>
    intro acc gs h hacc hS
    simp only [List.foldlM_cons, bind, Option.bind_eq_some_iff, Option.map_eq_some_iff] at h
    obtain ⟨acc', ⟨rs, _, rfl⟩, hgs⟩ := h
    exact ih _ gs hgs (mergeAux_div beq S g.divisor (hS g List.mem_cons_self) rs acc hacc)
      (fun g' hg' => hS g' (List.mem_cons_of_mem _ hg'))

theorem proverGroups_div (beq : F → F → Bool) (D : Domain F) (th : ℕ) (mg ag : List (BGroup F))
    (gs : List (PGroup F)) (h : proverGroups (O) beq D th mg ag = some gs) :
    ∀ pg ∈ gs, pg.divisor ∈ (mg ++ ag).map (fun g => g.divisor) := by
  unfold proverGroups at h
  simp only [bind, Option.bind_eq_some_iff] at h
  obtain ⟨main, hmain, hgs⟩ := h
  have hm := mainGroups_div root D th ((mg ++ ag).map (fun g => g.divisor)) mg main hmain
    (fun g hg => List.mem_map.mpr ⟨g, List.mem_append_left _ hg, rfl⟩)
  exact auxFold_div root beq D th _ ag main gs hgs hm
    (fun g hg => List.mem_map.mpr ⟨g, List.mem_append_right _ hg, rfl⟩)

theorem evalAt_eq_zval (d : Divisor F) (x : F) : d.evalAt (O) x = some (zval root d x) := rfl

/-- the definition in closed form -/
theorem defAt_eq (air : Air F) (P : Prep F) (mainPolys auxPolys : ℕ → List F) (rands : ℕ → F)
    (tco bco : List F) (x : F) :
    defAt (O) air P mainPolys auxPolys rands tco bco x = some (
      combine (O) tco ((air.mainCons ++ air.auxCons).map (fun c => c.eval (O)
        (mkEnv (O) (framesOf (O) mainPolys auxPolys P.g x) (periodicAt (O) air.n P.perPolys x) rands)))
        / zval root (transitionDivisor (O) P.g air.n air.e) x
      + ((P.main.zip bco).map (fun p => p.1.c.evalAt (O) x
          ((framesOf (O) mainPolys auxPolys P.g x).mainCur p.1.c.column) * p.2 / adiv P.g p.1.a air.n x)).sum
      + ((P.aux.zip (bco.drop P.main.length)).map (fun p => p.1.c.evalAt (O) x
          ((framesOf (O) mainPolys auxPolys P.g x).auxCur p.1.c.column) * p.2 / adiv P.g p.1.a air.n x)).sum) := by
  unfold defAt
  simp only [evalAt_eq_zval]
  rw [boundary_sum_eq, boundary_sum_eq]
  rfl

theorem sum_zipIdx_rows (x : F) (f : PGroup F → F) : ∀ (gs : List (PGroup F)) (s : ℕ) (pre : List F),
    pre.length = s →
    (((gs.map (fun pg => pg.divisor)).zipIdx s).map
      (fun p => nth (O) (pre ++ gs.map f) p.2 / zval root p.1 x)).sum
      = (gs.map (fun pg => f pg / zval root pg.divisor x)).sum := by
  intro gs
  induction gs with
  | nil => intro s pre _; simp
  | cons g rest ih =>
    intro s pre hpre
    simp only [List.map_cons, List.zipIdx_cons, List.sum_cons]
    have h1 : nth (O) (pre ++ f g :: rest.map f) s = f g := by
      unfold nth
      rw [List.getD_eq_getElem?_getD, List.getElem?_append_right (by omega), hpre, Nat.sub_self]
      rfl
    rw [h1]
    have h2 := ih (s + 1) (pre ++ [f g]) (by simp [hpre])
    rw [List.append_assoc] at h2
    simp only [List.singleton_append] at h2
    rw [h2]

theorem getRow_length (D : Domain F) (polys : List (List F)) (t : PTable F)
    (hroot : ∀ p ∈ polys, root (Nat.log2 (p.length * D.ceBlowup)) = some (D.wce ^ (D.n / p.length)))
    (ht : PTable.new (O) D polys = some t) (step j : ℕ) (hj : polys.length ≤ j) :
    nth (O) (t.getRow step) j = 0 := by
  by_cases hne : polys = []
  · subst hne
    simp only [PTable.new, List.isEmpty_nil, if_true, Option.some.injEq] at ht
    subst ht
    rfl
  · rw [ptable_new_eq root D polys hne hroot] at ht
    simp only [Option.some.injEq] at ht
    subst ht
    unfold PTable.getRow nth
    simp only
    split
    · rfl
    · rw [List.getElem?_map]
      cases h : (List.range (polys.foldl (fun m p => if p.length > m then p.length else m) 0 * D.ceBlowup))[step %
          (polys.foldl (fun m p => if p.length > m then p.length else m) 0 * D.ceBlowup)]? with
      | none => rfl
      | some i =>
        simp only [Option.map_some, Option.getD_some]
        rw [List.getD_eq_getElem?_getD, List.getElem?_eq_none (by simpa using hj)]
        rfl

/-- the periodic values the prover reads from its table are the definition's -/
theorem periodic_env_eq (air : Air F) (P : Prep F) (D : Domain F) (table : PTable F)
    (ht : PTable.new (O) D P.perPolys = some table) (hn : D.n = air.n)
    (hpow : ∀ p ∈ P.perPolys, ∃ k, p.length = 2 ^ k) (hdvd : ∀ p ∈ P.perPolys, p.length ∣ D.n)
    (hroot : ∀ p ∈ P.perPolys, root (Nat.log2 (p.length * D.ceBlowup)) = some (D.wce ^ (D.n / p.length)))
    (hw : D.wce ^ D.ceSize = 1) (hB : 0 < D.ceBlowup) (step : ℕ) :
    nth (O) (table.getRow step) = periodicAt (O) air.n P.perPolys (D.ceX (O) step) := by
  funext j
  unfold periodicAt
  cases hj : P.perPolys[j]? with
  | some p =>
    simp only
    rw [periodic_table_row root D P.perPolys table ht hpow hdvd hroot hw hB j p hj step, hn]
    rfl
  | none =>
    simp only
    exact getRow_length root D P.perPolys table hroot ht step j (by
      rw [List.getElem?_eq_none_iff] at hj; exact hj)

/-- coherence of the domains with the instance (all of it follows from `get_root_of_unity(k)` being
    a power of one two-adic root and from `prepare_assertions`; kept as explicit hypotheses) -/
structure TraceOK (air : Air F) (P : Prep F) (D : Domain F) : Prop where
  hn : D.n = air.n
  hnpos : 0 < air.n
  he : air.e ≤ air.n
  hB : 0 < D.ceBlowup
  hw : D.wce ^ D.ceSize = 1
  hr : D.wlde ^ (D.ldeBlowup / D.ceBlowup) = D.wce
  hg : D.wlde ^ D.ldeBlowup = P.g
  hwl : D.wlde ^ D.ldeSize = 1
  hpow : ∀ p ∈ P.perPolys, ∃ k, p.length = 2 ^ k
  hdvd : ∀ p ∈ P.perPolys, p.length ∣ D.n
  hproot : ∀ p ∈ P.perPolys, root (Nat.log2 (p.length * D.ceBlowup)) = some (D.wce ^ (D.n / p.length))
  hrepr : ∀ bc ∈ P.main ++ P.aux, ReprOK root D bc.c
  hsteps : ∀ bc ∈ P.main ++ P.aux, 0 < numSteps bc.a air.n ∧ numSteps bc.a air.n ∣ D.ceSize
  haux : air.auxWidth = 0 → air.auxCons = []

/-- the environment of the definition at `x` -/
def defEnv (air : Air F) (P : Prep F) (mainPolys auxPolys : ℕ → List F) (rands : ℕ → F) (x : F) : Env F :=
  mkEnv (O) (framesOf (O) mainPolys auxPolys P.g x) (periodicAt (O) air.n P.perPolys x) rands

theorem proverRow_spec (air : Air F) (P : Prep F) (D : Domain F) (th : ℕ) (table : PTable F)
    (groups : List (PGroup F)) (mainPolys auxPolys : ℕ → List F) (rands : ℕ → F) (tco : List F)
    (hok : TraceOK root air P D) (ht : PTable.new (O) D P.perPolys = some table)
    (hgs : ∀ pg ∈ groups, PGroupOk root D th pg) (hlen : air.mainCons.length ≤ tco.length)
    (step : ℕ) (hstep : step < D.ceSize) :
    proverRow (O) air D table groups mainPolys auxPolys rands tco step = some (
      combine (O) tco ((air.mainCons ++ air.auxCons).map (fun c => c.eval (O)
        (defEnv root air P mainPolys auxPolys rands (D.ceX (O) step))))
      :: groups.map (pgNum root (framesOf (O) mainPolys auxPolys P.g (D.ceX (O) step)).mainCur
          (framesOf (O) mainPolys auxPolys P.g (D.ceX (O) step)).auxCur (D.ceX (O) step))) := by
  unfold proverRow
  rw [prover_frames_eq root D mainPolys auxPolys P.g step hok.hr hok.hg hok.hwl,
    periodic_env_eq root air P D table ht hok.hn hok.hpow hok.hdvd hok.hproot hok.hw hok.hB step]
  have hm : groups.mapM (fun grp => grp.evaluate (O) (framesOf (O) mainPolys auxPolys P.g (D.ceX (O) step)).mainCur
      (framesOf (O) mainPolys auxPolys P.g (D.ceX (O) step)).auxCur step (D.ceX (O) step))
      = some (groups.map (pgNum root (framesOf (O) mainPolys auxPolys P.g (D.ceX (O) step)).mainCur
          (framesOf (O) mainPolys auxPolys P.g (D.ceX (O) step)).auxCur (D.ceX (O) step))) :=
    mapM_some_of_forall _ _ _ (fun pg hpg => pgroup_evaluate root D th pg (hgs pg hpg) _ _ step hstep)
  simp only [hm, bind, Option.bind_some, pure]
  congr 2
  -- the merged transition evaluations
  unfold defEnv
  conv_rhs => rw [← List.take_append_drop air.mainCons.length tco, List.map_append]
  rw [combine_append root _ _ _ _ (by rw [List.length_take, List.length_map, Nat.min_eq_left hlen])]
  by_cases h0 : air.auxWidth = 0
  · rw [if_pos h0, hok.haux h0]
    simp [combine_eq_sum]
  · rw [if_neg h0]; rfl

theorem divOk_assertion (D : Domain F) (g : F) (a : Assertion F) (n : ℕ)
    (h : 0 < numSteps a n ∧ numSteps a n ∣ D.ceSize) : DivOk D (assertionDivisor (O) g a n) :=
  ⟨numSteps a n, _, rfl, h.1, h.2⟩

/-- **the composition polynomial trace holds the definition at every point of the constraint
    evaluation domain** (row-by-row evaluation with the periodic table and the three boundary
    representations, prover-side grouping with the aux-into-main merge, division by the divisors in
    `combine`) -/
theorem composition_trace_eq_definition (beq : F → F → Bool) (hbeq : ∀ a b, beq a b = true → a = b)
    (air : Air F) (P : Prep F) (D : Domain F) (th : ℕ) (mainPolys auxPolys : ℕ → List F) (rands : ℕ → F)
    (tco bco ctr : List F) (hok : TraceOK root air P D) (hk1 : KeyDet air.n P.main) (hk2 : KeyDet air.n P.aux)
    (hlen : air.mainCons.length ≤ tco.length)
    (h : compositionTrace (O) beq air P D th mainPolys auxPolys rands tco bco = some ctr) :
    ctr.length = D.ceSize ∧ ∀ i (hi : i < ctr.length),
      defAt (O) air P mainPolys auxPolys rands tco bco (D.ceX (O) i) = some ctr[i] := by
  unfold compositionTrace at h
  simp only [bind, Option.bind_eq_some_iff] at h
  obtain ⟨groups, hgroups, table, htable, rows, hrows, hcomb⟩ := h
  set mg := groupConstraintsCC (O) P.g air.n (P.main.zip (bco.take P.main.length)) with hmg
  set ag := groupConstraintsCC (O) P.g air.n (P.aux.zip (bco.drop P.main.length)) with hag
  have hce : 0 < D.ceSize := by
    unfold Domain.ceSize; rw [hok.hn]; exact Nat.mul_pos hok.hnpos hok.hB
  -- sources of the groups
  have hsrc_m := groups_src root P.g air.n (P.main.zip (bco.take P.main.length))
  have hsrc_a := groups_src root P.g air.n (P.aux.zip (bco.drop P.main.length))
  have hrok : ∀ g ∈ mg ++ ag, ∀ it ∈ g.items, ReprOK root D it.1 := by
    intro g hg it hit
    rcases List.mem_append.mp hg with hg | hg
    · obtain ⟨p, hp, rfl⟩ := (hsrc_m g hg).2 it hit
      exact hok.hrepr p.1 (List.mem_append_left _ (List.of_mem_zip hp).1)
    · obtain ⟨p, hp, rfl⟩ := (hsrc_a g hg).2 it hit
      exact hok.hrepr p.1 (List.mem_append_right _ (List.of_mem_zip hp).1)
  obtain ⟨hgok, hgsum⟩ := proverGroups_spec root beq hbeq D th mg ag groups hgroups hrok
  have hgdiv := proverGroups_div root beq D th mg ag groups hgroups
  -- all divisors are of the form acc_column handles
  have hds : ∀ d ∈ transitionDivisor (O) P.g air.n air.e :: groups.map (fun grp => grp.divisor), DivOk D d := by
    intro d hd
    rcases List.mem_cons.mp hd with rfl | hd
    · exact ⟨air.n, 1, rfl, hok.hnpos, by unfold Domain.ceSize; rw [hok.hn]; exact Dvd.intro _ rfl⟩
    · obtain ⟨pg, hpg, rfl⟩ := List.mem_map.mp hd
      obtain ⟨g, hg, hgd⟩ := List.mem_map.mp (hgdiv pg hpg)
      rw [← hgd]
      rcases List.mem_append.mp hg with hg | hg
      · obtain ⟨p, hp, hdv⟩ := (hsrc_m g hg).1
        rw [hdv]
        exact divOk_assertion root D _ _ _ (hok.hsteps p.1 (List.mem_append_left _ (List.of_mem_zip hp).1))
      · obtain ⟨p, hp, hdv⟩ := (hsrc_a g hg).1
        rw [hdv]
        exact divOk_assertion root D _ _ _ (hok.hsteps p.1 (List.mem_append_right _ (List.of_mem_zip hp).1))
  obtain ⟨hlen_out, hval⟩ := combineTable_spec root D hok.hw hce rows _ ctr hcomb hds
  -- the rows
  have hrows' : rows = (List.range D.ceSize).map (fun step =>
      combine (O) tco ((air.mainCons ++ air.auxCons).map (fun c => c.eval (O)
        (defEnv root air P mainPolys auxPolys rands (D.ceX (O) step))))
      :: groups.map (pgNum root (framesOf (O) mainPolys auxPolys P.g (D.ceX (O) step)).mainCur
          (framesOf (O) mainPolys auxPolys P.g (D.ceX (O) step)).auxCur (D.ceX (O) step))) := by
    have := mapM_some_of_forall (proverRow (O) air D table groups mainPolys auxPolys rands tco) _ (List.range D.ceSize)
      (fun step hs => proverRow_spec root air P D th table groups mainPolys auxPolys rands tco hok htable hgok hlen
        step (List.mem_range.mp hs))
    rw [this] at hrows
    exact (Option.some.inj hrows).symm
  refine ⟨hlen_out, fun i hi => ?_⟩
  have hi' : i < D.ceSize := by omega
  have hnth : ctr[i] = nth (O) ctr i := by
    unfold nth; rw [List.getD_eq_getElem?_getD, List.getElem?_eq_getElem hi]; rfl
  rw [hnth, hval i hi', defAt_eq]
  congr 1
  -- entry (i, k) of the table is entry k of row i
  have hcell : ∀ k, cell root rows i k = nth (O) (
      combine (O) tco ((air.mainCons ++ air.auxCons).map (fun c => c.eval (O)
        (defEnv root air P mainPolys auxPolys rands (D.ceX (O) i))))
      :: groups.map (pgNum root (framesOf (O) mainPolys auxPolys P.g (D.ceX (O) i)).mainCur
          (framesOf (O) mainPolys auxPolys P.g (D.ceX (O) i)).auxCur (D.ceX (O) i))) k := by
    intro k
    unfold cell
    rw [hrows']
    conv_lhs => unfold nth
    rw [List.getD_eq_getElem?_getD, List.getElem?_map, List.getElem?_map, List.getElem?_range hi']
    rfl
  simp only [hcell, List.zipIdx_cons, List.map_cons, List.sum_cons]
  have h0 : nth (O) (combine (O) tco ((air.mainCons ++ air.auxCons).map (fun c => c.eval (O)
        (defEnv root air P mainPolys auxPolys rands (D.ceX (O) i))))
      :: groups.map (pgNum root (framesOf (O) mainPolys auxPolys P.g (D.ceX (O) i)).mainCur
          (framesOf (O) mainPolys auxPolys P.g (D.ceX (O) i)).auxCur (D.ceX (O) i))) 0
      = combine (O) tco ((air.mainCons ++ air.auxCons).map (fun c => c.eval (O)
        (defEnv root air P mainPolys auxPolys rands (D.ceX (O) i)))) := rfl
  rw [h0]
  have hsum := sum_zipIdx_rows root (D.ceX (O) i)
    (pgNum root (framesOf (O) mainPolys auxPolys P.g (D.ceX (O) i)).mainCur
      (framesOf (O) mainPolys auxPolys P.g (D.ceX (O) i)).auxCur (D.ceX (O) i)) groups (0 + 1)
    [combine (O) tco ((air.mainCons ++ air.auxCons).map (fun c => c.eval (O)
        (defEnv root air P mainPolys auxPolys rands (D.ceX (O) i))))] rfl
  simp only [List.singleton_append] at hsum
  rw [hsum]
  have hpg := hgsum (framesOf (O) mainPolys auxPolys P.g (D.ceX (O) i)).mainCur
    (framesOf (O) mainPolys auxPolys P.g (D.ceX (O) i)).auxCur (D.ceX (O) i)
  unfold pgsum at hpg
  rw [hpg]
  -- group sums are the per-assertion sums
  have hgm := group_sum root P.g air.n P.main (framesOf (O) mainPolys auxPolys P.g (D.ceX (O) i)).mainCur (D.ceX (O) i)
    hk1 (P.main.zip (bco.take P.main.length)) [] (fun p hp => (List.of_mem_zip hp).1) (fun grp hg => by cases hg)
  have hga := group_sum root P.g air.n P.aux (framesOf (O) mainPolys auxPolys P.g (D.ceX (O) i)).auxCur (D.ceX (O) i)
    hk2 (P.aux.zip (bco.drop P.main.length)) [] (fun p hp => (List.of_mem_zip hp).1) (fun grp hg => by cases hg)
  have e0 : ∀ (st : ℕ → F), gsum root st (D.ceX (O) i) [] = 0 := fun _ => rfl
  rw [e0, zero_add] at hgm hga
  rw [hmg, hag]
  unfold groupConstraintsCC
  rw [hgm, hga, zip_take_left]
  simp only [zval_assertionDivisor, itemVal, defEnv, add_assoc]

end

end WinterProofs.C17L
