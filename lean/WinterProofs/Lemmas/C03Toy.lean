-- C03 helper: a small concrete instance of the decision function (the 8-leaf tree of WinterProofs.C10's
-- examples, a toy coin) that is accepted; used for the non-vacuity examples and the malleability witnesses
import WinterProofs.C10
import WinterProofs.Lemmas.C02Decision
import WinterProofs.Lemmas.C03Bind

namespace WinterProofs.C03L
open Model Model.VerifierChecks Model.Merkle WinterProofs.C10

/-- a toy coin: the state is the seed and the list of absorbed digests; every draw returns 7, the query
    positions are 6, 1, 3 whatever the nonce, no grinding -/
def toyCoin : CoinOps (List Nat × List T) T Nat where
  new s := (s, [])
  reseed c d := (c.1, c.2 ++ [d])
  draw c := some (7, c)
  drawInts _ _ _ _ := some [6, 1, 3]
  leadingZeros _ _ := 0

def toyAir : AirInst (List Nat × List T) T Nat where
  extSupported := true
  multiSegment := false
  lagrange := false
  numAuxRands := 0
  numCoeffs := 1
  numDeepCoeffs := 1
  ldeSize := 8
  numQueries := 3
  grinding := 0
  fri := ⟨2, 2, 3, Or.inl rfl⟩
  tracePolyDegree := 3
  gkrVerify _ _ := none
  evalConstraints _ _ _ _ _ := 0
  combineOod _ _ := 0
  deepCompose pos _ _ _ _ _ _ := pos.map fun _ => 0
  foldRow _ _ _ _ _ := 0
  evalRemainder _ _ _ := 0

def toyVerifier (commitCheck : Bool) : Verifier (List Nat × List T) T Nat where
  coin := toyCoin
  merkle := exH
  hashElems row := T.leaf row.sum
  modulus := [1]
  elemBytes := 8
  pubElems := [5]
  acceptable _ := true
  air _ := toyAir
  commitCheck := commitCheck

def toyCtx : Serde.Context := ⟨⟨1, 0, 0, 8, []⟩, [1], ⟨3, 2, 0, 1, 2, 3⟩⟩

def toyCommitted (nonce : Nat) : Committed Nat T :=
  { traceRoots := [exRoot], constraintRoot := exRoot, oodTrace := [1, 2], oodEvals := [3],
    friRoots := [T.leaf 9], powNonce := nonce, gkr := none }

def toyOpening : Opening Nat T := ⟨[[1], [3], [6]], exBatch.nodes⟩

def toyOpened (rem : List Nat) : Opened Nat T :=
  { traceOpenings := [toyOpening], constraintOpening := toyOpening, friLayers := [], remainder := rem,
    numPartitions := 1 }

theorem toy_layers : Fri.numFriLayers toyAir.fri (Fri.nextPow2 (toyAir.tracePolyDegree + 1) * toyAir.fri.blowup) = 0 := by
  unfold Fri.numFriLayers
  rw [Fri.numLayersLoop]
  decide

def toyChallenges : Challenges (List Nat × List T) T Nat :=
  { auxRands := [], lagRands := [], coeffs := [7], z := 7, deep := [7], alphas := [7], positions := [1, 3, 6],
    log := [exRoot, exRoot, T.leaf 3, T.leaf 3, T.leaf 9],
    coinAtQueries := (coinSeed 8 toyCtx [5], [exRoot, exRoot, T.leaf 3, T.leaf 3, T.leaf 9]) }

theorem toy_challenges (b : Bool) (nonce : Nat) :
    challenges (toyVerifier b) toyCtx (toyCommitted nonce) = .ok toyChallenges := by
  cases b <;> rfl

theorem toy_opening_ok (b : Bool) : openingOk (toyVerifier b) exRoot [1, 3, 6] toyOpening 3 = true := by
  cases b <;> decide

theorem toy_air (b : Bool) : (toyVerifier b).air toyCtx = toyAir := rfl

theorem toy_checkOpened (nonce : Nat) :
    checkOpened (toyVerifier true) toyCtx (toyCommitted nonce) (toyOpened [4, 5]) toyChallenges = .ok () := by
  unfold checkOpened friVerify
  simp only [toy_air, toy_layers]
  have h3 : Nat.log2 toyAir.ldeSize = 3 := by decide
  simp only [h3, toyCommitted, toyOpened, toyChallenges, List.zip_cons_cons, List.zip_nil_right, List.all_cons, List.all_nil,
    toy_opening_ok, Bool.and_true, Bool.not_true, Bool.false_eq_true, if_false]
  rfl

theorem toy_accepted (nonce : Nat) :
    VerifierChecks.verify (toyVerifier true) toyCtx (some (toyCommitted nonce, toyOpened [4, 5])) = .ok () := by
  unfold VerifierChecks.verify
  simp only [toy_challenges, toy_checkOpened]
  rfl

/-- the toy verifier WITHOUT the remainder commitment check (the pinned tree) accepts any remainder of
    admissible length that agrees with the folded evaluations -/
theorem toy_pinned_accepts (rem : List Nat) (h : rem.length ≤ 4) :
    VerifierChecks.verify (toyVerifier false) toyCtx (some (toyCommitted 0, toyOpened rem)) = .ok () := by
  have hc : checkOpened (toyVerifier false) toyCtx (toyCommitted 0) (toyOpened rem) toyChallenges = .ok () := by
    unfold checkOpened friVerify
    simp only [toy_air, toy_layers]
    have h3 : Nat.log2 toyAir.ldeSize = 3 := by decide
    simp only [h3, toyCommitted, toyOpened, toyChallenges, List.zip_cons_cons, List.zip_nil_right, List.all_cons, List.all_nil,
      toy_opening_ok, Bool.and_true, Bool.not_true, Bool.false_eq_true, if_false]
    have hd : (toyAir.deepCompose [1, 3, 6] 7 [7] (List.map (fun x => x.rows) [toyOpening]) toyOpening.rows [1, 2] [3]) = [0, 0, 0] := rfl
    simp only [hd, friLayers, friRemainder, toyVerifier]
    simp [toyAir]
    exact h
  unfold VerifierChecks.verify
  simp only [toy_challenges, hc]
  rfl

/-- … and WITH the check rejects a remainder that is not the committed one -/
theorem toy_fixed_rejects :
    VerifierChecks.verify (toyVerifier true) toyCtx (some (toyCommitted 0, toyOpened [9, 9]))
      = .error .remainderCommitmentMismatch := by
  have hc : checkOpened (toyVerifier true) toyCtx (toyCommitted 0) (toyOpened [9, 9]) toyChallenges
      = .error .remainderCommitmentMismatch := by
    unfold checkOpened friVerify
    simp only [toy_air, toy_layers]
    have h3 : Nat.log2 toyAir.ldeSize = 3 := by decide
    simp only [h3, toyCommitted, toyOpened, toyChallenges, List.zip_cons_cons, List.zip_nil_right, List.all_cons, List.all_nil,
      toy_opening_ok, Bool.and_true, Bool.not_true, Bool.false_eq_true, if_false]
    rfl
  unfold VerifierChecks.verify
  simp only [toy_challenges, hc]
  rfl

/-- the committed 8-leaf tree of C10's examples as a value function -/
theorem exRoot_isMerkleRoot : IsMerkleRoot exH exRoot 3 := by
  have wf : TreeWF exH (treeOf exH exLeaves) 3 := tree_wf exH exLeaves 3 (by decide) (by decide)
  exact ⟨treeVal exH (treeOf exH exLeaves), treeVal_wf exH _ 3 wf, treeVal_root exH _ 3 wf exRoot (by decide)⟩

/-- a collision-free `hash_elements` for the instance: single-element rows hash to the leaf of the example
    tree, every other row to an encoding of the whole list -/
def encRow : List Nat → T
  | [] => T.leaf 0
  | x :: xs => T.node (T.leaf x) (encRow xs)

def hashInj : List Nat → T
  | [x] => T.leaf x
  | l => T.node (T.leaf 0) (encRow l)

theorem encRow_inj : ∀ a b : List Nat, encRow a = encRow b → a = b
  | [], [], _ => rfl
  | [], _ :: _, h => by simp [encRow] at h
  | _ :: _, [], h => by simp [encRow] at h
  | x :: xs, y :: ys, h => by
    simp only [encRow, T.node.injEq, T.leaf.injEq] at h
    rw [h.1, encRow_inj xs ys h.2]

theorem hashInj_injective : Function.Injective hashInj := by
  intro a b h
  match a, b with
  | [x], [y] => simp only [hashInj, T.leaf.injEq] at h; rw [h]
  | [x], [] => simp [hashInj] at h
  | [x], _ :: _ :: _ => simp [hashInj] at h
  | [], [y] => simp [hashInj] at h
  | _ :: _ :: _, [y] => simp [hashInj] at h
  | [], [] => rfl
  | [], _ :: _ :: _ => simp [hashInj, encRow] at h
  | _ :: _ :: _, [] => simp [hashInj, encRow] at h
  | x :: x' :: xs, y :: y' :: ys =>
    simp only [hashInj, T.node.injEq, true_and] at h
    exact encRow_inj _ _ h

def toyVerifierI : Verifier (List Nat × List T) T Nat := { toyVerifier true with hashElems := hashInj }
def toyCommittedI : Committed Nat T := { toyCommitted 0 with friRoots := [hashInj [4, 5]] }

theorem toyI_accepted : VerifierChecks.verify toyVerifierI toyCtx (some (toyCommittedI, toyOpened [4, 5])) = .ok () := by
  have hch : challenges toyVerifierI toyCtx toyCommittedI = .ok
      { toyChallenges with
        log := [exRoot, exRoot, hashInj [1, 2], hashInj [3], hashInj [4, 5]],
        coinAtQueries := (coinSeed 8 toyCtx [5], [exRoot, exRoot, hashInj [1, 2], hashInj [3], hashInj [4, 5]]) } := rfl
  have hop : openingOk toyVerifierI exRoot [1, 3, 6] toyOpening 3 = true := by decide
  have hc : checkOpened toyVerifierI toyCtx toyCommittedI (toyOpened [4, 5])
      { toyChallenges with
        log := [exRoot, exRoot, hashInj [1, 2], hashInj [3], hashInj [4, 5]],
        coinAtQueries := (coinSeed 8 toyCtx [5], [exRoot, exRoot, hashInj [1, 2], hashInj [3], hashInj [4, 5]]) } = .ok () := by
    unfold checkOpened friVerify
    have ha : toyVerifierI.air toyCtx = toyAir := rfl
    simp only [ha, toy_layers]
    have h3 : Nat.log2 toyAir.ldeSize = 3 := by decide
    simp only [h3, toyCommittedI, toyCommitted, toyOpened, toyChallenges, List.zip_cons_cons, List.zip_nil_right, List.all_cons,
      List.all_nil, hop, Bool.and_true, Bool.not_true, Bool.false_eq_true, if_false]
    rfl
  unfold Model.VerifierChecks.verify
  simp only [hch, hc]
  rfl

end WinterProofs.C03L
