-- Helper lemmas for C08 over the prime field `ZMod p`: from the closed facts about the `p`-th powers of the basis
-- elements to "conjugation is the `p`-power map", "the quotient ring is a field" and the correctness of the
-- model's inversion through the norm.
import WinterProofs.Lemmas.C08Model
import Mathlib.Algebra.Group.Idempotent

set_option linter.unusedSectionVars false
set_option linter.unusedSimpArgs false
namespace WinterProofs.C08L
open Model

/-- base-field operations of the prime field: ring operations, decidable equality, field inverse -/
abbrev fieldBOps (p : ℕ) [Fact p.Prime] : BOps (ZMod p) := ringBOps (ZMod p) (fun x => x⁻¹)

theorem natCast_sub_self {p : ℕ} (k : ℕ) (hk : k ≤ p) : ((p - k : ℕ) : ZMod p) = -(k : ZMod p) := by
  rw [Nat.cast_sub hk, ZMod.natCast_self, zero_sub]


-- ------------------------------------------------------------------------------------------------ closed computations
/-- from a closed computation on naturals to the `p`-th power of `φ` (degree 2) -/
theorem phi_pow_of_powN2 {p : ℕ} {s t : ZMod p} (sN tN : ℕ) (hs : (sN : ZMod p) = s) (ht : (tN : ZMod p) = t)
    (fuel : ℕ) (hp : p < 2 ^ fuel) (u v : ℕ) (hk : powN2 p sN tN fuel (1, 0) (0, 1) p = (u, v)) :
    (PQ2.φ : PQ2 (ZMod p) s t) ^ p = ⟨u, v⟩ := by
  have := castN2_pow sN tN hs ht fuel (1, 0) (0, 1) p hp
  rw [hk] at this
  have e1 : castN2 s t (1, 0) = 1 := by ext <;> simp [castN2]
  have e2 : castN2 s t (0, 1) = PQ2.φ := by ext <;> simp [castN2]
  rw [e1, e2, one_mul] at this
  exact this.symm

/-- from a closed computation on naturals to a power in `PQ3 (ZMod p) s t` -/
theorem pow_of_powN3 {p : ℕ} {s t : ZMod p} (sN tN : ℕ) (hs : (sN : ZMod p) = s) (ht : (tN : ZMod p) = t)
    (fuel : ℕ) (e : ℕ) (he : e < 2 ^ fuel) (a r : ℕ × ℕ × ℕ) (hk : powN3 p sN tN fuel (1, 0, 0) a e = r) :
    castN3 s t a ^ e = castN3 s t r := by
  have := castN3_pow sN tN hs ht fuel (1, 0, 0) a e he
  rw [hk] at this
  have e1 : castN3 s t (1, 0, 0) = 1 := by ext <;> simp [castN3]
  rw [e1, one_mul] at this
  exact this.symm

section Deg2
variable {p : ℕ} [Fact p.Prime] {s t : ZMod p}

theorem PQ2.conj_eq_pow (hφ : (PQ2.φ : PQ2 (ZMod p) s t) ^ p = ⟨s, -1⟩) (x : PQ2 (ZMod p) s t) :
    PQ2.conj x = x ^ p := by
  rw [PQ2.conj_apply, PQ2.pow_char s (-1) hφ]
  ext <;> simp

theorem PQ2.pow_pp (hφ : (PQ2.φ : PQ2 (ZMod p) s t) ^ p = ⟨s, -1⟩) (x : PQ2 (ZMod p) s t) :
    x ^ (p * p) = x := by
  rw [pow_mul, ← PQ2.conj_eq_pow hφ, ← PQ2.conj_eq_pow hφ, PQ2.conj_conj]

theorem PQ2.idem_const (hs : s ≠ 0) (hφ : (PQ2.φ : PQ2 (ZMod p) s t) ^ p = ⟨s, -1⟩)
    (e : PQ2 (ZMod p) s t) (he : e * e = e) : ∃ k : ZMod p, e = PQ2.C k := by
  have hp : p ≠ 0 := (Fact.out : p.Prime).ne_zero
  have h1 : e ^ p = e := IsIdempotentElem.pow_eq he hp
  rw [← PQ2.conj_eq_pow hφ, PQ2.conj_apply] at h1
  have h2 := congrArg PQ2.c0 h1
  simp only [add_eq_left, mul_eq_zero] at h2
  refine ⟨e.c0, ?_⟩
  ext
  · simp
  · simpa using h2.resolve_left hs

theorem PQ2.mul_inv (hs : s ≠ 0) (hφ : (PQ2.φ : PQ2 (ZMod p) s t) ^ p = ⟨s, -1⟩)
    (x : PQ2 (ZMod p) s t) (hx : x ≠ 0) : x * x ^ (p * p - 2) = 1 := by
  have hp : 2 ≤ p := (Fact.out : p.Prime).two_le
  refine mul_pow_eq_one_of_pow_eq_self PQ2.C PQ2.C_injective (p * p) ?_ (PQ2.pow_pp hφ) (PQ2.idem_const hs hφ) x hx
  nlinarith

theorem PQ2.eq_zero_or (hs : s ≠ 0) (hφ : (PQ2.φ : PQ2 (ZMod p) s t) ^ p = ⟨s, -1⟩)
    (a b : PQ2 (ZMod p) s t) (h : a * b = 0) : a = 0 ∨ b = 0 := by
  by_cases ha : a = 0
  · exact Or.inl ha
  · right
    have := PQ2.mul_inv hs hφ a ha
    calc b = (a * a ^ (p * p - 2)) * b := by rw [this, one_mul]
      _ = a ^ (p * p - 2) * (a * b) := by ring
      _ = 0 := by rw [h, mul_zero]


theorem q2_eq_zero {R : Type} [CommRing R] {s t : R} (x : Quad R) : q2 s t x = 0 ↔ x = ⟨0, 0⟩ := by
  cases x
  simp [q2, PQ2.ext_iff]

theorem quad_inv_zero {X : Ext2 (ZMod p)} :
    Quad.inv (fieldBOps p) X ⟨0, 0⟩ = .ok ⟨0, 0⟩ := by
  have hb : Quad.beq (fieldBOps p) ⟨0, 0⟩ (Quad.zero (fieldBOps p)) = true := (q2_beq _ _ _).mpr rfl
  simp [Quad.inv, hb]

theorem quad_inv {X : Ext2 (ZMod p)} (h : Spec2 X s t) (hs : s ≠ 0)
    (hφ : (PQ2.φ : PQ2 (ZMod p) s t) ^ p = ⟨s, -1⟩) (x : Quad (ZMod p)) (hx : x ≠ ⟨0, 0⟩) :
    ∃ y, Quad.inv (fieldBOps p) X x = .ok y ∧ q2 s t x * q2 s t y = 1 := by
  have hb : Quad.beq (fieldBOps p) x (Quad.zero (fieldBOps p)) = false := by
    rw [Bool.eq_false_iff]
    intro hh
    exact hx ((q2_beq _ _ _).mp hh)
  obtain ⟨a, b⟩ := x
  have hn1 : a * -b + b * (a + s * b) + s * (b * -b) = 0 := by ring
  have hn0 : a * (a + s * b) + t * (b * -b) ≠ 0 := by
    intro h0
    have hprod : q2 s t ⟨a, b⟩ * PQ2.conj (q2 s t ⟨a, b⟩) = 0 := by
      rw [PQ2.conj_apply]
      ext
      · simpa [q2] using h0
      · simpa [q2] using hn1
    rcases PQ2.eq_zero_or hs hφ _ _ hprod with h1 | h1
    · exact hx ((q2_eq_zero _).mp h1)
    · have h2 : q2 s t ⟨a, b⟩ = 0 := by rw [← PQ2.conj_conj (q2 s t ⟨a, b⟩), h1, map_zero]
      exact hx ((q2_eq_zero _).mp h2)
  refine ⟨⟨(a + s * b) * (a * (a + s * b) + t * (b * -b))⁻¹, -b * (a * (a + s * b) + t * (b * -b))⁻¹⟩, ?_, ?_⟩
  · have hn1' : -(a * b) + b * (a + s * b) + -(s * (b * b)) = 0 := by ring
    simp only [Quad.inv, hb]
    simp [h.frobenius, h.mul, ringBOps, ringOps, hn1']
  · have hc := mul_inv_cancel₀ hn0
    ext
    · simp only [q2, PQ2.mul_c0, PQ2.one_c0]
      linear_combination hc
    · simp only [q2, PQ2.mul_c1, PQ2.one_c1]
      linear_combination (0 : ZMod p) * hc
      
end Deg2

theorem q3_eq_zero {R : Type} [CommRing R] {s t : R} (x : Cube R) : q3 s t x = 0 ↔ x = ⟨0, 0, 0⟩ := by
  cases x
  simp [q3, PQ3.ext_iff]

section Deg3
variable {p : ℕ} [Fact p.Prime] {s t : ZMod p}

/-- what the closed computations establish about the Frobenius coefficients `k` -/
structure Frob3 (s t : ZMod p) (k : FrobK (ZMod p)) : Prop where
  h1 : (PQ3.φ : PQ3 (ZMod p) s t) ^ p = ⟨k.k01, k.k11, k.k21⟩
  h2 : ((PQ3.φ : PQ3 (ZMod p) s t) ^ 2) ^ p = ⟨k.k02, k.k12, k.k22⟩
  h3 : (((⟨k.k01, k.k11, k.k21⟩ : PQ3 (ZMod p) s t)) ^ p) ^ p = PQ3.φ
  hd : k.k01 * k.k12 - k.k02 * (k.k11 - 1) ≠ 0

variable {k : FrobK (ZMod p)}

theorem PQ3.frobK_eq_pow (H : Frob3 s t k) (x : PQ3 (ZMod p) s t) : PQ3.frobK k x = x ^ p := by
  rw [PQ3.frobK_eq, PQ3.pow_char _ _ H.h1 H.h2]

theorem PQ3.pow_ppp (H : Frob3 s t k) (x : PQ3 (ZMod p) s t) : x ^ (p * p * p) = x := by
  have hC : ∀ a : ZMod p, (PQ3.C a : PQ3 (ZMod p) s t) ^ p = PQ3.C a := fun a => by
    rw [← map_pow, ZMod.pow_card]
  have hφ3 : (((PQ3.φ : PQ3 (ZMod p) s t) ^ p) ^ p) ^ p = PQ3.φ := by rw [H.h1, H.h3]
  have hφ6 : ((((PQ3.φ : PQ3 (ZMod p) s t) ^ 2) ^ p) ^ p) ^ p = PQ3.φ ^ 2 := by
    rw [pow_right_comm _ 2 p, pow_right_comm _ 2 p, pow_right_comm _ 2 p, hφ3]
  rw [pow_mul, pow_mul]
  conv_lhs => rw [PQ3.decomp x]
  simp only [add_pow_char, mul_pow, hC, hφ3, hφ6]
  exact (PQ3.decomp x).symm

theorem PQ3.fixed_const (H : Frob3 s t k) (x : PQ3 (ZMod p) s t) (hx : PQ3.frobK k x = x) :
    x.c1 = 0 ∧ x.c2 = 0 := by
  have e0 := congrArg PQ3.c0 hx
  have e1 := congrArg PQ3.c1 hx
  simp only [PQ3.frobK] at e0 e1
  have hd := H.hd
  constructor
  · have : (k.k01 * k.k12 - k.k02 * (k.k11 - 1)) * x.c1 = 0 := by
      linear_combination k.k12 * e0 - k.k02 * e1
    exact (mul_eq_zero.mp this).resolve_left hd
  · have : (k.k01 * k.k12 - k.k02 * (k.k11 - 1)) * x.c2 = 0 := by
      linear_combination (-(k.k11 - 1)) * e0 + k.k01 * e1
    exact (mul_eq_zero.mp this).resolve_left hd

theorem PQ3.const_of_pow (H : Frob3 s t k) (x : PQ3 (ZMod p) s t) (hx : x ^ p = x) : x = PQ3.C x.c0 := by
  rw [← PQ3.frobK_eq_pow H] at hx
  obtain ⟨h1, h2⟩ := PQ3.fixed_const H x hx
  ext <;> simp [h1, h2]

theorem PQ3.idem_const (H : Frob3 s t k) (e : PQ3 (ZMod p) s t) (he : e * e = e) :
    ∃ c : ZMod p, e = PQ3.C c := by
  have hp : p ≠ 0 := (Fact.out : p.Prime).ne_zero
  exact ⟨e.c0, PQ3.const_of_pow H e (IsIdempotentElem.pow_eq he hp)⟩

theorem PQ3.mul_inv (H : Frob3 s t k) (x : PQ3 (ZMod p) s t) (hx : x ≠ 0) : x * x ^ (p * p * p - 2) = 1 := by
  have hp : 2 ≤ p := (Fact.out : p.Prime).two_le
  refine mul_pow_eq_one_of_pow_eq_self PQ3.C PQ3.C_injective (p * p * p) ?_ (PQ3.pow_ppp H) (PQ3.idem_const H) x hx
  have : 2 * 2 ≤ p * p := Nat.mul_le_mul hp hp
  nlinarith

theorem PQ3.eq_zero_or (H : Frob3 s t k) (a b : PQ3 (ZMod p) s t) (h : a * b = 0) : a = 0 ∨ b = 0 := by
  by_cases ha : a = 0
  · exact Or.inl ha
  · right
    have := PQ3.mul_inv H a ha
    calc b = (a * a ^ (p * p * p - 2)) * b := by rw [this, one_mul]
      _ = a ^ (p * p * p - 2) * (a * b) := by ring
      _ = 0 := by rw [h, mul_zero]

theorem PQ3.pow_p_ne_zero (H : Frob3 s t k) (x : PQ3 (ZMod p) s t) (hx : x ≠ 0) : x ^ p ≠ 0 := by
  intro h
  apply hx
  have hp : p ≠ 0 := (Fact.out : p.Prime).ne_zero
  rw [← PQ3.pow_ppp H x, mul_assoc, pow_mul, h, zero_pow (Nat.mul_ne_zero hp hp)]

/-- the norm `x · x^p · x^(p²)` is a non-zero constant -/
theorem PQ3.norm_const (H : Frob3 s t k) (x : PQ3 (ZMod p) s t) (hx : x ≠ 0) :
    ∃ n : ZMod p, n ≠ 0 ∧ x * (x ^ p * (x ^ p) ^ p) = PQ3.C n := by
  have hfix : (x * (x ^ p * (x ^ p) ^ p)) ^ p = x * (x ^ p * (x ^ p) ^ p) := by
    have h3 : ((x ^ p) ^ p) ^ p = x := by rw [← pow_mul, ← pow_mul, ← mul_assoc, PQ3.pow_ppp H]
    rw [mul_pow, mul_pow, h3]
    ring
  refine ⟨_, ?_, PQ3.const_of_pow H _ hfix⟩
  intro h0
  have hz : x * (x ^ p * (x ^ p) ^ p) = 0 := by
    rw [PQ3.const_of_pow H _ hfix, h0, map_zero]
  have h1 := PQ3.pow_p_ne_zero H x hx
  have h2 := PQ3.pow_p_ne_zero H _ h1
  rcases PQ3.eq_zero_or H _ _ hz with h | h
  · exact hx h
  · rcases PQ3.eq_zero_or H _ _ h with h | h
    · exact h1 h
    · exact h2 h

theorem Cube.inv_eq {F : Type} (B : BOps F) (X : Ext3 F) (a : Cube F) :
    Cube.inv B X a =
      if Cube.beq B a (Cube.zero B) then .ok a
      else
        let num := Cube.mul X (Cube.conjugate X a) (Cube.conjugate X (Cube.conjugate X a))
        let norm := Cube.mul X a num
        if !(B.eq norm.c1 B.zero) then .panic
        else if !(B.eq norm.c2 B.zero) then .panic
        else
          match B.inv norm.c0 with
          | .out => .hang
          | .done d => .ok ⟨B.mul num.c0 d, B.mul num.c1 d, B.mul num.c2 d⟩ := rfl

theorem cube_inv_zero {X : Ext3 (ZMod p)} :
    Cube.inv (fieldBOps p) X ⟨0, 0, 0⟩ = .ok ⟨0, 0, 0⟩ := by
  have hb : Cube.beq (fieldBOps p) ⟨0, 0, 0⟩ (Cube.zero (fieldBOps p)) = true := (q3_beq _ _ _).mpr rfl
  simp [Cube.inv, hb]

theorem cube_inv {X : Ext3 (ZMod p)} (h : Spec3 X s t k) (H : Frob3 s t k) (x : Cube (ZMod p))
    (hx : x ≠ ⟨0, 0, 0⟩) :
    ∃ y, Cube.inv (fieldBOps p) X x = .ok y ∧ q3 s t x * q3 s t y = 1 := by
  have hb : Cube.beq (fieldBOps p) x (Cube.zero (fieldBOps p)) = false := by
    rw [Bool.eq_false_iff]
    intro hh
    exact hx ((q3_beq _ _ _).mp hh)
  have hA : q3 s t x ≠ 0 := fun h0 => hx ((q3_eq_zero _).mp h0)
  obtain ⟨n, hn, hN⟩ := PQ3.norm_const H (q3 s t x) hA
  -- the model's numerator and norm, read in the quotient ring
  have hnum : q3 s t (Cube.mul X (Cube.conjugate X x) (Cube.conjugate X (Cube.conjugate X x))) =
      q3 s t x ^ p * (q3 s t x ^ p) ^ p := by
    simp only [q3_mul h, q3_conj h, PQ3.frobK_eq_pow H]
  have hnorm : q3 s t (Cube.mul X x (Cube.mul X (Cube.conjugate X x) (Cube.conjugate X (Cube.conjugate X x)))) =
      PQ3.C n := by
    rw [q3_mul h, hnum, hN]
  generalize hnumdef : Cube.mul X (Cube.conjugate X x) (Cube.conjugate X (Cube.conjugate X x)) = num at hnum hnorm
  generalize hnrmdef : Cube.mul X x num = nrm at hnorm
  have e0 : nrm.c0 = n := congrArg PQ3.c0 hnorm
  have e1 : nrm.c1 = 0 := congrArg PQ3.c1 hnorm
  have e2 : nrm.c2 = 0 := congrArg PQ3.c2 hnorm
  refine ⟨⟨num.c0 * n⁻¹, num.c1 * n⁻¹, num.c2 * n⁻¹⟩, ?_, ?_⟩
  · rw [Cube.inv_eq]
    simp only [hb, hnumdef, hnrmdef]
    simp [ringBOps, ringOps, e0, e1, e2]
  · have hy : q3 s t ⟨num.c0 * n⁻¹, num.c1 * n⁻¹, num.c2 * n⁻¹⟩ = q3 s t num * PQ3.C n⁻¹ := by
      ext <;> simp [q3]
    rw [hy, ← mul_assoc, hnum, hN, ← map_mul, mul_inv_cancel₀ hn, map_one]

end Deg3

end WinterProofs.C08L
