-- C14 helper lemmas: the chunked value computations equal the serial ones value-for-value, over any field:
-- power series (every batch starts at s * b^offset), batch inversion (every batch inverts its own slice),
-- shift series (clone_and_shift, the scaling loop of interpolate_poly_with_offset)
import WinterProofs.Lemmas.C14Arith
import Mathlib.Algebra.Field.Basic
import Mathlib.Tactic.FieldSimp
import Mathlib.Tactic.Ring

namespace WinterProofs.C14
open Model.Parallel

/-! ### tilings: consecutive batches from `a` to `b` -/

/-- the batches are consecutive: the first starts at `a`, each next one where the previous ended, the last ends at `b` -/
def Tiles : List (Nat × Nat) → Nat → Nat → Prop
  | [], a, b => a = b
  | p :: r, a, b => p.1 = a ∧ Tiles r (a + p.2) b

theorem Tiles.le : ∀ {l : List (Nat × Nat)} {a b : Nat}, Tiles l a b → a ≤ b
  | [], a, b, h => by simp [Tiles] at h; omega
  | p :: r, a, b, h => by
    have := Tiles.le h.2
    omega

theorem tiles_single (len : Nat) : Tiles [(0, len)] 0 len := by simp [Tiles]

/-- the chunks `k, k+1, …` of `par_chunks_mut(size)` tile the rest of the slice -/
theorem chunks_tiles_aux (len size : Nat) (hs : 0 < size) :
    ∀ m k, k + m = numChunks len size →
      Tiles ((List.range' k m).map (chunk len size)) (min (k * size) len) len := by
  intro m
  induction m with
  | zero =>
    intro k hk
    simp only [Nat.add_zero] at hk
    have : ¬ k * size < len := by
      rw [← lt_numChunks_iff len size k hs]; omega
    simp [Tiles]; omega
  | succ m ih =>
    intro k hk
    have hlt : k * size < len := by
      rw [← lt_numChunks_iff len size k hs]; omega
    have := ih (k + 1) (by omega)
    simp only [List.range'_succ, List.map_cons, Tiles, chunk]
    refine ⟨by omega, ?_⟩
    have e : min (k * size) len + min size (len - k * size) = min ((k + 1) * size) len := by
      rw [Nat.add_mul]; omega
    rw [e]; exact this

theorem chunks_tiles (len size : Nat) (hs : 0 < size) :
    ∃ l, chunks len size = some l ∧ Tiles l 0 len := by
  refine ⟨(List.range (numChunks len size)).map (chunk len size), by simp [chunks, Nat.ne_of_gt hs], ?_⟩
  have := chunks_tiles_aux len size hs (numChunks len size) 0 (by omega)
  simpa [List.range_eq_range'] using this

/-- the batches of `batch_iter_mut!` tile the slice, for every length, minimum ≥ 1 and thread count -/
theorem batchIterMut_tiles (len : Nat) (min : Option Nat) (threads : Nat) (hmin : min ≠ some 0) :
    ∃ l, batchIterMut len min threads = some l ∧ Tiles l 0 len := by
  unfold batchIterMut
  simp only
  split
  · exact ⟨_, rfl, tiles_single len⟩
  · rename_i hbs
    have hpos : 0 < len / nextPow2 threads := by
      cases min with
      | none => simp only [Option.getD] at hbs; omega
      | some m =>
        have : m ≠ 0 := fun h => hmin (by rw [h])
        simp only [Option.getD] at hbs; omega
    exact chunks_tiles len _ hpos

theorem tiles_flatMap_range {γ : Type} (g : Nat → γ) :
    ∀ (l : List (Nat × Nat)) (a b : Nat), Tiles l a b →
      l.flatMap (fun p => (List.range p.2).map (fun i => g (p.1 + i))) = (List.range (b - a)).map (fun i => g (a + i)) := by
  intro l
  induction l with
  | nil => intro a b h; simp [Tiles] at h; simp [h]
  | cons p r ih =>
    intro a b h
    obtain ⟨h1, h2⟩ := h
    have hle := Tiles.le h2
    rw [List.flatMap_cons, ih _ _ h2, h1]
    have e : b - a = p.2 + (b - (a + p.2)) := by omega
    rw [e, List.range_add, List.map_append, List.map_map]
    congr 1
    apply List.map_congr_left
    intro i _
    simp [Nat.add_assoc]

theorem tiles_flatMap_slices {γ : Type} (xs : List γ) :
    ∀ (l : List (Nat × Nat)) (a b : Nat), Tiles l a b →
      l.flatMap (fun p => (xs.drop p.1).take p.2) = (xs.drop a).take (b - a) := by
  intro l
  induction l with
  | nil => intro a b h; simp [Tiles] at h; simp [h]
  | cons p r ih =>
    intro a b h
    obtain ⟨h1, h2⟩ := h
    have hle := Tiles.le h2
    rw [List.flatMap_cons, ih _ _ h2, h1]
    have e : b - a = p.2 + (b - (a + p.2)) := by omega
    rw [e, List.take_add, List.drop_drop]

/-! ### the operation record of a field -/

variable {F : Type} [Field F] [DecidableEq F]

/-- the operations of a field as the record the model computes with (`inv 0 = 0`, as `E::inv` and Mathlib agree) -/
def fieldOps (F : Type) [Field F] [DecidableEq F] : FOps F where
  one := 1
  zero := 0
  mul := (· * ·)
  inv := (·⁻¹)
  isZero := fun x => decide (x = 0)

theorem powF_eq (b : F) (e : Nat) : powF (fieldOps F) b e = b ^ e := by
  induction e with
  | zero => simp [powF, fieldOps]
  | succ e ih => simp only [powF, ih, pow_succ]; rfl

theorem fillSeries_eq (b : F) : ∀ (n : Nat) (start : F),
    fillSeries (fieldOps F) b n start = (List.range n).map (fun i => start * b ^ i) := by
  intro n
  induction n with
  | zero => intro s; simp [fillSeries]
  | succ n ih =>
    intro s
    rw [fillSeries, ih, List.range_succ_eq_map, List.map_cons, List.map_map]
    simp only [pow_zero, mul_one, List.cons.injEq, true_and]
    apply List.map_congr_left
    intro i _
    simp only [Function.comp, fieldOps, pow_succ]
    ring

/-! ### (3) power series -/

theorem powerSeriesSerial_eq (b s : F) (n : Nat) :
    powerSeriesSerial (fieldOps F) b s n = (List.range n).map (fun i => s * b ^ i) := by
  unfold powerSeriesSerial
  rw [fillSeries_eq, powF_eq]
  simp [fieldOps]

/-- any tiling of `[0, n)` into batches, each started at `s * b^offset`, yields the serial power series -/
theorem powerSeriesBatched_eq (b s : F) (l : List (Nat × Nat)) (n : Nat) (h : Tiles l 0 n) :
    powerSeriesBatched (fieldOps F) b s l = powerSeriesSerial (fieldOps F) b s n := by
  unfold powerSeriesBatched
  have : (fun p : Nat × Nat => fillSeries (fieldOps F) b p.2 ((fieldOps F).mul s (powF (fieldOps F) b p.1)))
      = fun p => (List.range p.2).map (fun i => (fun j => s * b ^ j) (p.1 + i)) := by
    funext p
    rw [fillSeries_eq, powF_eq]
    apply List.map_congr_left
    intro i _
    simp only [fieldOps, pow_add]; ring
  rw [this, tiles_flatMap_range (fun j => s * b ^ j) l 0 n h, powerSeriesSerial_eq]
  simp

/-! ### (3) batch inversion -/

/-- the value of `last` after the backward loop has processed the pairs -/
def lastAfter (o : FOps F) : List (F × F) → F → F
  | [], last => last
  | (v, _) :: rest, last => if o.isZero v then lastAfter o rest last else lastAfter o rest (o.mul last v)

omit [Field F] [DecidableEq F] in
theorem invBackward_append (o : FOps F) : ∀ (A B : List (F × F)) (c : F),
    invBackward o (A ++ B) c = invBackward o A c ++ invBackward o B (lastAfter o A c) := by
  intro A
  induction A with
  | nil => intro B c; rfl
  | cons p A ih =>
    intro B c
    obtain ⟨v, pre⟩ := p
    simp only [List.cons_append, invBackward, lastAfter]
    split <;> simp [ih]

omit [Field F] [DecidableEq F] in
theorem lastAfter_append (o : FOps F) : ∀ (A B : List (F × F)) (c : F),
    lastAfter o (A ++ B) c = lastAfter o B (lastAfter o A c) := by
  intro A
  induction A with
  | nil => intro B c; rfl
  | cons p A ih =>
    intro B c
    obtain ⟨v, pre⟩ := p
    simp only [List.cons_append, lastAfter]
    split <;> simp [ih]

theorem inv_passes (vs : List F) : ∀ (last : F), last ≠ 0 →
    let f := invForward (fieldOps F) vs last
    invBackward (fieldOps F) (vs.zip f.1).reverse f.2⁻¹ = (vs.map (·⁻¹)).reverse ∧
      lastAfter (fieldOps F) (vs.zip f.1).reverse f.2⁻¹ = last⁻¹ := by
  induction vs with
  | nil => intro last _; simp [invForward, invBackward, lastAfter]
  | cons v vs ih =>
    intro last hl
    by_cases hv : v = 0
    · subst hv
      have := ih last hl
      simp only [invForward, fieldOps, decide_true, ↓reduceIte] at this ⊢
      simp only [List.zip_cons_cons, List.reverse_cons, List.map_cons, inv_zero]
      rw [invBackward_append, lastAfter_append, this.1, this.2]
      simp [invBackward, lastAfter]
    · have hne : last * v ≠ 0 := mul_ne_zero hl hv
      have := ih (last * v) hne
      have hd : decide (v = 0) = false := by simpa using hv
      simp only [invForward, fieldOps, hd] at this ⊢
      simp only [Bool.false_eq_true, ↓reduceIte, List.zip_cons_cons, List.reverse_cons, List.map_cons]
      rw [invBackward_append, lastAfter_append, this.1, this.2]
      simp only [invBackward, lastAfter, hd, Bool.false_eq_true, ↓reduceIte]
      constructor
      · congr 1
        simp only [List.cons.injEq, and_true]
        field_simp
      · field_simp

/-- `serial_batch_inversion` returns the inverses (zero for zero) -/
theorem serialBatchInversion_eq (vs : List F) : serialBatchInversion (fieldOps F) vs = vs.map (·⁻¹) := by
  unfold serialBatchInversion
  have := (inv_passes vs 1 one_ne_zero).1
  simp only [fieldOps] at this ⊢
  rw [this, List.reverse_reverse]

/-- any tiling into batches, each inverting its own slice, yields the serial result -/
theorem batchInversionBatched_eq (vs : List F) (l : List (Nat × Nat)) (h : Tiles l 0 vs.length) :
    batchInversionBatched (fieldOps F) vs l = serialBatchInversion (fieldOps F) vs := by
  unfold batchInversionBatched
  simp only [serialBatchInversion_eq]
  have : (fun p : Nat × Nat => ((vs.drop p.1).take p.2).map (·⁻¹))
      = fun p => ((vs.map (·⁻¹)).drop p.1).take p.2 := by
    funext p; simp [List.map_take, List.map_drop]
  rw [this, tiles_flatMap_slices (vs.map (·⁻¹)) l 0 vs.length (by simpa using h)]
  simp

/-! ### (3) shift series -/

theorem fillSeries_add (b : F) (n m : Nat) (s : F) :
    fillSeries (fieldOps F) b (n + m) s = fillSeries (fieldOps F) b n s ++ fillSeries (fieldOps F) b m (s * b ^ n) := by
  rw [fillSeries_eq, fillSeries_eq, fillSeries_eq, List.range_add, List.map_append, List.map_map]
  congr 1
  apply List.map_congr_left
  intro i _
  simp only [Function.comp, pow_add]; ring

theorem shiftBatch_append (d c : F) (xs ys : List F) (off : Nat) :
    shiftBatch (fieldOps F) d c (xs ++ ys) off
      = shiftBatch (fieldOps F) d c xs off ++ shiftBatch (fieldOps F) d c ys (off + xs.length) := by
  unfold shiftBatch
  have hstart : (fieldOps F).mul (powF (fieldOps F) d off) c * d ^ xs.length
      = (fieldOps F).mul (powF (fieldOps F) d (off + xs.length)) c := by
    rw [powF_eq, powF_eq]
    simp only [fieldOps, pow_add]; ring
  rw [List.length_append, fillSeries_add, List.zip_append (by simp [fillSeries_eq]), List.map_append, hstart]

/-- any tiling into batches, batch at `off` started at `c * d^off`, yields the serial scaling (one batch at 0) -/
theorem shiftBatched_eq (d c : F) (vs : List F) :
    ∀ (l : List (Nat × Nat)) (a b : Nat), Tiles l a b → b ≤ vs.length →
      shiftBatched (fieldOps F) d c vs l = shiftBatch (fieldOps F) d c ((vs.drop a).take (b - a)) a := by
  intro l
  induction l with
  | nil =>
    intro a b h _
    simp [Tiles] at h
    simp [shiftBatched, h, shiftBatch, fillSeries]
  | cons p r ih =>
    intro a b h hb
    obtain ⟨h1, h2⟩ := h
    have hle := Tiles.le h2
    have ih' := ih _ _ h2 hb
    unfold shiftBatched at ih' ⊢
    rw [List.flatMap_cons, ih', h1]
    have e : b - a = p.2 + (b - (a + p.2)) := by omega
    rw [e, List.take_add, List.drop_drop, shiftBatch_append]
    congr 2
    simp; omega

end WinterProofs.C14
