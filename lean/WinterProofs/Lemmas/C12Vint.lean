-- helper lemmas for C12: the variable-length size encoding (vint64) of write_usize / read_usize
import WinterProofs.Lemmas.C12Basic

namespace WinterProofs.C12L
open Model Model.Serde

theorem bitLen_le (v k : Nat) : bitLen v ≤ k ↔ v < 2 ^ k := by
  unfold bitLen
  by_cases h : v = 0
  · subst h; simp [Nat.two_pow_pos]
  · simp only [h, if_false]
    rw [← Nat.log2_lt h]; omega

theorem elen (b : Nat) :
    9 - min ((64 - b - 1) / 7) 8 =
      if b ≤ 7 then 1 else if b ≤ 14 then 2 else if b ≤ 21 then 3 else if b ≤ 28 then 4 else if b ≤ 35 then 5
      else if b ≤ 42 then 6 else if b ≤ 49 then 7 else if b ≤ 56 then 8 else 9 := by
  repeat' split
  all_goals omega

theorem encodedLen_eq (v : Nat) :
    encodedLen v =
      if v < 128 then 1 else if v < 16384 then 2 else if v < 2097152 then 3 else if v < 268435456 then 4
      else if v < 34359738368 then 5 else if v < 4398046511104 then 6 else if v < 562949953421312 then 7
      else if v < 72057594037927936 then 8 else 9 := by
  simp only [encodedLen, elen, bitLen_le, Nat.reducePow]

/-- `encoded_len` is the number of 7-bit groups, at most 8, else 9 -/
theorem encodedLen_cases (v : Nat) :
    (v < 128 ∧ encodedLen v = 1) ∨ (128 ≤ v ∧ v < 16384 ∧ encodedLen v = 2) ∨
    (16384 ≤ v ∧ v < 2097152 ∧ encodedLen v = 3) ∨ (2097152 ≤ v ∧ v < 268435456 ∧ encodedLen v = 4) ∨
    (268435456 ≤ v ∧ v < 34359738368 ∧ encodedLen v = 5) ∨
    (34359738368 ≤ v ∧ v < 4398046511104 ∧ encodedLen v = 6) ∨
    (4398046511104 ≤ v ∧ v < 562949953421312 ∧ encodedLen v = 7) ∨
    (562949953421312 ≤ v ∧ v < 72057594037927936 ∧ encodedLen v = 8) ∨
    (72057594037927936 ≤ v ∧ encodedLen v = 9) := by
  rw [encodedLen_eq]
  repeat' split
  all_goals omega

theorem encodedLen_range (v : Nat) (hv : v < 18446744073709551616) : 1 ≤ encodedLen v ∧ encodedLen v ≤ 9 := by
  have := encodedLen_cases v; omega

theorem take_leBytes (k n x : Nat) (h : k ≤ n) : (leBytes n x).take k = leBytes k x := by
  induction k generalizing n x with
  | zero => simp [leBytes]
  | succ k ih =>
    cases n with
    | zero => omega
    | succ n => simp [leBytes, ih n (x / 256) (by omega)]

theorem or_one (m : Nat) : (2 * m) ||| 1 = 2 * m + 1 := by
  have := Nat.two_pow_add_eq_or_of_lt (i := 1) (b := 1) (by decide) m
  simpa using this.symm

theorem tz_mod (k j m : Nat) : tz k (m % 2 ^ (k + j)) = tz k m := by
  induction k generalizing m with
  | zero => rfl
  | succ k ih =>
    have e : 2 ^ (k + 1 + j) = 2 * 2 ^ (k + j) := by
      rw [show k + 1 + j = (k + j) + 1 by omega, Nat.pow_succ, Nat.mul_comm]
    simp only [tz, e, Nat.mod_mul_right_mod, Nat.mod_mul_right_div_self, ih]

theorem tz_odd_mul (f j a : Nat) (h : j < f) : tz f ((2 * a + 1) * 2 ^ j) = j := by
  induction j generalizing f with
  | zero =>
    cases f with
    | zero => omega
    | succ f => simp [tz]
  | succ j ih =>
    cases f with
    | zero => omega
    | succ f =>
      have e : (2 * a + 1) * 2 ^ (j + 1) = 2 * ((2 * a + 1) * 2 ^ j) := by
        rw [Nat.pow_succ]; ac_rfl
      have hne : ¬ (2 * ((2 * a + 1) * 2 ^ j)) % 2 = 1 := by omega
      simp only [tz, e, hne, if_false, Nat.mul_div_cancel_left _ (by decide : 0 < 2), ih f (by omega)]
      omega

/-- the first byte of an `n+1`-byte little-endian encoding -/
theorem leBytes_succ (n x : Nat) : leBytes (n + 1) x = (x % 256) :: leBytes n (x / 256) := rfl

/-- the short forms (1 to 8 bytes) -/
theorem vint_small (k C D v : Nat) (r : Bytes) (hk1 : 1 ≤ k) (hk8 : k ≤ 8)
    (hC : C = 2 ^ (k - 1)) (hD : D = 2 ^ (7 * k)) (hv : v < D) (hlen : encodedLen v = k) :
    readUsize (writeUsize v ++ r) = .ok (v, r) := by
  have hD56 : D ≤ 72057594037927936 := by
    subst hD
    calc 2 ^ (7 * k) ≤ 2 ^ 56 := Nat.pow_le_pow_right (by decide) (by omega)
      _ = 72057594037927936 := by decide
  -- the value that is written: (2v + 1) * 2^(k-1), below 2^(8k)
  have hX : (2 * v + 1) * C < 256 ^ k := by
    have h1 : 2 * v + 1 < 2 * D := by omega
    have h2 : (2 * v + 1) * C < (2 * D) * C := Nat.mul_lt_mul_of_pos_right h1 (by subst hC; exact Nat.two_pow_pos _)
    have h3 : (2 * D) * C = 256 ^ k := by
      subst hC hD
      rw [show (256 : Nat) = 2 ^ 8 by decide, ← Nat.pow_mul, ← Nat.pow_succ', ← Nat.pow_add]
      congr 1; omega
    omega
  have h256 : 256 ^ k ≤ 18446744073709551616 := by
    calc 256 ^ k ≤ 256 ^ 8 := Nat.pow_le_pow_right (by decide) hk8
      _ = 18446744073709551616 := by decide
  have hw : writeUsize v = leBytes k ((2 * v + 1) * C) := by
    unfold writeUsize
    have e1 : v % 18446744073709551616 = v := Nat.mod_eq_of_lt (by omega)
    have e2 : v * 2 % 18446744073709551616 = 2 * v := by omega
    simp only [e1, hlen, e2, or_one, Nat.shiftLeft_eq, ← hC]
    have e3 : (2 * v + 1) * C % 18446744073709551616 = (2 * v + 1) * C := Nat.mod_eq_of_lt (by omega)
    rw [if_neg (by omega), e3, take_leBytes _ _ _ hk8]
  obtain ⟨k', rfl⟩ : ∃ k', k = k' + 1 := ⟨k - 1, by omega⟩
  have htz : trailingZeros8 ((2 * v + 1) * C % 256) = k' := by
    unfold trailingZeros8
    have := tz_mod 8 0 ((2 * v + 1) * C)
    simp only [Nat.add_zero] at this
    rw [show (256 : Nat) = 2 ^ 8 by decide, this, hC]
    simpa using tz_odd_mul 8 k' v (by omega)
  rw [hw]
  simp only [readUsize, bind_apply, leBytes_succ, List.cons_append, peekU8_cons, htz]
  rw [if_neg (by omega)]
  have hs := readSlice_append_len (leBytes_length (k' + 1) ((2 * v + 1) * C)) r
  simp only [leBytes_succ, List.cons_append] at hs
  simp only [bind_apply, hs, pure_apply]
  have ho := ofLeBytes_leBytes_lt hX
  simp only [leBytes_succ] at ho
  rw [ho, Nat.shiftRight_eq_div_pow]
  have : (2 * v + 1) * C / 2 ^ (k' + 1) = v := by
    subst hC
    simp only [Nat.add_sub_cancel]
    rw [Nat.pow_succ, ← Nat.div_div_eq_div_mul, Nat.mul_div_cancel _ (Nat.two_pow_pos _)]
    omega
  rw [this]

/-- the 9-byte form -/
theorem vint_big (v : Nat) (r : Bytes) (hv : v < 18446744073709551616) (hlen : encodedLen v = 9) :
    readUsize (writeUsize v ++ r) = .ok (v, r) := by
  unfold writeUsize
  have e1 : v % 18446744073709551616 = v := Nat.mod_eq_of_lt hv
  simp only [e1, hlen, if_true]
  have hr := readUInt_leBytes (n := 8) (v := v) (by simpa using hv) r
  simp [readUsize, peekU8_cons, readU8_cons, trailingZeros8, tz, hr]

/-- vint64: every `v < 2^64` reads back, consuming exactly the written bytes -/
theorem readUsize_writeUsize (v : Nat) (r : Bytes) (hv : v < 18446744073709551616) :
    readUsize (writeUsize v ++ r) = .ok (v, r) := by
  rcases encodedLen_cases v with h | h | h | h | h | h | h | h | h
  · exact vint_small 1 1 128 v r (by decide) (by decide) (by decide) (by decide) h.1 h.2
  · exact vint_small 2 2 16384 v r (by decide) (by decide) (by decide) (by decide) h.2.1 h.2.2
  · exact vint_small 3 4 2097152 v r (by decide) (by decide) (by decide) (by decide) h.2.1 h.2.2
  · exact vint_small 4 8 268435456 v r (by decide) (by decide) (by decide) (by decide) h.2.1 h.2.2
  · exact vint_small 5 16 34359738368 v r (by decide) (by decide) (by decide) (by decide) h.2.1 h.2.2
  · exact vint_small 6 32 4398046511104 v r (by decide) (by decide) (by decide) (by decide) h.2.1 h.2.2
  · exact vint_small 7 64 562949953421312 v r (by decide) (by decide) (by decide) (by decide) h.2.1 h.2.2
  · exact vint_small 8 128 72057594037927936 v r (by decide) (by decide) (by decide) (by decide) h.2.1 h.2.2
  · exact vint_big v r hv h.2

/-- the number of bytes written is `encoded_len` -/
theorem writeUsize_length (v : Nat) (hv : v < 18446744073709551616) :
    (writeUsize v).length = encodedLen v := by
  unfold writeUsize
  have e1 : v % 18446744073709551616 = v := Nat.mod_eq_of_lt hv
  have hr := encodedLen_range v hv
  simp only [e1]
  split
  · simp [leBytes_length]; omega
  · simp [leBytes_length]; omega

end WinterProofs.C12L
