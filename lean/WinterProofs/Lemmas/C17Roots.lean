-- C17, the coherence hypotheses of `committed_eq_definition` from a coherent family of two-adic roots
-- of unity: if `get_root_of_unity(j)` has exact order `2^j` for `1 ≤ j ≤ T` and all of them are powers
-- of one two-adic root (what property C07 proves for the three base fields), the domain
-- `StarkDomain::new` builds for a trace of `2^k` rows with power-of-two blowups and an offset of large
-- order satisfies `TraceOK`, `AssertOK`, `hw`, `hroot`, `hg`, `ho` and `hoff` for every well-formed
-- description `prep` accepts.
import WinterProofs.Lemmas.C17Def

set_option linter.unusedSectionVars false

namespace WinterProofs.C17L
open Model.Divisor Model.Composition WinterProofs.C16L Polynomial

variable {F : Type} [Field F]

/-- `get_root_of_unity` over the field: exact orders and coherence up to the two-adicity `T` -/
structure RootFamily (root : ℕ → Option F) (T : ℕ) : Prop where
  ex : ∀ j, 1 ≤ j → j ≤ T → ∃ r, root j = some r ∧ IsPrimitiveRoot r (2 ^ j)
  coh : ∀ j m r s, root j = some r → root m = some s → m ≤ j → s = r ^ 2 ^ (j - m)

/-- what the constructors of the AIR description guarantee (explicit well-formedness of the data):
    trace length `2^k`, at most `n` exemptions, periodic cycles of power-of-two length between 2 and
    `n`, assertions as the constructors return them (`WF`, C16), no auxiliary constraints without
    auxiliary columns -/
structure AirWF (air : Air F) (k : ℕ) : Prop where
  hn : air.n = 2 ^ k
  he : air.e ≤ air.n
  hper : ∀ c ∈ air.periodic, ∃ j, 1 ≤ j ∧ j ≤ k ∧ c.length = 2 ^ j
  hwf : ∀ a ∈ air.mainAsserts ++ air.auxAsserts, WF a
  haux : air.auxWidth = 0 → air.auxCons = []

section
variable (root : ℕ → Option F)
local notation "O" => fieldOps F root

theorem mkDomain_spec {k b l : ℕ} {γ : F} {D : Domain F}
    (hD : mkDomain (O) (2 ^ k) (2 ^ b) (2 ^ l) γ = some D) :
    D.n = 2 ^ k ∧ D.ceBlowup = 2 ^ b ∧ D.ldeBlowup = 2 ^ l ∧ D.offset = γ ∧
      root (k + b) = some D.wce ∧ root (k + l) = some D.wlde := by
  unfold mkDomain at hD
  simp only [bind, Option.bind_eq_some_iff, pure, Option.some.injEq] at hD
  obtain ⟨wce, h1, wlde, h2, rfl⟩ := hD
  rw [← pow_add, Nat.log2_two_pow] at h1 h2
  exact ⟨rfl, rfl, rfl, rfl, h1, h2⟩

/-- every assertion of a description `prep` accepts passed `validate_trace_length` -/
theorem prep_validated {air : Air F} {P : Prep F} (hP : prep (O) air = some P) :
    ∀ a ∈ air.mainAsserts ++ air.auxAsserts, a.validateTraceLength air.n = .ok () := by
  obtain ⟨_, _, _, ms, as, h1, h2, _, _⟩ := prep_spec hP
  have v1 := ((foldl_prepStep_ok_iff air.mainAsserts air.mainWidth air.n []).mp
    ⟨ms, by rw [← prepareAssertions_eq]; exact h1⟩).1
  have v2 := ((foldl_prepStep_ok_iff air.auxAsserts air.auxWidth air.n []).mp
    ⟨as, by rw [← prepareAssertions_eq]; exact h2⟩).1
  intro a ha
  rcases List.mem_append.mp ha with h | h
  · exact (v1 a h).2
  · exact (v2 a h).2

/-- every boundary constraint of `prep` comes from a validated assertion of the description -/
theorem prep_bc_source {air : Air F} {P : Prep F} (hP : prep (O) air = some P) :
    ∀ bc ∈ P.main ++ P.aux, ∃ a ∈ air.mainAsserts ++ air.auxAsserts,
      a.validateTraceLength air.n = .ok () ∧ mkBC (O) P.invG a = some bc := by
  obtain ⟨_, _, _, ms, as, h1, h2, h3, h4⟩ := prep_spec hP
  intro bc hbc
  rcases List.mem_append.mp hbc with h | h
  · obtain ⟨a, ha, hv, hm⟩ := prepared_member root h1 h3 bc h
    exact ⟨a, List.mem_append_left _ ha, hv, hm⟩
  · obtain ⟨a, ha, hv, hm⟩ := prepared_member root h2 h4 bc h
    exact ⟨a, List.mem_append_right _ ha, hv, hm⟩

/-- the two shapes `BoundaryConstraint::new` returns -/
theorem BConstraint_new_shape {a : Assertion F} {invG : F} {c : BConstraint F}
    (h : BConstraint.new (O) a invG = some c) :
    (c.offsetSteps = 0 ∧ c.offsetElem = 1) ∨
    (c.offsetSteps = a.first ∧ c.offsetElem = invG ^ a.first ∧ 1 < a.values.length) := by
  unfold BConstraint.new at h
  split at h
  · rename_i hlen
    split at h
    · cases h
    · split at h
      · cases h; exact Or.inr ⟨rfl, rfl, hlen⟩
      · cases h; exact Or.inl ⟨rfl, rfl⟩
  · cases h; exact Or.inl ⟨rfl, rfl⟩

/-- shape of a validated well-formed assertion over a trace of `2^k` rows: one value, or `2^m` values
    with stride `2^(k-m)` and first step below the stride -/
theorem seq_shape {a : Assertion F} {k : ℕ} (hw : WF a) (hv : a.validateTraceLength (2 ^ k) = .ok ())
    (h2 : 2 ≤ a.values.length) :
    ∃ m, 1 ≤ m ∧ m ≤ k ∧ a.values.length = 2 ^ m ∧ a.stride = 2 ^ (k - m) ∧ a.first < a.stride := by
  have h0 : a.stride ≠ 0 := by
    rcases hw with ⟨_, h⟩ | ⟨_, h, _⟩ <;> omega
  have hmul := stride_mul_steps hw hv h0
  rw [if_neg (by omega)] at hmul
  have hfs : a.first < a.stride := by
    rcases hw with ⟨h, _⟩ | ⟨_, _, h, _⟩
    · exact absurd h h0
    · exact h
  obtain ⟨m, hm⟩ : ∃ m, a.values.length = 2 ^ m := by
    rcases hw with ⟨_, h⟩ | ⟨_, _, _, h | ⟨_, h⟩⟩
    · omega
    · omega
    · exact h
  have hm1 : 1 ≤ m := by
    rcases Nat.eq_zero_or_pos m with h | h
    · subst h; simp at hm; omega
    · exact h
  have hmk : m ≤ k := by
    have : 2 ^ m ≤ 2 ^ k := by
      rw [← hm, ← hmul]; exact Nat.le_mul_of_pos_left _ (Nat.pos_of_ne_zero h0)
    exact (Nat.pow_le_pow_iff_right (by decide)).mp this
  have hstride : a.stride = 2 ^ (k - m) := by
    have : a.stride * 2 ^ m = 2 ^ (k - m) * 2 ^ m := by
      rw [← Nat.pow_add, Nat.sub_add_cancel hmk, ← hm, hmul]
    exact Nat.eq_of_mul_eq_mul_right (Nat.two_pow_pos m) this
  exact ⟨m, hm1, hmk, hm, hstride, hfs⟩

/-- the number of asserted values of a validated well-formed assertion divides the trace length -/
theorem values_length_dvd {a : Assertion F} {n : ℕ} (hw : WF a) (hv : a.validateTraceLength n = .ok ()) :
    a.values.length ≠ 0 ∧ a.values.length ∣ n := by
  obtain ⟨_, hf⟩ := (validateTraceLength_ok_iff a n).mp hv
  unfold FitsLen at hf
  rcases hw with ⟨_, h⟩ | ⟨_, h2, _, h | ⟨h, _⟩⟩
  · rw [h]; exact ⟨by decide, one_dvd _⟩
  · rw [h]; exact ⟨by decide, one_dvd _⟩
  · rw [if_neg (by omega), if_neg (by omega)] at hf
    exact ⟨by omega, ⟨a.stride, hf.symm⟩⟩

-- ============================================================================================
-- the coherence hypotheses
-- ============================================================================================

/-- **`TraceOK`, `AssertOK`, `hg`, `hw`, `hroot`, `ho`, `hoff` from the root family.**  Trace length
    `2^k`, constraint evaluation blowup `2^b`, LDE blowup `2^l ≥ 2^b`, `k + l ≤ T`; the domain offset `γ`
    has no power-of-two order up to `2^T` (the multiplicative generator: its order `p − 1` exceeds
    `2^T`), so the evaluation coset `γ·⟨w⟩` never meets the trace domain. -/
theorem coherence_of_rootFamily {T : ℕ} (R : RootFamily root T) {γ : F} (hγ0 : γ ≠ 0)
    (hγ : ∀ j, j ≤ T → γ ^ 2 ^ j ≠ 1)
    {k b l : ℕ} (hk1 : 1 ≤ k) (hbl : b ≤ l) (hklT : k + l ≤ T)
    {air : Air F} (hwf : AirWF air k) {P : Prep F} (hP : prep (O) air = some P)
    {D : Domain F} (hD : mkDomain (O) (2 ^ k) (2 ^ b) (2 ^ l) γ = some D) :
    TraceOK root air P D ∧ AssertOK root air P ∧ IsPrimitiveRoot P.g air.n ∧
      IsPrimitiveRoot D.wce D.ceSize ∧ root (Nat.log2 D.ceSize) = some D.wce ∧ D.offset ≠ 0 ∧
      ∀ i, (D.ceX (O) i) ^ air.n ≠ 1 := by
  obtain ⟨hDn, hDb, hDl, hDo, hwce, hwlde⟩ := mkDomain_spec root hD
  have hn := hwf.hn
  -- the roots involved
  obtain ⟨wce', hwce', hpce⟩ := R.ex (k + b) (by omega) (by omega)
  rw [hwce] at hwce'; cases hwce'
  obtain ⟨wlde', hwlde', hplde⟩ := R.ex (k + l) (by omega) (by omega)
  rw [hwlde] at hwlde'; cases hwlde'
  obtain ⟨hrootg, hinv, hpp, _⟩ := prep_spec hP
  have hrootg' : root k = some P.g := by
    have : root (Nat.log2 air.n) = some P.g := hrootg
    rwa [hn, Nat.log2_two_pow] at this
  obtain ⟨g', hg', hpg⟩ := R.ex k hk1 (by omega)
  rw [hrootg'] at hg'; cases hg'
  have hce : D.ceSize = 2 ^ (k + b) := by unfold Domain.ceSize; rw [hDn, hDb, pow_add]
  have hlde : D.ldeSize = 2 ^ (k + l) := by unfold Domain.ldeSize; rw [hDn, hDl, pow_add]
  have hnpos : 0 < air.n := by rw [hn]; exact Nat.two_pow_pos k
  have hg_wce : P.g = D.wce ^ 2 ^ b := by
    have := R.coh (k + b) k _ _ hwce hrootg' (by omega)
    rwa [Nat.add_sub_cancel_left] at this
  have hwce0 : D.wce ≠ 0 := hpce.ne_zero (by positivity)
  have hvalid := prep_validated root hP
  have hwpow : D.wce ^ D.ceSize = 1 := by rw [hce]; exact hpce.pow_eq_one
  have hrootce : root (Nat.log2 D.ceSize) = some D.wce := by rw [hce, Nat.log2_two_pow]; exact hwce
  have hnce : air.n ∣ D.ceSize := by rw [hn, hce, pow_add]; exact Dvd.intro _ rfl
  -- per boundary constraint
  have hbcs := prep_bc_source root hP
  have hinvG : P.invG = P.g⁻¹ := prep_invG root hP
  refine ⟨?_, ?_, by rw [hn]; exact hpg, by rw [hce]; exact hpce, hrootce, by rw [hDo]; exact hγ0, ?_⟩
  · -- TraceOK
    refine ⟨by rw [hDn, hn], hnpos, hwf.he, by rw [hDb]; exact Nat.two_pow_pos b, hwpow, ?_, ?_, ?_, ?_, ?_, ?_, ?_, ?_,
      hwf.haux⟩
    · -- hr
      have := R.coh (k + l) (k + b) _ _ hwlde hwce (by omega)
      rw [hDl, hDb, Nat.pow_div hbl (by decide), this]
      congr 2; omega
    · -- hg
      have := R.coh (k + l) k _ _ hwlde hrootg' (by omega)
      rw [hDl, this, Nat.add_sub_cancel_left]
    · rw [hlde]; exact hplde.pow_eq_one
    · -- hpow
      intro p hp
      obtain ⟨c, hc, hi⟩ := mapM_mem _ _ _ hpp p hp
      obtain ⟨j, _, _, hj⟩ := hwf.hper c hc
      exact ⟨j, by rw [interpolate_length root hi, hj]⟩
    · -- hdvd
      intro p hp
      obtain ⟨c, hc, hi⟩ := mapM_mem _ _ _ hpp p hp
      obtain ⟨j, _, hjk, hj⟩ := hwf.hper c hc
      rw [interpolate_length root hi, hj, hDn]
      exact pow_dvd_pow 2 hjk
    · -- hproot
      intro p hp
      obtain ⟨c, hc, hi⟩ := mapM_mem _ _ _ hpp p hp
      obtain ⟨j, hj1, hjk, hj⟩ := hwf.hper c hc
      rw [interpolate_length root hi, hj, hDb, hDn, ← pow_add, Nat.log2_two_pow, Nat.pow_div hjk (by decide)]
      obtain ⟨s, hs, _⟩ := R.ex (j + b) (by omega) (by omega)
      rw [hs, R.coh (k + b) (j + b) _ _ hwce hs (by omega)]
      congr 3; omega
    · -- hrepr
      intro bc hbc
      obtain ⟨a, ha, hv, hmk⟩ := hbcs bc hbc
      have hw := hwf.hwf a ha
      unfold mkBC at hmk
      simp only [Option.map_eq_some_iff] at hmk
      obtain ⟨c, hc, rfl⟩ := hmk
      have hlen := BConstraint_new_poly_length root hc
      obtain ⟨hl0, hldvd⟩ := values_length_dvd hw hv
      refine ⟨by show c.poly.length ≠ 0; rw [hlen]; exact hl0,
        by show c.poly.length ∣ D.ceSize; rw [hlen]; exact dvd_trans hldvd hnce, hrootce, hwpow, ?_, ?_⟩
      · show c.offsetElem * D.wce ^ (c.offsetSteps * D.ceBlowup) = 1
        rcases BConstraint_new_shape root hc with ⟨h1, h2⟩ | ⟨h1, h2, _⟩
        · rw [h1, h2]; simp
        · rw [h1, h2, hinvG, hg_wce, hDb, mul_comm a.first, pow_mul, inv_pow,
            inv_mul_cancel₀ (pow_ne_zero _ (pow_ne_zero _ hwce0))]
      · show c.offsetSteps * D.ceBlowup < D.ceSize
        rcases BConstraint_new_shape root hc with ⟨h1, _⟩ | ⟨h1, _, h3⟩
        · rw [h1, hce]; simp
        · rw [hn] at hv
          obtain ⟨m, _, _, _, hst, hfs⟩ := seq_shape hw hv (by omega)
          have hsk : a.stride ≤ 2 ^ k := by rw [hst]; exact Nat.pow_le_pow_right (by decide) (Nat.sub_le _ _)
          rw [h1, hce, hDb, pow_add]
          exact Nat.mul_lt_mul_of_pos_right (by omega) (Nat.two_pow_pos b)
    · -- hsteps
      intro bc hbc
      obtain ⟨a, ha, hv, hmk⟩ := hbcs bc hbc
      rw [mkBC_a hmk]
      have hw := hwf.hwf a ha
      obtain ⟨hfac, _⟩ := steps_factor hw hv hnpos
      rw [numSteps_eq_stepList_length]
      have hdvd : (a.stepList air.n).length ∣ air.n := ⟨_, by rw [Nat.mul_comm]; exact hfac⟩
      refine ⟨Nat.pos_of_dvd_of_pos hdvd hnpos, dvd_trans hdvd hnce⟩
  · -- AssertOK
    refine ⟨hwf.hwf, fun a ha h2 => ?_⟩
    have hv := hvalid a ha
    rw [hn] at hv
    obtain ⟨m, hm1, hmk, hm, hst, _⟩ := seq_shape (hwf.hwf a ha) hv h2
    obtain ⟨s, hs, _⟩ := R.ex m hm1 (by omega)
    rw [hm, Nat.log2_two_pow, hs, hst, R.coh k m _ _ hrootg' hs hmk]
  · -- hoff
    intro i h1
    apply hγ (k + b) (by omega)
    have h2 : ((D.ceX (O) i) ^ air.n) ^ 2 ^ b = 1 := by rw [h1, one_pow]
    rw [ceX_eq, hn, ← pow_mul, ← pow_add, mul_pow, ← pow_mul, mul_comm i, pow_mul, hpce.pow_eq_one, one_pow,
      one_mul, hDo] at h2
    exact h2

end

end WinterProofs.C17L
