-- Helper lemmas for C08: what the `ExtensibleField` formula records must satisfy (`Spec2`, `Spec3`), and what
-- follows for the hand model `Model.Quad` / `Model.Cube` read in the quotient rings `PQ2` / `PQ3`.
import WinterProofs.Lemmas.C08Frob

set_option linter.unusedSectionVars false
set_option linter.unusedTactic false
set_option linter.unreachableTactic false
set_option linter.unnecessarySeqFocus false

namespace WinterProofs.C08L
open Model

variable {R : Type} [CommRing R]

/-- base-field operations of a commutative ring with decidable equality; `inv` is a parameter -/
def ringBOps (R : Type) [CommRing R] [DecidableEq R] (inv : R → R) : BOps R :=
  { toFOps := ringOps R, zero := 0, one := 1, eq := fun a b => decide (a = b), inv := fun x => .done (inv x) }

/-- read a model element in the quotient ring -/
def q2 (s t : R) (a : Quad R) : PQ2 R s t := ⟨a.c0, a.c1⟩
def q3 (s t : R) (a : Cube R) : PQ3 R s t := ⟨a.c0, a.c1, a.c2⟩

theorem q2_injective (s t : R) : Function.Injective (q2 s t) := by
  intro a b h
  cases a; cases b
  simp only [q2, PQ2.mk.injEq] at h
  simp [h.1, h.2]

theorem q3_injective (s t : R) : Function.Injective (q3 s t) := by
  intro a b h
  cases a; cases b
  simp only [q3, PQ3.mk.injEq] at h
  simp [h.1, h.2.1, h.2.2]

-- ================================================================================================ degree 2
/-- the four `ExtensibleField<2>` functions implement `R[x]/(x² - s·x - t)`: schoolbook product reduced by the
    polynomial, squaring = product, product with a constant, and the conjugation `φ ↦ s - φ` -/
structure Spec2 (X : Ext2 R) (s t : R) : Prop where
  mul : ∀ a0 a1 b0 b1, X.mul a0 a1 b0 b1 = (a0 * b0 + t * (a1 * b1), a0 * b1 + a1 * b0 + s * (a1 * b1))
  square : ∀ a0 a1, X.square a0 a1 = X.mul a0 a1 a0 a1
  mulBase : ∀ a0 a1 b, X.mulBase a0 a1 b = (a0 * b, a1 * b)
  frobenius : ∀ x0 x1, X.frobenius x0 x1 = (x0 + s * x1, -x1)

namespace PQ2
variable {s t : R}

theorem conj_root : (C s - φ : PQ2 R s t) ^ 2 = C s * (C s - φ) + C t := by
  ext <;> simp [pow_two] <;> ring

/-- the conjugation `φ ↦ s - φ` (the other root): a ring endomorphism over any commutative ring -/
def conj : PQ2 R s t →+* PQ2 R s t := evalRoot C (C s - φ) conj_root

theorem conj_apply (a : PQ2 R s t) : conj a = ⟨a.c0 + s * a.c1, -a.c1⟩ := by
  ext <;> simp [conj, evalRoot] <;> ring

theorem conj_conj (a : PQ2 R s t) : conj (conj a) = a := by
  rw [conj_apply, conj_apply]
  ext <;> simp

theorem conj_C (x : R) : conj (C x : PQ2 R s t) = C x := by
  rw [conj_apply]; ext <;> simp

theorem conj_bijective : Function.Bijective (conj : PQ2 R s t → PQ2 R s t) :=
  Function.Involutive.bijective conj_conj

end PQ2

section Quad
variable [DecidableEq R] {s t : R} {X : Ext2 R} (inv : R → R)

theorem q2_add (a b : Quad R) : q2 s t (Quad.add (ringBOps R inv) a b) = q2 s t a + q2 s t b := rfl
theorem q2_sub (a b : Quad R) : q2 s t (Quad.sub (ringBOps R inv) a b) = q2 s t a - q2 s t b := rfl
theorem q2_neg (a : Quad R) : q2 s t (Quad.neg (ringBOps R inv) a) = -q2 s t a := rfl
theorem q2_double (a : Quad R) : q2 s t (Quad.double (ringBOps R inv) a) = q2 s t a + q2 s t a := by
  ext <;> simp [q2, Quad.double, ringBOps, ringOps, two_mul]
theorem q2_zero : q2 s t (Quad.zero (ringBOps R inv)) = 0 := rfl
theorem q2_one : q2 s t (Quad.one (ringBOps R inv)) = 1 := rfl
theorem q2_ofBase (x : R) : q2 s t (Quad.ofBase (ringBOps R inv) x) = PQ2.C x := rfl

theorem q2_beq (a b : Quad R) : Quad.beq (ringBOps R inv) a b = true ↔ a = b := by
  cases a; cases b
  simp [Quad.beq, ringBOps]

theorem q2_mul (h : Spec2 X s t) (a b : Quad R) : q2 s t (Quad.mul X a b) = q2 s t a * q2 s t b := by
  ext <;> simp [q2, Quad.mul, Quad.ofPair, h.mul]

theorem q2_square (h : Spec2 X s t) (a : Quad R) : Quad.square X a = Quad.mul X a a := by
  simp [Quad.square, Quad.mul, h.square]

theorem q2_mulBase (h : Spec2 X s t) (a : Quad R) (b : R) :
    q2 s t (Quad.mulBase X a b) = q2 s t a * PQ2.C b := by
  ext <;> simp [q2, Quad.mulBase, Quad.ofPair, h.mulBase]

theorem q2_conj (h : Spec2 X s t) (a : Quad R) : q2 s t (Quad.conjugate X a) = PQ2.conj (q2 s t a) := by
  rw [PQ2.conj_apply]
  ext <;> simp [q2, Quad.conjugate, Quad.ofPair, h.frobenius]

theorem q2_expLoop (h : Spec2 X s t) (r b : Quad R) (e : ℕ) :
    q2 s t (Quad.expLoop X r b e) = q2 s t r * q2 s t b ^ e := by
  induction e using Nat.strong_induction_on generalizing r b with
  | _ e ih =>
    rw [Quad.expLoop]
    by_cases he : e = 0
    · simp [he]
    · simp only [he, dite_false]
      rw [ih (e / 2) (by omega), q2_square h, q2_mul h]
      have hd : e = 2 * (e / 2) + e % 2 := (Nat.div_add_mod e 2).symm
      conv_rhs => rw [hd, pow_add, pow_mul]
      rcases Nat.mod_two_eq_zero_or_one e with h0 | h1
      · simp [h0, pow_two]
      · simp [h1, pow_two, q2_mul h]
        ring

/-- `exp` (= `exp_vartime`) is the power in the quotient ring -/
theorem q2_exp (h : Spec2 X s t) (a : Quad R) (e : ℕ) :
    q2 s t (Quad.exp (ringBOps R inv) X a e) = q2 s t a ^ e := by
  unfold Quad.exp
  by_cases he : e = 0
  · simp [he, q2_one]
  · simp only [he, if_false]
    by_cases hz : Quad.beq (ringBOps R inv) a (Quad.zero (ringBOps R inv)) = true
    · simp only [hz, if_true]
      rw [(q2_beq inv _ _).mp hz, q2_zero, zero_pow he]
    · simp only [hz, Bool.false_eq_true, if_false]
      rw [q2_expLoop h, q2_one, one_mul]

end Quad

-- ================================================================================================ degree 3
/-- the coefficients of the images of `φ` and `φ²` under the Frobenius map -/
structure FrobK (R : Type) where
  k01 : R
  k11 : R
  k21 : R
  k02 : R
  k12 : R
  k22 : R

/-- the four `ExtensibleField<3>` functions implement `R[x]/(x³ - s·x - t)`, with the linear map given by `k` as
    `frobenius` -/
structure Spec3 (X : Ext3 R) (s t : R) (k : FrobK R) : Prop where
  mul : ∀ a0 a1 a2 b0 b1 b2, X.mul a0 a1 a2 b0 b1 b2 =
    (a0 * b0 + t * (a1 * b2 + a2 * b1),
     a0 * b1 + a1 * b0 + s * (a1 * b2 + a2 * b1) + t * (a2 * b2),
     a0 * b2 + a1 * b1 + a2 * b0 + s * (a2 * b2))
  square : ∀ a0 a1 a2, X.square a0 a1 a2 = X.mul a0 a1 a2 a0 a1 a2
  mulBase : ∀ a0 a1 a2 b, X.mulBase a0 a1 a2 b = (a0 * b, a1 * b, a2 * b)
  frobenius : ∀ x0 x1 x2, X.frobenius x0 x1 x2 =
    (x0 + k.k01 * x1 + k.k02 * x2, k.k11 * x1 + k.k12 * x2, k.k21 * x1 + k.k22 * x2)

namespace PQ3
variable {s t : R}

/-- the `R`-linear map `c0 + c1·φ + c2·φ² ↦ c0 + c1·K1 + c2·K2` given by the Frobenius coefficients -/
def frobK (k : FrobK R) (a : PQ3 R s t) : PQ3 R s t :=
  ⟨a.c0 + k.k01 * a.c1 + k.k02 * a.c2, k.k11 * a.c1 + k.k12 * a.c2, k.k21 * a.c1 + k.k22 * a.c2⟩

theorem frobK_eq (k : FrobK R) (a : PQ3 R s t) :
    frobK k a = C a.c0 + C a.c1 * ⟨k.k01, k.k11, k.k21⟩ + C a.c2 * ⟨k.k02, k.k12, k.k22⟩ := by
  ext <;> simp [frobK] <;> ring

theorem frobK_C (k : FrobK R) (x : R) : frobK k (C x : PQ3 R s t) = C x := by
  ext <;> simp [frobK]

theorem frobK_add (k : FrobK R) (a b : PQ3 R s t) : frobK k (a + b) = frobK k a + frobK k b := by
  ext <;> simp [frobK] <;> ring

theorem frobK_smul (k : FrobK R) (c : R) (a : PQ3 R s t) : frobK k (C c * a) = C c * frobK k a := by
  ext <;> simp [frobK] <;> ring

end PQ3

section Cube
variable [DecidableEq R] {s t : R} {k : FrobK R} {X : Ext3 R} (inv : R → R)

theorem q3_add (a b : Cube R) : q3 s t (Cube.add (ringBOps R inv) a b) = q3 s t a + q3 s t b := rfl
theorem q3_sub (a b : Cube R) : q3 s t (Cube.sub (ringBOps R inv) a b) = q3 s t a - q3 s t b := rfl
theorem q3_neg (a : Cube R) : q3 s t (Cube.neg (ringBOps R inv) a) = -q3 s t a := rfl
theorem q3_double (a : Cube R) : q3 s t (Cube.double (ringBOps R inv) a) = q3 s t a + q3 s t a := by
  ext <;> simp [q3, Cube.double, ringBOps, ringOps, two_mul]
theorem q3_zero : q3 s t (Cube.zero (ringBOps R inv)) = 0 := rfl
theorem q3_one : q3 s t (Cube.one (ringBOps R inv)) = 1 := rfl
theorem q3_ofBase (x : R) : q3 s t (Cube.ofBase (ringBOps R inv) x) = PQ3.C x := rfl

theorem q3_beq (a b : Cube R) : Cube.beq (ringBOps R inv) a b = true ↔ a = b := by
  cases a; cases b
  simp [Cube.beq, ringBOps, and_assoc]

theorem q3_mul (h : Spec3 X s t k) (a b : Cube R) : q3 s t (Cube.mul X a b) = q3 s t a * q3 s t b := by
  ext <;> simp [q3, Cube.mul, Cube.ofTriple, h.mul]

theorem q3_square (h : Spec3 X s t k) (a : Cube R) : Cube.square X a = Cube.mul X a a := by
  simp [Cube.square, Cube.mul, h.square]

theorem q3_mulBase (h : Spec3 X s t k) (a : Cube R) (b : R) :
    q3 s t (Cube.mulBase X a b) = q3 s t a * PQ3.C b := by
  ext <;> simp [q3, Cube.mulBase, Cube.ofTriple, h.mulBase]

theorem q3_conj (h : Spec3 X s t k) (a : Cube R) : q3 s t (Cube.conjugate X a) = PQ3.frobK k (q3 s t a) := by
  ext <;> simp [q3, Cube.conjugate, Cube.ofTriple, h.frobenius, PQ3.frobK]

theorem q3_expLoop (h : Spec3 X s t k) (r b : Cube R) (e : ℕ) :
    q3 s t (Cube.expLoop X r b e) = q3 s t r * q3 s t b ^ e := by
  induction e using Nat.strong_induction_on generalizing r b with
  | _ e ih =>
    rw [Cube.expLoop]
    by_cases he : e = 0
    · simp [he]
    · simp only [he, dite_false]
      rw [ih (e / 2) (by omega), q3_square h, q3_mul h]
      have hd : e = 2 * (e / 2) + e % 2 := (Nat.div_add_mod e 2).symm
      conv_rhs => rw [hd, pow_add, pow_mul]
      rcases Nat.mod_two_eq_zero_or_one e with h0 | h1
      · simp [h0, pow_two]
      · simp [h1, pow_two, q3_mul h]
        ring

theorem q3_exp (h : Spec3 X s t k) (a : Cube R) (e : ℕ) :
    q3 s t (Cube.exp (ringBOps R inv) X a e) = q3 s t a ^ e := by
  unfold Cube.exp
  by_cases he : e = 0
  · simp [he, q3_one]
  · simp only [he, if_false]
    by_cases hz : Cube.beq (ringBOps R inv) a (Cube.zero (ringBOps R inv)) = true
    · simp only [hz, if_true]
      rw [(q3_beq inv _ _).mp hz, q3_zero, zero_pow he]
    · simp only [hz, Bool.false_eq_true, if_false]
      rw [q3_expLoop h, q3_one, one_mul]

end Cube

end WinterProofs.C08L
