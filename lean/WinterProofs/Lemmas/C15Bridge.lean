-- C15, bridge between the executable FRI model (`Model.Fri`, list-based, generic over the record
-- `FOps` of field operations) and Mathlib `Finset` algebra (`WinterProofs.FriAlg`).
--
-- `fieldOps root rootOk offset` instantiates the model's operations with a Mathlib field.  Under this
-- instantiation every list-level function of the model is rewritten as the corresponding `Finset`
-- expression (`pow`, `sumL`, `prodL`, `horner`, `powerSeries`, `scaleSeries`, `dft`, `beqList`,
-- `drpRow`, `lagrangeEval`, `rowPoints`, `interpolateWithOffset`).  The key lemma
-- `lagrangeEval_rowPoints_eq_drpRow` says that the verifier's interpolation of a row equals the
-- prover's `apply_drp` row computation on ARBITRARY row values.
import Winter.Model.Fri
import WinterProofs.Lemmas.C15Algebra

namespace WinterProofs.C15

open Model.Fri Finset

variable {F : Type} [Field F] [DecidableEq F]

/-- the FRI model's operations instantiated with a Mathlib field -/
def fieldOps (root : ℕ → F) (rootOk : ℕ → Bool) (offset : F) : FOps F where
  zero := 0
  one := 1
  add := (· + ·)
  sub := (· - ·)
  mul := (· * ·)
  inv := (·⁻¹)
  beq := fun a b => decide (a = b)
  ofNat := fun n => (n : F)
  root := root
  rootOk := rootOk
  offset := offset

variable (root : ℕ → F) (rootOk : ℕ → Bool) (offset : F)

local notation "ops" => fieldOps root rootOk offset

@[simp] theorem fieldOps_zero : (ops).zero = 0 := rfl
@[simp] theorem fieldOps_one : (ops).one = 1 := rfl
@[simp] theorem fieldOps_add (a b : F) : (ops).add a b = a + b := rfl
@[simp] theorem fieldOps_sub (a b : F) : (ops).sub a b = a - b := rfl
@[simp] theorem fieldOps_mul (a b : F) : (ops).mul a b = a * b := rfl
@[simp] theorem fieldOps_inv (a : F) : (ops).inv a = a⁻¹ := rfl
@[simp] theorem fieldOps_beq (a b : F) : (ops).beq a b = decide (a = b) := rfl
@[simp] theorem fieldOps_ofNat (n : ℕ) : (ops).ofNat n = (n : F) := rfl
@[simp] theorem fieldOps_root (k : ℕ) : (ops).root k = root k := rfl
@[simp] theorem fieldOps_rootOk (k : ℕ) : (ops).rootOk k = rootOk k := rfl
@[simp] theorem fieldOps_offset : (ops).offset = offset := rfl

theorem pow_fieldOps (x : F) (n : ℕ) : pow ops x n = x ^ n := by
  induction n using Nat.strong_induction_on generalizing x with
  | _ n ih =>
    rw [pow]
    split_ifs with h0 h1
    · subst h0; simp
    · rw [ih (n / 2) (by omega)]
      simp only [fieldOps_mul]
      conv_rhs => rw [← Nat.div_add_mod n 2, h1, pow_succ, pow_mul, pow_two]
    · rw [ih (n / 2) (by omega)]
      simp only [fieldOps_mul]
      have h2 : n % 2 = 0 := by omega
      conv_rhs => rw [← Nat.div_add_mod n 2, h2, Nat.add_zero, pow_mul, pow_two]

theorem sumL_fieldOps (l : List F) : sumL ops l = l.sum := by
  induction l with
  | nil => rfl
  | cons a l ih =>
    show a + sumL ops l = _
    rw [ih, List.sum_cons]

theorem prodL_fieldOps (l : List F) : prodL ops l = l.prod := by
  induction l with
  | nil => rfl
  | cons a l ih =>
    show a * prodL ops l = _
    rw [ih, List.prod_cons]

theorem horner_fieldOps (p : List F) (x : F) :
    horner ops p x = ∑ k ∈ range p.length, p.getD k 0 * x ^ k := by
  induction p with
  | nil => rfl
  | cons c p ih =>
    show horner ops p x * x + c = _
    rw [ih, List.length_cons, Finset.sum_range_succ', Finset.sum_mul]
    congr 1
    · refine Finset.sum_congr rfl fun k _ => ?_
      rw [List.getD_cons_succ, pow_succ, mul_assoc]
    · rw [List.getD_cons_zero, pow_zero, mul_one]

theorem powerSeries_fieldOps (b s : F) (n : ℕ) :
    powerSeries ops b s n = (List.range n).map fun i => s * b ^ i := by
  induction n generalizing s with
  | zero => rfl
  | succ n ih =>
    rw [powerSeries, ih, List.range_succ_eq_map, List.map_cons, List.map_map]
    simp only [fieldOps_mul, pow_zero, mul_one, List.cons.injEq, true_and]
    refine List.map_congr_left fun i _ => ?_
    simp only [Function.comp, pow_succ]
    ring

theorem powerSeries_length (b s : F) (n : ℕ) : (powerSeries ops b s n).length = n := by
  rw [powerSeries_fieldOps, List.length_map, List.length_range]

theorem powerSeries_getElem? (b s : F) (n i : ℕ) :
    (powerSeries ops b s n)[i]? = if i < n then some (s * b ^ i) else none := by
  rw [powerSeries_fieldOps, List.getElem?_map]
  by_cases h : i < n
  · rw [List.getElem?_range h, if_pos h, Option.map_some]
  · rw [List.getElem?_eq_none (by rw [List.length_range]; omega), if_neg h, Option.map_none]

theorem powerSeries_getD (b s : F) (n i : ℕ) (h : i < n) :
    (powerSeries ops b s n).getD i 0 = s * b ^ i := by
  rw [List.getD_eq_getElem?_getD, powerSeries_getElem?, if_pos h, Option.getD_some]

theorem scaleSeries_length (d s : F) (cs : List F) :
    (scaleSeries ops d s cs).length = cs.length := by
  induction cs generalizing s with
  | nil => rfl
  | cons c cs ih => rw [scaleSeries, List.length_cons, ih, List.length_cons]

theorem scaleSeries_getD (d s : F) (cs : List F) (k : ℕ) :
    (scaleSeries ops d s cs).getD k 0 = cs.getD k 0 * (s * d ^ k) := by
  induction cs generalizing s k with
  | nil => simp [scaleSeries]
  | cons c cs ih =>
    rw [scaleSeries]
    cases k with
    | zero => simp only [List.getD_cons_zero, fieldOps_mul, pow_zero, mul_one]
    | succ k =>
      rw [List.getD_cons_succ, List.getD_cons_succ, ih]
      simp only [fieldOps_mul, pow_succ]
      ring

omit [DecidableEq F] in
/-- sums over `zipIdx` as `Finset` sums -/
theorem sum_zipIdx_map {β : Type} (d : β) (g : β → ℕ → F) (l : List β) (s : ℕ) :
    ((l.zipIdx s).map fun (v, j) => g v j).sum = ∑ j ∈ range l.length, g (l.getD j d) (j + s) := by
  induction l generalizing s with
  | nil => rfl
  | cons a l ih =>
    rw [List.zipIdx_cons, List.map_cons, List.sum_cons, ih, List.length_cons,
      Finset.sum_range_succ']
    rw [add_comm]
    congr 1
    · refine Finset.sum_congr rfl fun j _ => ?_
      rw [List.getD_cons_succ, Nat.add_right_comm, Nat.add_assoc]
    · rw [List.getD_cons_zero, Nat.zero_add]

theorem dft_fieldOps (w : F) (row : List F) :
    dft ops w row = (List.range row.length).map fun k =>
      ∑ j ∈ range row.length, row.getD j 0 * w ^ (j * k) := by
  unfold dft
  refine List.map_congr_left fun k _ => ?_
  rw [sumL_fieldOps]
  have := sum_zipIdx_map (0 : F) (fun v j => v * w ^ (j * k)) row 0
  simp only [Nat.add_zero] at this
  rw [← this]
  congr 1
  refine List.map_congr_left fun p _ => ?_
  obtain ⟨v, j⟩ := p
  show v * pow ops w (j * k) = _
  rw [pow_fieldOps]

theorem dft_length (w : F) (row : List F) : (dft ops w row).length = row.length := by
  rw [dft_fieldOps, List.length_map, List.length_range]

theorem dft_getD (w : F) (row : List F) (k : ℕ) (hk : k < row.length) :
    (dft ops w row).getD k 0 = ∑ j ∈ range row.length, row.getD j 0 * w ^ (j * k) := by
  rw [dft_fieldOps, List.getD_eq_getElem?_getD, List.getElem?_map, List.getElem?_range hk,
    Option.map_some, Option.getD_some]

theorem beqList_fieldOps (a b : List F) : beqList ops a b = true ↔ a = b := by
  induction a generalizing b with
  | nil =>
    cases b with
    | nil => simp [beqList]
    | cons y ys => simp [beqList]
  | cons x xs ih =>
    cases b with
    | nil => simp [beqList]
    | cons y ys =>
      rw [beqList, Bool.and_eq_true, ih, fieldOps_beq, decide_eq_true_eq, List.cons.injEq]


/-! ### the prover's row computation -/

theorem drpRow_fieldOps (N : ℕ) (row : List F) (hlen : row.length = N) (w lenInv α invX : F) :
    drpRow ops w lenInv α row invX
      = ∑ k ∈ range N, ((∑ j ∈ range N, row.getD j 0 * w ^ (j * k)) * (lenInv * invX ^ k)) * α ^ k := by
  unfold drpRow
  rw [horner_fieldOps, scaleSeries_length, dft_length, hlen]
  refine Finset.sum_congr rfl fun k hk => ?_
  rw [scaleSeries_getD, dft_getD _ _ _ _ _ _ (by rw [hlen]; exact Finset.mem_range.mp hk), hlen]

theorem drpRow_eq_drp (N : ℕ) (ζ x α : F) (row : List F) (hlen : row.length = N) :
    drpRow ops ζ⁻¹ ((N : F))⁻¹ α row x⁻¹ = FriAlg.drp N ζ x α (fun j => row.getD j 0) := by
  rw [drpRow_fieldOps root rootOk offset N row hlen]
  unfold FriAlg.drp
  refine Finset.sum_congr rfl fun k _ => ?_
  ring

/-! ### the verifier's row interpolation -/

omit [DecidableEq F] in
theorem prod_map_eq_prod_range (h : F → F) (xs : List F) :
    (xs.map h).prod = ∏ k ∈ range xs.length, h (xs.getD k 0) := by
  induction xs with
  | nil => rfl
  | cons x xs ih =>
    rw [List.map_cons, List.prod_cons, ih, List.length_cons, Finset.prod_range_succ', mul_comm]
    rfl

omit [DecidableEq F] in
theorem prod_eraseIdx_map_ite (h : F → F) (xs : List F) (j : ℕ) :
    ((xs.eraseIdx j).map h).prod
      = ∏ k ∈ range xs.length, if k = j then 1 else h (xs.getD k 0) := by
  induction xs generalizing j with
  | nil => rfl
  | cons x xs ih =>
    cases j with
    | zero =>
      rw [List.eraseIdx_cons_zero, prod_map_eq_prod_range, List.length_cons,
        Finset.prod_range_succ', if_pos rfl, mul_one]
      refine Finset.prod_congr rfl fun k _ => ?_
      rw [if_neg (Nat.succ_ne_zero k), List.getD_cons_succ]
    | succ j =>
      rw [List.eraseIdx_cons_succ, List.map_cons, List.prod_cons, ih, List.length_cons,
        Finset.prod_range_succ', if_neg (Nat.succ_ne_zero j).symm, List.getD_cons_zero, mul_comm]
      congr 1
      refine Finset.prod_congr rfl fun k _ => ?_
      simp only [Nat.add_right_cancel_iff, List.getD_cons_succ]

omit [DecidableEq F] in
theorem prod_erase_eq_prod_ite (s : Finset ℕ) (j : ℕ) (f : ℕ → F) :
    ∏ k ∈ s.erase j, f k = ∏ k ∈ s, if k = j then 1 else f k := by
  rw [← Finset.prod_erase s (f := fun k => if k = j then 1 else f k) (a := j) (if_pos rfl)]
  refine Finset.prod_congr rfl fun k hk => ?_
  rw [if_neg (Finset.ne_of_mem_erase hk)]

omit [DecidableEq F] in
theorem prod_eraseIdx_map (h : F → F) (xs : List F) (j : ℕ) :
    ((xs.eraseIdx j).map h).prod = ∏ k ∈ (range xs.length).erase j, h (xs.getD k 0) := by
  rw [prod_eraseIdx_map_ite, prod_erase_eq_prod_ite]

theorem lagrangeEval_fieldOps (xs ys : List F) (h : xs.length = ys.length) (a : F) :
    lagrangeEval ops xs ys a
      = ∑ j ∈ range xs.length, ys.getD j 0 *
          ((∏ k ∈ (range xs.length).erase j, (a - xs.getD k 0)) *
            (∏ k ∈ (range xs.length).erase j, (xs.getD j 0 - xs.getD k 0))⁻¹) := by
  unfold lagrangeEval
  rw [sumL_fieldOps]
  have hsum := sum_zipIdx_map ((0 : F), (0 : F))
    (fun p j => p.2 * (((xs.eraseIdx j).map fun xk => a - xk).prod *
      (((xs.eraseIdx j).map fun xk => p.1 - xk).prod)⁻¹)) (xs.zip ys) 0
  simp only [Nat.add_zero] at hsum
  have hl : (xs.zip ys).length = xs.length := by
    rw [List.length_zip, ← h, Nat.min_self]
  rw [hl] at hsum
  trans
  · refine Eq.trans ?_ hsum
    refine congrArg List.sum ?_
    refine List.map_congr_left fun p _ => ?_
    obtain ⟨⟨xj, yj⟩, j⟩ := p
    show yj * (prodL ops _ * (prodL ops _)⁻¹) = _
    rw [prodL_fieldOps, prodL_fieldOps]
    rfl
  · refine Finset.sum_congr rfl fun j hj => ?_
    have hj1 : j < xs.length := Finset.mem_range.mp hj
    have hj2 : j < ys.length := h ▸ hj1
    have hz : (xs.zip ys).getD j (0, 0) = (xs.getD j 0, ys.getD j 0) := by
      rw [List.getD_eq_getElem?_getD, List.getD_eq_getElem?_getD, List.getD_eq_getElem?_getD,
        (List.getElem?_zip_eq_some (z := (xs[j], ys[j]))).mpr ⟨List.getElem?_eq_getElem hj1, List.getElem?_eq_getElem hj2⟩,
        List.getElem?_eq_getElem hj1, List.getElem?_eq_getElem hj2]
      rfl
    rw [hz, prod_eraseIdx_map, prod_eraseIdx_map]

theorem lagrangeEval_eq_interpolate (xs ys : List F) (h : xs.length = ys.length) (a : F) :
    lagrangeEval ops xs ys a
      = (Lagrange.interpolate (range xs.length) (fun j => xs.getD j 0)
          (fun j => ys.getD j 0)).eval a := by
  rw [lagrangeEval_fieldOps root rootOk offset xs ys h, FriAlg.lagrange_eval_formula']

theorem rowPoints_fieldOps (roots : List F) (dg : F) (i : ℕ) :
    rowPoints ops roots dg i = roots.map fun r => dg ^ i * offset * r := by
  unfold rowPoints
  simp only [fieldOps_mul, fieldOps_offset, pow_fieldOps]


/-! ### the key lemma: verifier's interpolation = prover's folding, on arbitrary row values -/

omit [DecidableEq F] in
theorem getD_map_range (f : ℕ → F) (n j : ℕ) (hj : j < n) :
    ((List.range n).map f).getD j 0 = f j := by
  rw [List.getD_eq_getElem?_getD, List.getElem?_map, List.getElem?_range hj, Option.map_some,
    Option.getD_some]

omit [DecidableEq F] in
theorem getD_eq_zero_of_le (l : List F) (k : ℕ) (hk : l.length ≤ k) : l.getD k 0 = 0 := by
  rw [List.getD_eq_getElem?_getD, List.getElem?_eq_none hk, Option.getD_none]

theorem lagrangeEval_rowPoints_eq_drpRow (N : ℕ) (hN : 0 < N) (ζ : F) (hζ : IsPrimitiveRoot ζ N)
    (dg : F) (i : ℕ) (hx : dg ^ i * offset ≠ 0) (row : List F) (hlen : row.length = N) (α : F) :
    lagrangeEval ops (rowPoints ops ((List.range N).map fun j => ζ ^ j) dg i) row α
      = drpRow ops ζ⁻¹ ((N : F))⁻¹ α row (dg ^ i * offset)⁻¹ := by
  rw [drpRow_eq_drp root rootOk offset N ζ (dg ^ i * offset) α row hlen,
    FriAlg.drp_eq_lagrange hN hζ hx, FriAlg.lagrange_eval_formula', rowPoints_fieldOps,
    List.map_map]
  have hxl : ((List.range N).map ((fun r => dg ^ i * offset * r) ∘ fun j => ζ ^ j)).length = N := by
    rw [List.length_map, List.length_range]
  have hget : ∀ k ∈ range N,
      ((List.range N).map ((fun r => dg ^ i * offset * r) ∘ fun j => ζ ^ j)).getD k 0
        = dg ^ i * offset * ζ ^ k := fun k hk =>
    getD_map_range _ N k (Finset.mem_range.mp hk)
  rw [lagrangeEval_fieldOps root rootOk offset _ row (by rw [hxl, hlen]), hxl]
  refine Finset.sum_congr rfl fun j hj => ?_
  rw [hget j hj]
  congr 2
  · refine Finset.prod_congr rfl fun k hk => ?_
    rw [hget k (Finset.mem_of_mem_erase hk)]
  · congr 1
    refine Finset.prod_congr rfl fun k hk => ?_
    rw [hget k (Finset.mem_of_mem_erase hk)]

/-! ### interpolation of a whole layer (the remainder) -/

theorem interpolateWithOffset_length (evals : List F) :
    (interpolateWithOffset ops evals).length = evals.length := by
  unfold interpolateWithOffset
  rw [scaleSeries_length, dft_length]

theorem interpolateWithOffset_getD (evals : List F) (k : ℕ) (hk : k < evals.length) :
    (interpolateWithOffset ops evals).getD k 0
      = ((evals.length : F))⁻¹ * (offset⁻¹) ^ k *
          ∑ j ∈ range evals.length, evals.getD j 0 * ((root (Nat.log2 evals.length))⁻¹) ^ (j * k) := by
  unfold interpolateWithOffset
  simp only [fieldOps_inv, fieldOps_offset, fieldOps_ofNat, fieldOps_root]
  rw [scaleSeries_getD, dft_getD _ _ _ _ _ _ hk, mul_comm]

theorem interpolateWithOffset_eval (evals : List F) (hn : 0 < evals.length)
    (hg : IsPrimitiveRoot (root (Nat.log2 evals.length)) evals.length) (hoff : offset ≠ 0)
    (i : ℕ) (hi : i < evals.length) :
    horner ops (interpolateWithOffset ops evals) (offset * (root (Nat.log2 evals.length)) ^ i)
      = evals.getD i 0 := by
  rw [horner_fieldOps, interpolateWithOffset_length]
  rw [← FriAlg.idft_interp hn hg hoff (fun j => evals.getD j 0) hi]
  refine Finset.sum_congr rfl fun k hk => ?_
  rw [interpolateWithOffset_getD _ _ _ _ _ (Finset.mem_range.mp hk)]

open Polynomial in
omit [DecidableEq F] in
/-- a polynomial of degree `< n` has constant slices -/
theorem eval_slice_of_natDegree_lt {n : ℕ} (hn : 0 < n) {k : ℕ} (hk : k < n) (f : F[X])
    (hf : f.natDegree < n) (z : F) : (FriAlg.slice n k f).eval z = f.coeff k := by
  have hs : FriAlg.slice n k f = C (f.coeff k) := by
    ext m
    rw [FriAlg.coeff_slice hn hk, coeff_C]
    cases m with
    | zero => rw [if_pos rfl, Nat.mul_zero, Nat.zero_add]
    | succ m =>
      rw [if_neg (Nat.succ_ne_zero m)]
      refine coeff_eq_zero_of_natDegree_lt (lt_of_lt_of_le hf ?_)
      calc n = n * 1 := (Nat.mul_one n).symm
        _ ≤ n * (m + 1) := Nat.mul_le_mul_left n (Nat.succ_le_succ (Nat.zero_le m))
        _ ≤ n * (m + 1) + k := Nat.le_add_right _ _
  rw [hs, eval_C]

open Polynomial in
theorem interpolateWithOffset_coeff (n : ℕ) (hn : 0 < n)
    (hg : IsPrimitiveRoot (root (Nat.log2 n)) n) (hoff : offset ≠ 0) (f : F[X])
    (hf : f.natDegree < n) (evals : List F)
    (hev : evals = (List.range n).map fun j => f.eval (offset * root (Nat.log2 n) ^ j)) (k : ℕ) :
    (interpolateWithOffset ops evals).getD k 0 = f.coeff k := by
  have hlen : evals.length = n := by rw [hev, List.length_map, List.length_range]
  by_cases hk : k < n
  · rw [interpolateWithOffset_getD _ _ _ _ _ (by rw [hlen]; exact hk), hlen,
      ← eval_slice_of_natDegree_lt hn hk f hf (offset ^ n), ← FriAlg.interp_coeff hn hg hoff f hk]
    congr 1
    refine Finset.sum_congr rfl fun j hj => ?_
    rw [hev, getD_map_range _ n j (Finset.mem_range.mp hj)]
  · rw [getD_eq_zero_of_le _ _ (by rw [interpolateWithOffset_length, hlen]; omega),
      coeff_eq_zero_of_natDegree_lt (by omega)]

/-! ### examples: the hypotheses of the key lemma are satisfiable -/

example (rt : ℕ → ℚ) (ok : ℕ → Bool) (i : ℕ) (a b α : ℚ) :
    lagrangeEval (fieldOps rt ok 3)
        (rowPoints (fieldOps rt ok 3) ((List.range 2).map fun j => (-1 : ℚ) ^ j) 2 i) [a, b] α
      = drpRow (fieldOps rt ok 3) (-1 : ℚ)⁻¹ ((2 : ℕ) : ℚ)⁻¹ α [a, b] (2 ^ i * 3)⁻¹ :=
  lagrangeEval_rowPoints_eq_drpRow rt ok 3 2 (by norm_num) (-1)
    FriAlg.isPrimitiveRoot_neg_one_rat 2 i
    (mul_ne_zero (pow_ne_zero _ (by norm_num)) (by norm_num)) [a, b] rfl α

/-- the folded value for `N = 2`, `ζ = -1`: `(a + b)/2 + α·(a - b)/(2x)` -/
example (rt : ℕ → ℚ) (ok : ℕ → Bool) (x a b α : ℚ) :
    drpRow (fieldOps rt ok 3) (-1 : ℚ)⁻¹ ((2 : ℕ) : ℚ)⁻¹ α [a, b] x⁻¹
      = (a + b) / 2 + α * ((a - b) / (2 * x)) := by
  rw [drpRow_fieldOps rt ok 3 2 [a, b] rfl]
  simp only [Finset.sum_range_succ, Finset.sum_range_zero, zero_add, pow_zero, mul_one,
    Nat.zero_mul, pow_one, Nat.cast_ofNat, List.getD_cons_zero,
    List.getD_cons_succ, Nat.one_mul]
  rw [show ((-1 : ℚ))⁻¹ = -1 by norm_num]
  ring

/-- the hypotheses of `interpolateWithOffset_eval` on a layer of two values -/
example (ok : ℕ → Bool) (a b : ℚ) (i : ℕ) (hi : i < 2) :
    horner (fieldOps (fun _ => (-1 : ℚ)) ok 3)
        (interpolateWithOffset (fieldOps (fun _ => (-1 : ℚ)) ok 3) [a, b]) (3 * (-1) ^ i)
      = [a, b].getD i 0 :=
  interpolateWithOffset_eval (fun _ => (-1 : ℚ)) ok 3 [a, b] (by norm_num)
    FriAlg.isPrimitiveRoot_neg_one_rat (by norm_num) i hi

end WinterProofs.C15
