-- C11 helper lemmas: the sponge of the model on raw words denotes the reference sponge on residues
-- (absorb into the rate by addition, permute when the rate is full, pad, squeeze), for any instance
-- whose field and permutation have a residue-level meaning (`PermSem`).
import Winter.Model.Rescue
import WinterProofs.Lemmas.C11Sem
set_option linter.unusedVariables false
set_option linter.unusedSimpArgs false

namespace WinterProofs.C11.SpongeSem
open Model Model.Rescue WinterProofs.C11.Sem

variable {P : Params} {p : Nat} (Q : PermSem P p)

/-! ### the reference sponge over `ZMod p`, parameterised like the model -/

/-- `state[k] += x` on residues -/
def refAddAt (v : List (ZMod p)) (k : Nat) (x : ZMod p) : List (ZMod p) := v.modify k (fun s => s + x)

def refZero (P : Params) (p : Nat) : List (ZMod p) := List.replicate P.width 0

/-- initial state: the element count (or, for the Jive instance, the "not a multiple of the rate"
    flag) in one capacity element -/
def refInit (P : Params) (p : Nat) (n : Nat) : List (ZMod p) :=
  if P.jive then
    if n % P.rateWidth ≠ 0 then (refZero P p).set P.capIdx 1 else refZero P p
  else (refZero P p).set P.capIdx (n : ZMod p)

def refAbsorbOne (vi : List (ZMod p) × Nat) (x : ZMod p) : List (ZMod p) × Nat :=
  let v := refAddAt vi.1 (P.rateStart + vi.2) x
  let i := vi.2 + 1
  if i % P.rateWidth = 0 then (Q.refPerm v, 0) else (v, i)

def refPadRate (P : Params) (v : List (ZMod p)) (i : Nat) : List (ZMod p) :=
  let v := v.set (P.rateStart + i) 1
  (List.range (P.rateWidth - (i + 1))).foldl (fun v k => v.set (P.rateStart + i + 1 + k) 0) v

def refFinish (vi : List (ZMod p) × Nat) : List (ZMod p) :=
  if vi.2 > 0 then
    if P.jive then Q.refPerm (refPadRate P vi.1 vi.2) else Q.refPerm vi.1
  else vi.1

def refDigest (P : Params) (v : List (ZMod p)) : List (ZMod p) := (v.drop P.digestStart).take 4

/-- the reference `hash_elements` -/
def refHashElements (xs : List (ZMod p)) : List (ZMod p) :=
  refDigest P (refFinish Q (xs.foldl (refAbsorbOne Q) (refInit P p xs.length, 0)))

/-! ### list lemmas -/

theorem modify_sem (S : FieldSem P.F p) (e : Nat) (he : S.Inv e) : ∀ (st : List Nat) (k : Nat), AllInv S st →
    AllInv S (st.modify k (fun s => P.F.add s e)) ∧
    (st.modify k (fun s => P.F.add s e)).map S.val = (st.map S.val).modify k (fun s => s + S.val e)
  | [], k, _ => by simp [AllInv.nil]
  | a :: st, 0, h => by
    obtain ⟨i1, v1⟩ := S.add_ok a e (AllInv.head S h) he
    refine ⟨AllInv.cons S i1 (AllInv.tail S h), ?_⟩
    simp only [List.modify_zero_cons, List.map_cons, v1]
  | a :: st, k + 1, h => by
    obtain ⟨i2, v2⟩ := modify_sem S e he st k (AllInv.tail S h)
    refine ⟨AllInv.cons S (AllInv.head S h) i2, ?_⟩
    simp only [List.modify_succ_cons, List.map_cons, v2]

theorem set_sem (S : FieldSem P.F p) (a : Nat) (ha : S.Inv a) (st : List Nat) (k : Nat) (h : AllInv S st) :
    AllInv S (st.set k a) ∧ (st.set k a).map S.val = (st.map S.val).set k (S.val a) := by
  refine ⟨?_, List.map_set⟩
  intro e he
  rcases List.mem_or_eq_of_mem_set he with h1 | h1
  · exact h e h1
  · rw [h1]; exact ha

theorem replicate_sem (S : FieldSem P.F p) (a : Nat) (ha : S.Inv a) (n : Nat) :
    AllInv S (List.replicate n a) ∧ (List.replicate n a).map S.val = List.replicate n (S.val a) := by
  refine ⟨fun e he => ?_, List.map_replicate⟩
  rw [List.eq_of_mem_replicate he]; exact ha

theorem new0 (S : FieldSem P.F p) : S.Inv (P.F.new 0) ∧ S.val (P.F.new 0) = 0 := by
  obtain ⟨i, v⟩ := S.new_ok 0 (by decide)
  exact ⟨i, by rw [v]; simp⟩

theorem new1 (S : FieldSem P.F p) : S.Inv (P.F.new 1) ∧ S.val (P.F.new 1) = 1 := by
  obtain ⟨i, v⟩ := S.new_ok 1 (by decide)
  exact ⟨i, by rw [v]; simp⟩

/-! ### the pieces of the sponge -/

theorem zero_sem : AllInv Q.S (zeroState P) ∧ (zeroState P).map Q.S.val = refZero P p ∧ (zeroState P).length = P.width := by
  obtain ⟨i0, v0⟩ := new0 Q.S
  obtain ⟨i, v⟩ := replicate_sem Q.S (P.F.new 0) i0 P.width
  refine ⟨i, ?_, List.length_replicate⟩
  rw [zeroState, v, v0, refZero]

theorem init_sem (n : Nat) (hn : n < 18446744073709551616) :
    AllInv Q.S (initState P n) ∧ (initState P n).map Q.S.val = refInit P p n ∧ (initState P n).length = P.width := by
  obtain ⟨iz, vz, lz⟩ := zero_sem Q
  obtain ⟨i1, v1⟩ := new1 Q.S
  obtain ⟨inn, vn⟩ := Q.S.new_ok n hn
  unfold initState refInit
  by_cases hj : P.jive = true
  · simp only [hj, if_true]
    by_cases hm : n % P.rateWidth ≠ 0
    · rw [if_pos hm, if_pos hm]
      obtain ⟨i, v⟩ := set_sem Q.S _ i1 (zeroState P) P.capIdx iz
      exact ⟨i, by rw [v, vz, v1], by rw [List.length_set, lz]⟩
    · rw [if_neg hm, if_neg hm]
      exact ⟨iz, vz, lz⟩
  · simp only [hj, Bool.false_eq_true, if_false]
    obtain ⟨i, v⟩ := set_sem Q.S _ inn (zeroState P) P.capIdx iz
    exact ⟨i, by rw [v, vz, vn], by rw [List.length_set, lz]⟩

/-- well-formed sponge state -/
def WF (st : List Nat) : Prop := st.length = P.width ∧ AllInv Q.S st

theorem absorbOne_sem (si : State × Nat) (e : Nat) (hw : WF Q si.1) (he : Q.S.Inv e) :
    WF Q (absorbOne P si e).1 ∧
    ((absorbOne P si e).1.map Q.S.val, (absorbOne P si e).2) = refAbsorbOne Q (si.1.map Q.S.val, si.2) (Q.S.val e) := by
  obtain ⟨im, vm⟩ := modify_sem Q.S e he si.1 (P.rateStart + si.2) hw.2
  have lm : (si.1.modify (P.rateStart + si.2) (fun s => P.F.add s e)).length = P.width := by
    rw [List.length_modify]; exact hw.1
  unfold absorbOne refAbsorbOne addAt refAddAt
  by_cases hfull : (si.2 + 1) % P.rateWidth = 0
  · simp only [hfull, if_true]
    obtain ⟨lp, ip, vp⟩ := Q.perm_ok _ lm im
    exact ⟨⟨lp, ip⟩, by rw [vp, vm]⟩
  · simp only [hfull, if_false]
    exact ⟨⟨lm, im⟩, by rw [vm]⟩

theorem absorb_sem : ∀ (es : List Nat) (si : State × Nat), WF Q si.1 → AllInv Q.S es →
    WF Q (es.foldl (absorbOne P) si).1 ∧
    ((es.foldl (absorbOne P) si).1.map Q.S.val, (es.foldl (absorbOne P) si).2)
      = (es.map Q.S.val).foldl (refAbsorbOne Q) (si.1.map Q.S.val, si.2)
  | [], si, hw, _ => ⟨hw, rfl⟩
  | e :: es, si, hw, he => by
    obtain ⟨w1, v1⟩ := absorbOne_sem Q si e hw (AllInv.head Q.S he)
    obtain ⟨w2, v2⟩ := absorb_sem es (absorbOne P si e) w1 (AllInv.tail Q.S he)
    refine ⟨w2, ?_⟩
    rw [List.foldl_cons, v2, List.map_cons, List.foldl_cons, v1]

theorem padFold_sem : ∀ (ks : List Nat) (st : List Nat) (base : Nat), WF Q st →
    WF Q (ks.foldl (fun st k => st.set (base + k) (P.F.new 0)) st) ∧
    (ks.foldl (fun st k => st.set (base + k) (P.F.new 0)) st).map Q.S.val
      = ks.foldl (fun v k => v.set (base + k) 0) (st.map Q.S.val)
  | [], st, _, hw => ⟨hw, rfl⟩
  | k :: ks, st, base, hw => by
    obtain ⟨i0, v0⟩ := new0 Q.S
    obtain ⟨i1, v1⟩ := set_sem Q.S _ i0 st (base + k) hw.2
    obtain ⟨w2, v2⟩ := padFold_sem ks (st.set (base + k) (P.F.new 0)) base ⟨by rw [List.length_set]; exact hw.1, i1⟩
    refine ⟨w2, ?_⟩
    rw [List.foldl_cons, v2, v1, v0, List.foldl_cons]

theorem padRate_sem (st : List Nat) (i : Nat) (hw : WF Q st) :
    WF Q (padRate P st i) ∧ (padRate P st i).map Q.S.val = refPadRate P (st.map Q.S.val) i := by
  obtain ⟨i1, v1⟩ := new1 Q.S
  obtain ⟨is, vs⟩ := set_sem Q.S _ i1 st (P.rateStart + i) hw.2
  obtain ⟨w2, v2⟩ := padFold_sem Q (List.range (P.rateWidth - (i + 1))) (st.set (P.rateStart + i) (P.F.new 1))
    (P.rateStart + i + 1) ⟨by rw [List.length_set]; exact hw.1, is⟩
  unfold padRate refPadRate
  exact ⟨w2, by rw [v2, vs, v1]⟩

theorem finish_sem (si : State × Nat) (hw : WF Q si.1) :
    WF Q (finish P si) ∧ (finish P si).map Q.S.val = refFinish Q (si.1.map Q.S.val, si.2) := by
  unfold finish refFinish
  by_cases hi : si.2 > 0
  · simp only [hi, if_true]
    by_cases hj : P.jive = true
    · simp only [hj, if_true]
      obtain ⟨wp, vp⟩ := padRate_sem Q si.1 si.2 hw
      obtain ⟨l, i, v⟩ := Q.perm_ok _ wp.1 wp.2
      exact ⟨⟨l, i⟩, by rw [v, vp]⟩
    · simp only [hj, Bool.false_eq_true, if_false]
      obtain ⟨l, i, v⟩ := Q.perm_ok _ hw.1 hw.2
      exact ⟨⟨l, i⟩, v⟩
  · simp only [hi, if_false]
    exact ⟨hw, trivial⟩

theorem digest_sem (st : List Nat) (h : AllInv Q.S st) :
    AllInv Q.S (digestOf P st) ∧ (digestOf P st).map Q.S.val = refDigest P (st.map Q.S.val) := by
  unfold digestOf refDigest
  refine ⟨fun e he => h e (List.mem_of_mem_drop (List.mem_of_mem_take he)), ?_⟩
  rw [List.map_take, List.map_drop]

/-- `hash_elements` on valid raw words denotes the reference sponge on their residues -/
theorem hashElements_sem (es : List Nat) (he : AllInv Q.S es) (hlen : es.length < 18446744073709551616) :
    AllInv Q.S (hashElements P es) ∧
    (hashElements P es).map Q.S.val = refHashElements Q (es.map Q.S.val) := by
  obtain ⟨ii, vi, li⟩ := init_sem Q es.length hlen
  obtain ⟨wa, va⟩ := absorb_sem Q es (initState P es.length, 0) ⟨li, ii⟩ he
  obtain ⟨wf, vf⟩ := finish_sem Q _ wa
  obtain ⟨id, vd⟩ := digest_sem Q _ wf.2
  unfold hashElements refHashElements
  refine ⟨id, ?_⟩
  rw [vd, vf, va, List.length_map, vi]

end WinterProofs.C11.SpongeSem
