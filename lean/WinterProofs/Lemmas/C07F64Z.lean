-- C07 helper lemmas, 64-bit field: the raw-word operations implement arithmetic in `ZMod M`
-- through the abstraction `val r = r · (2^64)⁻¹`.
import WinterProofs.Lemmas.C07F64
import WinterProofs.Lemmas.Primes
import Winter.Model.Field
import Mathlib.Data.ZMod.Basic
import Mathlib.FieldTheory.Finite.Basic
import Mathlib.Tactic.LinearCombination

namespace WinterProofs.F64Z
open Gen.F64 WinterProofs.F64L

/-- the modulus as a literal (definitionally `Gen.F64.M`, which is regenerated from the source) -/
abbrev P : Nat := 18446744069414584321

theorem M_eq : M = P := rfl

instance : Fact (Nat.Prime P) := ⟨WinterProofs.Primes.prime_M64⟩

/-- `R = 2^64` and its inverse modulo `P` (which is `R2`, because `R^3 = 1`) -/
def R : Nat := 18446744073709551616
def Rinv : Nat := 18446744065119617025

theorem R_def : R = 18446744073709551616 := rfl

theorem R_Rinv : ((R : ZMod P)) * (Rinv : ZMod P) = 1 := by
  have h : (R * Rinv) % P = 1 % P := by decide
  have := (ZMod.natCast_eq_natCast_iff' (R * Rinv) 1 P).2 h
  simpa using this

theorem R2_eq : ((R2 : Nat) : ZMod P) = (R : ZMod P) * (R : ZMod P) := by
  have h : R2 % P = (R * R) % P := by decide
  have := (ZMod.natCast_eq_natCast_iff' R2 (R * R) P).2 h
  simpa using this

/-- representation invariant of raw words -/
def Inv (r : Nat) : Prop := r < M

/-- the residue denoted by a raw word -/
noncomputable def val (r : Nat) : ZMod P := (r : ZMod P) * (Rinv : ZMod P)

theorem cast_P : ((18446744069414584321 : Nat) : ZMod P) = 0 := ZMod.natCast_self P

theorem cast_PR : ((340282366841710300967557013911933812736 : Nat) : ZMod P) = 0 := by
  have : (340282366841710300967557013911933812736 : Nat) = P * R := by decide
  rw [this, Nat.cast_mul, ZMod.natCast_self, zero_mul]

/-- casting a Montgomery witness equation into `ZMod P` -/
theorem cast_mont {r q x c : Nat}
    (h : r * 18446744073709551616 + q * 18446744069414584321
      = x + c * 340282366841710300967557013911933812736) :
    (r : ZMod P) * (R : ZMod P) = (x : ZMod P) := by
  have h' := congrArg (Nat.cast : Nat → ZMod P) h
  simp only [Nat.cast_add, Nat.cast_mul, cast_P, cast_PR, mul_zero, add_zero] at h'
  rw [R_def]
  exact h'

theorem val_eq_of_mul_R {r : Nat} {x : ZMod P} (h : (r : ZMod P) * (R : ZMod P) = x) :
    (r : ZMod P) = x * (Rinv : ZMod P) := by
  have hR := R_Rinv
  linear_combination (Rinv : ZMod P) * h - (r : ZMod P) * hR

theorem val_injective {a b : Nat} (ha : Inv a) (hb : Inv b) (h : val a = val b) : a = b := by
  unfold val at h
  have h2 : (a : ZMod P) = (b : ZMod P) := by
    have hR := R_Rinv
    linear_combination (R : ZMod P) * h - ((a : ZMod P) - (b : ZMod P)) * hR
  have h3 := (ZMod.natCast_eq_natCast_iff' a b P).1 h2
  unfold Inv at ha hb
  rw [M_eq] at ha hb
  rwa [Nat.mod_eq_of_lt ha, Nat.mod_eq_of_lt hb] at h3

theorem val_zero : val 0 = 0 := by simp [val]

/-! ### the operations -/

theorem mul_inv (a b : Nat) (ha : Inv a) (hb : Inv b) : Inv (mul a b) :=
  (mul_spec a b ha hb).1

theorem val_mul (a b : Nat) (ha : Inv a) (hb : Inv b) : val (mul a b) = val a * val b := by
  obtain ⟨_, q, c, h⟩ := mul_spec a b ha hb
  have h1 := cast_mont h
  have h2 := val_eq_of_mul_R h1
  unfold val
  rw [h2]
  push_cast
  ring

theorem new_inv (v : Nat) (hv : v < 2 ^ 64) : Inv (new v) := (new_spec v hv).1

theorem val_new (v : Nat) (hv : v < 2 ^ 64) : val (new v) = (v : ZMod P) := by
  obtain ⟨_, q, c, h⟩ := new_spec v hv
  have e : v * 18446744065119617025 = v * R2 := rfl
  rw [e] at h
  have h1 := cast_mont h
  have h2 := val_eq_of_mul_R h1
  have hR := R_Rinv
  unfold val
  rw [h2, Nat.cast_mul, R2_eq]
  linear_combination ((v : ZMod P) * ((R : ZMod P) * (Rinv : ZMod P) + 1)) * hR

theorem add_inv (a b : Nat) (ha : Inv a) (hb : Inv b) : Inv (add a b) := (add_spec a b ha hb).1

theorem cast_add (a b : Nat) (ha : Inv a) (hb : Inv b) :
    ((add a b : Nat) : ZMod P) = (a : ZMod P) + (b : ZMod P) := by
  rcases (add_spec a b ha hb).2 with h | h
  · rw [h, Nat.cast_add]
  · have h' := congrArg (Nat.cast : Nat → ZMod P) h
    simp only [Nat.cast_add, cast_P, add_zero] at h'
    exact h'

theorem val_add (a b : Nat) (ha : Inv a) (hb : Inv b) : val (add a b) = val a + val b := by
  unfold val; rw [cast_add a b ha hb]; ring

theorem sub_inv (a b : Nat) (ha : Inv a) (hb : Inv b) : Inv (sub a b) := (sub_spec a b ha hb).1

theorem cast_sub (a b : Nat) (ha : Inv a) (hb : Inv b) :
    ((sub a b : Nat) : ZMod P) = (a : ZMod P) - (b : ZMod P) := by
  rcases (sub_spec a b ha hb).2 with h | h
  · have h' := congrArg (Nat.cast : Nat → ZMod P) h
    simp only [Nat.cast_add] at h'
    linear_combination h'
  · have h' := congrArg (Nat.cast : Nat → ZMod P) h
    simp only [Nat.cast_add, cast_P, add_zero] at h'
    linear_combination h'

theorem val_sub (a b : Nat) (ha : Inv a) (hb : Inv b) : val (sub a b) = val a - val b := by
  unfold val; rw [cast_sub a b ha hb]; ring

theorem zero_inv : Inv 0 := by unfold Inv; decide

theorem neg_inv (a : Nat) (ha : Inv a) : Inv (neg a) := (neg_spec a ha).1

theorem val_neg (a : Nat) (ha : Inv a) : val (neg a) = - val a := by
  have : neg a = sub (new 0) a := rfl
  rw [this, new_zero, val_sub 0 a zero_inv ha, val_zero, zero_sub]

theorem double_inv (a : Nat) (ha : Inv a) : Inv (double a) := (double_spec a ha).1

theorem val_double (a : Nat) (ha : Inv a) : val (double a) = 2 * val a := by
  have hc : ((double a : Nat) : ZMod P) = (a : ZMod P) + (a : ZMod P) := by
    rcases (double_spec a ha).2 with h | h
    · rw [h, Nat.cast_add]
    · have h' := congrArg (Nat.cast : Nat → ZMod P) h
      simp only [Nat.cast_add, cast_P, add_zero] at h'
      exact h'
  unfold val; rw [hc]; ring

theorem mul_small_inv (a k : Nat) (ha : Inv a) (hk : k < 2 ^ 32) : Inv (mul_small a k) :=
  (mul_small_spec a k (lt_trans ha (by decide)) hk).1

theorem val_mul_small (a k : Nat) (ha : Inv a) (hk : k < 2 ^ 32) :
    val (mul_small a k) = val a * (k : ZMod P) := by
  obtain ⟨_, q, h⟩ := mul_small_spec a k (lt_trans ha (by decide)) hk
  have h' := congrArg (Nat.cast : Nat → ZMod P) h
  simp only [Nat.cast_add, Nat.cast_mul, cast_P, mul_zero, add_zero] at h'
  unfold val; rw [h']; ring

/-- `as_int` returns the canonical representative of the residue -/
theorem as_int_lt (a : Nat) (ha : a < 2 ^ 64) : as_int a < M := (as_int_spec a ha).1

theorem as_int_val (a : Nat) (ha : a < 2 ^ 64) : ((as_int a : Nat) : ZMod P) = val a := by
  obtain ⟨_, q, c, h⟩ := as_int_spec a ha
  exact val_eq_of_mul_R (cast_mont h)

theorem as_int_eq_val (a : Nat) (ha : a < 2 ^ 64) : as_int a = (val a).val := by
  rw [← as_int_val a ha, ZMod.val_cast_of_lt]
  exact as_int_lt a ha

/-- `==` on raw words decides equality of residues -/
theorem eq_iff (a b : Nat) (ha : Inv a) (hb : Inv b) : eq a b = true ↔ val a = val b := by
  have ha' : a < 18446744073709551616 := lt_trans ha (by decide)
  have hb' : b < 18446744073709551616 := lt_trans hb (by decide)
  rw [eq_spec a b ha' hb']
  exact ⟨fun h => by rw [h], val_injective ha hb⟩

/-! ### exponentiation and inversion (hand model `Model.F64`) -/

/-- `a` is a valid raw word denoting `x^e` -/
def Pw (x a e : Nat) : Prop := Inv a ∧ val a = val x ^ e

theorem Pw.self {x : Nat} (hx : Inv x) : Pw x x 1 := ⟨hx, (pow_one _).symm⟩

theorem Pw.mul {x a b e1 e2 : Nat} (h1 : Pw x a e1) (h2 : Pw x b e2) : Pw x (mul a b) (e1 + e2) :=
  ⟨mul_inv a b h1.1 h2.1, by rw [val_mul a b h1.1 h2.1, h1.2, h2.2, pow_add]⟩

theorem Pw.cast {x a e1 e2 : Nat} (h1 : Pw x a e1) (he : e1 = e2) : Pw x a e2 := he ▸ h1

theorem val_one : val (new 1) = 1 := by
  have h := val_new 1 (by norm_num)
  rw [h]; simp

theorem Pw.one (x : Nat) : Pw x (new 1) 0 :=
  ⟨new_inv 1 (by norm_num), by rw [val_one, pow_zero]⟩

open Model.F64 in
theorem expStep_spec (x power r i k : Nat) (hx : Inv x) (hr : Pw x r k)
    (hk : power / 2 ^ (i + 1) = k) :
    Pw x (expStep x power r i) (power / 2 ^ i) := by
  unfold expStep
  have hsplit : power / 2 ^ i = 2 * k + power / 2 ^ i % 2 := by
    rw [← hk, Nat.pow_succ, ← Nat.div_div_eq_div_mul]; omega
  have hrr := hr.mul hr
  by_cases hbit : power.testBit i = true
  · simp only [hbit, if_true]
    have h1 : power / 2 ^ i % 2 = 1 := by
      rw [Nat.testBit_eq_decide_div_mod_eq] at hbit; simpa using hbit
    exact (hrr.mul (Pw.self hx)).cast (by omega)
  · have hbf : power.testBit i = false := by simpa using hbit
    simp only [hbf, Bool.false_eq_true, if_false]
    have h1 : power / 2 ^ i % 2 = 0 := by
      rw [Nat.testBit_eq_decide_div_mod_eq] at hbf
      have : ¬ (power / 2 ^ i % 2 = 1) := by simpa using hbf
      omega
    exact hrr.cast (by omega)

open Model.F64 in
theorem exp_fold_spec (x power : Nat) (hx : Inv x) : ∀ (n r : Nat), Pw x r (power / 2 ^ n) →
    Pw x ((List.range n).reverse.foldl (expStep x power) r) power := by
  intro n
  induction n with
  | zero =>
    intro r hr
    simp only [List.range_zero, List.reverse_nil, List.foldl_nil]
    exact hr.cast (by simp)
  | succ n ih =>
    intro r hr
    rw [List.range_succ, List.reverse_append, List.reverse_singleton, List.singleton_append, List.foldl_cons]
    exact ih _ (expStep_spec x power r n _ hx hr rfl)

/-- `exp` computes the power in `ZMod P` for every 64-bit exponent -/
theorem exp_spec (x power : Nat) (hx : Inv x) (hp : power < 2 ^ 64) :
    Pw x (Model.F64.exp x power) power := by
  unfold Model.F64.exp
  apply exp_fold_spec x power hx 64 (new 1)
  exact (Pw.one x).cast (Nat.div_eq_of_lt hp).symm

open Model.F64 in
theorem Pw.sqN {x a e : Nat} (h : Pw x a e) (n : Nat) : Pw x (sqN n a) (e * 2 ^ n) := by
  induction n generalizing a e with
  | zero =>
    unfold Model.F64.sqN
    exact h.cast (by simp)
  | succ n ih =>
    unfold Model.F64.sqN square
    exact (ih (h.mul h)).cast (by rw [pow_succ]; ring)

open Model.F64 in
theorem Pw.expAcc {x b t e1 e2 : Nat} (h1 : Pw x b e1) (h2 : Pw x t e2) (n : Nat) :
    Pw x (expAcc n b t) (e1 * 2 ^ n + e2) := by
  unfold Model.F64.expAcc
  exact (h1.sqN n).mul h2

/-- the addition chain of `inv` computes `x^(P-2)` -/
theorem inv_pow (x : Nat) (hx : Inv x) : Pw x (Model.F64.inv x) (P - 2) := by
  have p1 := Pw.self hx
  have t2 := (p1.mul p1).mul p1
  have t3 := (t2.mul t2).mul p1
  have t6 := t3.expAcc t3 3
  have t12 := t6.expAcc t6 6
  have t24 := t12.expAcc t12 12
  have t30 := t24.expAcc t6 6
  have t31 := (t30.mul t30).mul p1
  have t63 := t31.expAcc t31 32
  have r := (t63.mul t63).mul p1
  exact r.cast (by norm_num)

/-- inversion: zero maps to zero, every other residue to its inverse -/
theorem val_inv (x : Nat) (hx : Inv x) : val (Model.F64.inv x) = (val x)⁻¹ := by
  rw [(inv_pow x hx).2]
  by_cases h0 : val x = 0
  · rw [h0, inv_zero]; exact zero_pow (by norm_num)
  · have hf : val x ^ (P - 1) = 1 := ZMod.pow_card_sub_one_eq_one h0
    have : val x * val x ^ (P - 2) = 1 := by
      rw [← pow_succ']; exact hf
    exact eq_inv_of_mul_eq_one_right this

end WinterProofs.F64Z
