-- C20 helper lemmas, part 4: `fill_zero_roots` / `poly_from_roots` (index-level loop refines the
-- recursive "multiply by X - x" specification), power series, in-place accumulation.
import WinterProofs.Lemmas.C20SynDiv

namespace WinterProofs.C20
open Model.Poly Polynomial

variable {α β F : Type} [Field F]

section
variable {O : Ops α} {v : α → F}

/-- effect of the inner loop of `fill_zero_roots` on the initialised part of the slice:
    `new[t] = old[t] - old[t+1] * x`, the last cell is not touched -/
def subMulShift (O : Ops α) (x : α) : List α → List α
  | [] => []
  | [c] => [c]
  | c :: d :: rest => O.sub c (O.mul d x) :: subMulShift O x (d :: rest)

/-- recursive specification of `fill_zero_roots`: start from `[ONE]`, one step per root -/
def rootsStep (O : Ops α) (suf : List α) (x : α) : List α := subMulShift O x (O.zero :: suf)

def fromRootsSpec (O : Ops α) (xs : List α) : List α := xs.foldl (rootsStep O) [O.one]

theorem length_subMulShift (x : α) (s : List α) : (subMulShift O x s).length = s.length := by
  induction s with
  | nil => rfl
  | cons c t ih =>
    cases t with
    | nil => rfl
    | cons d rest => simp [subMulShift, ih]

theorem toPoly_subMulShift (L : Lawful O v) (x : α) (s : List α) :
    toPoly v (subMulShift O x s) = toPoly v s - C (v x) * toPoly v s.tail := by
  induction s with
  | nil => simp [subMulShift]
  | cons c t ih =>
    cases t with
    | nil => simp [subMulShift]
    | cons d rest =>
      simp only [subMulShift, toPoly_cons, List.tail_cons] at ih ⊢
      rw [ih, L.sub, L.mul]
      simp only [C_sub, C_mul]
      ring

theorem toPoly_rootsStep (L : Lawful O v) (suf : List α) (x : α) :
    toPoly v (rootsStep O suf x) = toPoly v suf * (X - C (v x)) := by
  rw [rootsStep, toPoly_subMulShift L]
  simp [L.zero]; ring

theorem length_rootsStep (suf : List α) (x : α) : (rootsStep O suf x).length = suf.length + 1 := by
  simp [rootsStep, length_subMulShift]

theorem toPoly_foldl_rootsStep (L : Lawful O v) (xs suf : List α) :
    toPoly v (xs.foldl (rootsStep O) suf) = toPoly v suf * rootsPoly (xs.map v) := by
  induction xs generalizing suf with
  | nil => simp
  | cons x xs ih => rw [List.foldl_cons, ih, toPoly_rootsStep L, List.map_cons, rootsPoly_cons]; ring

theorem length_foldl_rootsStep (xs suf : List α) :
    (xs.foldl (rootsStep O) suf).length = suf.length + xs.length := by
  induction xs generalizing suf with
  | nil => rfl
  | cons x xs ih => rw [List.foldl_cons, ih, length_rootsStep]; simp; omega

/-- the specification denotes `∏ (X - x_i)` and has `n + 1` coefficients -/
theorem toPoly_fromRootsSpec (L : Lawful O v) (xs : List α) :
    toPoly v (fromRootsSpec O xs) = rootsPoly (xs.map v) := by
  rw [fromRootsSpec, toPoly_foldl_rootsStep L]; simp [L.one]

theorem length_fromRootsSpec (xs : List α) : (fromRootsSpec O xs).length = xs.length + 1 := by
  rw [fromRootsSpec, length_foldl_rootsStep]; simp; omega

-- ------------------------------------------------------------------ the index-level loops

/-- inner loop `for j in n..xs.len() { result[j] = result[j] - result[j+1] * x }` on `pre ++ s`
    with `n = pre.len()` -/
theorem fillInner_aux (x : α) (pre s : List α) :
    loopM (List.range' pre.length (s.length - 1)) (pre ++ s) (fun r j =>
      (getAt r j).bind fun lo => (getAt r (j + 1)).bind fun hi => setAt r j (O.sub lo (O.mul hi x)))
      = .ok (pre ++ subMulShift O x s) := by
  induction s generalizing pre with
  | nil => simp [subMulShift]
  | cons c t ih =>
    cases t with
    | nil => simp [subMulShift]
    | cons d rest =>
      have hlen : (c :: d :: rest).length - 1 = rest.length + 1 := by simp
      rw [hlen, List.range'_succ]
      have h0 : pre.length < (pre ++ c :: d :: rest).length := by simp
      have h1 : pre.length + 1 < (pre ++ c :: d :: rest).length := by simp
      have hbody : ((getAt (pre ++ c :: d :: rest) pre.length).bind fun lo =>
          (getAt (pre ++ c :: d :: rest) (pre.length + 1)).bind fun hi =>
          setAt (pre ++ c :: d :: rest) pre.length (O.sub lo (O.mul hi x)))
          = .ok ((pre ++ [O.sub c (O.mul d x)]) ++ d :: rest) := by
        rw [getAt_ok _ _ h0, bind_ok, getAt_ok _ _ h1, bind_ok, setAt_ok _ _ _ h0]
        simp
      rw [loopM_cons_ok (body := fun r j => (getAt r j).bind fun lo =>
          (getAt r (j + 1)).bind fun hi => setAt r j (O.sub lo (O.mul hi x))) hbody]
      have := ih (pre ++ [O.sub c (O.mul d x)])
      simp only [List.length_append, List.length_cons, List.length_nil, Nat.zero_add,
        Nat.add_sub_cancel] at this
      rw [this]
      simp [subMulShift]

/-- one outer iteration: the initialised suffix grows by one cell at the front -/
theorem fillStep_ok (m : Nat) (pre suf : List α) (y x : α)
    (hm : (pre ++ [y]).length + suf.length = m + 1) :
    fillStep O m { result := (pre ++ [y]) ++ suf, n := (pre ++ [y]).length } x =
      .ok { result := pre ++ rootsStep O suf x, n := pre.length } := by
  have hn : (pre ++ [y]).length ≠ 0 := by simp
  have hlt : pre.length < ((pre ++ [y]) ++ suf).length := by simp
  have hset : ((pre ++ [y]) ++ suf).set pre.length O.zero = pre ++ (O.zero :: suf) := by simp
  have hcnt : m - pre.length = (O.zero :: suf).length - 1 := by simp at hm ⊢; omega
  unfold fillStep
  simp only [hn, if_false]
  have e1 : (pre ++ [y]).length - 1 = pre.length := by simp
  rw [e1, setAt_ok _ _ _ hlt, bind_ok, hset, hcnt, fillInner_aux x pre (O.zero :: suf), bind_ok]
  rfl

/-- the outer loop over the roots -/
theorem fillLoop_ok (m : Nat) (xs pre suf : List α) (hx : xs.length ≤ pre.length)
    (hm : pre.length + suf.length = m + 1) :
    loopM xs { result := pre ++ suf, n := pre.length } (fillStep O m) =
      .ok { result := pre.take (pre.length - xs.length) ++ xs.foldl (rootsStep O) suf,
            n := pre.length - xs.length } := by
  induction xs generalizing pre suf with
  | nil => simp
  | cons x xs ih =>
    have hne : pre ≠ [] := by intro h; simp [h] at hx
    obtain ⟨pre', y, rfl⟩ : ∃ pre' y, pre = pre' ++ [y] :=
      ⟨pre.dropLast, pre.getLast hne, (List.dropLast_append_getLast hne).symm⟩
    rw [loopM_cons_ok (body := fillStep O m) (fillStep_ok m pre' suf y x hm)]
    have hx' : xs.length ≤ pre'.length := by simp at hx; omega
    rw [ih pre' (rootsStep O suf x) hx' (by rw [length_rootsStep]; simp at hm; omega)]
    have e : (pre' ++ [y]).length - (x :: xs).length = pre'.length - xs.length := by simp
    rw [e, List.foldl_cons, List.take_append_of_le_length (by omega)]

/-- `fill_zero_roots(xs, result)` with `result.len() == xs.len() + 1`: no panic, and the result is the
    recursive specification whatever the slice contained before -/
theorem fillZeroRoots_eq (xs init : List α) (h : init.length = xs.length + 1) :
    fillZeroRoots O xs init = .ok (fromRootsSpec O xs) := by
  have hne : init ≠ [] := by intro h0; simp [h0] at h
  obtain ⟨pre, y, rfl⟩ : ∃ pre y, init = pre ++ [y] :=
    ⟨init.dropLast, init.getLast hne, (List.dropLast_append_getLast hne).symm⟩
  have hpl : pre.length = xs.length := by simpa using h
  unfold fillZeroRoots
  have h0 : (pre ++ [y]).length ≠ 0 := by simp
  simp only [h0, if_false]
  have e1 : (pre ++ [y]).length - 1 = pre.length := by simp
  have hset : (pre ++ [y]).set pre.length O.one = pre ++ [O.one] := by simp
  rw [e1, setAt_ok _ _ _ (by simp), bind_ok, hset,
    fillLoop_ok xs.length xs pre [O.one] (by omega) (by simp; omega), bind_ok]
  simp [hpl, fromRootsSpec]

/-- `poly_from_roots` never panics and returns the specification -/
theorem polyFromRoots_eq (xs : List α) : polyFromRoots O xs = .ok (fromRootsSpec O xs) :=
  fillZeroRoots_eq xs _ (by simp)

end

end WinterProofs.C20
