-- C11 helper lemmas (rp64): the MDS step (through `Mds12.mm_eq_tail`) and one full round on raw words denote
-- the reference round on residues.  Written by gen_c11_round.py; checked by Lean.
import Winter.Model.Rescue
import WinterProofs.Lemmas.C07F64Z
import WinterProofs.Lemmas.C11Mds12
import WinterProofs.Lemmas.C11RoundCommon
import WinterProofs.Lemmas.C11Sbox
import WinterProofs.Lemmas.C11Sem
set_option linter.unusedSimpArgs false
set_option linter.unusedVariables false
set_option maxRecDepth 100000

namespace WinterProofs.C11.Round12
open Gen Model Model.Rescue WinterProofs.F64Z WinterProofs.C11 WinterProofs.C11.RoundCommon WinterProofs.C11.Sem

/-- `apply_mds` on ANY 64-bit raw words: 64-bit words whose residues are the matrix-vector product -/
theorem mds_spec (x0 x1 x2 x3 x4 x5 x6 x7 x8 x9 x10 x11 : Nat) (hx0 : x0 < 18446744073709551616) (hx1 : x1 < 18446744073709551616) (hx2 : x2 < 18446744073709551616) (hx3 : x3 < 18446744073709551616) (hx4 : x4 < 18446744073709551616) (hx5 : x5 < 18446744073709551616) (hx6 : x6 < 18446744073709551616) (hx7 : x7 < 18446744073709551616) (hx8 : x8 < 18446744073709551616) (hx9 : x9 < 18446744073709551616) (hx10 : x10 < 18446744073709551616) (hx11 : x11 < 18446744073709551616) :
    ∃ y0 y1 y2 y3 y4 y5 y6 y7 y8 y9 y10 y11 : Nat, mds12 [x0, x1, x2, x3, x4, x5, x6, x7, x8, x9, x10, x11] = [y0, y1, y2, y3, y4, y5, y6, y7, y8, y9, y10, y11] ∧
      (y0 < 18446744073709551616 ∧ val y0 = (7 : ZMod P) * val x0 + (23 : ZMod P) * val x1 + (8 : ZMod P) * val x2 + (26 : ZMod P) * val x3 + (13 : ZMod P) * val x4 + (10 : ZMod P) * val x5 + (9 : ZMod P) * val x6 + (7 : ZMod P) * val x7 + (6 : ZMod P) * val x8 + (22 : ZMod P) * val x9 + (21 : ZMod P) * val x10 + (8 : ZMod P) * val x11) ∧
      (y1 < 18446744073709551616 ∧ val y1 = (8 : ZMod P) * val x0 + (7 : ZMod P) * val x1 + (23 : ZMod P) * val x2 + (8 : ZMod P) * val x3 + (26 : ZMod P) * val x4 + (13 : ZMod P) * val x5 + (10 : ZMod P) * val x6 + (9 : ZMod P) * val x7 + (7 : ZMod P) * val x8 + (6 : ZMod P) * val x9 + (22 : ZMod P) * val x10 + (21 : ZMod P) * val x11) ∧
      (y2 < 18446744073709551616 ∧ val y2 = (21 : ZMod P) * val x0 + (8 : ZMod P) * val x1 + (7 : ZMod P) * val x2 + (23 : ZMod P) * val x3 + (8 : ZMod P) * val x4 + (26 : ZMod P) * val x5 + (13 : ZMod P) * val x6 + (10 : ZMod P) * val x7 + (9 : ZMod P) * val x8 + (7 : ZMod P) * val x9 + (6 : ZMod P) * val x10 + (22 : ZMod P) * val x11) ∧
      (y3 < 18446744073709551616 ∧ val y3 = (22 : ZMod P) * val x0 + (21 : ZMod P) * val x1 + (8 : ZMod P) * val x2 + (7 : ZMod P) * val x3 + (23 : ZMod P) * val x4 + (8 : ZMod P) * val x5 + (26 : ZMod P) * val x6 + (13 : ZMod P) * val x7 + (10 : ZMod P) * val x8 + (9 : ZMod P) * val x9 + (7 : ZMod P) * val x10 + (6 : ZMod P) * val x11) ∧
      (y4 < 18446744073709551616 ∧ val y4 = (6 : ZMod P) * val x0 + (22 : ZMod P) * val x1 + (21 : ZMod P) * val x2 + (8 : ZMod P) * val x3 + (7 : ZMod P) * val x4 + (23 : ZMod P) * val x5 + (8 : ZMod P) * val x6 + (26 : ZMod P) * val x7 + (13 : ZMod P) * val x8 + (10 : ZMod P) * val x9 + (9 : ZMod P) * val x10 + (7 : ZMod P) * val x11) ∧
      (y5 < 18446744073709551616 ∧ val y5 = (7 : ZMod P) * val x0 + (6 : ZMod P) * val x1 + (22 : ZMod P) * val x2 + (21 : ZMod P) * val x3 + (8 : ZMod P) * val x4 + (7 : ZMod P) * val x5 + (23 : ZMod P) * val x6 + (8 : ZMod P) * val x7 + (26 : ZMod P) * val x8 + (13 : ZMod P) * val x9 + (10 : ZMod P) * val x10 + (9 : ZMod P) * val x11) ∧
      (y6 < 18446744073709551616 ∧ val y6 = (9 : ZMod P) * val x0 + (7 : ZMod P) * val x1 + (6 : ZMod P) * val x2 + (22 : ZMod P) * val x3 + (21 : ZMod P) * val x4 + (8 : ZMod P) * val x5 + (7 : ZMod P) * val x6 + (23 : ZMod P) * val x7 + (8 : ZMod P) * val x8 + (26 : ZMod P) * val x9 + (13 : ZMod P) * val x10 + (10 : ZMod P) * val x11) ∧
      (y7 < 18446744073709551616 ∧ val y7 = (10 : ZMod P) * val x0 + (9 : ZMod P) * val x1 + (7 : ZMod P) * val x2 + (6 : ZMod P) * val x3 + (22 : ZMod P) * val x4 + (21 : ZMod P) * val x5 + (8 : ZMod P) * val x6 + (7 : ZMod P) * val x7 + (23 : ZMod P) * val x8 + (8 : ZMod P) * val x9 + (26 : ZMod P) * val x10 + (13 : ZMod P) * val x11) ∧
      (y8 < 18446744073709551616 ∧ val y8 = (13 : ZMod P) * val x0 + (10 : ZMod P) * val x1 + (9 : ZMod P) * val x2 + (7 : ZMod P) * val x3 + (6 : ZMod P) * val x4 + (22 : ZMod P) * val x5 + (21 : ZMod P) * val x6 + (8 : ZMod P) * val x7 + (7 : ZMod P) * val x8 + (23 : ZMod P) * val x9 + (8 : ZMod P) * val x10 + (26 : ZMod P) * val x11) ∧
      (y9 < 18446744073709551616 ∧ val y9 = (26 : ZMod P) * val x0 + (13 : ZMod P) * val x1 + (10 : ZMod P) * val x2 + (9 : ZMod P) * val x3 + (7 : ZMod P) * val x4 + (6 : ZMod P) * val x5 + (22 : ZMod P) * val x6 + (21 : ZMod P) * val x7 + (8 : ZMod P) * val x8 + (7 : ZMod P) * val x9 + (23 : ZMod P) * val x10 + (8 : ZMod P) * val x11) ∧
      (y10 < 18446744073709551616 ∧ val y10 = (8 : ZMod P) * val x0 + (26 : ZMod P) * val x1 + (13 : ZMod P) * val x2 + (10 : ZMod P) * val x3 + (9 : ZMod P) * val x4 + (7 : ZMod P) * val x5 + (6 : ZMod P) * val x6 + (22 : ZMod P) * val x7 + (21 : ZMod P) * val x8 + (8 : ZMod P) * val x9 + (7 : ZMod P) * val x10 + (23 : ZMod P) * val x11) ∧
      (y11 < 18446744073709551616 ∧ val y11 = (23 : ZMod P) * val x0 + (8 : ZMod P) * val x1 + (26 : ZMod P) * val x2 + (13 : ZMod P) * val x3 + (10 : ZMod P) * val x4 + (9 : ZMod P) * val x5 + (7 : ZMod P) * val x6 + (6 : ZMod P) * val x7 + (22 : ZMod P) * val x8 + (21 : ZMod P) * val x9 + (8 : ZMod P) * val x10 + (7 : ZMod P) * val x11) := by
  have hh0 : x0 / 4294967296 < 4294967296 := by omega
  have hl0 : x0 % 4294967296 < 4294967296 := by omega
  have hh1 : x1 / 4294967296 < 4294967296 := by omega
  have hl1 : x1 % 4294967296 < 4294967296 := by omega
  have hh2 : x2 / 4294967296 < 4294967296 := by omega
  have hl2 : x2 % 4294967296 < 4294967296 := by omega
  have hh3 : x3 / 4294967296 < 4294967296 := by omega
  have hl3 : x3 % 4294967296 < 4294967296 := by omega
  have hh4 : x4 / 4294967296 < 4294967296 := by omega
  have hl4 : x4 % 4294967296 < 4294967296 := by omega
  have hh5 : x5 / 4294967296 < 4294967296 := by omega
  have hl5 : x5 % 4294967296 < 4294967296 := by omega
  have hh6 : x6 / 4294967296 < 4294967296 := by omega
  have hl6 : x6 % 4294967296 < 4294967296 := by omega
  have hh7 : x7 / 4294967296 < 4294967296 := by omega
  have hl7 : x7 % 4294967296 < 4294967296 := by omega
  have hh8 : x8 / 4294967296 < 4294967296 := by omega
  have hl8 : x8 % 4294967296 < 4294967296 := by omega
  have hh9 : x9 / 4294967296 < 4294967296 := by omega
  have hl9 : x9 % 4294967296 < 4294967296 := by omega
  have hh10 : x10 / 4294967296 < 4294967296 := by omega
  have hl10 : x10 % 4294967296 < 4294967296 := by omega
  have hh11 : x11 / 4294967296 < 4294967296 := by omega
  have hl11 : x11 % 4294967296 < 4294967296 := by omega
  have hg := WinterProofs.C11.Mds12.mm_eq_tail x0 x1 x2 x3 x4 x5 x6 x7 x8 x9 x10 x11
  rw [WinterProofs.C11.Mds12.freq_eq_tuple _ _ _ _ _ _ _ _ _ _ _ _ hh0 hh1 hh2 hh3 hh4 hh5 hh6 hh7 hh8 hh9 hh10 hh11, WinterProofs.C11.Mds12.freq_eq_tuple _ _ _ _ _ _ _ _ _ _ _ _ hl0 hl1 hl2 hl3 hl4 hl5 hl6 hl7 hl8 hl9 hl10 hl11] at hg
  dsimp only at hg
  have f0 := tail_cast (7 * (x0 % 4294967296) + 23 * (x1 % 4294967296) + 8 * (x2 % 4294967296) + 26 * (x3 % 4294967296) + 13 * (x4 % 4294967296) + 10 * (x5 % 4294967296) + 9 * (x6 % 4294967296) + 7 * (x7 % 4294967296) + 6 * (x8 % 4294967296) + 22 * (x9 % 4294967296) + 21 * (x10 % 4294967296) + 8 * (x11 % 4294967296)) (7 * (x0 / 4294967296) + 23 * (x1 / 4294967296) + 8 * (x2 / 4294967296) + 26 * (x3 / 4294967296) + 13 * (x4 / 4294967296) + 10 * (x5 / 4294967296) + 9 * (x6 / 4294967296) + 7 * (x7 / 4294967296) + 6 * (x8 / 4294967296) + 22 * (x9 / 4294967296) + 21 * (x10 / 4294967296) + 8 * (x11 / 4294967296)) (7 * x0 + 23 * x1 + 8 * x2 + 26 * x3 + 13 * x4 + 10 * x5 + 9 * x6 + 7 * x7 + 6 * x8 + 22 * x9 + 21 * x10 + 8 * x11) (by omega) (by omega) (by omega)
  have f1 := tail_cast (8 * (x0 % 4294967296) + 7 * (x1 % 4294967296) + 23 * (x2 % 4294967296) + 8 * (x3 % 4294967296) + 26 * (x4 % 4294967296) + 13 * (x5 % 4294967296) + 10 * (x6 % 4294967296) + 9 * (x7 % 4294967296) + 7 * (x8 % 4294967296) + 6 * (x9 % 4294967296) + 22 * (x10 % 4294967296) + 21 * (x11 % 4294967296)) (8 * (x0 / 4294967296) + 7 * (x1 / 4294967296) + 23 * (x2 / 4294967296) + 8 * (x3 / 4294967296) + 26 * (x4 / 4294967296) + 13 * (x5 / 4294967296) + 10 * (x6 / 4294967296) + 9 * (x7 / 4294967296) + 7 * (x8 / 4294967296) + 6 * (x9 / 4294967296) + 22 * (x10 / 4294967296) + 21 * (x11 / 4294967296)) (8 * x0 + 7 * x1 + 23 * x2 + 8 * x3 + 26 * x4 + 13 * x5 + 10 * x6 + 9 * x7 + 7 * x8 + 6 * x9 + 22 * x10 + 21 * x11) (by omega) (by omega) (by omega)
  have f2 := tail_cast (21 * (x0 % 4294967296) + 8 * (x1 % 4294967296) + 7 * (x2 % 4294967296) + 23 * (x3 % 4294967296) + 8 * (x4 % 4294967296) + 26 * (x5 % 4294967296) + 13 * (x6 % 4294967296) + 10 * (x7 % 4294967296) + 9 * (x8 % 4294967296) + 7 * (x9 % 4294967296) + 6 * (x10 % 4294967296) + 22 * (x11 % 4294967296)) (21 * (x0 / 4294967296) + 8 * (x1 / 4294967296) + 7 * (x2 / 4294967296) + 23 * (x3 / 4294967296) + 8 * (x4 / 4294967296) + 26 * (x5 / 4294967296) + 13 * (x6 / 4294967296) + 10 * (x7 / 4294967296) + 9 * (x8 / 4294967296) + 7 * (x9 / 4294967296) + 6 * (x10 / 4294967296) + 22 * (x11 / 4294967296)) (21 * x0 + 8 * x1 + 7 * x2 + 23 * x3 + 8 * x4 + 26 * x5 + 13 * x6 + 10 * x7 + 9 * x8 + 7 * x9 + 6 * x10 + 22 * x11) (by omega) (by omega) (by omega)
  have f3 := tail_cast (22 * (x0 % 4294967296) + 21 * (x1 % 4294967296) + 8 * (x2 % 4294967296) + 7 * (x3 % 4294967296) + 23 * (x4 % 4294967296) + 8 * (x5 % 4294967296) + 26 * (x6 % 4294967296) + 13 * (x7 % 4294967296) + 10 * (x8 % 4294967296) + 9 * (x9 % 4294967296) + 7 * (x10 % 4294967296) + 6 * (x11 % 4294967296)) (22 * (x0 / 4294967296) + 21 * (x1 / 4294967296) + 8 * (x2 / 4294967296) + 7 * (x3 / 4294967296) + 23 * (x4 / 4294967296) + 8 * (x5 / 4294967296) + 26 * (x6 / 4294967296) + 13 * (x7 / 4294967296) + 10 * (x8 / 4294967296) + 9 * (x9 / 4294967296) + 7 * (x10 / 4294967296) + 6 * (x11 / 4294967296)) (22 * x0 + 21 * x1 + 8 * x2 + 7 * x3 + 23 * x4 + 8 * x5 + 26 * x6 + 13 * x7 + 10 * x8 + 9 * x9 + 7 * x10 + 6 * x11) (by omega) (by omega) (by omega)
  have f4 := tail_cast (6 * (x0 % 4294967296) + 22 * (x1 % 4294967296) + 21 * (x2 % 4294967296) + 8 * (x3 % 4294967296) + 7 * (x4 % 4294967296) + 23 * (x5 % 4294967296) + 8 * (x6 % 4294967296) + 26 * (x7 % 4294967296) + 13 * (x8 % 4294967296) + 10 * (x9 % 4294967296) + 9 * (x10 % 4294967296) + 7 * (x11 % 4294967296)) (6 * (x0 / 4294967296) + 22 * (x1 / 4294967296) + 21 * (x2 / 4294967296) + 8 * (x3 / 4294967296) + 7 * (x4 / 4294967296) + 23 * (x5 / 4294967296) + 8 * (x6 / 4294967296) + 26 * (x7 / 4294967296) + 13 * (x8 / 4294967296) + 10 * (x9 / 4294967296) + 9 * (x10 / 4294967296) + 7 * (x11 / 4294967296)) (6 * x0 + 22 * x1 + 21 * x2 + 8 * x3 + 7 * x4 + 23 * x5 + 8 * x6 + 26 * x7 + 13 * x8 + 10 * x9 + 9 * x10 + 7 * x11) (by omega) (by omega) (by omega)
  have f5 := tail_cast (7 * (x0 % 4294967296) + 6 * (x1 % 4294967296) + 22 * (x2 % 4294967296) + 21 * (x3 % 4294967296) + 8 * (x4 % 4294967296) + 7 * (x5 % 4294967296) + 23 * (x6 % 4294967296) + 8 * (x7 % 4294967296) + 26 * (x8 % 4294967296) + 13 * (x9 % 4294967296) + 10 * (x10 % 4294967296) + 9 * (x11 % 4294967296)) (7 * (x0 / 4294967296) + 6 * (x1 / 4294967296) + 22 * (x2 / 4294967296) + 21 * (x3 / 4294967296) + 8 * (x4 / 4294967296) + 7 * (x5 / 4294967296) + 23 * (x6 / 4294967296) + 8 * (x7 / 4294967296) + 26 * (x8 / 4294967296) + 13 * (x9 / 4294967296) + 10 * (x10 / 4294967296) + 9 * (x11 / 4294967296)) (7 * x0 + 6 * x1 + 22 * x2 + 21 * x3 + 8 * x4 + 7 * x5 + 23 * x6 + 8 * x7 + 26 * x8 + 13 * x9 + 10 * x10 + 9 * x11) (by omega) (by omega) (by omega)
  have f6 := tail_cast (9 * (x0 % 4294967296) + 7 * (x1 % 4294967296) + 6 * (x2 % 4294967296) + 22 * (x3 % 4294967296) + 21 * (x4 % 4294967296) + 8 * (x5 % 4294967296) + 7 * (x6 % 4294967296) + 23 * (x7 % 4294967296) + 8 * (x8 % 4294967296) + 26 * (x9 % 4294967296) + 13 * (x10 % 4294967296) + 10 * (x11 % 4294967296)) (9 * (x0 / 4294967296) + 7 * (x1 / 4294967296) + 6 * (x2 / 4294967296) + 22 * (x3 / 4294967296) + 21 * (x4 / 4294967296) + 8 * (x5 / 4294967296) + 7 * (x6 / 4294967296) + 23 * (x7 / 4294967296) + 8 * (x8 / 4294967296) + 26 * (x9 / 4294967296) + 13 * (x10 / 4294967296) + 10 * (x11 / 4294967296)) (9 * x0 + 7 * x1 + 6 * x2 + 22 * x3 + 21 * x4 + 8 * x5 + 7 * x6 + 23 * x7 + 8 * x8 + 26 * x9 + 13 * x10 + 10 * x11) (by omega) (by omega) (by omega)
  have f7 := tail_cast (10 * (x0 % 4294967296) + 9 * (x1 % 4294967296) + 7 * (x2 % 4294967296) + 6 * (x3 % 4294967296) + 22 * (x4 % 4294967296) + 21 * (x5 % 4294967296) + 8 * (x6 % 4294967296) + 7 * (x7 % 4294967296) + 23 * (x8 % 4294967296) + 8 * (x9 % 4294967296) + 26 * (x10 % 4294967296) + 13 * (x11 % 4294967296)) (10 * (x0 / 4294967296) + 9 * (x1 / 4294967296) + 7 * (x2 / 4294967296) + 6 * (x3 / 4294967296) + 22 * (x4 / 4294967296) + 21 * (x5 / 4294967296) + 8 * (x6 / 4294967296) + 7 * (x7 / 4294967296) + 23 * (x8 / 4294967296) + 8 * (x9 / 4294967296) + 26 * (x10 / 4294967296) + 13 * (x11 / 4294967296)) (10 * x0 + 9 * x1 + 7 * x2 + 6 * x3 + 22 * x4 + 21 * x5 + 8 * x6 + 7 * x7 + 23 * x8 + 8 * x9 + 26 * x10 + 13 * x11) (by omega) (by omega) (by omega)
  have f8 := tail_cast (13 * (x0 % 4294967296) + 10 * (x1 % 4294967296) + 9 * (x2 % 4294967296) + 7 * (x3 % 4294967296) + 6 * (x4 % 4294967296) + 22 * (x5 % 4294967296) + 21 * (x6 % 4294967296) + 8 * (x7 % 4294967296) + 7 * (x8 % 4294967296) + 23 * (x9 % 4294967296) + 8 * (x10 % 4294967296) + 26 * (x11 % 4294967296)) (13 * (x0 / 4294967296) + 10 * (x1 / 4294967296) + 9 * (x2 / 4294967296) + 7 * (x3 / 4294967296) + 6 * (x4 / 4294967296) + 22 * (x5 / 4294967296) + 21 * (x6 / 4294967296) + 8 * (x7 / 4294967296) + 7 * (x8 / 4294967296) + 23 * (x9 / 4294967296) + 8 * (x10 / 4294967296) + 26 * (x11 / 4294967296)) (13 * x0 + 10 * x1 + 9 * x2 + 7 * x3 + 6 * x4 + 22 * x5 + 21 * x6 + 8 * x7 + 7 * x8 + 23 * x9 + 8 * x10 + 26 * x11) (by omega) (by omega) (by omega)
  have f9 := tail_cast (26 * (x0 % 4294967296) + 13 * (x1 % 4294967296) + 10 * (x2 % 4294967296) + 9 * (x3 % 4294967296) + 7 * (x4 % 4294967296) + 6 * (x5 % 4294967296) + 22 * (x6 % 4294967296) + 21 * (x7 % 4294967296) + 8 * (x8 % 4294967296) + 7 * (x9 % 4294967296) + 23 * (x10 % 4294967296) + 8 * (x11 % 4294967296)) (26 * (x0 / 4294967296) + 13 * (x1 / 4294967296) + 10 * (x2 / 4294967296) + 9 * (x3 / 4294967296) + 7 * (x4 / 4294967296) + 6 * (x5 / 4294967296) + 22 * (x6 / 4294967296) + 21 * (x7 / 4294967296) + 8 * (x8 / 4294967296) + 7 * (x9 / 4294967296) + 23 * (x10 / 4294967296) + 8 * (x11 / 4294967296)) (26 * x0 + 13 * x1 + 10 * x2 + 9 * x3 + 7 * x4 + 6 * x5 + 22 * x6 + 21 * x7 + 8 * x8 + 7 * x9 + 23 * x10 + 8 * x11) (by omega) (by omega) (by omega)
  have f10 := tail_cast (8 * (x0 % 4294967296) + 26 * (x1 % 4294967296) + 13 * (x2 % 4294967296) + 10 * (x3 % 4294967296) + 9 * (x4 % 4294967296) + 7 * (x5 % 4294967296) + 6 * (x6 % 4294967296) + 22 * (x7 % 4294967296) + 21 * (x8 % 4294967296) + 8 * (x9 % 4294967296) + 7 * (x10 % 4294967296) + 23 * (x11 % 4294967296)) (8 * (x0 / 4294967296) + 26 * (x1 / 4294967296) + 13 * (x2 / 4294967296) + 10 * (x3 / 4294967296) + 9 * (x4 / 4294967296) + 7 * (x5 / 4294967296) + 6 * (x6 / 4294967296) + 22 * (x7 / 4294967296) + 21 * (x8 / 4294967296) + 8 * (x9 / 4294967296) + 7 * (x10 / 4294967296) + 23 * (x11 / 4294967296)) (8 * x0 + 26 * x1 + 13 * x2 + 10 * x3 + 9 * x4 + 7 * x5 + 6 * x6 + 22 * x7 + 21 * x8 + 8 * x9 + 7 * x10 + 23 * x11) (by omega) (by omega) (by omega)
  have f11 := tail_cast (23 * (x0 % 4294967296) + 8 * (x1 % 4294967296) + 26 * (x2 % 4294967296) + 13 * (x3 % 4294967296) + 10 * (x4 % 4294967296) + 9 * (x5 % 4294967296) + 7 * (x6 % 4294967296) + 6 * (x7 % 4294967296) + 22 * (x8 % 4294967296) + 21 * (x9 % 4294967296) + 8 * (x10 % 4294967296) + 7 * (x11 % 4294967296)) (23 * (x0 / 4294967296) + 8 * (x1 / 4294967296) + 26 * (x2 / 4294967296) + 13 * (x3 / 4294967296) + 10 * (x4 / 4294967296) + 9 * (x5 / 4294967296) + 7 * (x6 / 4294967296) + 6 * (x7 / 4294967296) + 22 * (x8 / 4294967296) + 21 * (x9 / 4294967296) + 8 * (x10 / 4294967296) + 7 * (x11 / 4294967296)) (23 * x0 + 8 * x1 + 26 * x2 + 13 * x3 + 10 * x4 + 9 * x5 + 7 * x6 + 6 * x7 + 22 * x8 + 21 * x9 + 8 * x10 + 7 * x11) (by omega) (by omega) (by omega)
  refine ⟨(tailRed (7 * (x0 % 4294967296) + 23 * (x1 % 4294967296) + 8 * (x2 % 4294967296) + 26 * (x3 % 4294967296) + 13 * (x4 % 4294967296) + 10 * (x5 % 4294967296) + 9 * (x6 % 4294967296) + 7 * (x7 % 4294967296) + 6 * (x8 % 4294967296) + 22 * (x9 % 4294967296) + 21 * (x10 % 4294967296) + 8 * (x11 % 4294967296)) (7 * (x0 / 4294967296) + 23 * (x1 / 4294967296) + 8 * (x2 / 4294967296) + 26 * (x3 / 4294967296) + 13 * (x4 / 4294967296) + 10 * (x5 / 4294967296) + 9 * (x6 / 4294967296) + 7 * (x7 / 4294967296) + 6 * (x8 / 4294967296) + 22 * (x9 / 4294967296) + 21 * (x10 / 4294967296) + 8 * (x11 / 4294967296))), (tailRed (8 * (x0 % 4294967296) + 7 * (x1 % 4294967296) + 23 * (x2 % 4294967296) + 8 * (x3 % 4294967296) + 26 * (x4 % 4294967296) + 13 * (x5 % 4294967296) + 10 * (x6 % 4294967296) + 9 * (x7 % 4294967296) + 7 * (x8 % 4294967296) + 6 * (x9 % 4294967296) + 22 * (x10 % 4294967296) + 21 * (x11 % 4294967296)) (8 * (x0 / 4294967296) + 7 * (x1 / 4294967296) + 23 * (x2 / 4294967296) + 8 * (x3 / 4294967296) + 26 * (x4 / 4294967296) + 13 * (x5 / 4294967296) + 10 * (x6 / 4294967296) + 9 * (x7 / 4294967296) + 7 * (x8 / 4294967296) + 6 * (x9 / 4294967296) + 22 * (x10 / 4294967296) + 21 * (x11 / 4294967296))), (tailRed (21 * (x0 % 4294967296) + 8 * (x1 % 4294967296) + 7 * (x2 % 4294967296) + 23 * (x3 % 4294967296) + 8 * (x4 % 4294967296) + 26 * (x5 % 4294967296) + 13 * (x6 % 4294967296) + 10 * (x7 % 4294967296) + 9 * (x8 % 4294967296) + 7 * (x9 % 4294967296) + 6 * (x10 % 4294967296) + 22 * (x11 % 4294967296)) (21 * (x0 / 4294967296) + 8 * (x1 / 4294967296) + 7 * (x2 / 4294967296) + 23 * (x3 / 4294967296) + 8 * (x4 / 4294967296) + 26 * (x5 / 4294967296) + 13 * (x6 / 4294967296) + 10 * (x7 / 4294967296) + 9 * (x8 / 4294967296) + 7 * (x9 / 4294967296) + 6 * (x10 / 4294967296) + 22 * (x11 / 4294967296))), (tailRed (22 * (x0 % 4294967296) + 21 * (x1 % 4294967296) + 8 * (x2 % 4294967296) + 7 * (x3 % 4294967296) + 23 * (x4 % 4294967296) + 8 * (x5 % 4294967296) + 26 * (x6 % 4294967296) + 13 * (x7 % 4294967296) + 10 * (x8 % 4294967296) + 9 * (x9 % 4294967296) + 7 * (x10 % 4294967296) + 6 * (x11 % 4294967296)) (22 * (x0 / 4294967296) + 21 * (x1 / 4294967296) + 8 * (x2 / 4294967296) + 7 * (x3 / 4294967296) + 23 * (x4 / 4294967296) + 8 * (x5 / 4294967296) + 26 * (x6 / 4294967296) + 13 * (x7 / 4294967296) + 10 * (x8 / 4294967296) + 9 * (x9 / 4294967296) + 7 * (x10 / 4294967296) + 6 * (x11 / 4294967296))), (tailRed (6 * (x0 % 4294967296) + 22 * (x1 % 4294967296) + 21 * (x2 % 4294967296) + 8 * (x3 % 4294967296) + 7 * (x4 % 4294967296) + 23 * (x5 % 4294967296) + 8 * (x6 % 4294967296) + 26 * (x7 % 4294967296) + 13 * (x8 % 4294967296) + 10 * (x9 % 4294967296) + 9 * (x10 % 4294967296) + 7 * (x11 % 4294967296)) (6 * (x0 / 4294967296) + 22 * (x1 / 4294967296) + 21 * (x2 / 4294967296) + 8 * (x3 / 4294967296) + 7 * (x4 / 4294967296) + 23 * (x5 / 4294967296) + 8 * (x6 / 4294967296) + 26 * (x7 / 4294967296) + 13 * (x8 / 4294967296) + 10 * (x9 / 4294967296) + 9 * (x10 / 4294967296) + 7 * (x11 / 4294967296))), (tailRed (7 * (x0 % 4294967296) + 6 * (x1 % 4294967296) + 22 * (x2 % 4294967296) + 21 * (x3 % 4294967296) + 8 * (x4 % 4294967296) + 7 * (x5 % 4294967296) + 23 * (x6 % 4294967296) + 8 * (x7 % 4294967296) + 26 * (x8 % 4294967296) + 13 * (x9 % 4294967296) + 10 * (x10 % 4294967296) + 9 * (x11 % 4294967296)) (7 * (x0 / 4294967296) + 6 * (x1 / 4294967296) + 22 * (x2 / 4294967296) + 21 * (x3 / 4294967296) + 8 * (x4 / 4294967296) + 7 * (x5 / 4294967296) + 23 * (x6 / 4294967296) + 8 * (x7 / 4294967296) + 26 * (x8 / 4294967296) + 13 * (x9 / 4294967296) + 10 * (x10 / 4294967296) + 9 * (x11 / 4294967296))), (tailRed (9 * (x0 % 4294967296) + 7 * (x1 % 4294967296) + 6 * (x2 % 4294967296) + 22 * (x3 % 4294967296) + 21 * (x4 % 4294967296) + 8 * (x5 % 4294967296) + 7 * (x6 % 4294967296) + 23 * (x7 % 4294967296) + 8 * (x8 % 4294967296) + 26 * (x9 % 4294967296) + 13 * (x10 % 4294967296) + 10 * (x11 % 4294967296)) (9 * (x0 / 4294967296) + 7 * (x1 / 4294967296) + 6 * (x2 / 4294967296) + 22 * (x3 / 4294967296) + 21 * (x4 / 4294967296) + 8 * (x5 / 4294967296) + 7 * (x6 / 4294967296) + 23 * (x7 / 4294967296) + 8 * (x8 / 4294967296) + 26 * (x9 / 4294967296) + 13 * (x10 / 4294967296) + 10 * (x11 / 4294967296))), (tailRed (10 * (x0 % 4294967296) + 9 * (x1 % 4294967296) + 7 * (x2 % 4294967296) + 6 * (x3 % 4294967296) + 22 * (x4 % 4294967296) + 21 * (x5 % 4294967296) + 8 * (x6 % 4294967296) + 7 * (x7 % 4294967296) + 23 * (x8 % 4294967296) + 8 * (x9 % 4294967296) + 26 * (x10 % 4294967296) + 13 * (x11 % 4294967296)) (10 * (x0 / 4294967296) + 9 * (x1 / 4294967296) + 7 * (x2 / 4294967296) + 6 * (x3 / 4294967296) + 22 * (x4 / 4294967296) + 21 * (x5 / 4294967296) + 8 * (x6 / 4294967296) + 7 * (x7 / 4294967296) + 23 * (x8 / 4294967296) + 8 * (x9 / 4294967296) + 26 * (x10 / 4294967296) + 13 * (x11 / 4294967296))), (tailRed (13 * (x0 % 4294967296) + 10 * (x1 % 4294967296) + 9 * (x2 % 4294967296) + 7 * (x3 % 4294967296) + 6 * (x4 % 4294967296) + 22 * (x5 % 4294967296) + 21 * (x6 % 4294967296) + 8 * (x7 % 4294967296) + 7 * (x8 % 4294967296) + 23 * (x9 % 4294967296) + 8 * (x10 % 4294967296) + 26 * (x11 % 4294967296)) (13 * (x0 / 4294967296) + 10 * (x1 / 4294967296) + 9 * (x2 / 4294967296) + 7 * (x3 / 4294967296) + 6 * (x4 / 4294967296) + 22 * (x5 / 4294967296) + 21 * (x6 / 4294967296) + 8 * (x7 / 4294967296) + 7 * (x8 / 4294967296) + 23 * (x9 / 4294967296) + 8 * (x10 / 4294967296) + 26 * (x11 / 4294967296))), (tailRed (26 * (x0 % 4294967296) + 13 * (x1 % 4294967296) + 10 * (x2 % 4294967296) + 9 * (x3 % 4294967296) + 7 * (x4 % 4294967296) + 6 * (x5 % 4294967296) + 22 * (x6 % 4294967296) + 21 * (x7 % 4294967296) + 8 * (x8 % 4294967296) + 7 * (x9 % 4294967296) + 23 * (x10 % 4294967296) + 8 * (x11 % 4294967296)) (26 * (x0 / 4294967296) + 13 * (x1 / 4294967296) + 10 * (x2 / 4294967296) + 9 * (x3 / 4294967296) + 7 * (x4 / 4294967296) + 6 * (x5 / 4294967296) + 22 * (x6 / 4294967296) + 21 * (x7 / 4294967296) + 8 * (x8 / 4294967296) + 7 * (x9 / 4294967296) + 23 * (x10 / 4294967296) + 8 * (x11 / 4294967296))), (tailRed (8 * (x0 % 4294967296) + 26 * (x1 % 4294967296) + 13 * (x2 % 4294967296) + 10 * (x3 % 4294967296) + 9 * (x4 % 4294967296) + 7 * (x5 % 4294967296) + 6 * (x6 % 4294967296) + 22 * (x7 % 4294967296) + 21 * (x8 % 4294967296) + 8 * (x9 % 4294967296) + 7 * (x10 % 4294967296) + 23 * (x11 % 4294967296)) (8 * (x0 / 4294967296) + 26 * (x1 / 4294967296) + 13 * (x2 / 4294967296) + 10 * (x3 / 4294967296) + 9 * (x4 / 4294967296) + 7 * (x5 / 4294967296) + 6 * (x6 / 4294967296) + 22 * (x7 / 4294967296) + 21 * (x8 / 4294967296) + 8 * (x9 / 4294967296) + 7 * (x10 / 4294967296) + 23 * (x11 / 4294967296))), (tailRed (23 * (x0 % 4294967296) + 8 * (x1 % 4294967296) + 26 * (x2 % 4294967296) + 13 * (x3 % 4294967296) + 10 * (x4 % 4294967296) + 9 * (x5 % 4294967296) + 7 * (x6 % 4294967296) + 6 * (x7 % 4294967296) + 22 * (x8 % 4294967296) + 21 * (x9 % 4294967296) + 8 * (x10 % 4294967296) + 7 * (x11 % 4294967296)) (23 * (x0 / 4294967296) + 8 * (x1 / 4294967296) + 26 * (x2 / 4294967296) + 13 * (x3 / 4294967296) + 10 * (x4 / 4294967296) + 9 * (x5 / 4294967296) + 7 * (x6 / 4294967296) + 6 * (x7 / 4294967296) + 22 * (x8 / 4294967296) + 21 * (x9 / 4294967296) + 8 * (x10 / 4294967296) + 7 * (x11 / 4294967296))), ?_,
      ⟨f0.1, by unfold val; rw [f0.2]; push_cast; ring⟩,
      ⟨f1.1, by unfold val; rw [f1.2]; push_cast; ring⟩,
      ⟨f2.1, by unfold val; rw [f2.2]; push_cast; ring⟩,
      ⟨f3.1, by unfold val; rw [f3.2]; push_cast; ring⟩,
      ⟨f4.1, by unfold val; rw [f4.2]; push_cast; ring⟩,
      ⟨f5.1, by unfold val; rw [f5.2]; push_cast; ring⟩,
      ⟨f6.1, by unfold val; rw [f6.2]; push_cast; ring⟩,
      ⟨f7.1, by unfold val; rw [f7.2]; push_cast; ring⟩,
      ⟨f8.1, by unfold val; rw [f8.2]; push_cast; ring⟩,
      ⟨f9.1, by unfold val; rw [f9.2]; push_cast; ring⟩,
      ⟨f10.1, by unfold val; rw [f10.2]; push_cast; ring⟩,
      ⟨f11.1, by unfold val; rw [f11.2]; push_cast; ring⟩⟩
  simp only [mds12, hg]

/-- the reference round on residues: S-box, MDS, constants, inverse S-box, MDS, constants -/
noncomputable def refRound (v k1 k2 : List (ZMod P)) : List (ZMod P) :=
  let v := v.map (· ^ Gen.Rp64.ALPHA)
  let v := List.zipWith (· + ·) (matVecZ Gen.Rp64.MDS v) k1
  let v := v.map (· ^ Gen.Rp64.INV_ALPHA)
  List.zipWith (· + ·) (matVecZ Gen.Rp64.MDS v) k2

theorem refRound_eq (v k1 k2 : List (ZMod P)) :
    refRound v k1 k2 =
      List.zipWith (· + ·) (matVecZ Gen.Rp64.MDS
        ((List.zipWith (· + ·) (matVecZ Gen.Rp64.MDS (v.map (· ^ Gen.Rp64.ALPHA))) k1).map (· ^ Gen.Rp64.INV_ALPHA))) k2 := by
  rw [refRound]

theorem mds_table_eq : Gen.Rp64.MDS = [[7, 23, 8, 26, 13, 10, 9, 7, 6, 22, 21, 8], [8, 7, 23, 8, 26, 13, 10, 9, 7, 6, 22, 21], [21, 8, 7, 23, 8, 26, 13, 10, 9, 7, 6, 22], [22, 21, 8, 7, 23, 8, 26, 13, 10, 9, 7, 6], [6, 22, 21, 8, 7, 23, 8, 26, 13, 10, 9, 7], [7, 6, 22, 21, 8, 7, 23, 8, 26, 13, 10, 9], [9, 7, 6, 22, 21, 8, 7, 23, 8, 26, 13, 10], [10, 9, 7, 6, 22, 21, 8, 7, 23, 8, 26, 13], [13, 10, 9, 7, 6, 22, 21, 8, 7, 23, 8, 26], [26, 13, 10, 9, 7, 6, 22, 21, 8, 7, 23, 8], [8, 26, 13, 10, 9, 7, 6, 22, 21, 8, 7, 23], [23, 8, 26, 13, 10, 9, 7, 6, 22, 21, 8, 7]] := by decide

/-- one round on valid raw words, with round constants whose raw words are `<= p - 2^32`: the
    result consists of valid raw words and denotes the reference round -/
theorem round_spec (x0 x1 x2 x3 x4 x5 x6 x7 x8 x9 x10 x11 a0 a1 a2 a3 a4 a5 a6 a7 a8 a9 a10 a11 b0 b1 b2 b3 b4 b5 b6 b7 b8 b9 b10 b11 : Nat) (hx0 : Inv x0) (hx1 : Inv x1) (hx2 : Inv x2) (hx3 : Inv x3) (hx4 : Inv x4) (hx5 : Inv x5) (hx6 : Inv x6) (hx7 : Inv x7) (hx8 : Inv x8) (hx9 : Inv x9) (hx10 : Inv x10) (hx11 : Inv x11)
    (ha0 : a0 ≤ 18446744065119617025) (ha1 : a1 ≤ 18446744065119617025) (ha2 : a2 ≤ 18446744065119617025) (ha3 : a3 ≤ 18446744065119617025) (ha4 : a4 ≤ 18446744065119617025) (ha5 : a5 ≤ 18446744065119617025) (ha6 : a6 ≤ 18446744065119617025) (ha7 : a7 ≤ 18446744065119617025) (ha8 : a8 ≤ 18446744065119617025) (ha9 : a9 ≤ 18446744065119617025) (ha10 : a10 ≤ 18446744065119617025) (ha11 : a11 ≤ 18446744065119617025)
    (hb0 : b0 ≤ 18446744065119617025) (hb1 : b1 ≤ 18446744065119617025) (hb2 : b2 ≤ 18446744065119617025) (hb3 : b3 ≤ 18446744065119617025) (hb4 : b4 ≤ 18446744065119617025) (hb5 : b5 ≤ 18446744065119617025) (hb6 : b6 ≤ 18446744065119617025) (hb7 : b7 ≤ 18446744065119617025) (hb8 : b8 ≤ 18446744065119617025) (hb9 : b9 ≤ 18446744065119617025) (hb10 : b10 ≤ 18446744065119617025) (hb11 : b11 ≤ 18446744065119617025) :
    (∀ e ∈ roundWith rp64 [x0, x1, x2, x3, x4, x5, x6, x7, x8, x9, x10, x11] [a0, a1, a2, a3, a4, a5, a6, a7, a8, a9, a10, a11] [b0, b1, b2, b3, b4, b5, b6, b7, b8, b9, b10, b11], Inv e) ∧
    (roundWith rp64 [x0, x1, x2, x3, x4, x5, x6, x7, x8, x9, x10, x11] [a0, a1, a2, a3, a4, a5, a6, a7, a8, a9, a10, a11] [b0, b1, b2, b3, b4, b5, b6, b7, b8, b9, b10, b11]).map val
      = refRound ([x0, x1, x2, x3, x4, x5, x6, x7, x8, x9, x10, x11].map val) ([a0, a1, a2, a3, a4, a5, a6, a7, a8, a9, a10, a11].map val) ([b0, b1, b2, b3, b4, b5, b6, b7, b8, b9, b10, b11].map val) := by
  have ps : rp64.sbox = Gen.F64.exp7 := rfl
  have pi : rp64.invSbox = Model.Rescue.F64.invSbox := rfl
  have pm : rp64.mds = mds12 := rfl
  have pa : rp64.F.add = Gen.F64.add := rfl
  have hA : Gen.Rp64.ALPHA = 7 := by decide
  have hI : Gen.Rp64.INV_ALPHA = Gen.Rp64.INV_ALPHA := by decide
  have s0 := Sbox.F64.exp7_pow x0 hx0
  have s1 := Sbox.F64.exp7_pow x1 hx1
  have s2 := Sbox.F64.exp7_pow x2 hx2
  have s3 := Sbox.F64.exp7_pow x3 hx3
  have s4 := Sbox.F64.exp7_pow x4 hx4
  have s5 := Sbox.F64.exp7_pow x5 hx5
  have s6 := Sbox.F64.exp7_pow x6 hx6
  have s7 := Sbox.F64.exp7_pow x7 hx7
  have s8 := Sbox.F64.exp7_pow x8 hx8
  have s9 := Sbox.F64.exp7_pow x9 hx9
  have s10 := Sbox.F64.exp7_pow x10 hx10
  have s11 := Sbox.F64.exp7_pow x11 hx11
  obtain ⟨y0, y1, y2, y3, y4, y5, y6, y7, y8, y9, y10, y11, hy, ⟨by0, vy0⟩, ⟨by1, vy1⟩, ⟨by2, vy2⟩, ⟨by3, vy3⟩, ⟨by4, vy4⟩, ⟨by5, vy5⟩, ⟨by6, vy6⟩, ⟨by7, vy7⟩, ⟨by8, vy8⟩, ⟨by9, vy9⟩, ⟨by10, vy10⟩, ⟨by11, vy11⟩⟩ :=
    mds_spec (Gen.F64.exp7 x0) (Gen.F64.exp7 x1) (Gen.F64.exp7 x2) (Gen.F64.exp7 x3) (Gen.F64.exp7 x4) (Gen.F64.exp7 x5) (Gen.F64.exp7 x6) (Gen.F64.exp7 x7) (Gen.F64.exp7 x8) (Gen.F64.exp7 x9) (Gen.F64.exp7 x10) (Gen.F64.exp7 x11) (Nat.lt_trans s0.1 (by decide)) (Nat.lt_trans s1.1 (by decide)) (Nat.lt_trans s2.1 (by decide)) (Nat.lt_trans s3.1 (by decide)) (Nat.lt_trans s4.1 (by decide)) (Nat.lt_trans s5.1 (by decide)) (Nat.lt_trans s6.1 (by decide)) (Nat.lt_trans s7.1 (by decide)) (Nat.lt_trans s8.1 (by decide)) (Nat.lt_trans s9.1 (by decide)) (Nat.lt_trans s10.1 (by decide)) (Nat.lt_trans s11.1 (by decide))
  have c0 := add_any y0 a0 by0 ha0
  have c1 := add_any y1 a1 by1 ha1
  have c2 := add_any y2 a2 by2 ha2
  have c3 := add_any y3 a3 by3 ha3
  have c4 := add_any y4 a4 by4 ha4
  have c5 := add_any y5 a5 by5 ha5
  have c6 := add_any y6 a6 by6 ha6
  have c7 := add_any y7 a7 by7 ha7
  have c8 := add_any y8 a8 by8 ha8
  have c9 := add_any y9 a9 by9 ha9
  have c10 := add_any y10 a10 by10 ha10
  have c11 := add_any y11 a11 by11 ha11
  have t0 := Sbox.F64.invSbox_pow (Gen.F64.add y0 a0) c0.1
  have t1 := Sbox.F64.invSbox_pow (Gen.F64.add y1 a1) c1.1
  have t2 := Sbox.F64.invSbox_pow (Gen.F64.add y2 a2) c2.1
  have t3 := Sbox.F64.invSbox_pow (Gen.F64.add y3 a3) c3.1
  have t4 := Sbox.F64.invSbox_pow (Gen.F64.add y4 a4) c4.1
  have t5 := Sbox.F64.invSbox_pow (Gen.F64.add y5 a5) c5.1
  have t6 := Sbox.F64.invSbox_pow (Gen.F64.add y6 a6) c6.1
  have t7 := Sbox.F64.invSbox_pow (Gen.F64.add y7 a7) c7.1
  have t8 := Sbox.F64.invSbox_pow (Gen.F64.add y8 a8) c8.1
  have t9 := Sbox.F64.invSbox_pow (Gen.F64.add y9 a9) c9.1
  have t10 := Sbox.F64.invSbox_pow (Gen.F64.add y10 a10) c10.1
  have t11 := Sbox.F64.invSbox_pow (Gen.F64.add y11 a11) c11.1
  obtain ⟨z0, z1, z2, z3, z4, z5, z6, z7, z8, z9, z10, z11, hz, ⟨bz0, vz0⟩, ⟨bz1, vz1⟩, ⟨bz2, vz2⟩, ⟨bz3, vz3⟩, ⟨bz4, vz4⟩, ⟨bz5, vz5⟩, ⟨bz6, vz6⟩, ⟨bz7, vz7⟩, ⟨bz8, vz8⟩, ⟨bz9, vz9⟩, ⟨bz10, vz10⟩, ⟨bz11, vz11⟩⟩ :=
    mds_spec (Model.Rescue.F64.invSbox (Gen.F64.add y0 a0)) (Model.Rescue.F64.invSbox (Gen.F64.add y1 a1)) (Model.Rescue.F64.invSbox (Gen.F64.add y2 a2)) (Model.Rescue.F64.invSbox (Gen.F64.add y3 a3)) (Model.Rescue.F64.invSbox (Gen.F64.add y4 a4)) (Model.Rescue.F64.invSbox (Gen.F64.add y5 a5)) (Model.Rescue.F64.invSbox (Gen.F64.add y6 a6)) (Model.Rescue.F64.invSbox (Gen.F64.add y7 a7)) (Model.Rescue.F64.invSbox (Gen.F64.add y8 a8)) (Model.Rescue.F64.invSbox (Gen.F64.add y9 a9)) (Model.Rescue.F64.invSbox (Gen.F64.add y10 a10)) (Model.Rescue.F64.invSbox (Gen.F64.add y11 a11)) (Nat.lt_trans t0.1 (by decide)) (Nat.lt_trans t1.1 (by decide)) (Nat.lt_trans t2.1 (by decide)) (Nat.lt_trans t3.1 (by decide)) (Nat.lt_trans t4.1 (by decide)) (Nat.lt_trans t5.1 (by decide)) (Nat.lt_trans t6.1 (by decide)) (Nat.lt_trans t7.1 (by decide)) (Nat.lt_trans t8.1 (by decide)) (Nat.lt_trans t9.1 (by decide)) (Nat.lt_trans t10.1 (by decide)) (Nat.lt_trans t11.1 (by decide))
  have d0 := add_any z0 b0 bz0 hb0
  have d1 := add_any z1 b1 bz1 hb1
  have d2 := add_any z2 b2 bz2 hb2
  have d3 := add_any z3 b3 bz3 hb3
  have d4 := add_any z4 b4 bz4 hb4
  have d5 := add_any z5 b5 bz5 hb5
  have d6 := add_any z6 b6 bz6 hb6
  have d7 := add_any z7 b7 bz7 hb7
  have d8 := add_any z8 b8 bz8 hb8
  have d9 := add_any z9 b9 bz9 hb9
  have d10 := add_any z10 b10 bz10 hb10
  have d11 := add_any z11 b11 bz11 hb11
  have hr : roundWith rp64 [x0, x1, x2, x3, x4, x5, x6, x7, x8, x9, x10, x11] [a0, a1, a2, a3, a4, a5, a6, a7, a8, a9, a10, a11] [b0, b1, b2, b3, b4, b5, b6, b7, b8, b9, b10, b11]
      = [Gen.F64.add z0 b0, Gen.F64.add z1 b1, Gen.F64.add z2 b2, Gen.F64.add z3 b3, Gen.F64.add z4 b4, Gen.F64.add z5 b5, Gen.F64.add z6 b6, Gen.F64.add z7 b7, Gen.F64.add z8 b8, Gen.F64.add z9 b9, Gen.F64.add z10 b10, Gen.F64.add z11 b11] := by
    simp only [roundWith, addConstants, ps, pi, pm, pa, List.map_cons, List.map_nil, hy, List.zipWith_cons_cons,
      List.zipWith_nil_left, hz]
  rw [hr]
  constructor
  · intro e he
    simp only [List.mem_cons, List.not_mem_nil, or_false] at he
    rcases he with rfl | rfl | rfl | rfl | rfl | rfl | rfl | rfl | rfl | rfl | rfl | rfl
    · exact d0.1
    · exact d1.1
    · exact d2.1
    · exact d3.1
    · exact d4.1
    · exact d5.1
    · exact d6.1
    · exact d7.1
    · exact d8.1
    · exact d9.1
    · exact d10.1
    · exact d11.1
  · simp only [refRound_eq, matVecZ_eq, dotZ_eq, mds_table_eq, map_cons', map_nil', zipWith_cons',
      zipWith_nil', sum_cons', sum_nil', add_zero,
      hA, hI, Nat.cast_ofNat, add_assoc,
      d0.2, d1.2, d2.2, d3.2, d4.2, d5.2, d6.2, d7.2, d8.2, d9.2, d10.2, d11.2,
      vz0, vz1, vz2, vz3, vz4, vz5, vz6, vz7, vz8, vz9, vz10, vz11,
      t0.2, t1.2, t2.2, t3.2, t4.2, t5.2, t6.2, t7.2, t8.2, t9.2, t10.2, t11.2,
      c0.2, c1.2, c2.2, c3.2, c4.2, c5.2, c6.2, c7.2, c8.2, c9.2, c10.2, c11.2,
      vy0, vy1, vy2, vy3, vy4, vy5, vy6, vy7, vy8, vy9, vy10, vy11,
      s0.2, s1.2, s2.2, s3.2, s4.2, s5.2, s6.2, s7.2, s8.2, s9.2, s10.2, s11.2]


/-! ### the permutation -/

theorem explicit12 (l : List Nat) (h : l.length = 12) : ∃ x0 x1 x2 x3 x4 x5 x6 x7 x8 x9 x10 x11 : Nat, l = [x0, x1, x2, x3, x4, x5, x6, x7, x8, x9, x10, x11] := by
  rcases l with _ | ⟨x0, l⟩
  · simp at h
  rcases l with _ | ⟨x1, l⟩
  · simp at h
  rcases l with _ | ⟨x2, l⟩
  · simp at h
  rcases l with _ | ⟨x3, l⟩
  · simp at h
  rcases l with _ | ⟨x4, l⟩
  · simp at h
  rcases l with _ | ⟨x5, l⟩
  · simp at h
  rcases l with _ | ⟨x6, l⟩
  · simp at h
  rcases l with _ | ⟨x7, l⟩
  · simp at h
  rcases l with _ | ⟨x8, l⟩
  · simp at h
  rcases l with _ | ⟨x9, l⟩
  · simp at h
  rcases l with _ | ⟨x10, l⟩
  · simp at h
  rcases l with _ | ⟨x11, l⟩
  · simp at h
  rcases l with _ | ⟨y, l⟩
  · exact ⟨x0, x1, x2, x3, x4, x5, x6, x7, x8, x9, x10, x11, rfl⟩
  · simp at h

theorem mds_len (l : List Nat) (h : l.length = 12) : (mds12 l).length = 12 := by
  obtain ⟨x0, x1, x2, x3, x4, x5, x6, x7, x8, x9, x10, x11, rfl⟩ := explicit12 l h
  show (match Gen.Mds12.mds_multiply x0 x1 x2 x3 x4 x5 x6 x7 x8 x9 x10 x11 with
    | (r0, r1, r2, r3, r4, r5, r6, r7, r8, r9, r10, r11) => [r0, r1, r2, r3, r4, r5, r6, r7, r8, r9, r10, r11]).length = 12
  generalize Gen.Mds12.mds_multiply x0 x1 x2 x3 x4 x5 x6 x7 x8 x9 x10 x11 = t
  obtain ⟨r0, r1, r2, r3, r4, r5, r6, r7, r8, r9, r10, r11⟩ := t
  rfl

/-- the round on lists of the right length -/
theorem round_list (st k1 k2 : List Nat)
    (hl : st.length = 12) (hl1 : k1.length = 12) (hl2 : k2.length = 12) (hs : AllInv S64 st)
    (h1 : ∀ k ∈ k1, k ≤ 18446744065119617025) (h2 : ∀ k ∈ k2, k ≤ 18446744065119617025) :
    (roundWith rp64 st k1 k2).length = 12 ∧ AllInv S64 (roundWith rp64 st k1 k2) ∧
    (roundWith rp64 st k1 k2).map val = refRound (st.map val) (k1.map val) (k2.map val) := by
  have hlen : (roundWith rp64 st k1 k2).length = 12 := by
    have e : roundWith rp64 st k1 k2 = List.zipWith Gen.F64.add
        (mds12 ((List.zipWith Gen.F64.add (mds12 (st.map Gen.F64.exp7)) k1).map Model.Rescue.F64.invSbox)) k2 := rfl
    rw [e, List.length_zipWith, mds_len _ (by rw [List.length_map, List.length_zipWith, mds_len _ (by rw [List.length_map, hl]), hl1]; exact Nat.min_self 12), hl2]
    exact Nat.min_self 12
  obtain ⟨x0, x1, x2, x3, x4, x5, x6, x7, x8, x9, x10, x11, rfl⟩ := explicit12 st hl
  obtain ⟨a0, a1, a2, a3, a4, a5, a6, a7, a8, a9, a10, a11, rfl⟩ := explicit12 k1 hl1
  obtain ⟨b0, b1, b2, b3, b4, b5, b6, b7, b8, b9, b10, b11, rfl⟩ := explicit12 k2 hl2
  have r := round_spec x0 x1 x2 x3 x4 x5 x6 x7 x8 x9 x10 x11 a0 a1 a2 a3 a4 a5 a6 a7 a8 a9 a10 a11 b0 b1 b2 b3 b4 b5 b6 b7 b8 b9 b10 b11
    (hs x0 (by simp)) (hs x1 (by simp)) (hs x2 (by simp)) (hs x3 (by simp)) (hs x4 (by simp)) (hs x5 (by simp)) (hs x6 (by simp)) (hs x7 (by simp)) (hs x8 (by simp)) (hs x9 (by simp)) (hs x10 (by simp)) (hs x11 (by simp))
    (h1 a0 (by simp)) (h1 a1 (by simp)) (h1 a2 (by simp)) (h1 a3 (by simp)) (h1 a4 (by simp)) (h1 a5 (by simp)) (h1 a6 (by simp)) (h1 a7 (by simp)) (h1 a8 (by simp)) (h1 a9 (by simp)) (h1 a10 (by simp)) (h1 a11 (by simp))
    (h2 b0 (by simp)) (h2 b1 (by simp)) (h2 b2 (by simp)) (h2 b3 (by simp)) (h2 b4 (by simp)) (h2 b5 (by simp)) (h2 b6 (by simp)) (h2 b7 (by simp)) (h2 b8 (by simp)) (h2 b9 (by simp)) (h2 b10 (by simp)) (h2 b11 (by simp))
  exact ⟨hlen, r.1, r.2⟩

def rowsLen (t : List (List Nat)) : Bool := t.all fun r => decide (r.length = 12)

theorem ark_rows_len : rowsLen Gen.Rp64.ARK1 = true ∧ rowsLen Gen.Rp64.ARK2 = true := by
  constructor <;> decide +kernel

def GoodK (k1 k2 : List Nat) : Prop :=
  k1.length = 12 ∧ k2.length = 12 ∧ (∀ k ∈ k1, k ≤ 18446744065119617025) ∧ (∀ k ∈ k2, k ≤ 18446744065119617025)

theorem row_good {t : List (List Nat)} (hs : Misc.arkSmall t = true) (hl : rowsLen t = true) {r : List Nat} (hr : r ∈ t) :
    (r.map Gen.F64.new).length = 12 ∧ ∀ k ∈ r.map Gen.F64.new, k ≤ 18446744065119617025 := by
  constructor
  · rw [List.length_map]
    have := (List.all_eq_true.mp hl) r hr
    simpa using this
  · intro k hk
    obtain ⟨c, hc, rfl⟩ := List.mem_map.mp hk
    have := (List.all_eq_true.mp ((List.all_eq_true.mp hs) r hr)) c hc
    simpa using this

theorem ark_good : ∀ k ∈ List.zip rp64.ark1 rp64.ark2, GoodK k.1 k.2 := by
  rintro ⟨ka, kb⟩ hk
  obtain ⟨h1, h2⟩ := List.of_mem_zip hk
  have e1 : rp64.ark1 = Gen.Rp64.ARK1.map (fun r => r.map Gen.F64.new) := rfl
  have e2 : rp64.ark2 = Gen.Rp64.ARK2.map (fun r => r.map Gen.F64.new) := rfl
  rw [e1] at h1
  rw [e2] at h2
  obtain ⟨r1, hr1, q1⟩ := List.mem_map.mp h1
  obtain ⟨r2, hr2, q2⟩ := List.mem_map.mp h2
  rw [← q1, ← q2]
  have g1 := row_good Misc.rp64_ark_small.1 ark_rows_len.1 hr1
  have g2 := row_good Misc.rp64_ark_small.2 ark_rows_len.2 hr2
  exact ⟨g1.1, g2.1, g1.2, g2.2⟩

/-- the reference permutation: the reference rounds with the constants of the tables, as residues -/
noncomputable def refPerm (v : List (ZMod P)) : List (ZMod P) :=
  (List.zip rp64.ark1 rp64.ark2).foldl (fun v k => refRound v (k.1.map val) (k.2.map val)) v

/-- `apply_permutation` on valid raw words denotes the reference permutation -/
theorem perm_sem (st : List Nat) (hl : st.length = 12)
    (hs : AllInv S64 st) :
    (applyPermutation rp64 st).length = 12 ∧ AllInv S64 (applyPermutation rp64 st) ∧
    (applyPermutation rp64 st).map val = refPerm (st.map val) :=
  fold_sem S64 rp64 12 GoodK refRound
    (fun st k1 k2 hl hi hg => round_list st k1 k2 hl hg.1 hg.2.1 hi hg.2.2.1 hg.2.2.2)
    (List.zip rp64.ark1 rp64.ark2) st ark_good hl hs

/-- the permutation as the sponge sees it -/
noncomputable def perm : PermSem rp64 P where
  S := S64
  refPerm := refPerm
  perm_ok := fun st hl hs => perm_sem st hl hs

end WinterProofs.C11.Round12
