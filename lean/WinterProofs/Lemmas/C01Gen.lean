-- tie T for C01: the definitions regenerated on this run from air/src/options.rs (`ProofOptions::new`, its
-- accessors, `to_fri_options`: Winter/Gen/ProofOpts.lean) and from fri/src/options.rs (`num_fri_layers`:
-- Winter/Gen/FriOpts.lean) coincide with the hand-written model of Winter/Model/Protocol.lean
-- (`Options.accepted`, `friLayers`, the `(remainder + 1) * blowup` bound of `schedule`) for all arguments.
import Winter.Model.Protocol
import Winter.Gen.FriOpts
import Winter.Gen.ProofOpts
import Winter.Gen.Degree
import Winter.Gen.AirContext
import Winter.Gen.TraceInfo
import WinterProofs.Lemmas.GenTactic

namespace C01G
open Model.Protocol

theorem isPow2_eq (x : Nat) : Gen.isPow2 x = isPow2 x := rfl

/-- ★ `ProofOptions::new`: the conjunction of the regenerated assertions (and of the no-overflow condition
    of `fri_remainder_max_degree + 1`) is the model's `accepted`, for ALL arguments (`e` = the
    `FieldExtension` argument, which no assertion reads) -/
theorem gen_new_ok_eq_accepted (q b g e ff fr : Nat) :
    Gen.ProofOpts.new_ok q b g e ff fr = Options.accepted ⟨q, b, g, ff, fr⟩ := by
  unfold Options.accepted
  unfold_gen Gen.ProofOpts
  simp only [isPow2_eq, gt_iff_lt, ge_iff_le]
  rw [Bool.eq_iff_iff]
  simp only [Bool.and_eq_true, decide_eq_true_eq]
  constructor <;> intro h <;> grind

/-- ★ the stored fields: under the assertions none of the `as u8` casts of the constructor truncates, so
    the regenerated struct is the argument tuple (declaration order of `ProofOptions`) -/
theorem gen_new_fields (q b g e ff fr : Nat) (h : Gen.ProofOpts.new_ok q b g e ff fr = true) :
    Gen.ProofOpts.new q b g e ff fr = (q, b, g, e, ff, fr) := by
  rw [gen_new_ok_eq_accepted] at h
  unfold Options.accepted at h
  simp only [Bool.and_eq_true, decide_eq_true_eq] at h
  obtain ⟨⟨⟨⟨⟨⟨⟨⟨⟨⟨h1, h2⟩, h3⟩, h4⟩, h5⟩, h6⟩, h7⟩, h8⟩, h9⟩, h10⟩, h11⟩ := h
  unfold_gen Gen.ProofOpts
  have e1 : q % 256 = q := Nat.mod_eq_of_lt (by omega)
  have e2 : b % 256 = b := Nat.mod_eq_of_lt (by omega)
  have e3 : g % 256 = g := Nat.mod_eq_of_lt (by omega)
  have e4 : ff % 256 = ff := Nat.mod_eq_of_lt (by omega)
  have e5 : fr % 256 = fr := Nat.mod_eq_of_lt (by omega)
  rw [e1, e2, e3, e4, e5]

/-- the accessors return the stored (`u8`) fields unchanged (`as usize` / `as u32` widen) -/
theorem gen_accessors (x : Nat) :
    Gen.ProofOpts.num_queries x = x ∧ Gen.ProofOpts.blowup_factor x = x ∧ Gen.ProofOpts.grinding_factor x = x ∧
    Gen.ProofOpts.field_extension x = x ∧ Gen.ProofOpts.num_queries_ok x = true ∧
    Gen.ProofOpts.blowup_factor_ok x = true ∧ Gen.ProofOpts.grinding_factor_ok x = true ∧
    Gen.ProofOpts.field_extension_ok x = true := by
  unfold_gen Gen.ProofOpts
  simp

/-- ★ `to_fri_options`: hands `(blowup_factor(), fri_folding_factor, fri_remainder_max_degree)` to
    `FriOptions::new`, whose assertions hold for everything `ProofOptions::new` accepts; the resulting
    `FriOptions` (folding factor, remainder max degree, blowup factor) are the three numbers the model's
    `schedule` computes with -/
theorem gen_to_fri_options (o : Options) (h : o.accepted = true) :
    Gen.ProofOpts.to_fri_options o.blowup o.folding o.remainder = (o.folding, o.remainder, o.blowup) ∧
    Gen.ProofOpts.to_fri_options_ok o.blowup o.folding o.remainder = true := by
  unfold Options.accepted at h
  simp only [Bool.and_eq_true, decide_eq_true_eq] at h
  obtain ⟨⟨⟨⟨⟨⟨⟨⟨⟨⟨h1, h2⟩, h3⟩, h4⟩, h5⟩, h6⟩, h7⟩, h8⟩, h9⟩, h10⟩, h11⟩ := h
  have hf : ∀ x, x ≤ 16 → isPow2 x = true → 2 ≤ x → (x = 2 ∨ x = 4 ∨ x = 8 ∨ x = 16) := by decide
  have := hf o.folding h9 h7 h8
  unfold_gen Gen.ProofOpts
  unfold_gen Gen.FriOpts
  simp only [isPow2_eq, h3, Bool.and_eq_true, decide_eq_true_eq, true_and]
  omega

/-- the translated loop of `num_fri_layers` against the model's `friLayers` -/
theorem loop_eq (maxRem f : Nat) (hf : 2 ≤ f) :
    ∀ (fuel d r : Nat), d < 2 ^ fuel →
      (Gen.FriOpts.num_fri_layers.loop1 f maxRem fuel d r).2 = r + (friLayers d maxRem f).1 := by
  intro fuel
  induction fuel with
  | zero =>
    intro d r hd
    have : d = 0 := by omega
    subst this
    rw [friLayers]
    simp [Gen.FriOpts.num_fri_layers.loop1]
  | succ k ih =>
    intro d r hd
    rw [friLayers, Gen.FriOpts.num_fri_layers.loop1]
    unfold_gen Gen.FriOpts
    by_cases h : maxRem < d
    · have hd' : d / f < 2 ^ k := by
        have h1 : d / f ≤ d / 2 := Nat.div_le_div_left hf (by omega)
        have h2 : d / 2 < 2 ^ k := by rw [Nat.pow_succ] at hd; omega
        omega
      have hc : maxRem < d ∧ 2 ≤ f := ⟨h, hf⟩
      simp only [gt_iff_lt, h, decide_true, if_true, hc, and_self, dite_true]
      rw [ih (d / f) (r + 1) hd']
      omega
    · have hc : ¬ (maxRem < d ∧ 2 ≤ f) := fun c => h c.1
      simp [h]

/-- ★ `FriOptions::num_fri_layers` as translated from the source on this run equals the layer count of the
    model's FRI schedule, for every folding factor `≥ 2`, every `usize` domain size and every fuel `≥ 64` -/
theorem gen_num_fri_layers_eq_friLayers (b f r d N : Nat) (hf : 2 ≤ f) (hd : d < 18446744073709551616)
    (hN : 64 ≤ N) :
    Gen.FriOpts.num_fri_layers N b f r d = (friLayers d ((r + 1) * b) f).1 := by
  have e64 : (2 : Nat) ^ 64 = 18446744073709551616 := by decide
  have hd64 : d < 2 ^ 64 := by rw [e64]; exact hd
  have hpow : d < 2 ^ N := Nat.lt_of_lt_of_le hd64 (Nat.pow_le_pow_right (by omega) hN)
  unfold_gen Gen.FriOpts
  rw [loop_eq _ _ hf N d 0 hpow]; omega

/-- in terms of the schedule of an accepted option set -/
theorem gen_num_fri_layers_eq_schedule (o : Options) (h : o.accepted = true) (lde N : Nat)
    (hd : lde < 18446744073709551616) (hN : 64 ≤ N) :
    Gen.FriOpts.num_fri_layers N o.blowup o.folding o.remainder lde = (schedule lde o).layers := by
  unfold Options.accepted at h
  simp only [Bool.and_eq_true, decide_eq_true_eq] at h
  exact gen_num_fri_layers_eq_friLayers _ _ _ _ _ h.1.1.1.2 hd hN

/-! ## air/src/air/transition/degree.rs and air/src/air/context.rs (Winter/Gen/Degree.lean, AirContext.lean) -/

/-- the translated `for` loop of `get_evaluation_degree` adds the model's cycle terms to the running sum -/
theorem evalLoop_eq (n : Nat) : ∀ (cs : List Nat) (r : Nat),
    Gen.Degree.get_evaluation_degree.for1 n cs r = r + (cs.map (fun c => (n / c) * (c - 1))).sum := by
  intro cs
  induction cs with
  | nil => intro r; simp [Gen.Degree.get_evaluation_degree.for1]
  | cons c t ih =>
    intro r
    rw [Gen.Degree.get_evaluation_degree.for1]
    unfold_gen Gen.Degree
    rw [ih]; simp only [List.map_cons, List.sum_cons]; omega

/-- ★ `TransitionConstraintDegree::get_evaluation_degree` (regenerated) is the model's `evalDegree`, for
    ALL arguments -/
theorem gen_get_evaluation_degree_eq (d : Degree) (n : Nat) :
    Gen.Degree.get_evaluation_degree d.base d.cycles n = d.evalDegree n := by
  unfold Degree.evalDegree
  unfold_gen Gen.Degree
  rw [evalLoop_eq]

/-- no overflow / underflow in the loop: every cycle length is non-zero and the final sum fits a `usize`
    (the partial sums are increasing) -/
theorem evalLoop_ok (n : Nat) : ∀ (cs : List Nat) (r : Nat),
    Gen.Degree.get_evaluation_degree.for1_ok n cs r = true ↔
      ((∀ c ∈ cs, c ≠ 0) ∧ (cs = [] ∨ r + (cs.map (fun c => (n / c) * (c - 1))).sum < 18446744073709551616)) := by
  intro cs
  induction cs with
  | nil => intro r; simp [Gen.Degree.get_evaluation_degree.for1_ok]
  | cons c t ih =>
    intro r
    rw [Gen.Degree.get_evaluation_degree.for1_ok]
    unfold_gen Gen.Degree
    simp only [Bool.and_eq_true, decide_eq_true_eq, ih, List.mem_cons, forall_eq_or_imp, List.map_cons,
      List.sum_cons, reduceCtorEq, false_or, ne_eq]
    have hsum : ∀ t : List Nat, 0 ≤ (t.map (fun c => (n / c) * (c - 1))).sum := fun _ => Nat.zero_le _
    constructor
    · rintro ⟨⟨⟨⟨h1, h2⟩, h3⟩, h4⟩, h5, h6⟩
      refine ⟨⟨h1, h5⟩, ?_⟩
      rcases h6 with h6 | h6
      · subst h6; simp; omega
      · omega
    · rintro ⟨⟨h1, h5⟩, h6⟩
      refine ⟨⟨⟨⟨h1, by omega⟩, by omega⟩, by omega⟩, h5, ?_⟩
      by_cases ht : t = []
      · exact Or.inl ht
      · right; omega

/-- ★ its no-panic condition, exactly: a non-empty trace (`trace_length - 1`), no zero cycle length
    (`trace_length / cycle_length`) and a result that fits a `usize` -/
theorem gen_get_evaluation_degree_ok_iff (d : Degree) (n : Nat) :
    Gen.Degree.get_evaluation_degree_ok d.base d.cycles n = true ↔
      (1 ≤ n ∧ (∀ c ∈ d.cycles, c ≠ 0) ∧ d.evalDegree n < 18446744073709551616) := by
  unfold Degree.evalDegree
  unfold_gen Gen.Degree
  simp only [Bool.and_eq_true, decide_eq_true_eq, evalLoop_ok]
  constructor
  · rintro ⟨⟨h1, h2⟩, h3, h4⟩
    refine ⟨h1, h3, ?_⟩
    rcases h4 with h4 | h4
    · rw [h4]; simpa using h2
    · exact h4
  · rintro ⟨h1, h3, h4⟩
    exact ⟨⟨h1, by omega⟩, h3, Or.inr h4⟩

/-- ★ `min_blowup_factor` (regenerated) is the model's `minBlowup`, for ALL arguments; it does not panic
    exactly when `base + cycles.len()` is at least one and fits, and the power of two fits -/
theorem gen_min_blowup_factor_eq (d : Degree) :
    Gen.Degree.min_blowup_factor d.base d.cycles = d.minBlowup ∧
    (Gen.Degree.min_blowup_factor_ok d.base d.cycles = true ↔
      (d.base + d.cycles.length < 18446744073709551616 ∧ 1 ≤ d.base + d.cycles.length ∧
        nextPow2 (d.base + d.cycles.length - 1) < 18446744073709551616)) := by
  have hn : ∀ x, Gen.nextPow2 x = nextPow2 x := fun _ => rfl
  unfold Degree.minBlowup
  unfold_gen Gen.Degree
  simp only [hn, Bool.and_eq_true, decide_eq_true_eq]
  refine ⟨trivial, ?_⟩
  constructor <;> intro h <;> grind

/-- the translated maximum loop of `num_constraint_composition_columns` -/
theorem highestLoop_eq (n : Nat) (ok : Degree → Nat → Bool) : ∀ (ds : List Degree) (h : Nat),
    Gen.AirContext.num_constraint_composition_columns.for1 (fun d m => d.evalDegree m) ok n ds h =
      (ds.map (·.evalDegree n)).foldl max h := by
  intro ds
  induction ds with
  | nil => intro h; simp [Gen.AirContext.num_constraint_composition_columns.for1]
  | cons d t ih =>
    intro h
    rw [Gen.AirContext.num_constraint_composition_columns.for1]
    unfold_gen Gen.AirContext
    rw [ih]
    simp only [List.map_cons, List.foldl_cons, gt_iff_lt]
    congr 1
    by_cases hc : h < d.evalDegree n
    · simp [hc]; omega
    · simp [hc]; omega

theorem highestLoop_ok (n : Nat) (ok : Degree → Nat → Bool) : ∀ (ds : List Degree) (h : Nat),
    Gen.AirContext.num_constraint_composition_columns.for1_ok (fun d m => d.evalDegree m) ok n ds h = true ↔
      ∀ d ∈ ds, ok d n = true := by
  intro ds
  induction ds with
  | nil => intro h; simp [Gen.AirContext.num_constraint_composition_columns.for1_ok]
  | cons d t ih =>
    intro h
    rw [Gen.AirContext.num_constraint_composition_columns.for1_ok]
    unfold_gen Gen.AirContext
    simp only [Bool.and_eq_true, decide_eq_true_eq, ih, List.mem_cons, forall_eq_or_imp]

/-- ★ `AirContext::num_constraint_composition_columns` (regenerated; the degrees' `get_evaluation_degree`
    enters as a function parameter, instantiated with the model's `evalDegree`) is the model's
    `compositionColumns` of the main and auxiliary degrees, for ALL arguments -/
theorem gen_composition_columns_eq (ok : Degree → Nat → Bool) (md ad : List Degree) (n e : Nat) :
    Gen.AirContext.num_constraint_composition_columns (fun d m => d.evalDegree m) ok ad md e n =
      compositionColumns (md ++ ad) n e := by
  unfold compositionColumns highestDegree
  unfold_gen Gen.AirContext
  rw [highestLoop_eq]

/-- ★ its no-panic condition, exactly: every `get_evaluation_degree` call succeeds, the exemptions do not
    exceed the trace length, the highest evaluation degree is at least the divisor degree (the checked
    subtraction `highest_constraint_degree - transition_divisior_degree`), the trace is non-empty -/
theorem gen_composition_columns_ok_iff (ok : Degree → Nat → Bool) (md ad : List Degree) (n e : Nat) :
    Gen.AirContext.num_constraint_composition_columns_ok (fun d m => d.evalDegree m) ok ad md e n = true ↔
      ((∀ d ∈ md ++ ad, ok d n = true) ∧ e ≤ n ∧ n - e ≤ highestDegree (md ++ ad) n ∧ n ≠ 0 ∧
        (highestDegree (md ++ ad) n - (n - e)) / n + 1 < 18446744073709551616) := by
  unfold highestDegree
  unfold_gen Gen.AirContext
  simp only [Bool.and_eq_true, decide_eq_true_eq, highestLoop_ok, highestLoop_eq]
  constructor <;> intro h <;> grind

/-- ★ the accessors of `AirContext` against the quantities of the model's `glue`:
    `trace_poly_degree = n - 1`, `ce_domain_size = n · ce_blowup`, `lde_domain_size = n · blowup`
    (with their exact no-overflow conditions), `num_assertions`, `num_transition_constraints` -/
theorem gen_context_accessors (n ce b : Nat) :
    Gen.AirContext.trace_len n = n ∧
    Gen.AirContext.trace_poly_degree n = n - 1 ∧ (Gen.AirContext.trace_poly_degree_ok n = true ↔ 1 ≤ n) ∧
    Gen.AirContext.ce_domain_size ce n = n * ce ∧
    (Gen.AirContext.ce_domain_size_ok ce n = true ↔ n * ce < 18446744073709551616) ∧
    Gen.AirContext.lde_domain_size b n = n * b ∧
    (Gen.AirContext.lde_domain_size_ok b n = true ↔ n * b < 18446744073709551616) := by
  unfold_gen Gen.AirContext
  simp

/-- ★ on everything the constructors accept (`glue … = ok g`): the regenerated accessors return the
    quantities of `g`, and `num_constraint_composition_columns` does not panic (sizes within `usize`,
    every `get_evaluation_degree` call succeeding) -/
theorem gen_glue (n : Nat) (o : Options) (e mw aw nr : Nat) (md ad : List Degree) (g : Glue)
    (h : glue n o e mw aw nr md ad = .ok g) :
    g.tracePolyDegree = Gen.AirContext.trace_poly_degree n ∧
    g.ceDomain = Gen.AirContext.ce_domain_size g.ceBlowup n ∧
    g.ldeDomain = Gen.AirContext.lde_domain_size o.blowup n ∧
    g.columns = Gen.AirContext.num_constraint_composition_columns (fun d m => d.evalDegree m)
      (fun _ _ => true) ad md e n := by
  rw [gen_composition_columns_eq]
  unfold glue at h
  split at h; · cases h
  split at h; · cases h
  split at h; · cases h
  split at h; · cases h
  split at h; · cases h
  simp only [] at h
  split at h; · cases h
  split at h; · cases h
  injection h with h
  subst h
  unfold_gen Gen.AirContext
  exact ⟨rfl, rfl, rfl, rfl⟩

/-! ## the constructors: `TraceInfo::new_multi_segment`, `AirContext::new_multi_segment`,
    `AirContext::set_num_transition_exemptions` -/

/-- ★ `TraceInfo::new_multi_segment` (regenerated from air/src/air/trace_info.rs): its assertions are the
    model's `traceInfoAccepted` together with the metadata bound, for ALL arguments; the struct stores the
    arguments -/
theorem gen_trace_info_new (mw aw nr n : Nat) (mt : List Nat) :
    Gen.TraceInfo.new_multi_segment_ok mw aw nr n mt =
      (traceInfoAccepted mw aw nr n && decide (mt.length ≤ 65535)) ∧
    Gen.TraceInfo.new_multi_segment mw aw nr n mt = (mw, aw, nr, n, mt) := by
  unfold traceInfoAccepted
  unfold_gen Gen.TraceInfo
  refine ⟨?_, rfl⟩
  simp only [isPow2_eq, gt_iff_lt, ge_iff_le]
  rw [Bool.eq_iff_iff]
  simp only [Bool.and_eq_true, Bool.or_eq_true, decide_eq_true_eq]
  constructor <;> intro h <;> grind

/-- the accessors of `TraceInfo` the context constructor reads -/
theorem gen_trace_info_accessors (mw aw n : Nat) :
    Gen.TraceInfo.length n = n ∧ Gen.TraceInfo.is_multi_segment aw = decide (0 < aw) ∧
    Gen.TraceInfo.get_aux_segment_width aw = aw ∧ Gen.TraceInfo.width aw mw = mw + aw := by
  unfold_gen Gen.TraceInfo
  simp

theorem ceLoop1_eq (ok : Degree → Bool) : ∀ (ds : List Degree) (h : Nat),
    Gen.AirContext.new_multi_segment.for1 Degree.minBlowup ok ds h = (ds.map Degree.minBlowup).foldl max h := by
  intro ds
  induction ds with
  | nil => intro h; simp [Gen.AirContext.new_multi_segment.for1]
  | cons d t ih =>
    intro h
    rw [Gen.AirContext.new_multi_segment.for1]
    unfold_gen Gen.AirContext
    rw [ih]
    simp only [List.map_cons, List.foldl_cons, gt_iff_lt]
    congr 1
    by_cases hc : h < d.minBlowup
    · simp [hc]; omega
    · simp [hc]; omega

theorem ceLoop2_eq (ok : Degree → Bool) : ∀ (ds : List Degree) (h : Nat),
    Gen.AirContext.new_multi_segment.for2 Degree.minBlowup ok ds h = (ds.map Degree.minBlowup).foldl max h := by
  intro ds
  induction ds with
  | nil => intro h; simp [Gen.AirContext.new_multi_segment.for2]
  | cons d t ih =>
    intro h
    rw [Gen.AirContext.new_multi_segment.for2]
    unfold_gen Gen.AirContext
    rw [ih]
    simp only [List.map_cons, List.foldl_cons, gt_iff_lt]
    congr 1
    by_cases hc : h < d.minBlowup
    · simp [hc]; omega
    · simp [hc]; omega

theorem ceLoop1_ok (ok : Degree → Bool) : ∀ (ds : List Degree) (h : Nat),
    Gen.AirContext.new_multi_segment.for1_ok Degree.minBlowup ok ds h = true ↔ ∀ d ∈ ds, ok d = true := by
  intro ds
  induction ds with
  | nil => intro h; simp [Gen.AirContext.new_multi_segment.for1_ok]
  | cons d t ih =>
    intro h
    rw [Gen.AirContext.new_multi_segment.for1_ok]
    unfold_gen Gen.AirContext
    simp only [Bool.and_eq_true, decide_eq_true_eq, ih, List.mem_cons, forall_eq_or_imp]
    grind

theorem ceLoop2_ok (ok : Degree → Bool) : ∀ (ds : List Degree) (h : Nat),
    Gen.AirContext.new_multi_segment.for2_ok Degree.minBlowup ok ds h = true ↔ ∀ d ∈ ds, ok d = true := by
  intro ds
  induction ds with
  | nil => intro h; simp [Gen.AirContext.new_multi_segment.for2_ok]
  | cons d t ih =>
    intro h
    rw [Gen.AirContext.new_multi_segment.for2_ok]
    unfold_gen Gen.AirContext
    simp only [Bool.and_eq_true, decide_eq_true_eq, ih, List.mem_cons, forall_eq_or_imp]
    grind

/-- ★ `AirContext::new_multi_segment` (regenerated; `min_blowup_factor` of the degrees as a function parameter,
    instantiated with the model's `minBlowup`): the stored `ce_blowup_factor` is the model's `ceBlowup` of the
    main AND the auxiliary degrees (the two maximum loops), the trace length and the LDE domain size are
    `n` and `n · blowup`, for ALL arguments -/
theorem gen_air_context_new_value (ok : Degree → Bool) (auxw : Nat) (multi : Bool) (n : Nat) (md ad : List Degree)
    (nma naa : Nat) (ls : Bool) (li b : Nat) :
    Gen.AirContext.new_multi_segment Degree.minBlowup ok auxw multi n md ad nma naa ls li b =
      (ceBlowup (md ++ ad), n, n * b) := by
  unfold ceBlowup
  unfold_gen Gen.AirContext
  rw [ceLoop1_eq, ceLoop2_eq, List.map_append, List.foldl_append]

/-- ★ its assertions, exactly: at least one main degree and one main assertion; for a multi-segment trace at
    least one auxiliary degree and assertion, otherwise none of either; a Lagrange kernel column must be the last
    auxiliary column; every `min_blowup_factor` call succeeds; `blowup_factor ≥ ce_blowup_factor`; the LDE
    domain size fits a `usize` -/
theorem gen_air_context_new_ok_iff (ok : Degree → Bool) (auxw : Nat) (multi : Bool) (n : Nat) (md ad : List Degree)
    (nma naa : Nat) (ls : Bool) (li b : Nat) :
    Gen.AirContext.new_multi_segment_ok Degree.minBlowup ok auxw multi n md ad nma naa ls li b = true ↔
      (md ≠ [] ∧ 0 < nma ∧ (multi = true → ad ≠ [] ∧ 0 < naa) ∧ (multi = false → ad = [] ∧ naa = 0) ∧
        (ls = true → 1 ≤ auxw ∧ li = auxw - 1) ∧ (∀ d ∈ md ++ ad, ok d = true) ∧
        ceBlowup (md ++ ad) ≤ b ∧ n * b < 18446744073709551616) := by
  unfold ceBlowup
  unfold_gen Gen.AirContext
  simp only [Bool.and_eq_true, decide_eq_true_eq, ceLoop1_ok, ceLoop2_ok, ceLoop1_eq, ceLoop2_eq,
    List.map_append, List.foldl_append, List.isEmpty_iff, List.mem_append, Bool.decide_eq_true, ge_iff_le,
    gt_iff_lt]
  cases multi <;> cases ls <;> simp <;> grind

/-- ★ on everything the model's `glue` accepts the regenerated constructor's assertions hold (one assertion per
    segment, no Lagrange column, LDE domain within `usize`), and the `ce_blowup_factor` it stores is `g.ceBlowup` -/
theorem gen_air_context_new_of_glue (n : Nat) (o : Options) (e mw aw nr : Nat) (md ad : List Degree) (g : Glue)
    (h : glue n o e mw aw nr md ad = .ok g) (hlde : n * o.blowup < 18446744073709551616) :
    Gen.AirContext.new_multi_segment_ok Degree.minBlowup (fun _ => true) aw (Gen.TraceInfo.is_multi_segment aw) n
      md ad 1 (if 0 < aw then 1 else 0) false 0 o.blowup = true ∧
    (Gen.AirContext.new_multi_segment Degree.minBlowup (fun _ => true) aw (Gen.TraceInfo.is_multi_segment aw) n
      md ad 1 (if 0 < aw then 1 else 0) false 0 o.blowup).1 = g.ceBlowup := by
  rw [gen_air_context_new_value, gen_air_context_new_ok_iff, (gen_trace_info_accessors mw aw n).2.1]
  unfold glue at h
  split at h; · cases h
  split at h; · cases h
  split at h; · cases h
  split at h; · cases h
  rename_i hme
  split at h; · cases h
  rename_i hseg
  simp only [] at h
  split at h; · cases h
  rename_i hce
  split at h; · cases h
  injection h with h
  subst h
  refine ⟨⟨?_, by omega, ?_, ?_, by simp, by simp, by omega, hlde⟩, rfl⟩
  · intro hc; rw [hc] at hme; simp at hme
  · intro hm
    simp only [decide_eq_true_eq] at hm
    have : aw ≠ 0 := by omega
    constructor
    · intro hc; rw [hc] at hseg; simp [this] at hseg
    · simp [hm]
  · intro hm
    simp only [decide_eq_false_iff_not] at hm
    have : aw = 0 := by omega
    constructor
    · cases had : ad with
      | nil => rfl
      | cons x t => rw [had] at hseg; simp [this] at hseg
    · simp [this]

theorem exLoop_ok (ok : Degree → Nat → Bool) (ced n e : Nat) : ∀ (ds : List Degree),
    Gen.AirContext.set_num_transition_exemptions.for1_ok (fun d m => d.evalDegree m) ok ced n e ds = true ↔
      ∀ d ∈ ds, (ok d n = true ∧ 1 ≤ ced ∧ ced - 1 + n < 18446744073709551616 ∧
        d.evalDegree n ≤ ced - 1 + n ∧ e ≤ ced - 1 + n - d.evalDegree n) := by
  intro ds
  induction ds with
  | nil => simp [Gen.AirContext.set_num_transition_exemptions.for1_ok]
  | cons d t ih =>
    rw [Gen.AirContext.set_num_transition_exemptions.for1_ok]
    unfold_gen Gen.AirContext
    simp only [Bool.and_eq_true, decide_eq_true_eq, ih, List.mem_cons, forall_eq_or_imp]
    grind

/-- ★ `set_num_transition_exemptions` (regenerated; `get_evaluation_degree` as a function parameter): wherever
    its own arithmetic cannot overflow (`ce_domain_size ≥ 1`, `ce_domain_size - 1 + trace_len` and
    `trace_len / 2 + 1` within `usize`, every `get_evaluation_degree` call succeeding) its assertions — including
    the checked subtraction `max_constraint_composition_degree + trace_len - eval_degree` — are exactly the
    model's `exemptionsAccepted`: `0 < n ≤ trace_len/2 + 1` and `n ≤ ce_domain_size - 1 + trace_len - eval_degree`
    for every main and auxiliary degree -/
theorem gen_set_exemptions_ok (ok : Degree → Nat → Bool) (md ad : List Degree) (n ce old e : Nat)
    (hok : ∀ d ∈ md ++ ad, ok d n = true) (hce : 1 ≤ n * ce)
    (h1 : n * ce - 1 + n < 18446744073709551616) (h2 : n / 2 + 1 < 18446744073709551616) :
    Gen.AirContext.set_num_transition_exemptions_ok (fun d m => d.evalDegree m) ok ad (n * ce) md old n e =
      exemptionsAccepted (md ++ ad) n ce e := by
  unfold exemptionsAccepted exemptionsBound
  unfold_gen Gen.AirContext
  rw [Bool.eq_iff_iff]
  simp only [Bool.and_eq_true, decide_eq_true_eq, exLoop_ok, List.all_eq_true, gt_iff_lt]
  constructor
  · rintro ⟨⟨⟨⟨h0, _⟩, _⟩, hle⟩, hall⟩
    exact ⟨⟨h0, hle⟩, fun d hd => (hall d hd).2.2.2.2⟩
  · rintro ⟨⟨h0, hle⟩, hall⟩
    refine ⟨⟨⟨⟨h0, by omega⟩, h2⟩, hle⟩, fun d hd => ⟨hok d hd, hce, h1, ?_, hall d hd⟩⟩
    have := hall d hd
    omega

end C01G
