-- tie T for C01: the definitions regenerated on this run from air/src/options.rs (`ProofOptions::new`, its
-- accessors, `to_fri_options`: Winter/Gen/ProofOpts.lean) and from fri/src/options.rs (`num_fri_layers`:
-- Winter/Gen/FriOpts.lean) coincide with the hand-written model of Winter/Model/Protocol.lean
-- (`Options.accepted`, `friLayers`, the `(remainder + 1) * blowup` bound of `schedule`) for all arguments.
import Winter.Model.Protocol
import Winter.Gen.FriOpts
import Winter.Gen.ProofOpts
import WinterProofs.Lemmas.GenTactic

namespace C01G
open Model.Protocol

theorem isPow2_eq (x : Nat) : Gen.isPow2 x = isPow2 x := rfl

/-- ★ `ProofOptions::new`: the conjunction of the regenerated assertions (and of the no-overflow condition
    of `fri_remainder_max_degree + 1`) is the model's `accepted`, for ALL arguments (`e` = the
    `FieldExtension` argument, which no assertion reads) -/
theorem gen_new_ok_eq_accepted (q b g e ff fr : Nat) :
    Gen.ProofOpts.new_ok q b g e ff fr = Options.accepted ⟨q, b, g, ff, fr⟩ := by
  unfold Options.accepted
  unfold_gen Gen.ProofOpts
  simp only [isPow2_eq, gt_iff_lt, ge_iff_le]
  rw [Bool.eq_iff_iff]
  simp only [Bool.and_eq_true, decide_eq_true_eq]
  constructor <;> intro h <;> grind

/-- ★ the stored fields: under the assertions none of the `as u8` casts of the constructor truncates, so
    the regenerated struct is the argument tuple (declaration order of `ProofOptions`) -/
theorem gen_new_fields (q b g e ff fr : Nat) (h : Gen.ProofOpts.new_ok q b g e ff fr = true) :
    Gen.ProofOpts.new q b g e ff fr = (q, b, g, e, ff, fr) := by
  rw [gen_new_ok_eq_accepted] at h
  unfold Options.accepted at h
  simp only [Bool.and_eq_true, decide_eq_true_eq] at h
  obtain ⟨⟨⟨⟨⟨⟨⟨⟨⟨⟨h1, h2⟩, h3⟩, h4⟩, h5⟩, h6⟩, h7⟩, h8⟩, h9⟩, h10⟩, h11⟩ := h
  unfold_gen Gen.ProofOpts
  have e1 : q % 256 = q := Nat.mod_eq_of_lt (by omega)
  have e2 : b % 256 = b := Nat.mod_eq_of_lt (by omega)
  have e3 : g % 256 = g := Nat.mod_eq_of_lt (by omega)
  have e4 : ff % 256 = ff := Nat.mod_eq_of_lt (by omega)
  have e5 : fr % 256 = fr := Nat.mod_eq_of_lt (by omega)
  rw [e1, e2, e3, e4, e5]

/-- the accessors return the stored (`u8`) fields unchanged (`as usize` / `as u32` widen) -/
theorem gen_accessors (x : Nat) :
    Gen.ProofOpts.num_queries x = x ∧ Gen.ProofOpts.blowup_factor x = x ∧ Gen.ProofOpts.grinding_factor x = x ∧
    Gen.ProofOpts.field_extension x = x ∧ Gen.ProofOpts.num_queries_ok x = true ∧
    Gen.ProofOpts.blowup_factor_ok x = true ∧ Gen.ProofOpts.grinding_factor_ok x = true ∧
    Gen.ProofOpts.field_extension_ok x = true := by
  unfold_gen Gen.ProofOpts
  simp

/-- ★ `to_fri_options`: hands `(blowup_factor(), fri_folding_factor, fri_remainder_max_degree)` to
    `FriOptions::new`, whose assertions hold for everything `ProofOptions::new` accepts; the resulting
    `FriOptions` (folding factor, remainder max degree, blowup factor) are the three numbers the model's
    `schedule` computes with -/
theorem gen_to_fri_options (o : Options) (h : o.accepted = true) :
    Gen.ProofOpts.to_fri_options o.blowup o.folding o.remainder = (o.folding, o.remainder, o.blowup) ∧
    Gen.ProofOpts.to_fri_options_ok o.blowup o.folding o.remainder = true := by
  unfold Options.accepted at h
  simp only [Bool.and_eq_true, decide_eq_true_eq] at h
  obtain ⟨⟨⟨⟨⟨⟨⟨⟨⟨⟨h1, h2⟩, h3⟩, h4⟩, h5⟩, h6⟩, h7⟩, h8⟩, h9⟩, h10⟩, h11⟩ := h
  have hf : ∀ x, x ≤ 16 → isPow2 x = true → 2 ≤ x → (x = 2 ∨ x = 4 ∨ x = 8 ∨ x = 16) := by decide
  have := hf o.folding h9 h7 h8
  unfold_gen Gen.ProofOpts
  unfold_gen Gen.FriOpts
  simp only [isPow2_eq, h3, Bool.and_eq_true, decide_eq_true_eq, true_and]
  omega

/-- the translated loop of `num_fri_layers` against the model's `friLayers` -/
theorem loop_eq (maxRem f : Nat) (hf : 2 ≤ f) :
    ∀ (fuel d r : Nat), d < 2 ^ fuel →
      (Gen.FriOpts.num_fri_layers.loop1 f maxRem fuel d r).2 = r + (friLayers d maxRem f).1 := by
  intro fuel
  induction fuel with
  | zero =>
    intro d r hd
    have : d = 0 := by omega
    subst this
    rw [friLayers]
    simp [Gen.FriOpts.num_fri_layers.loop1]
  | succ k ih =>
    intro d r hd
    rw [friLayers, Gen.FriOpts.num_fri_layers.loop1]
    unfold_gen Gen.FriOpts
    by_cases h : maxRem < d
    · have hd' : d / f < 2 ^ k := by
        have h1 : d / f ≤ d / 2 := Nat.div_le_div_left hf (by omega)
        have h2 : d / 2 < 2 ^ k := by rw [Nat.pow_succ] at hd; omega
        omega
      have hc : maxRem < d ∧ 2 ≤ f := ⟨h, hf⟩
      simp only [gt_iff_lt, h, decide_true, if_true, hc, and_self, dite_true]
      rw [ih (d / f) (r + 1) hd']
      omega
    · have hc : ¬ (maxRem < d ∧ 2 ≤ f) := fun c => h c.1
      simp [h]

/-- ★ `FriOptions::num_fri_layers` as translated from the source on this run equals the layer count of the
    model's FRI schedule, for every folding factor `≥ 2`, every `usize` domain size and every fuel `≥ 64` -/
theorem gen_num_fri_layers_eq_friLayers (b f r d N : Nat) (hf : 2 ≤ f) (hd : d < 18446744073709551616)
    (hN : 64 ≤ N) :
    Gen.FriOpts.num_fri_layers N b f r d = (friLayers d ((r + 1) * b) f).1 := by
  have e64 : (2 : Nat) ^ 64 = 18446744073709551616 := by decide
  have hd64 : d < 2 ^ 64 := by rw [e64]; exact hd
  have hpow : d < 2 ^ N := Nat.lt_of_lt_of_le hd64 (Nat.pow_le_pow_right (by omega) hN)
  unfold_gen Gen.FriOpts
  rw [loop_eq _ _ hf N d 0 hpow]; omega

/-- in terms of the schedule of an accepted option set -/
theorem gen_num_fri_layers_eq_schedule (o : Options) (h : o.accepted = true) (lde N : Nat)
    (hd : lde < 18446744073709551616) (hN : 64 ≤ N) :
    Gen.FriOpts.num_fri_layers N o.blowup o.folding o.remainder lde = (schedule lde o).layers := by
  unfold Options.accepted at h
  simp only [Bool.and_eq_true, decide_eq_true_eq] at h
  exact gen_num_fri_layers_eq_friLayers _ _ _ _ _ h.1.1.1.2 hd hN

end C01G
