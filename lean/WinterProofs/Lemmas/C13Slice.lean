-- C13 helper lemmas: the model of `SliceReader` (source + pos) is the in-memory reader `Mem` on `source[pos..]`
import Winter.Model.Reader
import WinterProofs.Lemmas.C13Generic

namespace WinterProofs.C13
open Model.Reader

/-- invariant of `SliceReader`: the position never passes the end -/
def SInv (t : Slice) : Prop := t.pos ≤ t.source.length

theorem rest_length (t : Slice) : t.rest.length = t.source.length - t.pos := by
  simp [Slice.rest]

theorem slice_checkEor (n : Nat) (t : Slice) (ht : SInv t) :
    Slice.checkEor t n = if t.rest.length < n then (.eof, t) else (.ok (), t) := by
  unfold Slice.checkEor SInv at *
  rw [rest_length]
  have h0 : ¬ t.source.length < t.pos := by omega
  by_cases h : n > t.source.length - t.pos
  · have : t.source.length - t.pos < n := by omega
    simp [h0, h]
  · have : ¬ t.source.length - t.pos < n := by omega
    simp [h0, h]

theorem slice_readSlice_refines (n : Nat) (t : Slice) (ht : SInv t) :
    Agree SInv Slice.rest (Slice.readSlice t n) (Mem.readSlice n t.rest) := by
  unfold Slice.readSlice andThen
  simp only [slice_checkEor n t ht]
  have hm : Mem.readSlice n t.rest = if t.rest.length < n then (.eof, t.rest) else (.ok (t.rest.take n), t.rest.drop n) := rfl
  rw [hm]
  have hl := rest_length t
  unfold SInv at ht
  by_cases h : t.rest.length < n
  · simp only [h, if_true]
    exact ⟨rfl, rfl, ht⟩
  · have hle : t.pos + n ≤ t.source.length := by omega
    simp only [h, if_false, hle, if_true]
    refine ⟨rfl, ?_, ?_⟩
    · simp [Slice.rest, List.drop_drop]
    · exact hle

theorem slice_readU8_refines (t : Slice) (ht : SInv t) :
    Agree SInv Slice.rest (Slice.readU8 t) (Mem.readU8 t.rest) := by
  unfold Slice.readU8 andThen
  simp only [slice_checkEor 1 t ht]
  have hl := rest_length t
  unfold SInv at ht
  by_cases h : t.rest.length < 1
  · have hr : t.rest = [] := List.eq_nil_of_length_eq_zero (by omega)
    simp only [h, if_true]
    rw [hr]
    exact ⟨rfl, hr, ht⟩
  · have hlt : t.pos < t.source.length := by omega
    have hr : t.rest = t.source[t.pos] :: t.source.drop (t.pos + 1) := by
      simp [Slice.rest]
    simp only [h, if_false, List.getElem?_eq_getElem hlt]
    rw [hr]
    exact ⟨rfl, rfl, hlt⟩

theorem slice_peekU8_refines (t : Slice) (ht : SInv t) :
    Agree SInv Slice.rest (Slice.peekU8 t) (Mem.peekU8 t.rest) := by
  unfold Slice.peekU8 andThen
  simp only [slice_checkEor 1 t ht]
  have hl := rest_length t
  unfold SInv at ht
  by_cases h : t.rest.length < 1
  · have hr : t.rest = [] := List.eq_nil_of_length_eq_zero (by omega)
    simp only [h, if_true]
    rw [hr]
    exact ⟨rfl, hr, ht⟩
  · have hlt : t.pos < t.source.length := by omega
    have hr : t.rest = t.source[t.pos] :: t.source.drop (t.pos + 1) := by
      simp [Slice.rest]
    simp only [h, if_false, List.getElem?_eq_getElem hlt]
    rw [hr]
    exact ⟨rfl, hr, ht⟩

theorem slice_hasMore_refines (t : Slice) (ht : SInv t) :
    Agree SInv Slice.rest (Slice.hasMore t) (Mem.hasMore t.rest) := by
  unfold Slice.hasMore
  have hl := rest_length t
  refine ⟨?_, rfl, ht⟩
  show decide (t.pos < t.source.length) = !t.rest.isEmpty
  rw [Bool.eq_iff_iff]
  simp [Slice.rest]

/-- the model of `SliceReader` is exactly the reader `Mem` on the bytes from `pos` on: same results (also
    for `check_eor`), never a panic -/
theorem slice_refines_mem : Refines Slice.reader SInv Slice.rest where
  readU8 := slice_readU8_refines
  peekU8 := slice_peekU8_refines
  readSlice := slice_readSlice_refines
  readArray := slice_readSlice_refines
  hasMore := slice_hasMore_refines
  checkEor := fun n t ht => by
    have he : Slice.reader.checkEor n t = Slice.checkEor t n := rfl
    rw [he, slice_checkEor n t ht]
    by_cases h : t.rest.length < n
    · rw [if_pos h]; exact ⟨rfl, ht, Or.inr ⟨rfl, h⟩⟩
    · rw [if_neg h]; exact ⟨rfl, ht, Or.inl rfl⟩

/-- `SliceReader::check_eor` is exact -/
theorem slice_checkEor_exact (n : Nat) (t : Slice) (ht : SInv t) :
    (Slice.checkEor t n).1 = (Mem.checkEor n t.rest).1 := by
  rw [slice_checkEor n t ht, mem_checkEor]
  by_cases h : t.rest.length < n <;> simp [h]

end WinterProofs.C13
